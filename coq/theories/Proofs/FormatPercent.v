(* Proofs/FormatPercent.v — pyanalyze's %-format checks versus CPython's `%`
   algorithm, on parsed templates of any length and argument tuples/dicts of
   any size.

   Key step: [steps_bridge] — on a template without mapping keys CPython's
   cursor machine (args/arglen/argidx) consumes the arguments exactly like a
   left-to-right walk over pyanalyze's get_serial_specifiers() list. *)
From Coq Require Import ZArith NArith List Bool Lia.
Import ListNotations.
Require Import PV.Gen.FormatRe PV.Format.Percent PV.Format.PyPercent PV.Format.Guards.
Require Import PV.Proofs.FormatConv.
Open Scope N_scope.

(* ---------------------------------------------------------------- cursor as a list *)
Definition st_items (st : argstate) : list obj :=
  match st with
  | STuple l => l
  | SSingle o false => [o]
  | SSingle _ true => []
  end.

Lemma getnext_nil : forall st, st_items st = [] -> getnext st = None.
Proof. intros [[|o l]|o [|]]; simpl; intros H; try discriminate; reflexivity. Qed.

Lemma getnext_cons : forall st o r, st_items st = o :: r ->
  exists st', getnext st = Some (o, st') /\ st_items st' = r.
Proof.
  intros [[|o' l]|o' [|]] o r; simpl; intros H; try discriminate; inversion H; subst.
  - exists (STuple r). split; reflexivity.
  - exists (SSingle o true). split; reflexivity.
Qed.

Lemma leftover_items : forall st, leftover st = nonempty (st_items st).
Proof. intros [[|o l]|o [|]]; reflexivity. Qed.

Definition serial_ok (is_bytes : bool) (s : serial) (o : obj) : bool :=
  match s with
  | SStar p => star_ok p o
  | SSpec cs => conv_ok is_bytes (c_type cs) o
  end.

Fixpoint consume (is_bytes : bool) (ss : list serial) (items : list obj) : option (list obj) :=
  match ss with
  | [] => Some items
  | s :: ss' =>
      match items with
      | [] => None
      | o :: r => if serial_ok is_bytes s o then consume is_bytes ss' r else None
      end
  end.

Lemma consume_app : forall is_bytes s1 s2 items,
  consume is_bytes (s1 ++ s2) items =
  match consume is_bytes s1 items with
  | Some r => consume is_bytes s2 r
  | None => None
  end.
Proof.
  intros is_bytes s1. induction s1 as [|s s1 IH]; intros s2 items; simpl; [reflexivity|].
  destruct items as [|o r]; [reflexivity|]. destruct (serial_ok is_bytes s o); [apply IH|reflexivity].
Qed.

(* no mapping key, and a '%' conversion is the bare "%%" *)
Definition clean_spec (cs : cspec) : bool :=
  negb (is_some (c_key cs)) && (negb (c_type cs =? ch_pct) || negb (has_options cs)).
Definition nums_ok_spec (cs : cspec) : bool :=
  num_ok false (c_width cs) && num_ok true (c_prec cs).

Lemma step_bridge : forall is_bytes a st cs, clean_spec cs = true ->
  option_map st_items (py_step is_bytes a st cs) =
  if nums_ok_spec cs then consume is_bytes (serial_of cs) (st_items st) else None.
Proof.
  intros is_bytes a st [t key fl w p lm] Hc.
  unfold clean_spec, has_options in Hc. simpl in Hc.
  destruct key as [k|]; simpl in Hc; [discriminate|].
  unfold py_step, nums_ok_spec, serial_of, has_options. simpl.
  destruct (t =? ch_pct) eqn:Et.
  - (* bare %% *)
    simpl in Hc. destruct fl; simpl in Hc; try discriminate.
    destruct w; simpl in Hc; try discriminate. destruct p; simpl in Hc; try discriminate.
    destruct lm; simpl in Hc; try discriminate. simpl. reflexivity.
  - simpl.
    destruct st as [[|o1 [|o2 [|o3 l]]]|o [|]];
      destruct w as [| |nw]; destruct p as [| |np]; simpl; unfold take_star; simpl;
      repeat match goal with
             | |- context [if ?c then _ else _] => destruct c; simpl
             end; reflexivity.
Qed.

Lemma steps_bridge : forall is_bytes a specs st, forallb clean_spec specs = true ->
  option_map st_items (py_steps is_bytes a st specs) =
  if forallb nums_ok_spec specs then consume is_bytes (serial_specifiers specs) (st_items st) else None.
Proof.
  intros is_bytes a specs. induction specs as [|cs specs IH]; intros st Hc; simpl.
  - reflexivity.
  - simpl in Hc. apply andb_true_iff in Hc. destruct Hc as [Hc1 Hc2].
    pose proof (step_bridge is_bytes a st cs Hc1) as Hs.
    unfold serial_specifiers in *. simpl. rewrite consume_app.
    destruct (nums_ok_spec cs); simpl.
    + destruct (py_step is_bytes a st cs) as [st'|]; simpl in Hs.
      * rewrite <- Hs. apply IH. exact Hc2.
      * rewrite <- Hs. destruct (forallb nums_ok_spec specs); reflexivity.
    + destruct (py_step is_bytes a st cs); simpl in Hs; [discriminate|reflexivity].
Qed.

(* ---------------------------------------------------------------- consume vs zip_accept *)
Lemma consume_short : forall is_bytes ss items,
  (length items < length ss)%nat -> consume is_bytes ss items = None.
Proof.
  intros is_bytes ss. induction ss as [|s ss IH]; intros items H; simpl in *; [lia|].
  destruct items as [|o r]; [reflexivity|]. simpl in H.
  destruct (serial_ok is_bytes s o); [apply IH; lia|reflexivity].
Qed.

Lemma consume_long : forall is_bytes ss items,
  (length ss < length items)%nat ->
  consume is_bytes ss items = None \/ exists r, consume is_bytes ss items = Some r /\ r <> [].
Proof.
  intros is_bytes ss. induction ss as [|s ss IH]; intros items H; simpl in *.
  - right. exists items. split; [reflexivity|]. destruct items; simpl in H; [lia|discriminate].
  - destruct items as [|o r]; [left; reflexivity|]. simpl in H.
    destruct (serial_ok is_bytes s o); [apply IH; lia|left; reflexivity].
Qed.

Lemma consume_exact_ok : forall is_bytes ss items,
  length items = length ss ->
  (forall s o, In (s, o) (combine ss items) -> serial_accept is_bytes s o = [] -> serial_ok is_bytes s o = true) ->
  zip_accept is_bytes ss items = [] -> consume is_bytes ss items = Some [].
Proof.
  intros is_bytes ss. induction ss as [|s ss IH]; intros items Hl Hp Hz; simpl in *.
  - destruct items; [reflexivity|discriminate].
  - destruct items as [|o r]; [discriminate|]. simpl in *.
    apply app_eq_nil in Hz. destruct Hz as [Hz1 Hz2].
    rewrite (Hp s o (or_introl eq_refl) Hz1).
    apply IH; [lia| |exact Hz2]. intros s' o' Hin. apply Hp. right. exact Hin.
Qed.

Lemma consume_exact_bad : forall is_bytes ss items,
  length items = length ss ->
  (forall s o, In (s, o) (combine ss items) -> serial_accept is_bytes s o <> [] -> serial_ok is_bytes s o = false) ->
  zip_accept is_bytes ss items <> [] -> consume is_bytes ss items = None.
Proof.
  intros is_bytes ss. induction ss as [|s ss IH]; intros items Hl Hp Hz; simpl in *.
  - destruct items; exfalso; apply Hz; reflexivity.
  - destruct items as [|o r]; [discriminate|]. simpl in *.
    destruct (serial_accept is_bytes s o) eqn:Ea.
    + simpl in Hz. destruct (serial_ok is_bytes s o); [|reflexivity].
      apply IH; [lia| |exact Hz]. intros s' o' Hin. apply Hp. right. exact Hin.
    + rewrite (Hp s o (or_introl eq_refl)); [reflexivity|]. rewrite Ea. discriminate.
Qed.

(* ---------------------------------------------------------------- lint facts *)
Lemma flat_map_nil : forall {A B} (f : A -> list B) l, flat_map f l = [] -> forall x, In x l -> f x = [].
Proof.
  intros A B f l. induction l as [|y l IH]; simpl; intros H x Hin; [contradiction|].
  apply app_eq_nil in H. destruct H as [H1 H2]. destruct Hin as [->|Hin]; [exact H1|apply IH; assumption].
Qed.

Lemma flat_map_not_nil : forall {A B} (f : A -> list B) l, flat_map f l <> [] -> exists x, In x l /\ f x <> [].
Proof.
  intros A B f l. induction l as [|y l IH]; simpl; intros H; [exfalso; apply H; reflexivity|].
  destruct (f y) eqn:E.
  - simpl in H. destruct (IH H) as [x [Hin Hx]]. exists x. split; [right; exact Hin|exact Hx].
  - exists y. split; [left; reflexivity|]. rewrite E. discriminate.
Qed.

Lemma pa_lint_nil : forall is_bytes specs, pa_lint is_bytes specs 0 = [] ->
  forall cs, In cs specs -> spec_lint is_bytes (needs_mapping specs) cs = [].
Proof.
  intros is_bytes specs H. unfold pa_lint in H. simpl in H. rewrite app_nil_r in H.
  apply flat_map_nil. exact H.
Qed.

(* what an empty spec_lint says *)
Lemma spec_lint_nil : forall is_bytes nm cs, spec_lint is_bytes nm cs = [] ->
  (c_type cs = ch_pct -> has_options cs = false) /\
  (c_type cs = ch_b -> is_bytes = true) /\
  (nm = true -> c_type cs <> ch_pct ->
   is_some (c_key cs) = true /\ is_star (c_prec cs) = false /\ is_star (c_width cs) = false).
Proof.
  intros is_bytes nm cs H. unfold spec_lint in H. apply app_eq_nil in H. destruct H as [H1 H2].
  repeat split.
  - intros Ht. rewrite Ht in H1. simpl in H1. destruct (has_options cs); [discriminate|reflexivity].
  - intros Ht. rewrite Ht in H1. simpl in H1. destruct is_bytes; [reflexivity|discriminate].
  - destruct (N.eqb_spec (c_type cs) ch_pct) as [e|ne]; [contradiction|].
    subst nm. simpl in H2. destruct (is_some (c_key cs)); [reflexivity|]. simpl in H2. discriminate.
  - destruct (N.eqb_spec (c_type cs) ch_pct) as [e|ne]; [contradiction|].
    subst nm. simpl in H2. destruct (is_star (c_prec cs)); [|reflexivity].
    rewrite orb_true_r in H2. simpl in H2. discriminate.
  - destruct (N.eqb_spec (c_type cs) ch_pct) as [e|ne]; [contradiction|].
    subst nm. simpl in H2. destruct (is_star (c_width cs)); [|reflexivity].
    rewrite !orb_true_r in H2. simpl in H2. discriminate.
Qed.

Lemma needs_mapping_false_keys : forall specs, needs_mapping specs = false ->
  forall cs, In cs specs -> is_some (c_key cs) = false.
Proof.
  intros specs H cs Hin. unfold needs_mapping in H.
  destruct (is_some (c_key cs)) eqn:E; [|reflexivity].
  assert (existsb (fun cs => is_some (c_key cs)) specs = true) as Hx
    by (apply existsb_exists; exists cs; split; assumption).
  congruence.
Qed.

Lemma clean_of_lint : forall is_bytes specs,
  needs_mapping specs = false -> pa_lint is_bytes specs 0 = [] -> forallb clean_spec specs = true.
Proof.
  intros is_bytes specs Hnm Hl. apply forallb_forall. intros cs Hin.
  pose proof (needs_mapping_false_keys specs Hnm cs Hin) as Hk.
  pose proof (pa_lint_nil is_bytes specs Hl cs Hin) as Hs.
  apply spec_lint_nil in Hs. destruct Hs as [Hp _].
  unfold clean_spec. rewrite Hk. simpl.
  destruct (N.eqb_spec (c_type cs) ch_pct) as [e|ne]; simpl; [rewrite (Hp e); reflexivity|reflexivity].
Qed.

(* the arguments as accept_tuple_args_no_mvv sees them = CPython's initial cursor *)
Definition all_args (a : args) : list obj :=
  match a with ATuple l => l | ADict _ => [OOther true] | AScalar o => [o] end.

Lemma init_items : forall a, st_items (init_state a) = all_args a.
Proof. intros [l|kvs|o]; reflexivity. Qed.

Lemma all_args_small : forall a, existsb obj_big (objs_of a) = false ->
  forall o, In o (all_args a) -> obj_big o = false.
Proof.
  intros a H o Hin. destruct a as [l|kvs|o']; simpl in *.
  - destruct (obj_big o) eqn:E; [|reflexivity].
    assert (existsb obj_big l = true) by (apply existsb_exists; exists o; split; assumption). congruence.
  - destruct Hin as [<-|[]]. reflexivity.
  - destruct Hin as [<-|[]]. rewrite orb_false_r in H. exact H.
Qed.

Lemma all_args_crange : forall is_bytes a, existsb (c_range_obj is_bytes) (objs_of a) = false ->
  forall o, In o (all_args a) -> c_range_obj is_bytes o = false.
Proof.
  intros is_bytes a H o Hin. destruct a as [l|kvs|o']; simpl in *.
  - destruct (c_range_obj is_bytes o) eqn:E; [|reflexivity].
    assert (existsb (c_range_obj is_bytes) l = true) by (apply existsb_exists; exists o; split; assumption). congruence.
  - destruct Hin as [<-|[]]. unfold c_range_obj. destruct is_bytes; reflexivity.
  - destruct Hin as [<-|[]]. rewrite orb_false_r in H. exact H.
Qed.

Lemma existsb_false_In : forall {A} (f : A -> bool) l, existsb f l = false -> forall x, In x l -> f x = false.
Proof.
  intros A f l H x Hin. destruct (f x) eqn:E; [|reflexivity].
  assert (existsb f l = true) by (apply existsb_exists; exists x; split; assumption). congruence.
Qed.

Lemma in_serial : forall specs cs, In (SSpec cs) (serial_specifiers specs) -> In cs specs /\ c_type cs <> ch_pct.
Proof.
  intros specs cs H. unfold serial_specifiers in H. apply in_flat_map in H.
  destruct H as [cs' [Hin Hs]]. unfold serial_of in Hs.
  apply in_app_or in Hs. destruct Hs as [Hs|Hs].
  { destruct (is_star (c_width cs')); simpl in Hs; [destruct Hs as [Hs|[]]; discriminate|contradiction]. }
  apply in_app_or in Hs. destruct Hs as [Hs|Hs].
  { destruct (is_star (c_prec cs')); simpl in Hs; [destruct Hs as [Hs|[]]; discriminate|contradiction]. }
  destruct (N.eqb_spec (c_type cs') ch_pct) as [e|ne]; simpl in Hs; [contradiction|].
  destruct Hs as [Hs|[]]. inversion Hs; subst. split; assumption.
Qed.

Lemma serial_nil_all_pct : forall specs, serial_specifiers specs = [] ->
  forallb (fun cs => c_type cs =? ch_pct) specs = true.
Proof.
  intros specs H. apply forallb_forall. intros cs Hin.
  pose proof (flat_map_nil serial_of specs H cs Hin) as Hs. unfold serial_of in Hs.
  apply app_eq_nil in Hs. destruct Hs as [_ Hs]. apply app_eq_nil in Hs. destruct Hs as [_ Hs].
  destruct (c_type cs =? ch_pct); [reflexivity|discriminate].
Qed.

(* ---------------------------------------------------------------- dict lookups *)
Lemma dict_has_lookup : forall kvs k, dict_has kvs k = true ->
  exists k' v, dict_lookup false (ADict kvs) k = Some v /\ In (KStr k', v) kvs /\ k' = k.
Proof.
  intros kvs k. unfold dict_has, dict_lookup.
  induction kvs as [|[d v] kvs IH]; simpl; intros H; [discriminate|].
  destruct d as [k'|k'|]; simpl in *.
  - destruct (list_eqb k k') eqn:E.
    + apply list_eqb_eq in E. subst. exists k', v. repeat split. left. reflexivity.
    + simpl in H. destruct (IH H) as [k2 [v2 [H1 [H2 H3]]]]. exists k2, v2. repeat split; auto.
  - destruct (IH H) as [k2 [v2 [H1 [H2 H3]]]]. exists k2, v2. repeat split; auto.
  - destruct (IH H) as [k2 [v2 [H1 [H2 H3]]]]. exists k2, v2. repeat split; auto.
Qed.

Lemma dict_has_false_lookup : forall kvs k, dict_has kvs k = false ->
  dict_lookup false (ADict kvs) k = None.
Proof.
  intros kvs k. unfold dict_has, dict_lookup.
  induction kvs as [|[d v] kvs IH]; simpl; intros H; [reflexivity|].
  destruct d as [k'|k'|]; simpl in *.
  - destruct (list_eqb k k'); simpl in H; [discriminate|apply IH; exact H].
  - apply IH; exact H.
  - apply IH; exact H.
Qed.

Lemma key_eqb_eq : forall is_bytes k d, key_eqb is_bytes k d = true ->
  d = (if is_bytes then KBytes k else KStr k).
Proof.
  intros is_bytes k [k'|k'|]; destruct is_bytes; simpl; intros H; try discriminate;
    apply list_eqb_eq in H; subst; reflexivity.
Qed.

Lemma nodup_lookup : forall kvs k v, NoDup (map fst kvs) -> In (KStr k, v) kvs ->
  dict_lookup false (ADict kvs) k = Some v.
Proof.
  intros kvs k v. unfold dict_lookup. induction kvs as [|[d w] kvs IH]; simpl; intros Hnd Hin; [contradiction|].
  inversion Hnd as [|x l Hnotin Hnd']; subst.
  destruct Hin as [Heq|Hin].
  - inversion Heq; subst. simpl. rewrite list_eqb_refl. reflexivity.
  - destruct (key_eqb false k d) eqn:E.
    + apply key_eqb_eq in E. subst d. exfalso. apply Hnotin.
      change (KStr k) with (fst (KStr k, v)). apply in_map. exact Hin.
    + apply IH; assumption.
Qed.

Local Opaque dict_lookup.

(* ---------------------------------------------------------------- a specifier that always raises *)
Lemma always_none : forall is_bytes a specs cs, In cs specs ->
  (forall st, py_step is_bytes a st cs = None) ->
  forall st, py_steps is_bytes a st specs = None.
Proof.
  intros is_bytes a specs cs. induction specs as [|c specs IH]; intros Hin Hn st; [contradiction|].
  simpl. destruct Hin as [->|Hin].
  - rewrite Hn. reflexivity.
  - destruct (py_step is_bytes a st c); [apply IH; assumption|reflexivity].
Qed.

Lemma pct_options_none : forall is_bytes a st cs,
  c_type cs = ch_pct -> has_options cs = true -> py_step is_bytes a st cs = None.
Proof.
  intros is_bytes a st cs Ht Ho. unfold py_step. rewrite Ht, Ho. simpl.
  destruct (c_key cs); [destruct (dict_flag is_bytes a); [destruct (dict_lookup is_bytes a l)|]|];
    try reflexivity;
    repeat match goal with
           | |- context [match take_star ?p ?f ?s with _ => _ end] => destruct (take_star p f s)
           end; reflexivity.
Qed.

Lemma conv_bad_none : forall is_bytes a st cs,
  c_type cs <> ch_pct -> (forall o, conv_ok is_bytes (c_type cs) o = false) ->
  py_step is_bytes a st cs = None.
Proof.
  intros is_bytes a st cs Ht Hc. unfold py_step.
  destruct (N.eqb_spec (c_type cs) ch_pct) as [e|ne]; [contradiction|]. simpl.
  destruct (c_key cs); [destruct (dict_flag is_bytes a); [destruct (dict_lookup is_bytes a l)|]|];
    try reflexivity;
    repeat match goal with
           | |- context [match take_star ?p ?f ?s with _ => _ end] => destruct (take_star p f s)
           end; try reflexivity;
    match goal with |- context [getnext ?s] => destruct (getnext s) as [[ox sx]|] end;
    try reflexivity; rewrite Hc; reflexivity.
Qed.

(* a keyed specifier whose looked-up value CPython cannot convert *)
Lemma keyed_bad_none : forall a st cs k v,
  c_type cs <> ch_pct -> c_key cs = Some k ->
  is_star (c_width cs) = false -> is_star (c_prec cs) = false ->
  dict_lookup false a k = Some v -> conv_ok false (c_type cs) v = false ->
  py_step false a st cs = None.
Proof.
  intros a st cs k v Ht Hk Hw Hp Hl Hc. unfold py_step.
  destruct (N.eqb_spec (c_type cs) ch_pct) as [e|ne]; [contradiction|]. simpl.
  rewrite Hk. destruct (dict_flag false a); [|reflexivity]. rewrite Hl.
  unfold take_star. rewrite Hw, Hp.
  destruct (num_ok false (c_width cs)); [|reflexivity].
  destruct (num_ok true (c_prec cs)); [|reflexivity].
  simpl. rewrite Hc. reflexivity.
Qed.

Lemma keyed_missing_none : forall is_bytes a st cs k,
  c_key cs = Some k -> has_options cs = true ->
  (dict_flag is_bytes a = false \/ dict_lookup is_bytes a k = None) ->
  py_step is_bytes a st cs = None.
Proof.
  intros is_bytes a st cs k Hk Ho Hd. unfold py_step. rewrite Ho, andb_false_r. rewrite Hk.
  destruct Hd as [Hd|Hd].
  - rewrite Hd. reflexivity.
  - rewrite Hd. destruct (dict_flag is_bytes a); reflexivity.
Qed.

Lemma key_has_options : forall cs k, c_key cs = Some k -> has_options cs = true.
Proof. intros cs k H. unfold has_options. rewrite H. reflexivity. Qed.

(* ================================================================ T1: raise => reported *)
Lemma tuple_mode_no_raise : forall is_bytes specs a,
  overflow_clause specs a = false ->
  needs_mapping specs = false ->
  pa_lint is_bytes specs 0 = [] ->
  accept_tuple is_bytes specs a = [] ->
  py_raises is_bytes specs a = false.
Proof.
  intros is_bytes specs a Hov Hnm Hl Ha.
  unfold overflow_clause in Hov. apply orb_false_iff in Hov. destruct Hov as [Hov1 Hov2].
  pose proof (clean_of_lint is_bytes specs Hnm Hl) as Hclean.
  pose proof (steps_bridge is_bytes a specs (init_state a) Hclean) as Hb.
  assert (forallb nums_ok_spec specs = true) as Hnums.
  { apply forallb_forall. intros cs Hin.
    pose proof (existsb_false_In _ _ Hov1 cs Hin) as Hbig. apply orb_false_iff in Hbig.
    unfold nums_ok_spec. rewrite !num_small_ok; tauto. }
  rewrite Hnums, init_items in Hb.
  unfold accept_tuple in Ha. fold (all_args a) in Ha.
  destruct (Nat.ltb_spec (length (all_args a)) (length (serial_specifiers specs))) as [|Hge]; [discriminate|].
  destruct (Nat.ltb_spec (length (serial_specifiers specs)) (length (all_args a))) as [|Hle]; [discriminate|].
  assert (consume is_bytes (serial_specifiers specs) (all_args a) = Some []) as Hcons.
  { apply consume_exact_ok; [lia| |exact Ha].
    intros s o Hin Hacc.
    pose proof (in_combine_r _ _ _ _ Hin) as Ho. pose proof (in_combine_l _ _ _ _ Hin) as Hs.
    pose proof (all_args_small a Hov2 o Ho) as Hsmall.
    destruct s as [p|cs]; simpl in *.
    - apply star_small_ok; [exact Hsmall|]. destruct (int_like o); [reflexivity|discriminate].
    - apply in_serial in Hs. destruct Hs as [Hcs Hpct].
      pose proof (pa_lint_nil is_bytes specs Hl cs Hcs) as Hsl. apply spec_lint_nil in Hsl.
      destruct Hsl as [_ [Hbb _]].
      apply accept_ok_conv_ok; assumption. }
  rewrite Hcons in Hb. unfold py_raises.
  destruct (py_steps is_bytes a (init_state a) specs) as [st'|]; simpl in Hb; [|discriminate].
  inversion Hb as [Hit]. rewrite leftover_items, Hit. reflexivity.
Qed.

Lemma mapping_steps_ok : forall kvs specs0 specs,
  (forall cs, In cs specs -> In cs specs0) ->
  (forall cs, In cs specs0 -> spec_lint false true cs = []) ->
  existsb (fun cs => fw_big (c_width cs) || fw_big (c_prec cs)) specs0 = false ->
  existsb obj_big (map snd kvs) = false ->
  (forall k v cs, In (KStr k, v) kvs -> In cs specs0 -> key_matches k cs = true -> spec_accept false cs v = []) ->
  (forall k, In k (spec_keys specs0) -> dict_has kvs k = true) ->
  forall st, exists st', py_steps false (ADict kvs) st specs = Some st'.
Proof.
  intros kvs specs0 specs. induction specs as [|cs specs IH]; intros Hsub Hlint Hov1 Hov2 Hp1 Hp2 st; simpl.
  - exists st. reflexivity.
  - assert (In cs specs0) as Hin by (apply Hsub; left; reflexivity).
    assert (exists st1, py_step false (ADict kvs) st cs = Some st1) as [st1 Hst1].
    { pose proof (Hlint cs Hin) as Hsl. apply spec_lint_nil in Hsl. destruct Hsl as [Hpct [Hbb Hcomb]].
      unfold py_step.
      destruct (N.eqb_spec (c_type cs) ch_pct) as [e|ne].
      - rewrite (Hpct e). simpl. exists st. reflexivity.
      - simpl. destruct (Hcomb eq_refl ne) as [Hk [Hps Hws]].
        destruct (c_key cs) as [k|] eqn:Ek; [|discriminate]. simpl.
        assert (In k (spec_keys specs0)) as Hkin.
        { unfold spec_keys. apply in_flat_map. exists cs. split; [exact Hin|].
          destruct (N.eqb_spec (c_type cs) ch_pct); [contradiction|]. rewrite Ek. left. reflexivity. }
        destruct (dict_has_lookup kvs k (Hp2 k Hkin)) as [k' [v [Hlk [Hinkv Hkk]]]]. subst k'.
        rewrite Hlk. unfold take_star. rewrite Hws, Hps.
        pose proof (existsb_false_In _ _ Hov1 cs Hin) as Hbig. apply orb_false_iff in Hbig.
        rewrite !num_small_ok by tauto. simpl.
        assert (conv_ok false (c_type cs) v = true) as Hc.
        { apply accept_ok_conv_ok.
          - intros Hb. specialize (Hbb Hb). discriminate.
          - apply (existsb_false_In _ _ Hov2). change v with (snd (KStr k, v)). apply in_map. exact Hinkv.
          - apply (Hp1 k v cs Hinkv Hin). unfold key_matches.
            destruct (N.eqb_spec (c_type cs) ch_pct); [contradiction|]. rewrite Ek. simpl. apply list_eqb_refl. }
        rewrite Hc. eexists. reflexivity. }
    rewrite Hst1. apply IH; auto. intros c Hc. apply Hsub. right. exact Hc.
Qed.

Lemma forallb_kstr_split : forall (kvs : list (dkey * obj)) k v,
  forallb (fun p => is_kstr (fst p)) kvs = true -> In (k, v) kvs -> exists s, k = KStr s.
Proof.
  intros kvs k v H Hin. rewrite forallb_forall in H. specialize (H (k, v) Hin). simpl in H.
  destruct k; try discriminate. eexists. reflexivity.
Qed.

Lemma mapping_mode_no_raise : forall specs kvs,
  overflow_clause specs (ADict kvs) = false ->
  needs_mapping specs = true ->
  forallb (fun p => is_kstr (fst p)) kvs = true ->
  pa_lint false specs 0 = [] ->
  accept_mapping false specs (ADict kvs) = [] ->
  py_raises false specs (ADict kvs) = false.
Proof.
  intros specs kvs Hov Hnm Hks Hl Ha.
  unfold overflow_clause in Hov. apply orb_false_iff in Hov. destruct Hov as [Hov1 Hov2]. simpl in Hov2.
  unfold accept_mapping in Ha. apply app_eq_nil in Ha. destruct Ha as [Ha1 Ha2]. rewrite Hks in Ha2. simpl in Ha2.
  destruct (py_steps false (ADict kvs) (init_state (ADict kvs)) specs) as [st'|] eqn:Est.
  - unfold py_raises. rewrite Est. simpl. apply andb_false_r.
  - exfalso.
    destruct (mapping_steps_ok kvs specs specs) with (st := init_state (ADict kvs)) as [st' Hst']; auto.
    + intros cs Hin. rewrite <- Hnm. apply (pa_lint_nil false specs Hl cs Hin).
    + intros k v cs Hkv Hcs Hkm.
      pose proof (flat_map_nil _ _ Ha1 (KStr k, v) Hkv) as H1. simpl in H1.
      pose proof (flat_map_nil _ _ H1 cs Hcs) as H2. simpl in H2. rewrite Hkm in H2. exact H2.
    + intros k Hk. destruct (forallb (dict_has kvs) (spec_keys specs)) eqn:E; [|simpl in Ha2; discriminate].
      rewrite forallb_forall in E. apply E. exact Hk.
    + congruence.
Qed.

Theorem percent_raise_reported : forall is_bytes specs a,
  overflow_clause specs a = false ->
  bytes_mapping_clause is_bytes specs = false ->
  nonstr_keys_clause specs a = false ->
  py_raises is_bytes specs a = true ->
  pa_reports is_bytes specs 0 a = true.
Proof.
  intros is_bytes specs a Hov Hbm Hns Hpy.
  destruct (pa_reports is_bytes specs 0 a) eqn:Hrep; [reflexivity|exfalso].
  unfold pa_reports in Hrep. apply orb_false_iff in Hrep. destruct Hrep as [Hl Ha].
  assert (pa_lint is_bytes specs 0 = []) as Hl' by (destruct (pa_lint is_bytes specs 0); [reflexivity|discriminate]).
  assert (pa_accept is_bytes specs a = []) as Ha' by (destruct (pa_accept is_bytes specs a); [reflexivity|discriminate]).
  clear Hl Ha.
  destruct specs as [|cs specs].
  - (* no specifiers: only () and {} are accepted silently *)
    simpl in Ha'. destruct a as [[|o l]|[|p kvs]|o]; simpl in Ha'; try discriminate;
      unfold py_raises in Hpy; simpl in Hpy; discriminate.
  - remember (cs :: specs) as sp eqn:Esp.
    assert (pa_accept is_bytes sp a =
            if needs_mapping sp then accept_mapping is_bytes sp a else accept_tuple is_bytes sp a) as Hacc
      by (subst sp; reflexivity).
    rewrite Hacc in Ha'. clear Hacc.
    destruct (needs_mapping sp) eqn:Hnm.
    + (* mapping template *)
      unfold bytes_mapping_clause in Hbm. rewrite Hnm, andb_true_r in Hbm. subst is_bytes.
      destruct a as [l|kvs|o]; try (simpl in Ha'; discriminate).
      unfold nonstr_keys_clause in Hns. rewrite Hnm in Hns. simpl in Hns. apply negb_false_iff in Hns.
      rewrite (mapping_mode_no_raise sp kvs Hov Hnm Hns Hl' Ha') in Hpy. discriminate.
    + rewrite (tuple_mode_no_raise is_bytes sp a Hov Hnm Hl' Ha') in Hpy. discriminate.
Qed.

(* ================================================================ T2: reported => raises, or a documented lint rule *)
Lemma lint_raises : forall is_bytes specs a,
  pa_lint is_bytes specs 0 <> [] -> lint_only is_bytes specs a = false ->
  py_raises is_bytes specs a = true.
Proof.
  intros is_bytes specs a Hl Hlo.
  unfold pa_lint in Hl. simpl in Hl. rewrite app_nil_r in Hl.
  destruct (flat_map_not_nil _ _ Hl) as [cs [Hin Hcs]].
  assert (forall st, py_step is_bytes a st cs = None) as Hnone.
  { intros st. unfold spec_lint in Hcs.
    destruct (N.eqb_spec (c_type cs) ch_pct) as [e|ne].
    - destruct (has_options cs) eqn:Ho; [apply pct_options_none; assumption|].
      exfalso. simpl in Hcs. rewrite andb_false_r in Hcs. simpl in Hcs. apply Hcs. reflexivity.
    - destruct (if needs_mapping specs && negb false &&
                   (negb (is_some (c_key cs)) || is_star (c_prec cs) || is_star (c_width cs))
                then [LCombine] else []) eqn:Ecomb.
      + rewrite app_nil_r in Hcs.
        destruct (N.eqb_spec (c_type cs) ch_b) as [eb|neb]; [|exfalso; apply Hcs; reflexivity].
        destruct is_bytes; [exfalso; apply Hcs; reflexivity|].
        apply conv_bad_none; [exact ne|]. intros o. rewrite eb. reflexivity.
      + (* LCombine is a documented lint rule: excluded by lint_only = false *)
        exfalso. destruct specs as [|c0 specs']; [contradiction|].
        unfold lint_only in Hlo. remember (c0 :: specs') as sp.
        assert (existsb is_combine (pa_lint is_bytes sp 0) = true) as Hx.
        { apply existsb_exists. exists LCombine. split; [|reflexivity].
          unfold pa_lint. apply in_or_app. left. apply in_flat_map. exists cs. split; [exact Hin|].
          unfold spec_lint. apply in_or_app. right.
          destruct (N.eqb_spec (c_type cs) ch_pct); [contradiction|].
          simpl in Ecomb. simpl.
          destruct (needs_mapping sp && true && (negb (is_some (c_key cs)) || is_star (c_prec cs) || is_star (c_width cs)));
            [left; reflexivity|discriminate]. }
        subst sp. congruence. }
  unfold py_raises. rewrite (always_none is_bytes a specs cs Hin Hnone). reflexivity.
Qed.

Lemma tuple_mode_raises : forall is_bytes specs a,
  specs <> [] ->
  c_range_clause is_bytes specs a = false ->
  escape_only_mapping_clause is_bytes specs a = false ->
  needs_mapping specs = false ->
  pa_lint is_bytes specs 0 = [] ->
  accept_tuple is_bytes specs a <> [] ->
  py_raises is_bytes specs a = true.
Proof.
  intros is_bytes specs a Hne Hcr Hesc Hnm Hl Ha.
  pose proof (clean_of_lint is_bytes specs Hnm Hl) as Hclean.
  pose proof (steps_bridge is_bytes a specs (init_state a) Hclean) as Hb.
  rewrite init_items in Hb. unfold py_raises.
  destruct (forallb nums_ok_spec specs).
  2:{ destruct (py_steps is_bytes a (init_state a) specs); [discriminate|reflexivity]. }
  unfold accept_tuple in Ha. fold (all_args a) in Ha.
  destruct (Nat.ltb_spec (length (all_args a)) (length (serial_specifiers specs))) as [Hlt|Hge].
  { rewrite consume_short in Hb by exact Hlt.
    destruct (py_steps is_bytes a (init_state a) specs); [discriminate|reflexivity]. }
  destruct (Nat.ltb_spec (length (serial_specifiers specs)) (length (all_args a))) as [Hlt|Hle].
  { destruct (consume_long is_bytes _ _ Hlt) as [Hc|[r [Hc Hr]]]; rewrite Hc in Hb.
    - destruct (py_steps is_bytes a (init_state a) specs); [discriminate|reflexivity].
    - destruct (py_steps is_bytes a (init_state a) specs) as [st'|]; [|reflexivity].
      simpl in Hb. inversion Hb as [Hit]. rewrite leftover_items, Hit.
      destruct r; [contradiction|]. simpl.
      (* a dict-like argument that nothing consumes: the escape-only class *)
      destruct (dict_flag is_bytes a) eqn:Hdf; [|reflexivity]. exfalso.
      unfold escape_only_mapping_clause in Hesc. rewrite Hdf in Hesc.
      assert (length (all_args a) = 1%nat) as Hone by (destruct a; simpl in *; [discriminate|reflexivity|reflexivity]).
      assert (serial_specifiers specs = []) as Hnil by (destruct (serial_specifiers specs); [reflexivity|simpl in Hlt; lia]).
      rewrite (serial_nil_all_pct specs Hnil) in Hesc.
      destruct specs; [contradiction|]. simpl in Hesc. discriminate. }
  assert (consume is_bytes (serial_specifiers specs) (all_args a) = None) as Hcons.
  { apply consume_exact_bad; [lia| |exact Ha].
    intros s o Hin Hacc.
    pose proof (in_combine_r _ _ _ _ Hin) as Ho. pose proof (in_combine_l _ _ _ _ Hin) as Hs.
    destruct s as [p|cs]; simpl in *.
    - apply star_not_int_bad. destruct (int_like o); [exfalso; apply Hacc; reflexivity|reflexivity].
    - apply in_serial in Hs. destruct Hs as [Hcs _].
      apply accept_err_conv_bad; [|exact Hacc].
      destruct (c_type cs =? ch_c) eqn:Ec; [|reflexivity]. simpl.
      unfold c_range_clause in Hcr.
      assert (existsb (fun cs => c_type cs =? ch_c) specs = true) as Hx
        by (apply existsb_exists; exists cs; split; assumption).
      rewrite Hx in Hcr. simpl in Hcr. apply (all_args_crange is_bytes a Hcr o Ho). }
  rewrite Hcons in Hb. destruct (py_steps is_bytes a (init_state a) specs); [discriminate|reflexivity].
Qed.

Lemma needs_mapping_witness : forall specs, needs_mapping specs = true ->
  exists cs k, In cs specs /\ c_key cs = Some k.
Proof.
  intros specs H. unfold needs_mapping in H. apply existsb_exists in H. destruct H as [cs [Hin Hk]].
  destruct (c_key cs) as [k|] eqn:E; [|discriminate]. exists cs, k. split; [exact Hin|exact E].
Qed.

Lemma mapping_mode_raises : forall specs a,
  c_range_clause false specs a = false ->
  dict_keys_unique a ->
  needs_mapping specs = true ->
  pa_lint false specs 0 = [] ->
  accept_mapping false specs a <> [] ->
  py_raises false specs a = true.
Proof.
  intros specs a Hcr Hnd Hnm Hl Ha.
  assert (exists cs, In cs specs /\ forall st, py_step false a st cs = None) as [cs [Hin Hnone]].
  { destruct a as [l|kvs|o].
    - (* a tuple is not a mapping *)
      destruct (needs_mapping_witness specs Hnm) as [cs [k [Hin Hk]]]. exists cs. split; [exact Hin|].
      intros st. apply (keyed_missing_none false (ATuple l) st cs k Hk (key_has_options cs k Hk)). left. reflexivity.
    - simpl in Hnd. unfold accept_mapping in Ha.
      destruct (flat_map
                  (fun p : dkey * obj =>
                   match fst p with
                   | KStr k => flat_map (fun cs => if key_matches k cs then spec_accept false cs (snd p) else []) specs
                   | _ => []
                   end) kvs) eqn:Efm.
      + (* a key of the template is missing from the dict *)
        simpl in Ha.
        destruct (forallb (fun p => is_kstr (fst p)) kvs && negb (forallb (dict_has kvs) (spec_keys specs))) eqn:Ec;
          [|exfalso; apply Ha; reflexivity].
        apply andb_true_iff in Ec. destruct Ec as [_ Ec]. apply negb_true_iff in Ec.
        assert (exists k, In k (spec_keys specs) /\ dict_has kvs k = false) as [k [Hk Hdh]].
        { clear - Ec. induction (spec_keys specs) as [|k ks IH]; simpl in Ec; [discriminate|].
          destruct (dict_has kvs k) eqn:E.
          - simpl in Ec. destruct (IH Ec) as [k' [H1 H2]]. exists k'. split; [right; exact H1|exact H2].
          - exists k. split; [left; reflexivity|exact E]. }
        unfold spec_keys in Hk. apply in_flat_map in Hk. destruct Hk as [cs [Hin Hk]].
        destruct (c_type cs =? ch_pct); [contradiction|].
        destruct (c_key cs) as [k'|] eqn:Ek; [|contradiction]. destruct Hk as [<-|[]].
        exists cs. split; [exact Hin|]. intros st.
        apply (keyed_missing_none false (ADict kvs) st cs k' Ek (key_has_options cs k' Ek)).
        right. apply dict_has_false_lookup. exact Hdh.
      + (* a value of the dict is rejected by its specifier *)
        assert (flat_map
                  (fun p : dkey * obj =>
                   match fst p with
                   | KStr k => flat_map (fun cs => if key_matches k cs then spec_accept false cs (snd p) else []) specs
                   | _ => []
                   end) kvs <> []) as Hne by (rewrite Efm; discriminate).
        destruct (flat_map_not_nil _ _ Hne) as [[d v] [Hkv Hp]]. simpl in Hp.
        destruct d as [k|k|]; try (exfalso; apply Hp; reflexivity).
        destruct (flat_map_not_nil _ _ Hp) as [cs [Hin Hcs]].
        destruct (key_matches k cs) eqn:Ekm; [|exfalso; apply Hcs; reflexivity].
        unfold key_matches in Ekm. apply andb_true_iff in Ekm. destruct Ekm as [Hpct Hkey].
        apply negb_true_iff in Hpct. apply N.eqb_neq in Hpct.
        destruct (c_key cs) as [k'|] eqn:Ek; [|discriminate]. apply list_eqb_eq in Hkey. subst k'.
        pose proof (pa_lint_nil false specs Hl cs Hin) as Hsl. rewrite Hnm in Hsl.
        apply spec_lint_nil in Hsl. destruct Hsl as [_ [_ Hcomb]].
        destruct (Hcomb eq_refl Hpct) as [_ [Hps Hws]].
        exists cs. split; [exact Hin|]. intros st.
        apply (keyed_bad_none (ADict kvs) st cs k v Hpct Ek Hws Hps).
        * apply nodup_lookup; assumption.
        * apply accept_err_conv_bad; [|exact Hcs].
          destruct (c_type cs =? ch_c) eqn:Ec; [|reflexivity]. simpl.
          unfold c_range_clause in Hcr.
          assert (existsb (fun cs => c_type cs =? ch_c) specs = true) as Hx
            by (apply existsb_exists; exists cs; split; assumption).
          rewrite Hx in Hcr. simpl in Hcr.
          apply (existsb_false_In _ _ Hcr). change v with (snd (KStr k, v)). apply in_map. exact Hkv.
    - (* a scalar: either not a mapping at all, or subscripting it with the key fails *)
      destruct (needs_mapping_witness specs Hnm) as [cs [k [Hin Hk]]]. exists cs. split; [exact Hin|].
      intros st. apply (keyed_missing_none false (AScalar o) st cs k Hk (key_has_options cs k Hk)). right. reflexivity. }
  unfold py_raises. rewrite (always_none false a specs cs Hin Hnone). reflexivity.
Qed.

Theorem percent_report_sound : forall is_bytes specs a,
  c_range_clause is_bytes specs a = false ->
  bytes_mapping_clause is_bytes specs = false ->
  escape_only_mapping_clause is_bytes specs a = false ->
  dict_keys_unique a ->
  pa_reports is_bytes specs 0 a = true ->
  py_raises is_bytes specs a = true \/ lint_only is_bytes specs a = true.
Proof.
  intros is_bytes specs a Hcr Hbm Hesc Hnd Hrep.
  destruct (lint_only is_bytes specs a) eqn:Hlo; [right; reflexivity|left].
  unfold pa_reports in Hrep.
  destruct (pa_lint is_bytes specs 0) eqn:Hl.
  2:{ apply lint_raises; [rewrite Hl; discriminate|exact Hlo]. }
  simpl in Hrep.
  assert (pa_accept is_bytes specs a <> []) as Ha
    by (destruct (pa_accept is_bytes specs a); [discriminate|discriminate]).
  destruct specs as [|cs specs].
  - (* "use of % on string with no conversion specifiers" is a documented lint rule *)
    exfalso. simpl in Ha, Hlo. destruct (args_empty a); [apply Ha; reflexivity|discriminate].
  - remember (cs :: specs) as sp eqn:Esp.
    assert (pa_accept is_bytes sp a =
            if needs_mapping sp then accept_mapping is_bytes sp a else accept_tuple is_bytes sp a) as Hacc
      by (subst sp; reflexivity).
    rewrite Hacc in Ha. clear Hacc.
    destruct (needs_mapping sp) eqn:Hnm.
    + unfold bytes_mapping_clause in Hbm. rewrite Hnm, andb_true_r in Hbm. subst is_bytes.
      apply mapping_mode_raises; assumption.
    + apply tuple_mode_raises; try assumption. subst sp. discriminate.
Qed.

(* ================================================================ result type, examples, refutations *)
Theorem percent_result_type : forall is_bytes, pa_result_is_bytes is_bytes = py_result_is_bytes is_bytes.
Proof. reflexivity. Qed.

(* the full statements (no guards) and their refutations on the faithful model *)
Definition percent_raise_reported_full_statement : Prop :=
  forall is_bytes specs a, py_raises is_bytes specs a = true -> pa_reports is_bytes specs 0 a = true.

Definition percent_report_sound_full_statement : Prop :=
  forall is_bytes specs a, dict_keys_unique a -> pa_reports is_bytes specs 0 a = true ->
    py_raises is_bytes specs a = true \/ lint_only is_bytes specs a = true.

(* "%d" % 1e999 *)
Lemma raise_reported_refuted_overflow :
  py_raises false [bare 100] (AScalar (OFloat false)) = true /\
  pa_reports false [bare 100] 0 (AScalar (OFloat false)) = false.
Proof. split; vm_compute; reflexivity. Qed.

(* b"%(a)s" % {"a": b"x"} *)
Lemma raise_reported_refuted_bytes_keys :
  let cs := mk_cspec 115 (Some [97]) None FNone FNone None in
  py_raises true [cs] (ADict [(KStr [97], OBytes [120])]) = true /\
  pa_reports true [cs] 0 (ADict [(KStr [97], OBytes [120])]) = false.
Proof. split; vm_compute; reflexivity. Qed.

(* "%(a)s" % {1: 2} *)
Lemma raise_reported_refuted_nonstr_keys :
  let cs := mk_cspec 115 (Some [97]) None FNone FNone None in
  py_raises false [cs] (ADict [(KOther, OInt 2)]) = true /\
  pa_reports false [cs] 0 (ADict [(KOther, OInt 2)]) = false.
Proof. split; vm_compute; reflexivity. Qed.

Lemma raise_reported_refuted : ~ percent_raise_reported_full_statement.
Proof.
  intros H. specialize (H false [bare 100] (AScalar (OFloat false))).
  destruct raise_reported_refuted_overflow as [H1 H2]. rewrite (H H1) in H2. discriminate.
Qed.

(* "%c" % 300 *)
Lemma report_sound_refuted_c_range :
  pa_reports false [bare 99] 0 (AScalar (OInt 300)) = true /\
  py_raises false [bare 99] (AScalar (OInt 300)) = false /\
  lint_only false [bare 99] (AScalar (OInt 300)) = false.
Proof. repeat split; vm_compute; reflexivity. Qed.

(* "%%" % {"a": 1} *)
Lemma report_sound_refuted_escape_only :
  pa_reports false [bare 37] 0 (ADict [(KStr [97], OInt 1)]) = true /\
  py_raises false [bare 37] (ADict [(KStr [97], OInt 1)]) = false /\
  lint_only false [bare 37] (ADict [(KStr [97], OInt 1)]) = false.
Proof. repeat split; vm_compute; reflexivity. Qed.

Lemma report_sound_refuted : ~ percent_report_sound_full_statement.
Proof.
  intros H. specialize (H false [bare 99] (AScalar (OInt 300)) I).
  destruct report_sound_refuted_c_range as [H1 [H2 H3]].
  destruct (H H1) as [H4|H4]; congruence.
Qed.

(* the hypotheses of both theorems are satisfiable by non-trivial inputs:
   "%(a)d and %(b)s" % {"a": "x", "b": 1}  (raises, reported)
   "%*d %c" % (5, 3, 65)                   (fine, silent)
   "%s" % (1, 2)                           (raises, reported)   *)
Example percent_guards_inhabited :
  let sa := mk_cspec 100 (Some [97]) None FNone FNone None in
  let sb := mk_cspec 115 (Some [98]) None FNone FNone None in
  let d := ADict [(KStr [97], OStr [120]); (KStr [98], OInt 1)] in
  let s1 := mk_cspec 100 None None FStar FNone None in
  let t := ATuple [OInt 5; OInt 3; OInt 65] in
  (overflow_clause [sa; sb] d = false /\ bytes_mapping_clause false [sa; sb] = false /\
   nonstr_keys_clause [sa; sb] d = false /\ c_range_clause false [sa; sb] d = false /\
   escape_only_mapping_clause false [sa; sb] d = false /\
   py_raises false [sa; sb] d = true /\ pa_reports false [sa; sb] 0 d = true) /\
  (overflow_clause [s1; bare 99] t = false /\ c_range_clause false [s1; bare 99] t = false /\
   py_raises false [s1; bare 99] t = false /\ pa_reports false [s1; bare 99] 0 t = false) /\
  (py_raises false [bare 115] (ATuple [OInt 1; OInt 2]) = true /\
   pa_reports false [bare 115] 0 (ATuple [OInt 1; OInt 2]) = true).
Proof. vm_compute. repeat split; reflexivity. Qed.

(* ================================================================ character level *)
(* when the two template parsers split a template identically (decided by
   computation for each template; differential-tested outside the known
   classes), the theorems above transfer to templates given as characters *)
Theorem percent_chars_raise_reported : forall is_bytes t a specs pieces,
  pa_scan is_bytes t = Some (specs, pieces) -> count_bad_pieces pieces = 0%nat ->
  py_scan is_bytes t = PSOk specs ->
  overflow_clause specs a = false ->
  bytes_mapping_clause is_bytes specs = false ->
  nonstr_keys_clause specs a = false ->
  py_raises_chars is_bytes t a = Some true ->
  pa_reports_chars is_bytes t a = Some true.
Proof.
  intros is_bytes t a specs pieces Hpa Hbad Hpy Hov Hbm Hns Hr.
  unfold py_raises_chars in Hr. rewrite Hpy in Hr. injection Hr as Hr'.
  unfold pa_reports_chars, pa_check_chars. rewrite Hpa, Hbad.
  pose proof (percent_raise_reported is_bytes specs a Hov Hbm Hns Hr') as H.
  unfold pa_reports in H. rewrite H. reflexivity.
Qed.

Theorem percent_chars_report_sound : forall is_bytes t a specs pieces,
  pa_scan is_bytes t = Some (specs, pieces) -> count_bad_pieces pieces = 0%nat ->
  py_scan is_bytes t = PSOk specs ->
  c_range_clause is_bytes specs a = false ->
  bytes_mapping_clause is_bytes specs = false ->
  escape_only_mapping_clause is_bytes specs a = false ->
  dict_keys_unique a ->
  pa_reports_chars is_bytes t a = Some true ->
  py_raises_chars is_bytes t a = Some true \/ lint_only is_bytes specs a = true.
Proof.
  intros is_bytes t a specs pieces Hpa Hbad Hpy Hcr Hbm Hesc Hnd Hr.
  unfold pa_reports_chars, pa_check_chars in Hr. rewrite Hpa, Hbad in Hr. injection Hr as Hr'.
  unfold py_raises_chars. rewrite Hpy.
  destruct (percent_report_sound is_bytes specs a Hcr Hbm Hesc Hnd) as [H|H].
  - unfold pa_reports. exact Hr'.
  - left. rewrite H. reflexivity.
  - right. exact H.
Qed.
