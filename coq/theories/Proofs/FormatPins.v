(* Proofs/FormatPins.v — the constants of pyanalyze/format_strings.py that the
   hand-written scanner model (Format/Percent.v) was written for.  Gen/FormatRe.v is
   regenerated from the source on every run; if the regex, its flags, the
   conversion-type sets or the %c range change, these equalities stop checking. *)
From Coq Require Import NArith ZArith List.
Import ListNotations.
Require Import PV.Gen.FormatRe PV.Format.Percent.

(* the text of _FORMAT_STRING_REGEX the scanner [pa_scan] implements *)
Definition expected_regex_text : list N := [10; 32; 32; 32; 32; 40; 63; 80; 60; 112; 114; 101; 95; 109; 97; 116; 99; 104; 62; 46; 42; 63; 41; 32; 32; 35; 32; 115; 116; 117; 102; 102; 32; 98; 101; 102; 111; 114; 101; 32; 116; 104; 101; 32; 109; 97; 116; 99; 104; 10; 32; 32; 32; 32; 40; 10; 32; 32; 32; 32; 32; 32; 32; 32; 37; 32; 32; 35; 32; 115; 116; 97; 114; 116; 105; 110; 103; 32; 99; 104; 97; 114; 97; 99; 116; 101; 114; 10; 32; 32; 32; 32; 32; 32; 32; 32; 40; 63; 80; 60; 109; 97; 112; 112; 105; 110; 103; 95; 107; 101; 121; 62; 92; 40; 91; 94; 92; 41; 93; 43; 92; 41; 41; 63; 10; 32; 32; 32; 32; 32; 32; 32; 32; 40; 63; 80; 60; 99; 111; 110; 118; 101; 114; 115; 105; 111; 110; 95; 102; 108; 97; 103; 115; 62; 91; 35; 48; 92; 45; 32; 43; 93; 43; 41; 63; 10; 32; 32; 32; 32; 32; 32; 32; 32; 40; 63; 80; 60; 102; 105; 101; 108; 100; 95; 119; 105; 100; 116; 104; 62; 92; 42; 124; 92; 100; 43; 41; 63; 10; 32; 32; 32; 32; 32; 32; 32; 32; 40; 63; 80; 60; 112; 114; 101; 99; 105; 115; 105; 111; 110; 62; 92; 46; 40; 92; 42; 124; 92; 100; 43; 41; 41; 63; 10; 32; 32; 32; 32; 32; 32; 32; 32; 40; 63; 80; 60; 108; 101; 110; 103; 116; 104; 95; 109; 111; 100; 105; 102; 105; 101; 114; 62; 91; 104; 108; 76; 93; 41; 63; 10; 32; 32; 32; 32; 32; 32; 32; 32; 40; 63; 80; 60; 99; 111; 110; 118; 101; 114; 115; 105; 111; 110; 95; 116; 121; 112; 101; 62; 91; 100; 105; 111; 117; 120; 88; 101; 69; 102; 70; 103; 71; 99; 114; 115; 37; 98; 97; 93; 41; 10; 32; 32; 32; 32; 124; 10; 32; 32; 32; 32; 32; 32; 32; 32; 36; 32; 32; 35; 32; 111; 114; 32; 117; 110; 116; 105; 108; 32; 116; 104; 101; 32; 101; 110; 100; 32; 111; 102; 32; 116; 104; 101; 32; 115; 116; 114; 105; 110; 103; 10; 32; 32; 32; 32; 41; 10]%N.

Lemma regex_pinned : regex_text = expected_regex_text /\ regex_flags = [2; 1]%N.
Proof. split; reflexivity. Qed.

(* set("diouxXeEfFgG"), set("oxX"), {"r","s","a"} (sorted), range(256) in the %c branch *)
Lemma conversion_sets_pinned :
  numeric_conversion_types = [69; 70; 71; 88; 100; 101; 102; 103; 105; 111; 117; 120]%N /\
  integer_conversion_types = [88; 111; 120]%N /\
  format_string_conversions = [97; 114; 115]%N /\
  c_range_bounds = [c_limit].
Proof. repeat split; reflexivity. Qed.

(* the hand-written Signature of str.format in get_default_argspecs binds the
   receiver positionally only, then *args and **kwargs — the parameter kinds
   CPython exhibits (Gen/FormatSigs.v, regenerated on every run).  A keyword
   argument called `self`, `args` or `kwargs` is therefore a field name. *)
Require Import PV.Gen.FormatSigs.
Lemma str_format_signature_pinned :
  map snd str_format_params_src = str_format_kinds_cpython /\
  str_format_kinds_cpython = [0; 2; 4]%N.
Proof. split; reflexivity. Qed.
