(* Proofs/FormatScan.v — the regex-scanner model (Percent.pa_scan) and the model
   of CPython's template parser (PyPercent.py_scan) split a template
   identically, for templates of any length over the fragment
       no '(' , and every character the regex takes for a digit is an ASCII digit,
   whenever the regex scanner leaves no '%' in a raw piece.
   This discharges the hypotheses `py_scan = PSOk specs` of
   C17_percent_chars_raise_reported / _report_sound on that fragment. *)
From Coq Require Import ZArith NArith List Bool Lia.
Import ListNotations.
Require Import PV.Gen.FormatRe PV.Format.Percent PV.Format.PyPercent PV.Format.Guards.
Require Import PV.Proofs.FormatPercent.
Open Scope N_scope.

Definition ok_char (is_bytes : bool) (c : N) : bool :=
  negb (c =? ch_lpar) && (negb (is_re_digit is_bytes c) || is_ascii_digit c).
Definition frag (is_bytes : bool) (s : list N) : bool := forallb (ok_char is_bytes) s.

(* ---------------------------------------------------------------- suffixes *)
Definition suffix (r s : list N) : Prop := exists p, s = p ++ r.

Lemma suffix_refl : forall s, suffix s s.
Proof. intros s. exists []. reflexivity. Qed.
Lemma suffix_cons : forall c r s, suffix r s -> suffix r (c :: s).
Proof. intros c r s [p H]. exists (c :: p). rewrite H. reflexivity. Qed.
Lemma suffix_trans : forall a b c, suffix a b -> suffix b c -> suffix a c.
Proof. intros a b c [p H] [q G]. exists (q ++ p). rewrite G, H, app_assoc. reflexivity. Qed.
Lemma suffix_frag : forall b r s, suffix r s -> frag b s = true -> frag b r = true.
Proof. intros b r s [p H] F. subst s. unfold frag in *. rewrite forallb_app in F. apply andb_true_iff in F. tauto. Qed.
Lemma suffix_length : forall r s, suffix r s -> (length r <= length s)%nat.
Proof. intros r s [p H]. subst s. rewrite app_length. lia. Qed.

Lemma span_suffix : forall p s, suffix (snd (span p s)) s.
Proof.
  intros p s. induction s as [|c s IH]; simpl; [apply suffix_refl|].
  destruct (p c); [|apply suffix_refl].
  destruct (span p s) as [a r]. simpl in *. apply suffix_cons. exact IH.
Qed.

Lemma span_ext : forall (p q : N -> bool) s, (forall c, In c s -> p c = q c) -> span p s = span q s.
Proof.
  intros p q s. induction s as [|c s IH]; intros H; simpl; [reflexivity|].
  rewrite <- (H c (or_introl eq_refl)). destruct (p c); [|reflexivity].
  rewrite IH; [reflexivity|]. intros x Hx. apply H. right. exact Hx.
Qed.

Lemma span_fst_all : forall p s c, In c (fst (span p s)) -> p c = true /\ In c s.
Proof.
  intros p s. induction s as [|d s IH]; simpl; intros c H; [contradiction|].
  destruct (p d) eqn:E; [|contradiction].
  destruct (span p s) as [a r]. simpl in *. destruct H as [<-|H]; [tauto|].
  destruct (IH c H). tauto.
Qed.

(* ---------------------------------------------------------------- the integer fields agree *)
Lemma frag_digit : forall b s c, frag b s = true -> In c s -> is_re_digit b c = is_ascii_digit c.
Proof.
  intros b s c F H. unfold frag in F. rewrite forallb_forall in F. specialize (F c H).
  unfold ok_char in F. apply andb_true_iff in F. destruct F as [_ F].
  destruct (is_re_digit b c) eqn:E; simpl in F.
  - symmetry. exact F.
  - unfold is_re_digit in E. apply orb_false_iff in E. symmetry. tauto.
Qed.

Lemma fold_left_ext_in : forall (f g : N -> N -> N) l a,
  (forall acc x, In x l -> f acc x = g acc x) -> fold_left f l a = fold_left g l a.
Proof.
  intros f g l. induction l as [|x l IH]; intros a H; simpl; [reflexivity|].
  rewrite (H a x (or_introl eq_refl)). apply IH. intros acc y Hy. apply H. right. exact Hy.
Qed.

Lemma digits_value_ascii : forall ds, (forall d, In d ds -> is_ascii_digit d = true) ->
  digits_value ds = ascii_digits_value ds.
Proof.
  intros ds H. unfold digits_value, ascii_digits_value. apply fold_left_ext_in.
  intros acc x Hx. unfold digit_val. rewrite (H x Hx). reflexivity.
Qed.

Lemma int_field_agree : forall b s, frag b s = true -> scan_int_field b s = py_int_field s.
Proof.
  intros b s F. unfold scan_int_field, py_int_field. destruct s as [|c s']; [reflexivity|].
  destruct (c =? ch_star); [reflexivity|].
  rewrite (span_ext (is_re_digit b) is_ascii_digit (c :: s')) by (intros x Hx; apply (frag_digit b (c :: s')); assumption).
  destruct (span is_ascii_digit (c :: s')) as [ds rest] eqn:E.
  destruct ds as [|d ds]; [reflexivity|].
  rewrite digits_value_ascii; [reflexivity|].
  intros x Hx. apply (span_fst_all is_ascii_digit (c :: s') x). rewrite E. exact Hx.
Qed.

Lemma py_int_field_suffix : forall s, suffix (snd (py_int_field s)) s.
Proof.
  intros s. unfold py_int_field. destruct s as [|c s']; [apply suffix_refl|].
  destruct (c =? ch_star); [simpl; apply suffix_cons, suffix_refl|].
  pose proof (span_suffix is_ascii_digit (c :: s')) as H.
  destruct (span is_ascii_digit (c :: s')) as [ds rest]. destruct ds; simpl in *; [apply suffix_refl|exact H].
Qed.

(* ---------------------------------------------------------------- one specifier *)
Lemma spec_tail_agree : forall b key s2 r,
  frag b s2 = true ->
  spec_tail (scan_int_field b) None key s2 = Some r ->
  spec_tail py_int_field (Some (FNum 0)) key s2 = Some r.
Proof.
  intros b key s2 r F H. unfold spec_tail in *.
  pose proof (span_suffix (fun x => mem x flag_chars) s2) as Hs3.
  destruct (span (fun x => mem x flag_chars) s2) as [fl s3]. simpl in Hs3.
  pose proof (suffix_frag b _ _ Hs3 F) as F3.
  rewrite (int_field_agree b s3 F3) in H.
  pose proof (py_int_field_suffix s3) as Hs4.
  destruct (py_int_field s3) as [width s4]. simpl in Hs4.
  pose proof (suffix_frag b _ _ Hs4 F3) as F4.
  destruct s4 as [|c s5]; [exact H|].
  destruct (c =? ch_dot); [|exact H].
  assert (frag b s5 = true) as F5 by (apply (suffix_frag b s5 (c :: s5)); [apply suffix_cons, suffix_refl|exact F4]).
  rewrite (int_field_agree b s5 F5) in H.
  destruct (py_int_field s5) as [[| |n] r5]; [discriminate|exact H|exact H].
Qed.

Lemma spec_tail_suffix : forall intf de key s2 cs rest,
  (forall s, suffix (snd (intf s)) s) ->
  spec_tail intf de key s2 = Some (cs, rest) -> suffix rest s2 /\ (length rest < length s2)%nat.
Proof.
  intros intf de key s2 cs rest Hi H. unfold spec_tail in H.
  pose proof (span_suffix (fun x => mem x flag_chars) s2) as Hs3.
  destruct (span (fun x => mem x flag_chars) s2) as [fl s3]. simpl in Hs3.
  pose proof (Hi s3) as Hs4. destruct (intf s3) as [width s4]. simpl in Hs4.
  assert (suffix s4 s2) as H42 by (eapply suffix_trans; eassumption).
  assert (forall prec s6, suffix s6 s2 ->
          (let (lm, s7) := match s6 with
                           | c :: s' => if mem c len_chars then (Some c, s') else (None, s6)
                           | [] => (None, s6)
                           end in
           match s7 with
           | c :: s8 => if mem c conv_chars then Some (mk_cspec c key (match fl with [] => None | _ => Some fl end) width prec lm, s8) else None
           | [] => None
           end) = Some (cs, rest) -> suffix rest s2 /\ (length rest < length s2)%nat) as Hfin.
  { intros prec s6 H6 G.
    destruct s6 as [|c s']; [discriminate|].
    destruct (mem c len_chars).
    - destruct s' as [|d s8]; [discriminate|]. destruct (mem d conv_chars); [|discriminate].
      injection G as _ <-.
      assert (suffix s8 (c :: d :: s8)) as Hx by (apply suffix_cons, suffix_cons, suffix_refl).
      split; [eapply suffix_trans; eassumption|].
      pose proof (suffix_length _ _ H6). simpl in *. lia.
    - destruct (mem c conv_chars); [|discriminate]. injection G as _ <-.
      assert (suffix s' (c :: s')) as Hx by (apply suffix_cons, suffix_refl).
      split; [eapply suffix_trans; eassumption|].
      pose proof (suffix_length _ _ H6). simpl in *. lia. }
  destruct s4 as [|c s5]; [apply (Hfin FNone []); assumption|].
  destruct (c =? ch_dot).
  - pose proof (Hi s5) as Hs6. destruct (intf s5) as [pr r5]. simpl in Hs6.
    assert (suffix r5 s2) as Hr5.
    { eapply suffix_trans; [exact Hs6|]. eapply suffix_trans; [|exact H42]. apply suffix_cons, suffix_refl. }
    destruct pr as [| |n].
    + destruct de as [p|]; [|discriminate]. apply (Hfin p r5); assumption.
    + apply (Hfin FStar r5); assumption.
    + apply (Hfin (FNum n) r5); assumption.
  - apply (Hfin FNone (c :: s5)); assumption.
Qed.

Lemma scan_int_field_suffix : forall b s, suffix (snd (scan_int_field b s)) s.
Proof.
  intros b s. unfold scan_int_field. destruct s as [|c s']; [apply suffix_refl|].
  destruct (c =? ch_star); [simpl; apply suffix_cons, suffix_refl|].
  pose proof (span_suffix (is_re_digit b) (c :: s')) as H.
  destruct (span (is_re_digit b) (c :: s')) as [ds rest]. destruct ds; simpl in *; [apply suffix_refl|exact H].
Qed.

(* the regex alternative matched a specifier after a '%': CPython's parser reads the same one *)
Lemma try_spec_py : forall b s cs rest,
  frag b s = true -> try_spec b s = Some (cs, rest) ->
  py_parse_spec b s = Some (cs, rest) /\ suffix rest s /\ (length rest < length s)%nat.
Proof.
  intros b s cs rest F H. unfold try_spec in H. unfold py_parse_spec.
  destruct s as [|c s'].
  - unfold spec_tail in H. simpl in H. discriminate.
  - assert (c =? ch_lpar = false) as Hl.
    { unfold frag in F. simpl in F. apply andb_true_iff in F. destruct F as [F _].
      unfold ok_char in F. apply andb_true_iff in F. destruct F as [F _]. apply negb_true_iff in F. exact F. }
    rewrite Hl in *.
    destruct (spec_tail_suffix _ _ _ _ _ _ (scan_int_field_suffix b) H) as [Hsuf Hlen].
    destruct (c =? ch_pct) eqn:Ep.
    + apply N.eqb_eq in Ep. subst c. unfold spec_tail in H. simpl in H.
      assert (is_re_digit b ch_pct = false) as Hd by (destruct b; reflexivity).
      rewrite Hd in H. simpl in H. injection H as <- <-.
      repeat split; [apply suffix_cons, suffix_refl|simpl; lia].
    + split; [apply (spec_tail_agree b None (c :: s') (cs, rest) F H)|split; assumption].
Qed.

(* ---------------------------------------------------------------- one regex match *)
Lemma find_match_spec : forall b fuel pre_rev s first must pre sp rest empty,
  (first = true -> pre_rev = []) ->
  find_match b fuel pre_rev s first must = OM pre sp rest empty ->
  exists skipped s', s = skipped ++ s' /\ pre = rev pre_rev ++ skipped /\
    match sp with
    | Some cs => exists s'', s' = ch_pct :: s'' /\ try_spec b s'' = Some (cs, rest)
    | None => rest = s' /\ at_dollar s' = true
    end /\ (empty = true -> pre = []).
Proof.
  intros b fuel. induction fuel as [|fuel IH]; intros pre_rev s first must pre sp rest empty Hf H.
  - (* no fuel: only an immediate match *)
    simpl in H.
    assert (forall (X : onematch), (if at_dollar s && negb (first && must) then OM (rev pre_rev) None s first else X) = OM pre sp rest empty ->
            X = NoMatch -> exists skipped s', s = skipped ++ s' /\ pre = rev pre_rev ++ skipped /\
              match sp with Some cs => exists s'', s' = ch_pct :: s'' /\ try_spec b s'' = Some (cs, rest) | None => rest = s' /\ at_dollar s' = true end
              /\ (empty = true -> pre = [])) as Hd.
    { intros X G HX. destruct (at_dollar s && negb (first && must)) eqn:E; [|subst X; discriminate].
      injection G as <- <- <- <-. exists [], s. rewrite app_nil_r. apply andb_true_iff in E.
      repeat split; try tauto. intros Hfirst. rewrite (Hf Hfirst). reflexivity. }
    destruct s as [|c s'].
    + apply (Hd NoMatch); [|reflexivity]. destruct (at_dollar [] && negb (first && must)); exact H.
    + destruct (c =? ch_pct) eqn:Ep.
      * destruct (try_spec b s') as [[cs r]|] eqn:Et.
        -- injection H as <- <- <- <-. apply N.eqb_eq in Ep. subst c.
           exists [], (ch_pct :: s'). rewrite app_nil_r. repeat split; try reflexivity; [|discriminate].
           exists s'. split; [reflexivity|exact Et].
        -- apply (Hd NoMatch); [|reflexivity]. destruct (at_dollar (c :: s') && negb (first && must)); exact H.
      * apply (Hd NoMatch); [|reflexivity]. destruct (at_dollar (c :: s') && negb (first && must)); exact H.
  - simpl in H.
    (* the `$` alternative, or one more character of the lazy prefix *)
    assert ((match (if at_dollar s && negb (first && must) then Some (OM (rev pre_rev) None s first) else None) with
             | Some m => m
             | None => match s with c :: s' => find_match b fuel (c :: pre_rev) s' false must | [] => NoMatch end
             end) = OM pre sp rest empty ->
            exists skipped s', s = skipped ++ s' /\ pre = rev pre_rev ++ skipped /\
              match sp with Some cs => exists s'', s' = ch_pct :: s'' /\ try_spec b s'' = Some (cs, rest) | None => rest = s' /\ at_dollar s' = true end
              /\ (empty = true -> pre = [])) as Hstep.
    { intros G. destruct (at_dollar s && negb (first && must)) eqn:E.
      - injection G as <- <- <- <-. exists [], s. rewrite app_nil_r. apply andb_true_iff in E.
        repeat split; try tauto. intros Hfirst. rewrite (Hf Hfirst). reflexivity.
      - destruct s as [|c s']; [discriminate|].
        destruct (IH (c :: pre_rev) s' false must pre sp rest empty) as [sk [s2 [H1 [H2 [H3 H4]]]]]; [discriminate|exact G|].
        exists (c :: sk), s2. subst s'. split; [reflexivity|]. split.
        + rewrite H2. simpl. rewrite <- app_assoc. reflexivity.
        + split; assumption. }
    destruct s as [|c s'].
    + apply Hstep. exact H.
    + destruct (c =? ch_pct) eqn:Ep.
      * destruct (try_spec b s') as [[cs r]|] eqn:Et.
        -- injection H as <- <- <- <-. apply N.eqb_eq in Ep. subst c.
           exists [], (ch_pct :: s'). rewrite app_nil_r. repeat split; try reflexivity; [|discriminate].
           exists s'. split; [reflexivity|exact Et].
        -- apply Hstep. exact H.
      * apply Hstep. exact H.
Qed.

(* with enough fuel, no match at all means: end of the string and an empty match is forbidden *)
Lemma find_match_nomatch : forall b s fuel pre_rev first must,
  (length s <= fuel)%nat -> find_match b fuel pre_rev s first must = NoMatch ->
  s = [] /\ first = true /\ must = true.
Proof.
  intros b s. induction s as [|c s IH]; intros fuel pre_rev first must Hlen H.
  - destruct fuel; simpl in H; destruct first; destruct must; simpl in H; try discriminate; tauto.
  - exfalso. destruct fuel as [|fuel]; [simpl in Hlen; lia|]. simpl in Hlen. simpl in H.
    assert ((match (if at_dollar (c :: s) && negb (first && must) then Some (OM (rev pre_rev) None (c :: s) first) else None) with
             | Some m => m
             | None => find_match b fuel (c :: pre_rev) s false must
             end) = NoMatch -> False) as Hstep.
    { intros G. destruct (at_dollar (c :: s) && negb (first && must)); [discriminate|].
      destruct (IH fuel (c :: pre_rev) false must) as [_ [Hx _]]; [lia|exact G|discriminate]. }
    destruct (c =? ch_pct).
    + destruct (try_spec b s) as [[cs r]|]; [discriminate|apply Hstep; exact H].
    + apply Hstep. exact H.
Qed.

(* ---------------------------------------------------------------- CPython's loop *)
Lemma py_fuel_mono : forall b f s r, py_scan_loop b f s = r -> r <> PSFuel ->
  forall f', (f <= f')%nat -> py_scan_loop b f' s = r.
Proof.
  intros b f. induction f as [|f IH]; intros s r H Hr f' Hle.
  - simpl in H. subst r. contradiction.
  - destruct f' as [|f']; [lia|]. simpl in *. destruct s as [|c s']; [exact H|].
    destruct (c =? ch_pct).
    + destruct (py_parse_spec b s') as [[cs rest]|]; [|exact H].
      destruct (py_scan_loop b f rest) as [l| |] eqn:E.
      * rewrite (IH rest (PSOk l) E) by (discriminate || lia). exact H.
      * rewrite (IH rest PSValueError E) by (discriminate || lia). exact H.
      * subst r. contradiction.
    + apply IH; [exact H|exact Hr|lia].
Qed.

Lemma py_skip : forall b sk s' f, mem ch_pct sk = false ->
  py_scan_loop b (length sk + f) (sk ++ s') = py_scan_loop b f s'.
Proof.
  intros b sk. induction sk as [|c sk IH]; intros s' f H; [reflexivity|].
  change (mem ch_pct (c :: sk)) with ((ch_pct =? c) || mem ch_pct sk) in H.
  apply orb_false_iff in H. destruct H as [Hc Hs].
  change (py_scan_loop b (S (length sk + f)) (c :: (sk ++ s')) = py_scan_loop b f s').
  cbn [py_scan_loop]. rewrite N.eqb_sym in Hc. rewrite Hc. apply IH. exact Hs.
Qed.

Definition specs_of (ms : list (list N * option cspec)) : list cspec :=
  flat_map (fun m => match snd m with Some cs => [cs] | None => [] end) ms.

(* the matches of the regex, when no prefix contains '%', are what CPython's loop reads *)
Lemma scan_loop_py : forall b fuel s must ms,
  frag b s = true -> scan_loop b fuel s must = Some ms ->
  (forall m, In m ms -> mem ch_pct (fst m) = false) ->
  exists f0, forall f, (f0 <= f)%nat -> py_scan_loop b f s = PSOk (specs_of ms).
Proof.
  intros b fuel. induction fuel as [|fuel IH]; intros s must ms F H Hp; [discriminate|].
  simpl in H. destruct (find_match b (length s) [] s true must) as [pre sp rest empty|] eqn:Em.
  - destruct (scan_loop b fuel rest empty) as [l|] eqn:El; [|discriminate]. injection H as <-.
    destruct (find_match_spec b _ _ _ _ _ _ _ _ _ (fun _ => eq_refl) Em) as [sk [s' [Hs [Hpre [Hsp _]]]]].
    simpl in Hpre. subst pre s.
    assert (mem ch_pct sk = false) as Hsk by (apply (Hp (sk, sp)); left; reflexivity).
    assert (frag b s' = true) as F' by (apply (suffix_frag b s' (sk ++ s')); [exists sk; reflexivity|exact F]).
    assert (forall m, In m l -> mem ch_pct (fst m) = false) as Hp' by (intros m Hm; apply Hp; right; exact Hm).
    destruct sp as [cs|].
    + destruct Hsp as [s'' [-> Ht]].
      assert (frag b s'' = true) as F'' by (apply (suffix_frag b s'' (ch_pct :: s'')); [apply suffix_cons, suffix_refl|exact F']).
      destruct (try_spec_py b s'' cs rest F'' Ht) as [Hpy [Hsuf _]].
      destruct (IH rest empty l (suffix_frag b _ _ Hsuf F'') El Hp') as [f1 Hf1].
      exists (length sk + S f1)%nat. intros f Hf.
      replace f with (length sk + S (f - length sk - 1))%nat by lia.
      rewrite py_skip by exact Hsk. cbn [py_scan_loop]. rewrite N.eqb_refl, Hpy.
      rewrite Hf1 by lia. reflexivity.
    + destruct Hsp as [-> Hd].
      destruct (IH s' empty l F' El Hp') as [f1 Hf1].
      exists (length sk + f1)%nat. intros f Hf.
      replace f with (length sk + (f - length sk))%nat by lia.
      rewrite py_skip by exact Hsk. rewrite Hf1 by lia. reflexivity.
  - injection H as <-.
    destruct (find_match_nomatch b s (length s) [] true must (le_n _) Em) as [-> _].
    exists 1%nat. intros f Hf. destruct f; [lia|reflexivity].
Qed.

(* CPython's loop never runs out of fuel length + 1 *)
Lemma py_parse_spec_shorter : forall b s cs rest, py_parse_spec b s = Some (cs, rest) -> (length rest < length s)%nat.
Proof.
  intros b s cs rest H. unfold py_parse_spec in H. destruct s as [|c s']; [discriminate|].
  destruct (c =? ch_pct); [injection H as _ <-; simpl; lia|].
  destruct (c =? ch_lpar).
  - destruct (scan_key 0 [] s') as [[k r]|] eqn:Ek; [|discriminate].
    assert (forall d acc s k r, scan_key d acc s = Some (k, r) -> (length r < length s)%nat) as Hk.
    { clear. intros d acc s. revert d acc. induction s as [|c s IH]; intros d acc k r H; simpl in H; [discriminate|].
      destruct (c =? ch_rpar).
      - destruct d; [injection H as _ <-; simpl; lia|]. specialize (IH _ _ _ _ H). simpl; lia.
      - destruct (c =? ch_lpar); specialize (IH _ _ _ _ H); simpl; lia. }
    specialize (Hk _ _ _ _ _ Ek).
    destruct (spec_tail_suffix _ _ _ _ _ _ py_int_field_suffix H) as [_ Hl]. simpl. lia.
  - destruct (spec_tail_suffix _ _ _ _ _ _ py_int_field_suffix H) as [_ Hl]. exact Hl.
Qed.

Lemma py_fuel_enough : forall b n s, (length s < n)%nat -> py_scan_loop b n s <> PSFuel.
Proof.
  intros b n. induction n as [|n IH]; intros s Hl; [lia|].
  simpl. destruct s as [|c s']; [discriminate|]. simpl in Hl.
  destruct (c =? ch_pct).
  - destruct (py_parse_spec b s') as [[cs rest]|] eqn:E; [|discriminate].
    pose proof (py_parse_spec_shorter b s' cs rest E) as Hr.
    pose proof (IH rest ltac:(lia)) as Hn.
    destruct (py_scan_loop b n rest); [discriminate|discriminate|contradiction].
  - apply IH. lia.
Qed.

(* ---------------------------------------------------------------- raw pieces *)
Lemma mem_app_nl : forall p, mem ch_pct (p ++ [ch_nl]) = mem ch_pct p.
Proof. intros p. unfold mem. rewrite existsb_app. simpl. rewrite orb_false_r. reflexivity. Qed.

Lemma count_bad_add_nl : forall ps, count_bad_pieces (add_nl_to_last ps) = count_bad_pieces ps.
Proof.
  unfold count_bad_pieces. induction ps as [|p ps IH]; [reflexivity|].
  destruct ps as [|q ps].
  - simpl. rewrite mem_app_nl. destruct (mem ch_pct p); reflexivity.
  - change (add_nl_to_last (p :: q :: ps)) with (p :: add_nl_to_last (q :: ps)).
    remember (q :: ps) as l eqn:El. cbn [filter]. destruct (mem ch_pct p); cbn [length]; rewrite IH; reflexivity.
Qed.

Lemma count_bad_zero : forall ps, count_bad_pieces ps = 0%nat -> forall p, In p ps -> mem ch_pct p = false.
Proof.
  unfold count_bad_pieces. induction ps as [|q ps IH]; intros H p Hin; [contradiction|].
  simpl in H. destruct (mem ch_pct q) eqn:E; [discriminate|].
  destruct Hin as [<-|Hin]; [exact E|apply IH; assumption].
Qed.

(* the last match of finditer is the empty match at the end: its prefix is empty *)
Lemma scan_loop_last : forall b fuel s must ms,
  scan_loop b fuel s must = Some ms -> ms <> [] -> fst (last ms ([], None)) = [].
Proof.
  intros b fuel. induction fuel as [|fuel IH]; intros s must ms H Hne; [discriminate|].
  simpl in H. destruct (find_match b (length s) [] s true must) as [pre sp rest empty|] eqn:Em.
  - destruct (scan_loop b fuel rest empty) as [l|] eqn:El; [|discriminate]. injection H as <-.
    destruct l as [|m l].
    + (* the next search found nothing: this match was empty *)
      simpl. destruct fuel as [|fuel]; [discriminate|]. simpl in El.
      destruct (find_match b (length rest) [] rest true empty) as [? ? ? ?|] eqn:Em2.
      * destruct (scan_loop b fuel rest0 empty0); discriminate.
      * destruct (find_match_nomatch b rest (length rest) [] true empty (le_n _) Em2) as [_ [_ He]].
        destruct (find_match_spec b _ _ _ _ _ _ _ _ _ (fun _ => eq_refl) Em) as [_ [_ [_ [_ [_ Hempty]]]]].
        apply Hempty. exact He.
    + change (last ((pre, sp) :: m :: l) ([], None)) with (last (m :: l) ([], None)).
      apply (IH rest empty (m :: l) El). discriminate.
  - injection H as <-. contradiction.
Qed.

Lemma removelast_In : forall {A} (l : list A) x d, In x l -> x <> last l d \/ True -> In x (removelast l) \/ x = last l d.
Proof.
  intros A l. induction l as [|a l IH]; intros x d H _; [contradiction|].
  destruct l as [|b l].
  - destruct H as [<-|[]]. right. reflexivity.
  - change (removelast (a :: b :: l)) with (a :: removelast (b :: l)).
    change (last (a :: b :: l) d) with (last (b :: l) d).
    destruct H as [<-|H]; [left; left; reflexivity|].
    destruct (IH x d H (or_intror I)) as [G|G]; [left; right; exact G|right; exact G].
Qed.

(* ---------------------------------------------------------------- the theorem *)
Theorem scan_agree_fragment : forall is_bytes t specs pieces,
  frag is_bytes t = true ->
  pa_scan is_bytes t = Some (specs, pieces) -> count_bad_pieces pieces = 0%nat ->
  py_scan is_bytes t = PSOk specs.
Proof.
  intros b t specs pieces F H Hbad. unfold pa_scan in H.
  destruct (scan_loop b (2 * length t + 3) t false) as [ms|] eqn:El; [|discriminate].
  injection H as Hspecs Hpieces.
  (* no raw match prefix contains '%' *)
  assert (forall m, In m ms -> mem ch_pct (fst m) = false) as Hp.
  { intros m Hm.
    set (raw := map fst ms) in *.
    set (dropped := if (length raw =? length (flat_map (fun m => match snd m with Some cs => [cs] | None => [] end) ms) + 2)%nat
                    then removelast raw else raw) in *.
    assert (count_bad_pieces dropped = 0%nat) as Hd.
    { rewrite <- Hpieces in Hbad. destruct (ends_with_nl t); [rewrite count_bad_add_nl in Hbad|]; exact Hbad. }
    assert (In (fst m) raw) as Hin by (apply in_map; exact Hm).
    unfold dropped in Hd.
    destruct (length raw =? length (flat_map (fun m => match snd m with Some cs => [cs] | None => [] end) ms) + 2)%nat.
    - destruct (removelast_In raw (fst m) [] Hin (or_intror I)) as [G|G].
      + apply (count_bad_zero _ Hd). exact G.
      + assert (ms <> []) as Hne by (intros ->; contradiction).
        pose proof (scan_loop_last b _ _ _ _ El Hne) as Hl.
        assert (last raw [] = fst (last ms ([], None))) as Hlm.
        { unfold raw. clear - Hne. induction ms as [|a ms IH]; [contradiction|].
          destruct ms as [|a' ms]; [reflexivity|].
          change (last (map fst (a :: a' :: ms)) []) with (last (map fst (a' :: ms)) []).
          change (last (a :: a' :: ms) ([], None)) with (last (a' :: ms) ([], None)). apply IH. discriminate. }
        rewrite G, Hlm, Hl. reflexivity.
    - apply (count_bad_zero _ Hd). exact Hin. }
  destruct (scan_loop_py b _ _ _ _ F El Hp) as [f0 Hf0].
  unfold py_scan.
  pose proof (py_fuel_enough b (S (length t)) t (Nat.lt_succ_diag_r _)) as Hne.
  pose proof (py_fuel_mono b (S (length t)) t _ eq_refl Hne (Nat.max f0 (S (length t))) (Nat.le_max_r _ _)) as Hm.
  rewrite (Hf0 _ (Nat.le_max_l _ _)) in Hm. rewrite <- Hm. unfold specs_of. rewrite Hspecs. reflexivity.
Qed.

(* ---------------------------------------------------------------- the % theorems on characters, fragment *)
Lemma nonempty_app_r : forall {A} (l r : list A), nonempty r = true -> nonempty (l ++ r) = true.
Proof. intros A l r H. destruct l; [exact H|reflexivity]. Qed.

(* CPython raises ==> pyanalyze reports, for templates given as characters over
   the fragment; no hypothesis about CPython's parser is left *)
Theorem percent_fragment_raise_reported : forall is_bytes t a specs pieces,
  frag is_bytes t = true ->
  pa_scan is_bytes t = Some (specs, pieces) ->
  overflow_clause specs a = false ->
  bytes_mapping_clause is_bytes specs = false ->
  nonstr_keys_clause specs a = false ->
  py_raises_chars is_bytes t a = Some true ->
  pa_reports_chars is_bytes t a = Some true.
Proof.
  intros b t a specs pieces F Hpa Hov Hbm Hns Hr.
  destruct (count_bad_pieces pieces) as [|k] eqn:Hbad.
  - apply (percent_chars_raise_reported b t a specs pieces); try assumption.
    apply (scan_agree_fragment b t specs pieces); assumption.
  - (* a raw piece contains '%': "invalid conversion specifier" is reported *)
    unfold pa_reports_chars, pa_check_chars. rewrite Hpa, Hbad.
    unfold pa_lint. rewrite nonempty_app_r by reflexivity. reflexivity.
Qed.

Theorem percent_fragment_report_sound : forall is_bytes t a specs pieces,
  frag is_bytes t = true ->
  pa_scan is_bytes t = Some (specs, pieces) -> count_bad_pieces pieces = 0%nat ->
  c_range_clause is_bytes specs a = false ->
  bytes_mapping_clause is_bytes specs = false ->
  escape_only_mapping_clause is_bytes specs a = false ->
  dict_keys_unique a ->
  pa_reports_chars is_bytes t a = Some true ->
  py_raises_chars is_bytes t a = Some true \/ lint_only is_bytes specs a = true.
Proof.
  intros b t a specs pieces F Hpa Hbad Hcr Hbm Hesc Hnd Hr.
  apply (percent_chars_report_sound b t a specs pieces); try assumption.
  apply (scan_agree_fragment b t specs pieces); assumption.
Qed.

(* the fragment is not empty: "a%-5.2ld%%b\n" *)
Example fragment_example :
  let t := [97; 37; 45; 53; 46; 50; 108; 100; 37; 37; 98; 10] in
  frag false t = true /\
  pa_scan false t = Some ([mk_cspec 100 None (Some [45]) (FNum 5) (FNum 2) (Some 108); bare 37], [[97]; []; [98]; []; [10]; [10]]) /\
  py_scan false t = PSOk [mk_cspec 100 None (Some [45]) (FNum 5) (FNum 2) (Some 108); bare 37].
Proof. vm_compute. repeat split; reflexivity. Qed.

(* ================================================================ phase 3: pa_scan is total; no '(' means no mapping key *)
Lemma try_spec_shorter : forall b s cs rest, try_spec b s = Some (cs, rest) -> (length rest < length s)%nat.
Proof.
  intros b s cs rest H. unfold try_spec in H. destruct s as [|c s1].
  - destruct (spec_tail_suffix _ _ _ _ _ _ (scan_int_field_suffix b) H) as [_ Hl]. exact Hl.
  - destruct (c =? ch_lpar).
    + pose proof (span_suffix (fun x => negb (x =? ch_rpar)) s1) as Hs.
      destruct (span (fun x => negb (x =? ch_rpar)) s1) as [k r]. simpl in Hs.
      destruct k as [|k0 k]; [discriminate|]. destruct r as [|r0 r']; [discriminate|].
      destruct (spec_tail_suffix _ _ _ _ _ _ (scan_int_field_suffix b) H) as [_ Hl].
      pose proof (suffix_length _ _ Hs). simpl in *. lia.
    + destruct (spec_tail_suffix _ _ _ _ _ _ (scan_int_field_suffix b) H) as [_ Hl]. exact Hl.
Qed.

(* progress of one regex match *)
Lemma find_match_progress : forall b fuel pre_rev s first must pre sp rest empty,
  find_match b fuel pre_rev s first must = OM pre sp rest empty ->
  (empty = true -> first = true /\ must = false /\ rest = s) /\
  (empty = false -> (length rest <= length s)%nat /\ (first = true -> (length rest < length s)%nat)).
Proof.
  intros b fuel. induction fuel as [|fuel IH]; intros pre_rev s first must pre sp rest empty H; simpl in H.
  - assert (forall X : onematch, X = NoMatch ->
            (if at_dollar s && negb (first && must) then OM (rev pre_rev) None s first else X) = OM pre sp rest empty ->
            (empty = true -> first = true /\ must = false /\ rest = s) /\
            (empty = false -> (length rest <= length s)%nat /\ (first = true -> (length rest < length s)%nat))) as Hd.
    { intros X HX G. destruct (at_dollar s && negb (first && must)) eqn:E; [|subst X; discriminate].
      injection G as <- <- <- <-. apply andb_true_iff in E. destruct E as [_ E]. apply negb_true_iff in E.
      split.
      - intros ->. simpl in E. repeat split; try reflexivity; exact E.
      - intros ->. split; [lia|discriminate]. }
    destruct s as [|c s'].
    + apply (Hd NoMatch eq_refl). destruct (at_dollar [] && negb (first && must)); exact H.
    + destruct (c =? ch_pct).
      * destruct (try_spec b s') as [[cs r]|] eqn:Et.
        -- injection H as <- <- <- <-. pose proof (try_spec_shorter b s' cs r Et). split; [discriminate|].
           intros _. simpl. split; [lia|intros _; lia].
        -- apply (Hd NoMatch eq_refl). destruct (at_dollar (c :: s') && negb (first && must)); exact H.
      * apply (Hd NoMatch eq_refl). destruct (at_dollar (c :: s') && negb (first && must)); exact H.
  - assert ((match (if at_dollar s && negb (first && must) then Some (OM (rev pre_rev) None s first) else None) with
             | Some m => m
             | None => match s with c :: s' => find_match b fuel (c :: pre_rev) s' false must | [] => NoMatch end
             end) = OM pre sp rest empty ->
            (empty = true -> first = true /\ must = false /\ rest = s) /\
            (empty = false -> (length rest <= length s)%nat /\ (first = true -> (length rest < length s)%nat))) as Hstep.
    { intros G. destruct (at_dollar s && negb (first && must)) eqn:E.
      - injection G as <- <- <- <-. apply andb_true_iff in E. destruct E as [_ E]. apply negb_true_iff in E.
        split.
        + intros ->. simpl in E. repeat split; try reflexivity; exact E.
        + intros ->. split; [lia|discriminate].
      - destruct s as [|c s']; [discriminate|].
        destruct (IH _ _ _ _ _ _ _ _ G) as [H1 H2]. split.
        + intros He. destruct (H1 He) as [Hx _]. discriminate.
        + intros He. destruct (H2 He) as [Hl _]. simpl. split; [lia|intros _; lia]. }
    destruct s as [|c s'].
    + apply Hstep. exact H.
    + destruct (c =? ch_pct).
      * destruct (try_spec b s') as [[cs r]|] eqn:Et.
        -- injection H as <- <- <- <-. pose proof (try_spec_shorter b s' cs r Et). split; [discriminate|].
           intros _. simpl. split; [lia|intros _; lia].
        -- apply Hstep. exact H.
      * apply Hstep. exact H.
Qed.

(* finditer needs at most 2*length+2 matches *)
Lemma scan_loop_total : forall b fuel s (must : bool),
  (2 * length s + (if must then 1 else 2) <= fuel)%nat -> scan_loop b fuel s must <> None.
Proof.
  intros b fuel. induction fuel as [|fuel IH]; intros s must Hf.
  - destruct must; lia.
  - simpl. destruct (find_match b (length s) [] s true must) as [pre sp rest empty|] eqn:Em; [|discriminate].
    destruct (find_match_progress _ _ _ _ _ _ _ _ _ _ Em) as [H1 H2].
    assert (scan_loop b fuel rest empty <> None) as Hn.
    { apply IH. destruct empty.
      - destruct (H1 eq_refl) as [_ [-> ->]]. lia.
      - destruct (H2 eq_refl) as [_ Hl]. specialize (Hl eq_refl). destruct must; lia. }
    destruct (scan_loop b fuel rest empty); [discriminate|contradiction].
Qed.

Theorem pa_scan_total : forall is_bytes t, exists specs pieces, pa_scan is_bytes t = Some (specs, pieces).
Proof.
  intros b t. unfold pa_scan.
  assert (2 * length t + (if false then 1 else 2) <= 2 * length t + 3)%nat as Hle by (cbv beta iota; lia).
  pose proof (scan_loop_total b (2 * length t + 3) t false Hle) as H.
  destruct (scan_loop b (2 * length t + 3) t false); [|contradiction]. eexists. eexists. reflexivity.
Qed.

(* a template without '(' has no mapping key *)
Lemma try_spec_no_key : forall b s cs rest, frag b s = true -> try_spec b s = Some (cs, rest) -> c_key cs = None.
Proof.
  intros b s cs rest F H. unfold try_spec in H.
  assert (forall s2, spec_tail (scan_int_field b) None None s2 = Some (cs, rest) -> c_key cs = None) as Ht.
  { intros s2 G. unfold spec_tail in G.
    destruct (span (fun x => mem x flag_chars) s2) as [fl s3].
    destruct (scan_int_field b s3) as [w s4].
    destruct (match s4 with
              | [] => Some (FNone, s4)
              | c :: s5 => if c =? ch_dot then match scan_int_field b s5 with (FNone, _) => None | pr => Some pr end else Some (FNone, s4)
              end) as [[p s6]|]; [|discriminate].
    destruct (match s6 with [] => (None, s6) | c :: s' => if mem c len_chars then (Some c, s') else (None, s6) end) as [lm s7].
    destruct s7 as [|c s8]; [discriminate|]. destruct (mem c conv_chars); [|discriminate].
    injection G as <- _. reflexivity. }
  destruct s as [|c s1]; [apply (Ht [] H)|].
  assert (c =? ch_lpar = false) as Hl.
  { unfold frag in F. simpl in F. apply andb_true_iff in F. destruct F as [F _].
    unfold ok_char in F. apply andb_true_iff in F. destruct F as [F _]. apply negb_true_iff in F. exact F. }
  rewrite Hl in H. apply (Ht (c :: s1) H).
Qed.

Lemma scan_loop_no_keys : forall b fuel s must ms,
  frag b s = true -> scan_loop b fuel s must = Some ms ->
  forall cs, In cs (specs_of ms) -> c_key cs = None.
Proof.
  intros b fuel. induction fuel as [|fuel IH]; intros s must ms F H cs Hin; [discriminate|].
  simpl in H. destruct (find_match b (length s) [] s true must) as [pre sp rest empty|] eqn:Em.
  - destruct (scan_loop b fuel rest empty) as [l|] eqn:El; [|discriminate]. injection H as <-.
    destruct (find_match_spec b _ _ _ _ _ _ _ _ _ (fun _ => eq_refl) Em) as [sk [s' [Hs [_ [Hsp _]]]]].
    subst s.
    assert (frag b s' = true) as F' by (apply (suffix_frag b s' (sk ++ s')); [exists sk; reflexivity|exact F]).
    unfold specs_of in Hin. simpl in Hin. apply in_app_or in Hin.
    destruct sp as [c0|].
    + destruct Hsp as [s'' [-> Ht]].
      assert (frag b s'' = true) as F'' by (apply (suffix_frag b s'' (ch_pct :: s'')); [apply suffix_cons, suffix_refl|exact F']).
      destruct Hin as [[<-|[]]|Hin].
      * apply (try_spec_no_key b s'' c0 rest F'' Ht).
      * destruct (try_spec_py b s'' c0 rest F'' Ht) as [_ [Hsuf _]].
        apply (IH rest empty l (suffix_frag b _ _ Hsuf F'') El cs Hin).
    + destruct Hsp as [-> _]. destruct Hin as [[]|Hin]. apply (IH s' empty l F' El cs Hin).
  - injection H as <-. contradiction.
Qed.

Lemma fragment_no_mapping : forall is_bytes t specs pieces,
  frag is_bytes t = true -> pa_scan is_bytes t = Some (specs, pieces) -> needs_mapping specs = false.
Proof.
  intros b t specs pieces F H. unfold pa_scan in H.
  destruct (scan_loop b (2 * length t + 3) t false) as [ms|] eqn:El; [|discriminate].
  injection H as Hspecs _. fold (specs_of ms) in Hspecs. subst specs.
  unfold needs_mapping. destruct (existsb (fun cs => is_some (c_key cs)) (specs_of ms)) eqn:E; [|reflexivity].
  apply existsb_exists in E. destruct E as [cs [Hin Hk]].
  rewrite (scan_loop_no_keys b _ _ _ _ F El cs Hin) in Hk. discriminate.
Qed.

(* the character-level theorem on the fragment with every parser hypothesis and
   both mapping clauses discharged: only the numeric-overflow clause is left *)
Theorem percent_fragment_raise_reported_total : forall is_bytes t a,
  frag is_bytes t = true ->
  exists specs pieces, pa_scan is_bytes t = Some (specs, pieces) /\
    (overflow_clause specs a = false ->
     py_raises_chars is_bytes t a = Some true -> pa_reports_chars is_bytes t a = Some true).
Proof.
  intros b t a F. destruct (pa_scan_total b t) as [specs [pieces H]]. exists specs, pieces. split; [exact H|].
  intros Hov Hr. pose proof (fragment_no_mapping b t specs pieces F H) as Hnm.
  apply (percent_fragment_raise_reported b t a specs pieces); try assumption.
  - unfold bytes_mapping_clause. rewrite Hnm. apply andb_false_r.
  - unfold nonstr_keys_clause. rewrite Hnm. reflexivity.
Qed.
