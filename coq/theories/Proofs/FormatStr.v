(* Proofs/FormatStr.v — the field loop of _str_format_impl versus CPython's
   automatic/manual numbering and args/kwargs lookup, for field lists of any
   length (fields in iter_replacement_fields order, nested ones included). *)
From Coq Require Import ZArith NArith List Bool Lia.
Import ListNotations.
Require Import PV.Gen.FormatRe PV.Format.Percent PV.Format.StrFormat.
Open Scope N_scope.

Definition loop_errs (fs : list field) (nargs : N) (kw : list (list N)) (cur : N) : list ferr :=
  fst (fst (pa_field_loop fs nargs kw cur)).

Lemma loop_errs_cons : forall fd fs nargs kw cur,
  loop_errs (fd :: fs) nargs kw cur =
  match f_name fd with
  | ANone => (if nargs <=? cur then [FTooFew] else []) ++ loop_errs fs nargs kw (cur + 1)
  | ANum i => (if nargs <=? i then [FOutOfRange] else []) ++ loop_errs fs nargs kw cur
  | AName s => (if name_in s kw then [] else [FNotGiven]) ++ loop_errs fs nargs kw cur
  end.
Proof.
  intros fd fs nargs kw cur. unfold loop_errs. simpl.
  destruct (f_name fd) as [|i|s].
  - destruct (pa_field_loop fs nargs kw (cur + 1)) as [[e ui] uk]. reflexivity.
  - destruct (pa_field_loop fs nargs kw cur) as [[e ui] uk]. reflexivity.
  - destruct (pa_field_loop fs nargs kw cur) as [[e ui] uk]. reflexivity.
Qed.

Lemma nonempty_app : forall {A} (a b : list A), nonempty (a ++ b) = nonempty a || nonempty b.
Proof. intros A [|x a] b; reflexivity. Qed.

(* an error of the loop: CPython raises, whatever the numbering state *)
Lemma loop_err_raises : forall fs nargs kw cur st,
  nonempty (loop_errs fs nargs kw cur) = true -> py_fields_raise fs nargs kw st cur = true.
Proof.
  induction fs as [|fd fs IH]; intros nargs kw cur st H.
  - discriminate.
  - rewrite loop_errs_cons in H. simpl. destruct (f_name fd) as [|i|s];
      rewrite nonempty_app in H; apply orb_true_iff in H.
    + destruct st; try reflexivity;
        (destruct (nargs <=? cur); [reflexivity|]; simpl; destruct H as [H|H]; [discriminate|apply IH; exact H]).
    + destruct st; try reflexivity;
        (destruct (nargs <=? i); [reflexivity|]; simpl; destruct H as [H|H]; [discriminate|apply IH; exact H]).
    + destruct (name_in s kw); simpl; [|reflexivity]. destruct H as [H|H]; [discriminate|apply IH; exact H].
Qed.

(* numbering state compatible with the remaining fields: no switch ahead *)
Definition compat (st : anstate) (fs : list field) : bool :=
  match st with
  | AInit => negb (mix_clause fs)
  | AAuto => negb (existsb is_numbered fs)
  | AManual => negb (existsb is_auto fs)
  end.

Lemma raises_loop_err : forall fs nargs kw cur st,
  compat st fs = true -> py_fields_raise fs nargs kw st cur = true ->
  nonempty (loop_errs fs nargs kw cur) = true.
Proof.
  induction fs as [|fd fs IH]; intros nargs kw cur st Hc H.
  - discriminate.
  - rewrite loop_errs_cons. destruct fd as [nm pth cv hs]. simpl in H. simpl f_name.
    unfold compat, mix_clause in Hc. simpl in Hc. unfold is_auto, is_numbered in Hc. simpl in Hc.
    fold is_auto in Hc. fold is_numbered in Hc.
    destruct nm as [|i|s]; rewrite nonempty_app; simpl in Hc.
    + (* automatic field *)
      destruct (nargs <=? cur); [reflexivity|]. simpl.
      destruct st; simpl in Hc; try discriminate; simpl in H.
      * apply (IH nargs kw (cur + 1) AAuto); [|exact H]. unfold compat. exact Hc.
      * apply (IH nargs kw (cur + 1) AAuto); [|exact H]. unfold compat. exact Hc.
    + destruct (nargs <=? i); [reflexivity|]. simpl.
      destruct st; simpl in Hc; try discriminate; simpl in H.
      * apply (IH nargs kw cur AManual); [|exact H]. unfold compat.
        rewrite andb_true_r in Hc. exact Hc.
      * apply (IH nargs kw cur AManual); [|exact H]. unfold compat. exact Hc.
    + destruct (name_in s kw); [|reflexivity]. simpl in *.
      apply (IH nargs kw cur st); [|exact H].
      destruct st; unfold compat, mix_clause; exact Hc.
Qed.

Lemma check_split : forall fs nargs kw, exists unused,
  pa_fields_check fs nargs kw = loop_errs fs nargs kw 0 ++ unused /\ forallb is_unused unused = true.
Proof.
  intros fs nargs kw. unfold pa_fields_check, loop_errs.
  destruct (pa_field_loop fs nargs kw 0) as [[e ui] uk]. simpl.
  eexists. split; [reflexivity|].
  destruct (forallb (fun i => mem i ui) (range_N (N.to_nat nargs)));
    destruct (forallb (fun s => name_in s uk) kw); reflexivity.
Qed.

(* CPython raises (numbering switch, IndexError, KeyError) ==> reported, unless
   the template mixes automatic and manual numbering *)
Theorem format_raise_reported : forall fs nargs kw,
  mix_clause fs = false ->
  py_fields_raise fs nargs kw AInit 0 = true ->
  nonempty (pa_fields_check fs nargs kw) = true.
Proof.
  intros fs nargs kw Hm H.
  destruct (check_split fs nargs kw) as [u [Heq _]]. rewrite Heq, nonempty_app.
  rewrite (raises_loop_err fs nargs kw 0 AInit); [reflexivity| |exact H].
  unfold compat. rewrite Hm. reflexivity.
Qed.

(* reported ==> CPython raises, or every report is "argument(s) were not used" *)
Theorem format_report_sound : forall fs nargs kw,
  nonempty (pa_fields_check fs nargs kw) = true ->
  py_fields_raise fs nargs kw AInit 0 = true \/ forallb is_unused (pa_fields_check fs nargs kw) = true.
Proof.
  intros fs nargs kw H.
  destruct (check_split fs nargs kw) as [u [Heq Hu]].
  destruct (nonempty (loop_errs fs nargs kw 0)) eqn:E.
  - left. apply loop_err_raises. exact E.
  - right. rewrite Heq. destruct (loop_errs fs nargs kw 0); [exact Hu|discriminate].
Qed.

Definition format_raise_reported_full_statement : Prop :=
  forall fs nargs kw, py_fields_raise fs nargs kw AInit 0 = true -> nonempty (pa_fields_check fs nargs kw) = true.

(* "{} {0}".format(1) *)
Lemma format_mix_witness :
  let fs := [mk_field ANone [] None false; mk_field (ANum 0) [] None false] in
  py_fields_raise fs 1 [] AInit 0 = true /\ pa_fields_check fs 1 [] = [] /\ mix_clause fs = true.
Proof. repeat split; vm_compute; reflexivity. Qed.

Lemma format_raise_reported_refuted : ~ format_raise_reported_full_statement.
Proof.
  intros H. destruct format_mix_witness as [H1 [H2 _]].
  specialize (H _ _ _ H1). rewrite H2 in H. discriminate.
Qed.

(* parsing real templates: "{0!r:>{w}} {name}" and the parse errors *)
Example format_examples :
  pa_format_check [123; 125; 32; 123; 48; 125] 1 [] = Some (RFields []) /\          (* "{} {0}" : silent *)
  py_format_verdict [123; 125; 32; 123; 48; 125] 1 [] = VRaises /\
  pa_format_check [123; 48; 125; 123; 49; 125] 1 [] = Some (RFields [FOutOfRange]) /\  (* "{0}{1}".format(x) *)
  py_format_verdict [123; 48; 125; 123; 49; 125] 1 [] = VRaises /\
  pa_format_check [123; 97; 125] 0 [[97]; [98]] = Some (RFields [FUnusedNamed]) /\   (* "{a}".format(a=.., b=..) *)
  py_format_verdict [123; 97; 125] 0 [[97]; [98]] = VFine /\
  pa_format_check [123; 48; 33; 120; 125] 1 [] = Some (RParse 4 PUnknownConversion) /\ (* "{0!x}" *)
  py_format_verdict [123; 48; 33; 120; 125] 1 [] = VRaises /\
  py_format_verdict [123; 58; 123; 58; 123; 125; 125; 125] 3 [] = VRaises.             (* "{:{:{}}}" : nesting *)
Proof. vm_compute. repeat split; reflexivity. Qed.

(* str.format always returns a str, and that is what is inferred: both constant *)
Definition pa_format_result_is_str : bool := true.
Definition py_format_result_is_str : bool := true.

(* ---------------------------------------------------------------- templates as characters *)
(* both the field loop and CPython's lookup look at the argument names only *)
Lemma field_loop_names : forall fs fs' nargs kw cur,
  map f_name fs = map f_name fs' -> pa_field_loop fs nargs kw cur = pa_field_loop fs' nargs kw cur.
Proof.
  induction fs as [|fd fs IH]; intros [|fd' fs'] nargs kw cur H; try discriminate; [reflexivity|].
  simpl in H. injection H as Hn Ht. simpl. rewrite <- Hn.
  destruct (f_name fd); rewrite (IH fs' nargs kw _ Ht); reflexivity.
Qed.

Lemma fields_check_names : forall fs fs' nargs kw,
  map f_name fs = map f_name fs' -> pa_fields_check fs nargs kw = pa_fields_check fs' nargs kw.
Proof. intros. unfold pa_fields_check. rewrite (field_loop_names fs fs'); auto. Qed.

Lemma fields_raise_names : forall fs fs' nargs kw st cur,
  map f_name fs = map f_name fs' -> py_fields_raise fs nargs kw st cur = py_fields_raise fs' nargs kw st cur.
Proof.
  induction fs as [|fd fs IH]; intros [|fd' fs'] nargs kw st cur H; try discriminate; [reflexivity|].
  simpl in H. injection H as Hn Ht. simpl. rewrite <- Hn.
  destruct (f_name fd); destruct st; try reflexivity; rewrite (IH fs' nargs kw _ _ Ht); reflexivity.
Qed.

Lemma mix_names : forall fs fs', map f_name fs = map f_name fs' -> mix_clause fs = mix_clause fs'.
Proof.
  assert (forall fs fs', map f_name fs = map f_name fs' ->
            existsb is_auto fs = existsb is_auto fs' /\ existsb is_numbered fs = existsb is_numbered fs') as H.
  { induction fs as [|fd fs IH]; intros [|fd' fs'] H; try discriminate; [split; reflexivity|].
    simpl in H. injection H as Hn Ht. destruct (IH fs' Ht) as [H1 H2]. simpl.
    unfold is_auto at 1 3, is_numbered at 1 3. rewrite Hn, H1, H2. split; reflexivity. }
  intros fs fs' Hm. unfold mix_clause. destruct (H fs fs' Hm) as [H1 H2]. rewrite H1, H2. reflexivity.
Qed.

(* pyanalyze's parser found no error and names the same arguments as CPython's
   parser (a decidable per-template hypothesis, differential-tested): CPython's
   numbering/lookup raises ==> _str_format_impl shows an error *)
Theorem format_chars_raise_reported : forall t nargs kw fs fs',
  pa_parse t = Some (fs, []) -> py_parse t = PYOk fs' -> map f_name fs = map f_name fs' ->
  mix_clause fs' = false ->
  py_fields_raise fs' nargs kw AInit 0 = true ->
  option_map freport_reports (pa_format_check t nargs kw) = Some true.
Proof.
  intros t nargs kw fs fs' Hpa Hpy Hn Hm Hr.
  unfold pa_format_check. rewrite Hpa. simpl.
  rewrite (fields_check_names fs fs' nargs kw Hn).
  rewrite (format_raise_reported fs' nargs kw Hm Hr). reflexivity.
Qed.

Theorem format_chars_report_sound : forall t nargs kw fs fs' l,
  pa_parse t = Some (fs, []) -> py_parse t = PYOk fs' -> map f_name fs = map f_name fs' ->
  pa_format_check t nargs kw = Some (RFields l) -> nonempty l = true ->
  py_format_verdict t nargs kw = VRaises \/ forallb is_unused l = true.
Proof.
  intros t nargs kw fs fs' l Hpa Hpy Hn Hc Hl.
  unfold pa_format_check in Hc. rewrite Hpa in Hc. injection Hc as Hc. subst l.
  rewrite (fields_check_names fs fs' nargs kw Hn) in *.
  destruct (format_report_sound fs' nargs kw Hl) as [H|H].
  - left. unfold py_format_verdict. rewrite Hpy, H. reflexivity.
  - right. exact H.
Qed.

(* the type inferred for `template.format(...)` is TypedValue(str); str.format returns a str *)
Theorem format_result_type : pa_format_result_is_str = py_format_result_is_str.
Proof. reflexivity. Qed.
