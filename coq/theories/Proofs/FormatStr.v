(* Proofs/FormatStr.v — the field loop of _str_format_impl versus CPython's
   automatic/manual numbering and args/kwargs lookup, for field lists of any
   length (fields in iter_replacement_fields order, nested ones included). *)
From Coq Require Import ZArith NArith List Bool Lia.
Import ListNotations.
Require Import PV.Gen.FormatRe PV.Format.Percent PV.Format.StrFormat.
Open Scope N_scope.

Definition loop_errs (fs : list field) (nargs : N) (kw : list (list N)) (st : anstate) (cur : N) : list ferr :=
  fst (fst (pa_field_loop fs nargs kw st cur)).

Lemma loop_errs_cons : forall fd fs nargs kw st cur,
  loop_errs (fd :: fs) nargs kw st cur =
  match f_name fd with
  | ANone => (match st with AManual => [FMix] | _ => [] end)
             ++ (if nargs <=? cur then [FTooFew] else []) ++ loop_errs fs nargs kw AAuto (cur + 1)
  | ANum i => (match st with AAuto => [FMix] | _ => [] end)
              ++ (if nargs <=? i then [FOutOfRange] else []) ++ loop_errs fs nargs kw AManual cur
  | AName s => (if name_in s kw then [] else [FNotGiven]) ++ loop_errs fs nargs kw st cur
  end.
Proof.
  intros fd fs nargs kw st cur. unfold loop_errs. simpl.
  destruct (f_name fd) as [|i|s].
  - destruct (pa_field_loop fs nargs kw AAuto (cur + 1)) as [[e ui] uk]. reflexivity.
  - destruct (pa_field_loop fs nargs kw AManual cur) as [[e ui] uk]. reflexivity.
  - destruct (pa_field_loop fs nargs kw st cur) as [[e ui] uk]. reflexivity.
Qed.

Lemma nonempty_app : forall {A} (a b : list A), nonempty (a ++ b) = nonempty a || nonempty b.
Proof. intros A [|x a] b; reflexivity. Qed.

(* the field loop and CPython's numbering + lookup agree exactly, in every
   numbering state: an error of the loop  <->  CPython raises *)
Lemma loop_err_iff_raises : forall fs nargs kw st cur,
  nonempty (loop_errs fs nargs kw st cur) = py_fields_raise fs nargs kw st cur.
Proof.
  induction fs as [|fd fs IH]; intros nargs kw st cur; [reflexivity|].
  rewrite loop_errs_cons. simpl. destruct (f_name fd) as [|i|s].
  - destruct st; try reflexivity; simpl; rewrite nonempty_app, IH; destruct (nargs <=? cur); reflexivity.
  - destruct st; try reflexivity; simpl; rewrite nonempty_app, IH; destruct (nargs <=? i); reflexivity.
  - rewrite nonempty_app, IH. destruct (name_in s kw); reflexivity.
Qed.

Lemma check_split : forall fs nargs kw, exists unused,
  pa_fields_check fs nargs kw = loop_errs fs nargs kw AInit 0 ++ unused /\ forallb is_unused unused = true.
Proof.
  intros fs nargs kw. unfold pa_fields_check, loop_errs.
  destruct (pa_field_loop fs nargs kw AInit 0) as [[e ui] uk]. simpl.
  eexists. split; [reflexivity|].
  destruct (forallb (fun i => mem i ui) (range_N (N.to_nat nargs)));
    destruct (forallb (fun s => name_in s uk) kw); reflexivity.
Qed.

(* CPython raises (numbering switch, IndexError, KeyError)  ==>  reported; no guard
   (the mixed-numbering class was repaired in _str_format_impl) *)
Theorem format_raise_reported : forall fs nargs kw,
  py_fields_raise fs nargs kw AInit 0 = true ->
  nonempty (pa_fields_check fs nargs kw) = true.
Proof.
  intros fs nargs kw H.
  destruct (check_split fs nargs kw) as [u [Heq _]]. rewrite Heq, nonempty_app.
  rewrite loop_err_iff_raises, H. reflexivity.
Qed.

(* reported ==> CPython raises, or every report is "argument(s) were not used" *)
Theorem format_report_sound : forall fs nargs kw,
  nonempty (pa_fields_check fs nargs kw) = true ->
  py_fields_raise fs nargs kw AInit 0 = true \/ forallb is_unused (pa_fields_check fs nargs kw) = true.
Proof.
  intros fs nargs kw H.
  destruct (check_split fs nargs kw) as [u [Heq Hu]].
  destruct (nonempty (loop_errs fs nargs kw AInit 0)) eqn:E.
  - left. rewrite <- loop_err_iff_raises. exact E.
  - right. rewrite Heq. destruct (loop_errs fs nargs kw AInit 0); [exact Hu|discriminate].
Qed.

(* "{} {0}".format(1): ValueError in CPython, now reported *)
Lemma format_mix_witness :
  let fs := [mk_field ANone [] None false; mk_field (ANum 0) [] None false] in
  py_fields_raise fs 1 [] AInit 0 = true /\ pa_fields_check fs 1 [] = [FMix] /\ mix_clause fs = true.
Proof. repeat split; vm_compute; reflexivity. Qed.

(* parsing real templates: "{0!r:>{w}} {name}" and the parse errors *)
Example format_examples :
  pa_format_check [123; 125; 32; 123; 48; 125] 1 [] = Some (RFields [FMix]) /\      (* "{} {0}" : numbering switch *)
  py_format_verdict [123; 125; 32; 123; 48; 125] 1 [] = VRaises /\
  pa_format_check [123; 48; 125; 123; 49; 125] 1 [] = Some (RFields [FOutOfRange]) /\  (* "{0}{1}".format(x) *)
  py_format_verdict [123; 48; 125; 123; 49; 125] 1 [] = VRaises /\
  pa_format_check [123; 97; 125] 0 [[97]; [98]] = Some (RFields [FUnusedNamed]) /\   (* "{a}".format(a=.., b=..) *)
  py_format_verdict [123; 97; 125] 0 [[97]; [98]] = VFine /\
  pa_format_check [123; 48; 33; 120; 125] 1 [] = Some (RParse 4 PUnknownConversion) /\ (* "{0!x}" *)
  py_format_verdict [123; 48; 33; 120; 125] 1 [] = VRaises /\
  py_format_verdict [123; 58; 123; 58; 123; 125; 125; 125] 3 [] = VRaises.             (* "{:{:{}}}" : nesting *)
Proof. vm_compute. repeat split; reflexivity. Qed.

(* str.format always returns a str, and that is what is inferred: both constant *)
Definition pa_format_result_is_str : bool := true.
Definition py_format_result_is_str : bool := true.

(* ---------------------------------------------------------------- templates as characters *)
(* both the field loop and CPython's lookup look at the argument names only *)
Lemma field_loop_names : forall fs fs' nargs kw st cur,
  map f_name fs = map f_name fs' -> pa_field_loop fs nargs kw st cur = pa_field_loop fs' nargs kw st cur.
Proof.
  induction fs as [|fd fs IH]; intros [|fd' fs'] nargs kw st cur H; try discriminate; [reflexivity|].
  simpl in H. injection H as Hn Ht. simpl. rewrite <- Hn.
  destruct (f_name fd); rewrite (IH fs' nargs kw _ _ Ht); reflexivity.
Qed.

Lemma fields_check_names : forall fs fs' nargs kw,
  map f_name fs = map f_name fs' -> pa_fields_check fs nargs kw = pa_fields_check fs' nargs kw.
Proof. intros. unfold pa_fields_check. rewrite (field_loop_names fs fs'); auto. Qed.

Lemma fields_raise_names : forall fs fs' nargs kw st cur,
  map f_name fs = map f_name fs' -> py_fields_raise fs nargs kw st cur = py_fields_raise fs' nargs kw st cur.
Proof.
  induction fs as [|fd fs IH]; intros [|fd' fs'] nargs kw st cur H; try discriminate; [reflexivity|].
  simpl in H. injection H as Hn Ht. simpl. rewrite <- Hn.
  destruct (f_name fd); destruct st; try reflexivity; rewrite (IH fs' nargs kw _ _ Ht); reflexivity.
Qed.

Lemma mix_names : forall fs fs', map f_name fs = map f_name fs' -> mix_clause fs = mix_clause fs'.
Proof.
  assert (forall fs fs', map f_name fs = map f_name fs' ->
            existsb is_auto fs = existsb is_auto fs' /\ existsb is_numbered fs = existsb is_numbered fs') as H.
  { induction fs as [|fd fs IH]; intros [|fd' fs'] H; try discriminate; [split; reflexivity|].
    simpl in H. injection H as Hn Ht. destruct (IH fs' Ht) as [H1 H2]. simpl.
    unfold is_auto at 1 3, is_numbered at 1 3. rewrite Hn, H1, H2. split; reflexivity. }
  intros fs fs' Hm. unfold mix_clause. destruct (H fs fs' Hm) as [H1 H2]. rewrite H1, H2. reflexivity.
Qed.

(* pyanalyze's parser found no error and names the same arguments as CPython's
   parser (a decidable per-template hypothesis, differential-tested): CPython's
   numbering/lookup raises ==> _str_format_impl shows an error *)
Theorem format_chars_raise_reported : forall t nargs kw fs fs',
  pa_parse t = Some (fs, []) -> py_parse t = PYOk fs' -> map f_name fs = map f_name fs' ->
  py_fields_raise fs' nargs kw AInit 0 = true ->
  option_map freport_reports (pa_format_check t nargs kw) = Some true.
Proof.
  intros t nargs kw fs fs' Hpa Hpy Hn Hr.
  unfold pa_format_check. rewrite Hpa. simpl.
  rewrite (fields_check_names fs fs' nargs kw Hn).
  rewrite (format_raise_reported fs' nargs kw Hr). reflexivity.
Qed.

Theorem format_chars_report_sound : forall t nargs kw fs fs' l,
  pa_parse t = Some (fs, []) -> py_parse t = PYOk fs' -> map f_name fs = map f_name fs' ->
  pa_format_check t nargs kw = Some (RFields l) -> nonempty l = true ->
  py_format_verdict t nargs kw = VRaises \/ forallb is_unused l = true.
Proof.
  intros t nargs kw fs fs' l Hpa Hpy Hn Hc Hl.
  unfold pa_format_check in Hc. rewrite Hpa in Hc. injection Hc as Hc. subst l.
  rewrite (fields_check_names fs fs' nargs kw Hn) in *.
  destruct (format_report_sound fs' nargs kw Hl) as [H|H].
  - left. unfold py_format_verdict. rewrite Hpy, H. reflexivity.
  - right. exact H.
Qed.

(* the type inferred for `template.format(...)` is TypedValue(str); str.format returns a str *)
Theorem format_result_type : pa_format_result_is_str = py_format_result_is_str.
Proof. reflexivity. Qed.
