(* Proofs/FormatStrScan.v — pyanalyze's str.format parser (StrFormat.pa_parse:
   _parse_children / _parse_replacement_field) and the model of CPython's
   parser (StrFormat.py_parse: MarkupIterator + parse_field + field_name_split)
   agree on every template, of any length, that contains none of the characters
       .   [   !   :
   (plain replacement fields "{name}", "{}", "{0}" and the escapes "{{" "}}"):
   pyanalyze records no error  <->  CPython's parser accepts, and then both
   read the same fields; pyanalyze records an error  <->  CPython raises.
   Both are compared with one structural reference scanner [ref_raw]. *)
From Coq Require Import ZArith NArith List Bool Lia.
Import ListNotations.
Require Import PV.Gen.FormatRe PV.Format.Percent PV.Format.StrFormat.
Require Import PV.Proofs.FormatStr.
Open Scope N_scope.

Local Arguments N.eqb : simpl never.

Definition fchar (c : N) : bool :=
  negb ((c =? ch_dot) || (c =? ch_lbrack) || (c =? ch_bang) || (c =? ch_colon)).
Definition ffrag (s : list N) : bool := forallb fchar s.

(* reference: literal characters and plain fields; None = malformed.
   [mode] = Some name_rev while inside a field *)
Fixpoint ref_raw (s : list N) (mode : option (list N)) : option (list raw_item) :=
  match s with
  | [] => match mode with None => Some [] | Some _ => None end
  | c :: r =>
      match mode with
      | None =>
          if c =? ch_rbrace then
            match r with
            | d :: r' => if d =? ch_rbrace then option_map (cons (RLit c)) (ref_raw r' None) else None
            | [] => None
            end
          else if c =? ch_lbrace then
            match r with
            | d :: r' => if d =? ch_lbrace then option_map (cons (RLit c)) (ref_raw r' None)
                         else ref_raw r (Some [])
            | [] => None
            end
          else option_map (cons (RLit c)) (ref_raw r None)
      | Some nm =>
          if c =? ch_lbrace then None
          else if c =? ch_rbrace then option_map (cons (RFld (rev nm) None None)) (ref_raw r None)
          else ref_raw r (Some (c :: nm))
      end
  end.

Definition plain_field (name : list N) : field := mk_field (arg_name_of name) [] None false.
Definition fields_of (l : list raw_item) : list field :=
  flat_map (fun it => match it with RFld name None None => [plain_field name] | _ => [] end) l.

Lemma ffrag_cons : forall c s, ffrag (c :: s) = true -> fchar c = true /\ ffrag s = true.
Proof. intros c s H. unfold ffrag in H. simpl in H. apply andb_true_iff in H. exact H. Qed.

Lemma fchar_special : forall c, fchar c = true -> mem c specials = (c =? ch_rbrace).
Proof.
  intros c H. unfold fchar in H. apply negb_true_iff in H.
  apply orb_false_iff in H. destruct H as [H Hc]. apply orb_false_iff in H. destruct H as [H Hb].
  apply orb_false_iff in H. destruct H as [Hd Hl].
  unfold mem, specials. simpl. rewrite Hd, Hl, Hb, Hc. rewrite !orb_false_r. reflexivity.
Qed.

Lemma fchar_not : forall c, fchar c = true ->
  (c =? ch_dot) = false /\ (c =? ch_lbrack) = false /\ (c =? ch_bang) = false /\ (c =? ch_colon) = false.
Proof.
  intros c H. unfold fchar in H. apply negb_true_iff in H.
  apply orb_false_iff in H. destruct H as [H Hc]. apply orb_false_iff in H. destruct H as [H Hb].
  apply orb_false_iff in H. destruct H as [Hd Hl]. tauto.
Qed.

Local Opaque mem.

(* ================================================================ pyanalyze's side *)
Lemma pa_field_ref : forall fuel s pos errs nm fo nested st1,
  ffrag s = true ->
  pa_field fuel (mk_ps s pos errs) nm [] None true = FR fo nested st1 ->
  nested = [] /\
  ((exists name rest, fo = Some (plain_field name) /\ ps_errs st1 = errs /\ ps_rest st1 = rest /\
      ref_raw s (Some nm) = option_map (cons (RFld name None None)) (ref_raw rest None) /\
      ffrag rest = true /\ (length rest < length s)%nat)
   \/ (fo = None /\ (length errs < length (ps_errs st1))%nat /\ ref_raw s (Some nm) = None /\
       ffrag (ps_rest st1) = true /\ (length (ps_rest st1) <= length s)%nat)).
Proof.
  intros fuel. induction fuel as [|fuel IH]; intros s pos errs nm fo nested st1 F H; [discriminate|].
  simpl in H. unfold ps_next in H. simpl in H.
  destruct s as [|c r].
  - (* end of string inside a field *)
    injection H as <- <- <-. split; [reflexivity|]. right. simpl. repeat split; try reflexivity; lia.
  - destruct (ffrag_cons c r F) as [Fc Fr].
    rewrite (fchar_special c Fc) in H.
    destruct (c =? ch_rbrace) eqn:Er.
    + (* '}' closes the field *)
      simpl in H. injection H as <- <- <-. split; [reflexivity|]. left.
      exists (rev nm), r. simpl. apply N.eqb_eq in Er. subst c.
      repeat split; try reflexivity; try assumption. lia.
    + destruct (c =? ch_lbrace) eqn:El.
      * injection H as <- <- <-. split; [reflexivity|]. right. simpl. rewrite El.
        repeat split; try reflexivity; try assumption; lia.
      * destruct (IH r (pos + 1) errs (c :: nm) fo nested st1 Fr H) as [Hn Hd].
        split; [exact Hn|]. simpl ref_raw. rewrite El, Er.
        destruct Hd as [[name [rest [H1 [H2 [H3 [H4 [H5 H6]]]]]]]|[H1 [H2 [H3 [H4 H5]]]]].
        -- left. exists name, rest. repeat split; try assumption. simpl. lia.
        -- right. repeat split; try assumption. simpl. lia.
Qed.

Lemma fields_of_lit : forall c l, fields_of (RLit c :: l) = fields_of l.
Proof. reflexivity. Qed.
Lemma fields_of_fld : forall name l, fields_of (RFld name None None :: l) = plain_field name :: fields_of l.
Proof. reflexivity. Qed.

Lemma pa_children_ref : forall fuel s pos errs fs st',
  ffrag s = true -> pa_children fuel None (mk_ps s pos errs) = CR fs st' ->
  (length errs <= length (ps_errs st'))%nat /\
  match ref_raw s None with
  | Some l => ps_errs st' = errs /\ fs = fields_of l
  | None => (length errs < length (ps_errs st'))%nat
  end.
Proof.
  intros fuel. induction fuel as [|fuel IH]; intros s pos errs fs st' F H; [discriminate|].
  simpl in H. unfold ps_next in H. simpl in H.
  destruct s as [|c r].
  - injection H as <- <-. simpl. split; [lia|split; reflexivity].
  - destruct (ffrag_cons c r F) as [Fc Fr]. simpl ref_raw.
    destruct (c =? ch_lbrace) eqn:El.
    + (* '{' *)
      assert (c =? ch_rbrace = false) as Er by (apply N.eqb_eq in El; subst c; reflexivity).
      rewrite Er. unfold ps_peek in H. simpl in H.
      destruct r as [|d r'].
      * (* "{" at the end: the field parser reports the missing '}' *)
        destruct (pa_field fuel (mk_ps [] (pos + 1) errs) [] [] None true) as [fo nested st2|] eqn:Ef; [|discriminate].
        destruct (pa_field_ref fuel [] (pos + 1) errs [] fo nested st2 eq_refl Ef) as [Hn Hd].
        destruct Hd as [[name [rest [_ [_ [_ [_ [_ Hl]]]]]]]|[Hfo [Hlen [_ [Hfr Hrl]]]]]; [simpl in Hl; lia|].
        destruct (pa_children fuel None st2) as [fs2 st3|] eqn:Ec; [|discriminate].
        injection H as <- <-. destruct st2 as [rest2 pos2 errs2]. simpl in *.
        destruct (IH rest2 pos2 errs2 fs2 st3 Hfr Ec) as [Hm _]. split; lia.
      * destruct (ffrag_cons d r' Fr) as [Fd Fr'].
        destruct (d =? ch_lbrace) eqn:Edl.
        -- (* "{{" *)
           simpl in H.
           destruct (IH r' (pos + 1 + 1) errs fs st' Fr' H) as [Hm Hr]. split; [exact Hm|].
           destruct (ref_raw r' None) as [l|]; simpl; try rewrite fields_of_lit; exact Hr.
        -- (* a replacement field *)
           destruct (pa_field fuel (mk_ps (d :: r') (pos + 1) errs) [] [] None true) as [fo nested st2|] eqn:Ef; [|discriminate].
           destruct (pa_field_ref fuel (d :: r') (pos + 1) errs [] fo nested st2 Fr Ef) as [Hn Hd]. subst nested.
           destruct (pa_children fuel None st2) as [fs2 st3|] eqn:Ec; [|discriminate].
           injection H as <- <-. destruct st2 as [rest2 pos2 errs2]. simpl in *.
           destruct Hd as [[name [rest [Hfo [He [Hrest [Href [Hfr Hl]]]]]]]|[Hfo [Hlen [Href [Hfr Hrl]]]]].
           ++ subst fo errs2 rest2. rewrite Href.
              destruct (IH rest pos2 errs fs2 st3 Hfr Ec) as [Hm Hr]. split; [exact Hm|].
              destruct (ref_raw rest None) as [l|]; simpl.
              ** destruct Hr as [Hr1 Hr2]. split; [exact Hr1|]. rewrite Hr2. reflexivity.
              ** exact Hr.
           ++ subst fo. rewrite Href.
              destruct (IH rest2 pos2 errs2 fs2 st3 Hfr Ec) as [Hm _]. split; lia.
    + destruct (c =? ch_rbrace) eqn:Er.
      * (* '}' *)
        unfold ps_peek in H. simpl in H.
        destruct r as [|d r'].
        -- simpl in H. unfold ps_err in H. simpl in H.
           destruct (IH [] (pos + 1) ((pos + 1, PSingleClose) :: errs) fs st' eq_refl H) as [Hm _].
           simpl in Hm. split; lia.
        -- destruct (ffrag_cons d r' Fr) as [Fd Fr'].
           destruct (d =? ch_rbrace) eqn:Edr.
           ++ simpl in H.
              destruct (IH r' (pos + 1 + 1) errs fs st' Fr' H) as [Hm Hr]. split; [exact Hm|].
              destruct (ref_raw r' None) as [l|]; simpl; try rewrite fields_of_lit; exact Hr.
           ++ unfold ps_err in H. simpl in H.
              destruct (IH (d :: r') (pos + 1) ((pos + 1, PSingleClose) :: errs) fs st' Fr H) as [Hm _].
              simpl in Hm. split; lia.
      * (* literal character *)
        destruct (IH r (pos + 1) errs fs st' Fr H) as [Hm Hr]. split; [exact Hm|].
        destruct (ref_raw r None) as [l|]; simpl; try rewrite fields_of_lit; exact Hr.
Qed.

(* ================================================================ CPython's side *)
Lemma py_field_name_ref : forall s fuel acc,
  ffrag s = true -> (length s < fuel)%nat ->
  match py_field_name fuel s acc with
  | None => ref_raw s (Some acc) = None
  | Some (name, term, rest) =>
      term = ch_rbrace /\
      ref_raw s (Some acc) = option_map (cons (RFld name None None)) (ref_raw rest None) /\
      ffrag rest = true /\ (length rest < length s)%nat
  end.
Proof.
  intros s. induction s as [|c r IH]; intros fuel acc F Hl.
  - destruct fuel; [lia|]. reflexivity.
  - destruct fuel as [|fuel]; [lia|]. simpl in Hl.
    destruct (ffrag_cons c r F) as [Fc Fr]. destruct (fchar_not c Fc) as [Hd [Hb [Hg Hc]]].
    simpl py_field_name. simpl ref_raw.
    destruct (c =? ch_lbrace) eqn:El; [reflexivity|].
    rewrite Hb.
    destruct (c =? ch_rbrace) eqn:Er.
    + simpl. repeat split; try reflexivity; try assumption; try lia. apply N.eqb_eq. exact Er.
    + rewrite Hc, Hg. simpl.
      specialize (IH fuel (c :: acc) Fr ltac:(lia)).
      destruct (py_field_name fuel r (c :: acc)) as [[[name term] rest]|]; [|exact IH].
      destruct IH as [H1 [H3 [H4 H5]]]. repeat split; try assumption; try (simpl; lia).
Qed.

Lemma py_lex_ref : forall fuel s, ffrag s = true -> (length s < fuel)%nat ->
  py_lex fuel s = match ref_raw s None with Some l => RWOk l | None => RWRaise end.
Proof.
  intros fuel. induction fuel as [|fuel IH]; intros s F Hl; [lia|].
  destruct s as [|c r]; [reflexivity|]. simpl in Hl.
  destruct (ffrag_cons c r F) as [Fc Fr]. simpl py_lex. simpl ref_raw.
  destruct (c =? ch_rbrace) eqn:Er.
  - destruct r as [|d r']; [reflexivity|]. destruct (ffrag_cons d r' Fr) as [Fd Fr'].
    destruct (d =? ch_rbrace); [|reflexivity].
    rewrite (IH r' Fr') by (simpl in Hl; lia). destruct (ref_raw r' None); reflexivity.
  - destruct (c =? ch_lbrace) eqn:El.
    + destruct r as [|d r']; [reflexivity|]. destruct (ffrag_cons d r' Fr) as [Fd Fr'].
      destruct (d =? ch_lbrace) eqn:Edl.
      * rewrite (IH r' Fr') by (simpl in Hl; lia). destruct (ref_raw r' None); reflexivity.
      * pose proof (py_field_name_ref (d :: r') fuel [] Fr ltac:(lia)) as Hf.
        destruct (py_field_name fuel (d :: r') []) as [[[name term] rest]|].
        -- destruct Hf as [-> [Href [Hfr Hlen]]]. rewrite Href.
           change (ch_rbrace =? ch_rbrace) with true. cbv iota.
           rewrite (IH rest Hfr) by lia. destruct (ref_raw rest None); reflexivity.
        -- rewrite Hf. reflexivity.
    + rewrite (IH r Fr) by lia. destruct (ref_raw r None); reflexivity.
Qed.

Definition good_item (it : raw_item) : Prop :=
  match it with
  | RLit _ => True
  | RFld name None None => ffrag name = true
  | _ => False
  end.

Lemma ffrag_rev : forall s, ffrag s = true -> ffrag (rev s) = true.
Proof.
  intros s H. unfold ffrag in *. rewrite forallb_forall in *. intros c Hc. apply H. apply in_rev. exact Hc.
Qed.

Lemma ref_raw_good : forall n s mode l,
  (length s <= n)%nat ->
  ffrag s = true -> match mode with Some nm => ffrag nm = true | None => True end ->
  ref_raw s mode = Some l -> Forall good_item l.
Proof.
  intros n. induction n as [|n IH]; intros s mode l Hn F Hm H.
  - destruct s; [|simpl in Hn; lia]. destruct mode; [discriminate|]. injection H as <-. constructor.
  - destruct s as [|c r].
    { destruct mode; [discriminate|]. injection H as <-. constructor. }
    simpl in Hn. destruct (ffrag_cons c r F) as [Fc Fr]. simpl in H. destruct mode as [nm|].
    + destruct (c =? ch_lbrace); [discriminate|].
      destruct (c =? ch_rbrace).
      * destruct (ref_raw r None) as [l'|] eqn:E; [|discriminate]. injection H as <-.
        constructor; [simpl; apply ffrag_rev; exact Hm|apply (IH r None l' ltac:(lia) Fr I E)].
      * apply (IH r (Some (c :: nm)) l ltac:(lia) Fr); [|exact H]. unfold ffrag. simpl. rewrite Fc. exact Hm.
    + destruct (c =? ch_rbrace).
      * destruct r as [|d r']; [discriminate|]. destruct (ffrag_cons d r' Fr) as [_ Fr'].
        destruct (d =? ch_rbrace); [|discriminate].
        destruct (ref_raw r' None) as [l'|] eqn:E; [|discriminate]. injection H as <-.
        constructor; [exact I|apply (IH r' None l' ltac:(simpl in Hn; lia) Fr' I E)].
      * destruct (c =? ch_lbrace).
        -- destruct r as [|d r']; [discriminate|]. destruct (ffrag_cons d r' Fr) as [_ Fr'].
           destruct (d =? ch_lbrace).
           ++ destruct (ref_raw r' None) as [l'|] eqn:E; [|discriminate]. injection H as <-.
              constructor; [exact I|apply (IH r' None l' ltac:(simpl in Hn; lia) Fr' I E)].
           ++ apply (IH (d :: r') (Some []) l ltac:(lia) Fr eq_refl H).
        -- destruct (ref_raw r None) as [l'|] eqn:E; [|discriminate]. injection H as <-.
           constructor; [exact I|apply (IH r None l' ltac:(lia) Fr I E)].
Qed.

Local Transparent mem.

Definition tconv (it : raw_item) : titem :=
  match it with
  | RLit c => TLit c
  | RFld name _ _ => TFld (mk_tf (arg_name_of name) [] None [])
  end.

Lemma span_all : forall (p : N -> bool) s, forallb p s = true -> span p s = (s, []).
Proof.
  intros p s. induction s as [|c s IH]; simpl; intros H; [reflexivity|].
  apply andb_true_iff in H. destruct H as [Hc Hs]. rewrite Hc, (IH Hs). reflexivity.
Qed.

Lemma split_name_plain : forall fuel name, ffrag name = true ->
  split_name (S fuel) name = Some (arg_name_of name, []).
Proof.
  intros fuel name F. unfold split_name, py_first_part.
  rewrite span_all; [reflexivity|].
  unfold ffrag in F. rewrite forallb_forall in *. intros c Hc. specialize (F c Hc).
  destruct (fchar_not c F) as [Hd [Hb _]]. rewrite Hd, Hb. reflexivity.
Qed.

Lemma top_items_good : forall fuel l, Forall good_item l -> top_items (S fuel) l = TOk (map tconv l).
Proof.
  intros fuel l H. induction H as [|it l Hit Hl IH]; [reflexivity|].
  destruct it as [c|name conv spec].
  - simpl. rewrite IH. reflexivity.
  - destruct conv; [contradiction|]. destruct spec; [contradiction|]. simpl in Hit.
    change (top_items (S fuel) (RFld name None None :: l))
      with (match split_name (S fuel) name with
            | None => TRaise
            | Some (an, path) =>
                if negb (conv_known None) then TRaise
                else match expand_spec (S fuel) [] with
                     | SRaise => TRaise
                     | SFuelOut => TFuel
                     | SOk si => match top_items (S fuel) l with
                                 | TOk l' => TOk (TFld (mk_tf an path None si) :: l')
                                 | other => other
                                 end
                     end
            end).
    rewrite (split_name_plain fuel name Hit), IH. reflexivity.
Qed.

Lemma flatten_tconv : forall l, Forall good_item l -> flatten_tree (map tconv l) = fields_of l.
Proof.
  intros l H. induction H as [|it l Hit Hl IH]; [reflexivity|].
  destruct it as [c|name conv spec].
  - exact IH.
  - destruct conv; [contradiction|]. destruct spec; [contradiction|].
    unfold flatten_tree, tree_fields in *. simpl. rewrite IH. reflexivity.
Qed.

(* THE THEOREM: on templates without . [ ! : the two parsers agree *)
Theorem format_scan_agree_fragment : forall t fs errs,
  ffrag t = true -> pa_parse t = Some (fs, errs) ->
  (errs = [] -> py_parse t = PYOk fs) /\ (errs <> [] -> py_parse t = PYRaise).
Proof.
  intros t fs errs F H. unfold pa_parse in H.
  destruct (pa_children (2 * length t + 4) None (mk_ps t 0 [])) as [fs' st|] eqn:Ec; [|discriminate].
  injection H as <- <-.
  destruct (pa_children_ref _ _ _ _ _ _ F Ec) as [_ Hr].
  assert (py_lex (2 * length t + 4) t = match ref_raw t None with Some l => RWOk l | None => RWRaise end) as Hl
    by (apply py_lex_ref; [exact F|lia]).
  unfold py_parse, py_tree. rewrite Hl.
  destruct (ref_raw t None) as [l|] eqn:Er.
  - destruct Hr as [He Hf]. simpl in He. rewrite He. split; [|intros Hx; exfalso; apply Hx; reflexivity].
    intros _. pose proof (ref_raw_good (length t) t None l (le_n _) F I Er) as Hg.
    replace (2 * length t + 4)%nat with (S (2 * length t + 3))%nat by lia.
    rewrite (top_items_good _ l Hg), (flatten_tconv l Hg), Hf. reflexivity.
  - simpl in Hr. split; [|reflexivity].
    intros He. exfalso. destruct (ps_errs st); [simpl in Hr; lia|]. simpl in He.
    apply (f_equal (@length _)) in He. rewrite app_length in He. simpl in He. lia.
Qed.

(* the character-level str.format theorems on the fragment, without any hypothesis
   about CPython's parser *)
Theorem format_fragment_raise_reported : forall t nargs kw fs errs,
  ffrag t = true -> pa_parse t = Some (fs, errs) ->
  py_format_verdict t nargs kw = VRaises ->
  option_map freport_reports (pa_format_check t nargs kw) = Some true.
Proof.
  intros t nargs kw fs errs F Hpa Hv.
  destruct (format_scan_agree_fragment t fs errs F Hpa) as [H1 H2].
  unfold pa_format_check. rewrite Hpa.
  destruct errs as [|[p e] errs]; [|reflexivity].
  simpl. unfold py_format_verdict in Hv. rewrite (H1 eq_refl) in Hv.
  destruct (py_fields_raise fs nargs kw AInit 0) eqn:Er.
  - rewrite (format_raise_reported fs nargs kw Er). reflexivity.
  - destruct (forallb simple_field fs); discriminate.
Qed.

Theorem format_fragment_report_sound : forall t nargs kw fs errs r,
  ffrag t = true -> pa_parse t = Some (fs, errs) ->
  pa_format_check t nargs kw = Some r -> freport_reports r = true ->
  py_format_verdict t nargs kw = VRaises \/
  (exists l, r = RFields l /\ forallb is_unused l = true).
Proof.
  intros t nargs kw fs errs r F Hpa Hc Hr.
  destruct (format_scan_agree_fragment t fs errs F Hpa) as [H1 H2].
  unfold pa_format_check in Hc. rewrite Hpa in Hc.
  destruct errs as [|[p e] errs].
  - injection Hc as <-. simpl in Hr.
    destruct (format_report_sound fs nargs kw Hr) as [H|H].
    + left. unfold py_format_verdict. rewrite (H1 eq_refl), H. reflexivity.
    + right. eexists. split; [reflexivity|exact H].
  - left. unfold py_format_verdict. rewrite H2 by discriminate. reflexivity.
Qed.

(* "{a}{}{{x}}" : plain fields and escapes *)
Example format_fragment_example :
  let t := [123; 97; 125; 123; 125; 123; 123; 120; 125; 125] in
  ffrag t = true /\
  pa_parse t = Some ([plain_field [97]; plain_field []], []) /\
  py_parse t = PYOk [plain_field [97]; plain_field []].
Proof. vm_compute. repeat split; reflexivity. Qed.
