(* Proofs/FormatTyped.v — the %-operator on typed (non-literal) arguments:
   soundness (a report means: some alternative of some argument raises for every
   run-time member, or the arity is wrong for every member) and completeness
   (if every member of an argument position fails its conversion, or the arity is
   wrong, something is reported).  Key-less templates, tuples of any length. *)
From Coq Require Import ZArith NArith List Bool Lia.
Import ListNotations.
Require Import PV.Gen.FormatRe PV.Gen.FormatAccept PV.Format.Percent PV.Format.PyPercent PV.Format.Guards PV.Format.Typed.
Require Import PV.Proofs.FormatConv PV.Proofs.FormatPercent PV.Proofs.FormatGen.
Open Scope N_scope.

Local Opaque float_overflow.

Ltac gen_classes t :=
  rewrite gen_accept_v_is_model;
  unfold type_accept_v, conv_ok, c_limit, ch_a, ch_r, ch_c, ch_b, ch_s, ch_pct;
  rewrite integer_set_is_idx, numeric_set_is_classes;
  destruct (is_idx t); simpl orb;
  [|destruct (is_dec t); simpl orb;
  [|destruct (is_flt t); simpl orb;
  [|destruct ((t =? 97) || (t =? 114));
  [|destruct (t =? 99);
  [|destruct (t =? 98) eqn:Eb; simpl orb;
  [|destruct (t =? 115); rewrite ?andb_false_r, ?andb_true_r;
  [|destruct (t =? 37)]]]]]]].

(* a typed argument is rejected: every run-time member makes CPython raise *)
Lemma typed_err_conv_bad : forall is_bytes t ty o,
  gen_accept is_bytes t (view_of_ty ty) <> [] -> conc (AT ty) o -> conv_ok is_bytes t o = false.
Proof.
  intros b t ty o. gen_classes t; intros Hacc Hc;
    destruct ty; simpl in Hacc; try (exfalso; apply Hacc; reflexivity);
    destruct o as [z|[|]|[|]|s|s|m]; simpl in Hc; try contradiction; try discriminate;
    destruct b; simpl in *; try reflexivity; try (exfalso; apply Hacc; reflexivity); try discriminate.
Qed.

Lemma typed_star_bad : forall p ty o,
  gen_star_accept (view_of_ty ty) <> [] -> conc (AT ty) o -> star_ok p o = false.
Proof.
  intros p ty o Hacc Hc. unfold gen_star_accept in Hacc. apply star_not_int_bad.
  destruct ty; simpl in Hacc; try (exfalso; apply Hacc; reflexivity);
    destruct o; simpl in Hc; try contradiction; try discriminate; reflexivity.
Qed.

(* literal alternatives need the %c range guard *)
Definition norange (is_bytes : bool) (a : aval) : Prop :=
  match a with AK o => c_range_obj is_bytes o = false | AT _ => True end.

Lemma aval_err_bad : forall is_bytes s a o,
  serial_accept_v is_bytes s (view_of_aval a) <> [] -> conc a o -> norange is_bytes a ->
  serial_ok is_bytes s o = false.
Proof.
  intros b s a o Hacc Hc Hn. destruct s as [p|cs]; simpl in *.
  - destruct a as [o'|ty].
    + simpl in Hc. subst o'. simpl in Hacc. rewrite gen_star_is_model in Hacc.
      apply star_not_int_bad. destruct (int_like o); [exfalso; apply Hacc; reflexivity|reflexivity].
    + apply (typed_star_bad p ty o Hacc Hc).
  - destruct a as [o'|ty].
    + simpl in Hc. subst o'. simpl in Hacc, Hn. rewrite gen_accept_is_model in Hacc.
      apply accept_err_conv_bad; [|exact Hacc]. rewrite Hn. apply andb_false_r.
    + apply (typed_err_conv_bad b (c_type cs) ty o Hacc Hc).
Qed.

Lemma consume_bad_at : forall is_bytes i ss os s o,
  nth_error ss i = Some s -> nth_error os i = Some o -> serial_ok is_bytes s o = false ->
  consume is_bytes ss os = None.
Proof.
  intros b i. induction i as [|i IH]; intros ss os s o Hs Ho Hb.
  - destruct ss as [|s0 ss]; [discriminate|]. destruct os as [|o0 os]; [discriminate|].
    simpl in *. injection Hs as ->. injection Ho as ->. rewrite Hb. reflexivity.
  - destruct ss as [|s0 ss]; [discriminate|]. destruct os as [|o0 os]; [discriminate|].
    simpl in *. destruct (serial_ok b s0 o0); [apply (IH ss os s o); assumption|reflexivity].
Qed.

(* a reported union has a reported member, and conversely *)
Lemma accept_u_member : forall is_bytes s u, serial_accept_u is_bytes s u <> [] ->
  exists a, In a u /\ serial_accept_v is_bytes s (view_of_aval a) <> [].
Proof.
  intros b s u H. destruct s as [p|cs]; unfold serial_accept_u in H.
  - unfold gen_star_accept, view_of_union in H. simpl in H.
    destruct (forallb (fun a => av_int (view_of_aval a)) u) eqn:E; [exfalso; apply H; reflexivity|].
    assert (exists a, In a u /\ av_int (view_of_aval a) = false) as [a [Hin Ha]].
    { clear H. induction u as [|a u IH]; [discriminate|]. simpl in E.
      destruct (av_int (view_of_aval a)) eqn:Ea.
      - destruct (IH E) as [a' [H1 H2]]. exists a'. split; [right; exact H1|exact H2].
      - exists a. split; [left; reflexivity|exact Ea]. }
    exists a. split; [exact Hin|]. simpl. unfold gen_star_accept. rewrite Ha. discriminate.
  - apply (flat_map_not_nil _ _ H).
Qed.

Lemma member_accept_u : forall is_bytes s u a, In a u ->
  serial_accept_v is_bytes s (view_of_aval a) <> [] -> serial_accept_u is_bytes s u <> [].
Proof.
  intros b s u a Hin Ha. destruct s as [p|cs]; unfold serial_accept_u.
  - simpl in Ha. unfold gen_star_accept in *. simpl.
    destruct (av_int (view_of_aval a)) eqn:Ea; [exfalso; apply Ha; reflexivity|].
    assert (forallb (fun a => av_int (view_of_aval a)) u = false) as E.
    { destruct (forallb (fun a => av_int (view_of_aval a)) u) eqn:E; [|reflexivity].
      rewrite forallb_forall in E. rewrite (E a Hin) in Ea. discriminate. }
    rewrite E. discriminate.
  - intros Hz. apply (Ha (flat_map_nil _ _ Hz a Hin)).
Qed.

Lemma zip_u_bad : forall is_bytes ss us,
  zip_accept_u is_bytes ss us <> [] ->
  exists i s u a, nth_error ss i = Some s /\ nth_error us i = Some u /\ In a u /\
                  serial_accept_v is_bytes s (view_of_aval a) <> [].
Proof.
  intros b ss. induction ss as [|s ss IH]; intros us H; [exfalso; apply H; reflexivity|].
  destruct us as [|u us]; [exfalso; apply H; reflexivity|]. simpl in H.
  destruct (serial_accept_u b s u) eqn:E.
  - simpl in H. destruct (IH us H) as [i [s' [u' [a [H1 [H2 [H3 H4]]]]]]].
    exists (S i), s', u', a. repeat split; assumption.
  - assert (serial_accept_u b s u <> []) as Hne by (rewrite E; discriminate).
    destruct (accept_u_member b s u Hne) as [a0 [Hin Ha]].
    exists 0%nat, s, u, a0. repeat split; try reflexivity; assumption.
Qed.

Lemma raises_of_consume_none : forall is_bytes specs a,
  needs_mapping specs = false -> pa_lint is_bytes specs 0 = [] ->
  consume is_bytes (serial_specifiers specs) (all_args a) = None ->
  py_raises is_bytes specs a = true.
Proof.
  intros b specs a Hnm Hl Hc.
  pose proof (clean_of_lint b specs Hnm Hl) as Hclean.
  pose proof (steps_bridge b a specs (init_state a) Hclean) as Hb.
  rewrite init_items, Hc in Hb. unfold py_raises.
  destruct (py_steps b a (init_state a) specs); [|reflexivity].
  destruct (forallb nums_ok_spec specs); discriminate.
Qed.

(* SOUNDNESS, conversions: a rejected alternative [a] of the argument at position
   [i] makes CPython raise for every run-time member of [a], whatever the other
   arguments are *)
Theorem typed_report_sound : forall is_bytes specs (l : list uval),
  needs_mapping specs = false -> pa_lint is_bytes specs 0 = [] ->
  zip_accept_u is_bytes (serial_specifiers specs) l <> [] ->
  exists i u a, nth_error l i = Some u /\ In a u /\
    forall os o, nth_error os i = Some o -> conc a o -> norange is_bytes a ->
      py_raises is_bytes specs (ATuple os) = true.
Proof.
  intros b specs l Hnm Hl Hz.
  destruct (zip_u_bad b _ _ Hz) as [i [s [u [a [Hs [Hu [Hin Hacc]]]]]]].
  exists i, u, a. repeat split; try assumption.
  intros os o Ho Hc Hn. apply raises_of_consume_none; try assumption. simpl.
  apply (consume_bad_at b i _ os s o Hs Ho). apply (aval_err_bad b s a o Hacc Hc Hn).
Qed.

(* SOUNDNESS, arity: a reported arity mismatch is an error for every tuple of that length *)
Theorem typed_arity_sound : forall is_bytes specs os,
  needs_mapping specs = false -> pa_lint is_bytes specs 0 = [] ->
  length os <> length (serial_specifiers specs) ->
  py_raises is_bytes specs (ATuple os) = true.
Proof.
  intros b specs os Hnm Hl Hlen.
  pose proof (clean_of_lint b specs Hnm Hl) as Hclean.
  pose proof (steps_bridge b (ATuple os) specs (init_state (ATuple os)) Hclean) as Hb.
  simpl st_items in Hb. unfold py_raises.
  destruct (Nat.lt_ge_cases (length os) (length (serial_specifiers specs))) as [Hlt|Hge].
  - rewrite consume_short in Hb by exact Hlt.
    destruct (py_steps b (ATuple os) (init_state (ATuple os)) specs); [|reflexivity].
    destruct (forallb nums_ok_spec specs); discriminate.
  - assert (length (serial_specifiers specs) < length os)%nat as Hlt by lia.
    destruct (py_steps b (ATuple os) (init_state (ATuple os)) specs) as [st'|]; [|reflexivity].
    destruct (forallb nums_ok_spec specs); [|discriminate].
    destruct (consume_long b _ _ Hlt) as [Hc|[r [Hc Hr]]]; rewrite Hc in Hb; [discriminate|].
    simpl in Hb. injection Hb as Hit. rewrite leftover_items, Hit. destruct r; [contradiction|reflexivity].
Qed.

(* ---------------------------------------------------------------- completeness *)
(* every run-time member of the typed value fails the conversion: it is rejected *)
Lemma typed_all_bad_err : forall is_bytes t ty,
  (t = ch_b -> is_bytes = true) ->
  (forall o, conc (AT ty) o -> conv_ok is_bytes t o = false) ->
  gen_accept is_bytes t (view_of_ty ty) <> [].
Proof.
  intros b t ty. gen_classes t; intros Hb H;
    try (apply N.eqb_eq in Eb; specialize (Hb Eb); subst b);
    destruct ty; simpl; try discriminate;
    try (specialize (H (OInt 0) I); simpl in H; try destruct b; discriminate);
    try (specialize (H (OBool true) I); simpl in H; try destruct b; discriminate);
    try (specialize (H (OFloat true) I); simpl in H; try destruct b; discriminate);
    try (specialize (H (OStr [97]) I); simpl in H; try destruct b; simpl in H; discriminate);
    try (specialize (H (OBytes [97]) I); simpl in H; try destruct b; simpl in H; discriminate);
    try (specialize (H (OOther false) eq_refl); simpl in H; try destruct b; discriminate);
    try destruct b; simpl; try discriminate;
    try (specialize (H (OBytes [97]) I); simpl in H; discriminate);
    try (specialize (H (OStr [97]) I); simpl in H; discriminate).
Qed.

Lemma typed_star_all_bad_err : forall p ty,
  (forall o, conc (AT ty) o -> star_ok p o = false) -> gen_star_accept (view_of_ty ty) <> [].
Proof.
  intros p ty H. unfold gen_star_accept.
  destruct ty; simpl; try discriminate.
  - specialize (H (OInt 0) I). destruct p; discriminate.
  - specialize (H (OBool true) I). destruct p; discriminate.
  - specialize (H (OInt 0) I). destruct p; discriminate.
Qed.

(* alternatives the completeness statement covers: a typed alternative, or a
   literal outside the overflow class *)
Definition complete_guard (is_bytes : bool) (s : serial) (a : aval) : Prop :=
  match s with SSpec cs => (c_type cs = ch_b -> is_bytes = true) | SStar _ => True end /\
  match a with AT _ => True | AK o => obj_big o = false end.

Lemma aval_all_bad_err : forall is_bytes s a,
  complete_guard is_bytes s a ->
  (forall o, conc a o -> serial_ok is_bytes s o = false) ->
  serial_accept_v is_bytes s (view_of_aval a) <> [].
Proof.
  intros b s a Hg H. destruct a as [o|ty]; destruct s as [p|cs]; simpl in *.
  - rewrite gen_star_is_model. specialize (H o eq_refl). destruct Hg as [_ Hbig].
    destruct (int_like o) eqn:E; [|discriminate].
    rewrite (star_small_ok p o Hbig E) in H. discriminate.
  - rewrite gen_accept_is_model. specialize (H o eq_refl). destruct Hg as [Hb Hbig].
    intros Hacc. rewrite (accept_ok_conv_ok b (c_type cs) o Hb Hbig Hacc) in H. discriminate.
  - apply (typed_star_all_bad_err p ty H).
  - destruct Hg as [Hb _]. apply (typed_all_bad_err b (c_type cs) ty Hb H).
Qed.

Lemma zip_u_nonempty_at : forall is_bytes i ss us s u a,
  nth_error ss i = Some s -> nth_error us i = Some u -> In a u ->
  serial_accept_v is_bytes s (view_of_aval a) <> [] ->
  zip_accept_u is_bytes ss us <> [].
Proof.
  intros b i. induction i as [|i IH]; intros ss us s u a Hs Hu Hin Ha.
  - destruct ss as [|s0 ss]; [discriminate|]. destruct us as [|u0 us]; [discriminate|].
    simpl in *. injection Hs as ->. injection Hu as ->.
    intros Hz. apply app_eq_nil in Hz. destruct Hz as [Hz _].
    apply (member_accept_u b s u a Hin Ha Hz).
  - destruct ss as [|s0 ss]; [discriminate|]. destruct us as [|u0 us]; [discriminate|].
    simpl in *. intros Hz. apply app_eq_nil in Hz. destruct Hz as [_ Hz].
    apply (IH ss us s u a Hs Hu Hin Ha Hz).
Qed.

(* COMPLETENESS: the arity is wrong, or some alternative of some argument
   position fails its conversion for every run-time member  ==>  reported *)
Theorem typed_raise_reported : forall is_bytes specs (l : list uval),
  (length l <> length (serial_specifiers specs) \/
   exists i s u a, nth_error (serial_specifiers specs) i = Some s /\ nth_error l i = Some u /\ In a u /\
                   complete_guard is_bytes s a /\
                   forall o, conc a o -> serial_ok is_bytes s o = false) ->
  accept_tuple_typed is_bytes specs (TTuple l) <> [].
Proof.
  intros b specs l H. unfold accept_tuple_typed. cbv beta iota zeta.
  destruct (length l <? length (serial_specifiers specs))%nat eqn:E1; [cbv iota; discriminate|].
  destruct (length (serial_specifiers specs) <? length l)%nat eqn:E2; [cbv iota; discriminate|].
  apply Nat.ltb_ge in E1. apply Nat.ltb_ge in E2.
  destruct H as [Hlen|[i [s [u [a [Hs [Hu [Hin [Hg Hbad]]]]]]]]]; [lia|].
  apply (zip_u_nonempty_at b i _ _ s u a Hs Hu Hin). apply (aval_all_bad_err b s a Hg Hbad).
Qed.

(* the typed checks on a tuple of literals are the literal checks *)
Lemma typed_of_literals : forall is_bytes ss os,
  zip_accept_u is_bytes ss (map (fun o => [AK o]) os) = zip_accept is_bytes ss os.
Proof.
  intros b ss. induction ss as [|s ss IH]; intros os; [reflexivity|].
  destruct os as [|o os]; [reflexivity|].
  change (zip_accept_u b (s :: ss) (map (fun o => [AK o]) (o :: os)))
    with (serial_accept_u b s [AK o] ++ zip_accept_u b ss (map (fun o => [AK o]) os)).
  rewrite IH.
  change (zip_accept b (s :: ss) (o :: os)) with (serial_accept b s o ++ zip_accept b ss os).
  f_equal. destruct s as [p|cs]; unfold serial_accept_u; simpl.
  - unfold gen_star_accept. simpl. rewrite andb_true_r. destruct (int_like o); reflexivity.
  - rewrite app_nil_r. apply gen_accept_is_model.
Qed.

(* examples: "%d %s" % (x: int|str, y: Any) is reported (str member of x);
   "%c" % (x: int) is not (some ints are fine); "%x" % (x: float) is *)
Example typed_examples :
  accept_tuple_typed false [bare 100; bare 115] (TTuple [[AT TyInt; AT TyStr]; [AT TyAny]]) = [ENumeric] /\
  accept_tuple_typed false [bare 99] (TTuple [[AT TyInt]]) = [] /\
  accept_tuple_typed false [bare 120] (TScalar (AT TyFloat)) = [EInteger] /\
  accept_tuple_typed false [mk_cspec 100 None None FStar FNone None] (TTuple [[AT TyFloat; AT TyStr]; [AT TyBool]]) = [EStar] /\
  accept_tuple_typed false [bare 100] TOpaque = [].
Proof. vm_compute. repeat split; reflexivity. Qed.
