(* Proofs/InferBase.v — C01: basic facts about objects, values, membership, narrowing. *)
From Coq Require Import ZArith List Bool Lia.
Import ListNotations.
Require Import PV.Infer.Mini.

(* ------------------------------------------------------------ induction principles for the nested types *)

Section ObjInd.
  Variable P : obj -> Prop.
  Hypothesis HNone : P ONone.
  Hypothesis HBool : forall b, P (OBool b).
  Hypothesis HInt : forall z, P (OInt z).
  Hypothesis HStr : forall s, P (OStr s).
  Hypothesis HTuple : forall l, Forall P l -> P (OTuple l).
  Fixpoint obj_ind' (o : obj) : P o :=
    match o with
    | ONone => HNone
    | OBool b => HBool b
    | OInt z => HInt z
    | OStr s => HStr s
    | OTuple l =>
        HTuple l ((fix go (l : list obj) : Forall P l :=
                     match l with
                     | [] => Forall_nil P
                     | x :: r => Forall_cons x (obj_ind' x) (go r)
                     end) l)
    end.
End ObjInd.

Section ValInd.
  Variable P : val -> Prop.
  Hypothesis HAny : P VAny.
  Hypothesis HKnown : forall o, P (VKnown o).
  Hypothesis HTyped : forall c, P (VTyped c).
  Hypothesis HSeq : forall l, Forall P l -> P (VSeq l).
  Hypothesis HUnion : forall l, Forall P l -> P (VUnion l).
  Fixpoint val_ind' (v : val) : P v :=
    let go := fix go (l : list val) : Forall P l :=
                match l with
                | [] => Forall_nil P
                | x :: r => Forall_cons x (val_ind' x) (go r)
                end in
    match v with
    | VAny => HAny
    | VKnown o => HKnown o
    | VTyped c => HTyped c
    | VSeq l => HSeq l (go l)
    | VUnion l => HUnion l (go l)
    end.
End ValInd.

(* ------------------------------------------------------------ objects *)

Lemma obj_eqb_eq : forall a b, obj_eqb a b = true -> a = b.
Proof.
  induction a as [| x | x | x | l IH] using obj_ind'; intros b H; destruct b; simpl in H; try discriminate.
  - reflexivity.
  - apply eqb_prop in H. now subst.
  - apply Z.eqb_eq in H. now subst.
  - apply Nat.eqb_eq in H. now subst.
  - f_equal. revert l0 H. induction IH as [| x l Hx _ IHl]; intros [| y ys] H; try discriminate; auto.
    apply andb_true_iff in H as [H1 H2]. f_equal; auto.
Qed.

Lemma obj_eqb_refl : forall a, obj_eqb a a = true.
Proof.
  induction a as [| x | x | x | l IH] using obj_ind'; simpl; auto.
  - apply eqb_reflx.
  - apply Z.eqb_refl.
  - apply Nat.eqb_refl.
  - induction IH as [| x l Hx _ IHl]; auto. now rewrite Hx, IHl.
Qed.

Lemma subcls_trans : forall a b c, subcls a b = true -> subcls b c = true -> subcls a c = true.
Proof. intros [] [] []; simpl; auto. Qed.

Lemma subcls_refl : forall a, subcls a a = true.
Proof. intros []; reflexivity. Qed.

(* two classes with a common instance are comparable in this class table *)
Lemma subcls_comparable : forall k c d, subcls k c = true -> subcls k d = true -> subcls c d = true \/ subcls d c = true.
Proof. intros [] [] []; simpl; intros; auto; discriminate. Qed.

(* on non-numeric atoms Python equality is literal identity *)
Definition lit_nonnum (l : obj) : bool :=
  match l with ONone | OStr _ => true | _ => false end.

Lemma py_eq_nonnum : forall o l, lit_nonnum l = true -> py_eq o l = true -> obj_eqb o l = true.
Proof.
  intros o l Hl H.
  destruct l; simpl in Hl; try discriminate Hl.
  - destruct o; simpl in H; try discriminate H; reflexivity.
  - destruct o; simpl in H; try discriminate H; exact H.
Qed.

(* ------------------------------------------------------------ membership *)

Lemma member_union : forall o l, member o (VUnion l) = existsb (member o) l.
Proof. intros o l. simpl. induction l as [| v r IH]; simpl; auto. Qed.

Lemma member_seq_tuple : forall os vs,
  member (OTuple os) (VSeq vs) = true <-> Forall2 (fun o v => member o v = true) os vs.
Proof.
  intros os vs. simpl. revert vs. induction os as [| o r IH]; intros [| v q]; split; intros H; try discriminate; auto; try solve [inversion H].
  - apply andb_true_iff in H as [H1 H2]. constructor; auto. now apply IH.
  - inversion H; subst. apply andb_true_iff. split; auto. now apply IH.
Qed.

Lemma member_seq_is_tuple : forall o vs, member o (VSeq vs) = true -> exists os, o = OTuple os.
Proof. intros [] vs H; simpl in H; try discriminate. eauto. Qed.

Lemma member_never : forall o, member o VNever = false.
Proof. reflexivity. Qed.

Lemma member_unite : forall o a b, member o (unite a b) = member o a || member o b.
Proof.
  intros o a b.
  destruct a; destruct b; unfold unite;
    repeat rewrite member_union; try rewrite existsb_app; cbn [existsb].
  all: rewrite ?orb_false_r.
  all: auto.
Qed.

Lemma member_flat : forall o v, member o v = existsb (member o) (flat v).
Proof.
  intros o v. destruct v; cbn [flat existsb].
  all: rewrite ?orb_false_r.
  all: auto.
Qed.

(* ------------------------------------------------------------ narrowing of values *)

(* literals on which the == narrowing of the unchanged code is sound: non-numeric atoms
   (bool/int compare equal across types, which EqualsPredicate ignores) *)
Definition atom_okb (k : atomc) : bool :=
  match k with
  | KEq l => lit_nonnum l
  | _ => true
  end.

Ltac fin := first [ solve [eauto]
                  | solve [eexists; split; [reflexivity | cbn [member]; rewrite ?obj_eqb_refl; auto]] ].

Lemma narrow1_sound : forall k p v o,
  atom_okb k = true -> member o v = true -> atom_holds k o = p ->
  exists w, narrow1 k p v = Some w /\ member o w = true.
Proof.
  intros k p v o Hk Hm Hh.
  destruct k as [| | c | l]; cbn [atom_holds] in Hh.
  - (* truthy *)
    destruct v as [| o' | c | vs | vs]; cbn [narrow1]; try fin.
    + simpl in Hm. apply obj_eqb_eq in Hm. subst o'. rewrite Hh, eqb_reflx. fin.
    + destruct (member_seq_is_tuple _ _ Hm) as [os ->].
      destruct vs as [| v0 vs].
      * destruct os; simpl in Hm; try discriminate. simpl in Hh. subst p. fin.
      * destruct os as [| o0 os]; [simpl in Hm; discriminate |]. simpl in Hh. subst p. fin.
  - (* is None *)
    destruct p.
    + destruct o; try discriminate.
      destruct v as [| o' | c | vs | vs]; cbn [narrow1]; try fin.
      * simpl in Hm. destruct o'; try discriminate. fin.
      * simpl in Hm. unfold isinst in Hm. simpl in Hm. rewrite Hm. fin.
      * simpl in Hm. discriminate.
    + destruct v as [| o' | c | vs | vs]; cbn [narrow1]; try fin.
      simpl in Hm. apply obj_eqb_eq in Hm. subst o'. destruct o; try discriminate; fin.
  - (* isinstance *)
    destruct v as [| o' | d | vs | vs]; cbn [narrow1].
    + destruct p; fin.
    + simpl in Hm. apply obj_eqb_eq in Hm. subst o'. rewrite Hh, eqb_reflx. fin.
    + simpl in Hm. unfold isinst in *. destruct p.
      * destruct (subcls d c) eqn:E1; [fin |].
        destruct (subcls c d) eqn:E2; [fin |].
        destruct (subcls_comparable _ _ _ Hh Hm); congruence.
      * destruct (subcls d c) eqn:E1; [| fin].
        rewrite (subcls_trans _ _ _ Hm E1) in Hh. discriminate.
    + destruct (member_seq_is_tuple _ _ Hm) as [os ->]. unfold isinst in Hh. simpl in Hh.
      destruct p; rewrite Hh; fin.
    + fin.
  - (* == literal *)
    simpl in Hk.
    destruct v as [| o' | d | vs | vs]; cbn [narrow1].
    + destruct p; try fin. eexists; split; eauto. simpl. now apply py_eq_nonnum.
    + simpl in Hm. apply obj_eqb_eq in Hm. subst o'. rewrite Hh, eqb_reflx. fin.
    + destruct p.
      * pose proof (py_eq_nonnum _ _ Hk Hh) as He. apply obj_eqb_eq in He. subst l.
        simpl in Hm. rewrite Hm. fin.
      * destruct l; try discriminate; fin.
    + destruct p; try fin.
      destruct (member_seq_is_tuple _ _ Hm) as [os ->].
      destruct l; try discriminate; simpl in Hh; discriminate.
    + fin.
Qed.

Lemma filter_map_narrow_sound : forall k p vs o,
  atom_okb k = true -> existsb (member o) vs = true -> atom_holds k o = p ->
  existsb (member o) (filter_map_narrow k p vs) = true.
Proof.
  intros k p vs o Hk. induction vs as [| v r IH]; intros Hm Hh; simpl in *; try discriminate.
  apply orb_true_iff in Hm as [Hm | Hm].
  - destruct (narrow1_sound k p v o Hk Hm Hh) as [w [E Hw]]. rewrite E. simpl. now rewrite Hw.
  - destruct (narrow1 k p v); simpl; rewrite IH; auto. apply orb_true_r.
Qed.

Lemma narrow_val_sound : forall k p v o,
  atom_okb k = true -> member o v = true -> atom_holds k o = p ->
  member o (narrow_val k p v) = true.
Proof.
  intros k p v o Hk Hm Hh. rewrite member_flat in Hm.
  pose proof (filter_map_narrow_sound k p (flat v) o Hk Hm Hh) as H.
  unfold narrow_val. destruct (filter_map_narrow k p (flat v)) as [| w [| w2 ws]] eqn:E.
  - discriminate.
  - simpl in H. now rewrite orb_false_r in H.
  - now rewrite member_union.
Qed.

(* the faithful model of the == narrowing is refuted on numeric literals:
   x : bool, `x == 0` (true for x = False) narrows x to Never *)
Lemma narrow_eq_numeric_refuted :
  member (OBool false) (VTyped CBool) = true /\ atom_holds (KEq (OInt 0)) (OBool false) = true /\
  member (OBool false) (narrow_val (KEq (OInt 0)) true (VTyped CBool)) = false.
Proof. vm_compute. auto. Qed.
