(* Proofs/InferCompose.v — C01 composed with C19: the subscript rule of the mini-language *is* the
   int-key branch of `_sequence_common_getitem_impl` as modelled in Ops/SeqIndex.v over PV.Gen.Ops
   (regenerated from implementation.py on every run), restricted to sequences without unpacked
   members; its soundness is obtained from the C19 theorem instead of being proved again. *)
From Coq Require Import ZArith List Bool Lia.
Import ListNotations.
Require Import PV.Gen.Ops PV.Ops.SeqIndex PV.Proofs.OpsSeqIndex.
Require Import PV.Infer.Mini PV.Proofs.InferBase.

Definition single_members (vs : list val) : members val := map (fun v => (false, v)) vs.

Lemma member_sequence_single_members : forall vs, member_sequence (single_members vs) = Some vs.
Proof. induction vs as [| v r IH]; simpl; auto. rewrite IH. reflexivity. Qed.

(* Python's l[k] as written in Mini.v and as written in Ops/SeqIndex.v *)
Lemma tuple_index_py_nth : forall (A : Type) (l : list A) k, tuple_index l k = py_nth l k.
Proof.
  intros A l k. unfold tuple_index, py_nth.
  destruct (0 <=? k)%Z eqn:E0.
  - destruct (k <? Z.of_nat (length l))%Z eqn:E1; auto.
    symmetry. apply nth_error_None. apply Z.ltb_ge in E1. apply Z.leb_le in E0. lia.
  - replace (0 <=? Z.of_nat (length l) + k)%Z with (- Z.of_nat (length l) <=? k)%Z; auto.
    destruct (- Z.of_nat (length l) <=? k)%Z eqn:E1; symmetry.
    + apply Z.leb_le. apply Z.leb_le in E1. lia.
    + apply Z.leb_gt. apply Z.leb_gt in E1. lia.
Qed.

(* the mini-language's rule for `VSeq vs`[k] is exactly what the model of the implementation answers
   for SequenceValue(tuple, [(False, v) ...]) and the literal key k *)
Theorem mini_subscript_is_impl_rule : forall vs k,
  tuple_index vs k =
  match seq_getitem_int KTuple (single_members vs) k with
  | RMember w => Some w
  | _ => None
  end.
Proof.
  intros vs k. unfold seq_getitem_int. rewrite member_sequence_single_members.
  rewrite tuple_index_py_nth.
  destruct (in_range (Z.of_nat (length vs)) k) eqn:Er.
  - destruct (py_nth vs k); reflexivity.
  - unfold py_nth. destruct (0 <=? k)%Z eqn:E0.
    + apply nth_error_None.
      assert (H : ~ (- Z.of_nat (length vs) <= k < Z.of_nat (length vs))%Z).
      { intros H. apply in_range_spec in H. congruence. }
      apply Z.leb_le in E0. lia.
    + destruct (- Z.of_nat (length vs) <=? k)%Z eqn:E1; auto.
      assert (H : ~ (- Z.of_nat (length vs) <= k < Z.of_nat (length vs))%Z).
      { intros H. apply in_range_spec in H. congruence. }
      apply Z.leb_le in E1. apply Z.leb_gt in E0. lia.
Qed.

Lemma matches_single : forall os vs,
  Forall2 (fun o v => member o v = true) os vs ->
  matches (fun o v => member o v = true) os (single_members vs).
Proof. intros os vs H. induction H; simpl; constructor; auto. Qed.

(* soundness of the subscript on one sequence value, by the C19 theorem *)
Theorem subscript_sound_from_c19 : forall vs k w os o,
  member (OTuple os) (VSeq vs) = true -> tuple_index vs k = Some w -> tuple_index os k = Some o ->
  member o w = true.
Proof.
  intros vs k w os o Hm Hv Ho.
  apply member_seq_tuple in Hm. apply matches_single in Hm.
  rewrite mini_subscript_is_impl_rule in Hv.
  destruct (seq_getitem_int KTuple (single_members vs) k) as [t | |] eqn:Eg; try discriminate.
  inversion Hv; subst t.
  destruct (@seq_index_sound val obj (fun o v => member o v = true) KTuple (single_members vs) k os w Hm Eg) as [o' [Hn Hmem]].
  rewrite tuple_index_py_nth in Ho. congruence.
Qed.

(* and the index error side: the subscript is outside the mini-language's fragment (None) exactly
   when the implementation reports "Tuple index out of range", i.e. when CPython raises IndexError *)
Theorem subscript_none_iff_index_error : forall vs k os,
  member (OTuple os) (VSeq vs) = true ->
  (tuple_index vs k = None <-> tuple_index os k = None).
Proof.
  intros vs k os Hm. apply member_seq_tuple in Hm.
  pose proof (matches_single _ _ Hm) as HM.
  pose proof (@seq_index_error_iff val obj (fun o v => member o v = true) (single_members vs) vs k os (member_sequence_single_members vs) HM) as Hiff.
  rewrite (tuple_index_py_nth _ os). rewrite <- Hiff.
  rewrite mini_subscript_is_impl_rule.
  unfold seq_getitem_int. rewrite member_sequence_single_members.
  destruct (in_range (Z.of_nat (length vs)) k) eqn:Er.
  - destruct (py_nth vs k) eqn:En; split; intros H; try discriminate; auto.
    exfalso. apply in_range_spec in Er. unfold py_nth in En.
    destruct (0 <=? k)%Z eqn:E0.
    + apply nth_error_None in En. apply Z.leb_le in E0. lia.
    + destruct (- Z.of_nat (length vs) <=? k)%Z eqn:E1; [apply nth_error_None in En; apply Z.leb_gt in E0; lia | apply Z.leb_gt in E1; lia].
  - split; auto.
Qed.

(* ------------------------------------------------------------------------------------------
   Composition with C09 (Scopes/Analysis.v: the model of FunctionScope's collecting phase; Scopes/Paths.v:
   strict path semantics over assignments, uses, if/else, while/for with else, `while True`,
   break/continue, with, try/except/else/finally).

   pyanalyze's value of a name at a use is the union of the values of the definition nodes recorded
   for that use.  Let `vals d` be the abstract value stored for definition node d (node UN, the
   "unbound" marker, included).  If the object bound to the variable along a strict path comes from
   definition d and belongs to `vals d`, it belongs to the union over the *reported* nodes: the
   reaching-definitions hypothesis of the C01 loop rule is discharged by the C09 lower-bound theorem
   (guard lower_ok: nothing follows a break/continue in its block; no break/continue leaves a try
   statement that has a finally clause). *)
Require Import PV.Scopes.Syntax PV.Scopes.Analysis PV.Scopes.Paths PV.Scopes.Guards PV.Proofs.ScopesSound.

Definition name_value (vals : node -> val) (p : block) (u : N) : val :=
  VUnion (map vals (reported p u)).

Theorem name_value_sound_from_c09 : forall (vals : node -> val) p u d o,
  lower_ok p = true -> strict_reach p u d -> member o (vals d) = true ->
  member o (name_value vals p u) = true.
Proof.
  intros vals p u d o Hok Hreach Hm.
  pose proof (strict_sub_reported p u d Hok Hreach) as Hin.
  unfold name_value. rewrite member_union. apply existsb_exists.
  exists (vals d). split; auto. apply in_map. exact Hin.
Qed.

(* a use whose inferred name value is Never is not reached along any strict path on which the
   variable is bound by a definition whose value is inhabited by the runtime object *)
Theorem name_value_never_unreachable_from_c09 : forall (vals : node -> val) p u d o,
  lower_ok p = true -> strict_reach p u d -> member o (vals d) = true ->
  name_value vals p u <> VNever.
Proof.
  intros vals p u d o Hok Hreach Hm Heq.
  pose proof (name_value_sound_from_c09 vals p u d o Hok Hreach Hm) as H.
  rewrite Heq in H. rewrite member_never in H. discriminate.
Qed.
