(* Proofs/InferNarrowBridge.v — C01 composed with C02: on the common fragment (None / bool / int / str
   objects; Any, literal and class values and their unions; the condition kinds truthiness, `is None`,
   isinstance(x, c), `== literal`) the mini-language's narrowing is at least as wide as the narrowing of
   Narrow/Model.v (the model of pyanalyze's constraint machinery that C02 ties to the source by
   translation and correspondence), the two membership relations agree and so do the run-time meanings
   of the conditions.  Hence "narrowing keeps the actual value" for Mini.v is a corollary of
   C02's narrow_keeps_value_partial — not a parallel proof. *)
From Coq Require Import ZArith List Bool NArith Lia.
Import ListNotations.
Require PV.Infer.Mini PV.Narrow.Base PV.Narrow.Model PV.Narrow.Guards PV.Proofs.NarrowMain.
Require Import PV.Proofs.InferBase.
Module M := PV.Infer.Mini.
Module B := PV.Narrow.Base.
Module N := PV.Narrow.Model.
Module G := PV.Narrow.Guards.

(* ------------------------------------------------------------------ the embedding *)

Definition embs (n : nat) : list N := repeat 1%N n.

Definition atom (o : M.obj) : bool := match o with M.OTuple _ => false | _ => true end.

Definition emb (o : M.obj) : B.obj :=
  match o with
  | M.ONone => B.ONone
  | M.OBool b => B.OBool b
  | M.OInt z => B.OInt z
  | M.OStr n => B.OStr (embs n)
  | M.OTuple _ => B.OTuple []
  end.

Definition embc (c : M.cls) : B.cls :=
  match c with
  | M.CObject => B.CObject | M.CInt => B.CInt | M.CBool => B.CBool
  | M.CStr => B.CStr | M.CTuple => B.CTuple | M.CNoneT => B.CNone
  end.

(* non-union values of the fragment *)
Definition fragv (v : M.val) : bool :=
  match v with
  | M.VAny => true
  | M.VKnown o => atom o
  | M.VTyped _ => true
  | _ => false
  end.

Definition frag (v : M.val) : bool := forallb fragv (M.flat v).

Definition embv1 (v : M.val) : B.bval :=
  match v with
  | M.VKnown o => B.VKnown (emb o)
  | M.VTyped c => B.VTyped (embc c)
  | _ => B.VAny
  end.

Definition embv (v : M.val) : B.value := map (fun w => B.plain (embv1 w)) (M.flat v).

Definition atom_k (k : M.atomc) : bool :=
  match k with M.KEq l => atom l | _ => true end.

Definition embk (k : M.atomc) : N.cond :=
  match k with
  | M.KTruthy => N.CTruthy
  | M.KIsNone => N.CIs B.ONone
  | M.KIsInst c => N.CIsInstance [embc c]
  | M.KEq l => N.CEq (emb l)
  end.

(* ------------------------------------------------------------------ the two object models agree *)

Lemma embs_eqb : forall n m, B.list_eqb N.eqb (embs n) (embs m) = Nat.eqb n m.
Proof. induction n as [| n IH]; intros [| m]; simpl; auto. Qed.

Lemma emb_obj_eqb : forall a b, atom a = true -> atom b = true -> B.obj_eqb (emb a) (emb b) = M.obj_eqb a b.
Proof.
  intros a b Ha Hb. destruct a; destruct b; try discriminate; simpl; auto. apply embs_eqb.
Qed.

Lemma emb_num : forall o, atom o = true -> B.num_of (emb o) = option_map (fun z => (2 * z)%Z) (M.num_of o).
Proof. intros o H. destruct o; try discriminate; simpl; auto. destruct b; reflexivity. Qed.

Lemma double_eqb : forall x y, Z.eqb (2 * x) (2 * y) = Z.eqb x y.
Proof. intros x y. destruct (Z.eqb_spec x y); destruct (Z.eqb_spec (2 * x) (2 * y)); auto; lia. Qed.

Lemma emb_py_eq : forall a b, atom a = true -> atom b = true -> B.py_eq (emb a) (emb b) = M.py_eq a b.
Proof.
  intros a b Ha Hb. unfold B.py_eq. rewrite (emb_num a Ha), (emb_num b Hb).
  destruct a as [| x | x | x | x]; destruct b as [| y | y | y | y]; try discriminate;
    cbn [M.num_of option_map emb]; try apply double_eqb; try reflexivity.
  cbn [B.obj_eqb M.py_eq M.num_of]. apply embs_eqb.
Qed.

Lemma emb_truthy : forall o, atom o = true -> B.truthy (emb o) = M.truthy o.
Proof. intros o H. destruct o; try discriminate; simpl; auto. destruct s; reflexivity. Qed.

Lemma emb_class_of : forall o, atom o = true -> B.class_of (emb o) = embc (M.class_of o).
Proof. intros o H. destruct o; try discriminate; reflexivity. Qed.

Lemma emb_sub : forall c d, B.sub (embc c) (embc d) = M.subcls c d.
Proof. intros [] []; reflexivity. Qed.

Lemma emb_sub_art : forall c d, B.sub_art (embc c) (embc d) = M.subcls c d.
Proof. intros [] []; reflexivity. Qed.

Lemma emb_isinst : forall o c, atom o = true -> B.isinst (emb o) (embc c) = M.isinst o c.
Proof. intros o c H. unfold B.isinst, M.isinst. rewrite emb_class_of by auto. apply emb_sub. Qed.

(* membership agrees on the fragment *)
Lemma emb_member1 : forall o w, atom o = true -> fragv w = true ->
  B.member_s (emb o) (B.plain (embv1 w)) = M.member o w.
Proof.
  intros o w Ho Hw. unfold B.member_s, B.plain. cbn [forallb]. rewrite andb_true_r.
  destruct w as [| k | c | l | l]; try discriminate; cbn [embv1 B.member_b M.member].
  - reflexivity.
  - apply emb_obj_eqb; auto.
  - rewrite emb_class_of by auto. rewrite emb_sub_art. reflexivity.
Qed.

Theorem emb_member : forall o v, atom o = true -> frag v = true ->
  B.member (emb o) (embv v) = M.member o v.
Proof.
  intros o v Ho Hv. rewrite member_flat. unfold B.member, embv, frag in *.
  induction (M.flat v) as [| w r IH]; cbn [map existsb forallb] in *; auto.
  apply andb_true_iff in Hv as [Hw Hr]. rewrite (emb_member1 o w Ho Hw), (IH Hr). reflexivity.
Qed.

(* the run-time meaning of the conditions agrees *)
Theorem emb_holds : forall k o, atom o = true -> atom_k k = true ->
  N.holds (embk k) (emb o) = Some (M.atom_holds k o).
Proof.
  intros k o Ho Hk. destruct k as [| | c | l]; cbn [embk N.holds M.atom_holds].
  - now rewrite emb_truthy.
  - destruct o; try discriminate; reflexivity.
  - cbn [existsb]. rewrite orb_false_r. now rewrite emb_isinst.
  - now rewrite emb_py_eq.
Qed.

(* ------------------------------------------------------------------ the C02 guard holds on the fragment *)

Lemma subclass_bool_atom : forall o, atom o = true -> G.subclass_bool (emb o) = false.
Proof.
  intros o H. destruct o; try discriminate; unfold G.subclass_bool; cbn [emb B.class_of];
    match goal with |- negb ?t && ?e = false => replace e with false by (vm_compute; reflexivity) end;
    apply andb_false_r.
Qed.

(* the quantifier's restriction on ==: an object that equals the literal is the literal
   (C02's eq_compatible; implied by Mini's syntactic guard "non-numeric literal") *)
Definition eq_ok (k : M.atomc) (o : M.obj) : bool :=
  match k with
  | M.KEq l => implb (M.py_eq o l) (M.obj_eqb o l)
  | _ => true
  end.

Lemma atom_okb_eq_ok : forall k o, atom_okb k = true -> eq_ok k o = true.
Proof.
  intros k o H. destruct k as [| | c | l]; simpl; auto. simpl in H.
  destruct (M.py_eq o l) eqn:E; auto. simpl. apply py_eq_nonnum; auto.
Qed.

Theorem emb_guard : forall k o, atom o = true -> atom_k k = true -> eq_ok k o = true ->
  G.c02_guard (embk k) (emb o) = true.
Proof.
  intros k o Ho Hk He. unfold G.c02_guard.
  rewrite (subclass_bool_atom o Ho).
  assert (Hwf : B.wf_obj (emb o) = true) by (destruct o; reflexivity).
  assert (Hmi : G.multiple_inheritance (emb o) = false) by (destruct o; try discriminate; vm_compute; reflexivity).
  assert (Hen : G.enum_class_object (emb o) = false) by (destruct o; reflexivity).
  rewrite Hwf, Hmi, Hen.
  destruct k as [| | c | l]; cbn [embk G.cond_ok G.promotion_negative G.sequence_pattern_str G.has_seqis_false
                                   G.assert_promotion G.generic_pattern_negative G.singleton B.wf_obj andb negb existsb].
  - reflexivity.
  - reflexivity.
  - unfold G.promoted_obj. rewrite emb_class_of by auto. rewrite emb_sub_art, emb_sub.
    destruct (M.subcls (M.class_of o) c); reflexivity.
  - simpl in Hk, He. unfold G.eq_compatible. rewrite emb_py_eq, emb_obj_eqb by auto. rewrite He.
    assert (Ha : G.atomic (emb l) = true) by (destruct l; try discriminate; reflexivity).
    assert (Hw : B.wf_obj (emb l) = true) by (destruct l; reflexivity).
    rewrite Ha, Hw. reflexivity.
Qed.

(* ------------------------------------------------------------------ Mini's narrowing keeps what C02's narrowing keeps *)

Definition c02k (k : M.atomc) (p : bool) : N.constr :=
  match k with
  | M.KTruthy => N.KTruthy p
  | M.KIsNone => N.KPred (N.PEquals B.ONone true) p
  | M.KIsInst c => N.KPred (N.PIsAssignable [B.VTyped (embc c)] false) p
  | M.KEq l => N.KPred (N.PEquals (emb l) false) p
  end.

Lemma narrow_unfold : forall V k p,
  N.narrow V (embk k) p = flat_map (N.apply_constr (c02k k p)) V.
Proof. intros V k p. destruct k; destruct p; reflexivity. Qed.

Lemma member_flat_map : forall o (f : B.sval -> list B.sval) V,
  B.member o (flat_map f V) = existsb (fun s => B.member o (f s)) V.
Proof.
  intros o f V. unfold B.member. induction V as [| s r IH]; simpl; auto.
  rewrite existsb_app, IH. reflexivity.
Qed.

Lemma member_single : forall o s, B.member o [s] = B.member_s o s.
Proof. intros. unfold B.member. simpl. apply orb_false_r. Qed.

Ltac done_same Ho Hw := eexists; split; [reflexivity | rewrite <- (emb_member1 _ _ Ho Hw); assumption].

(* one non-union value: whatever of w the C02 model keeps, narrow1 keeps *)
Lemma narrow1_covers_c02 : forall k p w o,
  atom o = true -> fragv w = true -> atom_k k = true -> M.member o w = true ->
  B.member (emb o) (N.apply_constr (c02k k p) (B.plain (embv1 w))) = true ->
  exists w', M.narrow1 k p w = Some w' /\ M.member o w' = true.
Proof.
  intros k p w o Ho Hw Hk Hm Hc.
  destruct w as [| o' | d | l0 | l0]; try discriminate.
  - (* Any *)
    destruct k as [| | c | l]; destruct p; cbn [M.narrow1];
      try (eexists; split; [reflexivity | reflexivity]).
    + (* is None, positive *)
      eexists; split; [reflexivity |].
      rewrite <- (emb_member1 o (M.VKnown M.ONone) Ho eq_refl). rewrite <- member_single. exact Hc.
    + (* isinstance, positive *)
      eexists; split; [reflexivity |].
      rewrite <- (emb_member1 o (M.VTyped c) Ho eq_refl). rewrite <- member_single. exact Hc.
    + (* ==, positive *)
      simpl in Hk. eexists; split; [reflexivity |].
      rewrite <- (emb_member1 o (M.VKnown l) Ho Hk). rewrite <- member_single. exact Hc.
  - (* a literal: o is that literal *)
    cbn [fragv] in Hw. cbn [M.member] in Hm. apply obj_eqb_eq in Hm. subst o'.
    assert (Hself : M.member o (M.VKnown o) = true) by (cbn [M.member]; apply obj_eqb_refl).
    destruct k as [| | c | l]; cbn [c02k N.apply_constr N.apply_pred embv1] in Hc; unfold B.plain in Hc.
    + (* truthiness *)
      cbn [M.narrow1].
      assert (Hb : N.boolab_of_b (B.sbase (B.SV (B.VKnown (emb o)) [])) =
                   N.known_boolab (B.type_boolab_exact (B.class_of (emb o))) (M.truthy o)).
      { rewrite <- (emb_truthy o Ho). destruct o; try discriminate; reflexivity. }
      rewrite Hb in Hc. destruct (M.truthy o) eqn:T; destruct p; cbn [Bool.eqb].
      * eexists; split; [reflexivity | exact Hself].
      * exfalso. destruct o; try discriminate; vm_compute in Hc; discriminate.
      * exfalso. destruct o; try discriminate; vm_compute in Hc; discriminate.
      * eexists; split; [reflexivity | exact Hself].
    + (* is None *)
      unfold N.pred_equals in Hc. cbn [B.sbase] in Hc.
      destruct o; try discriminate; destruct p; cbn in Hc; try discriminate; cbn [M.narrow1];
        eexists; split; try reflexivity; exact Hself.
    + (* isinstance *)
      cbn [M.narrow1].
      destruct (M.isinst o c) eqn:Ei; destruct p; cbn [Bool.eqb].
      * eexists; split; [reflexivity | exact Hself].
      * exfalso. unfold N.pred_isassignable in Hc. cbn [negb andb] in Hc.
        unfold N.pat_assignable, N.univ_assignable in Hc. cbn [existsb B.sbase N.assignable orb negb andb] in Hc.
        rewrite emb_class_of in Hc by auto. rewrite emb_sub_art in Hc. unfold M.isinst in Ei. rewrite Ei in Hc.
        cbn in Hc. discriminate.
      * exfalso. unfold N.pred_isassignable in Hc.
        unfold N.overlapping, N.pat_assignable, N.univ_assignable in Hc.
        cbn [existsb B.sbase N.assignable N.deliteral orb negb andb map] in Hc.
        rewrite emb_class_of in Hc by auto. rewrite !emb_sub_art in Hc. unfold M.isinst in Ei. rewrite Ei in Hc.
        cbn [orb] in Hc.
        destruct (M.subcls c (M.class_of o)); cbn [negb orb] in Hc; [| discriminate].
        rewrite member_single in Hc. unfold B.member_s, B.plain in Hc. cbn [B.member_b forallb] in Hc.
        rewrite emb_class_of in Hc by auto. rewrite emb_sub_art in Hc. rewrite Ei in Hc. discriminate.
      * eexists; split; [reflexivity | exact Hself].
    + (* == literal *)
      simpl in Hk. cbn [M.narrow1]. unfold N.pred_equals in Hc. cbn [B.sbase] in Hc.
      rewrite emb_py_eq in Hc by auto.
      destruct (Bool.eqb (M.py_eq o l) p) eqn:E.
      * eexists; split; [reflexivity | exact Hself].
      * discriminate.
  - (* a class *)
    destruct k as [| | c | l]; cbn [c02k N.apply_constr N.apply_pred embv1] in Hc; unfold B.plain in Hc; cbn [M.narrow1].
    + (* truthiness: every class of the fragment is boolable in both models *)
      eexists; split; [reflexivity | exact Hm].
    + (* is None *)
      unfold N.pred_equals in Hc. cbn [B.sbase] in Hc. destruct p.
      * unfold N.assignable_lit in Hc. cbn [B.sbase B.sexts forallb N.assignable B.class_of andb] in Hc.
        rewrite andb_true_r in Hc.
        change B.CNone with (embc M.CNoneT) in Hc. rewrite emb_sub_art in Hc.
        destruct (M.subcls M.CNoneT d); [| discriminate].
        rewrite member_single in Hc. eexists; split; [reflexivity |].
        rewrite <- (emb_member1 o (M.VKnown M.ONone) Ho eq_refl). exact Hc.
      * eexists; split; [reflexivity | exact Hm].
    + (* isinstance *)
      unfold N.pred_isassignable, N.overlapping, N.pat_assignable, N.univ_assignable in Hc.
      cbn [existsb B.sbase N.assignable N.deliteral orb negb andb map] in Hc.
      rewrite !emb_sub_art in Hc. rewrite !orb_false_r in Hc.
      assert (Hu : match embc d with B.CType => false | _ => false end = false) by (destruct d; reflexivity).
      destruct p.
      * destruct (M.subcls d c) eqn:E1; cbn [orb negb] in Hc.
        -- assert (Hs : B.member (emb o) [B.SV (B.VTyped (embc d)) []] = true).
           { destruct d; exact Hc. }
           eexists; split; [reflexivity | exact Hm].
        -- destruct (M.subcls c d) eqn:E2; cbn [negb] in Hc; [| discriminate].
           rewrite member_single in Hc. eexists; split; [reflexivity |].
           rewrite <- (emb_member1 o (M.VTyped c) Ho eq_refl). exact Hc.
      * destruct (M.subcls d c) eqn:E1.
        -- exfalso. destruct d; cbn in Hc; discriminate.
        -- eexists; split; [reflexivity | exact Hm].
    + (* == literal *)
      simpl in Hk. unfold N.pred_equals in Hc. cbn [B.sbase] in Hc. destruct p.
      * unfold N.assignable_lit in Hc. cbn [B.sbase B.sexts forallb N.assignable andb] in Hc.
        rewrite andb_true_r in Hc. rewrite emb_class_of in Hc by auto. rewrite emb_sub_art in Hc.
        unfold M.isinst. destruct (M.subcls (M.class_of l) d); [| discriminate].
        rewrite member_single in Hc. eexists; split; [reflexivity |].
        rewrite <- (emb_member1 o (M.VKnown l) Ho Hk). exact Hc.
      * destruct l as [| b | z | n | t]; try discriminate; destruct d; cbn in Hc;
          try (eexists; split; [reflexivity | exact Hm]).
        rewrite orb_false_r in Hc. eexists; split; [reflexivity |].
        rewrite <- (emb_member1 o (M.VKnown (M.OBool (negb b))) Ho eq_refl).
        unfold B.member_s, B.plain. cbn [embv1 emb forallb B.member_b]. exact Hc.
Qed.

Lemma filter_map_narrow_covers : forall k p l o,
  (exists w w', In w l /\ M.narrow1 k p w = Some w' /\ M.member o w' = true) ->
  existsb (M.member o) (M.filter_map_narrow k p l) = true.
Proof.
  intros k p l o [w [w' [Hin [Hn Hm]]]]. induction l as [| x r IH]; simpl in *; [contradiction |].
  destruct Hin as [-> | Hin].
  - rewrite Hn. simpl. rewrite Hm. reflexivity.
  - destruct (M.narrow1 k p x); simpl; rewrite (IH Hin); auto. apply orb_true_r.
Qed.

(* "narrowing keeps the actual value" for the mini-language, on the common fragment, as a corollary of
   the C02 theorem: the C02 model keeps the object (narrow_keeps_value_partial, applied to the member of
   the union the object belongs to), and narrow1 keeps whatever the C02 model keeps of that member *)
Theorem narrowing_keeps_value_from_c02 : forall k p v o,
  atom o = true -> frag v = true -> atom_k k = true -> eq_ok k o = true ->
  M.member o v = true -> M.atom_holds k o = p ->
  M.member o (M.narrow_val k p v) = true.
Proof.
  intros k p v o Ho Hv Hk He Hm Hh.
  rewrite member_flat in Hm. apply existsb_exists in Hm as [w0 [Hin Hm0]].
  unfold frag in Hv. rewrite forallb_forall in Hv. pose proof (Hv _ Hin) as Hw0.
  assert (HmB : B.member (emb o) [B.plain (embv1 w0)] = true).
  { rewrite member_single. rewrite emb_member1; auto. }
  assert (HhB : N.holds (embk k) (emb o) = Some p) by (rewrite emb_holds; auto; now rewrite Hh).
  pose proof (PV.Proofs.NarrowMain.narrow_keeps_value_partial [B.plain (embv1 w0)] (embk k) p (emb o)
                HmB HhB (emb_guard k o Ho Hk He)) as Hkept.
  rewrite narrow_unfold in Hkept. cbn [flat_map] in Hkept. rewrite app_nil_r in Hkept.
  destruct (narrow1_covers_c02 k p w0 o Ho Hw0 Hk Hm0 Hkept) as [w' [Hn Hmw]].
  assert (Hex : existsb (M.member o) (M.filter_map_narrow k p (M.flat v)) = true).
  { apply filter_map_narrow_covers. exists w0, w'. auto. }
  unfold M.narrow_val. destruct (M.filter_map_narrow k p (M.flat v)) as [| x [| y r]] eqn:E.
  - discriminate.
  - simpl in Hex. now rewrite orb_false_r in Hex.
  - now rewrite member_union.
Qed.

(* Mini's own guard (non-numeric == literal) implies the C02 quantifier restriction *)
Corollary narrowing_keeps_value_from_c02_syntactic_guard : forall k p v o,
  atom o = true -> frag v = true -> atom_k k = true -> atom_okb k = true ->
  M.member o v = true -> M.atom_holds k o = p ->
  M.member o (M.narrow_val k p v) = true.
Proof.
  intros k p v o Ho Hv Hk Hok Hm Hh.
  apply narrowing_keeps_value_from_c02; auto. now apply atom_okb_eq_ok.
Qed.
