(* Proofs/InferSound.v — C01: soundness of `infer` / `aexec` w.r.t. the concrete semantics. *)
From Coq Require Import ZArith List Bool Lia.
Import ListNotations.
Require Import PV.Infer.Mini PV.Proofs.InferBase.

(* ------------------------------------------------------------ induction principle for expressions *)

Section ExprInd.
  Variable P : expr -> Prop.
  Hypothesis HLit : forall n o, P (ELit n o).
  Hypothesis HName : forall n x, P (EName n x).
  Hypothesis HTuple : forall n es, Forall P es -> P (ETuple n es).
  Hypothesis HSub : forall n e i, P e -> P (ESub n e i).
  Hypothesis HIfExp : forall n c a b, P c -> P a -> P b -> P (EIfExp n c a b).
  Hypothesis HIsNone : forall n e, P e -> P (EIsNone n e).
  Hypothesis HIsInst : forall n e c, P e -> P (EIsInst n e c).
  Hypothesis HEq : forall n e l, P e -> P (EEq n e l).
  Hypothesis HNot : forall n e, P e -> P (ENot n e).
  Hypothesis HAnd : forall n a b, P a -> P b -> P (EAnd n a b).
  Hypothesis HOr : forall n a b, P a -> P b -> P (EOr n a b).
  Hypothesis HAdd : forall n a b, P a -> P b -> P (EAdd n a b).
  Hypothesis HCallId : forall n e, P e -> P (ECallId n e).
  Hypothesis HCallInt : forall n e, P e -> P (ECallInt n e).
  Fixpoint expr_ind' (e : expr) : P e :=
    match e with
    | ELit n o => HLit n o
    | EName n x => HName n x
    | ETuple n es =>
        HTuple n es ((fix go (l : list expr) : Forall P l :=
                        match l with
                        | [] => Forall_nil P
                        | x :: r => Forall_cons x (expr_ind' x) (go r)
                        end) es)
    | ESub n e i => HSub n e i (expr_ind' e)
    | EIfExp n c a b => HIfExp n c a b (expr_ind' c) (expr_ind' a) (expr_ind' b)
    | EIsNone n e => HIsNone n e (expr_ind' e)
    | EIsInst n e c => HIsInst n e c (expr_ind' e)
    | EEq n e l => HEq n e l (expr_ind' e)
    | ENot n e => HNot n e (expr_ind' e)
    | EAnd n a b => HAnd n a b (expr_ind' a) (expr_ind' b)
    | EOr n a b => HOr n a b (expr_ind' a) (expr_ind' b)
    | EAdd n a b => HAdd n a b (expr_ind' a) (expr_ind' b)
    | ECallId n e => HCallId n e (expr_ind' e)
    | ECallInt n e => HCallInt n e (expr_ind' e)
    end.
End ExprInd.

(* ------------------------------------------------------------ the guard: == only against non-numeric literals *)

Fixpoint expr_okb (e : expr) : bool :=
  match e with
  | ELit _ _ | EName _ _ => true
  | ETuple _ es => forallb expr_okb es
  | ESub _ e _ | EIsNone _ e | EIsInst _ e _ | ENot _ e | ECallId _ e | ECallInt _ e => expr_okb e
  | EEq _ e l => expr_okb e && lit_nonnum l
  | EIfExp _ c a b => expr_okb c && expr_okb a && expr_okb b
  | EAnd _ a b | EOr _ a b | EAdd _ a b => expr_okb a && expr_okb b
  end.

Fixpoint stmt_okb (s : stmt) : bool :=
  match s with
  | SAssign _ e | SReturn e => expr_okb e
  | SIf c a b => expr_okb c && forallb stmt_okb a && forallb stmt_okb b
  | SWhile _ c body => expr_okb c && forallb stmt_okb body
  end.

Fixpoint constr_okb (c : constr) : bool :=
  match c with
  | CNull => true
  | CAtom _ k _ => atom_okb k
  | CAnd a b | COr a b => constr_okb a && constr_okb b
  end.

Lemma cinvert_okb : forall c, constr_okb (cinvert c) = constr_okb c.
Proof. induction c; simpl; auto; now rewrite IHc1, IHc2. Qed.

Lemma constraint_of_okb : forall e, expr_okb e = true -> constr_okb (constraint_of e) = true.
Proof.
  induction e using expr_ind'; simpl; intros Hok; auto.
  - destruct (var_of e); auto.
  - destruct (var_of e); auto.
  - apply andb_true_iff in Hok as [_ Hl]. destruct (var_of e); auto.
  - rewrite cinvert_okb. auto.
  - apply andb_true_iff in Hok as [H1 H2]. now rewrite IHe1, IHe2.
  - apply andb_true_iff in Hok as [H1 H2]. now rewrite IHe1, IHe2.
Qed.

(* ------------------------------------------------------------ traces vs annotations *)

Definition tr_ok (a : annots) (t : trace) : Prop :=
  forall n o, In (n, o) t -> exists v, In (n, v) a /\ member o v = true.

Lemma tr_ok_nil : forall a, tr_ok a [].
Proof. intros a n o []. Qed.

Lemma tr_ok_app : forall a t1 t2, tr_ok a t1 -> tr_ok a t2 -> tr_ok a (t1 ++ t2).
Proof. intros a t1 t2 H1 H2 n o Hin. apply in_app_or in Hin as []; auto. Qed.

Lemma tr_ok_weaken : forall a a' t, tr_ok a t -> (forall x, In x a -> In x a') -> tr_ok a' t.
Proof. intros a a' t H Hsub n o Hin. destruct (H n o Hin) as [v [Hv Hm]]. eauto. Qed.

Lemma tr_ok_one : forall a n o v, In (n, v) a -> member o v = true -> tr_ok a [(n, o)].
Proof. intros a n o v Hin Hm n' o' [E | []]. inversion E; subst. eauto. Qed.

Ltac inc := intros ? ?; repeat (rewrite in_app_iff in * ); simpl; tauto.

Lemma trace_ok_iff : forall a t, trace_ok a t = true <-> tr_ok a t.
Proof.
  intros a t. unfold trace_ok, tr_ok. rewrite forallb_forall. split.
  - intros H n o Hin. specialize (H _ Hin). unfold entry_ok in H. apply existsb_exists in H as [[n' v] [Hin' Hc]].
    simpl in Hc. apply andb_true_iff in Hc as [Hn Hm]. apply Nat.eqb_eq in Hn. subst. eauto.
  - intros H [n o] Hin. destruct (H n o Hin) as [v [Hv Hm]]. unfold entry_ok. apply existsb_exists.
    exists (n, v). simpl. now rewrite Nat.eqb_refl, Hm.
Qed.

(* ------------------------------------------------------------ environments *)

Lemma alookup_amap_var : forall s x f y,
  alookup (amap_var s x f) y = if Nat.eqb y x then option_map f (alookup s x) else alookup s y.
Proof.
  induction s as [| [z v] r IH]; intros x f y; simpl.
  - now destruct (Nat.eqb y x).
  - destruct (Nat.eqb x z) eqn:Exz; simpl.
    + apply Nat.eqb_eq in Exz. subst z. destruct (Nat.eqb y x) eqn:Eyx; auto.
    + destruct (Nat.eqb y z) eqn:Eyz.
      * apply Nat.eqb_eq in Eyz. subst z. rewrite Nat.eqb_sym in Exz. now rewrite Exz.
      * apply IH.
Qed.

Lemma alookup_ajoin : forall a b x u,
  alookup (ajoin a b) x = Some u ->
  exists v w, alookup a x = Some v /\ alookup b x = Some w /\ u = unite v w.
Proof.
  induction a as [| [y v] r IH]; intros b x u H; simpl in *; try discriminate.
  destruct (alookup b y) as [w |] eqn:Eb.
  - simpl in H. destruct (Nat.eqb x y) eqn:Exy.
    + apply Nat.eqb_eq in Exy. subst y. inversion H; subst. eauto.
    + auto.
  - destruct (Nat.eqb x y) eqn:Exy.
    + apply Nat.eqb_eq in Exy. subst y. destruct (IH b x u H) as [v' [w' [_ [Hb _]]]]. congruence.
    + auto.
Qed.

Lemma env_ok_ajoin : forall r a b, env_ok r a \/ env_ok r b -> env_ok r (ajoin a b).
Proof.
  intros r a b H x u Hl. destruct (alookup_ajoin _ _ _ _ Hl) as [v [w [Ha [Hb ->]]]].
  destruct H as [H | H].
  - destruct (H x v Ha) as [o [Ho Hm]]. exists o. split; auto. rewrite member_unite, Hm. auto.
  - destruct (H x w Hb) as [o [Ho Hm]]. exists o. split; auto. rewrite member_unite, Hm. apply orb_true_r.
Qed.

Lemma env_ok_aset : forall r s x o v, env_ok r s -> member o v = true -> env_ok ((x, o) :: r) (aset s x v).
Proof.
  intros r s x o v H Hm y w Hl. unfold aset in Hl. simpl in *.
  destruct (Nat.eqb y x); [inversion Hl; subst; eauto | auto].
Qed.

(* --- satisfaction of a constraint by a concrete environment, for an outcome b of the condition *)
Fixpoint csat (r : env) (c : constr) (b : bool) : Prop :=
  match c with
  | CNull => True
  | CAtom x k p => forall o, lookup r x = Some o -> atom_holds k o = Bool.eqb p b
  | CAnd c1 c2 => if b then csat r c1 true /\ csat r c2 true else csat r c1 false \/ csat r c2 false
  | COr c1 c2 => if b then csat r c1 true \/ csat r c2 true else csat r c1 false /\ csat r c2 false
  end.

Lemma csat_cinvert : forall r c b, csat r (cinvert c) b <-> csat r c (negb b).
Proof.
  induction c; intros b; simpl; try tauto.
  - split; intros H o Ho; rewrite (H o Ho); destruct positive, b; reflexivity.
  - destruct b; simpl; rewrite IHc1, IHc2; simpl; tauto.
  - destruct b; simpl; rewrite IHc1, IHc2; simpl; tauto.
Qed.

Lemma apply_constr_sound : forall c r s,
  constr_okb c = true -> env_ok r s -> csat r c true -> env_ok r (apply_constr c s).
Proof.
  induction c; intros r s Hok Henv Hc; simpl in *; auto.
  - intros y w Hl. rewrite alookup_amap_var in Hl. destruct (Nat.eqb y x) eqn:E.
    + apply Nat.eqb_eq in E. subst y. destruct (alookup s x) as [v |] eqn:Es; try discriminate.
      simpl in Hl. inversion Hl; subst. destruct (Henv x v Es) as [o [Ho Hm]]. exists o. split; auto.
      apply narrow_val_sound; auto. rewrite (Hc o Ho). now destruct positive.
    + auto.
  - apply andb_true_iff in Hok as [H1 H2]. destruct Hc. auto.
  - apply andb_true_iff in Hok as [H1 H2]. apply env_ok_ajoin. destruct Hc; [left | right]; auto.
Qed.

(* ------------------------------------------------------------ expressions *)

Lemma eval_name : forall r n x, eval r (EName n x) = match lookup r x with Some o => ([(n, o)], Some o) | None => ([], None) end.
Proof. reflexivity. Qed.

(* the constraint extracted from a condition holds for the outcome of evaluating it *)
Lemma constraint_of_sound : forall e r t ov,
  eval r e = (t, Some ov) -> csat r (constraint_of e) (truthy ov).
Proof.
  induction e using expr_ind'; intros r t ov He; cbn [constraint_of csat]; auto.
  - (* name *) rewrite eval_name in He. intros o' Ho'. rewrite Ho' in He. inversion He; subst. simpl. now destruct (truthy ov).
  - (* is None *)
    destruct (var_of e) as [x |] eqn:Ev; cbn [csat]; auto.
    destruct e; try discriminate. inversion Ev; subst. cbn [eval] in He.
    intros o' Ho'. rewrite Ho' in He. simpl in He. inversion He; subst. cbn [truthy]. simpl. now destruct o'.
  - destruct (var_of e) as [x |] eqn:Ev; cbn [csat]; auto.
    destruct e; try discriminate. inversion Ev; subst. cbn [eval] in He.
    intros o' Ho'. rewrite Ho' in He. simpl in He. inversion He; subst. cbn [truthy atom_holds]. now destruct (isinst o' c).
  - destruct (var_of e) as [x |] eqn:Ev; cbn [csat]; auto.
    destruct e; try discriminate. inversion Ev; subst. cbn [eval] in He.
    intros o' Ho'. rewrite Ho' in He. simpl in He. inversion He; subst. cbn [truthy atom_holds]. now destruct (py_eq o' l).
  - (* not *)
    cbn [eval] in He. destruct (eval r e) as [t1 [o1 |]] eqn:E1; try discriminate. inversion He; subst.
    apply csat_cinvert. cbn [truthy]. rewrite negb_involutive. eauto.
  - (* and *)
    cbn [eval] in He. destruct (eval r e1) as [t1 [o1 |]] eqn:E1; try discriminate.
    destruct (truthy o1) eqn:T1.
    + destruct (eval r e2) as [t2 [o2 |]] eqn:E2; try discriminate. inversion He; subst.
      pose proof (IHe1 _ _ _ E1) as H1. pose proof (IHe2 _ _ _ E2) as H2. rewrite T1 in H1.
      destruct (truthy ov) eqn:T; auto.
    + inversion He; subst. rewrite T1. left. pose proof (IHe1 _ _ _ E1) as H1. now rewrite T1 in H1.
  - (* or *)
    cbn [eval] in He. destruct (eval r e1) as [t1 [o1 |]] eqn:E1; try discriminate.
    destruct (truthy o1) eqn:T1.
    + inversion He; subst. rewrite T1. left. pose proof (IHe1 _ _ _ E1) as H1. now rewrite T1 in H1.
    + destruct (eval r e2) as [t2 [o2 |]] eqn:E2; try discriminate. inversion He; subst.
      pose proof (IHe1 _ _ _ E1) as H1. pose proof (IHe2 _ _ _ E2) as H2. rewrite T1 in H1.
      destruct (truthy ov) eqn:T; auto.
Qed.

Lemma forall2_length : forall (A B : Type) (R : A -> B -> Prop) l1 l2, Forall2 R l1 l2 -> length l1 = length l2.
Proof. intros A B R l1 l2 H. induction H; simpl; auto. Qed.

Lemma tuple_index_forall2 : forall (os : list obj) (vs : list val) i o,
  Forall2 (fun o v => member o v = true) os vs -> tuple_index os i = Some o ->
  exists v, tuple_index vs i = Some v /\ member o v = true.
Proof.
  intros os vs i o HF Hi. unfold tuple_index in *. rewrite <- (forall2_length _ _ _ _ _ HF).
  assert (Hnth : forall k, nth_error os k = Some o -> exists v, nth_error vs k = Some v /\ member o v = true).
  { clear Hi. induction HF as [| o' v' os' vs' Hm _ IH]; intros [| k] Hk; simpl in *; try discriminate.
    - inversion Hk; subst. eauto.
    - auto. }
  destruct (0 <=? i)%Z.
  - destruct (i <? Z.of_nat (length os))%Z; try discriminate. auto.
  - destruct (0 <=? Z.of_nat (length os) + i)%Z; try discriminate. auto.
Qed.

Lemma tuple_index_known : forall (os : list obj) i o,
  tuple_index os i = Some o -> tuple_index os i = Some o.
Proof. auto. Qed.

Lemma seq_getitem_sound : forall v i w os o,
  member (OTuple os) v = true -> seq_getitem v i = Some w -> tuple_index os i = Some o -> member o w = true.
Proof.
  assert (Hone : forall v i w os o, member (OTuple os) v = true ->
            match v with
            | VSeq vs => tuple_index vs i
            | VKnown (OTuple os) => option_map VKnown (tuple_index os i)
            | VAny => Some VAny
            | _ => None
            end = Some w -> tuple_index os i = Some o -> member o w = true).
  { intros v i w os o Hm Hg Hi. destruct v as [| o' | c | vs | vs]; try discriminate.
    - inversion Hg; subst. reflexivity.
    - cbn [member] in Hm. apply obj_eqb_eq in Hm. subst o'. rewrite Hi in Hg. simpl in Hg. inversion Hg; subst. cbn [member]. apply obj_eqb_refl.
    - apply member_seq_tuple in Hm. destruct (tuple_index_forall2 _ _ _ _ Hm Hi) as [v' [Hv' Hmv]]. congruence. }
  intros v i w os o Hm Hg Hi. destruct v as [| o' | c | vs | vs]; try exact (Hone _ _ _ _ _ Hm Hg Hi).
  rewrite member_union in Hm. unfold seq_getitem in Hg.
  revert w Hg. induction vs as [| v0 vs IH]; intros w Hg; simpl in Hm; try discriminate.
  match type of Hg with context [match ?X with _ => _ end] => destruct X as [a |] eqn:Ea end; try discriminate.
  match type of Hg with context [match ?X with _ => _ end] => destruct X as [b |] eqn:Eb end; try discriminate.
  inversion Hg; subst. rewrite member_unite. apply orb_true_iff in Hm as [Hm | Hm].
  - rewrite (Hone _ _ _ _ _ Hm Ea Hi). reflexivity.
  - rewrite (IH Hm b eq_refl). apply orb_true_r.
Qed.

Lemma intlike1_num : forall v o, intlike1 v = true -> member o v = true -> exists z, num_of o = Some z.
Proof.
  intros v o Hi Hm. destruct v as [| k | c | vs | vs]; simpl in Hi; try discriminate.
  - cbn [member] in Hm. apply obj_eqb_eq in Hm. subst k. destruct o; try discriminate; simpl; eauto.
  - cbn [member] in Hm. unfold isinst in Hm. destruct c; try discriminate; destruct o; simpl in Hm; try discriminate; simpl; eauto.
Qed.

Lemma intlike_num : forall v o, intlike v = true -> member o v = true -> exists z, num_of o = Some z.
Proof.
  intros v o Hi Hm. unfold intlike in Hi. rewrite member_flat in Hm.
  destruct (flat v) as [| v0 l] eqn:E; try discriminate.
  apply existsb_exists in Hm as [w [Hin Hw]]. rewrite forallb_forall in Hi.
  eapply intlike1_num; eauto.
Qed.

Lemma add_val_sound : forall va vb w oa ob x y,
  add_val va vb = Some w -> member oa va = true -> member ob vb = true ->
  num_of oa = Some x -> num_of ob = Some y -> member (OInt (x + y)) w = true.
Proof.
  intros va vb w oa ob x y Ha Hma Hmb Hx Hy. unfold add_val in Ha.
  assert (Hgen : (if intlike va && intlike vb then Some (VTyped CInt) else None) = Some w -> member (OInt (x + y)) w = true).
  { intros H. destruct (intlike va && intlike vb); inversion H; subst. reflexivity. }
  destruct va as [| ka | ca | la | la]; try (apply Hgen; exact Ha).
  destruct vb as [| kb | cb | lb | lb]; try (apply Hgen; exact Ha).
  cbn [member] in Hma, Hmb. apply obj_eqb_eq in Hma. apply obj_eqb_eq in Hmb. subst ka kb.
  rewrite Hx, Hy in Ha. inversion Ha; subst. cbn [member obj_eqb]. apply Z.eqb_refl.
Qed.

Definition expr_sound (e : expr) : Prop :=
  forall r s a v t res,
    expr_okb e = true -> env_ok r s -> infer s e = Some (a, v) -> eval r e = (t, res) ->
    tr_ok a t /\ (forall o, res = Some o -> member o v = true).

Ltac ret_case :=
  split; [ apply tr_ok_app; [ eapply tr_ok_weaken; eauto; inc | eapply tr_ok_one; [ apply in_or_app; right; left; reflexivity | ] ] | intros ? Hr; inversion Hr; subst ].

Lemma infer_sound : forall e, expr_sound e.
Proof.
  induction e using expr_ind'; unfold expr_sound in *; intros r s a v t res Hok Henv Hi He.
  - (* literal *)
    simpl in Hi, He. inversion Hi; subst. inversion He; subst. split.
    + eapply tr_ok_one; [left; reflexivity | simpl; apply obj_eqb_refl].
    + intros o' Ho'. inversion Ho'; subst. simpl. apply obj_eqb_refl.
  - (* name *)
    rewrite eval_name in He. simpl in Hi. destruct (alookup s x) as [v' |] eqn:Es; try discriminate.
    inversion Hi; subst. destruct (Henv x v Es) as [o [Ho Hm]]. rewrite Ho in He. inversion He; subst. split.
    + eapply tr_ok_one; [left; reflexivity | auto].
    + intros o' Ho'. inversion Ho'; subst. auto.
  - (* tuple *)
    cbn [infer eval] in Hi, He. cbn [expr_okb] in Hok.
    match type of Hi with context [match ?X with _ => _ end] => destruct X as [[a0 vs] |] eqn:Ego end; try discriminate.
    inversion Hi; subst. clear Hi.
    match type of He with context [match ?X with _ => _ end] => destruct X as [t0 ros] eqn:Ego2 end.
    assert (Hgo : tr_ok a0 t0 /\ (forall os, ros = Some os -> Forall2 (fun o v => member o v = true) os vs)).
    { clear He. revert a0 vs t0 ros Ego Ego2. induction H as [| e es He' _ IH]; intros a0 vs t0 ros Ego Ego2.
      - inversion Ego; inversion Ego2; subst. split; [apply tr_ok_nil |]. intros os Hos. inversion Hos. constructor.
      - simpl in Hok. apply andb_true_iff in Hok as [Hok1 Hok2].
        destruct (infer s e) as [[a1 v1] |] eqn:Ei1; try discriminate.
        match type of Ego with context [match ?X with _ => _ end] => destruct X as [[a2 vs2] |] eqn:Eg end; try discriminate.
        inversion Ego; subst. clear Ego.
        destruct (eval r e) as [t1 [o1 |]] eqn:Ee1.
        + match type of Ego2 with context [match ?X with _ => _ end] => destruct X as [t2 ros2] eqn:Eg2 end.
          destruct (He' r s a1 v1 t1 (Some o1) Hok1 Henv Ei1 Ee1) as [Ht1 Hv1].
          destruct (IH Hok2 a2 vs2 t2 ros2 eq_refl eq_refl) as [Ht2 Hv2].
          destruct ros2 as [os2 |]; inversion Ego2; subst.
          * split. { apply tr_ok_app; eapply tr_ok_weaken; eauto; inc. }
            intros os Hos. inversion Hos; subst. constructor; auto.
          * split. { apply tr_ok_app; eapply tr_ok_weaken; eauto; inc. }
            intros os Hos. discriminate.
        + inversion Ego2; subst.
          destruct (He' r s a1 v1 t0 None Hok1 Henv Ei1 Ee1) as [Ht1 _].
          split. { eapply tr_ok_weaken; eauto; inc. } intros os Hos. discriminate. }
    destruct Hgo as [Ht0 Hvs]. destruct ros as [os |]; inversion He; subst.
    + assert (Hm : member (OTuple os) (VSeq vs) = true) by (apply member_seq_tuple; auto).
      split.
      * apply tr_ok_app; [eapply tr_ok_weaken; eauto; inc | eapply tr_ok_one; [apply in_or_app; right; left; reflexivity | auto]].
      * intros o Ho. inversion Ho; subst. auto.
    + split; [eapply tr_ok_weaken; eauto; inc | intros o Ho; discriminate].
  - (* subscript *)
    cbn [infer eval expr_okb] in *.
    destruct (infer s e) as [[a1 v1] |] eqn:Ei; try discriminate.
    destruct (seq_getitem v1 i) as [w |] eqn:Eg; try discriminate. inversion Hi; subst.
    destruct (eval r e) as [t1 ro] eqn:Ee.
    destruct (IHe r s a1 v1 t1 ro Hok Henv Ei Ee) as [Ht1 Hv1].
    destruct ro as [[| | | | os] |]; inversion He; subst;
      try (split; [eapply tr_ok_weaken; eauto; inc | intros ? Hr; discriminate]).
    destruct (tuple_index os i) as [o |] eqn:Eti; inversion H0; subst.
    + pose proof (seq_getitem_sound _ _ _ _ _ (Hv1 _ eq_refl) Eg Eti) as Hm.
      split.
      * apply tr_ok_app; [eapply tr_ok_weaken; eauto; inc | eapply tr_ok_one; [apply in_or_app; right; left; reflexivity | auto]].
      * intros o' Ho'. inversion Ho'; subst. auto.
    + split; [eapply tr_ok_weaken; eauto; inc | intros ? Hr; discriminate].
  - (* IfExp *)
    cbn [infer eval expr_okb] in *.
    apply andb_true_iff in Hok as [Hok Hok3]. apply andb_true_iff in Hok as [Hok1 Hok2].
    destruct (infer s e1) as [[ac vc] |] eqn:Ei1; try discriminate.
    destruct (infer (apply_constr (constraint_of e1) s) e2) as [[aa va] |] eqn:Ei2; try discriminate.
    destruct (infer (apply_constr (cinvert (constraint_of e1)) s) e3) as [[ab vb] |] eqn:Ei3; try discriminate.
    inversion Hi; subst. clear Hi.
    destruct (eval r e1) as [t1 [oc |]] eqn:Ee1.
    + destruct (IHe1 r s ac vc t1 (Some oc) Hok1 Henv Ei1 Ee1) as [Ht1 _].
      pose proof (constraint_of_sound _ _ _ _ Ee1) as Hc.
      pose proof (constraint_of_okb _ Hok1) as Hkok.
      destruct (truthy oc) eqn:T.
      * assert (Henv2 : env_ok r (apply_constr (constraint_of e1) s)) by (apply apply_constr_sound; auto).
        destruct (eval r e2) as [t2 ro2] eqn:Ee2.
        destruct (IHe2 _ _ _ _ _ _ Hok2 Henv2 Ei2 Ee2) as [Ht2 Hv2].
        destruct ro2 as [o2 |]; inversion He; subst.
        -- split.
           ++ apply tr_ok_app; [apply tr_ok_app; eapply tr_ok_weaken; eauto; inc | eapply tr_ok_one; [apply in_or_app; right; left; reflexivity |]].
              rewrite member_unite, (Hv2 _ eq_refl). reflexivity.
           ++ intros o Ho. inversion Ho; subst. rewrite member_unite, (Hv2 _ eq_refl). reflexivity.
        -- split; [apply tr_ok_app; eapply tr_ok_weaken; eauto; inc | intros ? Hr; discriminate].
      * assert (Henv3 : env_ok r (apply_constr (cinvert (constraint_of e1)) s)).
        { apply apply_constr_sound; auto. now rewrite cinvert_okb. apply csat_cinvert. exact Hc. }
        destruct (eval r e3) as [t3 ro3] eqn:Ee3.
        destruct (IHe3 _ _ _ _ _ _ Hok3 Henv3 Ei3 Ee3) as [Ht3 Hv3].
        destruct ro3 as [o3 |]; inversion He; subst.
        -- split.
           ++ apply tr_ok_app; [apply tr_ok_app; eapply tr_ok_weaken; eauto; inc | eapply tr_ok_one; [apply in_or_app; right; left; reflexivity |]].
              rewrite member_unite, (Hv3 _ eq_refl). apply orb_true_r.
           ++ intros o Ho. inversion Ho; subst. rewrite member_unite, (Hv3 _ eq_refl). apply orb_true_r.
        -- split; [apply tr_ok_app; eapply tr_ok_weaken; eauto; inc | intros ? Hr; discriminate].
    + inversion He; subst. destruct (IHe1 r s ac vc t None Hok1 Henv Ei1 Ee1) as [Ht1 _].
      split; [eapply tr_ok_weaken; eauto; inc | intros ? Hr; discriminate].
  - (* is None *)
    cbn [infer eval expr_okb] in *. destruct (infer s e) as [[a1 v1] |] eqn:Ei; try discriminate. inversion Hi; subst.
    destruct (eval r e) as [t1 ro] eqn:Ee. destruct (IHe _ _ _ _ _ _ Hok Henv Ei Ee) as [Ht1 _].
    destruct ro as [o1 |]; inversion He; subst.
    + split; [apply tr_ok_app; [eapply tr_ok_weaken; eauto; inc | eapply tr_ok_one; [apply in_or_app; right; left; reflexivity | reflexivity]] | intros ? Hr; inversion Hr; reflexivity].
    + split; [eapply tr_ok_weaken; eauto; inc | intros ? Hr; discriminate].
  - (* isinstance *)
    cbn [infer eval expr_okb] in *. destruct (infer s e) as [[a1 v1] |] eqn:Ei; try discriminate. inversion Hi; subst.
    destruct (eval r e) as [t1 ro] eqn:Ee. destruct (IHe _ _ _ _ _ _ Hok Henv Ei Ee) as [Ht1 _].
    destruct ro as [o1 |]; inversion He; subst.
    + split; [apply tr_ok_app; [eapply tr_ok_weaken; eauto; inc | eapply tr_ok_one; [apply in_or_app; right; left; reflexivity | reflexivity]] | intros ? Hr; inversion Hr; reflexivity].
    + split; [eapply tr_ok_weaken; eauto; inc | intros ? Hr; discriminate].
  - (* == *)
    cbn [infer eval expr_okb] in *. apply andb_true_iff in Hok as [Hok _].
    destruct (infer s e) as [[a1 v1] |] eqn:Ei; try discriminate. inversion Hi; subst.
    destruct (eval r e) as [t1 ro] eqn:Ee. destruct (IHe _ _ _ _ _ _ Hok Henv Ei Ee) as [Ht1 _].
    destruct ro as [o1 |]; inversion He; subst.
    + split; [apply tr_ok_app; [eapply tr_ok_weaken; eauto; inc | eapply tr_ok_one; [apply in_or_app; right; left; reflexivity | reflexivity]] | intros ? Hr; inversion Hr; reflexivity].
    + split; [eapply tr_ok_weaken; eauto; inc | intros ? Hr; discriminate].
  - (* not *)
    cbn [infer eval expr_okb] in *. destruct (infer s e) as [[a1 v1] |] eqn:Ei; try discriminate. inversion Hi; subst.
    destruct (eval r e) as [t1 ro] eqn:Ee. destruct (IHe _ _ _ _ _ _ Hok Henv Ei Ee) as [Ht1 _].
    destruct ro as [o1 |]; inversion He; subst.
    + split; [apply tr_ok_app; [eapply tr_ok_weaken; eauto; inc | eapply tr_ok_one; [apply in_or_app; right; left; reflexivity | reflexivity]] | intros ? Hr; inversion Hr; reflexivity].
    + split; [eapply tr_ok_weaken; eauto; inc | intros ? Hr; discriminate].
  - (* and *)
    cbn [infer eval expr_okb] in *. apply andb_true_iff in Hok as [Hok1 Hok2].
    destruct (infer s e1) as [[aa va] |] eqn:Ei1; try discriminate.
    destruct (infer (apply_constr (constraint_of e1) s) e2) as [[ab vb] |] eqn:Ei2; try discriminate.
    inversion Hi; subst. clear Hi.
    destruct (eval r e1) as [t1 [oa |]] eqn:Ee1.
    + destruct (IHe1 _ _ _ _ _ _ Hok1 Henv Ei1 Ee1) as [Ht1 Hv1].
      pose proof (constraint_of_sound _ _ _ _ Ee1) as Hc.
      pose proof (constraint_of_okb _ Hok1) as Hkok.
      destruct (truthy oa) eqn:T.
      * assert (Henv2 : env_ok r (apply_constr (constraint_of e1) s)) by (apply apply_constr_sound; auto).
        destruct (eval r e2) as [t2 ro2] eqn:Ee2.
        destruct (IHe2 _ _ _ _ _ _ Hok2 Henv2 Ei2 Ee2) as [Ht2 Hv2].
        destruct ro2 as [o2 |]; inversion He; subst.
        -- split.
           ++ apply tr_ok_app; [apply tr_ok_app; eapply tr_ok_weaken; eauto; inc | eapply tr_ok_one; [apply in_or_app; right; left; reflexivity |]].
              rewrite member_unite, (Hv2 _ eq_refl). apply orb_true_r.
           ++ intros o Ho. inversion Ho; subst. rewrite member_unite, (Hv2 _ eq_refl). apply orb_true_r.
        -- split; [apply tr_ok_app; eapply tr_ok_weaken; eauto; inc | intros ? Hr; discriminate].
      * inversion He; subst.
        assert (Hm : member oa (narrow_val KTruthy false va) = true) by (apply narrow_val_sound; auto).
        split.
        -- apply tr_ok_app; [eapply tr_ok_weaken; eauto; inc | eapply tr_ok_one; [apply in_or_app; right; left; reflexivity |]].
           rewrite member_unite, Hm. reflexivity.
        -- intros o Ho. inversion Ho; subst. rewrite member_unite, Hm. reflexivity.
    + inversion He; subst. destruct (IHe1 _ _ _ _ _ _ Hok1 Henv Ei1 Ee1) as [Ht1 _].
      split; [eapply tr_ok_weaken; eauto; inc | intros ? Hr; discriminate].
  - (* or *)
    cbn [infer eval expr_okb] in *. apply andb_true_iff in Hok as [Hok1 Hok2].
    destruct (infer s e1) as [[aa va] |] eqn:Ei1; try discriminate.
    destruct (infer (apply_constr (cinvert (constraint_of e1)) s) e2) as [[ab vb] |] eqn:Ei2; try discriminate.
    inversion Hi; subst. clear Hi.
    destruct (eval r e1) as [t1 [oa |]] eqn:Ee1.
    + destruct (IHe1 _ _ _ _ _ _ Hok1 Henv Ei1 Ee1) as [Ht1 Hv1].
      pose proof (constraint_of_sound _ _ _ _ Ee1) as Hc.
      pose proof (constraint_of_okb _ Hok1) as Hkok.
      destruct (truthy oa) eqn:T.
      * inversion He; subst.
        assert (Hm : member oa (narrow_val KTruthy true va) = true) by (apply narrow_val_sound; auto).
        split.
        -- apply tr_ok_app; [eapply tr_ok_weaken; eauto; inc | eapply tr_ok_one; [apply in_or_app; right; left; reflexivity |]].
           rewrite member_unite, Hm. reflexivity.
        -- intros o Ho. inversion Ho; subst. rewrite member_unite, Hm. reflexivity.
      * assert (Henv2 : env_ok r (apply_constr (cinvert (constraint_of e1)) s)).
        { apply apply_constr_sound; auto. now rewrite cinvert_okb. apply csat_cinvert. exact Hc. }
        destruct (eval r e2) as [t2 ro2] eqn:Ee2.
        destruct (IHe2 _ _ _ _ _ _ Hok2 Henv2 Ei2 Ee2) as [Ht2 Hv2].
        destruct ro2 as [o2 |]; inversion He; subst.
        -- split.
           ++ apply tr_ok_app; [apply tr_ok_app; eapply tr_ok_weaken; eauto; inc | eapply tr_ok_one; [apply in_or_app; right; left; reflexivity |]].
              rewrite member_unite, (Hv2 _ eq_refl). apply orb_true_r.
           ++ intros o Ho. inversion Ho; subst. rewrite member_unite, (Hv2 _ eq_refl). apply orb_true_r.
        -- split; [apply tr_ok_app; eapply tr_ok_weaken; eauto; inc | intros ? Hr; discriminate].
    + inversion He; subst. destruct (IHe1 _ _ _ _ _ _ Hok1 Henv Ei1 Ee1) as [Ht1 _].
      split; [eapply tr_ok_weaken; eauto; inc | intros ? Hr; discriminate].
  - (* a + b *)
    cbn [infer eval expr_okb] in *. apply andb_true_iff in Hok as [Hok1 Hok2].
    destruct (infer s e1) as [[aa va] |] eqn:Ei1; try discriminate.
    destruct (infer s e2) as [[ab vb] |] eqn:Ei2; try discriminate.
    destruct (add_val va vb) as [w |] eqn:Eadd; try discriminate.
    inversion Hi; subst. clear Hi.
    destruct (eval r e1) as [t1 [oa |]] eqn:Ee1.
    + destruct (IHe1 _ _ _ _ _ _ Hok1 Henv Ei1 Ee1) as [Ht1 Hv1].
      destruct (eval r e2) as [t2 [ob |]] eqn:Ee2.
      * destruct (IHe2 _ _ _ _ _ _ Hok2 Henv Ei2 Ee2) as [Ht2 Hv2].
        destruct (num_of oa) as [x |] eqn:Ex; [destruct (num_of ob) as [y |] eqn:Ey |]; inversion He; subst.
        -- pose proof (add_val_sound _ _ _ _ _ _ _ Eadd (Hv1 _ eq_refl) (Hv2 _ eq_refl) Ex Ey) as Hm.
           split.
           ++ apply tr_ok_app; [apply tr_ok_app; eapply tr_ok_weaken; eauto; inc | eapply tr_ok_one; [apply in_or_app; right; left; reflexivity | exact Hm]].
           ++ intros o Ho. inversion Ho; subst. exact Hm.
        -- split; [apply tr_ok_app; eapply tr_ok_weaken; eauto; inc | intros ? Hr; discriminate].
        -- split; [apply tr_ok_app; eapply tr_ok_weaken; eauto; inc | intros ? Hr; discriminate].
      * destruct (IHe2 _ _ _ _ _ _ Hok2 Henv Ei2 Ee2) as [Ht2 _]. inversion He; subst.
        split; [apply tr_ok_app; eapply tr_ok_weaken; eauto; inc | intros ? Hr; discriminate].
    + inversion He; subst. destruct (IHe1 _ _ _ _ _ _ Hok1 Henv Ei1 Ee1) as [Ht1 _].
      split; [eapply tr_ok_weaken; eauto; inc | intros ? Hr; discriminate].
  - (* identity call *)
    cbn [infer eval expr_okb] in *. destruct (infer s e) as [[a1 v1] |] eqn:Ei; try discriminate. inversion Hi; subst.
    destruct (eval r e) as [t1 ro] eqn:Ee. destruct (IHe _ _ _ _ _ _ Hok Henv Ei Ee) as [Ht1 Hv1].
    destruct ro as [o1 |]; inversion He; subst.
    + split; [apply tr_ok_app; [eapply tr_ok_weaken; eauto; inc | eapply tr_ok_one; [apply in_or_app; right; left; reflexivity | exact (Hv1 _ eq_refl)]] | intros ? Hr; inversion Hr; subst; exact (Hv1 _ eq_refl)].
    + split; [eapply tr_ok_weaken; eauto; inc | intros ? Hr; discriminate].
  - (* call of an int -> int function *)
    cbn [infer eval expr_okb] in *. destruct (infer s e) as [[a1 v1] |] eqn:Ei; try discriminate.
    destruct (intlike v1) eqn:Eil; try discriminate. inversion Hi; subst.
    destruct (eval r e) as [t1 ro] eqn:Ee. destruct (IHe _ _ _ _ _ _ Hok Henv Ei Ee) as [Ht1 Hv1].
    destruct ro as [o1 |]; [destruct (num_of o1) as [x |] eqn:Ex |]; inversion He; subst.
    + split; [apply tr_ok_app; [eapply tr_ok_weaken; eauto; inc | eapply tr_ok_one; [apply in_or_app; right; left; reflexivity | reflexivity]] | intros ? Hr; inversion Hr; reflexivity].
    + split; [eapply tr_ok_weaken; eauto; inc | intros ? Hr; discriminate].
    + split; [eapply tr_ok_weaken; eauto; inc | intros ? Hr; discriminate].
Qed.
