(* Proofs/InferStmt.v — C01: soundness of the abstract execution of statements, loops included
   (the loop invariant supplied by `inv` is checked by `aexec1`, so no hypothesis about it is needed). *)
From Coq Require Import ZArith List Bool Lia.
Import ListNotations.
Require Import PV.Infer.Mini PV.Proofs.InferBase PV.Proofs.InferSound.

(* ------------------------------------------------------------ the order check is sound *)

Lemma val_eqb_eq : forall a b, val_eqb a b = true -> a = b.
Proof.
  induction a as [| o | c | l IH | l IH] using val_ind'; intros b H; destruct b; simpl in H; try discriminate.
  - reflexivity.
  - apply obj_eqb_eq in H. now subst.
  - destruct c, c0; simpl in H; try discriminate; reflexivity.
  - f_equal. revert l0 H. induction IH as [| x l Hx _ IHl]; intros [| y ys] H; try discriminate; auto.
    apply andb_true_iff in H as [H1 H2]. f_equal; auto.
  - f_equal. revert l0 H. induction IH as [| x l Hx _ IHl]; intros [| y ys] H; try discriminate; auto.
    apply andb_true_iff in H as [H1 H2]. f_equal; auto.
Qed.

Lemma le1_sound : forall v w o, le1 v w = true -> member o v = true -> member o w = true.
Proof.
  intros v w o Hle Hm. unfold le1 in Hle.
  destruct w as [| ow | d | ws | ws]; try reflexivity;
    apply orb_true_iff in Hle as [He | Hc]; try (apply val_eqb_eq in He; subst; exact Hm).
  - destruct v; discriminate.
  - destruct v as [| o' | c | vs | vs]; try discriminate.
    + cbn [member] in Hm. apply obj_eqb_eq in Hm. subst o'. exact Hc.
    + cbn [member] in *. unfold isinst in *. eapply subcls_trans; eauto.
    + destruct (member_seq_is_tuple _ _ Hm) as [os ->]. exact Hc.
  - destruct v; discriminate.
  - destruct v; discriminate.
Qed.

Lemma val_le_sound : forall v w o, val_le v w = true -> member o v = true -> member o w = true.
Proof.
  intros v w o Hle Hm. unfold val_le in Hle. rewrite forallb_forall in Hle.
  rewrite member_flat in Hm. apply existsb_exists in Hm as [v1 [Hin Hm1]].
  specialize (Hle _ Hin). apply existsb_exists in Hle as [w1 [Hinw Hle1]].
  rewrite member_flat. apply existsb_exists. exists w1. split; auto. eapply le1_sound; eauto.
Qed.

Lemma alookup_in : forall s x v, alookup s x = Some v -> In (x, v) s.
Proof.
  induction s as [| [y w] r IH]; intros x v H; simpl in *; try discriminate.
  destruct (Nat.eqb x y) eqn:E.
  - apply Nat.eqb_eq in E. inversion H; subst. auto.
  - right. auto.
Qed.

Lemma aenv_le_sound : forall r a b, env_ok r a -> aenv_le a b = true -> env_ok r b.
Proof.
  intros r a b Henv Hle x w Hl. unfold aenv_le in Hle. rewrite forallb_forall in Hle.
  specialize (Hle _ (alookup_in _ _ _ Hl)). simpl in Hle.
  destruct (alookup a x) as [v |] eqn:Ea; try discriminate.
  destruct (Henv x v Ea) as [o [Ho Hm]]. exists o. split; auto. eapply val_le_sound; eauto.
Qed.

(* ------------------------------------------------------------ statements *)

Lemma ablock_cons : forall f st q s,
  ablock f (st :: q) s =
  match f st s with
  | Some (a1, Some s1) =>
      match ablock f q s1 with
      | Some (a2, out) => Some (a1 ++ a2, out)
      | None => None
      end
  | Some (a1, None) => Some (a1, None)
  | None => None
  end.
Proof. reflexivity. Qed.

Lemma ablock_nil : forall f s, ablock f [] s = Some ([], Some s).
Proof. reflexivity. Qed.

Definition post_ok (out : option aenv) (res : outcome) : Prop :=
  forall r', res = Normal r' -> exists s', out = Some s' /\ env_ok r' s'.

Lemma join_opt_ok_l : forall r sa sb, (exists s', sa = Some s' /\ env_ok r s') -> exists s', join_opt sa sb = Some s' /\ env_ok r s'.
Proof.
  intros r sa sb [s' [-> H]]. destruct sb as [y |]; simpl; eauto. eexists; split; eauto. apply env_ok_ajoin; auto.
Qed.

Lemma join_opt_ok_r : forall r sa sb, (exists s', sb = Some s' /\ env_ok r s') -> exists s', join_opt sa sb = Some s' /\ env_ok r s'.
Proof.
  intros r sa sb [s' [-> H]]. destruct sa as [x |]; simpl; eauto. eexists; split; eauto. apply env_ok_ajoin; auto.
Qed.

Theorem aexec_sound : forall inv fuel ss r s a out t res,
  forallb stmt_okb ss = true -> env_ok r s ->
  ablock (aexec1 inv) ss s = Some (a, out) -> exec fuel r ss = (t, res) ->
  tr_ok a t /\ post_ok out res.
Proof.
  intros inv. induction fuel as [| fuel IH]; intros ss r s a out t res Hok Henv Ha He.
  { simpl in He. inversion He; subst. split; [apply tr_ok_nil | intros r' Hr; discriminate]. }
  destruct ss as [| st q].
  { rewrite ablock_nil in Ha. simpl in He. inversion Ha; inversion He; subst.
    split; [apply tr_ok_nil | intros r' Hr; inversion Hr; subst; eauto]. }
  rewrite ablock_cons in Ha. cbn [forallb] in Hok. apply andb_true_iff in Hok as [Hst Hq].
  destruct st as [x e | c ba bb | n c body | e]; cbn [aexec1] in Ha; cbn [exec] in He; cbn [stmt_okb] in Hst.
  - (* assignment *)
    destruct (infer s e) as [[a1 v] |] eqn:Ei; try discriminate.
    destruct (ablock (aexec1 inv) q (aset s x v)) as [[a2 out2] |] eqn:Eq; try discriminate.
    inversion Ha; subst. clear Ha.
    destruct (eval r e) as [t1 ro] eqn:Ee.
    destruct (infer_sound e r s a1 v t1 ro Hst Henv Ei Ee) as [Ht1 Hv].
    destruct ro as [o |].
    + destruct (exec fuel ((x, o) :: r) q) as [t2 out'] eqn:Ex. inversion He; subst.
      destruct (IH q _ _ _ _ _ _ Hq (env_ok_aset _ _ x _ _ Henv (Hv _ eq_refl)) Eq Ex) as [Ht2 Hp].
      split; auto. apply tr_ok_app; eapply tr_ok_weaken; eauto; inc.
    + inversion He; subst. split; [eapply tr_ok_weaken; eauto; inc | intros r' Hr; discriminate].
  - (* if *)
    apply andb_true_iff in Hst as [Hst Hbb]. apply andb_true_iff in Hst as [Hc Hba].
    destruct (infer s c) as [[ac vc] |] eqn:Ei; try discriminate.
    destruct (ablock (aexec1 inv) ba (apply_constr (constraint_of c) s)) as [[aa sa] |] eqn:Eba; try discriminate.
    destruct (ablock (aexec1 inv) bb (apply_constr (cinvert (constraint_of c)) s)) as [[ab sb] |] eqn:Ebb; try discriminate.
    destruct (eval r c) as [t1 ro] eqn:Ee.
    destruct (infer_sound c r s ac vc t1 ro Hc Henv Ei Ee) as [Ht1 _].
    destruct ro as [oc |].
    2:{ assert (Hsub : forall a', a = a' -> True) by auto.
        destruct (join_opt sa sb) as [sj |]; [destruct (ablock (aexec1 inv) q sj) as [[a2 out2] |]; try discriminate |];
          inversion Ha; inversion He; subst; (split; [eapply tr_ok_weaken; eauto; inc | intros r' Hr; discriminate]). }
    pose proof (constraint_of_sound _ _ _ _ Ee) as Hcs.
    pose proof (constraint_of_okb _ Hc) as Hkok.
    assert (Hbranch : exists tb resb ab' sb',
              exec fuel r (if truthy oc then ba else bb) = (tb, resb) /\ tr_ok ab' tb /\ post_ok sb' resb /\
              (forall z, In z ab' -> In z (ac ++ aa ++ ab)) /\
              (forall r', (exists s', sb' = Some s' /\ env_ok r' s') -> exists s', join_opt sa sb = Some s' /\ env_ok r' s')).
    { destruct (truthy oc) eqn:T.
      - destruct (exec fuel r ba) as [tb resb] eqn:Ex.
        assert (Henv2 : env_ok r (apply_constr (constraint_of c) s)) by (apply apply_constr_sound; auto).
        destruct (IH ba _ _ _ _ _ _ Hba Henv2 Eba Ex) as [Htb Hpb].
        exists tb, resb, aa, sa. repeat split; auto. inc. intros r'. apply join_opt_ok_l.
      - destruct (exec fuel r bb) as [tb resb] eqn:Ex.
        assert (Henv2 : env_ok r (apply_constr (cinvert (constraint_of c)) s)).
        { apply apply_constr_sound; auto. now rewrite cinvert_okb. apply csat_cinvert. exact Hcs. }
        destruct (IH bb _ _ _ _ _ _ Hbb Henv2 Ebb Ex) as [Htb Hpb].
        exists tb, resb, ab, sb. repeat split; auto. inc. intros r'. apply join_opt_ok_r. }
    destruct Hbranch as [tb [resb [ab' [sb' [Ex [Htb [Hpb [Hinc Hjoin]]]]]]]]. rewrite Ex in He.
    destruct resb as [r' | o | |].
    + destruct (Hjoin r' (Hpb r' eq_refl)) as [sj [Ej Henvj]]. rewrite Ej in Ha.
      destruct (ablock (aexec1 inv) q sj) as [[a2 out2] |] eqn:Eq; try discriminate. inversion Ha; subst.
      destruct (exec fuel r' q) as [t3 out3] eqn:Ex3. inversion He; subst.
      destruct (IH q _ _ _ _ _ _ Hq Henvj Eq Ex3) as [Ht3 Hp3].
      split; auto. apply tr_ok_app; [eapply tr_ok_weaken; eauto; inc |].
      apply tr_ok_app; [eapply tr_ok_weaken; [exact Htb |] | eapply tr_ok_weaken; eauto; inc].
      intros z Hz. apply in_or_app. left. auto.
    + assert (Hall : exists a0, a = (ac ++ aa ++ ab) ++ a0).
      { destruct (join_opt sa sb) as [sj |]; [destruct (ablock (aexec1 inv) q sj) as [[a2 out2] |]; try discriminate |];
          inversion Ha; subst; eauto. exists []. now rewrite app_nil_r. }
      destruct Hall as [a0 ->]. inversion He; subst.
      split; [| intros r' Hr; discriminate].
      apply tr_ok_app; [eapply tr_ok_weaken; eauto; inc | eapply tr_ok_weaken; [exact Htb |]].
      intros z Hz. apply in_or_app. left. auto.
    + assert (Hall : exists a0, a = (ac ++ aa ++ ab) ++ a0).
      { destruct (join_opt sa sb) as [sj |]; [destruct (ablock (aexec1 inv) q sj) as [[a2 out2] |]; try discriminate |];
          inversion Ha; subst; eauto. exists []. now rewrite app_nil_r. }
      destruct Hall as [a0 ->]. inversion He; subst.
      split; [| intros r' Hr; discriminate].
      apply tr_ok_app; [eapply tr_ok_weaken; eauto; inc | eapply tr_ok_weaken; [exact Htb |]].
      intros z Hz. apply in_or_app. left. auto.
    + assert (Hall : exists a0, a = (ac ++ aa ++ ab) ++ a0).
      { destruct (join_opt sa sb) as [sj |]; [destruct (ablock (aexec1 inv) q sj) as [[a2 out2] |]; try discriminate |];
          inversion Ha; subst; eauto. exists []. now rewrite app_nil_r. }
      destruct Hall as [a0 ->]. inversion He; subst.
      split; [| intros r' Hr; discriminate].
      apply tr_ok_app; [eapply tr_ok_weaken; eauto; inc | eapply tr_ok_weaken; [exact Htb |]].
      intros z Hz. apply in_or_app. left. auto.
  - (* while *)
    apply andb_true_iff in Hst as [Hc Hbody].
    destruct (aenv_le s (inv n)) eqn:Eles; try discriminate.
    destruct (infer (inv n) c) as [[ac vc] |] eqn:Ei; try discriminate.
    pose proof (aenv_le_sound _ _ _ Henv Eles) as Henvi.
    destruct (eval r c) as [t1 ro] eqn:Ee.
    destruct (infer_sound c r (inv n) ac vc t1 ro Hc Henvi Ei Ee) as [Ht1 _].
    set (k := constraint_of c) in *.
    set (sexit := apply_constr (cinvert k) (inv n)) in *.
    destruct (ablock (aexec1 inv) body (apply_constr k (inv n))) as [[ab sbo] |] eqn:Eb; try discriminate.
    assert (Hhead : exists a2, ablock (aexec1 inv) q sexit = Some (a2, out) /\ a = (ac ++ ab) ++ a2 /\
                     (forall s', sbo = Some s' -> aenv_le s' (inv n) = true)).
    { destruct sbo as [s' |].
      - destruct (aenv_le s' (inv n)) eqn:El2; try discriminate.
        destruct (ablock (aexec1 inv) q sexit) as [[a2 out2] |] eqn:Eq; try discriminate.
        inversion Ha; subst. exists a2. repeat split; auto. intros s'' Hs. inversion Hs; subst. auto.
      - destruct (ablock (aexec1 inv) q sexit) as [[a2 out2] |] eqn:Eq; try discriminate.
        inversion Ha; subst. exists a2. repeat split; auto. intros s'' Hs. discriminate. }
    destruct Hhead as [a2 [Eq [-> Hchk]]].
    destruct ro as [oc |].
    2:{ inversion He; subst. split; [eapply tr_ok_weaken; eauto; inc | intros r' Hr; discriminate]. }
    pose proof (constraint_of_sound _ _ _ _ Ee) as Hcs. fold k in Hcs.
    pose proof (constraint_of_okb _ Hc) as Hkok. fold k in Hkok.
    destruct (truthy oc) eqn:T.
    + assert (Henv2 : env_ok r (apply_constr k (inv n))) by (apply apply_constr_sound; auto).
      destruct (exec fuel r body) as [t2 resb] eqn:Exb.
      destruct (IH body _ _ _ _ _ _ Hbody Henv2 Eb Exb) as [Ht2 Hpb].
      destruct resb as [r' | o | |].
      * destruct (Hpb r' eq_refl) as [s' [-> Henv']].
        pose proof (Hchk s' eq_refl) as El2.
        destruct (exec fuel r' (SWhile n c body :: q)) as [t3 out3] eqn:Ex3. inversion He; subst.
        assert (Ha' : ablock (aexec1 inv) (SWhile n c body :: q) s' = Some ((ac ++ ab) ++ a2, out)).
        { rewrite ablock_cons. cbn [aexec1]. rewrite El2, Ei. fold k. rewrite Eb, El2. fold sexit. rewrite Eq. reflexivity. }
        assert (Hok' : forallb stmt_okb (SWhile n c body :: q) = true).
        { cbn [forallb stmt_okb]. now rewrite Hc, Hbody, Hq. }
        destruct (IH _ _ _ _ _ _ _ Hok' Henv' Ha' Ex3) as [Ht3 Hp3].
        split; auto. apply tr_ok_app; [eapply tr_ok_weaken; eauto; inc |].
        apply tr_ok_app; [eapply tr_ok_weaken; eauto; inc | auto].
      * inversion He; subst. split; [| intros r' Hr; discriminate].
        apply tr_ok_app; eapply tr_ok_weaken; eauto; inc.
      * inversion He; subst. split; [| intros r' Hr; discriminate].
        apply tr_ok_app; eapply tr_ok_weaken; eauto; inc.
      * inversion He; subst. split; [| intros r' Hr; discriminate].
        apply tr_ok_app; eapply tr_ok_weaken; eauto; inc.
    + assert (Henv3 : env_ok r sexit).
      { apply apply_constr_sound; auto. now rewrite cinvert_okb. apply csat_cinvert. exact Hcs. }
      destruct (exec fuel r q) as [t3 out3] eqn:Ex3. inversion He; subst.
      destruct (IH q _ _ _ _ _ _ Hq Henv3 Eq Ex3) as [Ht3 Hp3].
      split; auto. apply tr_ok_app; eapply tr_ok_weaken; eauto; inc.
  - (* return *)
    destruct (infer s e) as [[a1 v] |] eqn:Ei; try discriminate. inversion Ha; subst.
    destruct (eval r e) as [t1 ro] eqn:Ee.
    destruct (infer_sound e r s a v t1 ro Hst Henv Ei Ee) as [Ht1 _].
    destruct ro; inversion He; subst; (split; [auto | intros r' Hr; discriminate]).
Qed.

(* ------------------------------------------------------------ consequences *)

(* the property, on the mini-language: whenever the analysis accepts a program (with whatever loop
   invariants it was given) and the arguments belong to the declared parameter values, every value
   any node evaluates to, in any run of any length, belongs to the value inferred for that node *)
Theorem infer_sound_program : forall inv fuel body params args a out,
  forallb stmt_okb body = true -> env_ok args params ->
  aexec inv body params = Some (a, out) ->
  tr_ok a (fst (exec fuel args body)).
Proof.
  intros inv fuel body params args a out Hok Henv Ha.
  destruct (exec fuel args body) as [t res] eqn:Ex. simpl.
  unfold aexec in Ha. exact (proj1 (aexec_sound inv fuel body args params a out t res Hok Henv Ha Ex)).
Qed.

Lemma env_okb_sound : forall r s, env_okb r s = true -> env_ok r s.
Proof.
  intros r s H x v Hl. unfold env_okb in H. rewrite forallb_forall in H.
  specialize (H _ (alookup_in _ _ _ Hl)). simpl in H. destruct (lookup r x) as [o |]; try discriminate. eauto.
Qed.

(* executable form used by the correspondence: run_check never answers Some false in the guarded fragment *)
Theorem run_check_never_false : forall inv fuel params args body,
  forallb stmt_okb body = true -> env_okb args params = true ->
  run_check inv fuel params args body <> Some false.
Proof.
  intros inv fuel params args body Hok Henv. unfold run_check.
  destruct (aexec inv body params) as [[a out] |] eqn:Ea; try discriminate.
  pose proof (infer_sound_program inv fuel body params args a out Hok (env_okb_sound _ _ Henv) Ea) as H.
  apply trace_ok_iff in H. rewrite H. discriminate.
Qed.

(* an expression inferred as Never is never evaluated to a value *)
Theorem never_is_unreachable : forall inv fuel body params args a out n o,
  forallb stmt_okb body = true -> env_ok args params ->
  aexec inv body params = Some (a, out) ->
  In (n, o) (fst (exec fuel args body)) ->
  exists v, In (n, v) a /\ member o v = true /\ v <> VNever.
Proof.
  intros inv fuel body params args a out n o Hok Henv Ha Hin.
  destruct (infer_sound_program inv fuel body params args a out Hok Henv Ha n o Hin) as [v [Hv Hm]].
  exists v. repeat split; auto. intros ->. rewrite member_never in Hm. discriminate.
Qed.

(* the full statement (no guard on == literals) and its refutation by the faithful model *)
Definition infer_sound_full_statement : Prop :=
  forall inv fuel body params args a out,
    env_ok args params -> aexec inv body params = Some (a, out) -> tr_ok a (fst (exec fuel args body)).

Definition refute_prog : list stmt :=
  [SReturn (EIfExp 0 (EEq 1 (EName 2 0) (OInt 0)) (EName 3 0) (ELit 4 ONone))].

Lemma infer_sound_refuted : ~ infer_sound_full_statement.
Proof.
  intros H.
  assert (Henv : env_ok [(0, OBool false)] [(0, VTyped CBool)]).
  { apply env_okb_sound. reflexivity. }
  specialize (H (fun _ => []) 5 refute_prog [(0, VTyped CBool)] [(0, OBool false)] _ _ Henv eq_refl).
  apply trace_ok_iff in H. vm_compute in H. discriminate.
Qed.

(* the hypotheses of the guarded theorem are satisfiable by a program with a loop, narrowing and a subscript *)
Definition example_prog : list stmt :=
  [SAssign 1 (ELit 0 (OInt 1));
   SWhile 0 (EName 1 0)
     [SAssign 1 (ETuple 2 [EName 3 0; ELit 4 (OStr 1)]); SAssign 0 (ELit 5 ONone)];
   SReturn (EIfExp 6 (EIsInst 7 (EName 8 1) CTuple) (ESub 9 (EName 10 1) (-1)) (EName 11 1))].

Definition example_inv (n : nat) : aenv :=
  [(1, VUnion [VKnown (OInt 1); VSeq [VTyped CInt; VKnown (OStr 1)]]);
   (0, VUnion [VTyped CInt; VKnown ONone])].

Lemma infer_sound_guard_inhabited :
  forallb stmt_okb example_prog = true /\ env_okb [(0, OInt 3)] [(0, VTyped CInt)] = true /\
  run_check example_inv 30 [(0, VTyped CInt)] [(0, OInt 3)] example_prog = Some true /\
  length (fst (exec 30 [(0, OInt 3)] example_prog)) = 12.
Proof. vm_compute. auto. Qed.
