(* Proofs/LinesFixer.v — the add-ignores iteration (C16), on the model
   instantiated with the constants generated from the source. *)
From Coq Require Import List Bool NArith Arith Lia.
Import ListNotations.
Require Import PV.Lines.Text PV.Lines.Suppress PV.Lines.Place PV.Lines.Fixer.
Require Import PV.Proofs.LinesSuppress PV.Proofs.LinesPlace PV.Proofs.LinesText.
Require Import PV.Gen.Codes.

Notation IGN := IGNORE_COMMENT.
Notation nm := code_name.
Notation U := unused_ignore_code.
Notation B := bare_ignore_code.

Ltac nlia := unfold file, line in *; lia.

(* ------------------------------------------------------------------ *)
(* 1. applying the add-ignore replacement = inserting the comment line  *)

Lemma del_at_app : forall {A} (a : list A) x b, del_at (length a) (a ++ x :: b) = a ++ b.
Proof. intros A a x b. induction a as [|y a IH]; cbn; [reflexivity|now rewrite IH]. Qed.

Lemma firstn_S_nth : forall {A} (l : list A) i d, i < length l ->
  firstn (S i) l = firstn i l ++ [nth i l d].
Proof.
  intros A l. induction l as [|x l IH]; intros i d H; cbn in H; [lia|].
  destruct i as [|i]; [reflexivity|]. cbn [firstn nth app]. f_equal. apply IH. lia.
Qed.

Lemma skipn_nth_cons : forall {A} (l : list A) i d, i < length l ->
  skipn i l = nth i l d :: skipn (S i) l.
Proof.
  intros A l. induction l as [|x l IH]; intros i d H; cbn in H; [lia|].
  destruct i as [|i]; [reflexivity|]. cbn [skipn nth]. apply IH. lia.
Qed.

Theorem apply_add_ignore : forall f ln c rest, 1 <= ln <= length f ->
  apply_changes (add_ignore_repl IGN nm f ln c :: rest) f
  = insert_line (ln - 1) (comment_line IGN nm (indentation (line_at f (ln - 1))) (Some c)) f.
Proof.
  intros f ln c rest H. unfold apply_changes, add_ignore_repl.
  cbn [r_add r_del list_max fold_right sort_desc insert_desc fold_left].
  rewrite Nat.max_0_r. unfold insert_line, line_at.
  set (C := comment_line IGN nm (indentation (nth (ln - 1) f [])) (Some c)).
  replace ln with (S (ln - 1)) at 1 2 by lia.
  rewrite (firstn_S_nth f (ln - 1) []) by nlia.
  rewrite (skipn_nth_cons f (ln - 1) []) by nlia.
  replace (S (ln - 1)) with ln by lia.
  rewrite <- app_assoc. cbn [app].
  assert (L : length (firstn (ln - 1) f) = ln - 1) by (rewrite firstn_length; nlia).
  rewrite <- L at 1. rewrite L. rewrite <- L at 1.
  now rewrite del_at_app.
Qed.

(* whatever the replacement, nothing outside the touched range moves: the
   lines before the first deleted line and after the last one are kept *)
Lemma del_at_firstn : forall {A} (l : list A) i k, k <= i -> firstn k (del_at i l) = firstn k l.
Proof.
  intros A l. induction l as [|x l IH]; intros i k H; [now destruct i|].
  destruct i as [|i]; [replace k with 0 by lia; reflexivity|].
  destruct k as [|k]; [reflexivity|]. cbn. f_equal. apply IH. lia.
Qed.

Lemma fold_del_firstn : forall (dels : list nat) (l : file) k,
  (forall d, In d dels -> k <= d - 1) ->
  firstn k (fold_left (fun ls lineno => del_at (lineno - 1) ls) dels l) = firstn k l.
Proof.
  induction dels as [|d r IH]; intros l k H; cbn [fold_left]; [reflexivity|].
  rewrite IH by (intros; apply H; now right). apply del_at_firstn. apply H. now left.
Qed.

Lemma In_insert_desc : forall x y l, In y (insert_desc x l) <-> y = x \/ In y l.
Proof.
  intros x y l. induction l as [|z r IHr].
  - cbn. split; [intros [H|[]]; left; now symmetry|intros [H|[]]; left; now symmetry].
  - cbn [insert_desc]. destruct (z <? x).
    + cbn [In]. split; [intros [H|H]; [left; now symmetry|now right]|intros [H|H]; [left; now symmetry|now right]].
    + cbn [In]. rewrite IHr. tauto.
Qed.

Lemma In_sort_desc : forall y l, In y (sort_desc l) <-> In y l.
Proof.
  intros y l. induction l as [|x r IHr]; [cbn; tauto|].
  unfold sort_desc in *. cbn [fold_right]. rewrite In_insert_desc, IHr. cbn [In].
  split; [intros [H|H]; [left; now symmetry|now right]|intros [H|H]; [left; now symmetry|now right]].
Qed.

Lemma list_max_ge : forall l x, In x l -> x <= list_max l.
Proof.
  induction l as [|y r IHr]; intros x H; [contradiction|]. cbn [list_max fold_right].
  destruct H as [->|H]; [apply Nat.le_max_l|].
  specialize (IHr x H). unfold list_max in IHr. etransitivity; [exact IHr|apply Nat.le_max_r].
Qed.

Theorem apply_keeps_prefix : forall change rest (f : file) k,
  r_del change <> [] ->
  (forall d, In d (r_del change) -> k < d <= length f) ->
  firstn k (apply_changes (change :: rest) f) = firstn k f.
Proof.
  intros change rest f k NE H. unfold apply_changes.
  destruct (r_add change) as [adds|]; [|reflexivity].
  rewrite fold_del_firstn.
  - assert (M : k <= list_max (r_del change) <= length f).
    { destruct (r_del change) as [|d0 r0] eqn:E; [congruence|].
      split.
      - pose proof (list_max_ge (d0 :: r0) d0 (or_introl eq_refl)). specialize (H d0 (or_introl eq_refl)). lia.
      - apply list_max_le. apply Forall_forall. intros x IN. apply H in IN. lia. }
    rewrite firstn_app, firstn_firstn, firstn_length.
    replace (Nat.min k (list_max (r_del change))) with k by lia.
    replace (k - Nat.min (list_max (r_del change)) (length f)) with 0 by nlia.
    cbn. now rewrite app_nil_r.
  - intros d IN. apply (proj1 (In_sort_desc _ _)) in IN. apply H in IN. lia.
Qed.

(* ... and the lines after the last deleted line are kept too: the result is
   (what is left of the first max_line lines) ++ additions ++ (the lines after max_line) *)
From Coq Require Import Sorted.

Definition desc := StronglySorted (fun a b : nat => b < a).

Lemma insert_desc_sorted : forall x l, desc l -> ~ In x l -> desc (insert_desc x l).
Proof.
  intros x l. induction l as [|y r IHr]; intros S NI; cbn [insert_desc].
  - constructor; constructor.
  - inversion S as [|? ? Sr Fr]; subst. destruct (y <? x) eqn:E.
    + apply Nat.ltb_lt in E. constructor; [exact S|]. constructor; [exact E|].
      eapply Forall_impl; [|exact Fr]. cbn. intros a H. lia.
    + apply Nat.ltb_ge in E. assert (x <> y) by (intros ->; apply NI; now left).
      constructor.
      * apply IHr; [exact Sr|]. intros IN. apply NI. now right.
      * apply Forall_forall. intros a IN. apply In_insert_desc in IN. destruct IN as [->|IN]; [lia|].
        rewrite Forall_forall in Fr. now apply Fr.
Qed.

Lemma sort_desc_sorted : forall l, NoDup l -> desc (sort_desc l).
Proof.
  induction l as [|x r IHr]; intros ND; [constructor|]. inversion ND; subst.
  unfold sort_desc in *. cbn [fold_right]. apply insert_desc_sorted; [now apply IHr|].
  intros IN. apply (proj1 (In_sort_desc _ _)) in IN. contradiction.
Qed.

Lemma sort_desc_length : forall l, length (sort_desc l) = length l.
Proof.
  assert (I : forall x l, length (insert_desc x l) = S (length l)).
  { intros x l. induction l as [|y r IHr]; [reflexivity|]. cbn [insert_desc]. destruct (y <? x); cbn [length]; [reflexivity|now rewrite IHr]. }
  induction l as [|x r IHr]; [reflexivity|]. unfold sort_desc in *. cbn [fold_right]. now rewrite I, IHr.
Qed.

Lemma del_at_app_l : forall {A} (a b : list A) i, i < length a -> del_at i (a ++ b) = del_at i a ++ b.
Proof.
  intros A a. induction a as [|x a IHa]; intros b i H; cbn in H; [lia|].
  destruct i as [|i]; [reflexivity|]. cbn. f_equal. apply IHa. lia.
Qed.

Lemma del_at_length : forall {A} (a : list A) i, i < length a -> length (del_at i a) = length a - 1.
Proof.
  intros A a. induction a as [|x a IHa]; intros i H; cbn in H; [lia|].
  destruct i as [|i]; cbn; [lia|]. rewrite IHa by lia. lia.
Qed.

Lemma fold_del_app : forall (ds : list nat) (a b : file),
  desc ds -> (forall d, In d ds -> 1 <= d <= length a) ->
  fold_left (fun ls lineno => del_at (lineno - 1) ls) ds (a ++ b)
  = fold_left (fun ls lineno => del_at (lineno - 1) ls) ds a ++ b
  /\ length (fold_left (fun ls lineno => del_at (lineno - 1) ls) ds a) = length a - length ds.
Proof.
  induction ds as [|d r IHr]; intros a b S R; cbn [fold_left length]; [split; [reflexivity|lia]|].
  inversion S as [|? ? Sr Fr]; subst.
  assert (Rd : 1 <= d <= length a) by (apply R; now left).
  rewrite del_at_app_l by nlia.
  assert (R' : forall d', In d' r -> 1 <= d' <= length (del_at (d - 1) a)).
  { intros d' IN. rewrite del_at_length by nlia. rewrite Forall_forall in Fr. specialize (Fr d' IN).
    specialize (R d' (or_intror IN)). nlia. }
  destruct (IHr (del_at (d - 1) a) b Sr R') as [E L]. split; [exact E|].
  rewrite L, del_at_length by nlia. nlia.
Qed.

Theorem apply_shape : forall change rest (f : file) adds,
  r_add change = Some adds -> r_del change <> [] -> NoDup (r_del change) ->
  (forall d, In d (r_del change) -> 1 <= d <= length f) ->
  exists pre,
    apply_changes (change :: rest) f = pre ++ adds ++ skipn (list_max (r_del change)) f
    /\ length pre = list_max (r_del change) - length (r_del change).
Proof.
  intros change rest f adds HA NE ND R. unfold apply_changes. rewrite HA.
  set (m := list_max (r_del change)).
  assert (M : m <= length f).
  { apply list_max_le. apply Forall_forall. intros x IN. apply R in IN. lia. }
  assert (LF : length (firstn m f) = m) by (rewrite firstn_length; nlia).
  destruct (fold_del_app (sort_desc (r_del change)) (firstn m f) (adds ++ skipn m f)) as [E L].
  - apply sort_desc_sorted, ND.
  - intros d IN. apply (proj1 (In_sort_desc _ _)) in IN. rewrite LF.
    split; [apply R in IN; lia|]. now apply list_max_ge.
  - rewrite E. eexists. split; [reflexivity|]. rewrite L, LF, sort_desc_length. reflexivity.
Qed.

(* the lines after the last deleted one are exactly the old ones *)
Corollary apply_keeps_suffix : forall change rest (f : file) adds,
  r_add change = Some adds -> r_del change <> [] -> NoDup (r_del change) ->
  (forall d, In d (r_del change) -> 1 <= d <= length f) ->
  skipn (list_max (r_del change) - length (r_del change) + length adds) (apply_changes (change :: rest) f)
  = skipn (list_max (r_del change)) f.
Proof.
  intros change rest f adds HA NE ND R.
  destruct (apply_shape change rest f adds HA NE ND R) as [pre [E L]]. rewrite E.
  rewrite app_assoc. rewrite skipn_app.
  assert (LL : length (pre ++ adds) = list_max (r_del change) - length (r_del change) + length adds)
    by (rewrite app_length; lia).
  rewrite <- LL. rewrite skipn_all, Nat.sub_diag. reflexivity.
Qed.

(* ------------------------------------------------------------------ *)
(* 2. the inserted line is a comment: code lines are untouched         *)

Lemma ign_head : IGN = 35%N :: tl IGN.
Proof. reflexivity. Qed.

Lemma comment_line_comment_only : forall k c, comment_only (comment_line IGN nm k c) = true.
Proof.
  intros k c. unfold comment_only, comment_line. rewrite lstrip_spaces.
  destruct c as [c|]; [unfold tag|]; rewrite ign_head; reflexivity.
Qed.

Lemma code_lines_insert : forall i C f, comment_only C = true ->
  code_lines (insert_line i C f) = code_lines f.
Proof.
  intros i C f H. unfold code_lines, insert_line. rewrite filter_app. cbn [filter]. rewrite H. cbn [negb].
  rewrite <- filter_app. now rewrite firstn_skipn.
Qed.

(* ------------------------------------------------------------------ *)
(* 3. one step                                                         *)

Lemma emit_no_tail : forall st f raw, st U = false -> st B = false ->
  emit IGN nm st f U B raw = main IGN nm st f raw.
Proof.
  intros st f raw HU HB. unfold emit, main.
  assert (T : forall code ls, st code = false ->
            flat_map (fun il : nat * line => tail_step IGN nm st f (fake IGN code (fst il) (snd il))) ls = []).
  { intros code ls H. induction ls as [|a r IHr]; [reflexivity|]. cbn [flat_map]. rewrite IHr.
    unfold tail_step. cbn [d_code fake]. now rewrite H. }
  unfold tail_unused, tail_bare. rewrite T by assumption.
  destruct (file_level IGN nm f None); [now rewrite app_nil_r|]. rewrite T by assumption. now rewrite app_nil_r.
Qed.

Lemma sublist_In : forall {A} (a b : list A) x, sublist a b -> In x a -> In x b.
Proof.
  intros A a b x H. induction H; intros IN; [assumption|right; auto|].
  destruct IN as [->|IN]; [now left|right; auto].
Qed.

Lemma main_In_raw : forall st f raw d, In d (main IGN nm st f raw) -> In d raw.
Proof. intros st f raw d. apply sublist_In, main_order_preserved. Qed.

Lemma own_hit_own_any : forall l c, own_any IGN l = false -> own_hit IGN nm l c = false.
Proof.
  intros l c H. unfold own_hit, own_bare, own_tag, own_any in *.
  assert (P : forall t, list_N_eqb (strip l) (IGN ++ t) = false).
  { intros t. destruct (list_N_eqb (strip l) (IGN ++ t)) eqn:E; [|reflexivity].
    apply list_N_eqb_eq in E. rewrite E in H.
    assert (Q : forall a b, prefix a (a ++ b) = true).
    { induction a as [|x a IHa]; intros b; cbn; [reflexivity|]. now rewrite N.eqb_refl, IHa. }
    now rewrite Q in H. }
  rewrite <- (app_nil_r IGN) at 1. rewrite P. unfold tag. now rewrite P.
Qed.

Lemma leading_len_insert : forall f i C, i <= length f -> not_leading f i C ->
  leading_len (insert_line i C f) = leading_len f.
Proof.
  induction f as [|l r IH]; intros i C LE [N1 N2].
  - cbn in LE. assert (i = 0) by lia. subst. unfold insert_line. cbn. now rewrite N2.
  - destruct i as [|i]; unfold insert_line; cbn [firstn skipn app leading_len].
    + cbn in N1, N2. destruct (starts_hash l) eqn:HL; [lia|]. now rewrite N2.
    + cbn in N1, N2. destruct (starts_hash l) eqn:HL; [|reflexivity]. f_equal.
      apply (IH i C); [cbn in LE; lia|]. split; [lia|]. intros E. apply N2. lia.
Qed.

(* the decidable guard of the iteration *)
Record fix_inv (st : settings) (f : file) (raw : list diag) : Prop := {
  inv_lined : forall d, In d raw -> exists n, d_line d = Some n /\ 1 <= n <= length f;
  inv_obey : forall d, In d raw -> d_obey d = true;
  inv_codes : forall d, In d raw -> (d_code d < n_codes)%N;
  (* the comment for a reported line does not land in / at the end of the leading '#' block at column 0 *)
  inv_pos : forall d n, In d (main IGN nm st f raw) -> d_line d = Some n ->
            leading_len f <= n - 1 /\ (leading_len f = n - 1 -> indentation (line_at f (n - 1)) <> 0);
  (* the line above a reported line is not an own-line ignore comment *)
  inv_prev : forall d n, In d (main IGN nm st f raw) -> d_line d = Some n -> n >= 2 ->
             own_any IGN (line_at f (n - 2)) = false;
  (* one code per reported line *)
  inv_one : forall d1 d2 n, In d1 (main IGN nm st f raw) -> In d2 (main IGN nm st f raw) ->
            d_line d1 = Some n -> d_line d2 = Some n -> d_code d1 = d_code d2
}.

Definition fixed_by (n0 : nat) (c0 : N) (d : diag) : bool := targets_line n0 d && N.eqb (d_code d) c0.

Lemma not_leading_comment : forall f n c,
  leading_len f <= n - 1 /\ (leading_len f = n - 1 -> indentation (line_at f (n - 1)) <> 0) ->
  (c < n_codes)%N ->
  not_leading f (n - 1) (comment_line IGN nm (indentation (line_at f (n - 1))) (Some c)).
Proof.
  intros f n c [H1 H2] HC. split; [exact H1|]. intros E.
  destruct (comment_line_features (indentation (line_at f (n - 1))) c c HC HC) as [_ [_ [SH _]]].
  rewrite SH. apply Nat.eqb_neq. now apply H2.
Qed.

Theorem fix_step_main : forall st f raw d0 rest n0,
  fix_inv st f raw ->
  main IGN nm st f raw = d0 :: rest -> d_line d0 = Some n0 ->
  let C := comment_line IGN nm (indentation (line_at f (n0 - 1))) (Some (d_code d0)) in
  main IGN nm st (insert_line (n0 - 1) C f) (map (shift_diag n0) raw)
  = map (shift_diag n0) (filter (fun d => negb (fixed_by n0 (d_code d0) d)) (main IGN nm st f raw)).
Proof.
  intros st f raw d0 rest n0 INV M L0 C.
  assert (IN0 : In d0 (main IGN nm st f raw)) by (rewrite M; now left).
  pose proof (main_In_raw _ _ _ _ IN0) as INR.
  destruct (inv_lined _ _ _ INV d0 INR) as [n [Ln RNG]]. rewrite L0 in Ln. inversion Ln; subst n.
  pose proof (inv_codes _ _ _ INV d0 INR) as HC0.
  rewrite (ownline_exact IGN nm st f raw n0 C).
  - f_equal. apply filter_ext_in. intros d IN. unfold fixed_by. f_equal.
    destruct (targets_line n0 d); [|reflexivity]. cbn [andb].
    pose proof (inv_codes _ _ _ INV d (main_In_raw _ _ _ _ IN)) as HC.
    destruct (comment_line_features (indentation (line_at f (n0 - 1))) (d_code d0) (d_code d) HC0 HC) as [OH _].
    exact OH.
  - intros d IN E. destruct (inv_lined _ _ _ INV d IN) as [n [Ln' R]]. rewrite E in Ln'. inversion Ln'. lia.
  - exact RNG.
  - apply not_leading_comment; [|exact HC0]. exact (inv_pos _ _ _ INV d0 n0 IN0 L0).
  - intros GE c. apply own_hit_own_any. exact (inv_prev _ _ _ INV d0 n0 IN0 L0 GE).
Qed.

Lemma first_lined_main : forall st f raw d0 rest, fix_inv st f raw ->
  main IGN nm st f raw = d0 :: rest ->
  exists n0, d_line d0 = Some n0 /\ first_lined (main IGN nm st f raw) = Some (n0, d_code d0).
Proof.
  intros st f raw d0 rest INV M.
  assert (IN0 : In d0 (main IGN nm st f raw)) by (rewrite M; now left).
  destruct (inv_lined _ _ _ INV d0 (main_In_raw _ _ _ _ IN0)) as [n0 [L0 _]].
  exists n0. split; [exact L0|]. rewrite M. unfold first_lined. cbn [find]. rewrite L0. cbn beta iota. now rewrite L0.
Qed.

(* shifting is injective on line numbers *)
Lemma shift_line_inj : forall n0 a b,
  (if n0 <=? a then S a else a) = (if n0 <=? b then S b else b) -> a = b.
Proof.
  intros n0 a b. destruct (n0 <=? a) eqn:A, (n0 <=? b) eqn:Bq; intros E;
    try apply Nat.leb_le in A; try apply Nat.leb_le in Bq;
    try apply Nat.leb_gt in A; try apply Nat.leb_gt in Bq; lia.
Qed.

Theorem fix_step_inv : forall st f raw d0 rest n0,
  fix_inv st f raw ->
  main IGN nm st f raw = d0 :: rest -> d_line d0 = Some n0 ->
  let C := comment_line IGN nm (indentation (line_at f (n0 - 1))) (Some (d_code d0)) in
  fix_inv st (insert_line (n0 - 1) C f) (map (shift_diag n0) raw).
Proof.
  intros st f raw d0 rest n0 INV M L0 C.
  pose proof (fix_step_main st f raw d0 rest n0 INV M L0) as MAIN. fold C in MAIN.
  assert (IN0 : In d0 (main IGN nm st f raw)) by (rewrite M; now left).
  pose proof (main_In_raw _ _ _ _ IN0) as INR.
  destruct (inv_lined _ _ _ INV d0 INR) as [n [Ln RNG]]. rewrite L0 in Ln. inversion Ln; subst n.
  pose proof (inv_codes _ _ _ INV d0 INR) as HC0.
  assert (LEN : length (insert_line (n0 - 1) C f) = S (length f)).
  { unfold insert_line. rewrite app_length. cbn [length]. rewrite firstn_length, skipn_length. nlia. }
  assert (NL : not_leading f (n0 - 1) C).
  { apply not_leading_comment; [|exact HC0]. exact (inv_pos _ _ _ INV d0 n0 IN0 L0). }
  assert (LL : leading_len (insert_line (n0 - 1) C f) = leading_len f).
  { apply leading_len_insert; [nlia|exact NL]. }
  (* every diagnostic of the new main comes from an old one on another line *)
  assert (ORIG : forall d', In d' (main IGN nm st (insert_line (n0 - 1) C f) (map (shift_diag n0) raw)) ->
            exists d m, In d (main IGN nm st f raw) /\ d' = shift_diag n0 d /\ d_line d = Some m /\ m <> n0
                        /\ 1 <= m <= length f).
  { intros d' IN. rewrite MAIN in IN. apply in_map_iff in IN. destruct IN as [d [E IN]].
    apply filter_In in IN. destruct IN as [IN NF].
    destruct (inv_lined _ _ _ INV d (main_In_raw _ _ _ _ IN)) as [m [Lm Rm]].
    exists d, m. repeat split; try assumption; try (now symmetry); try lia.
    intros ->. unfold fixed_by, targets_line in NF.
    rewrite (inv_obey _ _ _ INV d (main_In_raw _ _ _ _ IN)), Lm, Nat.eqb_refl in NF. cbn [andb] in NF.
    rewrite (inv_one _ _ _ INV d d0 n0 IN IN0 Lm L0), N.eqb_refl in NF. discriminate. }
  constructor.
  - intros d' IN. apply in_map_iff in IN. destruct IN as [d [<- IN]].
    destruct (inv_lined _ _ _ INV d IN) as [m [Lm Rm]]. cbn [shift_diag d_line]. rewrite Lm.
    eexists. split; [reflexivity|]. rewrite LEN. destruct (n0 <=? m); lia.
  - intros d' IN. apply in_map_iff in IN. destruct IN as [d [<- IN]]. cbn. exact (inv_obey _ _ _ INV d IN).
  - intros d' IN. apply in_map_iff in IN. destruct IN as [d [<- IN]]. cbn. exact (inv_codes _ _ _ INV d IN).
  - intros d' n' IN L'. destruct (ORIG d' IN) as [d [m [INd [-> [Lm [NE Rm]]]]]].
    cbn [shift_diag d_line] in L'. rewrite Lm in L'. inversion L' as [E']. clear L'.
    destruct (inv_pos _ _ _ INV d m INd Lm) as [P1 P2]. rewrite LL.
    destruct (n0 <=? m) eqn:GE.
    + apply Nat.leb_le in GE. destruct NL as [NL1 _]. split; [lia|]. intros E. lia.
    + apply Nat.leb_gt in GE. split; [exact P1|]. intros E.
      rewrite line_at_insert_line by nlia.
      replace (m - 1 <? n0 - 1) with true by (symmetry; apply Nat.ltb_lt; lia). now apply P2.
  - intros d' n' IN L' GE2. destruct (ORIG d' IN) as [d [m [INd [-> [Lm [NE Rm]]]]]].
    cbn [shift_diag d_line] in L'. rewrite Lm in L'. inversion L' as [E']. clear L'.
    rewrite line_at_insert_line by nlia.
    destruct (n0 <=? m) eqn:GE.
    + apply Nat.leb_le in GE.
      replace (S m - 2 <? n0 - 1) with false by (symmetry; apply Nat.ltb_ge; lia).
      replace (Nat.eqb (S m - 2) (n0 - 1)) with false by (symmetry; apply Nat.eqb_neq; lia).
      replace (S m - 2 - 1) with (m - 2) by lia. apply (inv_prev _ _ _ INV d m INd Lm). lia.
    + apply Nat.leb_gt in GE.
      replace (m - 2 <? n0 - 1) with true by (symmetry; apply Nat.ltb_lt; lia).
      apply (inv_prev _ _ _ INV d m INd Lm). lia.
  - intros d1' d2' n' IN1 IN2 L1 L2.
    destruct (ORIG d1' IN1) as [d1 [m1 [INd1 [-> [Lm1 _]]]]].
    destruct (ORIG d2' IN2) as [d2 [m2 [INd2 [-> [Lm2 _]]]]].
    cbn [shift_diag d_line d_code] in *. rewrite Lm1 in L1. rewrite Lm2 in L2.
    inversion L1 as [E1]. inversion L2 as [E2]. rewrite <- E2 in E1. apply shift_line_inj in E1. subst m2.
    exact (inv_one _ _ _ INV d1 d2 m1 INd1 INd2 Lm1 Lm2).
Qed.

(* ------------------------------------------------------------------ *)
(* 4. termination                                                      *)

Lemma filter_len_le : forall {A} (p : A -> bool) l, length (filter p l) <= length l.
Proof. intros A p l. induction l as [|y r IHr]; cbn; [lia|]. destruct (p y); cbn; lia. Qed.

Lemma filter_removes_one : forall {A} (p : A -> bool) l x, In x l -> p x = false ->
  length (filter p l) < length l.
Proof.
  intros A p l x. induction l as [|y r IHr]; intros IN PX; [contradiction|]. cbn.
  destruct IN as [->|IN].
  - rewrite PX. pose proof (filter_len_le p r). lia.
  - specialize (IHr IN PX). destruct (p y); cbn; lia.
Qed.

Lemma fix_step_none : forall st f raw, st U = false -> st B = false ->
  main IGN nm st f raw = [] -> fix_step IGN nm st U B f raw = None.
Proof. intros st f raw HU HB M. unfold fix_step. rewrite emit_no_tail, M by assumption. reflexivity. Qed.

Lemma fix_step_some : forall st f raw d0 rest n0, st U = false -> st B = false ->
  fix_inv st f raw -> main IGN nm st f raw = d0 :: rest -> d_line d0 = Some n0 ->
  fix_step IGN nm st U B f raw
  = Some (insert_line (n0 - 1) (comment_line IGN nm (indentation (line_at f (n0 - 1))) (Some (d_code d0))) f,
          map (shift_diag n0) raw).
Proof.
  intros st f raw d0 rest n0 HU HB INV M L0. unfold fix_step. rewrite emit_no_tail by assumption.
  destruct (first_lined_main st f raw d0 rest INV M) as [n [Ln FL]]. rewrite L0 in Ln. inversion Ln; subst n.
  rewrite FL. f_equal. f_equal. apply apply_add_ignore.
  assert (IN0 : In d0 (main IGN nm st f raw)) by (rewrite M; now left).
  destruct (inv_lined _ _ _ INV d0 (main_In_raw _ _ _ _ IN0)) as [n [Ln' R]]. rewrite L0 in Ln'. inversion Ln'. now subst.
Qed.

Theorem add_ignores_terminates : forall k st f raw,
  st U = false -> st B = false ->
  fix_inv st f raw -> length (main IGN nm st f raw) <= k ->
  exists f' raw',
    iterate IGN nm k st U B f raw = Some (f', raw') /\
    emit IGN nm st f' U B raw' = [] /\
    code_lines f' = code_lines f.
Proof.
  induction k as [|k IHk]; intros st f raw HU HB INV LE.
  - destruct (main IGN nm st f raw) as [|d0 rest] eqn:M; [|cbn in LE; lia].
    exists f, raw. cbn [iterate]. rewrite (fix_step_none st f raw HU HB M).
    split; [reflexivity|]. split; [|reflexivity]. now rewrite emit_no_tail, M.
  - destruct (main IGN nm st f raw) as [|d0 rest] eqn:M.
    + exists f, raw. cbn [iterate]. rewrite (fix_step_none st f raw HU HB M).
      split; [reflexivity|]. split; [|reflexivity]. now rewrite emit_no_tail, M.
    + destruct (first_lined_main st f raw d0 rest INV M) as [n0 [L0 _]].
      set (C := comment_line IGN nm (indentation (line_at f (n0 - 1))) (Some (d_code d0))).
      pose proof (fix_step_inv st f raw d0 rest n0 INV M L0) as INV'. fold C in INV'.
      pose proof (fix_step_main st f raw d0 rest n0 INV M L0) as MAIN. fold C in MAIN.
      assert (LT : length (main IGN nm st (insert_line (n0 - 1) C f) (map (shift_diag n0) raw)) <= k).
      { rewrite MAIN, map_length.
        assert (length (filter (fun d => negb (fixed_by n0 (d_code d0) d)) (main IGN nm st f raw))
                < length (main IGN nm st f raw)).
        { apply (filter_removes_one _ _ d0); [rewrite M; now left|].
          unfold fixed_by, targets_line. rewrite L0, Nat.eqb_refl, N.eqb_refl.
          assert (IN0 : In d0 (main IGN nm st f raw)) by (rewrite M; now left).
          now rewrite (inv_obey _ _ _ INV d0 (main_In_raw _ _ _ _ IN0)). }
        assert (LEN : length (main IGN nm st f raw) <= S k) by (rewrite M; exact LE).
        lia. }
      destruct (IHk st _ _ HU HB INV' LT) as [f' [raw' [IT [EM CL]]]].
      exists f', raw'. cbn [iterate]. rewrite (fix_step_some st f raw d0 rest n0 HU HB INV M L0). fold C.
      split; [exact IT|]. split; [exact EM|]. rewrite CL. apply code_lines_insert, comment_line_comment_only.
Qed.

(* ------------------------------------------------------------------ *)
(* 5. the guard as a boolean (evaluated by the harness on every case)   *)

Definition line_of (d : diag) : nat := match d_line d with Some n => n | None => 0 end.

Definition base_okb (f : file) (raw : list diag) : bool :=
  forallb (fun d => match d_line d with Some n => (1 <=? n) && (n <=? length f) | None => false end
                    && d_obey d && (d_code d <? n_codes)%N) raw.

(* clause `first_code_line`: the comment would land at column 0 directly below the leading '#' block *)
Definition pos_okb (f : file) (d : diag) : bool :=
  let n := line_of d in
  (leading_len f <=? n - 1)
  && (negb (Nat.eqb (leading_len f) (n - 1)) || negb (Nat.eqb (indentation (line_at f (n - 1))) 0)).
(* clause `comment_above`: the line above is already an own-line ignore comment *)
Definition prev_okb (f : file) (d : diag) : bool :=
  let n := line_of d in (n <? 2) || negb (own_any IGN (line_at f (n - 2))).
(* clause `two_codes_one_line` *)
Definition one_okb (M : list diag) (d : diag) : bool :=
  forallb (fun d2 => negb (Nat.eqb (line_of d2) (line_of d)) || N.eqb (d_code d2) (d_code d)) M.

Definition fix_guardb (st : settings) (f : file) (raw : list diag) : bool :=
  base_okb f raw
  && let M := main IGN nm st f raw in
     forallb (fun d => pos_okb f d && prev_okb f d && one_okb M d) M.

Theorem fix_guardb_sound : forall st f raw, fix_guardb st f raw = true -> fix_inv st f raw.
Proof.
  intros st f raw G. unfold fix_guardb in G. apply andb_true_iff in G. destruct G as [BO MG].
  unfold base_okb in BO. rewrite forallb_forall in BO. rewrite forallb_forall in MG.
  assert (BASE : forall d, In d raw ->
            (exists n, d_line d = Some n /\ 1 <= n <= length f) /\ d_obey d = true /\ (d_code d < n_codes)%N).
  { intros d IN. specialize (BO d IN). apply andb_true_iff in BO. destruct BO as [BO C].
    apply andb_true_iff in BO. destruct BO as [L O]. destruct (d_line d) as [n|]; [|discriminate].
    apply andb_true_iff in L. destruct L as [L1 L2]. apply Nat.leb_le in L1. apply Nat.leb_le in L2.
    apply N.ltb_lt in C. split; [exists n; split; [reflexivity|lia]|]. split; assumption. }
  constructor.
  - intros d IN. apply BASE, IN.
  - intros d IN. apply BASE, IN.
  - intros d IN. apply BASE, IN.
  - intros d n IN L. specialize (MG d IN). apply andb_true_iff in MG. destruct MG as [MG _].
    apply andb_true_iff in MG. destruct MG as [P _]. unfold pos_okb, line_of in P. rewrite L in P.
    apply andb_true_iff in P. destruct P as [P1 P2]. apply Nat.leb_le in P1. split; [exact P1|].
    intros E. apply orb_true_iff in P2. destruct P2 as [P2|P2]; apply negb_true_iff in P2.
    + apply Nat.eqb_neq in P2. contradiction.
    + now apply Nat.eqb_neq in P2.
  - intros d n IN L GE. specialize (MG d IN). apply andb_true_iff in MG. destruct MG as [MG _].
    apply andb_true_iff in MG. destruct MG as [_ P]. unfold prev_okb, line_of in P. rewrite L in P.
    apply orb_true_iff in P. destruct P as [P|P]; [apply Nat.ltb_lt in P; lia|now apply negb_true_iff in P].
  - intros d1 d2 n IN1 IN2 L1 L2. specialize (MG d2 IN2). apply andb_true_iff in MG. destruct MG as [_ P].
    unfold one_okb in P. rewrite forallb_forall in P. specialize (P d1 IN1). unfold line_of in P.
    rewrite L1, L2, Nat.eqb_refl in P. cbn in P. now apply N.eqb_eq.
Qed.

(* ------------------------------------------------------------------ *)
(* 6. witnesses: what happens outside the guard                         *)

Definition all_but_tail : settings := fun c => negb (N.eqb c U) && negb (N.eqb c B).

(* two codes on one line: each new comment pushes the previous one away from
   the line; the loop is still running when the iteration limit is reached *)
Definition two_codes_file : file := [[100%N]; [32%N; 32%N; 120%N]].
Definition two_codes_raw : list diag := [mk_diag 1 3 (Some 2) 2 true; mk_diag 2 9 (Some 2) 6 true].

Lemma two_codes_diverges : iterate IGN nm 150 all_but_tail U B two_codes_file two_codes_raw = None
  /\ base_okb two_codes_file two_codes_raw = true
  /\ fix_guardb all_but_tail two_codes_file two_codes_raw = false.
Proof. vm_compute. auto. Qed.

(* a reported line directly below the (possibly empty) leading '#' block, at column 0:
   the inserted comment is a file-level ignore and silences a diagnostic two lines below *)
Definition first_line_file : file := [[120%N]; [121%N]; [122%N]].
Definition first_line_raw : list diag := [mk_diag 1 3 (Some 1) 0 true; mk_diag 2 3 (Some 3) 0 true].

Lemma first_line_becomes_file_level :
  exists f' raw', fix_step IGN nm all_but_tail U B first_line_file first_line_raw = Some (f', raw')
    /\ main IGN nm all_but_tail first_line_file first_line_raw = first_line_raw
    /\ main IGN nm all_but_tail f' raw' = []
    /\ base_okb first_line_file first_line_raw = true
    /\ fix_guardb all_but_tail first_line_file first_line_raw = false.
Proof. eexists. eexists. vm_compute. repeat split. Qed.

(* with unused_ignore enabled the loop never ends either: the report for an
   unused comment ignores ignore comments, yet a comment is added for it *)
Definition unused_file : file := [[100%N]; [32%N; 32%N; 120%N; 32%N] ++ tag IGN nm 8%N].
Definition unused_raw : list diag := [].

Lemma unused_ignore_enabled_diverges :
  iterate IGN nm 150 (fun c => negb (N.eqb c B)) U B unused_file unused_raw = None.
Proof. vm_compute. reflexivity. Qed.

(* the guard is satisfiable by a non-trivial input: three diagnostics, two codes, three lines *)
Definition ok_file : file := [[100%N]; [32%N; 32%N; 120%N]; [32%N; 32%N; 121%N]; []; [32%N; 32%N; 122%N]].
Definition ok_raw : list diag :=
  [mk_diag 1 3 (Some 2) 2 true; mk_diag 2 9 (Some 3) 2 true; mk_diag 3 3 (Some 5) 2 true; mk_diag 4 3 (Some 5) 4 true].

Lemma guard_inhabited :
  fix_guardb all_but_tail ok_file ok_raw = true /\ length (main IGN nm all_but_tail ok_file ok_raw) = 4
  /\ exists f' raw', iterate IGN nm 4 all_but_tail U B ok_file ok_raw = Some (f', raw') /\ length f' = 8.
Proof. split; [vm_compute; reflexivity|]. split; [vm_compute; reflexivity|]. eexists. eexists. vm_compute. split; reflexivity. Qed.
