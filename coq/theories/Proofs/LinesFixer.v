(* Proofs/LinesFixer.v — the add-ignores iteration (C16), on the model
   instantiated with the constants generated from the source. *)
From Coq Require Import List Bool NArith Arith Lia.
Import ListNotations.
Require Import PV.Lines.Text PV.Lines.Suppress PV.Lines.Place PV.Lines.Fixer.
Require Import PV.Proofs.LinesSuppress PV.Proofs.LinesPlace PV.Proofs.LinesText.
Require Import PV.Gen.Codes.

Notation IGN := IGNORE_COMMENT.
Notation nm := code_name.
Notation U := unused_ignore_code.
Notation B := bare_ignore_code.

Ltac nlia := unfold file, line in *; lia.

(* ------------------------------------------------------------------ *)
(* 1. applying the add-ignore replacement = inserting the comment line  *)

Lemma del_at_app : forall {A} (a : list A) x b, del_at (length a) (a ++ x :: b) = a ++ b.
Proof. intros A a x b. induction a as [|y a IH]; cbn; [reflexivity|now rewrite IH]. Qed.

Lemma firstn_S_nth : forall {A} (l : list A) i d, i < length l ->
  firstn (S i) l = firstn i l ++ [nth i l d].
Proof.
  intros A l. induction l as [|x l IH]; intros i d H; cbn in H; [lia|].
  destruct i as [|i]; [reflexivity|]. cbn [firstn nth app]. f_equal. apply IH. lia.
Qed.

Lemma skipn_nth_cons : forall {A} (l : list A) i d, i < length l ->
  skipn i l = nth i l d :: skipn (S i) l.
Proof.
  intros A l. induction l as [|x l IH]; intros i d H; cbn in H; [lia|].
  destruct i as [|i]; [reflexivity|]. cbn [skipn nth]. apply IH. lia.
Qed.

Theorem apply_own_line : forall f ln C rest, 1 <= ln <= length f ->
  apply_changes (mk_repl [ln] (Some [C; line_at f (ln - 1)]) :: rest) f = insert_line (ln - 1) C f.
Proof.
  intros f ln C rest H. unfold apply_changes.
  cbn [r_add r_del list_max fold_right sort_desc insert_desc fold_left].
  rewrite Nat.max_0_r. unfold insert_line, line_at.
  replace ln with (S (ln - 1)) at 1 2 by lia.
  rewrite (firstn_S_nth f (ln - 1) []) by nlia.
  rewrite (skipn_nth_cons f (ln - 1) []) by nlia.
  replace (S (ln - 1)) with ln by lia.
  rewrite <- app_assoc. cbn [app].
  assert (L : length (firstn (ln - 1) f) = ln - 1) by (rewrite firstn_length; nlia).
  rewrite <- L at 1. rewrite L. rewrite <- L at 1.
  now rewrite del_at_app.
Qed.

Theorem apply_trailing : forall f ln X rest, 1 <= ln <= length f ->
  apply_changes (mk_repl [ln] (Some [X]) :: rest) f = set_line (ln - 1) X f.
Proof.
  intros f ln X rest H. unfold apply_changes.
  cbn [r_add r_del list_max fold_right sort_desc insert_desc fold_left].
  rewrite Nat.max_0_r. unfold set_line.
  replace ln with (S (ln - 1)) at 1 2 by lia.
  rewrite (firstn_S_nth f (ln - 1) []) by nlia.
  replace (S (ln - 1)) with ln by lia.
  rewrite <- app_assoc. cbn [app].
  assert (L : length (firstn (ln - 1) f) = ln - 1) by (rewrite firstn_length; nlia).
  rewrite <- L at 1. rewrite L. rewrite <- L at 1.
  rewrite del_at_app. replace (S (ln - 1)) with ln by lia. reflexivity.
Qed.

Theorem apply_add_ignore : forall f ln c rest, 1 <= ln <= length f ->
  apply_changes (add_ignore_repl IGN nm f ln c :: rest) f
  = if use_trailing IGN f ln
    then set_line (ln - 1) (trail_line IGN nm (line_at f (ln - 1)) c) f
    else insert_line (ln - 1) (comment_line IGN nm (indentation (line_at f (ln - 1))) (Some c)) f.
Proof.
  intros f ln c rest H. unfold add_ignore_repl. destruct (use_trailing IGN f ln).
  - now apply apply_trailing.
  - now apply apply_own_line.
Qed.

(* whatever the replacement, nothing outside the touched range moves: the
   lines before the first deleted line and after the last one are kept *)
Lemma del_at_firstn : forall {A} (l : list A) i k, k <= i -> firstn k (del_at i l) = firstn k l.
Proof.
  intros A l. induction l as [|x l IH]; intros i k H; [now destruct i|].
  destruct i as [|i]; [replace k with 0 by lia; reflexivity|].
  destruct k as [|k]; [reflexivity|]. cbn. f_equal. apply IH. lia.
Qed.

Lemma fold_del_firstn : forall (dels : list nat) (l : file) k,
  (forall d, In d dels -> k <= d - 1) ->
  firstn k (fold_left (fun ls lineno => del_at (lineno - 1) ls) dels l) = firstn k l.
Proof.
  induction dels as [|d r IH]; intros l k H; cbn [fold_left]; [reflexivity|].
  rewrite IH by (intros; apply H; now right). apply del_at_firstn. apply H. now left.
Qed.

Lemma In_insert_desc : forall x y l, In y (insert_desc x l) <-> y = x \/ In y l.
Proof.
  intros x y l. induction l as [|z r IHr].
  - cbn. split; [intros [H|[]]; left; now symmetry|intros [H|[]]; left; now symmetry].
  - cbn [insert_desc]. destruct (z <? x).
    + cbn [In]. split; [intros [H|H]; [left; now symmetry|now right]|intros [H|H]; [left; now symmetry|now right]].
    + cbn [In]. rewrite IHr. tauto.
Qed.

Lemma In_sort_desc : forall y l, In y (sort_desc l) <-> In y l.
Proof.
  intros y l. induction l as [|x r IHr]; [cbn; tauto|].
  unfold sort_desc in *. cbn [fold_right]. rewrite In_insert_desc, IHr. cbn [In].
  split; [intros [H|H]; [left; now symmetry|now right]|intros [H|H]; [left; now symmetry|now right]].
Qed.

Lemma list_max_ge : forall l x, In x l -> x <= list_max l.
Proof.
  induction l as [|y r IHr]; intros x H; [contradiction|]. cbn [list_max fold_right].
  destruct H as [->|H]; [apply Nat.le_max_l|].
  specialize (IHr x H). unfold list_max in IHr. etransitivity; [exact IHr|apply Nat.le_max_r].
Qed.

Theorem apply_keeps_prefix : forall change rest (f : file) k,
  r_del change <> [] ->
  (forall d, In d (r_del change) -> k < d <= length f) ->
  firstn k (apply_changes (change :: rest) f) = firstn k f.
Proof.
  intros change rest f k NE H. unfold apply_changes.
  destruct (r_add change) as [adds|]; [|reflexivity].
  rewrite fold_del_firstn.
  - assert (M : k <= list_max (r_del change) <= length f).
    { destruct (r_del change) as [|d0 r0] eqn:E; [congruence|].
      split.
      - pose proof (list_max_ge (d0 :: r0) d0 (or_introl eq_refl)). specialize (H d0 (or_introl eq_refl)). lia.
      - apply list_max_le. apply Forall_forall. intros x IN. apply H in IN. lia. }
    rewrite firstn_app, firstn_firstn, firstn_length.
    replace (Nat.min k (list_max (r_del change))) with k by lia.
    replace (k - Nat.min (list_max (r_del change)) (length f)) with 0 by nlia.
    cbn. now rewrite app_nil_r.
  - intros d IN. apply (proj1 (In_sort_desc _ _)) in IN. apply H in IN. lia.
Qed.

(* ... and the lines after the last deleted line are kept too: the result is
   (what is left of the first max_line lines) ++ additions ++ (the lines after max_line) *)
From Coq Require Import Sorted.

Definition desc := StronglySorted (fun a b : nat => b < a).

Lemma insert_desc_sorted : forall x l, desc l -> ~ In x l -> desc (insert_desc x l).
Proof.
  intros x l. induction l as [|y r IHr]; intros S NI; cbn [insert_desc].
  - constructor; constructor.
  - inversion S as [|? ? Sr Fr]; subst. destruct (y <? x) eqn:E.
    + apply Nat.ltb_lt in E. constructor; [exact S|]. constructor; [exact E|].
      eapply Forall_impl; [|exact Fr]. cbn. intros a H. lia.
    + apply Nat.ltb_ge in E. assert (x <> y) by (intros ->; apply NI; now left).
      constructor.
      * apply IHr; [exact Sr|]. intros IN. apply NI. now right.
      * apply Forall_forall. intros a IN. apply In_insert_desc in IN. destruct IN as [->|IN]; [lia|].
        rewrite Forall_forall in Fr. now apply Fr.
Qed.

Lemma sort_desc_sorted : forall l, NoDup l -> desc (sort_desc l).
Proof.
  induction l as [|x r IHr]; intros ND; [constructor|]. inversion ND; subst.
  unfold sort_desc in *. cbn [fold_right]. apply insert_desc_sorted; [now apply IHr|].
  intros IN. apply (proj1 (In_sort_desc _ _)) in IN. contradiction.
Qed.

Lemma sort_desc_length : forall l, length (sort_desc l) = length l.
Proof.
  assert (I : forall x l, length (insert_desc x l) = S (length l)).
  { intros x l. induction l as [|y r IHr]; [reflexivity|]. cbn [insert_desc]. destruct (y <? x); cbn [length]; [reflexivity|now rewrite IHr]. }
  induction l as [|x r IHr]; [reflexivity|]. unfold sort_desc in *. cbn [fold_right]. now rewrite I, IHr.
Qed.

Lemma del_at_app_l : forall {A} (a b : list A) i, i < length a -> del_at i (a ++ b) = del_at i a ++ b.
Proof.
  intros A a. induction a as [|x a IHa]; intros b i H; cbn in H; [lia|].
  destruct i as [|i]; [reflexivity|]. cbn. f_equal. apply IHa. lia.
Qed.

Lemma del_at_length : forall {A} (a : list A) i, i < length a -> length (del_at i a) = length a - 1.
Proof.
  intros A a. induction a as [|x a IHa]; intros i H; cbn in H; [lia|].
  destruct i as [|i]; cbn; [lia|]. rewrite IHa by lia. lia.
Qed.

Lemma fold_del_app : forall (ds : list nat) (a b : file),
  desc ds -> (forall d, In d ds -> 1 <= d <= length a) ->
  fold_left (fun ls lineno => del_at (lineno - 1) ls) ds (a ++ b)
  = fold_left (fun ls lineno => del_at (lineno - 1) ls) ds a ++ b
  /\ length (fold_left (fun ls lineno => del_at (lineno - 1) ls) ds a) = length a - length ds.
Proof.
  induction ds as [|d r IHr]; intros a b S R; cbn [fold_left length]; [split; [reflexivity|lia]|].
  inversion S as [|? ? Sr Fr]; subst.
  assert (Rd : 1 <= d <= length a) by (apply R; now left).
  rewrite del_at_app_l by nlia.
  assert (R' : forall d', In d' r -> 1 <= d' <= length (del_at (d - 1) a)).
  { intros d' IN. rewrite del_at_length by nlia. rewrite Forall_forall in Fr. specialize (Fr d' IN).
    specialize (R d' (or_intror IN)). nlia. }
  destruct (IHr (del_at (d - 1) a) b Sr R') as [E L]. split; [exact E|].
  rewrite L, del_at_length by nlia. nlia.
Qed.

Theorem apply_shape : forall change rest (f : file) adds,
  r_add change = Some adds -> r_del change <> [] -> NoDup (r_del change) ->
  (forall d, In d (r_del change) -> 1 <= d <= length f) ->
  exists pre,
    apply_changes (change :: rest) f = pre ++ adds ++ skipn (list_max (r_del change)) f
    /\ length pre = list_max (r_del change) - length (r_del change).
Proof.
  intros change rest f adds HA NE ND R. unfold apply_changes. rewrite HA.
  set (m := list_max (r_del change)).
  assert (M : m <= length f).
  { apply list_max_le. apply Forall_forall. intros x IN. apply R in IN. lia. }
  assert (LF : length (firstn m f) = m) by (rewrite firstn_length; nlia).
  destruct (fold_del_app (sort_desc (r_del change)) (firstn m f) (adds ++ skipn m f)) as [E L].
  - apply sort_desc_sorted, ND.
  - intros d IN. apply (proj1 (In_sort_desc _ _)) in IN. rewrite LF.
    split; [apply R in IN; lia|]. now apply list_max_ge.
  - rewrite E. eexists. split; [reflexivity|]. rewrite L, LF, sort_desc_length. reflexivity.
Qed.

(* the lines after the last deleted one are exactly the old ones *)
Corollary apply_keeps_suffix : forall change rest (f : file) adds,
  r_add change = Some adds -> r_del change <> [] -> NoDup (r_del change) ->
  (forall d, In d (r_del change) -> 1 <= d <= length f) ->
  skipn (list_max (r_del change) - length (r_del change) + length adds) (apply_changes (change :: rest) f)
  = skipn (list_max (r_del change)) f.
Proof.
  intros change rest f adds HA NE ND R.
  destruct (apply_shape change rest f adds HA NE ND R) as [pre [E L]]. rewrite E.
  rewrite app_assoc. rewrite skipn_app.
  assert (LL : length (pre ++ adds) = list_max (r_del change) - length (r_del change) + length adds)
    by (rewrite app_length; lia).
  rewrite <- LL. rewrite skipn_all, Nat.sub_diag. reflexivity.
Qed.

(* the replacement that replace_node / remove_node build for a statement spanning lines a..b
   (get_line_range_for_node returns the consecutive range): everything outside [a, b] is kept,
   the range is replaced by the new lines *)
Lemma list_max_seq : forall n a, list_max (seq a (S n)) = a + n.
Proof.
  induction n as [|n IH]; intros a.
  - cbn. lia.
  - change (seq a (S (S n))) with (a :: seq (S a) (S n)). cbn [list_max fold_right].
    change (fold_right Nat.max 0 (seq (S a) (S n))) with (list_max (seq (S a) (S n))). rewrite IH. lia.
Qed.

Theorem apply_range : forall (f : file) a b adds rest,
  1 <= a -> a <= b -> b <= length f ->
  apply_changes (mk_repl (seq a (S (b - a))) (Some adds) :: rest) f
  = firstn (a - 1) f ++ adds ++ skipn b f.
Proof.
  intros f a b adds rest A1 AB BL.
  set (ch := mk_repl (seq a (S (b - a))) (Some adds)).
  assert (R : forall d, In d (r_del ch) -> a <= d <= b).
  { intros d IN. unfold ch in IN. cbn [r_del] in IN. apply in_seq in IN. lia. }
  assert (NE : r_del ch <> []) by (unfold ch; cbn [r_del seq]; discriminate).
  assert (MX : list_max (r_del ch) = b) by (unfold ch; cbn [r_del]; rewrite list_max_seq; lia).
  destruct (apply_shape ch rest f adds eq_refl NE (seq_NoDup _ _)) as [pre [E L]].
  { intros d IN. apply R in IN. nlia. }
  rewrite MX in E, L. unfold ch in L. cbn [r_del] in L. rewrite seq_length in L.
  pose proof (apply_keeps_prefix ch rest f (a - 1) NE) as P.
  rewrite E in P. rewrite firstn_app in P.
  replace (a - 1 - length pre) with 0 in P by lia. rewrite firstn_O, app_nil_r in P.
  rewrite firstn_all2 in P by lia.
  rewrite E. f_equal. apply P. intros d IN. apply R in IN. nlia.
Qed.

(* ------------------------------------------------------------------ *)
(* 2. the inserted line is a comment: code lines are untouched         *)

Lemma ign_head : IGN = 35%N :: tl IGN.
Proof. reflexivity. Qed.

Lemma comment_line_comment_only : forall k c, comment_only (comment_line IGN nm k c) = true.
Proof.
  intros k c. unfold comment_only, comment_line. rewrite lstrip_spaces.
  destruct c as [c|]; [unfold tag|]; rewrite ign_head; reflexivity.
Qed.

Lemma code_lines_insert : forall i C f, comment_only C = true ->
  code_lines (insert_line i C f) = code_lines f.
Proof.
  intros i C f H. unfold code_lines, insert_line. rewrite filter_app. cbn [filter]. rewrite H. cbn [negb].
  rewrite <- filter_app. now rewrite firstn_skipn.
Qed.

(* ------------------------------------------------------------------ *)
(* 3. one step                                                         *)

Lemma emit_no_tail : forall st f raw, st U = false -> st B = false ->
  emit IGN nm st f U B raw = main IGN nm st f raw.
Proof.
  intros st f raw HU HB. unfold emit, main.
  assert (T : forall code ls, st code = false ->
            flat_map (fun il : nat * line => tail_step IGN nm st f (fake IGN code (fst il) (snd il))) ls = []).
  { intros code ls H. induction ls as [|a r IHr]; [reflexivity|]. cbn [flat_map]. rewrite IHr.
    unfold tail_step. cbn [d_code fake]. now rewrite H. }
  unfold tail_unused, tail_bare. rewrite T by assumption.
  destruct (file_level IGN nm f None); [now rewrite app_nil_r|]. rewrite T by assumption. now rewrite app_nil_r.
Qed.

Lemma sublist_In : forall {A} (a b : list A) x, sublist a b -> In x a -> In x b.
Proof.
  intros A a b x H. induction H; intros IN; [assumption|right; auto|].
  destruct IN as [->|IN]; [now left|right; auto].
Qed.

Lemma main_In_raw : forall st f raw d, In d (main IGN nm st f raw) -> In d raw.
Proof. intros st f raw d. apply sublist_In, main_order_preserved. Qed.

Lemma own_hit_own_any : forall l c, own_any IGN l = false -> own_hit IGN nm l c = false.
Proof.
  intros l c H. unfold own_hit, own_bare, own_tag, own_any in *.
  assert (P : forall t, list_N_eqb (strip l) (IGN ++ t) = false).
  { intros t. destruct (list_N_eqb (strip l) (IGN ++ t)) eqn:E; [|reflexivity].
    apply list_N_eqb_eq in E. rewrite E in H.
    assert (Q : forall a b, prefix a (a ++ b) = true).
    { induction a as [|x a IHa]; intros b; cbn; [reflexivity|]. now rewrite N.eqb_refl, IHa. }
    now rewrite Q in H. }
  rewrite <- (app_nil_r IGN) at 1. rewrite P. unfold tag. now rewrite P.
Qed.

Lemma leading_len_insert : forall f i C, i <= length f -> not_leading f i C ->
  leading_len (insert_line i C f) = leading_len f.
Proof.
  induction f as [|l r IH]; intros i C LE [N1 N2].
  - cbn in LE. assert (i = 0) by lia. subst. unfold insert_line. cbn. now rewrite N2.
  - destruct i as [|i]; unfold insert_line; cbn [firstn skipn app leading_len].
    + cbn in N1, N2. destruct (starts_hash l) eqn:HL; [lia|]. now rewrite N2.
    + cbn in N1, N2. destruct (starts_hash l) eqn:HL; [|reflexivity]. f_equal.
      apply (IH i C); [cbn in LE; lia|]. split; [lia|]. intros E. apply N2. lia.
Qed.

(* ------------------------------------------------------------------ *)
(* the invariant: reported lines are ordinary code lines                 *)

Definition code_line (l : line) : Prop :=
  starts_hash l = false /\ (forall c, own_hit IGN nm l c = false) /\ lstrip l <> []
  /\ ends_backslash (rstrip l) = false.

Record fix_inv (f : file) (raw : list diag) : Prop := {
  inv_lined : forall d, In d raw -> exists n, d_line d = Some n /\ 1 <= n <= length f;
  inv_obey : forall d, In d raw -> d_obey d = true;
  inv_codes : forall d, In d raw -> (d_code d < n_codes)%N;
  inv_line : forall d n, In d raw -> d_line d = Some n -> code_line (line_at f (n - 1))
}.

Definition fixed_by (n0 : nat) (c0 : N) (d : diag) : bool := targets_line n0 d && N.eqb (d_code d) c0.

Lemma main_kept : forall st f raw d, In d (main IGN nm st f raw) -> kept IGN nm f d = true.
Proof.
  intros st f raw d IN. rewrite main_is_projection in IN. unfold main_spec in IN.
  apply filter_In in IN. tauto.
Qed.

Lemma leading_len_le : forall f i, i < length f -> starts_hash (line_at f i) = false -> leading_len f <= i.
Proof.
  induction f as [|l r IH]; intros i L H; cbn in L; [lia|]. unfold line_at in *.
  destruct i as [|i]; cbn in *; [now rewrite H|]. destruct (starts_hash l); [|lia].
  apply le_n_S. apply IH; [lia|exact H].
Qed.

Lemma leading_forall : forall f, forallb starts_hash (firstn (leading_len f) f) = true.
Proof.
  induction f as [|l r IH]; [reflexivity|]. cbn [leading_len]. destruct (starts_hash l) eqn:E; [|reflexivity].
  cbn [firstn forallb]. now rewrite E, IH.
Qed.

(* ------------------------------------------------------------------ *)
(* a trailing comment on line n                                         *)

Lemma trailing_step_main : forall st f raw n L',
  well_lined raw -> 1 <= n <= length f ->
  starts_hash (line_at f (n - 1)) = false -> starts_hash L' = false ->
  (forall c, own_hit IGN nm (line_at f (n - 1)) c = false) -> (forall c, own_hit IGN nm L' c = false) ->
  (forall d, In d raw -> trailing_hit IGN nm (line_at f (n - 1)) (d_code d) = true ->
             trailing_hit IGN nm L' (d_code d) = true) ->
  main IGN nm st (set_line (n - 1) L' f) raw
  = filter (fun d => negb (targets_line n d && trailing_hit IGN nm L' (d_code d)
                           && negb (trailing_hit IGN nm (line_at f (n - 1)) (d_code d))))
           (main IGN nm st f raw).
Proof.
  intros st f raw n L' WL RNG H1 H2 OW OW' MONO.
  apply (main_change_kept IGN nm).
  - intros c. unfold file_level. apply (fl_scan_set_line IGN nm); [nlia|exact H1|exact H2].
  - intros d IN. specialize (WL d IN). specialize (MONO d IN).
    unfold trailing_hit, own_hit in *.
    unfold kept, suppressor, targets_line.
    destruct (d_obey d); cbn [andb]; [|reflexivity].
    destruct (d_line d) as [ln|]; [|reflexivity].
    assert (ln <> 0) by (intros ->; now apply WL). clear WL.
    unfold line_ignore.
    rewrite !(line_at_set_line) by nlia.
    destruct (Nat.eqb ln n) eqn:E.
    + apply Nat.eqb_eq in E. subst ln. rewrite Nat.eqb_refl.
      destruct (has_bare IGN (line_at f (n - 1)) || has_tag IGN nm (d_code d) (line_at f (n - 1))) eqn:HL.
      * rewrite (MONO eq_refl). reflexivity.
      * destruct (has_bare IGN L' || has_tag IGN nm (d_code d) L'); cbn [andb negb]; [now rewrite andb_false_r|].
        rewrite andb_true_r.
        destruct (2 <=? n) eqn:L2; cbn [andb]; [|reflexivity]. apply Nat.leb_le in L2.
        replace (Nat.eqb (n - 2) (n - 1)) with false by (symmetry; apply Nat.eqb_neq; nlia).
        reflexivity.
    + apply Nat.eqb_neq in E.
      replace (Nat.eqb (ln - 1) (n - 1)) with false by (symmetry; apply Nat.eqb_neq; nlia).
      cbn [andb negb]. rewrite andb_true_r.
      destruct (has_bare IGN (line_at f (ln - 1)) || has_tag IGN nm (d_code d) (line_at f (ln - 1))); [reflexivity|].
      destruct (2 <=? ln) eqn:L2; cbn [andb]; [|reflexivity]. apply Nat.leb_le in L2.
      destruct (Nat.eqb (ln - 2) (n - 1)) eqn:E2; [|reflexivity].
      apply Nat.eqb_eq in E2. rewrite E2. now rewrite OW', OW.
Qed.

(* ------------------------------------------------------------------ *)
(* one step                                                             *)

Lemma first_lined_main : forall st f raw d0 rest, fix_inv f raw ->
  main IGN nm st f raw = d0 :: rest ->
  exists n0, d_line d0 = Some n0 /\ first_lined (main IGN nm st f raw) = Some d0 /\ 1 <= n0 <= length f
             /\ d_obey d0 = true /\ (d_code d0 < n_codes)%N /\ code_line (line_at f (n0 - 1)).
Proof.
  intros st f raw d0 rest INV M.
  assert (IN0 : In d0 (main IGN nm st f raw)) by (rewrite M; now left).
  pose proof (main_In_raw _ _ _ _ IN0) as INR.
  destruct (inv_lined _ _ INV d0 INR) as [n0 [L0 R0]].
  exists n0. split; [exact L0|]. split.
  - rewrite M. unfold first_lined. cbn [find]. now rewrite L0.
  - split; [exact R0|]. split; [exact (inv_obey _ _ INV d0 INR)|]. split; [exact (inv_codes _ _ INV d0 INR)|].
    exact (inv_line _ _ INV d0 n0 INR L0).
Qed.

Definition step_file (f : file) (n0 : nat) (c0 : N) : file :=
  if use_trailing IGN f n0
  then set_line (n0 - 1) (trail_line IGN nm (line_at f (n0 - 1)) c0) f
  else insert_line (n0 - 1) (comment_line IGN nm (indentation (line_at f (n0 - 1))) (Some c0)) f.
Definition step_raw (f : file) (n0 : nat) (raw : list diag) : list diag :=
  if use_trailing IGN f n0 then raw else map (shift_diag n0) raw.
Definition step_shift (f : file) (n0 : nat) (d : diag) : diag :=
  if use_trailing IGN f n0 then d else shift_diag n0 d.

Lemma fix_step_some : forall st f raw d0 rest, st U = false -> st B = false ->
  fix_inv f raw -> main IGN nm st f raw = d0 :: rest ->
  exists n0, d_line d0 = Some n0 /\
    fix_step IGN nm st U B f raw = Some (step_file f n0 (d_code d0), step_raw f n0 raw).
Proof.
  intros st f raw d0 rest HU HB INV M.
  destruct (first_lined_main st f raw d0 rest INV M) as [n0 [L0 [FL [R0 [OB _]]]]].
  exists n0. split; [exact L0|]. unfold fix_step. rewrite emit_no_tail by assumption.
  rewrite FL, L0, OB. cbn [negb]. unfold step_file, step_raw. rewrite apply_add_ignore by exact R0. reflexivity.
Qed.

Lemma fix_step_none : forall st f raw, st U = false -> st B = false ->
  main IGN nm st f raw = [] -> fix_step IGN nm st U B f raw = None.
Proof. intros st f raw HU HB M. unfold fix_step. rewrite emit_no_tail, M by assumption. reflexivity. Qed.

Lemma well_lined_inv : forall f raw, fix_inv f raw -> well_lined raw.
Proof. intros f raw INV d IN E. destruct (inv_lined _ _ INV d IN) as [n [L R]]. rewrite E in L. inversion L. lia. Qed.

(* what the step does to the reported diagnostics: exactly the ones on the reported line with the
   reported code disappear (and, for a comment line, everything moves down with its line) *)
Theorem fix_step_main : forall st f raw d0 rest n0,
  fix_inv f raw -> main IGN nm st f raw = d0 :: rest -> d_line d0 = Some n0 ->
  main IGN nm st (step_file f n0 (d_code d0)) (step_raw f n0 raw)
  = map (step_shift f n0) (filter (fun d => negb (fixed_by n0 (d_code d0) d)) (main IGN nm st f raw)).
Proof.
  intros st f raw d0 rest n0 INV M L0.
  destruct (first_lined_main st f raw d0 rest INV M) as [n [Ln [_ [R0 [OB [HC0 CL]]]]]].
  rewrite L0 in Ln. inversion Ln; subst n. clear Ln.
  destruct CL as [SH [OWN [NBL EB]]].
  pose proof (well_lined_inv _ _ INV) as WL.
  unfold step_file, step_raw, step_shift. destruct (use_trailing IGN f n0) eqn:UT.
  - (* trailing comment *)
    destruct (trail_line_shape (line_at f (n0 - 1)) (d_code d0) NBL SH) as [SH' [OWN' _]].
    rewrite (trailing_step_main st f raw n0 _ WL R0 SH SH' OWN OWN').
    + cbn beta iota. rewrite map_id.
      apply filter_ext_in. intros d IN. unfold fixed_by. f_equal.
      destruct (targets_line n0 d) eqn:T; [|reflexivity]. cbn [andb].
      pose proof (inv_codes _ _ INV d (main_In_raw _ _ _ _ IN)) as HC.
      rewrite (trail_line_features _ _ _ HC0 HC).
      (* d is reported, so its own line did not already carry a trailing comment for it *)
      pose proof (main_kept _ _ _ _ IN) as K. unfold kept, suppressor in K.
      unfold targets_line in T. apply andb_true_iff in T. destruct T as [T1 T2]. rewrite T1 in K.
      destruct (d_line d) as [ln|]; [|discriminate]. apply Nat.eqb_eq in T2. subst ln.
      unfold line_ignore in K. fold (trailing_hit IGN nm (line_at f (n0 - 1)) (d_code d)) in K.
      destruct (trailing_hit IGN nm (line_at f (n0 - 1)) (d_code d)); [discriminate|]. cbn. now rewrite andb_true_r.
    + intros d IN H. rewrite (trail_line_features _ _ _ HC0 (inv_codes _ _ INV d IN)). now rewrite H.
  - (* comment line above *)
    unfold use_trailing in UT. rewrite EB in UT. cbn [negb andb] in UT.
    apply orb_false_iff in UT. destruct UT as [UT U3]. apply orb_false_iff in UT. destruct UT as [U1 _].
    rewrite (ownline_exact IGN nm st f raw n0 _ WL R0).
    + f_equal. apply filter_ext_in. intros d IN. unfold fixed_by. f_equal.
      destruct (targets_line n0 d); [|reflexivity]. cbn [andb].
      pose proof (inv_codes _ _ INV d (main_In_raw _ _ _ _ IN)) as HC.
      destruct (comment_line_features (indentation (line_at f (n0 - 1))) (d_code d0) (d_code d) HC0 HC) as [OH _].
      exact OH.
    + split.
      * apply leading_len_le; [nlia|exact SH].
      * intros E.
        destruct (comment_line_features (indentation (line_at f (n0 - 1))) (d_code d0) (d_code d0) HC0 HC0) as [_ [_ [S _]]].
        rewrite S. apply Nat.eqb_neq. intros I0. rewrite I0 in U3. cbn [Nat.eqb andb] in U3.
        rewrite <- E, leading_forall in U3. discriminate.
    + intros GE c. apply own_hit_own_any.
      replace (2 <=? n0) with true in U1 by (symmetry; apply Nat.leb_le; lia). exact U1.
Qed.

Lemma shift_line_inj : forall n0 a b,
  (if n0 <=? a then S a else a) = (if n0 <=? b then S b else b) -> a = b.
Proof.
  intros n0 a b. destruct (n0 <=? a) eqn:A, (n0 <=? b) eqn:Bq; intros E;
    try apply Nat.leb_le in A; try apply Nat.leb_le in Bq;
    try apply Nat.leb_gt in A; try apply Nat.leb_gt in Bq; lia.
Qed.

Theorem fix_step_inv : forall st f raw d0 rest n0,
  fix_inv f raw -> main IGN nm st f raw = d0 :: rest -> d_line d0 = Some n0 ->
  fix_inv (step_file f n0 (d_code d0)) (step_raw f n0 raw).
Proof.
  intros st f raw d0 rest n0 INV M L0.
  destruct (first_lined_main st f raw d0 rest INV M) as [n [Ln [_ [R0 [OB [HC0 CL]]]]]].
  rewrite L0 in Ln. inversion Ln; subst n. clear Ln.
  destruct CL as [SH [OWN [NBL EB]]].
  unfold step_file, step_raw. destruct (use_trailing IGN f n0).
  - (* trailing: same raw stream, one line replaced *)
    assert (LEN : length (set_line (n0 - 1) (trail_line IGN nm (line_at f (n0 - 1)) (d_code d0)) f) = length f).
    { unfold set_line. rewrite app_length. cbn [length]. rewrite firstn_length, skipn_length. nlia. }
    constructor.
    + intros d IN. destruct (inv_lined _ _ INV d IN) as [m [Lm Rm]]. exists m. rewrite LEN. auto.
    + exact (inv_obey _ _ INV).
    + exact (inv_codes _ _ INV).
    + intros d m IN Lm. destruct (inv_lined _ _ INV d IN) as [m' [Lm' Rm]]. rewrite Lm in Lm'. inversion Lm'; subst m'.
      rewrite line_at_set_line by nlia.
      destruct (Nat.eqb (m - 1) (n0 - 1)) eqn:E.
      * destruct (trail_line_shape (line_at f (n0 - 1)) (d_code d0) NBL SH) as [A [B1 [C D]]].
        repeat split; assumption.
      * exact (inv_line _ _ INV d m IN Lm).
  - (* comment line above: everything moves down with its line *)
    set (C := comment_line IGN nm (indentation (line_at f (n0 - 1))) (Some (d_code d0))).
    assert (LEN : length (insert_line (n0 - 1) C f) = S (length f)).
    { unfold insert_line. rewrite app_length. cbn [length]. rewrite firstn_length, skipn_length. nlia. }
    constructor.
    + intros d' IN. apply in_map_iff in IN. destruct IN as [d [<- IN]].
      destruct (inv_lined _ _ INV d IN) as [m [Lm Rm]]. cbn [shift_diag d_line]. rewrite Lm.
      eexists. split; [reflexivity|]. rewrite LEN. destruct (n0 <=? m); lia.
    + intros d' IN. apply in_map_iff in IN. destruct IN as [d [<- IN]]. cbn. exact (inv_obey _ _ INV d IN).
    + intros d' IN. apply in_map_iff in IN. destruct IN as [d [<- IN]]. cbn. exact (inv_codes _ _ INV d IN).
    + intros d' m' IN L'. apply in_map_iff in IN. destruct IN as [d [<- IN]].
      destruct (inv_lined _ _ INV d IN) as [m [Lm Rm]].
      cbn [shift_diag d_line] in L'. rewrite Lm in L'. inversion L' as [E']. clear L'.
      pose proof (inv_line _ _ INV d m IN Lm) as CLm.
      rewrite line_at_insert_line by nlia.
      destruct (n0 <=? m) eqn:GE.
      * apply Nat.leb_le in GE.
        replace (S m - 1 <? n0 - 1) with false by (symmetry; apply Nat.ltb_ge; lia).
        replace (Nat.eqb (S m - 1) (n0 - 1)) with false by (symmetry; apply Nat.eqb_neq; lia).
        replace (S m - 1 - 1) with (m - 1) by lia. exact CLm.
      * apply Nat.leb_gt in GE.
        replace (m - 1 <? n0 - 1) with true by (symmetry; apply Nat.ltb_lt; lia). exact CLm.
Qed.

(* ------------------------------------------------------------------ *)
(* termination                                                          *)

Lemma filter_len_le : forall {A} (p : A -> bool) l, length (filter p l) <= length l.
Proof. intros A p l. induction l as [|y r IHr]; cbn; [lia|]. destruct (p y); cbn; lia. Qed.

Lemma filter_removes_one : forall {A} (p : A -> bool) l x, In x l -> p x = false ->
  length (filter p l) < length l.
Proof.
  intros A p l x. induction l as [|y r IHr]; intros IN PX; [contradiction|]. cbn.
  destruct IN as [->|IN].
  - rewrite PX. pose proof (filter_len_le p r). lia.
  - specialize (IHr IN PX). destruct (p y); cbn; lia.
Qed.

(* only comments were added: every step inserts a comment-only line or appends a trailing comment *)
Inductive comment_edit : file -> file -> Prop :=
| ce_refl : forall f, comment_edit f f
| ce_insert : forall f f' i C, comment_only C = true ->
    comment_edit (insert_line i C f) f' -> comment_edit f f'
| ce_trail : forall f f' i c, i < length f ->
    comment_edit (set_line i (trail_line IGN nm (line_at f i) c) f) f' -> comment_edit f f'.

Theorem add_ignores_terminates : forall k st f raw,
  st U = false -> st B = false ->
  fix_inv f raw -> length (main IGN nm st f raw) <= k ->
  exists f' raw',
    iterate IGN nm k st U B f raw = Some (f', raw') /\
    emit IGN nm st f' U B raw' = [] /\
    comment_edit f f'.
Proof.
  induction k as [|k IHk]; intros st f raw HU HB INV LE.
  - destruct (main IGN nm st f raw) as [|d0 rest] eqn:M; [|cbn in LE; lia].
    exists f, raw. cbn [iterate]. rewrite (fix_step_none st f raw HU HB M).
    split; [reflexivity|]. split; [|constructor]. now rewrite emit_no_tail, M.
  - destruct (main IGN nm st f raw) as [|d0 rest] eqn:M.
    + exists f, raw. cbn [iterate]. rewrite (fix_step_none st f raw HU HB M).
      split; [reflexivity|]. split; [|constructor]. now rewrite emit_no_tail, M.
    + destruct (fix_step_some st f raw d0 rest HU HB INV M) as [n0 [L0 FS]].
      pose proof (fix_step_inv st f raw d0 rest n0 INV M L0) as INV'.
      pose proof (fix_step_main st f raw d0 rest n0 INV M L0) as MAIN.
      destruct (first_lined_main st f raw d0 rest INV M) as [n [Ln [_ [R0 [OB _]]]]].
      rewrite L0 in Ln. inversion Ln; subst n. clear Ln.
      assert (LT : length (main IGN nm st (step_file f n0 (d_code d0)) (step_raw f n0 raw)) <= k).
      { rewrite MAIN, map_length.
        assert (length (filter (fun d => negb (fixed_by n0 (d_code d0) d)) (main IGN nm st f raw))
                < length (main IGN nm st f raw)).
        { apply (filter_removes_one _ _ d0); [rewrite M; now left|].
          unfold fixed_by, targets_line. now rewrite L0, OB, Nat.eqb_refl, N.eqb_refl. }
        assert (LEN : length (main IGN nm st f raw) <= S k) by (rewrite M; exact LE).
        lia. }
      destruct (IHk st _ _ HU HB INV' LT) as [f' [raw' [IT [EM CE]]]].
      exists f', raw'. cbn [iterate]. rewrite FS.
      split; [exact IT|]. split; [exact EM|].
      unfold step_file in CE. destruct (use_trailing IGN f n0).
      * eapply ce_trail; [|exact CE]. nlia.
      * eapply ce_insert; [|exact CE]. apply comment_line_comment_only.
Qed.

(* ------------------------------------------------------------------ *)
(* the guard as a boolean (evaluated by the harness on every case)      *)

Definition line_of (d : diag) : nat := match d_line d with Some n => n | None => 0 end.

Definition code_lineb (l : line) : bool :=
  negb (starts_hash l) && negb (own_any IGN l)
  && negb (match lstrip l with [] => true | _ => false end) && negb (ends_backslash (rstrip l)).

Definition fix_guardb (f : file) (raw : list diag) : bool :=
  forallb (fun d => match d_line d with
                    | Some n => (1 <=? n) && (n <=? length f) && code_lineb (line_at f (n - 1))
                    | None => false
                    end && d_obey d && (d_code d <? n_codes)%N) raw.

Theorem fix_guardb_sound : forall f raw, fix_guardb f raw = true -> fix_inv f raw.
Proof.
  intros f raw G. unfold fix_guardb in G. rewrite forallb_forall in G.
  assert (BASE : forall d, In d raw ->
            (exists n, d_line d = Some n /\ 1 <= n <= length f /\ code_line (line_at f (n - 1)))
            /\ d_obey d = true /\ (d_code d < n_codes)%N).
  { intros d IN. specialize (G d IN). apply andb_true_iff in G. destruct G as [G C].
    apply andb_true_iff in G. destruct G as [L O]. destruct (d_line d) as [n|]; [|discriminate].
    apply andb_true_iff in L. destruct L as [L CLb]. apply andb_true_iff in L. destruct L as [L1 L2].
    apply Nat.leb_le in L1. apply Nat.leb_le in L2. apply N.ltb_lt in C.
    split; [|split; assumption]. exists n. split; [reflexivity|]. split; [lia|].
    unfold code_lineb in CLb.
    apply andb_true_iff in CLb. destruct CLb as [CLb E4]. apply andb_true_iff in CLb. destruct CLb as [CLb E3].
    apply andb_true_iff in CLb. destruct CLb as [E1 E2].
    apply negb_true_iff in E1. apply negb_true_iff in E2. apply negb_true_iff in E4.
    repeat split; try assumption.
    - intros c. now apply own_hit_own_any.
    - intros E. rewrite E in E3. discriminate. }
  constructor.
  - intros d IN. destruct (BASE d IN) as [[n [L [R _]]] _]. eauto.
  - intros d IN. apply BASE, IN.
  - intros d IN. apply BASE, IN.
  - intros d n IN L. destruct (BASE d IN) as [[n' [L' [_ CL]]] _]. rewrite L in L'. inversion L'; subst. exact CL.
Qed.

(* ------------------------------------------------------------------ *)
(* witnesses                                                            *)

Definition all_but_tail : settings := fun c => negb (N.eqb c U) && negb (N.eqb c B).

(* three codes on one line: one comment line above, two trailing comments; ends after three steps *)
Definition three_codes_file : file := [[100%N]; [32%N; 32%N; 120%N]].
Definition three_codes_raw : list diag :=
  [mk_diag 1 3 (Some 2) 2 true; mk_diag 2 9 (Some 2) 6 true; mk_diag 3 8 (Some 2) 9 true].

Lemma three_codes_terminate :
  fix_guardb three_codes_file three_codes_raw = true /\
  exists f' raw', iterate IGN nm 3 all_but_tail U B three_codes_file three_codes_raw = Some (f', raw')
    /\ length f' = 3 /\ emit IGN nm all_but_tail f' U B raw' = [].
Proof. split; [vm_compute; reflexivity|]. eexists. eexists. vm_compute. repeat split. Qed.

(* a reported line 1 at column 0: trailing comment, the diagnostic two lines below is still reported *)
Definition first_line_file : file := [[120%N]; [121%N]; [122%N]].
Definition first_line_raw : list diag := [mk_diag 1 3 (Some 1) 0 true; mk_diag 2 3 (Some 3) 0 true].

Lemma first_line_not_file_level :
  exists f' raw', fix_step IGN nm all_but_tail U B first_line_file first_line_raw = Some (f', raw')
    /\ length f' = 3 /\ main IGN nm all_but_tail f' raw' = [mk_diag 2 3 (Some 3) 0 true].
Proof. eexists. eexists. vm_compute. repeat split. Qed.

(* before the repair (comment line always above): two codes alternate until the iteration limit *)
Definition old_fix_step (st : settings) (f : file) (raw : list diag) : option (file * list diag) :=
  match first_lined (emit IGN nm st f U B raw) with
  | Some d => match d_line d with
              | Some ln => Some (insert_line (ln - 1) (comment_line IGN nm (indentation (line_at f (ln - 1))) (Some (d_code d))) f,
                                 map (shift_diag ln) raw)
              | None => None
              end
  | None => None
  end.
Fixpoint old_iterate (fuel : nat) (st : settings) (f : file) (raw : list diag) : option (file * list diag) :=
  match old_fix_step st f raw with
  | None => Some (f, raw)
  | Some (f', raw') => match fuel with 0 => None | S k => old_iterate k st f' raw' end
  end.

Lemma unrepaired_two_codes_diverge :
  old_iterate 150 all_but_tail three_codes_file (firstn 2 three_codes_raw) = None.
Proof. vm_compute. reflexivity. Qed.

(* the reported line ends in a backslash: the guard excludes it (the comment then goes above the line) *)
Lemma guard_excludes_backslash :
  fix_guardb [[100%N]; [32%N; 120%N; 32%N; 92%N]; [32%N; 121%N]] [mk_diag 1 3 (Some 2) 1 true] = false.
Proof. vm_compute. reflexivity. Qed.
