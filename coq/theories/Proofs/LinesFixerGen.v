(* Proofs/LinesFixerGen.v — the fixer functions translated from the source
   on every run (Gen/ApplyGen.v) are the model's. *)
From Coq Require Import List Bool NArith ZArith Arith Lia.
Import ListNotations.
Require Import PV.Lines.Text PV.Lines.Suppress PV.Lines.Fixer.
Require Import PV.Gen.Codes PV.Gen.ApplyGen PV.Proofs.LinesFixer.

Lemma gen_indentation : forall l, ApplyGen.get_indentation l = indentation l.
Proof. intros l. unfold ApplyGen.get_indentation, indentation. destruct (lstrip l); reflexivity. Qed.

Lemma prefix_hash' : forall l, prefix [35%N] l = starts_hash l.
Proof. intros [|c l]; cbn; [reflexivity|]. unfold hash_char. now rewrite andb_true_r, N.eqb_sym. Qed.

Lemma forallb_ext' : forall {A} (p q : A -> bool) l, (forall x, p x = q x) -> forallb p l = forallb q l.
Proof. intros A p q l H. induction l as [|x r IH]; cbn; [reflexivity|]. now rewrite H, IH. Qed.

Theorem fixer_gen_is_model :
  (forall changes f, ApplyGen.apply_changes changes f = Fixer.apply_changes changes f) /\
  (forall f ln c, 1 <= ln ->
     ApplyGen.add_ignore_repl f ln (Some c) = Fixer.add_ignore_repl IGNORE_COMMENT code_name f ln c) /\
  ApplyGen.iteration_limit = 150.
Proof.
  split; [reflexivity|]. split; [|reflexivity].
  intros f ln c H. unfold ApplyGen.add_ignore_repl, Fixer.add_ignore_repl, use_trailing, trail_line, comment_line, own_any.
  unfold py_index. destruct (Z.of_nat ln - 1 <? 0)%Z eqn:E; [lia|].
  replace (Z.to_nat (Z.of_nat ln - 1)) with (ln - 1) by lia.
  fold (line_at f (ln - 1)). rewrite gen_indentation.
  assert (P : (if 2 <=? ln
               then if (Z.of_nat ln - 2 <? 0)%Z then nth (length f - Z.to_nat (- (Z.of_nat ln - 2))) f []
                    else nth (Z.to_nat (Z.of_nat ln - 2)) f []
               else []) = (if 2 <=? ln then line_at f (ln - 2) else [])).
  { destruct (2 <=? ln) eqn:L2; [|reflexivity]. apply Nat.leb_le in L2.
    destruct (Z.of_nat ln - 2 <? 0)%Z eqn:E2; [lia|]. unfold line_at. f_equal. lia. }
  rewrite P.
  rewrite (forallb_ext' _ starts_hash _ prefix_hash').
  reflexivity.
Qed.
