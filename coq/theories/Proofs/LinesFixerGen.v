(* Proofs/LinesFixerGen.v — the fixer functions translated from the source
   on every run (Gen/ApplyGen.v) are the model's. *)
From Coq Require Import List Bool NArith ZArith Arith Lia.
Import ListNotations.
Require Import PV.Lines.Text PV.Lines.Suppress PV.Lines.Fixer.
Require Import PV.Gen.Codes PV.Gen.ApplyGen PV.Proofs.LinesFixer.

Lemma gen_indentation : forall l, ApplyGen.get_indentation l = indentation l.
Proof. intros l. unfold ApplyGen.get_indentation, indentation. destruct (lstrip l); reflexivity. Qed.

Theorem fixer_gen_is_model :
  (forall changes f, ApplyGen.apply_changes changes f = Fixer.apply_changes changes f) /\
  (forall f ln c, 1 <= ln ->
     ApplyGen.add_ignore_repl f ln (Some c) = Fixer.add_ignore_repl IGNORE_COMMENT code_name f ln c) /\
  ApplyGen.iteration_limit = 150.
Proof.
  split; [reflexivity|]. split; [|reflexivity].
  intros f ln c H. unfold ApplyGen.add_ignore_repl, Fixer.add_ignore_repl, comment_line.
  unfold py_index. destruct (Z.of_nat ln - 1 <? 0)%Z eqn:E; [lia|].
  replace (Z.to_nat (Z.of_nat ln - 1)) with (ln - 1) by lia.
  unfold line_at. now rewrite gen_indentation.
Qed.
