(* Proofs/LinesGen.v — the functions translated from node_visitor.py on every
   run (Gen/SuppressGen.v) are the functions of the hand-written model. *)
From Coq Require Import List Bool NArith ZArith Arith Lia.
Import ListNotations.
Require Import PV.Lines.Text PV.Lines.Suppress.
Require Import PV.Gen.Codes PV.Gen.SuppressGen.

Notation IGN := IGNORE_COMMENT.
Notation nm := code_name.

Lemma py_index_nonneg : forall f z, (0 <= z)%Z -> py_index f z = line_at f (Z.to_nat z).
Proof. intros f z H. unfold py_index, line_at. destruct (z <? 0)%Z eqn:E; [lia|reflexivity]. Qed.

Lemma prefix_hash : forall l, prefix [35%N] l = starts_hash l.
Proof. intros [|c l]; cbn; [reflexivity|]. unfold hash_char. now rewrite andb_true_r, N.eqb_sym. Qed.

Lemma gen_line_ignore : forall f ln c, 1 <= ln ->
  SuppressGen.line_ignore f ln (Some c) = option_map Z.of_nat (Suppress.line_ignore IGN nm f ln c).
Proof.
  intros f ln c H. unfold SuppressGen.line_ignore, Suppress.line_ignore.
  rewrite py_index_nonneg by lia.
  replace (Z.to_nat (Z.of_nat ln - 1)) with (ln - 1) by lia.
  unfold has_tag.
  destruct (has_bare IGN (line_at f (ln - 1)) || substr (tag IGN nm c) (line_at f (ln - 1))).
  - cbn. f_equal. lia.
  - destruct (2 <=? ln) eqn:L2.
    + apply Nat.leb_le in L2. rewrite py_index_nonneg by lia.
      replace (Z.to_nat (Z.of_nat ln - 2)) with (ln - 2) by lia.
      cbn [andb]. unfold own_bare, own_tag.
      destruct (list_N_eqb (strip (line_at f (ln - 2))) IGN || list_N_eqb (strip (line_at f (ln - 2))) (tag IGN nm c)).
      * cbn. f_equal. lia.
      * reflexivity.
    + reflexivity.
Qed.

Lemma gen_fl_scan : forall c ls i, SuppressGen.fl_scan c ls i = Suppress.fl_scan IGN nm c ls i.
Proof.
  intros c ls. induction ls as [|l r IH]; intros i; cbn [SuppressGen.fl_scan Suppress.fl_scan]; [reflexivity|].
  rewrite prefix_hash, IH. unfold own_bare, own_tag. reflexivity.
Qed.

Theorem gen_is_model :
  (forall f ln c, 1 <= ln ->
     SuppressGen.line_ignore f ln (Some c) = option_map Z.of_nat (Suppress.line_ignore IGN nm f ln c)) /\
  (forall c ls i, SuppressGen.fl_scan c ls i = Suppress.fl_scan IGN nm c ls i) /\
  (forall f usd, SuppressGen.unused_lines f usd = Suppress.unused_lines IGN f usd) /\
  (forall f, SuppressGen.bare_lines f = Suppress.bare_lines IGN f) /\
  SuppressGen.show_error_gates = [0; 1; 2; 3; 4; 5; 6; 8].
Proof.
  split; [exact gen_line_ignore|]. split; [exact gen_fl_scan|].
  split; [reflexivity|]. split; reflexivity.
Qed.
