(* Proofs/LinesOptions.v — composing C11 with C18: when is_enabled is computed by the
   option lookup (Options.is_error_code_enabled = C18's `effective` for an error-code option),
   each of the disabling routes (command line, a setting of the main config file — top level
   or per-module override) is an instance of `disable S`, hence a projection. *)
From Coq Require Import List Bool NArith ZArith Arith Lia.
Import ListNotations.
Require Import PV.Options.Base PV.Options.Parse PV.Gen.Options.
Require Import PV.Proofs.OptionsLookup PV.Proofs.OptionsParse PV.Proofs.OptionsMain.
Require Import PV.Lines.Text PV.Lines.Suppress PV.Proofs.LinesSuppress.

(* the configuration as the lookup of one error code sees it (C18 models one option at a time) *)
Record code_conf := mk_conf {
  cf_files : list Parse.file;   (* config file stack, entries for this code *)
  cf_cli : list Z;              (* command-line / `settings` instances, first wins *)
  cf_default : Z
}.

(* NameCheckVisitor.is_enabled -> Options.is_error_code_enabled(code) for module path mp *)
Definition enabled_by (cf : N -> code_conf) (mp : list N) : settings :=
  fun c => match effective true (cf_files (cf c)) (cf_cli (cf c)) (cf_default (cf c)) mp with
           | Some (Some v) => negb (Z.eqb v 0)
           | _ => false
           end.

Section Compose.
  Context (IGN : list N) (name : N -> list N).
  Notation main := (main IGN name).

  Lemma main_ext : forall st st' f raw, (forall c, st c = st' c) -> main st f raw = main st' f raw.
  Proof.
    intros st st' f raw E. rewrite !(main_is_projection IGN name). unfold main_spec.
    f_equal. f_equal. apply filter_ext. intros d. unfold live. now rewrite E.
  Qed.

  (* whatever the route: if under the new configuration the lookup of every code of S yields 0
     and the other codes are configured as before, the diagnostics are the projection *)
  Theorem config_disable_projection : forall (cf cf' : N -> code_conf) S mp f raw,
    (forall c, mem_N c S = true ->
       effective true (cf_files (cf' c)) (cf_cli (cf' c)) (cf_default (cf' c)) mp = Some (Some 0%Z)) ->
    (forall c, mem_N c S = false -> cf' c = cf c) ->
    main (enabled_by cf' mp) f raw = filter (not_in S) (main (enabled_by cf mp) f raw).
  Proof.
    intros cf cf' S mp f raw HS HN.
    rewrite <- (disable_main_projection IGN name). apply main_ext. intros c.
    unfold enabled_by, disable. destruct (mem_N c S) eqn:M.
    - rewrite (HS c M). cbn. now rewrite andb_false_r.
    - rewrite (HN c M). cbn. now rewrite andb_true_r.
  Qed.

  (* route 1: command line (--disable / settings): a leading 0 instance for every code of S *)
  Definition with_cli_off (S : list N) (cf : N -> code_conf) : N -> code_conf :=
    fun c => if mem_N c S
             then mk_conf (cf_files (cf c)) (0%Z :: cf_cli (cf c)) (cf_default (cf c))
             else cf c.

  Theorem cli_route_projection : forall cf S mp f raw,
    (forall c, mem_N c S = true -> exists l, parse_main true (cf_files (cf c)) = Ok l) ->
    main (enabled_by (with_cli_off S cf) mp) f raw = filter (not_in S) (main (enabled_by cf mp) f raw).
  Proof.
    intros cf S mp f raw OK. apply config_disable_projection.
    - intros c M. unfold with_cli_off. rewrite M. cbn [cf_files cf_cli cf_default].
      destruct (OK c M) as [l P]. exact (cli_value_effective true _ 0%Z _ _ mp l P).
    - intros c M. unfold with_cli_off. now rewrite M.
  Qed.

  (* route 2: the main config file (top-level setting or per-module override): no command-line
     instance for the codes of S, and every setting of the main file that applies to the module —
     there is at least one — says `false`; files it extends cannot re-enable the code *)
  Theorem file_route_projection : forall cf cf' S mp f raw,
    (forall c, mem_N c S = true ->
       cf_cli (cf' c) = [] /\
       exists l sec, parse_main true (cf_files (cf' c)) = Ok l /\ nth_error (cf_files (cf' c)) 0 = Some sec /\
         (exists y, In y (own true sec 0) /\ is_applicable_to y mp = true) /\
         (forall y, In y (own true sec 0) -> is_applicable_to y mp = true -> value y = 0%Z)) ->
    (forall c, mem_N c S = false -> cf' c = cf c) ->
    main (enabled_by cf' mp) f raw = filter (not_in S) (main (enabled_by cf mp) f raw).
  Proof.
    intros cf cf' S mp f raw HS HN. apply config_disable_projection; [|exact HN].
    intros c M. destruct (HS c M) as [CLI [l [sec [P [N0 [EX ALL]]]]]]. rewrite CLI.
    destruct EX as [y [Yo Ya]].
    destruct (chosen (cli_insts [] ++ l) mp) as [b|] eqn:CH.
    - destruct (main_beats_extended true _ sec (cf_default (cf' c)) mp l b P N0 (ex_intro _ y (conj Yo Ya)) CH) as [Bo E].
      rewrite E. f_equal. f_equal. apply ALL; [exact Bo|]. exact (proj2 (chosen_in _ _ _ CH)).
    - exfalso. destruct (parse_file_own_or_deeper _ _ _ _ _ _ _ _ P N0) as [Hown _].
      destruct (Hown y Yo) as [Yl _].
      pose proof (proj1 (lookup_none_iff _ _) CH y) as NA. cbn in NA. specialize (NA Yl). congruence.
  Qed.
End Compose.
