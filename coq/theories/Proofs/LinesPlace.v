(* Proofs/LinesPlace.v — what adding one comment does (C11), for arbitrary
   files, raw streams and settings. *)
From Coq Require Import List Bool NArith Arith Lia.
Import ListNotations.
Require Import PV.Lines.Text PV.Lines.Suppress PV.Lines.Place PV.Proofs.LinesSuppress.

Ltac nlia := unfold file, line in *; lia.

Section Place.
  Context (IGN : list N) (name : N -> list N).

  Notation main := (main IGN name).
  Notation live := (live IGN name).
  Notation kept := (kept IGN name).
  Notation suppressor := (suppressor IGN name).
  Notation file_level := (file_level IGN name).
  Notation line_ignore := (line_ignore IGN name).
  Notation trailing_hit := (trailing_hit IGN name).
  Notation own_hit := (own_hit IGN name).
  Notation fl_scan := (fl_scan IGN name).

  (* ---------------- list plumbing ---------------- *)

  Lemma line_at_set_line : forall i L f j, i < length f ->
    line_at (set_line i L f) j = if Nat.eqb j i then L else line_at f j.
  Proof.
    intros i L f j LT. unfold line_at, set_line.
    assert (LF : length (firstn i f) = i) by (rewrite firstn_length; nlia).
    destruct (Nat.eqb j i) eqn:E.
    - apply Nat.eqb_eq in E. subst j. rewrite app_nth2 by nlia. now rewrite LF, Nat.sub_diag.
    - apply Nat.eqb_neq in E. destruct (Nat.lt_ge_cases j i) as [LT'|GE].
      + rewrite app_nth1 by nlia.
        rewrite <- (firstn_skipn i f) at 2. now rewrite app_nth1 by nlia.
      + rewrite app_nth2 by nlia. rewrite LF.
        destruct (j - i) as [|k] eqn:D; [nlia|]. cbn [nth].
        rewrite <- (firstn_skipn (S i) f) at 2.
        assert (LS : length (firstn (S i) f) = S i) by (rewrite firstn_length; nlia).
        rewrite app_nth2 by nlia. rewrite LS. f_equal. nlia.
  Qed.

  Lemma line_at_insert_line : forall i C f j, i <= length f ->
    line_at (insert_line i C f) j
    = if j <? i then line_at f j else if Nat.eqb j i then C else line_at f (j - 1).
  Proof.
    intros i C f j LE. unfold line_at, insert_line.
    assert (LF : length (firstn i f) = i) by (rewrite firstn_length; nlia).
    destruct (j <? i) eqn:LT.
    - apply Nat.ltb_lt in LT. rewrite app_nth1 by nlia.
      rewrite <- (firstn_skipn i f) at 2. now rewrite app_nth1 by nlia.
    - apply Nat.ltb_ge in LT. rewrite app_nth2 by nlia. rewrite LF.
      destruct (Nat.eqb j i) eqn:E.
      + apply Nat.eqb_eq in E. subst. now rewrite Nat.sub_diag.
      + apply Nat.eqb_neq in E. destruct (j - i) as [|k] eqn:D; [nlia|]. cbn [nth].
        rewrite <- (firstn_skipn i f) at 2. rewrite app_nth2 by nlia. rewrite LF. f_equal. nlia.
  Qed.

  (* ---------------- file-level scan ---------------- *)

  Lemma fl_scan_set_line : forall c f i L k, i < length f ->
    starts_hash (nth i f []) = false -> starts_hash L = false ->
    fl_scan c (set_line i L f) k = fl_scan c f k.
  Proof.
    intros c f. induction f as [|l r IH]; intros i L k LT H1 H2; cbn in LT; [nlia|].
    destruct i as [|i].
    - unfold set_line. cbn in *. now rewrite H1, H2.
    - unfold set_line. cbn [firstn skipn app Suppress.fl_scan].
      destruct (starts_hash l); cbn [negb]; [|reflexivity].
      destruct (own_bare IGN l || match c with Some c0 => own_tag IGN name c0 l | None => false end); [reflexivity|].
      apply (IH i L (S k)); [nlia|exact H1|exact H2].
  Qed.

  Lemma fl_scan_insert_line : forall c f i C k, i <= length f ->
    not_leading f i C ->
    fl_scan c (insert_line i C f) k = fl_scan c f k.
  Proof.
    intros c f. induction f as [|l r IH]; intros i C k LE [NL1 NL2].
    - cbn in LE. assert (i = 0) by nlia. subst. unfold insert_line. cbn.
      rewrite NL2 by reflexivity. reflexivity.
    - destruct i as [|i].
      + unfold insert_line. cbn [firstn skipn app Suppress.fl_scan].
        cbn in NL1, NL2. destruct (starts_hash l) eqn:HL; [nlia|].
        rewrite NL2 by reflexivity. reflexivity.
      + unfold insert_line. cbn [firstn skipn app Suppress.fl_scan].
        cbn in NL1, NL2. destruct (starts_hash l) eqn:HL; cbn [negb]; [|reflexivity].
        destruct (own_bare IGN l || match c with Some c0 => own_tag IGN name c0 l | None => false end); [reflexivity|].
        apply (IH i C (S k)); [cbn in LE; nlia|]. split; [nlia|]. intros E. apply NL2. nlia.
  Qed.

  (* ---------------- generic: a change that only affects `kept` ------- *)

  Lemma main_change_kept : forall st f f' raw (p : diag -> bool),
    (forall c, file_level f' (Some c) = file_level f (Some c)) ->
    (forall d, In d raw -> kept f' d = kept f d && p d) ->
    main st f' raw = filter p (main st f raw).
  Proof.
    intros st f f' raw p FL K. rewrite !main_is_projection. unfold Suppress.main_spec.
    assert (LV : forall d, live st f' d = live st f d).
    { intros d. unfold Suppress.live. now rewrite FL. }
    rewrite (filter_ext _ _ LV). rewrite filter_filter.
    apply filter_ext_in. intros d IN. apply K.
    assert (SUB : forall sn l x, In x (dedup_from sn l) -> In x l).
    { intros sn l. revert sn. induction l as [|y r IH]; intros sn x; cbn; [tauto|].
      destruct (mem_key (dkey y) sn); [intros H; right; eapply IH; eauto|].
      intros [->|H]; [now left|right; eapply IH; eauto]. }
    apply SUB in IN. apply filter_In in IN. tauto.
  Qed.

  (* ---------------- trailing comment ---------------- *)

  Theorem trailing_exact : forall st f raw n L',
    well_lined raw -> 1 <= n <= length f ->
    starts_hash (line_at f (n - 1)) = false -> starts_hash L' = false ->
    (forall c, trailing_hit (line_at f (n - 1)) c = false) ->
    (forall c, own_hit (line_at f (n - 1)) c = false) ->
    (forall c, own_hit L' c = false) ->
    main st (set_line (n - 1) L' f) raw
    = filter (fun d => negb (targets_line n d && trailing_hit L' (d_code d))) (main st f raw).
  Proof.
    intros st f raw n L' WL RNG H1 H2 TR OW OW'.
    apply main_change_kept.
    - intros c. unfold Suppress.file_level. apply fl_scan_set_line; [nlia|exact H1|exact H2].
    - intros d IN. specialize (WL d IN).
      unfold LinesSuppress.trailing_hit, LinesSuppress.own_hit in *.
      unfold Suppress.kept, Suppress.suppressor, targets_line.
      destruct (d_obey d); cbn [andb]; [|reflexivity].
      destruct (d_line d) as [ln|]; [|reflexivity].
      assert (ln <> 0) by (intros ->; now apply WL). clear WL.
      unfold Suppress.line_ignore.
      rewrite !line_at_set_line by nlia.
      destruct (Nat.eqb ln n) eqn:E.
      + apply Nat.eqb_eq in E. subst ln. rewrite Nat.eqb_refl. rewrite TR.
        destruct (has_bare IGN L' || has_tag IGN name (d_code d) L'); cbn [andb negb]; [now rewrite andb_false_r|].
        rewrite andb_true_r.
        destruct (2 <=? n) eqn:L2; cbn [andb]; [|reflexivity]. apply Nat.leb_le in L2.
        replace (Nat.eqb (n - 2) (n - 1)) with false by (symmetry; apply Nat.eqb_neq; nlia).
        reflexivity.
      + apply Nat.eqb_neq in E.
        replace (Nat.eqb (ln - 1) (n - 1)) with false by (symmetry; apply Nat.eqb_neq; nlia).
        cbn [andb negb]. rewrite andb_true_r.
        destruct (has_bare IGN (line_at f (ln - 1)) || has_tag IGN name (d_code d) (line_at f (ln - 1))); [reflexivity|].
        destruct (2 <=? ln) eqn:L2; cbn [andb]; [|reflexivity]. apply Nat.leb_le in L2.
        destruct (Nat.eqb (ln - 2) (n - 1)) eqn:E2; [|reflexivity].
        apply Nat.eqb_eq in E2. rewrite E2. now rewrite OW', OW.
  Qed.

  (* ---------------- own-line comment ---------------- *)

  Lemma dkey_shift : forall n d, dkey (shift_diag n d) = dkey d.
  Proof. reflexivity. Qed.

  Lemma dedup_map_shift : forall n l sn,
    dedup_from sn (map (shift_diag n) l) = map (shift_diag n) (dedup_from sn l).
  Proof.
    intros n l. induction l as [|d r IH]; intros sn; cbn [map dedup_from]; [reflexivity|].
    rewrite dkey_shift. destruct (mem_key (dkey d) sn); [apply IH|]. cbn [map]. f_equal. apply IH.
  Qed.

  Lemma filter_map : forall {A B} (g : A -> B) (p : B -> bool) l,
    filter p (map g l) = map g (filter (fun x => p (g x)) l).
  Proof.
    intros A B g p l. induction l as [|x r IH]; cbn; [reflexivity|].
    destruct (p (g x)); cbn; now rewrite IH.
  Qed.

  Theorem ownline_exact : forall st f raw n C,
    well_lined raw -> 1 <= n <= length f ->
    not_leading f (n - 1) C ->
    (n >= 2 -> forall c, own_hit (line_at f (n - 2)) c = false) ->
    main st (insert_line (n - 1) C f) (map (shift_diag n) raw)
    = map (shift_diag n)
        (filter (fun d => negb (targets_line n d && own_hit C (d_code d))) (main st f raw)).
  Proof.
    intros st f raw n C WL RNG NL PREV.
    rewrite !main_is_projection. unfold Suppress.main_spec, Suppress.dedup.
    assert (FL : forall c, file_level (insert_line (n - 1) C f) (Some c) = file_level f (Some c)).
    { intros c. unfold Suppress.file_level. apply fl_scan_insert_line; [nlia|exact NL]. }
    rewrite filter_map.
    assert (LV : forall d, live st (insert_line (n - 1) C f) (shift_diag n d) = live st f d).
    { intros d. unfold Suppress.live. cbn [d_code shift_diag]. now rewrite FL. }
    rewrite (filter_ext _ _ LV). rewrite dedup_map_shift, filter_map. f_equal.
    rewrite filter_filter. apply filter_ext_in. intros d IN.
    assert (INraw : In d raw).
    { assert (SUB : forall sn l x, In x (dedup_from sn l) -> In x l).
      { intros sn l. revert sn. induction l as [|y r IH]; intros sn x; cbn; [tauto|].
        destruct (mem_key (dkey y) sn); [intros H; right; eapply IH; eauto|].
        intros [->|H]; [now left|right; eapply IH; eauto]. }
      apply SUB in IN. apply filter_In in IN. tauto. }
    specialize (WL d INraw).
    unfold Suppress.kept, Suppress.suppressor, targets_line. cbn [d_obey d_line d_code shift_diag].
    destruct (d_obey d); cbn [andb]; [|reflexivity].
    destruct (d_line d) as [ln|]; [|reflexivity].
    assert (ln <> 0) by (intros ->; now apply WL). clear WL.
    unfold Suppress.line_ignore.
    destruct (n <=? ln) eqn:GE.
    - apply Nat.leb_le in GE.
      rewrite !line_at_insert_line by nlia.
      replace (S ln - 1 <? n - 1) with false by (symmetry; apply Nat.ltb_ge; nlia).
      replace (Nat.eqb (S ln - 1) (n - 1)) with false by (symmetry; apply Nat.eqb_neq; nlia).
      replace (S ln - 1 - 1) with (ln - 1) by nlia.
      replace (S ln - 2 <? n - 1) with false by (symmetry; apply Nat.ltb_ge; nlia).
      replace (2 <=? S ln) with true by (symmetry; apply Nat.leb_le; nlia).
      fold (trailing_hit (line_at f (ln - 1)) (d_code d)).
      destruct (trailing_hit (line_at f (ln - 1)) (d_code d)) eqn:T; [reflexivity|].
      cbn [andb].
      destruct (Nat.eqb ln n) eqn:E.
      + apply Nat.eqb_eq in E. subst ln.
        replace (Nat.eqb (S n - 2) (n - 1)) with true by (symmetry; apply Nat.eqb_eq; nlia).
        fold (own_hit C (d_code d)).
        assert (P : (2 <=? n) && (own_bare IGN (line_at f (n - 2)) || own_tag IGN name (d_code d) (line_at f (n - 2))) = false).
        { destruct (2 <=? n) eqn:L2; [|reflexivity]. apply Nat.leb_le in L2. cbn [andb].
          apply (PREV L2 (d_code d)). }
        rewrite P. destruct (own_hit C (d_code d)); reflexivity.
      + apply Nat.eqb_neq in E.
        replace (Nat.eqb (S ln - 2) (n - 1)) with false by (symmetry; apply Nat.eqb_neq; nlia).
        replace (S ln - 2 - 1) with (ln - 2) by nlia.
        replace (2 <=? ln) with true by (symmetry; apply Nat.leb_le; nlia).
        cbn [andb negb]. rewrite andb_true_r.
        destruct (own_bare IGN (line_at f (ln - 2)) || own_tag IGN name (d_code d) (line_at f (ln - 2))); reflexivity.
    - apply Nat.leb_gt in GE.
      rewrite !line_at_insert_line by nlia.
      replace (ln - 1 <? n - 1) with true by (symmetry; apply Nat.ltb_lt; nlia).
      replace (Nat.eqb ln n) with false by (symmetry; apply Nat.eqb_neq; nlia).
      cbn [andb negb]. rewrite andb_true_r.
      destruct (has_bare IGN (line_at f (ln - 1)) || has_tag IGN name (d_code d) (line_at f (ln - 1))); [reflexivity|].
      destruct (2 <=? ln) eqn:L2; [|reflexivity]. apply Nat.leb_le in L2.
      replace (ln - 2 <? n - 1) with true by (symmetry; apply Nat.ltb_lt; nlia).
      reflexivity.
  Qed.

  (* ---------------- the first line ---------------- *)

  Theorem line_ignore_first_line : forall f c,
    line_ignore f 1 c = if trailing_hit (line_at f 0) c then Some 0 else None.
  Proof.
    intros. unfold Suppress.line_ignore, LinesSuppress.trailing_hit. cbn.
    destruct (has_bare IGN (line_at f 0) || has_tag IGN name c (line_at f 0)); reflexivity.
  Qed.
End Place.
