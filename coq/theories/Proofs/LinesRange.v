(* Proofs/LinesRange.v — the line range of a statement is one consecutive range, in bounds; a
   replacement of that range keeps every line outside it (composition with apply_range). *)
From Coq Require Import List Bool NArith Arith Lia.
Import ListNotations.
Require Import PV.Lines.Text PV.Lines.Suppress PV.Lines.Place PV.Lines.Fixer PV.Lines.Range.
Require Import PV.Proofs.LinesFixer.
Require Import PV.Gen.RangeGen.

Lemma extend_last_bounds : forall fuel lines fl last,
  last <= extend_last fuel lines fl last /\
  (last - 1 <= length lines -> extend_last fuel lines fl last - 1 <= length lines).
Proof.
  induction fuel as [|k IH]; intros lines fl last; cbn [extend_last]; [split; lia|].
  destruct (last - 1 <? length lines) eqn:L; cbn [andb]; [|split; lia].
  apply Nat.ltb_lt in L.
  destruct (is_part_of_same_node fl (line_at lines (last - 1))); [|split; lia].
  destruct (IH lines fl (S last)) as [A B]. split; [lia|]. intros _. apply B. lia.
Qed.

(* enough fuel: the loop stops because the condition fails, not because the fuel ran out *)
Lemma extend_last_stops : forall fuel lines fl last,
  length lines + 1 - last <= fuel -> 1 <= last ->
  let r := extend_last fuel lines fl last in
  (r - 1 <? length lines) && is_part_of_same_node fl (line_at lines (r - 1)) = false.
Proof.
  induction fuel as [|k IH]; intros lines fl last F L1; cbn [extend_last].
  - assert (length lines <= last - 1) by lia. cbn zeta.
    replace (last - 1 <? length lines) with false by (symmetry; apply Nat.ltb_ge; lia). reflexivity.
  - destruct ((last - 1 <? length lines) && is_part_of_same_node fl (line_at lines (last - 1))) eqn:C.
    + apply IH; lia.
    + exact C.
Qed.

Theorem line_range_consecutive : forall lines first last0,
  1 <= first -> first < last0 -> last0 - 1 <= length lines ->
  exists last, line_range lines first last0 = seq first (S (last - 1 - first))
    /\ last0 <= last /\ last - 1 <= length lines.
Proof.
  intros lines first last0 F1 FL B. unfold line_range.
  set (last := extend_last (length lines) lines (line_at lines (first - 1)) last0).
  destruct (extend_last_bounds (length lines) lines (line_at lines (first - 1)) last0) as [A C].
  fold last in A, C. exists last. split; [f_equal; lia|]. split; [exact A|now apply C].
Qed.

(* replace_node / remove_node at the level of lines: Replacement(get_line_range_for_node(stmt), new_lines)
   applied to the file = the lines before the statement ++ new_lines ++ the lines after the range *)
Theorem replace_node_lines : forall (f : file) first last0 new_lines rest,
  1 <= first -> first < last0 -> last0 - 1 <= length f ->
  exists last, last0 <= last /\ last - 1 <= length f /\
    apply_changes (mk_repl (line_range f first last0) (Some new_lines) :: rest) f
    = firstn (first - 1) f ++ new_lines ++ skipn (last - 1) f.
Proof.
  intros f first last0 new_lines rest F1 FL B.
  destruct (line_range_consecutive f first last0 F1 FL B) as [last [E [A C]]].
  exists last. split; [exact A|]. split; [exact C|]. rewrite E.
  replace (last - 1 - first) with ((last - 1) - first) by lia.
  apply (apply_range f first (last - 1) new_lines rest); lia.
Qed.

(* the generated functions are the model's *)
Theorem range_gen_is_model :
  (forall a b, RangeGen.is_part_of_same_node a b = Range.is_part_of_same_node a b) /\
  (forall lines first last0, RangeGen.line_range lines first last0 = Range.line_range lines first last0).
Proof. split; reflexivity. Qed.
