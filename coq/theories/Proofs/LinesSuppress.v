(* Proofs/LinesSuppress.v — the suppression pipeline is a pure projection.
   All statements are for arbitrary files (lists of lines of arbitrary
   characters), arbitrary raw diagnostic streams and arbitrary settings. *)
From Coq Require Import List Bool NArith Arith Lia.
Import ListNotations.
Require Import PV.Lines.Text PV.Lines.Suppress.

Section Proofs.
  Context (IGN : list N) (name : N -> list N).

  Notation step := (step IGN name).
  Notation run_raw := (run_raw IGN name).
  Notation main := (main IGN name).
  Notation live := (live IGN name).
  Notation kept := (kept IGN name).
  Notation suppressor := (suppressor IGN name).
  Notation main_spec := (main_spec IGN name).
  Notation file_level := (file_level IGN name).
  Notation line_ignore := (line_ignore IGN name).
  Notation emit := (emit IGN name).
  Notation tail_step := (tail_step IGN name).
  Notation tail_unused := (tail_unused IGN name).
  Notation tail_bare := (tail_bare IGN name).
  Notation fake := (fake IGN).

  (* ------------------------------------------------------------------ *)
  (* 1. the fold over show_error calls computes the declarative filter   *)

  Lemma fold_step_out : forall st f raw s,
    out (fold_left (step st f) raw s)
    = out s ++ filter (kept f) (dedup_from (seen s) (filter (live st f) raw)).
  Proof.
    intros st f raw. induction raw as [|d raw IH]; intros s; cbn [fold_left filter].
    - cbn. now rewrite app_nil_r.
    - rewrite IH. unfold Suppress.step, Suppress.live.
      destruct (st (d_code d)); cbn [negb andb]; [|reflexivity].
      destruct (Suppress.file_level IGN name f (Some (d_code d))) eqn:FL; [reflexivity|].
      cbn [dedup_from]. destruct (mem_key (dkey d) (seen s)) eqn:M; [reflexivity|].
      cbn [filter]. unfold Suppress.kept at 2, Suppress.suppressor.
      destruct (d_obey d); [destruct (d_line d) as [ln|]|].
      + destruct (Suppress.line_ignore IGN name f ln (d_code d)); cbn; [reflexivity|].
        now rewrite <- app_assoc.
      + cbn. now rewrite <- app_assoc.
      + cbn. now rewrite <- app_assoc.
  Qed.

  Theorem main_is_projection : forall st f raw, main st f raw = main_spec st f raw.
  Proof. intros. unfold Suppress.main, Suppress.run_raw. now rewrite fold_step_out. Qed.

  (* ------------------------------------------------------------------ *)
  (* 2. list lemmas about dedup                                          *)

  Lemma key_eqb_code : forall a b, key_eqb (dkey a) (dkey b) = true -> d_code a = d_code b.
  Proof.
    intros a b H. unfold key_eqb, dkey in H; cbn in H.
    apply andb_true_iff in H. destruct H as [_ H]. now apply N.eqb_eq.
  Qed.

  Lemma mem_key_cons : forall k a l, mem_key k (a :: l) = key_eqb k a || mem_key k l.
  Proof. reflexivity. Qed.

  Lemma dedup_filter_agree : forall (q : N -> bool) l sn1 sn2,
    (forall d, q (d_code d) = true -> mem_key (dkey d) sn1 = mem_key (dkey d) sn2) ->
    filter (fun d => q (d_code d)) (dedup_from sn1 l) = filter (fun d => q (d_code d)) (dedup_from sn2 l).
  Proof.
    intros q l. induction l as [|d r IH]; intros sn1 sn2 AG; cbn [dedup_from]; [reflexivity|].
    assert (STEP : forall d', q (d_code d') = true ->
              mem_key (dkey d') (dkey d :: sn1) = mem_key (dkey d') (dkey d :: sn2)).
    { intros d' Q. rewrite !mem_key_cons. now rewrite (AG d' Q). }
    destruct (q (d_code d)) eqn:Q.
    - rewrite (AG d Q). destruct (mem_key (dkey d) sn2); [now apply IH|].
      cbn [filter]. rewrite Q. f_equal. apply IH. exact STEP.
    - assert (SK : forall sn d', q (d_code d') = true ->
                mem_key (dkey d') (dkey d :: sn) = mem_key (dkey d') sn).
      { intros sn d' Q'. rewrite mem_key_cons. destruct (key_eqb (dkey d') (dkey d)) eqn:K; [|reflexivity].
        apply key_eqb_code in K. congruence. }
      destruct (mem_key (dkey d) sn1), (mem_key (dkey d) sn2); cbn [filter]; rewrite ?Q; apply IH; intros d' Q'.
      + now apply AG.
      + rewrite SK by assumption. now apply AG.
      + rewrite SK by assumption. now apply AG.
      + rewrite !SK by assumption. now apply AG.
  Qed.

  (* filtering on a predicate of the code commutes with first-occurrence dedup *)
  Lemma dedup_filter_code : forall (q : N -> bool) l sn,
    dedup_from sn (filter (fun d => q (d_code d)) l) = filter (fun d => q (d_code d)) (dedup_from sn l).
  Proof.
    intros q l. induction l as [|d r IH]; intros sn; cbn [filter dedup_from]; [reflexivity|].
    destruct (q (d_code d)) eqn:Q.
    - cbn [dedup_from]. destruct (mem_key (dkey d) sn); [apply IH|].
      cbn [filter]. rewrite Q. f_equal. apply IH.
    - rewrite IH. destruct (mem_key (dkey d) sn); [reflexivity|].
      cbn [filter]. rewrite Q. apply dedup_filter_agree.
      intros d' Q'. rewrite mem_key_cons. destruct (key_eqb (dkey d') (dkey d)) eqn:K; [|reflexivity].
      apply key_eqb_code in K. congruence.
  Qed.

  Lemma filter_filter : forall {A} (p q : A -> bool) l,
    filter p (filter q l) = filter (fun x => q x && p x) l.
  Proof.
    intros A p q l. induction l as [|x r IH]; cbn; [reflexivity|].
    destruct (q x); cbn; [destruct (p x); now rewrite IH|apply IH].
  Qed.

  Lemma filter_comm : forall {A} (p q : A -> bool) l, filter p (filter q l) = filter q (filter p l).
  Proof.
    intros. rewrite !filter_filter. apply filter_ext. intros x. apply andb_comm.
  Qed.

  (* ------------------------------------------------------------------ *)
  (* 3. disabling codes                                                  *)

  Definition not_in (S : list N) (d : diag) : bool := negb (mem_N (d_code d) S).

  Lemma live_disable : forall S st f d,
    live (disable S st) f d = live st f d && not_in S d.
  Proof.
    intros. unfold Suppress.live, disable, not_in.
    destruct (st (d_code d)), (mem_N (d_code d) S), (Suppress.file_level IGN name f (Some (d_code d))); reflexivity.
  Qed.

  Theorem disable_main_projection : forall S st f raw,
    main (disable S st) f raw = filter (not_in S) (main st f raw).
  Proof.
    intros. rewrite !main_is_projection. unfold Suppress.main_spec.
    rewrite (filter_ext _ _ (live_disable S st f)).
    rewrite <- filter_filter.
    unfold Suppress.dedup. unfold not_in at 1.
    rewrite (dedup_filter_code (fun c => negb (mem_N c S))).
    apply filter_comm.
  Qed.

  (* file_level does not look at settings; the tail passes *)
  Lemma tail_step_disable : forall S st f d,
    tail_step (disable S st) f d = filter (not_in S) (tail_step st f d).
  Proof.
    intros. unfold Suppress.tail_step, disable, not_in.
    destruct (st (d_code d)); cbn; [|reflexivity].
    destruct (mem_N (d_code d) S) eqn:M; cbn.
    - destruct (Suppress.file_level IGN name f (Some (d_code d))); cbn; [reflexivity|]. now rewrite M.
    - destruct (Suppress.file_level IGN name f (Some (d_code d))); cbn; [reflexivity|]. now rewrite M.
  Qed.

  Lemma flat_map_filter : forall {A B} (g : A -> list B) (p : B -> bool) l,
    filter p (flat_map g l) = flat_map (fun x => filter p (g x)) l.
  Proof.
    intros A B g p l. induction l as [|x r IH]; cbn; [reflexivity|].
    now rewrite filter_app, IH.
  Qed.

  Lemma tail_unused_disable : forall S st f U usd,
    tail_unused (disable S st) f U usd = filter (not_in S) (tail_unused st f U usd).
  Proof.
    intros. unfold Suppress.tail_unused. rewrite flat_map_filter.
    apply flat_map_ext. intros a. apply tail_step_disable.
  Qed.

  Lemma tail_bare_disable : forall S st f B,
    tail_bare (disable S st) f B = filter (not_in S) (tail_bare st f B).
  Proof.
    intros. unfold Suppress.tail_bare.
    destruct (Suppress.file_level IGN name f None); [reflexivity|].
    rewrite flat_map_filter. apply flat_map_ext. intros a. apply tail_step_disable.
  Qed.

  (* same set of used comment lines (as far as unused_lines can tell) *)
  Definition same_used (f : file) (u1 u2 : list nat) : Prop :=
    forall i, i < length f -> has_any IGN (nth i f []) = true -> mem_nat i u1 = mem_nat i u2.

  Lemma enum_from_spec : forall {A} (l : list A) k i x,
    In (i, x) (enum_from k l) <-> k <= i /\ nth_error l (i - k) = Some x.
  Proof.
    intros A l. induction l as [|y r IH]; intros k i x; cbn.
    - split; [tauto|]. intros [_ H]. destruct (i - k); discriminate.
    - rewrite IH. split.
      + intros [E|[L H]].
        * inversion E; subst. split; [lia|]. now rewrite Nat.sub_diag.
        * split; [lia|]. replace (i - k) with (S (i - S k)) by lia. exact H.
      + intros [L H]. destruct (Nat.eq_dec i k) as [->|NE].
        * rewrite Nat.sub_diag in H. cbn in H. left. congruence.
        * right. split; [lia|]. replace (i - k) with (S (i - S k)) in H by lia. exact H.
  Qed.

  Lemma unused_lines_ext : forall f u1 u2, same_used f u1 u2 ->
    unused_lines IGN f u1 = unused_lines IGN f u2.
  Proof.
    intros f u1 u2 SU. unfold unused_lines. apply filter_ext_in.
    intros [i l] IN. apply enum_from_spec in IN. destruct IN as [_ NE]. rewrite Nat.sub_0_r in NE.
    cbn [fst snd]. destruct (has_any IGN l) eqn:HA; [|reflexivity]. cbn. f_equal.
    apply SU.
    - apply nth_error_Some. congruence.
    - now rewrite (nth_error_nth _ _ _ NE).
  Qed.

  Theorem disable_emit_projection : forall S st f U B raw,
    same_used f (used (run_raw (disable S st) f raw)) (used (run_raw st f raw)) ->
    emit (disable S st) f U B raw = filter (not_in S) (emit st f U B raw).
  Proof.
    intros S st f U B raw SU. unfold Suppress.emit.
    rewrite !filter_app. f_equal; [apply disable_main_projection|]. f_equal.
    - rewrite tail_unused_disable. unfold Suppress.tail_unused.
      now rewrite (unused_lines_ext _ _ _ SU).
    - apply tail_bare_disable.
  Qed.

  (* a file without any ignore text: nothing in the tail, trivially same_used *)
  Definition comment_free (f : file) : Prop := forall l, In l f -> has_any IGN l = false.

  Lemma comment_free_same_used : forall f u1 u2, comment_free f -> same_used f u1 u2.
  Proof.
    intros f u1 u2 CF i L HA. rewrite (CF (nth i f [])) in HA; [discriminate|]. now apply nth_In.
  Qed.

  Corollary disable_emit_projection_comment_free : forall S st f U B raw,
    comment_free f -> emit (disable S st) f U B raw = filter (not_in S) (emit st f U B raw).
  Proof. intros. apply disable_emit_projection. now apply comment_free_same_used. Qed.

  (* ------------------------------------------------------------------ *)
  (* 3b. end to end: the raw stream under the disabling configuration    *)

  (* show_error drops a call of a disabled code before anything else: the output only
     depends on the calls of enabled codes *)
  Lemma main_ignores_disabled : forall st f raw,
    main st f raw = main st f (filter (fun d => st (d_code d)) raw).
  Proof.
    intros. rewrite !main_is_projection. unfold Suppress.main_spec. rewrite filter_filter.
    f_equal. f_equal. apply filter_ext. intros d. unfold Suppress.live.
    destruct (st (d_code d)); reflexivity.
  Qed.

  (* the hypothesis that the harness checks per program: restricted to the codes that stay
     enabled, the checker makes the same show_error calls with and without the codes of S *)
  Definition raw_indep (S : list N) (st : settings) (raw raw' : list diag) : Prop :=
    filter (fun d => disable S st (d_code d)) raw' = filter (fun d => disable S st (d_code d)) raw.

  Theorem disable_end_to_end : forall S st f raw raw',
    raw_indep S st raw raw' ->
    main (disable S st) f raw' = filter (not_in S) (main st f raw).
  Proof.
    intros S st f raw raw' H. rewrite (main_ignores_disabled (disable S st) f raw').
    unfold raw_indep in H. rewrite H. rewrite <- main_ignores_disabled. apply disable_main_projection.
  Qed.

  Lemma comment_free_emit : forall st f U B raw, comment_free f -> emit st f U B raw = main st f raw.
  Proof.
    intros st f U B raw CF. unfold Suppress.emit, Suppress.main.
    assert (E : forall (q : nat * line -> bool) k,
              filter (fun il => has_any IGN (snd il) && q il) (enum_from k f) = []).
    { intros q. induction f as [|l r IHr]; intros k; [reflexivity|]. cbn [enum_from filter snd].
      rewrite (CF l) by now left. cbn [andb]. apply IHr. intros x IN. apply CF. now right. }
    unfold Suppress.tail_unused, Suppress.tail_bare, unused_lines, bare_lines. rewrite !E. cbn [flat_map].
    destruct (Suppress.file_level IGN name f None); now rewrite !app_nil_r.
  Qed.

  Corollary disable_end_to_end_comment_free : forall S st f U B raw raw',
    comment_free f -> raw_indep S st raw raw' ->
    emit (disable S st) f U B raw' = filter (not_in S) (emit st f U B raw).
  Proof. intros. rewrite !comment_free_emit by assumption. now apply disable_end_to_end. Qed.

  (* ------------------------------------------------------------------ *)
  (* 4. which comment lines are credited (used_ignores)                  *)

  Definition fl_credit (st : settings) (f : file) (raw : list diag) : list nat :=
    flat_map (fun d => if st (d_code d)
                       then match file_level f (Some (d_code d)) with Some i => [i] | None => [] end
                       else []) raw.

  Definition line_credit_from (sn : list key) (st : settings) (f : file) (raw : list diag) : list nat :=
    flat_map (fun d => match suppressor f d with Some i => [i] | None => [] end)
             (dedup_from sn (filter (live st f) raw)).

  Definition credit (st : settings) (f : file) (raw : list diag) : list nat :=
    fl_credit st f raw ++ line_credit_from [] st f raw.

  Lemma fold_step_used : forall st f raw s i,
    In i (used (fold_left (step st f) raw s))
    <-> In i (used s) \/ In i (fl_credit st f raw) \/ In i (line_credit_from (seen s) st f raw).
  Proof.
    intros st f raw. induction raw as [|d raw IH]; intros s i; cbn [fold_left].
    - unfold fl_credit, line_credit_from. cbn. tauto.
    - rewrite IH. unfold fl_credit, line_credit_from. cbn [flat_map filter].
      unfold Suppress.step, Suppress.live.
      destruct (st (d_code d)); cbn [negb andb]; [|cbn; tauto].
      destruct (Suppress.file_level IGN name f (Some (d_code d))) eqn:FL.
      + cbn [used add_used seen In app]. tauto.
      + cbn [app dedup_from]. destruct (mem_key (dkey d) (seen s)) eqn:M; [tauto|].
        cbn [flat_map]. rewrite in_app_iff. unfold Suppress.suppressor at 2.
        destruct (d_obey d); [destruct (d_line d) as [ln|]|].
        * destruct (Suppress.line_ignore IGN name f ln (d_code d));
            cbn [used add_used add_seen push seen In app]; tauto.
        * cbn [used add_used add_seen push seen In app]; tauto.
        * cbn [used add_used add_seen push seen In app]; tauto.
  Qed.

  Theorem used_is_credit : forall st f raw i,
    In i (used (run_raw st f raw)) <-> In i (credit st f raw).
  Proof.
    intros. unfold Suppress.run_raw, credit. rewrite fold_step_used, in_app_iff. cbn. tauto.
  Qed.

  Lemma mem_nat_In : forall i l, mem_nat i l = true <-> In i l.
  Proof.
    intros i l. unfold mem_nat. rewrite existsb_exists. split.
    - intros [x [IN E]]. apply Nat.eqb_eq in E. now subst.
    - intros IN. exists i. split; [assumption|apply Nat.eqb_refl].
  Qed.

  (* an ignore comment is reported unused exactly when it is credited with nothing *)
  Theorem unused_iff_not_credited : forall st f U raw i l,
    nth_error f i = Some l -> has_any IGN l = true ->
    st U = true -> file_level f (Some U) = None ->
    (In (fake U i l) (tail_unused st f U (used (run_raw st f raw))) <-> ~ In i (credit st f raw)).
  Proof.
    intros st f U raw i l NE HA EN FL. rewrite <- used_is_credit.
    unfold Suppress.tail_unused. rewrite in_flat_map. split.
    - intros [[j l'] [IN TS]]. unfold unused_lines in IN. apply filter_In in IN.
      destruct IN as [IN C]. cbn [fst snd] in *.
      unfold Suppress.tail_step in TS. cbn [d_code Suppress.fake] in TS. rewrite EN, FL in TS. cbn in TS.
      destruct TS as [E|[]]. inversion E; subst j.
      apply andb_true_iff in C. destruct C as [_ C]. apply negb_true_iff in C.
      intros IN'. apply mem_nat_In in IN'. congruence.
    - intros NI. exists (i, l). split.
      + unfold unused_lines. apply filter_In. split.
        * apply enum_from_spec. split; [lia|]. now rewrite Nat.sub_0_r.
        * cbn [fst snd]. rewrite HA. cbn. apply negb_true_iff.
          destruct (mem_nat i (used (run_raw st f raw))) eqn:M; [|reflexivity].
          apply mem_nat_In in M. contradiction.
      + unfold Suppress.tail_step. cbn [d_code Suppress.fake fst snd]. rewrite EN, FL. cbn. now left.
  Qed.

  (* ------------------------------------------------------------------ *)
  (* 5. what a comment line can suppress: exactly its own / the next line *)

  Definition trailing_hit (l : line) (c : N) : bool := has_bare IGN l || has_tag IGN name c l.
  Definition own_hit (l : line) (c : N) : bool := own_bare IGN l || own_tag IGN name c l.

  Theorem suppressor_exact : forall f d i,
    suppressor f d = Some i <->
    d_obey d = true /\ exists ln, d_line d = Some ln /\
      ((i = ln - 1 /\ trailing_hit (line_at f (ln - 1)) (d_code d) = true)
       \/ (i = ln - 2 /\ 2 <= ln /\ trailing_hit (line_at f (ln - 1)) (d_code d) = false
           /\ own_hit (line_at f (ln - 2)) (d_code d) = true)).
  Proof.
    intros f d i. unfold Suppress.suppressor, Suppress.line_ignore, trailing_hit, own_hit.
    destruct (d_obey d); [|split; [discriminate|intros [H _]; discriminate]].
    destruct (d_line d) as [ln|]; [|split; [discriminate|intros [_ [ln [H _]]]; discriminate]].
    destruct (has_bare IGN (line_at f (ln - 1)) || has_tag IGN name (d_code d) (line_at f (ln - 1))) eqn:T.
    - split.
      + intros E. inversion E; subst. split; [reflexivity|]. exists ln. split; [reflexivity|]. left. now split.
      + intros [_ [ln' [E H]]]. inversion E; subst ln'. destruct H as [[-> _]|[_ [_ [C _]]]]; [reflexivity|congruence].
    - destruct (2 <=? ln) eqn:L2; cbn [andb].
      + apply Nat.leb_le in L2.
        destruct (own_bare IGN (line_at f (ln - 2)) || own_tag IGN name (d_code d) (line_at f (ln - 2))) eqn:O.
        * split.
          -- intros E. inversion E; subst. split; [reflexivity|]. exists ln. split; [reflexivity|]. right. auto.
          -- intros [_ [ln' [E H]]]. inversion E; subst ln'. destruct H as [[_ C]|[-> _]]; [congruence|reflexivity].
        * split; [discriminate|]. intros [_ [ln' [E H]]]. inversion E; subst ln'.
          destruct H as [[_ C]|[_ [_ [_ C]]]]; congruence.
      + apply Nat.leb_gt in L2. split; [discriminate|]. intros [_ [ln' [E H]]]. inversion E; subst ln'.
        destruct H as [[_ C]|[_ [C _]]]; [congruence|lia].
  Qed.

  (* ------------------------------------------------------------------ *)
  (* 6. file-level ignore                                                *)

  Lemma fl_scan_none_some : forall c ls k i, fl_scan IGN name None ls k = Some i ->
    exists j, fl_scan IGN name (Some c) ls k = Some j.
  Proof.
    intros c ls. induction ls as [|l r IH]; intros k i H; cbn in *; [discriminate|].
    destruct (starts_hash l); cbn in *; [|discriminate].
    destruct (own_bare IGN l); cbn in *; [eauto|].
    destruct (own_tag IGN name c l); [eauto|]. eapply IH; eauto.
  Qed.

  Lemma main_spec_no_file_level : forall st f raw c i,
    file_level f (Some c) = Some i -> forall d, In d (main st f raw) -> d_code d <> c.
  Proof.
    intros st f raw c i FL d IN E. rewrite main_is_projection in IN. unfold Suppress.main_spec in IN.
    apply filter_In in IN. destruct IN as [IN _].
    assert (LV : forall sn l x, In x (dedup_from sn l) -> In x l).
    { intros sn l. revert sn. induction l as [|y r IH]; intros sn x; cbn; [tauto|].
      destruct (mem_key (dkey y) sn); [intros H; right; eapply IH; eauto|].
      intros [->|H]; [now left|right; eapply IH; eauto]. }
    apply LV in IN. apply filter_In in IN. destruct IN as [_ L].
    unfold Suppress.live in L. rewrite E, FL in L. now rewrite andb_false_r in L.
  Qed.

  Lemma tail_step_code : forall st f d x, In x (tail_step st f d) ->
    x = d /\ file_level f (Some (d_code d)) = None /\ st (d_code d) = true.
  Proof.
    intros st f d x. unfold Suppress.tail_step. destruct (st (d_code d)); cbn; [|tauto].
    destruct (Suppress.file_level IGN name f (Some (d_code d))); cbn; [tauto|].
    intros [->|[]]. auto.
  Qed.

  Theorem file_level_code_suppresses_all : forall st f U B raw c i,
    file_level f (Some c) = Some i -> forall d, In d (emit st f U B raw) -> d_code d <> c.
  Proof.
    intros st f U B raw c i FL d IN. unfold Suppress.emit in IN.
    apply in_app_or in IN. destruct IN as [IN|IN]; [eapply main_spec_no_file_level; eauto|].
    apply in_app_or in IN. destruct IN as [IN|IN].
    - unfold Suppress.tail_unused in IN. apply in_flat_map in IN. destruct IN as [il [_ TS]].
      apply tail_step_code in TS. destruct TS as [-> [FL' _]]. intros E. rewrite E in FL'. congruence.
    - unfold Suppress.tail_bare in IN. destruct (Suppress.file_level IGN name f None); [contradiction|].
      apply in_flat_map in IN. destruct IN as [il [_ TS]].
      apply tail_step_code in TS. destruct TS as [-> [FL' _]]. intros E. rewrite E in FL'. congruence.
  Qed.

  Theorem file_level_bare_suppresses_everything : forall st f U B raw i,
    file_level f None = Some i -> emit st f U B raw = [].
  Proof.
    intros st f U B raw i FL.
    destruct (emit st f U B raw) as [|d r] eqn:E; [reflexivity|exfalso].
    destruct (fl_scan_none_some (d_code d) f 0 i FL) as [j FLc].
    apply (file_level_code_suppresses_all st f U B raw (d_code d) j FLc d); [|reflexivity].
    rewrite E. now left.
  Qed.

  (* order: the emitted main diagnostics are a sub-list of the raw stream *)
  Inductive sublist {A} : list A -> list A -> Prop :=
  | sub_nil : sublist [] []
  | sub_skip : forall x l1 l2, sublist l1 l2 -> sublist l1 (x :: l2)
  | sub_keep : forall x l1 l2, sublist l1 l2 -> sublist (x :: l1) (x :: l2).

  Lemma sublist_filter : forall {A} (p : A -> bool) l, sublist (filter p l) l.
  Proof. intros A p l. induction l as [|x r IH]; cbn; [constructor|]. destruct (p x); now constructor. Qed.

  Lemma sublist_dedup : forall sn l, sublist (dedup_from sn l) l.
  Proof.
    intros sn l. revert sn. induction l as [|x r IH]; intros sn; cbn; [constructor|].
    destruct (mem_key (dkey x) sn); constructor; apply IH.
  Qed.

  Lemma sublist_trans : forall {A} (a b c : list A), sublist a b -> sublist b c -> sublist a c.
  Proof.
    intros A a b c H1 H2. revert a H1. induction H2; intros a H1.
    - assumption.
    - constructor. now apply IHsublist.
    - inversion H1; subst; constructor; now apply IHsublist.
  Qed.

  Theorem main_order_preserved : forall st f raw, sublist (main st f raw) raw.
  Proof.
    intros. rewrite main_is_projection. unfold Suppress.main_spec, Suppress.dedup.
    eapply sublist_trans; [apply sublist_filter|].
    eapply sublist_trans; [apply sublist_dedup|apply sublist_filter].
  Qed.
End Proofs.
