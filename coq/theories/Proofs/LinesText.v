(* Proofs/LinesText.v — character-level facts.  The generic ones are proved
   for every text; the ones about the generated constants (Gen/Codes.v:
   IGNORE_COMMENT, the registry) are finite and decided by vm_compute, so they
   are re-checked against the current source on every run. *)
From Coq Require Import List Bool NArith Arith Lia.
Import ListNotations.
Require Import PV.Lines.Text PV.Lines.Suppress PV.Lines.Place PV.Proofs.LinesSuppress.
Require Import PV.Gen.Codes.

(* ---------------- generic ---------------- *)

Lemma list_N_eqb_eq : forall a b, list_N_eqb a b = true <-> a = b.
Proof.
  induction a as [|x a IH]; destruct b as [|y b]; cbn.
  - tauto.
  - split; discriminate.
  - split; discriminate.
  - rewrite andb_true_iff, N.eqb_eq, IH. split; [intros [-> ->]; reflexivity|intros E; inversion E; auto].
Qed.

Lemma lstrip_spaces : forall k s, lstrip (repeat space_char k ++ s) = lstrip s.
Proof. induction k as [|k IH]; intros s; cbn; [reflexivity|apply IH]. Qed.

Lemma strip_spaces : forall k s, strip (repeat space_char k ++ s) = strip s.
Proof. intros. unfold strip. now rewrite lstrip_spaces. Qed.

(* a pattern that starts with a non-space character cannot start on a space *)
Definition starts_nonspace (p : list N) : bool :=
  match p with h :: _ => negb (N.eqb h space_char) | [] => false end.

Lemma prefix_space : forall p s, starts_nonspace p = true -> prefix p (space_char :: s) = false.
Proof.
  intros [|h t] s H; cbn in *; [discriminate|].
  apply negb_true_iff in H. now rewrite H.
Qed.

Lemma substr_spaces : forall p k s, starts_nonspace p = true ->
  substr p (repeat space_char k ++ s) = substr p s.
Proof.
  intros p k s H. induction k as [|k IH]; [reflexivity|].
  cbn [repeat app substr]. rewrite prefix_space by assumption. apply IH.
Qed.

Lemma starts_nonspace_app : forall p q, starts_nonspace p = true -> starts_nonspace (p ++ q) = true.
Proof. intros [|h t] q H; [discriminate|exact H]. Qed.

Lemma has_bare_spaces : forall IGN k s, starts_nonspace IGN = true ->
  has_bare IGN (repeat space_char k ++ s) = has_bare IGN s.
Proof.
  intros IGN k s H. induction k as [|k IH]; [reflexivity|].
  cbn [repeat app has_bare]. rewrite prefix_space by assumption. apply IH.
Qed.

(* ---------------- the generated constants ---------------- *)

Definition name_char (c : N) : bool := ((97 <=? c) && (c <=? 122) || (c =? 95))%N.

Fixpoint nodupb (l : list (list N)) : bool :=
  match l with
  | [] => true
  | x :: r => negb (existsb (list_N_eqb x) r) && nodupb r
  end.

Lemma nodupb_sound : forall l, nodupb l = true -> NoDup l.
Proof.
  induction l as [|x r IH]; cbn; [constructor|].
  intros H. apply andb_true_iff in H. destruct H as [H1 H2]. constructor; [|auto].
  intros IN. apply negb_true_iff in H1.
  assert (existsb (list_N_eqb x) r = true); [|congruence].
  apply existsb_exists. exists x. split; [assumption|now apply list_N_eqb_eq].
Qed.

Definition all_codes : list N := map N.of_nat (seq 0 (N.to_nat n_codes)).

Lemma all_codes_complete : forall c, (c < n_codes)%N -> In c all_codes.
Proof.
  intros c H. unfold all_codes. apply in_map_iff. exists (N.to_nat c). split; [apply N2Nat.id|].
  apply in_seq. lia.
Qed.

Notation IGN := IGNORE_COMMENT.
Notation nm := code_name.

Definition pair_ok (c c' : N) : bool :=
  Bool.eqb (own_tag IGN nm c (tag IGN nm c')) (N.eqb c c')
  && Bool.eqb (has_tag IGN nm c (tag IGN nm c')) (N.eqb c c')
  && negb (has_bare IGN (tag IGN nm c')) && negb (own_bare IGN (tag IGN nm c'))
  && has_any IGN (tag IGN nm c').

Lemma pairs_ok : forallb (fun c => forallb (pair_ok c) all_codes) all_codes = true.
Proof. vm_compute. reflexivity. Qed.

Lemma pair_ok_spec : forall c c', (c < n_codes)%N -> (c' < n_codes)%N -> pair_ok c c' = true.
Proof.
  intros c c' H H'. pose proof pairs_ok as P. rewrite forallb_forall in P.
  specialize (P c (all_codes_complete c H)). rewrite forallb_forall in P.
  exact (P c' (all_codes_complete c' H')).
Qed.

Lemma pair_ok_unpack : forall c c', (c < n_codes)%N -> (c' < n_codes)%N ->
  own_tag IGN nm c (tag IGN nm c') = N.eqb c c' /\
  has_tag IGN nm c (tag IGN nm c') = N.eqb c c' /\
  has_bare IGN (tag IGN nm c') = false /\ own_bare IGN (tag IGN nm c') = false /\
  has_any IGN (tag IGN nm c') = true.
Proof.
  intros c c' H H'. pose proof (pair_ok_spec c c' H H') as P. unfold pair_ok in P.
  apply andb_true_iff in P. destruct P as [P P5].
  apply andb_true_iff in P. destruct P as [P P4].
  apply andb_true_iff in P. destruct P as [P P3].
  apply andb_true_iff in P. destruct P as [P1 P2].
  apply Bool.eqb_prop in P1. apply Bool.eqb_prop in P2.
  apply negb_true_iff in P3. apply negb_true_iff in P4. auto.
Qed.

Lemma length_names : length code_names = N.to_nat n_codes.
Proof. vm_compute. reflexivity. Qed.

Theorem codes_well_formed :
  NoDup code_names /\
  (forall n, In n code_names -> n <> [] /\ forallb name_char n = true) /\
  (forall c c', (c < n_codes)%N -> (c' < n_codes)%N ->
     own_tag IGN nm c (tag IGN nm c') = N.eqb c c' /\
     has_tag IGN nm c (tag IGN nm c') = N.eqb c c' /\
     has_bare IGN (tag IGN nm c') = false /\ own_bare IGN (tag IGN nm c') = false) /\
  has_bare IGN IGN = true /\ own_bare IGN IGN = true /\ starts_hash IGN = true.
Proof.
  split; [apply nodupb_sound; vm_compute; reflexivity|].
  split.
  { assert (A : forallb (fun n => negb (list_N_eqb n []) && forallb name_char n) code_names = true)
      by (vm_compute; reflexivity).
    rewrite forallb_forall in A. intros n IN. specialize (A n IN).
    apply andb_true_iff in A. destruct A as [A1 A2]. split; [|exact A2].
    intros ->. discriminate. }
  split.
  { intros c c' H H'. destruct (pair_ok_unpack c c' H H') as [A1 [A2 [A3 [A4 _]]]]. auto. }
  repeat split; vm_compute; reflexivity.
Qed.

Lemma ign_nonspace : starts_nonspace IGN = true.
Proof. vm_compute. reflexivity. Qed.

Lemma tag_nonspace : forall c, starts_nonspace (tag IGN nm c) = true.
Proof. intros. unfold tag. apply starts_nonspace_app, ign_nonspace. Qed.

Theorem comment_line_features : forall k c c', (c < n_codes)%N -> (c' < n_codes)%N ->
  own_hit IGN nm (comment_line IGN nm k (Some c)) c' = N.eqb c' c /\
  trailing_hit IGN nm (comment_line IGN nm k (Some c)) c' = N.eqb c' c /\
  starts_hash (comment_line IGN nm k (Some c)) = Nat.eqb k 0 /\
  has_any IGN (comment_line IGN nm k (Some c)) = true.
Proof.
  intros k c c' H H'. destruct (pair_ok_unpack c' c H' H) as [P [H2 [H1 [H0 H3]]]].
  unfold own_hit, trailing_hit, comment_line, own_bare, own_tag, has_tag, has_any.
  rewrite strip_spaces, has_bare_spaces by apply ign_nonspace.
  rewrite !substr_spaces by (apply tag_nonspace || apply ign_nonspace).
  fold (own_bare IGN (tag IGN nm c)). fold (own_tag IGN nm c' (tag IGN nm c)).
  fold (has_tag IGN nm c' (tag IGN nm c)). fold (has_any IGN (tag IGN nm c)).
  rewrite H0, H1, P, H2. cbn [orb]. split; [reflexivity|]. split; [reflexivity|]. split; [|exact H3].
  destruct k; [vm_compute; reflexivity|reflexivity].
Qed.

(* the same for the bare comment *)
Theorem bare_comment_line_features : forall k c',
  own_hit IGN nm (comment_line IGN nm k None) c' = true /\
  trailing_hit IGN nm (comment_line IGN nm k None) c' = true /\
  starts_hash (comment_line IGN nm k None) = Nat.eqb k 0.
Proof.
  intros k c'. unfold own_hit, trailing_hit, comment_line, own_bare.
  rewrite strip_spaces, has_bare_spaces by apply ign_nonspace.
  assert (A : list_N_eqb (strip IGN) IGN = true) by (vm_compute; reflexivity).
  assert (B : has_bare IGN IGN = true) by (vm_compute; reflexivity).
  rewrite A, B. cbn [orb]. split; [reflexivity|]. split; [reflexivity|].
  destruct k; [vm_compute; reflexivity|reflexivity].
Qed.

(* ---------------- concrete witnesses ---------------- *)

(* before the repair: a last-line comment acts on line 1 *)
Theorem wrap_refuted : exists f c,
  line_ignore_wrap IGN nm f 1 c = Some (length f - 1) /\ length f > 2 /\ line_ignore IGN nm f 1 c = None.
Proof.
  exists [[120%N]; [121%N]; IGN], 3%N. vm_compute. repeat split; lia.
Qed.

(* disabling the code an ignore[code] comment is for makes the comment unused *)
Theorem disable_full_counterexample : exists S st f raw,
  emit IGN nm (disable S st) f unused_ignore_code bare_ignore_code raw
  <> filter (not_in S) (emit IGN nm st f unused_ignore_code bare_ignore_code raw).
Proof.
  exists [3%N], (fun _ => true), [[120%N; 32%N] ++ tag IGN nm 3%N], [mk_diag 1 3 (Some 1) 0 true].
  vm_compute. discriminate.
Qed.

(* ---------------- the two known findings, on the model ---------------- *)

(* the model (like the code) looks at the text of a line, not at its tokens:
   the ignore text inside a string literal acts as a comment.
   Line:  s = '# static analysis: ignore'; print(x)  *)
Definition string_literal_line : line :=
  [115%N; 32%N; 61%N; 32%N; 39%N] ++ IGN ++ [39%N; 59%N; 32%N; 112%N; 114%N; 105%N; 110%N; 116%N; 40%N; 120%N; 41%N].

Theorem ignore_text_in_string_acts : forall c,
  trailing_hit IGN nm string_literal_line c = true /\ has_any IGN string_literal_line = true.
Proof. intros c. split; vm_compute; reflexivity. Qed.

(* contents.splitlines() splits at a form feed (12) that the tokenizer keeps
   inside line 1: the trailing comment of the tokenizer's line 2 is then
   lines[2], and the lookup for a diagnostic on line 2 misses it *)
Definition ff_line_a : line := [115%N; 32%N; 61%N; 32%N; 39%N; 97%N].
Definition ff_line_b : line := [98%N; 39%N].
Definition ff_line_2 : line := [112%N; 114%N; 105%N; 110%N; 116%N; 40%N; 120%N; 41%N; 32%N; 32%N] ++ IGN.

Theorem splitlines_shift_acts : forall c,
  Suppress.line_ignore IGN nm [ff_line_a ++ [12%N] ++ ff_line_b; ff_line_2] 2 c = Some 1 /\
  Suppress.line_ignore IGN nm [ff_line_a; ff_line_b; ff_line_2] 2 c = None.
Proof.
  intros c. unfold Suppress.line_ignore, line_at. cbn [nth Nat.sub].
  assert (A : has_bare IGN ff_line_2 = true) by (vm_compute; reflexivity).
  assert (B : has_bare IGN ff_line_b = false) by (vm_compute; reflexivity).
  assert (C : has_any IGN ff_line_b = false) by (vm_compute; reflexivity).
  assert (D : own_bare IGN ff_line_a = false) by (vm_compute; reflexivity).
  assert (E : forall t, substr (IGN ++ t) ff_line_b = false).
  { intros t. vm_compute. reflexivity. }
  assert (F : forall t, list_N_eqb (strip ff_line_a) (IGN ++ t) = false).
  { intros t. vm_compute. reflexivity. }
  split.
  - cbn [Nat.leb]. now rewrite A.
  - rewrite B. unfold has_tag, tag. rewrite E. cbn [orb Nat.leb andb].
    rewrite D. unfold own_tag, tag. now rewrite F.
Qed.
