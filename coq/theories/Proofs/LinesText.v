(* Proofs/LinesText.v — character-level facts.  The generic ones are proved
   for every text; the ones about the generated constants (Gen/Codes.v:
   IGNORE_COMMENT, the registry) are finite and decided by vm_compute, so they
   are re-checked against the current source on every run. *)
From Coq Require Import List Bool NArith Arith Lia.
Import ListNotations.
Require Import PV.Lines.Text PV.Lines.Suppress PV.Lines.Place PV.Lines.Fixer PV.Proofs.LinesSuppress.
Require Import PV.Gen.Codes.

(* ---------------- generic ---------------- *)

Lemma list_N_eqb_eq : forall a b, list_N_eqb a b = true <-> a = b.
Proof.
  induction a as [|x a IH]; destruct b as [|y b]; cbn.
  - tauto.
  - split; discriminate.
  - split; discriminate.
  - rewrite andb_true_iff, N.eqb_eq, IH. split; [intros [-> ->]; reflexivity|intros E; inversion E; auto].
Qed.

Lemma lstrip_spaces : forall k s, lstrip (repeat space_char k ++ s) = lstrip s.
Proof. induction k as [|k IH]; intros s; cbn; [reflexivity|apply IH]. Qed.

Lemma strip_spaces : forall k s, strip (repeat space_char k ++ s) = strip s.
Proof. intros. unfold strip. now rewrite lstrip_spaces. Qed.

(* a pattern that starts with a non-space character cannot start on a space *)
Definition starts_nonspace (p : list N) : bool :=
  match p with h :: _ => negb (N.eqb h space_char) | [] => false end.

Lemma prefix_space : forall p s, starts_nonspace p = true -> prefix p (space_char :: s) = false.
Proof.
  intros [|h t] s H; cbn in *; [discriminate|].
  apply negb_true_iff in H. now rewrite H.
Qed.

Lemma substr_spaces : forall p k s, starts_nonspace p = true ->
  substr p (repeat space_char k ++ s) = substr p s.
Proof.
  intros p k s H. induction k as [|k IH]; [reflexivity|].
  cbn [repeat app substr]. rewrite prefix_space by assumption. apply IH.
Qed.

Lemma starts_nonspace_app : forall p q, starts_nonspace p = true -> starts_nonspace (p ++ q) = true.
Proof. intros [|h t] q H; [discriminate|exact H]. Qed.

Lemma has_bare_spaces : forall IGN k s, starts_nonspace IGN = true ->
  has_bare IGN (repeat space_char k ++ s) = has_bare IGN s.
Proof.
  intros IGN k s H. induction k as [|k IH]; [reflexivity|].
  cbn [repeat app has_bare]. rewrite prefix_space by assumption. apply IH.
Qed.

(* ---------------- the generated constants ---------------- *)

Definition name_char (c : N) : bool := ((97 <=? c) && (c <=? 122) || (c =? 95))%N.

Fixpoint nodupb (l : list (list N)) : bool :=
  match l with
  | [] => true
  | x :: r => negb (existsb (list_N_eqb x) r) && nodupb r
  end.

Lemma nodupb_sound : forall l, nodupb l = true -> NoDup l.
Proof.
  induction l as [|x r IH]; cbn; [constructor|].
  intros H. apply andb_true_iff in H. destruct H as [H1 H2]. constructor; [|auto].
  intros IN. apply negb_true_iff in H1.
  assert (existsb (list_N_eqb x) r = true); [|congruence].
  apply existsb_exists. exists x. split; [assumption|now apply list_N_eqb_eq].
Qed.

Definition all_codes : list N := map N.of_nat (seq 0 (N.to_nat n_codes)).

Lemma all_codes_complete : forall c, (c < n_codes)%N -> In c all_codes.
Proof.
  intros c H. unfold all_codes. apply in_map_iff. exists (N.to_nat c). split; [apply N2Nat.id|].
  apply in_seq. lia.
Qed.

Notation IGN := IGNORE_COMMENT.
Notation nm := code_name.

Definition pair_ok (c c' : N) : bool :=
  Bool.eqb (own_tag IGN nm c (tag IGN nm c')) (N.eqb c c')
  && Bool.eqb (has_tag IGN nm c (tag IGN nm c')) (N.eqb c c')
  && negb (has_bare IGN (tag IGN nm c')) && negb (own_bare IGN (tag IGN nm c'))
  && has_any IGN (tag IGN nm c').

Lemma pairs_ok : forallb (fun c => forallb (pair_ok c) all_codes) all_codes = true.
Proof. vm_compute. reflexivity. Qed.

Lemma pair_ok_spec : forall c c', (c < n_codes)%N -> (c' < n_codes)%N -> pair_ok c c' = true.
Proof.
  intros c c' H H'. pose proof pairs_ok as P. rewrite forallb_forall in P.
  specialize (P c (all_codes_complete c H)). rewrite forallb_forall in P.
  exact (P c' (all_codes_complete c' H')).
Qed.

Lemma pair_ok_unpack : forall c c', (c < n_codes)%N -> (c' < n_codes)%N ->
  own_tag IGN nm c (tag IGN nm c') = N.eqb c c' /\
  has_tag IGN nm c (tag IGN nm c') = N.eqb c c' /\
  has_bare IGN (tag IGN nm c') = false /\ own_bare IGN (tag IGN nm c') = false /\
  has_any IGN (tag IGN nm c') = true.
Proof.
  intros c c' H H'. pose proof (pair_ok_spec c c' H H') as P. unfold pair_ok in P.
  apply andb_true_iff in P. destruct P as [P P5].
  apply andb_true_iff in P. destruct P as [P P4].
  apply andb_true_iff in P. destruct P as [P P3].
  apply andb_true_iff in P. destruct P as [P1 P2].
  apply Bool.eqb_prop in P1. apply Bool.eqb_prop in P2.
  apply negb_true_iff in P3. apply negb_true_iff in P4. auto.
Qed.

Lemma length_names : length code_names = N.to_nat n_codes.
Proof. vm_compute. reflexivity. Qed.

Theorem codes_well_formed :
  NoDup code_names /\
  (forall n, In n code_names -> n <> [] /\ forallb name_char n = true) /\
  (forall c c', (c < n_codes)%N -> (c' < n_codes)%N ->
     own_tag IGN nm c (tag IGN nm c') = N.eqb c c' /\
     has_tag IGN nm c (tag IGN nm c') = N.eqb c c' /\
     has_bare IGN (tag IGN nm c') = false /\ own_bare IGN (tag IGN nm c') = false) /\
  has_bare IGN IGN = true /\ own_bare IGN IGN = true /\ starts_hash IGN = true.
Proof.
  split; [apply nodupb_sound; vm_compute; reflexivity|].
  split.
  { assert (A : forallb (fun n => negb (list_N_eqb n []) && forallb name_char n) code_names = true)
      by (vm_compute; reflexivity).
    rewrite forallb_forall in A. intros n IN. specialize (A n IN).
    apply andb_true_iff in A. destruct A as [A1 A2]. split; [|exact A2].
    intros ->. discriminate. }
  split.
  { intros c c' H H'. destruct (pair_ok_unpack c c' H H') as [A1 [A2 [A3 [A4 _]]]]. auto. }
  repeat split; vm_compute; reflexivity.
Qed.

Lemma ign_nonspace : starts_nonspace IGN = true.
Proof. vm_compute. reflexivity. Qed.

Lemma tag_nonspace : forall c, starts_nonspace (tag IGN nm c) = true.
Proof. intros. unfold tag. apply starts_nonspace_app, ign_nonspace. Qed.

Theorem comment_line_features : forall k c c', (c < n_codes)%N -> (c' < n_codes)%N ->
  own_hit IGN nm (comment_line IGN nm k (Some c)) c' = N.eqb c' c /\
  trailing_hit IGN nm (comment_line IGN nm k (Some c)) c' = N.eqb c' c /\
  starts_hash (comment_line IGN nm k (Some c)) = Nat.eqb k 0 /\
  has_any IGN (comment_line IGN nm k (Some c)) = true.
Proof.
  intros k c c' H H'. destruct (pair_ok_unpack c' c H' H) as [P [H2 [H1 [H0 H3]]]].
  unfold own_hit, trailing_hit, comment_line, own_bare, own_tag, has_tag, has_any.
  rewrite strip_spaces, has_bare_spaces by apply ign_nonspace.
  rewrite !substr_spaces by (apply tag_nonspace || apply ign_nonspace).
  fold (own_bare IGN (tag IGN nm c)). fold (own_tag IGN nm c' (tag IGN nm c)).
  fold (has_tag IGN nm c' (tag IGN nm c)). fold (has_any IGN (tag IGN nm c)).
  rewrite H0, H1, P, H2. cbn [orb]. split; [reflexivity|]. split; [reflexivity|]. split; [|exact H3].
  destruct k; [vm_compute; reflexivity|reflexivity].
Qed.

(* the same for the bare comment *)
Theorem bare_comment_line_features : forall k c',
  own_hit IGN nm (comment_line IGN nm k None) c' = true /\
  trailing_hit IGN nm (comment_line IGN nm k None) c' = true /\
  starts_hash (comment_line IGN nm k None) = Nat.eqb k 0.
Proof.
  intros k c'. unfold own_hit, trailing_hit, comment_line, own_bare.
  rewrite strip_spaces, has_bare_spaces by apply ign_nonspace.
  assert (A : list_N_eqb (strip IGN) IGN = true) by (vm_compute; reflexivity).
  assert (B : has_bare IGN IGN = true) by (vm_compute; reflexivity).
  rewrite A, B. cbn [orb]. split; [reflexivity|]. split; [reflexivity|].
  destruct k; [vm_compute; reflexivity|reflexivity].
Qed.

(* ---------------- concrete witnesses ---------------- *)

(* before the repair: a last-line comment acts on line 1 *)
Theorem wrap_refuted : exists f c,
  line_ignore_wrap IGN nm f 1 c = Some (length f - 1) /\ length f > 2 /\ line_ignore IGN nm f 1 c = None.
Proof.
  exists [[120%N]; [121%N]; IGN], 3%N. vm_compute. repeat split; lia.
Qed.

(* disabling the code an ignore[code] comment is for makes the comment unused *)
Theorem disable_full_counterexample : exists S st f raw,
  emit IGN nm (disable S st) f unused_ignore_code bare_ignore_code raw
  <> filter (not_in S) (emit IGN nm st f unused_ignore_code bare_ignore_code raw).
Proof.
  exists [3%N], (fun _ => true), [[120%N; 32%N] ++ tag IGN nm 3%N], [mk_diag 1 3 (Some 1) 0 true].
  vm_compute. discriminate.
Qed.

(* ---------------- the two known findings, on the model ---------------- *)

(* the model (like the code) looks at the text of a line, not at its tokens:
   the ignore text inside a string literal acts as a comment.
   Line:  s = '# static analysis: ignore'; print(x)  *)
Definition string_literal_line : line :=
  [115%N; 32%N; 61%N; 32%N; 39%N] ++ IGN ++ [39%N; 59%N; 32%N; 112%N; 114%N; 105%N; 110%N; 116%N; 40%N; 120%N; 41%N].

Theorem ignore_text_in_string_acts : forall c,
  trailing_hit IGN nm string_literal_line c = true /\ has_any IGN string_literal_line = true.
Proof. intros c. split; vm_compute; reflexivity. Qed.

(* contents.splitlines() splits at a form feed (12) that the tokenizer keeps
   inside line 1: the trailing comment of the tokenizer's line 2 is then
   lines[2], and the lookup for a diagnostic on line 2 misses it *)
Definition ff_line_a : line := [115%N; 32%N; 61%N; 32%N; 39%N; 97%N].
Definition ff_line_b : line := [98%N; 39%N].
Definition ff_line_2 : line := [112%N; 114%N; 105%N; 110%N; 116%N; 40%N; 120%N; 41%N; 32%N; 32%N] ++ IGN.

Theorem splitlines_shift_acts : forall c,
  Suppress.line_ignore IGN nm [ff_line_a ++ [12%N] ++ ff_line_b; ff_line_2] 2 c = Some 1 /\
  Suppress.line_ignore IGN nm [ff_line_a; ff_line_b; ff_line_2] 2 c = None.
Proof.
  intros c. unfold Suppress.line_ignore, line_at. cbn [nth Nat.sub].
  assert (A : has_bare IGN ff_line_2 = true) by (vm_compute; reflexivity).
  assert (B : has_bare IGN ff_line_b = false) by (vm_compute; reflexivity).
  assert (C : has_any IGN ff_line_b = false) by (vm_compute; reflexivity).
  assert (D : own_bare IGN ff_line_a = false) by (vm_compute; reflexivity).
  assert (E : forall t, substr (IGN ++ t) ff_line_b = false).
  { intros t. vm_compute. reflexivity. }
  assert (F : forall t, list_N_eqb (strip ff_line_a) (IGN ++ t) = false).
  { intros t. vm_compute. reflexivity. }
  split.
  - cbn [Nat.leb]. now rewrite A.
  - rewrite B. unfold has_tag, tag. rewrite E. cbn [orb Nat.leb andb].
    rewrite D. unfold own_tag, tag. now rewrite F.
Qed.

(* ------------------------------------------------------------------ *)
(* appending a trailing comment: `rstrip line ++ "  " ++ comment`        *)

Lemma lstrip_nil_iff : forall s, lstrip s = [] <-> forallb is_space s = true.
Proof.
  induction s as [|c s IH]; cbn; [tauto|]. destruct (is_space c); cbn; [exact IH|]. split; discriminate.
Qed.

Lemma lstrip_decomp : forall s, exists w, s = w ++ lstrip s /\ forallb is_space w = true.
Proof.
  induction s as [|c s [w [E W]]]; [exists []; auto|]. cbn [lstrip]. destruct (is_space c) eqn:C.
  - exists (c :: w). cbn. rewrite C, W. split; [now f_equal|reflexivity].
  - exists []. auto.
Qed.

Lemma lstrip_head : forall s c r, lstrip s = c :: r -> is_space c = false.
Proof.
  induction s as [|x s IH]; intros c r H; cbn in H; [discriminate|].
  destruct (is_space x) eqn:X; [eauto|]. inversion H; subst. exact X.
Qed.

Lemma lstrip_app_nonblank : forall a x, lstrip a <> [] -> lstrip (a ++ x) = lstrip a ++ x.
Proof.
  induction a as [|c a IH]; intros x H; [now elim H|]. cbn in *. destruct (is_space c); [now apply IH|reflexivity].
Qed.

Lemma rstrip_decomp : forall s, exists w, s = rstrip s ++ w /\ forallb is_space w = true.
Proof.
  intros s. destruct (lstrip_decomp (rev s)) as [w [E W]]. exists (rev w). split.
  - unfold rstrip. rewrite <- rev_app_distr, <- E. now rewrite rev_involutive.
  - rewrite forallb_forall in *. intros x IN. apply W. now apply in_rev.
Qed.

Lemma rstrip_fix : forall s c r, rev s = c :: r -> is_space c = false -> rstrip s = s.
Proof. intros s c r E C. unfold rstrip. rewrite E. cbn. rewrite C. rewrite <- E. apply rev_involutive. Qed.

Lemma rstrip_nonblank : forall s, lstrip s <> [] -> lstrip (rstrip s) <> [].
Proof.
  intros s H E. apply H. destruct (rstrip_decomp s) as [w [D W]]. rewrite D.
  apply lstrip_nil_iff. rewrite forallb_app, W. apply lstrip_nil_iff in E. now rewrite E.
Qed.

(* no two consecutive spaces *)
Fixpoint no_dsp (p : list N) : bool :=
  match p with
  | a :: ((b :: _) as r) => negb (N.eqb a 32 && N.eqb b 32) && no_dsp r
  | _ => true
  end.

Definition last_nonspace (p : list N) : bool :=
  match rev p with c :: _ => negb (is_space c) | [] => false end.

(* a pattern that is a prefix of A ++ "  " ++ T lies inside A *)
Lemma prefix_app_l : forall p a x, prefix p a = true -> prefix p (a ++ x) = true.
Proof.
  induction p as [|c p IH]; intros a x H; [reflexivity|]. destruct a as [|d a]; [discriminate|]. cbn in *.
  apply andb_true_iff in H. destruct H as [H1 H2]. rewrite H1. cbn. now apply IH.
Qed.

Lemma last_nonspace_cons : forall c p, p <> [] -> last_nonspace (c :: p) = last_nonspace p.
Proof.
  intros c p H. unfold last_nonspace. cbn [rev]. destruct (rev p) as [|x r] eqn:E.
  - apply (f_equal (@rev N)) in E. rewrite rev_involutive in E. cbn in E. contradiction.
  - reflexivity.
Qed.

Lemma prefix_sep_inside : forall p a t, p <> [] -> no_dsp p = true -> last_nonspace p = true ->
  prefix p (a ++ 32%N :: 32%N :: t) = prefix p a.
Proof.
  induction p as [|c p IH]; intros a t NE ND LN; [now elim NE|].
  destruct a as [|d a].
  - cbn [app prefix]. destruct (N.eqb c 32) eqn:C; cbn; [|reflexivity].
    destruct p as [|c2 p2].
    + unfold last_nonspace in LN. cbn in LN. apply N.eqb_eq in C. subst. discriminate.
    + cbn [prefix]. destruct (N.eqb c2 32) eqn:C2; cbn; [|reflexivity].
      cbn [no_dsp] in ND. rewrite C, C2 in ND. discriminate.
  - cbn [app prefix]. destruct (N.eqb c d); cbn; [|reflexivity].
    destruct p as [|c2 p2]; [reflexivity|].
    apply IH; [discriminate| |].
    + cbn [no_dsp] in ND. apply andb_true_iff in ND. tauto.
    + rewrite last_nonspace_cons in LN by discriminate. exact LN.
Qed.

Lemma substr_sep : forall p a t, p <> [] -> no_dsp p = true -> last_nonspace p = true ->
  starts_nonspace p = true ->
  substr p (a ++ 32%N :: 32%N :: t) = substr p a || substr p t.
Proof.
  intros p a t NE ND LN SN. induction a as [|d a IH].
  - cbn [app]. change (32%N :: 32%N :: t) with (repeat space_char 2 ++ t).
    rewrite substr_spaces by assumption.
    destruct p as [|c p]; [now elim NE|]. cbn. reflexivity.
  - cbn [app substr]. rewrite IH.
    change (d :: a ++ 32%N :: 32%N :: t) with ((d :: a) ++ 32%N :: 32%N :: t).
    rewrite prefix_sep_inside by assumption. now rewrite orb_assoc.
Qed.

(* ... and a pattern ending in a non-space character never reaches into trailing whitespace *)
Lemma prefix_ws_inside : forall p a w, p <> [] -> last_nonspace p = true -> forallb is_space w = true ->
  prefix p (a ++ w) = prefix p a.
Proof.
  induction p as [|c p IH]; intros a w NE LN W; [now elim NE|].
  destruct a as [|d a].
  - cbn [app]. destruct w as [|x w]; [reflexivity|]. cbn [prefix]. cbn in W. apply andb_true_iff in W. destruct W as [X W].
    destruct (N.eqb c x) eqn:C; cbn; [|reflexivity]. apply N.eqb_eq in C. subst x.
    destruct p as [|c2 p2].
    + unfold last_nonspace in LN. cbn in LN. rewrite X in LN. discriminate.
    + specialize (IH [] w). cbn [app] in IH. rewrite IH; [reflexivity|discriminate| |exact W].
      rewrite last_nonspace_cons in LN by discriminate. exact LN.
  - cbn [app prefix]. destruct (N.eqb c d); cbn; [|reflexivity].
    destruct p as [|c2 p2]; [reflexivity|].
    apply IH; [discriminate| |exact W]. rewrite last_nonspace_cons in LN by discriminate. exact LN.
Qed.

Lemma substr_ws : forall p a w, p <> [] -> last_nonspace p = true -> forallb is_space w = true ->
  substr p (a ++ w) = substr p a.
Proof.
  intros p a w NE LN W. induction a as [|d a IH].
  - cbn [app]. induction w as [|x w IHw]; [reflexivity|]. cbn in W. apply andb_true_iff in W. destruct W as [X W].
    change (substr p (x :: w)) with (prefix p (x :: w) || substr p w). rewrite IHw by assumption.
    change (x :: w) with ([] ++ x :: w). rewrite prefix_ws_inside; [|assumption|assumption|cbn; now rewrite X, W].
    cbn [substr]. now destruct (prefix p []).
  - cbn [app substr]. rewrite IH. change (d :: a ++ w) with ((d :: a) ++ w).
    now rewrite prefix_ws_inside by assumption.
Qed.

Section Bare.
  Context (IGNp : list N).
  Hypothesis I1 : IGNp <> [].
  Hypothesis I2 : no_dsp IGNp = true.
  Hypothesis I3 : last_nonspace IGNp = true.
  Hypothesis I4 : starts_nonspace IGNp = true.
  Hypothesis I5 : no_dsp (IGNp ++ [lbracket]) = true.

  Lemma ib_ne : IGNp ++ [lbracket] <> [].
  Proof. destruct IGNp; discriminate. Qed.
  Lemma ib_last : last_nonspace (IGNp ++ [lbracket]) = true.
  Proof. unfold last_nonspace. rewrite rev_app_distr. reflexivity. Qed.

  Lemma has_bare_sep : forall a t,
    has_bare IGNp (a ++ 32%N :: 32%N :: t) = has_bare IGNp a || has_bare IGNp t.
  Proof.
    intros a t. induction a as [|d a IH].
    - cbn [app]. change (32%N :: 32%N :: t) with (repeat space_char 2 ++ t).
      rewrite has_bare_spaces by assumption. destruct IGNp; [now elim I1|]. reflexivity.
    - cbn [app has_bare]. rewrite IH.
      change (d :: a ++ 32%N :: 32%N :: t) with ((d :: a) ++ 32%N :: 32%N :: t).
      rewrite !prefix_sep_inside by (assumption || apply ib_ne || apply ib_last). now rewrite orb_assoc.
  Qed.

  Lemma has_bare_ws : forall a w, forallb is_space w = true -> has_bare IGNp (a ++ w) = has_bare IGNp a.
  Proof.
    intros a w W. induction a as [|d a IH].
    - cbn [app]. induction w as [|x w IHw]; [reflexivity|]. cbn in W. apply andb_true_iff in W. destruct W as [X W].
      change (has_bare IGNp (x :: w)) with
        (prefix IGNp (x :: w) && negb (prefix (IGNp ++ [lbracket]) (x :: w)) || has_bare IGNp w).
      rewrite IHw by assumption.
      change (x :: w) with ([] ++ x :: w).
      rewrite (prefix_ws_inside IGNp [] (x :: w)); [|assumption|assumption|cbn; now rewrite X, W].
      destruct IGNp; [now elim I1|]. reflexivity.
    - cbn [app has_bare]. rewrite IH. change (d :: a ++ w) with ((d :: a) ++ w).
      now rewrite !prefix_ws_inside by (assumption || apply ib_ne || apply ib_last).
  Qed.
End Bare.

(* ---------------- the generated constants again ---------------- *)

Definition pat_ok (p : list N) : bool :=
  negb (list_N_eqb p []) && no_dsp p && last_nonspace p && starts_nonspace p.

Lemma pats_ok : pat_ok IGN = true /\ pat_ok (IGN ++ [lbracket]) = true
  /\ forallb (fun c => pat_ok (tag IGN nm c)) all_codes = true.
Proof. repeat split; vm_compute; reflexivity. Qed.

Lemma pat_ok_unpack : forall p, pat_ok p = true ->
  p <> [] /\ no_dsp p = true /\ last_nonspace p = true /\ starts_nonspace p = true.
Proof.
  intros p H. unfold pat_ok in H.
  apply andb_true_iff in H. destruct H as [H H4]. apply andb_true_iff in H. destruct H as [H H3].
  apply andb_true_iff in H. destruct H as [H1 H2]. repeat split; try assumption.
  intros ->. discriminate.
Qed.

Lemma tag_pat_ok : forall c, (c < n_codes)%N -> pat_ok (tag IGN nm c) = true.
Proof.
  intros c H. destruct pats_ok as [_ [_ P]]. rewrite forallb_forall in P. apply P, all_codes_complete, H.
Qed.

Lemma rstrip_has_tag : forall c l, (c < n_codes)%N -> has_tag IGN nm c (rstrip l) = has_tag IGN nm c l.
Proof.
  intros c l H. destruct (rstrip_decomp l) as [w [D W]]. rewrite D at 2. unfold has_tag.
  destruct (pat_ok_unpack _ (tag_pat_ok c H)) as [A [_ [B _]]]. symmetry. now apply substr_ws.
Qed.

Lemma rstrip_has_bare : forall l, has_bare IGN (rstrip l) = has_bare IGN l.
Proof.
  intros l. destruct (rstrip_decomp l) as [w [D W]]. rewrite D at 2.
  destruct pats_ok as [P1 [P2 _]].
  destruct (pat_ok_unpack _ P1) as [A [B [C E]]]. destruct (pat_ok_unpack _ P2) as [_ [B2 _]].
  symmetry. now apply has_bare_ws.
Qed.

(* the line with a trailing comment appended *)
Theorem trail_line_features : forall l c0 c, (c0 < n_codes)%N -> (c < n_codes)%N ->
  trailing_hit IGN nm (trail_line IGN nm l c0) c = trailing_hit IGN nm l c || N.eqb c c0.
Proof.
  intros l c0 c H0 H. unfold trailing_hit, trail_line. cbn [app].
  destruct pats_ok as [P1 [P2 _]].
  destruct (pat_ok_unpack _ P1) as [A [B [C E]]]. destruct (pat_ok_unpack _ P2) as [_ [B2 _]].
  rewrite (has_bare_sep IGN A B C E B2).
  unfold has_tag. destruct (pat_ok_unpack _ (tag_pat_ok c H)) as [T1 [T2 [T3 T4]]].
  rewrite substr_sep by assumption.
  fold (has_tag IGN nm c (rstrip l)). fold (has_tag IGN nm c (tag IGN nm c0)).
  rewrite rstrip_has_tag, rstrip_has_bare by assumption.
  destruct (pair_ok_unpack c c0 H H0) as [_ [Q2 [Q3 _]]]. rewrite Q2, Q3.
  unfold has_tag. destruct (has_bare IGN l), (substr (tag IGN nm c) l), (N.eqb c c0); reflexivity.
Qed.

Fixpoint has_dsp (p : list N) : bool :=
  match p with
  | a :: ((b :: _) as r) => (N.eqb a 32 && N.eqb b 32) || has_dsp r
  | _ => false
  end.

Lemma has_dsp_no_dsp : forall p, has_dsp p = negb (no_dsp p).
Proof.
  induction p as [|a p IH]; [reflexivity|]. destruct p as [|b r]; [reflexivity|].
  change (has_dsp (a :: b :: r)) with ((N.eqb a 32 && N.eqb b 32) || has_dsp (b :: r)).
  change (no_dsp (a :: b :: r)) with (negb (N.eqb a 32 && N.eqb b 32) && no_dsp (b :: r)).
  rewrite IH. destruct (N.eqb a 32 && N.eqb b 32); reflexivity.
Qed.

Lemma has_dsp_app : forall a t, has_dsp (a ++ 32%N :: 32%N :: t) = true.
Proof.
  induction a as [|x a IH]; intros t; [reflexivity|].
  cbn [app]. specialize (IH t). destruct (a ++ 32%N :: 32%N :: t) as [|y r] eqn:E.
  - destruct a; discriminate.
  - change (has_dsp (x :: y :: r)) with ((N.eqb x 32 && N.eqb y 32) || has_dsp (y :: r)).
    rewrite IH. apply orb_true_r.
Qed.

Lemma name_no_space : forall c, forallb (fun x => negb (N.eqb x 32)) (nm c) = true.
Proof.
  intros c. unfold code_name.
  assert (A : forallb (fun n => forallb (fun x => negb (N.eqb x 32)) n) code_names = true) by (vm_compute; reflexivity).
  rewrite forallb_forall in A.
  destruct (nth_in_or_default (N.to_nat c) code_names []) as [IN|E]; [now apply A|now rewrite E].
Qed.

Lemma no_dsp_nospace : forall b, forallb (fun x => negb (N.eqb x 32)) b = true -> no_dsp b = true.
Proof.
  induction b as [|y b IHb]; intros NB; [reflexivity|]. destruct b as [|z b]; [reflexivity|].
  cbn [forallb] in NB. apply andb_true_iff in NB. destruct NB as [Y NB]. apply negb_true_iff in Y.
  change (no_dsp (y :: z :: b)) with (negb (N.eqb y 32 && N.eqb z 32) && no_dsp (z :: b)).
  rewrite Y. cbn [andb negb]. apply IHb. exact NB.
Qed.

Lemma no_dsp_app_nospace : forall a b, no_dsp a = true -> last_nonspace a = true ->
  forallb (fun x => negb (N.eqb x 32)) b = true -> no_dsp (a ++ b) = true.
Proof.
  induction a as [|x a IH]; intros b NA LA NB; [now apply no_dsp_nospace|].
  destruct a as [|x2 a].
  - cbn [app]. destruct b as [|y b]; [reflexivity|].
    change (no_dsp (x :: y :: b)) with (negb (N.eqb x 32 && N.eqb y 32) && no_dsp (y :: b)).
    unfold last_nonspace in LA. cbn in LA.
    assert (H : N.eqb x 32 = false).
    { destruct (N.eqb x 32) eqn:E; [|reflexivity]. apply N.eqb_eq in E. subst. discriminate. }
    rewrite H. cbn [andb negb]. now apply no_dsp_nospace.
  - change ((x :: x2 :: a) ++ b) with (x :: x2 :: (a ++ b)).
    change (no_dsp (x :: x2 :: a ++ b)) with (negb (N.eqb x 32 && N.eqb x2 32) && no_dsp ((x2 :: a) ++ b)).
    change (no_dsp (x :: x2 :: a)) with (negb (N.eqb x 32 && N.eqb x2 32) && no_dsp (x2 :: a)) in NA.
    apply andb_true_iff in NA. destruct NA as [N1 N2]. rewrite N1. cbn [andb].
    apply IH; [exact N2| |exact NB]. rewrite last_nonspace_cons in LA by discriminate. exact LA.
Qed.

Lemma tag_no_dsp : forall c, no_dsp (tag IGN nm c) = true.
Proof.
  intros c. unfold tag. destruct pats_ok as [_ [P2 _]]. destruct (pat_ok_unpack _ P2) as [_ [B [C _]]].
  rewrite app_assoc. apply no_dsp_app_nospace; [exact B|exact C|].
  rewrite forallb_app, name_no_space. reflexivity.
Qed.

Lemma last_tag : forall c, rev (tag IGN nm c) = rbracket :: rev (IGN ++ [lbracket] ++ nm c).
Proof. intros c. unfold tag. rewrite !app_assoc. rewrite rev_app_distr. reflexivity. Qed.

Theorem trail_line_shape : forall l c0, lstrip l <> [] -> starts_hash l = false ->
  starts_hash (trail_line IGN nm l c0) = false /\
  (forall c, own_hit IGN nm (trail_line IGN nm l c0) c = false) /\
  lstrip (trail_line IGN nm l c0) <> [] /\
  ends_backslash (rstrip (trail_line IGN nm l c0)) = false.
Proof.
  intros l c0 NB SH. unfold trail_line. cbn [app].
  pose proof (rstrip_nonblank l NB) as NBr.
  assert (RV : rev (rstrip l ++ space_char :: space_char :: tag IGN nm c0)
               = rbracket :: rev (IGN ++ [lbracket] ++ nm c0) ++ rev (rstrip l ++ [space_char; space_char])).
  { change (rstrip l ++ space_char :: space_char :: tag IGN nm c0) with (rstrip l ++ [space_char; space_char] ++ tag IGN nm c0).
    rewrite app_assoc, rev_app_distr, last_tag. reflexivity. }
  assert (RS : rstrip (rstrip l ++ space_char :: space_char :: tag IGN nm c0)
               = rstrip l ++ space_char :: space_char :: tag IGN nm c0).
  { eapply rstrip_fix; [exact RV|reflexivity]. }
  split; [|split; [|split]].
  - destruct (rstrip_decomp l) as [w [D W]]. destruct (rstrip l) as [|x r] eqn:E; [now elim NBr|].
    rewrite D in SH. exact SH.
  - intros c. unfold own_hit, own_bare, own_tag, strip.
    rewrite lstrip_app_nonblank by exact NBr.
    assert (ST : rev (lstrip (rev (lstrip (rstrip l) ++ space_char :: space_char :: tag IGN nm c0)))
                 = lstrip (rstrip l) ++ space_char :: space_char :: tag IGN nm c0).
    { assert (RV2 : rev (lstrip (rstrip l) ++ space_char :: space_char :: tag IGN nm c0)
                    = rbracket :: rev (IGN ++ [lbracket] ++ nm c0) ++ rev (lstrip (rstrip l) ++ [space_char; space_char])).
      { change (lstrip (rstrip l) ++ space_char :: space_char :: tag IGN nm c0)
          with (lstrip (rstrip l) ++ [space_char; space_char] ++ tag IGN nm c0).
        rewrite app_assoc, rev_app_distr, last_tag. reflexivity. }
      exact (rstrip_fix _ _ _ RV2 eq_refl). }
    rewrite ST.
    assert (D : forall q, no_dsp q = true ->
              list_N_eqb (lstrip (rstrip l) ++ space_char :: space_char :: tag IGN nm c0) q = false).
    { intros q Q. destruct (list_N_eqb _ q) eqn:E; [|reflexivity]. apply list_N_eqb_eq in E.
      pose proof (has_dsp_app (lstrip (rstrip l)) (tag IGN nm c0)) as HD. unfold space_char in E. rewrite E in HD.
      rewrite has_dsp_no_dsp, Q in HD. discriminate. }
    destruct pats_ok as [P1 _]. destruct (pat_ok_unpack _ P1) as [_ [B _]].
    rewrite (D IGN B), (D (tag IGN nm c) (tag_no_dsp c)). reflexivity.
  - rewrite lstrip_app_nonblank by exact NBr. destruct (lstrip (rstrip l)); [now elim NBr|discriminate].
  - rewrite RS. unfold ends_backslash. rewrite RV. reflexivity.
Qed.
