(* Proofs/NarrowBasics.v — finite facts about the class table (by computation),
   equality reflections, agreement of the generated tables with the model. *)
From Coq Require Import ZArith List Bool NArith Lia.
Import ListNotations.
Require Import PV.Narrow.Base PV.Narrow.Model PV.Narrow.Guards.
Require Import PV.Gen.NarrowTable.

(* ---- enumeration of classes ---- *)
Lemma all_cls_complete : forall c, In c all_cls.
Proof. destruct c; simpl; tauto. Qed.

Lemma forallb_all_cls : forall f, forallb f all_cls = true -> forall c, f c = true.
Proof. intros f H c. rewrite forallb_forall in H. apply H. apply all_cls_complete. Qed.

Lemma cls_eqb_eq : forall a b, cls_eqb a b = true <-> a = b.
Proof. intros a b; split; [destruct a, b; simpl; intros H; try reflexivity; discriminate | intros ->; destruct b; reflexivity]. Qed.

Lemma cls_eqb_refl : forall a, cls_eqb a a = true.
Proof. destruct a; reflexivity. Qed.

Lemma boolab_eqb_eq : forall a b, boolab_eqb a b = true <-> a = b.
Proof. intros a b; split; [destruct a, b; simpl; intros H; try reflexivity; discriminate | intros ->; destruct b; reflexivity]. Qed.

(* ---- the subclass relations ---- *)
Lemma sub_refl : forall c, sub c c = true.
Proof. destruct c; reflexivity. Qed.

Lemma sub_art_refl : forall c, sub_art c c = true.
Proof. destruct c; reflexivity. Qed.

Lemma sub_sub_art : forall a b, sub a b = true -> sub_art a b = true.
Proof.
  assert (H : forallb (fun a => forallb (fun b => implb (sub a b) (sub_art a b)) all_cls) all_cls = true) by (vm_compute; reflexivity).
  intros a b Hs. pose proof (forallb_all_cls _ (forallb_all_cls _ H a) b) as Hi. simpl in Hi.
  rewrite Hs in Hi. exact Hi.
Qed.

Lemma sub_art_trans : forall a b c, sub_art a b = true -> sub_art b c = true -> sub_art a c = true.
Proof.
  assert (H : forallb (fun a => forallb (fun b => forallb (fun c =>
              implb (sub_art a b && sub_art b c) (sub_art a c)) all_cls) all_cls) all_cls = true)
    by (vm_compute; reflexivity).
  intros a b c H1 H2.
  pose proof (forallb_all_cls _ (forallb_all_cls _ (forallb_all_cls _ H a) b) c) as Hi. simpl in Hi.
  rewrite H1, H2 in Hi. exact Hi.
Qed.

Lemma sub_trans : forall a b c, sub a b = true -> sub b c = true -> sub a c = true.
Proof.
  assert (H : forallb (fun a => forallb (fun b => forallb (fun c =>
              implb (sub a b && sub b c) (sub a c)) all_cls) all_cls) all_cls = true)
    by (vm_compute; reflexivity).
  intros a b c H1 H2.
  pose proof (forallb_all_cls _ (forallb_all_cls _ (forallb_all_cls _ H a) b) c) as Hi. simpl in Hi.
  rewrite H1, H2 in Hi. exact Hi.
Qed.

(* promotion only ever targets float and complex *)
Lemma sub_art_nominal : forall a b, sub_art a b = true -> sub a b = true \/ b = CFloat \/ b = CComplex.
Proof.
  intros a b; destruct a, b; vm_compute; intros H; try discriminate; auto.
Qed.

Lemma always_true_nominal : forall a c,
  type_boolab c = type_always_true -> sub_art a c = true -> sub a c = true.
Proof. intros a c; destruct a, c; vm_compute; intros H1 H2; try discriminate; reflexivity. Qed.

(* without multiple inheritance two ancestors are comparable *)
Lemma no_diamond_comparable : forall k c1 c2,
  diamond_cls k = false -> sub_art k c1 = true -> sub_art k c2 = true ->
  sub_art c1 c2 = true \/ sub_art c2 c1 = true.
Proof.
  intros k c1 c2 Hd H1 H2. unfold diamond_cls in Hd.
  destruct (sub_art c1 c2) eqn:E1; [left; reflexivity|].
  destruct (sub_art c2 c1) eqn:E2; [right; reflexivity|].
  exfalso. assert (Ht : existsb (fun c1 => existsb (fun c2 =>
     sub_art k c1 && sub_art k c2 && negb (sub_art c1 c2 || sub_art c2 c1)) all_cls) all_cls = true).
  { apply existsb_exists. exists c1. split; [apply all_cls_complete|].
    apply existsb_exists. exists c2. split; [apply all_cls_complete|].
    rewrite H1, H2, E1, E2. reflexivity. }
  rewrite Ht in Hd. discriminate.
Qed.

(* ---- equality reflections on objects ---- *)
Lemma list_eqb_eq : forall A (eqb : A -> A -> bool),
  (forall x y, eqb x y = true <-> x = y) -> forall a b, list_eqb eqb a b = true <-> a = b.
Proof.
  intros A eqb He a. induction a as [|x a IH]; intros [|y b]; simpl; split; intros H;
    try reflexivity; try discriminate.
  - apply andb_true_iff in H. destruct H as [H1 H2]. apply He in H1. apply IH in H2. subst. reflexivity.
  - inversion H; subst. apply andb_true_iff. split; [apply He; reflexivity | apply IH; reflexivity].
Qed.

Ltac eqb_crush :=
  repeat match goal with
  | H : _ && _ = true |- _ => apply andb_true_iff in H; destruct H
  | H : Bool.eqb _ _ = true |- _ => apply Bool.eqb_prop in H
  | H : Z.eqb _ _ = true |- _ => apply Z.eqb_eq in H
  | H : N.eqb _ _ = true |- _ => apply N.eqb_eq in H
  | H : Nat.eqb _ _ = true |- _ => apply Nat.eqb_eq in H
  | H : cls_eqb _ _ = true |- _ => apply cls_eqb_eq in H
  | H : list_eqb N.eqb _ _ = true |- _ => apply (list_eqb_eq N N.eqb N.eqb_eq) in H
  end; subst.

Lemma elt_eqb_eq : forall a b, elt_eqb a b = true <-> a = b.
Proof.
  intros a b; split.
  - destruct a, b; simpl; intros H; try discriminate; try reflexivity; eqb_crush; reflexivity.
  - intros ->. destruct b; simpl; try reflexivity.
    + apply Bool.eqb_reflx.
    + apply Z.eqb_refl.
    + apply (list_eqb_eq N N.eqb N.eqb_eq). reflexivity.
Qed.

Definition kv_eqb (a b : elt * elt) : bool := elt_eqb (fst a) (fst b) && elt_eqb (snd a) (snd b).
Lemma kv_eqb_eq : forall a b, kv_eqb a b = true <-> a = b.
Proof.
  intros [a1 a2] [b1 b2]. unfold kv_eqb. simpl. split.
  - intros H. apply andb_true_iff in H. destruct H as [H1 H2].
    apply elt_eqb_eq in H1. apply elt_eqb_eq in H2. subst. reflexivity.
  - intros H. inversion H; subst. apply andb_true_iff. split; apply elt_eqb_eq; reflexivity.
Qed.

Lemma obj_eqb_eq : forall a b, obj_eqb a b = true <-> a = b.
Proof.
  intros a b; split.
  - destruct a, b; simpl; intros H; try discriminate; try reflexivity; eqb_crush; try reflexivity.
    + apply (list_eqb_eq elt elt_eqb elt_eqb_eq) in H. subst. reflexivity.
    + apply (list_eqb_eq elt elt_eqb elt_eqb_eq) in H. subst. reflexivity.
    + apply (list_eqb_eq _ kv_eqb kv_eqb_eq) in H. subst. reflexivity.
  - intros ->. destruct b; simpl; try reflexivity.
    + apply Bool.eqb_reflx.
    + apply Z.eqb_refl.
    + apply Z.eqb_refl.
    + apply (list_eqb_eq N N.eqb N.eqb_eq). reflexivity.
    + rewrite cls_eqb_refl, N.eqb_refl. reflexivity.
    + rewrite cls_eqb_refl, Nat.eqb_refl. reflexivity.
    + apply cls_eqb_refl.
    + apply (list_eqb_eq elt elt_eqb elt_eqb_eq). reflexivity.
    + apply (list_eqb_eq elt elt_eqb elt_eqb_eq). reflexivity.
    + apply (list_eqb_eq _ kv_eqb kv_eqb_eq). reflexivity.
Qed.

Lemma obj_eqb_refl : forall a, obj_eqb a a = true.
Proof. intros a. apply obj_eqb_eq. reflexivity. Qed.

(* ---- generated tables = model tables ---- *)
Definition tables_agree : bool :=
  forallb (fun c =>
       list_eqb cls_eqb (gen_mro c) (mro c)
    && list_eqb cls_eqb (gen_base_classes c) (base_classes c)
    && list_eqb cls_eqb (gen_art_bases c) (art_bases c)
    && boolab_eqb (gen_type_boolab c) (type_boolab c)
    && boolab_eqb (gen_type_boolab_exact c) (type_boolab_exact c)
    && boolab_eqb (gen_meta_boolab c) (meta_boolab c)
    && Nat.eqb (gen_enum_size c) (enum_size c)
    && cls_eqb (gen_meta c) (meta c)) all_cls
  && list_eqb boolab_eqb gen_true_boolabs true_boolabs
  && list_eqb boolab_eqb gen_false_boolabs false_boolabs
  && forallb (fun b => Nat.eqb (gen_boolab_value b) (boolab_value b)
                       && Bool.eqb (boolab_eqb b gen_safely_false) (is_safely_false b))
       [erroring_bool; boolable; value_always_false_mutable; value_always_true_mutable;
        value_always_false; value_always_true; type_always_true].

Lemma gen_tables_agree : tables_agree = true.
Proof. vm_compute. reflexivity. Qed.

Lemma gen_neg_op_agrees : forall op, gen_neg_op op = neg_op op.
Proof. destruct op; reflexivity. Qed.

(* ---- the constraint algebra: inversion is an involution ---- *)
Lemma flip_involutive : forall k, flip (flip k) = k.
Proof. destruct k; simpl; try rewrite negb_involutive; reflexivity. Qed.

Lemma invert_involutive : forall a, invert (invert a) = a.
Proof.
  induction a as [|k|a IHa b IHb|a IHa b IHb|a IHa b IHb]; simpl.
  - reflexivity.
  - rewrite flip_involutive. reflexivity.
  - rewrite IHa, IHb. reflexivity.
  - rewrite IHa, IHb. reflexivity.
  - rewrite IHa, IHb. reflexivity.
Qed.

(* the evaluated COMPARATOR_TO_OPERATOR table: every positive operator computes the comparison it is named after and
   every negative operator is its complement *)
Lemma comparator_table_agrees : forallb cmp_row_ok gen_cmp_rows = true.
Proof. vm_compute. reflexivity. Qed.
