(* Proofs/NarrowCoreBridge.v — the membership spec of C02 (Narrow.Base.member) and the shared
   membership spec Core/Member.v agree on their common fragment.

   Core.member is parametrised by a class table; [narrow_ct] is the table of Narrow/Base.v
   (real issubclass of the C02 universe) under the class codes of Core/Obj.v.  On that table
   Core's sub_promo (issubclass + int -> float -> complex) is Narrow's sub_art.
   Common fragment: un-annotated values Any / Literal (no tuple, list or dict literal: Core compares
   their elements with ==, Narrow with type-and-value) / class / type[...] / list[t] / dict[k, v];
   objects other than enum *classes* (their class is EnumMeta here, `type` in Core). *)
From Coq Require Import ZArith List Bool NArith Lia.
Import ListNotations.
Require PV.Core.Obj PV.Core.Val PV.Core.Cls PV.Core.Member.
Require Import PV.Narrow.Base PV.Narrow.Model PV.Narrow.Guards.
Require Import PV.Proofs.NarrowBasics.

Require Import PV.Narrow.CoreBridge PV.Proofs.NarrowMain.

Lemma decode_code : forall c, decode (code c) = Some c.
Proof. destruct c; reflexivity. Qed.

Lemma code_inj : forall a b, N.eqb (code a) (code b) = cls_eqb a b.
Proof. destruct a, b; reflexivity. Qed.

Lemma issub_code : forall a b, C.issub narrow_ct (code a) (code b) = sub a b.
Proof. intros a b. simpl. rewrite !decode_code. reflexivity. Qed.

(* Core's promotion-aware subclass test is TypeObject.can_assign on real classes *)
Lemma sub_promo_is_sub_art : forall a b, C.sub_promo narrow_ct (code a) (code b) = sub_art a b.
Proof. intros a b; destruct a, b; reflexivity. Qed.

Lemma class_of_emb : forall o, enum_class_object o = false -> O.class_of (emb o) = code (class_of o).
Proof.
  intros o He. destruct o; try reflexivity.
  - destruct c; reflexivity.
  - simpl in He. simpl. unfold meta. rewrite He. reflexivity.
Qed.

(* ---- literals ---- *)
Lemma listN_eqb_list_eqb : forall a b, O.listN_eqb a b = list_eqb N.eqb a b.
Proof. induction a as [|x a IH]; intros [|y b]; simpl; try reflexivity. rewrite IH. reflexivity. Qed.

Lemma list_eqb_N_sym : forall a b, list_eqb N.eqb a b = list_eqb N.eqb b a.
Proof. induction a as [|x a IH]; intros [|y b]; simpl; try reflexivity. rewrite IH, N.eqb_sym. reflexivity. Qed.

Lemma of_nat_eqb : forall i j, N.eqb (N.of_nat i) (N.of_nat j) = Nat.eqb j i.
Proof.
  intros i j. destruct (Nat.eqb j i) eqn:E.
  - apply Nat.eqb_eq in E. subst. apply N.eqb_refl.
  - apply Nat.eqb_neq in E. apply N.eqb_neq. lia.
Qed.

Lemma double_eqb : forall a b, Z.eqb (2 * a) (2 * b) = Z.eqb b a.
Proof.
  intros a b. destruct (Z.eqb b a) eqn:E.
  - apply Z.eqb_eq in E. subst. apply Z.eqb_refl.
  - apply Z.eqb_neq in E. apply Z.eqb_neq. lia.
Qed.

Lemma double_succ_eqb : forall i j, Z.eqb (2 * (Z.of_nat i + 1)) (2 * (Z.of_nat j + 1)) = Nat.eqb j i.
Proof.
  intros i j. destruct (Nat.eqb j i) eqn:E.
  - apply Nat.eqb_eq in E. subst. apply Z.eqb_refl.
  - apply Nat.eqb_neq in E. apply Z.eqb_neq. lia.
Qed.

Lemma same_literal_emb : forall l o,
  plain_lit l = true -> wf_obj l = true -> wf_obj o = true -> enum_class_object o = false ->
  O.same_literal (emb l) (emb o) = obj_eqb o l.
Proof.
  intros l o Hp Hwl Hwo He. unfold O.same_literal.
  destruct l; simpl in Hp; try discriminate; destruct o; simpl in He; cbn; try reflexivity.
  all: try (destruct c; cbn; try reflexivity).
  all: try (destruct c0; cbn; try reflexivity).
  all: try (vm_compute in Hwl; discriminate).
  all: try (vm_compute in Hwo; discriminate).
  all: try apply N.eqb_sym.
  all: try apply of_nat_eqb.
  all: unfold O.zz_eqb; cbn [fst snd]; rewrite ?andb_true_r.
  all: try apply Z.eqb_sym.
  all: try (rewrite listN_eqb_list_eqb; apply list_eqb_N_sym).
  all: try (match goal with |- _ = Bool.eqb ?a ?b => destruct a, b; reflexivity end).
  all: try apply double_eqb.
  all: try apply double_succ_eqb.
Qed.

(* ---- elements, lists, dicts ---- *)
Lemma elt_member_core : forall t e, M.member narrow_ct (ety_val t) (emb_elt e) = elt_member e t.
Proof. intros t e; destruct t, e; reflexivity. Qed.

Lemma forallb_map_ext : forall (A B : Type) (f : A -> B) (p : B -> bool) (q : A -> bool) l,
  (forall x, p (f x) = q x) -> forallb p (map f l) = forallb q l.
Proof. intros A B f p q l H. induction l as [|x l IH]; simpl; [reflexivity|]. rewrite H, IH. reflexivity. Qed.

Lemma class_list_only : forall o, wf_obj o = true -> enum_class_object o = false ->
  sub (class_of o) CList = true -> exists l, o = OList l.
Proof.
  intros o Hw He H. destruct o; simpl in *; try (vm_compute in H; discriminate).
  - destruct c; vm_compute in Hw, H; discriminate.
  - destruct c; vm_compute in H; discriminate.
  - unfold meta in H. rewrite He in H. vm_compute in H. discriminate.
  - eexists; reflexivity.
Qed.

Lemma class_dict_only : forall o, wf_obj o = true -> enum_class_object o = false ->
  sub (class_of o) CDict = true -> exists l, o = ODict l.
Proof.
  intros o Hw He H. destruct o; simpl in *; try (vm_compute in H; discriminate).
  - destruct c; vm_compute in Hw, H; discriminate.
  - destruct c; vm_compute in H; discriminate.
  - unfold meta in H. rewrite He in H. vm_compute in H. discriminate.
  - eexists; reflexivity.
Qed.

Lemma member_union : forall l o, M.member narrow_ct (V.VUnion l) o = existsb (fun t => M.member narrow_ct t o) l.
Proof.
  induction l as [|t l IH]; intros o; [reflexivity|].
  change (M.member narrow_ct (V.VUnion (t :: l)) o) with (M.member narrow_ct t o || M.member narrow_ct (V.VUnion l) o).
  rewrite IH. reflexivity.
Qed.

(* ---- the bridge ---- *)
Lemma member_b_core : forall b o,
  common_b b = true -> common_obj o = true ->
  M.member narrow_ct (emb_b b) (emb o) = member_b o b.
Proof.
  intros b o Hb Ho. unfold common_obj in Ho. apply andb_true_iff in Ho. destruct Ho as [Hw He].
  apply negb_true_iff in He.
  destruct b as [|l|c|c|ms|g]; simpl in Hb; try discriminate.
  - reflexivity.
  - apply andb_true_iff in Hb. destruct Hb as [Hp Hwl].
    cbn [emb_b M.member member_b]. apply (same_literal_emb l o Hp Hwl Hw He).
  - cbn [emb_b M.member member_b]. rewrite (class_of_emb o He). apply sub_promo_is_sub_art.
  - cbn [emb_b M.member member_b M.class_target]. destruct o; try reflexivity.
    + destruct c0; reflexivity.
    + cbn [emb]. apply sub_promo_is_sub_art.
  - destruct g as [t|k v| |]; try discriminate.
    + (* list[t] *)
      cbn [emb_b member_b].
      destruct (sub (class_of o) CList) eqn:Es.
      * destruct (class_list_only o Hw He Es) as [l ->]. cbn.
        apply forallb_map_ext. intros e. apply elt_member_core.
      * transitivity false.
        -- cbn [M.member]. rewrite (class_of_emb o He). change O.c_list with (code CList).
           rewrite issub_code, Es. reflexivity.
        -- destruct o; try reflexivity. discriminate.
    + (* dict[k, v] *)
      cbn [emb_b member_b].
      destruct (sub (class_of o) CDict) eqn:Es.
      * destruct (class_dict_only o Hw He Es) as [l ->]. cbn.
        apply forallb_map_ext. intros [a b]. cbn. rewrite !elt_member_core. reflexivity.
      * transitivity false.
        -- cbn [M.member]. rewrite (class_of_emb o He). change O.c_dict with (code CDict).
           rewrite issub_code, Es. reflexivity.
        -- destruct o; try reflexivity. discriminate.
Qed.

Theorem member_narrow_iff_member_core : forall v o,
  common_value v = true -> common_obj o = true ->
  M.member narrow_ct (emb_value v) (emb o) = member o v.
Proof.
  intros v o Hv Ho. unfold emb_value. rewrite member_union. unfold member.
  induction v as [|[b e] v IH]; [reflexivity|].
  simpl in Hv. apply andb_true_iff in Hv. destruct Hv as [Hs Hv].
  apply andb_true_iff in Hs. destruct Hs as [Hb He]. destruct e; [|discriminate].
  simpl. rewrite (member_b_core b o Hb Ho), andb_true_r, (IH Hv). reflexivity.
Qed.

(* C02's main theorem over the shared membership spec *)
Theorem narrow_keeps_value_core : forall V c pol o,
  common_value V = true -> common_value (narrow V c pol) = true -> common_obj o = true ->
  M.member narrow_ct (emb_value V) (emb o) = true -> holds c o = Some pol -> c02_guard c o = true ->
  M.member narrow_ct (emb_value (narrow V c pol)) (emb o) = true.
Proof.
  intros V c pol o HV HN Ho Hm Hh Hg.
  rewrite (member_narrow_iff_member_core V o HV Ho) in Hm.
  rewrite (member_narrow_iff_member_core _ o HN Ho).
  apply (narrow_keeps_value_partial V c pol o Hm Hh Hg).
Qed.

Example core_bridge_inhabited :
  let V := [plain (VTyped CFloat); plain (VKnown ONone); plain (VGen (GList TIntE)); plain (VSub CA)] in
  common_value V = true /\ common_obj (OInt 1) = true /\ common_obj (OList [LInt 1]) = true /\
  M.member narrow_ct (emb_value V) (emb (OInt 1)) = true /\
  M.member narrow_ct (emb_value V) (emb (OList [LInt 1])) = true /\
  M.member narrow_ct (emb_value V) (emb (OList [LStr []])) = false /\
  M.member narrow_ct (emb_value V) (emb (OClass CB)) = true /\
  common_value (narrow V (CIsInstance [CInt]) true) = true.
Proof. vm_compute. repeat split; reflexivity. Qed.
