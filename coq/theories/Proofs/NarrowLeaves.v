(* Proofs/NarrowLeaves.v — soundness of every single constraint kind:
   an object of the value that satisfies the run-time meaning of the
   constraint is still in the values the constraint yields. *)
From Coq Require Import ZArith List Bool NArith Lia.
Import ListNotations.
Require Import PV.Narrow.Base PV.Narrow.Model PV.Narrow.Guards.
Require Import PV.Proofs.NarrowBasics PV.Proofs.NarrowLift.

(* ------------------------------------------------------------------ *)
(* small facts *)

Lemma member_s_base : forall o s, member_s o s = true -> member_b o (sbase s) = true.
Proof. intros o [b e] H. simpl in *. apply andb_true_iff in H. tauto. Qed.

Lemma member_s_exts : forall o s, member_s o s = true -> forallb (ext_holds o) (sexts s) = true.
Proof. intros o [b e] H. simpl in *. apply andb_true_iff in H. tauto. Qed.

Lemma member_s_plain : forall o b, member_s o (plain b) = member_b o b.
Proof. intros. unfold plain. simpl. apply andb_true_r. Qed.

Lemma member_map_plain : forall o pat, member o (map plain pat) = existsb (member_b o) pat.
Proof.
  intros o pat. unfold member. induction pat as [|p r IH]; simpl; [reflexivity|].
  rewrite IH. unfold plain. simpl. rewrite andb_true_r. reflexivity.
Qed.

Lemma diamond_type : diamond_cls CType = false.
Proof. vm_compute. reflexivity. Qed.

Lemma sub_bool_only : forall k, sub_art k CBool = true -> k = CBool.
Proof. destruct k; vm_compute; intros H; try discriminate; reflexivity. Qed.

Lemma sub_enum_only : forall k c, is_enum c = true -> sub_art k c = true -> k = c.
Proof. intros k c; destruct k, c; vm_compute; intros H1 H2; try discriminate; reflexivity. Qed.

Lemma class_of_bool : forall o, wf_obj o = true -> class_of o = CBool -> exists q, o = OBool q.
Proof.
  intros o Hw Hc. destruct o; simpl in *; try discriminate.
  - eexists; reflexivity.
  - subst c. vm_compute in Hw. discriminate.
  - subst c. vm_compute in Hw. discriminate.
  - unfold meta in Hc. destruct (is_enum c); discriminate.
Qed.

Lemma class_of_enum : forall o c, wf_obj o = true -> is_enum c = true -> class_of o = c ->
  exists j, o = OEnum c j /\ j < enum_size c.
Proof.
  intros o c Hw He Hc. destruct o; simpl in Hc; subst c; try (vm_compute in He; discriminate).
  - exfalso. simpl in Hw. destruct c0; vm_compute in He, Hw; discriminate.
  - exists i. split; [reflexivity|]. simpl in Hw. apply Nat.ltb_lt in Hw. exact Hw.
  - exfalso. unfold meta in He. destruct (is_enum c0); vm_compute in He; discriminate.
Qed.

Lemma class_of_enummeta : forall o, wf_obj o = true -> sub_art (class_of o) CEnumMeta = true ->
  enum_class_object o = true.
Proof.
  intros o Hw Hc. destruct o; simpl in *; try (vm_compute in Hc; discriminate).
  - destruct c; vm_compute in Hw, Hc; discriminate.
  - destruct c; vm_compute in Hc; try discriminate; destruct i as [|[|i]]; vm_compute in Hw; discriminate.
  - unfold meta in Hc. destruct (is_enum c); [reflexivity|vm_compute in Hc; discriminate].
Qed.

Lemma meta_mono : forall k c, sub_art k c = true -> sub_art (meta k) (meta c) = true.
Proof. intros k c; destruct k, c; vm_compute; intros H; try discriminate; reflexivity. Qed.

Lemma diamond_meta : forall c, diamond_cls (meta c) = false.
Proof. destruct c; vm_compute; reflexivity. Qed.

(* a class object of a non-enum class against a class c1 and a type[c2] pattern *)
Lemma type_vs_sub_overlap : forall c1 c2,
  sub_art CType c1 = true ->
  sub_art (meta c2) c1 || (cls_eqb c1 CType || sub c1 CType && sub (meta c2) c1) = true.
Proof. intros c1 c2; destruct c1, c2; vm_compute; intros H; try discriminate; reflexivity. Qed.

(* ------------------------------------------------------------------ *)
(* truthiness *)

Lemma match_members_nil : forall ms, match_members ms [] = true -> forallb fst ms = true.
Proof.
  induction ms as [|[m t] ms IH]; intros H; [reflexivity|].
  destruct m; simpl in *.
  - rewrite orb_false_r in H. apply IH. exact H.
  - discriminate.
Qed.

Lemma type_boolab_cases : forall c, type_boolab c = boolable \/ type_boolab c = type_always_true.
Proof. destruct c; simpl; auto. Qed.

Lemma known_boolab_false : forall tb t, known_boolab tb t = value_always_false -> t = false.
Proof.
  intros tb t H. destruct t; [|reflexivity].
  unfold known_boolab in H. destruct (boolab_eqb tb boolable); discriminate.
Qed.

Lemma known_boolab_true : forall tb t, is_safely_true (known_boolab tb t) = true -> t = true.
Proof. intros tb t H. destruct t; [reflexivity|]. vm_compute in H. discriminate. Qed.

Lemma safely_false_falsy : forall b o,
  member_b o b = true -> is_safely_false (boolab_of_b b) = true -> truthy o = false.
Proof.
  intros b o Hm Hs. unfold is_safely_false in Hs. apply boolab_eqb_eq in Hs.
  destruct b as [|l|c|c|ms|g]; cbn [member_b] in Hm.
  - discriminate.
  - apply obj_eqb_eq in Hm. subst o.
    destruct l; cbn [boolab_of_b] in Hs; try (apply known_boolab_false in Hs; exact Hs).
    all: match goal with x : list _ |- _ => destruct x end; try discriminate; reflexivity.
  - cbn [boolab_of_b] in Hs. destruct (type_boolab_cases c) as [E|E]; rewrite E in Hs; discriminate.
  - discriminate.
  - destruct o; try discriminate. cbn [boolab_of_b] in Hs. destruct ms as [|m ms].
    + destruct l; [reflexivity|simpl in Hm; discriminate].
    + destruct (forallb fst (m :: ms)); discriminate.
  - cbn [boolab_of_b] in Hs. destruct (type_boolab_cases (gen_cls g)) as [E|E]; rewrite E in Hs; discriminate.
Qed.

Lemma truthy_pos_sound : ksound (KTruthy true) (fun o => truthy o = true).
Proof.
  intros s o Hm Ht. simpl.
  destruct (is_safely_false (boolab_of_b (sbase s))) eqn:E.
  - rewrite (safely_false_falsy _ o (member_s_base o s Hm) E) in Ht. discriminate.
  - rewrite member_single. exact Hm.
Qed.

Lemma safely_true_truthy : forall b o,
  member_b o b = true -> is_safely_true (boolab_of_b b) = true -> subclass_bool o = false ->
  truthy o = true.
Proof.
  intros b o Hm Hs Hg.
  destruct b as [|l|c|c|ms|g]; cbn [member_b] in Hm.
  - vm_compute in Hs. discriminate.
  - apply obj_eqb_eq in Hm. subst o.
    destruct l; cbn [boolab_of_b] in Hs; try (apply known_boolab_true in Hs; exact Hs).
    all: match goal with x : list _ |- _ => destruct x end; [vm_compute in Hs; discriminate | reflexivity].
  - cbn [boolab_of_b] in Hs.
    destruct (type_boolab_cases c) as [E|E]; rewrite E in Hs; [vm_compute in Hs; discriminate|].
    destruct (truthy o) eqn:Et; [reflexivity|]. exfalso.
    pose proof (always_true_nominal _ _ E Hm) as Hsub.
    unfold subclass_bool in Hg. rewrite Et in Hg.
    assert (Hex : existsb (fun c0 => sub (class_of o) c0 && boolab_eqb (type_boolab c0) type_always_true) all_cls = true).
    { apply existsb_exists. exists c. split; [apply all_cls_complete|]. rewrite Hsub, E. reflexivity. }
    rewrite Hex in Hg. discriminate.
  - destruct o; try discriminate. reflexivity.
  - destruct o; try discriminate. cbn [boolab_of_b] in Hs.
    destruct ms as [|m ms]; [vm_compute in Hs; discriminate|].
    destruct (forallb fst (m :: ms)) eqn:Ef; [vm_compute in Hs; discriminate|].
    destruct l as [|e l]; [|reflexivity].
    rewrite (match_members_nil _ Hm) in Ef. discriminate.
  - destruct g; vm_compute in Hs; discriminate.
Qed.

Lemma truthy_neg_sound :
  ksound (KTruthy false) (fun o => truthy o = false /\ subclass_bool o = false).
Proof.
  intros s o Hm [Ht Hg]. simpl.
  destruct (is_safely_true (boolab_of_b (sbase s))) eqn:E.
  - rewrite (safely_true_truthy _ o (member_s_base o s Hm) E Hg) in Ht. discriminate.
  - rewrite member_single. exact Hm.
Qed.

(* ------------------------------------------------------------------ *)
(* assignability *)

Lemma comparable_of : forall o c1 c2,
  multiple_inheritance o = false ->
  sub_art (class_of o) c1 = true -> sub_art (class_of o) c2 = true ->
  sub_art c1 c2 = true \/ sub_art c2 c1 = true.
Proof.
  intros o c1 c2 Hd H1 H2. apply (no_diamond_comparable (class_of o)); try assumption.
  destruct o; simpl in *; try exact Hd. apply diamond_meta.
Qed.

Lemma gen_member_cls : forall o g, member_b o (VGen g) = true -> sub_art (class_of o) (gen_cls g) = true.
Proof.
  intros o g Hm. destruct g; simpl in *.
  - destruct o; try discriminate. reflexivity.
  - destruct o; try discriminate. reflexivity.
  - apply andb_true_iff in Hm. tauto.
  - exact Hm.
Qed.

Lemma deliteral_member : forall o b, member_b o b = true ->
  match deliteral b with
  | VAny => True
  | VTyped c => sub_art (class_of o) c = true
  | VSub c => exists k, o = OClass k /\ sub_art k c = true
  | _ => False
  end.
Proof.
  intros o b Hm. destruct b as [|l|c|c|ms|g]; cbn [deliteral].
  - exact I.
  - simpl in Hm. apply obj_eqb_eq in Hm. subst. apply sub_art_refl.
  - exact Hm.
  - simpl in Hm. destruct o; try discriminate. eexists; split; [reflexivity|exact Hm].
  - simpl in Hm. destruct o; try discriminate. reflexivity.
  - apply gen_member_cls. exact Hm.
Qed.

Lemma overlap_lemma : forall o p b,
  member_b o p = true -> member_b o b = true -> multiple_inheritance o = false ->
  enum_class_object o = false ->
  assignable (deliteral p) (deliteral b) || assignable (deliteral b) (deliteral p) = true.
Proof.
  intros o p b Hp Hb Hd He.
  pose proof (deliteral_member o p Hp) as Dp. pose proof (deliteral_member o b Hb) as Db.
  destruct (deliteral p) as [| |c1|c1| |g1] eqn:Ep; try contradiction;
  destruct (deliteral b) as [| |c2|c2| |g2] eqn:Eb; try contradiction;
    try (simpl; reflexivity); try (simpl; apply orb_true_r).
  - (* typed, typed *)
    simpl. destruct (comparable_of o c1 c2 Hd Dp Db) as [H|H]; rewrite H; [apply orb_true_r|reflexivity].
  - (* typed c1, sub c2 *)
    simpl. destruct Db as [k [-> Hk]]. simpl in Dp, He. unfold meta in Dp. rewrite He in Dp.
    unfold isinst. simpl. apply (type_vs_sub_overlap c1 c2 Dp).
  - (* sub c1, typed c2 *)
    simpl. destruct Dp as [k [-> Hk]]. simpl in Db, He. unfold meta in Db. rewrite He in Db.
    unfold isinst. simpl. rewrite orb_comm. apply (type_vs_sub_overlap c2 c1 Db).
  - (* sub, sub *)
    simpl. destruct Dp as [k [-> Hk1]]. destruct Db as [k' [E Hk2]]. inversion E; subst k'.
    simpl in Hd.
    destruct (no_diamond_comparable k c1 c2 Hd Hk1 Hk2) as [H|H]; rewrite H; [apply orb_true_r|reflexivity].
Qed.

Lemma overlapping_of_member : forall o pat s,
  existsb (member_b o) pat = true -> member_s o s = true -> multiple_inheritance o = false ->
  enum_class_object o = false ->
  overlapping pat s = true.
Proof.
  intros o pat s Hp Hm Hd He. apply existsb_exists in Hp. destruct Hp as [p [Hin Hp]].
  unfold overlapping. apply existsb_exists. exists p. split; [exact Hin|].
  apply (overlap_lemma o p (sbase s) Hp (member_s_base o s Hm) Hd He).
Qed.

Lemma isassign_pos_sound : forall pat po,
  ksound (KPred (PIsAssignable pat po) true)
         (fun o => existsb (member_b o) pat = true /\ multiple_inheritance o = false
                   /\ enum_class_object o = false).
Proof.
  intros pat po s o Hm [Hp [Hd He]]. simpl. unfold pred_isassignable.
  rewrite (overlapping_of_member o pat s Hp Hm Hd He). simpl.
  destruct (pat_assignable pat s).
  - destruct (univ_assignable (sbase s) pat).
    + rewrite member_map_plain. exact Hp.
    + rewrite member_single. exact Hm.
  - rewrite member_map_plain. exact Hp.
Qed.

Definition is_vtuple (p : bval) : bool := match p with VTuple _ => true | _ => false end.

(* a str is a Sequence for the class table but is excluded by the sequence pattern *)
Definition is_str (o : obj) : bool := sub_art (class_of o) CStr.

Lemma seq_not_str : forall K c,
  sub_art K c = true -> sub_art c CSequence = true -> sub_art c CStr = false -> sub_art K CStr = false ->
  sub_art K CSequence && negb (sub_art K CStr) = true.
Proof.
  intros K c H1 H2 H3 H4. rewrite (sub_art_trans _ _ _ H1 H2), H4. reflexivity.
Qed.

Lemma list_class_only : forall o, wf_obj o = true -> sub_art (class_of o) CList = true -> is_collection o = true.
Proof.
  intros o Hw H. destruct o; simpl in *; try (vm_compute in H; discriminate); try reflexivity.
  - destruct c; vm_compute in Hw, H; discriminate.
  - destruct c; try (vm_compute in H; discriminate).
  - unfold meta in H. destruct (is_enum c); vm_compute in H; discriminate.
Qed.

Lemma dict_class_only : forall o, wf_obj o = true -> sub_art (class_of o) CDict = true -> is_collection o = true.
Proof.
  intros o Hw H. destruct o; simpl in *; try (vm_compute in H; discriminate); try reflexivity.
  - destruct c; vm_compute in Hw, H; discriminate.
  - destruct c; try (vm_compute in H; discriminate).
  - unfold meta in H. destruct (is_enum c); vm_compute in H; discriminate.
Qed.

Lemma assignable_sound : forall p b o,
  assignable p b = true -> member_b o b = true ->
  is_vtuple p = false ->
  univ_assignable b [p] = false ->
  wf_obj o = true -> enum_class_object o = false -> (p = VGen GSeqPat -> is_str o = false) ->
  (is_generic_pat p = true -> is_collection o = false) ->
  member_b o p = true.
Proof.
  intros p b o Ha Hm Hp Hu Hw He Hstr' Hgen.
  pose proof (deliteral_member o b Hm) as Db.
  destruct p as [|l|c|c|ms|g]; simpl in Hp; try discriminate.
  - reflexivity.
  - destruct b as [|l'|c'|c'|ms'|g']; simpl in *; try discriminate.
    apply obj_eqb_eq in Ha. subst l'. exact Hm.
  - destruct b as [|l'|c'|c'|ms'|g']; simpl in *; try discriminate.
    + apply obj_eqb_eq in Hm. subst l'. exact Ha.
    + apply (sub_art_trans _ c' _ Hm Ha).
    + destruct o; try discriminate. simpl. apply (sub_art_trans _ (meta c') _ (meta_mono _ _ Hm) Ha).
    + destruct o; try discriminate. exact Ha.
    + apply (sub_art_trans _ _ _ (gen_member_cls o g' Hm) Ha).
  - destruct b as [|l'|c'|c'|ms'|g']; simpl in *; try discriminate.
    + apply obj_eqb_eq in Hm. subst l'. destruct o; try discriminate. exact Ha.
    + apply orb_true_iff in Ha. destruct Ha as [Ha|Ha].
      * apply cls_eqb_eq in Ha. subst c'. simpl in Hu. discriminate.
      * exfalso. apply andb_true_iff in Ha. destruct Ha as [Hs Hi].
        destruct c'; try (vm_compute in Hs; discriminate).
        rewrite (class_of_enummeta o Hw Hm) in He. discriminate He.
    + destruct o; try discriminate. apply (sub_art_trans _ c' _ Hm Ha).
  - destruct g.
    + (* list[t]: only a collection can be in a value assignable to it *)
      exfalso. assert (Hc : is_collection o = true).
      { destruct b as [|l'|c'|c'|ms'|g']; simpl in Ha, Hm, Hu; try discriminate.
        - apply obj_eqb_eq in Hm. subst l'. destruct o; try discriminate. reflexivity.
        - apply (list_class_only o Hw). apply (sub_art_trans _ c' _ Hm Ha).
        - destruct g'; try discriminate. simpl in Hm. destruct o; try discriminate. reflexivity. }
      rewrite (Hgen eq_refl) in Hc. discriminate.
    + exfalso. assert (Hc : is_collection o = true).
      { destruct b as [|l'|c'|c'|ms'|g']; simpl in Ha, Hm, Hu; try discriminate.
        - apply obj_eqb_eq in Hm. subst l'. destruct o; try discriminate. reflexivity.
        - apply (dict_class_only o Hw). apply (sub_art_trans _ c' _ Hm Ha).
        - destruct g'; try discriminate. simpl in Hm. destruct o; try discriminate. reflexivity. }
      rewrite (Hgen eq_refl) in Hc. discriminate.
    + (* sequence pattern *)
      pose proof (Hstr' eq_refl) as Hstr. unfold is_str in Hstr.
      cbn [member_b]. destruct b as [|l'|c'|c'|ms'|g']; simpl in Ha, Hm, Hu; try discriminate.
      * apply obj_eqb_eq in Hm. subst l'. exact Ha.
      * apply andb_true_iff in Ha. destruct Ha as [Ha1 Ha2]. apply negb_true_iff in Ha2.
        apply (seq_not_str _ c' Hm Ha1 Ha2 Hstr).
      * destruct o; try discriminate. reflexivity.
      * rewrite (sub_art_trans _ _ _ (gen_member_cls o g' Hm) Ha), Hstr. reflexivity.
    + (* mapping pattern *)
      cbn [member_b]. destruct b as [|l'|c'|c'|ms'|g']; simpl in Ha, Hm, Hu; try discriminate.
      * apply obj_eqb_eq in Hm. subst l'. exact Ha.
      * apply (sub_art_trans _ c' _ Hm Ha).
      * apply (sub_art_trans _ _ _ (gen_member_cls o g' Hm) Ha).
Qed.

Lemma univ_mono : forall b p pat, In p pat -> univ_assignable b pat = false -> univ_assignable b [p] = false.
Proof.
  intros b p pat Hin Hu. destruct b as [| |c| | |]; simpl in *; try reflexivity; try discriminate.
  destruct c; try reflexivity. rewrite orb_false_r.
  destruct (is_vsub p) eqn:E; [|reflexivity].
  assert (existsb is_vsub pat = true) by (apply existsb_exists; exists p; split; assumption).
  rewrite H in Hu. discriminate.
Qed.

Lemma isassign_neg_sound : forall pat po,
  forallb (fun p => negb (is_vtuple p)) pat = true ->
  ksound (KPred (PIsAssignable pat po) false)
         (fun o => existsb (member_b o) pat = false /\ wf_obj o = true /\ enum_class_object o = false
                   /\ (po = false -> In (VGen GSeqPat) pat -> is_str o = false)
                   /\ (existsb is_generic_pat pat = true -> is_collection o = false)).
Proof.
  intros pat po Hpat s o Hm [Hp [Hw [He [Hstr Hgen]]]]. simpl. unfold pred_isassignable.
  destruct (negb po && pat_assignable pat s && negb (univ_assignable (sbase s) pat)) eqn:E.
  - exfalso. apply andb_true_iff in E. destruct E as [E Hu]. apply andb_true_iff in E. destruct E as [Hpo Ha].
    apply negb_true_iff in Hu. apply negb_true_iff in Hpo.
    unfold pat_assignable in Ha. apply existsb_exists in Ha. destruct Ha as [p [Hin Ha]].
    rewrite forallb_forall in Hpat. pose proof (Hpat p Hin) as Hvt. apply negb_true_iff in Hvt.
    assert (Hmem : member_b o p = true).
    { apply (assignable_sound p (sbase s) o Ha (member_s_base o s Hm) Hvt (univ_mono _ _ _ Hin Hu) Hw He).
      - intros ->. apply Hstr; [exact Hpo|exact Hin].
      - intros Hg. apply Hgen. apply existsb_exists. exists p. split; assumption. }
    assert (existsb (member_b o) pat = true) by (apply existsb_exists; exists p; split; assumption).
    rewrite H in Hp. discriminate.
  - rewrite member_single. exact Hm.
Qed.

(* ------------------------------------------------------------------ *)
(* equality, identity, membership in a tuple of literals *)

Lemma elt_py_eq_refl : forall e, elt_py_eq e e = true.
Proof.
  intros e. unfold elt_py_eq. destruct e; simpl; try reflexivity.
  - apply Z.eqb_refl.
  - apply Z.eqb_refl.
  - apply (list_eqb_eq N N.eqb N.eqb_eq). reflexivity.
Qed.

Lemma py_eq_refl : forall o, py_eq o o = true.
Proof.
  intros o. unfold py_eq. destruct (num_of o) eqn:E; [apply Z.eqb_refl|].
  destruct o; try apply obj_eqb_refl; clear E.
  all: induction l as [|e l IH]; simpl; [reflexivity|]; rewrite elt_py_eq_refl; exact IH.
Qed.

Lemma member_assignable_lit : forall o s,
  member_s o s = true -> atomic o = true ->
  (forall l, sbase s <> VKnown l) -> assignable_lit s o = true.
Proof.
  intros o [b e] Hm Hat Hnk. simpl in Hm. apply andb_true_iff in Hm. destruct Hm as [Hb He].
  unfold assignable_lit. simpl. rewrite He, andb_true_r.
  destruct b as [|l|c|c|ms|g]; simpl in *.
  - reflexivity.
  - exfalso. apply (Hnk l). reflexivity.
  - exact Hb.
  - destruct o; try discriminate. exact Hb.
  - destruct o; try discriminate.
  - destruct g; simpl in *; try exact Hb; destruct o; try discriminate; exact Hb.
Qed.

Lemma other_members_spec : forall c n excl j,
  j < n -> excl (OEnum c j) = false ->
  member (OEnum c j) (other_members c n excl) = true.
Proof.
  induction n as [|n IH]; intros excl j Hj He; [lia|].
  simpl. rewrite member_app. destruct (Nat.eq_dec j n) as [->|Hne].
  - rewrite He. rewrite member_single, member_s_plain. simpl.
    rewrite cls_eqb_refl, Nat.eqb_refl. apply orb_true_r.
  - rewrite IH; [reflexivity|lia|exact He].
Qed.

Lemma equals_pos_sound : forall l use_is,
  atomic l = true ->
  ksound (KPred (PEquals l use_is) true) (fun o => o = l).
Proof.
  intros l use_is Hat s o Hm ->. simpl. unfold pred_equals.
  destruct (sbase s) as [|l'|c|c|ms|g] eqn:Eb;
    try (rewrite (member_assignable_lit l s Hm Hat) by (intros l0; rewrite Eb; discriminate);
         rewrite member_single, member_s_plain; simpl; apply obj_eqb_refl).
  pose proof (member_s_base l s Hm) as Hb. rewrite Eb in Hb. simpl in Hb. apply obj_eqb_eq in Hb. subst l'.
  rewrite obj_eqb_refl, py_eq_refl.
  replace (Bool.eqb (if use_is then true else true) true) with true by (destruct use_is; reflexivity).
  rewrite member_single. exact Hm.
Qed.

Lemma equals_neg_sound : forall l use_is,
  wf_obj l = true ->
  ksound (KPred (PEquals l use_is) false)
         (fun o => wf_obj o = true /\ obj_eqb o l = false /\ (use_is = false -> py_eq o l = false)).
Proof.
  intros l use_is Hwl s o Hm [Hw [Hne Hpy]]. simpl. unfold pred_equals.
  pose proof (member_s_base o s Hm) as Hb.
  destruct (sbase s) as [|l'|c|c|ms|g] eqn:Eb.
  - destruct l; rewrite member_single; exact Hm.
  - simpl in Hb. apply obj_eqb_eq in Hb. subst l'.
    destruct use_is.
    + rewrite Hne. cbn [Bool.eqb]. rewrite member_single. exact Hm.
    + rewrite (Hpy eq_refl). cbn [Bool.eqb]. rewrite member_single. exact Hm.
  - simpl in Hb.
    destruct l; try (rewrite member_single; exact Hm).
    + (* bool pattern *)
      destruct c; try (rewrite member_single; exact Hm).
      apply sub_bool_only in Hb. destruct (class_of_bool o Hw Hb) as [q ->].
      rewrite member_single, member_s_plain. simpl. simpl in Hne.
      destruct q, b; simpl in *; try reflexivity; discriminate.
    + (* enum pattern *)
      destruct (cls_eqb c0 c) eqn:Ec; [|rewrite member_single; exact Hm].
      apply cls_eqb_eq in Ec. subst c0.
      assert (He : is_enum c = true).
      { simpl in Hwl. unfold is_enum. destruct (enum_size c); [discriminate|reflexivity]. }
      pose proof (sub_enum_only _ _ He Hb) as Hc.
      destruct (class_of_enum o c Hw He Hc) as [j [-> Hj]].
      apply other_members_spec; [exact Hj|exact Hne].
  - destruct l; rewrite member_single; exact Hm.
  - destruct l; rewrite member_single; exact Hm.
  - destruct l; rewrite member_single; exact Hm.
Qed.

Lemma in_pos_sound : forall ls,
  forallb atomic ls = true ->
  ksound (KPred (PIn ls) true) (fun o => In o ls).
Proof.
  intros ls Hat s o Hm Hin. simpl. unfold pred_in.
  assert (Hex : existsb (py_eq o) ls = true).
  { apply existsb_exists. exists o. split; [exact Hin|apply py_eq_refl]. }
  rewrite forallb_forall in Hat. pose proof (Hat o Hin) as Hao.
  destruct (sbase s) as [|l'|c|c|ms|g] eqn:Eb;
    try (apply member_in; exists (plain (VKnown o)); split;
         [ apply in_map_iff; exists o; split; [reflexivity|];
           apply filter_In; split; [exact Hin|];
           apply (member_assignable_lit o s Hm Hao); intros l0; rewrite Eb; discriminate
         | rewrite member_s_plain; simpl; apply obj_eqb_refl ]).
  pose proof (member_s_base o s Hm) as Hb. rewrite Eb in Hb. simpl in Hb. apply obj_eqb_eq in Hb. subst l'.
  rewrite Hex. cbn [Bool.eqb]. rewrite member_single. exact Hm.
Qed.

Lemma in_pattern_type_enum : forall ls c, in_pattern_type ls = Some c -> True.
Proof. trivial. Qed.

Lemma in_neg_sound : forall ls,
  ksound (KPred (PIn ls) false) (fun o => wf_obj o = true /\ existsb (py_eq o) ls = false).
Proof.
  intros ls s o Hm [Hw Hne]. simpl. unfold pred_in.
  pose proof (member_s_base o s Hm) as Hb.
  destruct (sbase s) as [|l'|c|c|ms|g] eqn:Eb.
  - destruct (in_pattern_type ls); rewrite member_single; exact Hm.
  - simpl in Hb. apply obj_eqb_eq in Hb. subst l'. rewrite Hne. cbn [Bool.eqb]. rewrite member_single. exact Hm.
  - destruct (in_pattern_type ls) as [c0|]; [|rewrite member_single; exact Hm].
    destruct (is_enum c0 && cls_eqb c0 c) eqn:E; [|rewrite member_single; exact Hm].
    apply andb_true_iff in E. destruct E as [He Ec]. apply cls_eqb_eq in Ec. subst c0.
    simpl in Hb. pose proof (sub_enum_only _ _ He Hb) as Hc.
    destruct (class_of_enum o c Hw He Hc) as [j [-> Hj]].
    apply other_members_spec; [exact Hj|exact Hne].
  - destruct (in_pattern_type ls); rewrite member_single; exact Hm.
  - destruct (in_pattern_type ls); rewrite member_single; exact Hm.
  - destruct (in_pattern_type ls); rewrite member_single; exact Hm.
Qed.

(* ------------------------------------------------------------------ *)
(* len(x) <op> n *)

Lemma eval_neg_op : forall op a b, eval_op (neg_op op) a b = negb (eval_op op a b).
Proof.
  intros op a b. destruct op; simpl;
    [ reflexivity | rewrite negb_involutive; reflexivity
    | apply Z.leb_antisym | apply Z.ltb_antisym | apply Z.leb_antisym | apply Z.ltb_antisym ].
Qed.

Lemma match_members_len_exact : forall ms es,
  existsb fst ms = false -> match_members ms es = true -> length es = length ms.
Proof.
  induction ms as [|[m t] ms IH]; intros es Hf Hm.
  - destruct es; [reflexivity|discriminate].
  - simpl in Hf. destruct m; [discriminate|]. simpl in Hf.
    destruct es as [|e es]; [discriminate|]. simpl in Hm.
    apply andb_true_iff in Hm. destruct Hm as [_ Hm]. simpl. f_equal. apply IH; assumption.
Qed.

Lemma len_of_value_sound : forall s o kz k,
  len_of_value s = Some kz -> member_s o s = true -> len_of o = Some k -> kz = Z.of_nat k.
Proof.
  intros [b e] o kz k Hl Hm Hk. simpl in Hl.
  destruct b as [|l|c|c|ms|g]; try discriminate.
  - destruct e; [|destruct l; discriminate]. simpl in Hm.
    rewrite andb_true_r in Hm. apply obj_eqb_eq in Hm. subst l.
    destruct o; try discriminate; rewrite Hk in Hl; simpl in Hl; congruence.
  - destruct e; try discriminate. simpl in Hm. rewrite andb_true_r in Hm. destruct (existsb fst ms) eqn:Ef; [discriminate|].
    destruct o; try discriminate. simpl in Hk. inversion Hk; subst k. inversion Hl; subst kz.
    rewrite (match_members_len_exact ms l Ef Hm). reflexivity.
Qed.

Lemma add_exts_holds : forall (h : lenext -> bool) new old,
  forallb h old = true -> forallb h new = true -> forallb h (add_exts old new) = true.
Proof.
  induction new as [|e r IH]; intros old Ho Hn; simpl; [exact Ho|].
  simpl in Hn. apply andb_true_iff in Hn. destruct Hn as [He Hr].
  apply IH; [|exact Hr]. destruct (existsb (lenext_eqb e) old); [exact Ho|].
  rewrite forallb_app, Ho. simpl. rewrite He. reflexivity.
Qed.

Lemma member_annotate : forall o s new,
  member_s o s = true -> forallb (ext_holds o) new = true -> member_s o (annotate s new) = true.
Proof.
  intros o [b e] new Hm Hn. simpl in *. apply andb_true_iff in Hm. destruct Hm as [Hb He].
  rewrite Hb. simpl. apply add_exts_holds; assumption.
Qed.

Lemma len_transform_sound : forall o s op n k,
  member_s o s = true -> len_of o = Some k -> eval_op op (Z.of_nat k) n = true ->
  member_s o (len_transform s op n) = true.
Proof.
  intros o s op n k Hm Hk He. unfold len_transform.
  destruct (len_of_value s); [exact Hm|].
  destruct op; simpl in He; try exact Hm; apply member_annotate; try exact Hm;
    unfold ext_holds; simpl; rewrite Hk; simpl; rewrite ?andb_true_r.
  - apply Z.eqb_eq in He. rewrite He. rewrite Z.leb_refl. reflexivity.
  - apply Z.ltb_lt in He. apply Z.leb_le. lia.
  - exact He.
  - apply Z.ltb_lt in He. apply Z.leb_le. lia.
  - exact He.
Qed.

Lemma lencmp_sound : forall op n positive,
  ksound (KPred (PLenCmp op n) positive)
         (fun o => exists k, len_of o = Some k /\
                             eval_op (if positive then op else neg_op op) (Z.of_nat k) n = true).
Proof.
  intros op n positive s o Hm [k [Hk He]]. simpl. unfold pred_lencmp.
  set (op' := if positive then op else neg_op op) in *.
  destruct (len_of_value s) as [kz|] eqn:El.
  - rewrite (len_of_value_sound s o kz k El Hm Hk). rewrite He.
    rewrite member_single. apply (len_transform_sound o s op' n k Hm Hk He).
  - rewrite member_single. apply (len_transform_sound o s op' n k Hm Hk He).
Qed.

(* ------------------------------------------------------------------ *)
(* TypeGuard, wildcard *)

Lemma valueobject_pos_sound : forall t, ksound (KValueObject t true) (fun o => member o t = true).
Proof. intros t s o Hm Ht. cbn [apply_constr]. exact Ht. Qed.

Lemma valueobject_neg_sound : forall t P, ksound (KValueObject t false) P.
Proof. intros t P s o Hm _. cbn [apply_constr]. rewrite member_single. exact Hm. Qed.

Lemma always_pos_sound : forall P, ksound (KPred PAlways true) P.
Proof. intros P s o Hm _. cbn [apply_constr apply_pred]. rewrite member_single. exact Hm. Qed.

Lemma always_neg_sound : ksound (KPred PAlways false) (fun _ => False).
Proof. intros s o Hm []. Qed.

(* ------------------------------------------------------------------ *)
(* patma.LenPredicate *)

Lemma ety_eqb_eq : forall a b, ety_eqb a b = true -> a = b.
Proof. destruct a, b; simpl; intros H; try discriminate; reflexivity. Qed.

Lemma sub_tuple_only : forall k, sub_art k CTuple = true -> k = CTuple.
Proof. destruct k; vm_compute; intros H; try discriminate; reflexivity. Qed.

Lemma class_of_tuple : forall o, wf_obj o = true -> class_of o = CTuple -> exists es, o = OTuple es.
Proof.
  intros o Hw Hc. destruct o; simpl in *; try discriminate.
  - subst c. vm_compute in Hw. discriminate.
  - subst c. vm_compute in Hw. discriminate.
  - unfold meta in Hc. destruct (is_enum c); discriminate.
  - eexists; reflexivity.
Qed.

Lemma match_repeat : forall t n es,
  length es = n -> forallb (fun e => elt_member e t) es = true ->
  match_members (repeat (false, t) n) es = true.
Proof.
  induction n as [|n IH]; intros es Hl Hf.
  - destruct es; [reflexivity|discriminate].
  - destruct es as [|e es]; [discriminate|]. simpl in *.
    apply andb_true_iff in Hf. destruct Hf as [He Hf]. rewrite He. simpl.
    apply IH; [lia|exact Hf].
Qed.

Lemma forallb_any : forall es, forallb (fun e => elt_member e TAnyE) es = true.
Proof. induction es; simpl; [reflexivity|]. destruct a; simpl; exact IHes. Qed.

Lemma match_members_all : forall t ms es,
  forallb (fun m => ety_eqb (snd m) t) ms = true -> match_members ms es = true ->
  forallb (fun e => elt_member e t) es = true.
Proof.
  intros t. induction ms as [|[m t'] ms IH]; intros es Hall Hm.
  - destruct es; [reflexivity|discriminate].
  - simpl in Hall. apply andb_true_iff in Hall. destruct Hall as [Ht Hall].
    apply ety_eqb_eq in Ht. simpl in Ht. subst t'.
    destruct m.
    + (* unpacked member *)
      induction es as [|e es IHes].
      * reflexivity.
      * simpl in Hm. apply orb_true_iff in Hm. destruct Hm as [Hm|Hm].
        -- apply (IH _ Hall Hm).
        -- apply andb_true_iff in Hm. destruct Hm as [He Hm]. simpl. rewrite He. simpl.
           apply IHes. simpl. exact Hm.
    + destruct es as [|e es]; [discriminate|]. simpl in Hm.
      apply andb_true_iff in Hm. destruct Hm as [He Hm]. simpl. rewrite He. simpl.
      apply (IH _ Hall Hm).
Qed.

Lemma tuple_arg_members : forall b o es,
  tuple_typed b = true -> member_b o b = true -> o = OTuple es ->
  forallb (fun e => elt_member e (tuple_arg b)) es = true.
Proof.
  intros b o es Ht Hm ->. destruct b as [|l|c|c|ms|g]; simpl in Ht; try discriminate.
  - simpl. apply forallb_any.
  - simpl in Hm. destruct ms as [|[m t] ms]; [simpl; apply forallb_any|].
    cbn [tuple_arg]. destruct (forallb (fun m0 => ety_eqb (snd m0) t) ms) eqn:E; [|apply forallb_any].
    apply (match_members_all t ((m, t) :: ms) es); [|exact Hm].
    simpl. rewrite E. destruct t; reflexivity.
Qed.

Lemma tuple_typed_is_tuple : forall b o, tuple_typed b = true -> member_b o b = true -> wf_obj o = true ->
  exists es, o = OTuple es.
Proof.
  intros b o Ht Hm Hw. destruct b as [|l|c|c|ms|g]; simpl in Ht; try discriminate.
  - destruct c; try discriminate. simpl in Hm. apply (class_of_tuple o Hw (sub_tuple_only _ Hm)).
  - simpl in Hm. destruct o; try discriminate. eexists; reflexivity.
Qed.

Lemma lenpat_sound : forall n star positive,
  ksound (KPred (PLenPat n star) positive)
         (fun o => wf_obj o = true /\ exists k, len_of o = Some k /\
                   (if star then Nat.leb n k else Nat.eqb k n) = positive).
Proof.
  intros n star positive s o Hm [Hw [k [Hk Hc]]]. cbn [apply_constr apply_pred]. unfold pred_lenpat.
  destruct (len_of_value s) as [kz|] eqn:El.
  - rewrite (len_of_value_sound s o kz k El Hm Hk).
    assert (Hz : (if star then Z.leb (Z.of_nat n) (Z.of_nat k) else Z.eqb (Z.of_nat k) (Z.of_nat n))
                 = (if star then Nat.leb n k else Nat.eqb k n)).
    { destruct star.
      - destruct (Nat.leb n k) eqn:E; [apply Nat.leb_le in E; apply Z.leb_le; lia|apply Nat.leb_gt in E; apply Z.leb_gt; lia].
      - destruct (Nat.eqb k n) eqn:E; [apply Nat.eqb_eq in E; apply Z.eqb_eq; lia|apply Nat.eqb_neq in E; apply Z.eqb_neq; lia]. }
    rewrite Hz, Hc. rewrite Bool.eqb_reflx. rewrite member_single. exact Hm.
  - destruct (positive && negb star && tuple_typed (sbase s)) eqn:E; [|rewrite member_single; exact Hm].
    apply andb_true_iff in E. destruct E as [E Ht]. apply andb_true_iff in E. destruct E as [Hp Hs].
    rewrite Hp in Hc. apply negb_true_iff in Hs. rewrite Hs in Hc. apply Nat.eqb_eq in Hc. subst k.
    destruct (tuple_typed_is_tuple _ o Ht (member_s_base o s Hm) Hw) as [es Ho].
    rewrite member_single, member_s_plain. subst o. cbn [member_b]. simpl in Hk. injection Hk as Hk.
    apply match_repeat; [exact Hk|].
    apply (tuple_arg_members (sbase s) (OTuple es) es Ht (member_s_base _ s Hm) eq_refl).
Qed.

(* ------------------------------------------------------------------ *)
(* assert-style constraints: is_instance, is_value, add_annotation *)

Lemma non_numeric_nominal : forall K t, numeric_cls K = false -> sub_art K t = true -> sub K t = true.
Proof. intros K t; destruct K, t; vm_compute; intros H1 H2; try discriminate; reflexivity. Qed.

Lemma nominal_comparable : forall K t c,
  diamond_cls K = false -> sub K t = true -> sub K c = true -> sub t c || sub c t = true.
Proof.
  assert (H : forallb (fun K => forallb (fun t => forallb (fun c =>
              implb (negb (diamond_cls K) && sub K t && sub K c) (sub t c || sub c t)) all_cls) all_cls) all_cls = true)
    by (vm_compute; reflexivity).
  intros K t c Hd H1 H2.
  pose proof (forallb_all_cls _ (forallb_all_cls _ (forallb_all_cls _ H K) t) c) as Hi. simpl in Hi.
  rewrite Hd, H1, H2 in Hi. exact Hi.
Qed.

Lemma meta_sub_type : forall t c, sub CType c = true -> sub (meta t) c = true.
Proof. intros t c; destruct t, c; vm_compute; intros H; try discriminate; reflexivity. Qed.

Lemma meta_mono_sub : forall k t, sub_art k t = true -> sub (meta k) (meta t) = true.
Proof. intros k t; destruct k, t; vm_compute; intros H; try discriminate; reflexivity. Qed.

Lemma member_nominal_cls : forall o b,
  member_b o b = true -> (forall l, b <> VKnown l) -> (forall t, b <> VSub t) -> b <> VAny ->
  sub_art (class_of o) (nominal_cls b) = true.
Proof.
  intros o b Hm H1 H2 H3. pose proof (deliteral_member o b Hm) as D.
  destruct b as [|l|c|c|ms|g]; simpl in *.
  - exfalso. apply H3. reflexivity.
  - exfalso. apply (H1 l). reflexivity.
  - exact Hm.
  - exfalso. apply (H2 c). reflexivity.
  - destruct o; try discriminate. reflexivity.
  - destruct g; simpl in *; try exact D; try (apply andb_true_iff in Hm; tauto);
      destruct o; try discriminate; reflexivity.
Qed.

Lemma diamond_of : forall o, multiple_inheritance o = false -> diamond_cls (class_of o) = false.
Proof. intros o H. destruct o; simpl in *; try exact H. apply diamond_meta. Qed.

Definition assert_ok (o : obj) : Prop :=
  wf_obj o = true /\ multiple_inheritance o = false /\ enum_class_object o = false.

Lemma numeric_like_cls : forall o, numeric_like o = false ->
  (forall k, o <> OClass k) -> numeric_cls (class_of o) = false.
Proof. intros o H Hn. destruct o; simpl in *; try exact H. exfalso. apply (Hn c). reflexivity. Qed.

Lemma class_object_not_numeric : forall k, numeric_cls (meta k) = false.
Proof. destruct k; reflexivity. Qed.

Lemma sub_or_promotable : forall c t, sub c t || promotable c t = sub_art c t.
Proof. intros c t; destruct c, t; reflexivity. Qed.

(* an instance of c that belongs to the declared class t (possibly by promotion): t is a subclass
   of c, or c is a subclass of / promoted to t *)
Lemma pos_comparable : forall K t c,
  diamond_cls K = false -> sub_art K t = true -> sub K c = true -> sub t c || sub_art c t = true.
Proof.
  assert (H : forallb (fun K => forallb (fun t => forallb (fun c =>
              implb (negb (diamond_cls K) && sub_art K t && sub K c) (sub t c || sub_art c t)) all_cls) all_cls) all_cls = true)
    by (vm_compute; reflexivity).
  intros K t c Hd H1 H2.
  pose proof (forallb_all_cls _ (forallb_all_cls _ (forallb_all_cls _ H K) t) c) as Hi. simpl in Hi.
  rewrite Hd, H1, H2 in Hi. exact Hi.
Qed.

Lemma isinstance_pos_typed : forall o t c s,
  sub_art (class_of o) t = true -> isinst o c = true -> multiple_inheritance o = false ->
  member_s o s = true ->
  member o (if sub t c then [s] else if sub c t || promotable c t then [plain (VTyped c)] else []) = true.
Proof.
  intros o t c s Hk Hi Hd Hm.
  pose proof (pos_comparable _ _ _ (diamond_of o Hd) Hk Hi) as Hc.
  destruct (sub t c); [rewrite member_single; exact Hm|]. simpl in Hc.
  rewrite sub_or_promotable, Hc. rewrite member_single, member_s_plain. simpl. apply sub_sub_art. exact Hi.
Qed.

Lemma isinstance_pos_sound : forall c,
  ksound (KIsInstance c true) (fun o => isinst o c = true /\ assert_ok o).
Proof.
  intros c s o Hm [Hi [Hw [Hd He]]]. cbn [apply_constr]. unfold apply_isinstance.
  pose proof (member_s_base o s Hm) as Hb.
  destruct (sbase s) as [|l|t|t|ms|g] eqn:Eb.
  - rewrite member_single, member_s_plain. simpl. apply sub_sub_art. exact Hi.
  - simpl in Hb. apply obj_eqb_eq in Hb. subst l. rewrite Hi. cbn [Bool.eqb]. rewrite member_single. exact Hm.
  - simpl in Hb. cbn [nominal_cls]. apply (isinstance_pos_typed o t c s Hb Hi Hd Hm).
  - simpl in Hb. destruct o; try discriminate. simpl in He. unfold isinst in *. simpl in *.
    unfold meta in Hi at 1. rewrite He in Hi. rewrite (meta_sub_type t c Hi). cbn [Bool.eqb].
    rewrite member_single. exact Hm.
  - assert (Hk : sub_art (class_of o) CTuple = true) by (simpl in Hb; destruct o; try discriminate; reflexivity).
    cbn [nominal_cls]. apply (isinstance_pos_typed o CTuple c s Hk Hi Hd Hm).
  - cbn [nominal_cls]. apply (isinstance_pos_typed o (gen_cls g) c s (gen_member_cls o g Hb) Hi Hd Hm).
Qed.

Lemma isinstance_neg_sound : forall c,
  ksound (KIsInstance c false) (fun o => isinst o c = false /\ numeric_like o = false).
Proof.
  intros c s o Hm [Hi Hn]. cbn [apply_constr]. unfold apply_isinstance.
  pose proof (member_s_base o s Hm) as Hb.
  assert (HnK : numeric_cls (class_of o) = false).
  { destruct o; simpl in *; try exact Hn. apply class_object_not_numeric. }
  assert (Hgen : forall t, sub_art (class_of o) t = true -> sub t c = false).
  { intros t Ht. destruct (sub t c) eqn:E; [|reflexivity].
    pose proof (sub_trans _ _ _ (non_numeric_nominal _ _ HnK Ht) E) as Hx. unfold isinst in Hi. congruence. }
  destruct (sbase s) as [|l|t|t|ms|g] eqn:Eb.
  - rewrite member_single, member_s_plain. reflexivity.
  - simpl in Hb. apply obj_eqb_eq in Hb. subst l. rewrite Hi. cbn [Bool.eqb]. rewrite member_single. exact Hm.
  - simpl in Hb. cbn [nominal_cls]. rewrite (Hgen t Hb). rewrite member_single. exact Hm.
  - simpl in Hb. destruct o; try discriminate. unfold isinst in *. simpl in *.
    destruct (sub (meta t) c) eqn:E; [|cbn [Bool.eqb]; rewrite member_single; exact Hm].
    pose proof (sub_trans _ _ _ (meta_mono_sub _ _ Hb) E). congruence.
  - assert (Hk : sub_art (class_of o) CTuple = true) by (simpl in Hb; destruct o; try discriminate; reflexivity).
    cbn [nominal_cls]. rewrite (Hgen _ Hk). rewrite member_single. exact Hm.
  - cbn [nominal_cls]. rewrite (Hgen _ (gen_member_cls o g Hb)). rewrite member_single. exact Hm.
Qed.

Lemma isvalue_pos_sound : forall l,
  ksound (KIsValue l true) (fun o => o = l).
Proof.
  intros l s o Hm ->. cbn [apply_constr]. unfold apply_isvalue.
  pose proof (member_s_base l s Hm) as Hb.
  assert (Hk : member l [plain (VKnown l)] = true).
  { rewrite member_single, member_s_plain. simpl. apply obj_eqb_refl. }
  destruct (sbase s) as [|l'|t|t|ms|g] eqn:Eb.
  - exact Hk.
  - simpl in Hb. apply obj_eqb_eq in Hb. subst l'. rewrite obj_eqb_refl. rewrite member_single. exact Hm.
  - simpl in Hb. cbn [nominal_cls]. unfold isinst. rewrite sub_or_promotable, Hb. exact Hk.
  - simpl in Hb. destruct l; try discriminate. rewrite sub_or_promotable, Hb. exact Hk.
  - assert (Hc : sub_art (class_of l) CTuple = true) by (simpl in Hb; destruct l; try discriminate; reflexivity).
    cbn [nominal_cls]. unfold isinst. rewrite sub_or_promotable, Hc. exact Hk.
  - cbn [nominal_cls]. unfold isinst. rewrite sub_or_promotable, (gen_member_cls l g Hb). exact Hk.
Qed.

Lemma isvalue_neg_sound : forall l,
  ksound (KIsValue l false) (fun o => obj_eqb o l = false).
Proof.
  intros l s o Hm Hne. cbn [apply_constr]. unfold apply_isvalue. cbn [negb].
  pose proof (member_s_base o s Hm) as Hb.
  destruct (sbase s) as [|l'|t|t|ms|g] eqn:Eb; try (rewrite member_single; exact Hm).
  simpl in Hb. apply obj_eqb_eq in Hb. subst l'. rewrite Hne. rewrite member_single. exact Hm.
Qed.

Lemma addannot_sound : forall n p P, ksound (KAddAnnot n p) P.
Proof.
  intros n p P s o Hm _. cbn [apply_constr]. destruct p; rewrite member_single; [|exact Hm].
  apply member_annotate; [exact Hm|reflexivity].
Qed.
