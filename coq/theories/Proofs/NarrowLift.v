(* Proofs/NarrowLift.v — how soundness of single constraints lifts through
   one_of / all_of, AND / OR / inversion and constrain_value. *)
From Coq Require Import ZArith List Bool NArith Lia.
Import ListNotations.
Require Import PV.Narrow.Base PV.Narrow.Model PV.Narrow.Guards PV.Proofs.NarrowBasics.

(* ---- membership in unions ---- *)
Lemma member_app : forall o a b, member o (a ++ b) = member o a || member o b.
Proof. intros. unfold member. apply existsb_app. Qed.

Lemma member_in : forall o v, member o v = true <-> exists s, In s v /\ member_s o s = true.
Proof. intros. unfold member. apply existsb_exists. Qed.

Lemma member_single : forall o s, member o [s] = member_s o s.
Proof. intros. unfold member. simpl. apply orb_false_r. Qed.

Lemma member_flat_map : forall o (f : sval -> list sval) v s,
  In s v -> member o (f s) = true -> member o (flat_map f v) = true.
Proof.
  intros o f v s Hin Hm. apply member_in in Hm. destruct Hm as [s' [Hin' Hs']].
  apply member_in. exists s'. split; [|exact Hs'].
  apply in_flat_map. exists s. split; assumption.
Qed.

Lemma member_flat_map_inv : forall o (f : sval -> list sval) v,
  member o (flat_map f v) = true -> exists s, In s v /\ member o (f s) = true.
Proof.
  intros o f v Hm. apply member_in in Hm. destruct Hm as [s' [Hin Hs']].
  apply in_flat_map in Hin. destruct Hin as [s [Hs Hin']].
  exists s. split; [exact Hs|]. apply member_in. exists s'. split; assumption.
Qed.

(* ---- a constraint keeps every object satisfying P ---- *)
Definition ksound (k : constr) (P : obj -> Prop) : Prop :=
  forall s o, member_s o s = true -> P o -> member o (apply_constr k s) = true.

Lemma ksound_weaken : forall k (P Q : obj -> Prop),
  (forall o, Q o -> P o) -> ksound k P -> ksound k Q.
Proof. intros k P Q H Hk s o Hm Hq. apply Hk; [exact Hm | apply H; exact Hq]. Qed.

Lemma apply_all_sound : forall ks (P : obj -> Prop) o,
  (forall k, In k ks -> ksound k P) -> P o ->
  forall v, member o v = true -> member o (apply_all ks v) = true.
Proof.
  induction ks as [|k ks IH]; intros P o Hks Hp v Hm; simpl.
  - exact Hm.
  - unfold apply_all in *. simpl. apply (IH P o).
    + intros k' Hin. apply Hks. right. exact Hin.
    + exact Hp.
    + apply member_in in Hm. destruct Hm as [s [Hin Hs]].
      apply (member_flat_map o (apply_constr k) v s Hin).
      apply (Hks k (or_introl eq_refl) s o Hs Hp).
Qed.

Lemma allof_unfold : forall cs s, apply_constr (KAllOf cs) s = apply_all cs [s].
Proof.
  intros cs s. simpl.
  generalize (@cons sval s nil) as vals. induction cs as [|c cs IH]; intros vals.
  - reflexivity.
  - unfold apply_all. simpl. unfold apply_all in IH. rewrite IH. reflexivity.
Qed.

Lemma oneof_unfold2 : forall k1 k2 s,
  apply_constr (KOneOf [k1; k2]) s = apply_constr k1 s ++ apply_constr k2 s.
Proof. intros. simpl. rewrite app_nil_r. reflexivity. Qed.

Lemma ksound_allof : forall cs P, (forall k, In k cs -> ksound k P) -> ksound (KAllOf cs) P.
Proof.
  intros cs P H s o Hm Hp. rewrite allof_unfold.
  apply (apply_all_sound cs P o H Hp). rewrite member_single. exact Hm.
Qed.

Lemma ksound_from_list : forall l P, (forall k, In k l -> ksound k P) -> ksound (from_list l) P.
Proof.
  intros l P H. destruct l as [|c [|c' r]]; simpl.
  - apply ksound_allof. exact H.
  - apply H. left. reflexivity.
  - apply ksound_allof. exact H.
Qed.

Lemma ksound_oneof2 : forall k1 k2 (P1 P2 : obj -> Prop),
  ksound k1 P1 -> ksound k2 P2 -> ksound (KOneOf [k1; k2]) (fun o => P1 o \/ P2 o).
Proof.
  intros k1 k2 P1 P2 H1 H2 s o Hm [Hp|Hp]; rewrite oneof_unfold2, member_app.
  - rewrite (H1 s o Hm Hp). reflexivity.
  - rewrite (H2 s o Hm Hp). apply orb_true_r.
Qed.

(* ---- abstract constraints ---- *)
Definition asound (a : acon) (P : obj -> Prop) : Prop :=
  forall k, In k (apply_acon a) -> ksound k P.

Lemma asound_weaken : forall a (P Q : obj -> Prop),
  (forall o, Q o -> P o) -> asound a P -> asound a Q.
Proof. intros a P Q H Ha k Hin. apply (ksound_weaken k P Q H). apply Ha. exact Hin. Qed.

Lemma asound_null : forall P, asound ANull P.
Proof. intros P k []. Qed.

Lemma asound_leaf : forall k P, ksound k P -> asound (ALeaf k) P.
Proof. intros k P H k' [<-|[]]. exact H. Qed.

Lemma asound_and : forall a b P, asound a P -> asound b P -> asound (AAnd a b) P.
Proof.
  intros a b P Ha Hb k Hin. simpl in Hin. apply in_app_or in Hin. destruct Hin; [apply Ha|apply Hb]; assumption.
Qed.

Lemma asound_or : forall a b (Pa Pb : obj -> Prop),
  asound a Pa -> asound b Pb -> asound (AOr a b) (fun o => Pa o \/ Pb o).
Proof.
  intros a b Pa Pb Ha Hb k Hin. cbn [apply_acon] in Hin. unfold asound in Ha, Hb.
  destruct (apply_acon a) as [|ka ra] eqn:Ea; [destruct Hin|].
  destruct (apply_acon b) as [|kb rb] eqn:Eb; [destruct Hin|].
  destruct Hin as [<-|[]].
  apply ksound_oneof2; apply ksound_from_list; assumption.
Qed.

Lemma asound_alt : forall a b (Pa Pb : obj -> Prop),
  asound a Pa -> asound b Pb -> asound (AAlt a b) (fun o => Pa o \/ Pb o).
Proof.
  intros a b Pa Pb Ha Hb k Hin. cbn [apply_acon] in Hin. unfold asound in Ha, Hb.
  destruct (apply_acon a) as [|ka ra] eqn:Ea; [destruct Hin|].
  destruct (apply_acon b) as [|kb rb] eqn:Eb; [destruct Hin|].
  destruct Hin as [<-|[]].
  apply ksound_oneof2; apply ksound_from_list; assumption.
Qed.

Lemma constrain_sound : forall a (P : obj -> Prop) o v,
  asound a P -> P o -> member o v = true -> member o (constrain v a) = true.
Proof. intros a P o v Ha Hp Hm. unfold constrain. apply (apply_all_sound _ P o Ha Hp v Hm). Qed.

