(* Proofs/NarrowMain.v — the C02 theorems: narrowing keeps the actual value
   (under the guard), refutation witnesses for the three guard clauses. *)
From Coq Require Import ZArith List Bool NArith Lia.
Import ListNotations.
Require Import PV.Narrow.Base PV.Narrow.Model PV.Narrow.Guards.
Require Import PV.Proofs.NarrowBasics PV.Proofs.NarrowLift PV.Proofs.NarrowLeaves.

(* ---- the guard, split ---- *)
Lemma c02_guard_split : forall c o, c02_guard c o = true ->
  wf_obj o = true /\ cond_ok c o = true /\ multiple_inheritance o = false /\
  subclass_bool o = false /\ promotion_negative c o = false /\ enum_class_object o = false /\
  sequence_pattern_str c o = false /\ assert_promotion c o = false /\ generic_pattern_negative c o = false.
Proof.
  intros c o H. unfold c02_guard in H.
  repeat (apply andb_true_iff in H; destruct H as [H ?]).
  repeat match goal with Hn : negb _ = true |- _ => apply negb_true_iff in Hn end.
  tauto.
Qed.

Lemma c02_guard_join : forall c o,
  wf_obj o = true -> cond_ok c o = true -> multiple_inheritance o = false ->
  subclass_bool o = false -> promotion_negative c o = false -> enum_class_object o = false ->
  sequence_pattern_str c o = false -> assert_promotion c o = false -> generic_pattern_negative c o = false ->
  c02_guard c o = true.
Proof. intros c o H1 H2 H3 H4 H5 H6 H7 H8 H9. unfold c02_guard. rewrite H1, H2, H3, H4, H5, H6, H7, H8, H9. reflexivity. Qed.

Lemma sps_split : forall a b o,
  (has_seqis_false a || has_seqis_false b) && sub_art (class_of o) CStr = false ->
  sequence_pattern_str a o = false /\ sequence_pattern_str b o = false.
Proof.
  intros a b o H. unfold sequence_pattern_str.
  destruct (sub_art (class_of o) CStr); [|rewrite !andb_false_r; tauto].
  rewrite andb_true_r in H. apply orb_false_iff in H. destruct H as [-> ->]. tauto.
Qed.

Definition P (c : cond) (pol : bool) (o : obj) : Prop :=
  holds c o = Some pol /\ c02_guard c o = true.

(* ---- run-time tests versus membership in the tested pattern ---- *)
Lemma isinst_member : forall o cs,
  existsb (isinst o) cs = true -> existsb (member_b o) (map VTyped cs) = true.
Proof.
  intros o cs H. apply existsb_exists in H. destruct H as [c [Hin Hc]].
  apply existsb_exists. exists (VTyped c). split; [apply in_map; exact Hin|].
  simpl. apply sub_sub_art. exact Hc.
Qed.

Lemma not_isinst_not_member : forall o cs,
  existsb (isinst o) cs = false -> existsb (promoted_obj o) cs = false ->
  existsb (member_b o) (map VTyped cs) = false.
Proof.
  intros o cs. induction cs as [|c cs IH]; intros H1 H2; [reflexivity|].
  simpl in *. apply orb_false_iff in H1. destruct H1 as [Hc H1].
  apply orb_false_iff in H2. destruct H2 as [Hp H2].
  rewrite (IH H1 H2), orb_false_r.
  unfold promoted_obj in Hp. unfold isinst in Hc. rewrite Hc in Hp. simpl in Hp.
  rewrite andb_true_r in Hp. exact Hp.
Qed.

Lemma sub_member : forall k cs,
  existsb (sub k) cs = true -> existsb (member_b (OClass k)) (map VSub cs) = true.
Proof.
  intros k cs H. apply existsb_exists in H. destruct H as [c [Hin Hc]].
  apply existsb_exists. exists (VSub c). split; [apply in_map; exact Hin|].
  simpl. apply sub_sub_art. exact Hc.
Qed.

Lemma not_sub_not_member : forall k cs,
  existsb (sub k) cs = false -> existsb (promoted_cls k) cs = false ->
  existsb (member_b (OClass k)) (map VSub cs) = false.
Proof.
  intros k cs. induction cs as [|c cs IH]; intros H1 H2; [reflexivity|].
  simpl in *. apply orb_false_iff in H1. destruct H1 as [Hc H1].
  apply orb_false_iff in H2. destruct H2 as [Hp H2].
  rewrite (IH H1 H2), orb_false_r.
  unfold promoted_cls in Hp. rewrite Hc in Hp. simpl in Hp. rewrite andb_true_r in Hp. exact Hp.
Qed.

Lemma no_vtuple_typed : forall cs, forallb (fun p => negb (is_vtuple p)) (map VTyped cs) = true.
Proof. induction cs; simpl; [reflexivity|assumption]. Qed.

Lemma no_vtuple_sub : forall cs, forallb (fun p => negb (is_vtuple p)) (map VSub cs) = true.
Proof. induction cs; simpl; [reflexivity|assumption]. Qed.

Lemma no_generic_typed : forall cs, existsb is_generic_pat (map VTyped cs) = false.
Proof. induction cs; simpl; [reflexivity|assumption]. Qed.
Lemma no_generic_sub : forall cs, existsb is_generic_pat (map VSub cs) = false.
Proof. induction cs; simpl; [reflexivity|assumption]. Qed.

Lemma generic_negative_guard : forall t o,
  existsb (member_b o) t = false ->
  existsb (fun p => is_generic_pat p && negb (member_b o p)) t && is_collection o = false ->
  existsb is_generic_pat t = true -> is_collection o = false.
Proof.
  intros t o Hm Hg Hex. destruct (is_collection o); [|reflexivity]. rewrite andb_true_r in Hg.
  apply existsb_exists in Hex. destruct Hex as [p [Hin Hp]].
  assert (Hmp : member_b o p = false).
  { destruct (member_b o p) eqn:E; [|reflexivity].
    assert (existsb (member_b o) t = true) by (apply existsb_exists; exists p; split; assumption). congruence. }
  assert (existsb (fun p0 => is_generic_pat p0 && negb (member_b o p0)) t = true).
  { apply existsb_exists. exists p. split; [exact Hin|]. rewrite Hp, Hmp. reflexivity. }
  congruence.
Qed.

Lemma not_seq_not_member : forall o, wf_obj o = true -> seq_elems o = None ->
  member_b o (VGen GSeqPat) = false.
Proof.
  intros o Hw Hs. destruct o; simpl in Hs; try discriminate; try reflexivity.
  - destruct c; vm_compute in Hw; try discriminate; reflexivity.
  - destruct c; try reflexivity; destruct i; vm_compute in Hw; discriminate.
  - destruct c; reflexivity.
Qed.

Lemma not_map_not_member : forall o, wf_obj o = true -> (forall kvs, o <> ODict kvs) ->
  member_b o (VGen GMapPat) = false.
Proof.
  intros o Hw Hs. destruct o; try reflexivity.
  - destruct c; vm_compute in Hw; try discriminate; reflexivity.
  - destruct c; try reflexivity; destruct i; vm_compute in Hw; discriminate.
  - destruct c; reflexivity.
  - exfalso. apply (Hs kvs). reflexivity.
Qed.

Lemma singleton_atomic : forall l, singleton l = true -> atomic l = true.
Proof. destruct l; simpl; intros H; try discriminate; reflexivity. Qed.

(* ---- every condition kind, both polarities ---- *)
Ltac guard_parts H :=
  let Hw := fresh "Hw" in let Hok := fresh "Hok" in let Hmi := fresh "Hmi" in
  let Hsb := fresh "Hsb" in let Hpn := fresh "Hpn" in let Hec := fresh "Hec" in let Hss := fresh "Hss" in let Hap := fresh "Hap" in let Hgp := fresh "Hgp" in
  destruct (c02_guard_split _ _ H) as [Hw [Hok [Hmi [Hsb [Hpn [Hec [Hss [Hap Hgp]]]]]]]].

Ltac weaken L := eapply ksound_weaken; [|apply L]; cbv beta; intros o [Hh Hg].

Lemma cond_sound : forall c,
  asound (cond_acon c) (P c true) /\ asound (invert (cond_acon c)) (P c false).
Proof.
  induction c as [ |cs|cs|l|l|ls|op n|t|t|c0| |b0|po|n star|pre star post|po|kps|a IHa b IHb|fl a IHa b IHb|c1|l1|n1 b1|c IH|a IHa b IHb|a IHa b IHb];
    cbn [cond_acon invert flip negb].
  - (* truthy *)
    split; apply asound_leaf.
    + weaken truthy_pos_sound. simpl in Hh. injection Hh as Hh'. exact Hh'.
    + weaken truthy_neg_sound. guard_parts Hg. simpl in Hh. injection Hh as Hh'. split; assumption.
  - (* isinstance *)
    split; apply asound_leaf.
    + weaken (isassign_pos_sound (map VTyped cs) false). guard_parts Hg. simpl in Hh. injection Hh as Hh'.
      split; [apply isinst_member; exact Hh'|split; assumption].
    + weaken (isassign_neg_sound (map VTyped cs) false (no_vtuple_typed cs)).
      guard_parts Hg. simpl in Hh. injection Hh as Hh'.
      split; [apply not_isinst_not_member; [exact Hh'|exact Hpn]|split; [assumption|split; [assumption|split]]].
      * intros _ Hin. exfalso. apply in_map_iff in Hin. destruct Hin as [x [Hx _]]. discriminate.
      * rewrite no_generic_typed. intros Hf. discriminate.
  - (* issubclass *)
    split; apply asound_leaf.
    + weaken (isassign_pos_sound (map VSub cs) false). guard_parts Hg. simpl in Hh. destruct o; try discriminate.
      injection Hh as Hh'. split; [apply sub_member; exact Hh'|split; assumption].
    + weaken (isassign_neg_sound (map VSub cs) false (no_vtuple_sub cs)).
      guard_parts Hg. simpl in Hh. destruct o; try discriminate.
      injection Hh as Hh'. split; [apply not_sub_not_member; [exact Hh'|exact Hpn]|split; [assumption|split; [assumption|split]]].
      * intros _ Hin. exfalso. apply in_map_iff in Hin. destruct Hin as [x [Hx _]]. discriminate.
      * rewrite no_generic_sub. intros Hf. discriminate.
  - (* is *)
    split; apply asound_leaf.
    + destruct (atomic l) eqn:Hat.
      * weaken (equals_pos_sound l true Hat). simpl in Hh. injection Hh as Hh'. apply obj_eqb_eq. exact Hh'.
      * intros s o Hm [Hh Hg]. guard_parts Hg. simpl in Hok. apply andb_true_iff in Hok.
        destruct Hok as [Hs _]. rewrite (singleton_atomic l Hs) in Hat. discriminate.
    + destruct (wf_obj l) eqn:Hwl.
      * weaken (equals_neg_sound l true Hwl). guard_parts Hg. simpl in Hh. injection Hh as Hh'.
        split; [assumption|]. split; [exact Hh'|]. intros Hf. discriminate.
      * intros s o Hm [Hh Hg]. guard_parts Hg. simpl in Hok. apply andb_true_iff in Hok.
        destruct Hok as [_ Hw']. rewrite Hw' in Hwl. discriminate.
  - (* == *)
    split; apply asound_leaf.
    + destruct (atomic l) eqn:Hat.
      * weaken (equals_pos_sound l false Hat). guard_parts Hg. simpl in Hh. injection Hh as Hh'.
        simpl in Hok. apply andb_true_iff in Hok. destruct Hok as [_ Hc].
        unfold eq_compatible in Hc. rewrite Hh' in Hc. simpl in Hc. apply obj_eqb_eq. exact Hc.
      * intros s o Hm [Hh Hg]. guard_parts Hg. simpl in Hok.
        apply andb_true_iff in Hok. destruct Hok as [Hok _].
        apply andb_true_iff in Hok. destruct Hok as [Ha _]. rewrite Ha in Hat. discriminate.
    + destruct (wf_obj l) eqn:Hwl.
      * weaken (equals_neg_sound l false Hwl). guard_parts Hg. simpl in Hh. injection Hh as Hh'.
        split; [assumption|]. split.
        -- destruct (obj_eqb o l) eqn:E; [|reflexivity]. apply obj_eqb_eq in E. subst l.
           rewrite py_eq_refl in Hh'. discriminate.
        -- intros _. exact Hh'.
      * intros s o Hm [Hh Hg]. guard_parts Hg. simpl in Hok.
        apply andb_true_iff in Hok. destruct Hok as [Hok _].
        apply andb_true_iff in Hok. destruct Hok as [_ Hw']. rewrite Hw' in Hwl. discriminate.
  - (* in *)
    split; apply asound_leaf.
    + destruct (forallb atomic ls) eqn:Hat.
      * weaken (in_pos_sound ls Hat). guard_parts Hg. simpl in Hh. injection Hh as Hh'.
        apply existsb_exists in Hh'. destruct Hh' as [x [Hx Hpy]].
        simpl in Hok. rewrite forallb_forall in Hok. pose proof (Hok x Hx) as Hx'.
        apply andb_true_iff in Hx'. destruct Hx' as [_ Hc]. unfold eq_compatible in Hc.
        rewrite Hpy in Hc. simpl in Hc. apply obj_eqb_eq in Hc. subst x. exact Hx.
      * intros s o Hm [Hh Hg]. guard_parts Hg. simpl in Hok. exfalso.
        assert (forallb atomic ls = true).
        { apply forallb_forall. intros x Hx. rewrite forallb_forall in Hok. pose proof (Hok x Hx) as Hx'.
          apply andb_true_iff in Hx'. destruct Hx' as [Hx' _]. apply andb_true_iff in Hx'. tauto. }
        rewrite H in Hat. discriminate.
    + weaken (in_neg_sound ls). guard_parts Hg. simpl in Hh. injection Hh as Hh'. split; assumption.
  - (* len *)
    split; apply asound_leaf.
    + weaken (lencmp_sound op n true). simpl in Hh. destruct (len_of o) as [k|]; [|discriminate].
      injection Hh as Hh'. exists k. split; [reflexivity|exact Hh'].
    + weaken (lencmp_sound op n false). simpl in Hh. destruct (len_of o) as [k|]; [|discriminate].
      injection Hh as Hh'. exists k. split; [reflexivity|]. rewrite eval_neg_op, Hh'. reflexivity.
  - (* TypeIs *)
    split; apply asound_leaf.
    + weaken (isassign_pos_sound t false). guard_parts Hg. simpl in Hh. injection Hh as Hh'.
      split; [assumption|split; assumption].
    + destruct (forallb (fun p => negb (is_vtuple p)) t) eqn:Hvt.
      * weaken (isassign_neg_sound t false Hvt). guard_parts Hg. simpl in Hh. injection Hh as Hh'.
        split; [exact Hh'|split; [assumption|split; [assumption|split]]].
        -- intros _ Hin. exfalso. simpl in Hok. apply andb_true_iff in Hok. destruct Hok as [_ Hok].
           rewrite forallb_forall in Hok. pose proof (Hok _ Hin) as Hx. discriminate.
        -- simpl in Hgp. apply (generic_negative_guard t o Hh' Hgp).
      * intros s o Hm [Hh Hg]. guard_parts Hg. simpl in Hok. exfalso.
        apply andb_true_iff in Hok. destruct Hok as [_ Hok].
        assert (forallb (fun p => negb (is_vtuple p)) t = true).
        { apply forallb_forall; intros x Hx; rewrite forallb_forall in Hok;
            pose proof (Hok x Hx) as Hx'; destruct x; try reflexivity; discriminate. }
        rewrite H in Hvt. discriminate.
  - (* TypeGuard *)
    split; apply asound_leaf.
    + weaken (valueobject_pos_sound t). simpl in Hh. injection Hh as Hh'. exact Hh'.
    + apply valueobject_neg_sound.
  - (* case c(): *)
    split; apply asound_leaf.
    + weaken (isassign_pos_sound [VTyped c0] true). guard_parts Hg. simpl in Hh. injection Hh as Hh'.
      split; [|split; assumption]. simpl. unfold isinst in Hh'. rewrite (sub_sub_art _ _ Hh'). reflexivity.
    + weaken (isassign_neg_sound [VTyped c0] true eq_refl). guard_parts Hg. simpl in Hh. injection Hh as Hh'.
      split; [|split; [assumption|split; [assumption|split; intros Hf; discriminate]]].
      simpl. rewrite orb_false_r. simpl in Hpn. unfold promoted_obj in Hpn. unfold isinst in Hh'.
      rewrite Hh' in Hpn. simpl in Hpn. rewrite andb_true_r in Hpn. exact Hpn.
  - (* case _: *)
    split; apply asound_leaf.
    + apply always_pos_sound.
    + weaken always_neg_sound. simpl in Hh. discriminate.
  - (* opaque *)
    split; apply asound_null.
  - (* sequence pattern: is a sequence *)
    split; apply asound_leaf.
    + weaken (isassign_pos_sound [VGen GSeqPat] po). guard_parts Hg. simpl in Hh. injection Hh as Hh'.
      split; [|split; assumption]. destruct o; simpl in Hh'; try discriminate; reflexivity.
    + weaken (isassign_neg_sound [VGen GSeqPat] po eq_refl). guard_parts Hg. simpl in Hh. injection Hh as Hh'.
      split; [|split; [assumption|split; [assumption|split]]].
      * simpl. rewrite orb_false_r. apply (not_seq_not_member o Hw). destruct (seq_elems o); [discriminate|reflexivity].
      * intros Hpo _. unfold sequence_pattern_str in Hss. simpl in Hss. rewrite Hpo in Hss. simpl in Hss. exact Hss.
      * intros Hf. discriminate.
  - (* sequence pattern: length *)
    split; apply asound_leaf.
    + weaken (lenpat_sound n star true). guard_parts Hg. simpl in Hh. destruct (len_of o) as [k|]; [|discriminate].
      injection Hh as Hh'. split; [assumption|]. exists k. split; [reflexivity|exact Hh'].
    + weaken (lenpat_sound n star false). guard_parts Hg. simpl in Hh. destruct (len_of o) as [k|]; [|discriminate].
      injection Hh as Hh'. split; [assumption|]. exists k. split; [reflexivity|exact Hh'].
  - (* sequence pattern: subpatterns *)
    split; apply asound_null.
  - (* mapping pattern: is a mapping *)
    split; apply asound_leaf.
    + weaken (isassign_pos_sound [VGen GMapPat] po). guard_parts Hg. simpl in Hh. injection Hh as Hh'.
      split; [|split; assumption]. destruct o; simpl in Hh'; try discriminate; reflexivity.
    + weaken (isassign_neg_sound [VGen GMapPat] po eq_refl). guard_parts Hg. simpl in Hh. injection Hh as Hh'.
      split; [|split; [assumption|split; [assumption|split]]].
      * simpl. rewrite orb_false_r. apply (not_map_not_member o Hw). destruct o; try reflexivity; discriminate.
      * intros _ [Hf|[]]. discriminate.
      * intros Hf. discriminate.
  - (* mapping pattern: keys *)
    split; apply asound_null.
  - (* parts of one pattern *)
    destruct IHa as [IHa1 IHa2]. destruct IHb as [IHb1 IHb2]. split.
    + apply asound_and.
      * apply (asound_weaken _ (P a true)); [|exact IHa1].
        intros o [Hh Hg]. guard_parts Hg. simpl in Hh, Hok, Hpn.
        apply andb_true_iff in Hok. apply orb_false_iff in Hpn. apply sps_split in Hss. simpl in Hap. apply orb_false_iff in Hap. simpl in Hgp. apply orb_false_iff in Hgp.
        destruct (holds a o) as [[|]|] eqn:Ea; try discriminate.
        split; [exact Ea|apply c02_guard_join; tauto].
      * apply (asound_weaken _ (P b true)); [|exact IHb1].
        intros o [Hh Hg]. guard_parts Hg. simpl in Hh, Hok, Hpn.
        apply andb_true_iff in Hok. apply orb_false_iff in Hpn. apply sps_split in Hss. simpl in Hap. apply orb_false_iff in Hap. simpl in Hgp. apply orb_false_iff in Hgp.
        destruct (holds a o) as [[|]|]; try discriminate.
        split; [exact Hh|apply c02_guard_join; tauto].
    + apply (asound_weaken _ (fun o => P a false o \/ P b false o)); [|apply asound_or; assumption].
      intros o [Hh Hg]. guard_parts Hg. simpl in Hh, Hok, Hpn.
      apply andb_true_iff in Hok. apply orb_false_iff in Hpn. apply sps_split in Hss. simpl in Hap. apply orb_false_iff in Hap. simpl in Hgp. apply orb_false_iff in Hgp.
      destruct (holds a o) as [[|]|] eqn:Ea; try discriminate.
      * right. split; [exact Hh|apply c02_guard_join; tauto].
      * left. split; [exact Ea|apply c02_guard_join; tauto].
  - (* (a) if f() else (b): the value is one of the two; whichever it is, its constraint (or its negation) holds *)
    destruct IHa as [IHa1 IHa2]. destruct IHb as [IHb1 IHb2]. split.
    + apply (asound_weaken _ (fun o => P a true o \/ P b true o)); [|apply asound_alt; assumption].
      intros o [Hh Hg]. guard_parts Hg. simpl in Hh, Hok, Hpn.
      apply andb_true_iff in Hok. apply orb_false_iff in Hpn. apply sps_split in Hss. simpl in Hap. apply orb_false_iff in Hap. simpl in Hgp. apply orb_false_iff in Hgp.
      destruct fl; [left|right]; (split; [exact Hh|apply c02_guard_join; tauto]).
    + apply (asound_weaken _ (fun o => P a false o \/ P b false o)); [|apply asound_alt; assumption].
      intros o [Hh Hg]. guard_parts Hg. simpl in Hh, Hok, Hpn.
      apply andb_true_iff in Hok. apply orb_false_iff in Hpn. apply sps_split in Hss. simpl in Hap. apply orb_false_iff in Hap. simpl in Hgp. apply orb_false_iff in Hgp.
      destruct fl; [left|right]; (split; [exact Hh|apply c02_guard_join; tauto]).
  - (* assert_is_instance *)
    split; apply asound_leaf.
    + weaken (isinstance_pos_sound c1). guard_parts Hg. simpl in Hh. injection Hh as Hh'.
      split; [exact Hh'|]. repeat split; assumption.
    + weaken (isinstance_neg_sound c1). guard_parts Hg. simpl in Hh. injection Hh as Hh'.
      simpl in Hap. rewrite Hh' in Hap. simpl in Hap. split; assumption.
  - (* assert_is *)
    split; apply asound_leaf.
    + weaken (isvalue_pos_sound l1). simpl in Hh. injection Hh as Hh'. apply obj_eqb_eq. exact Hh'.
    + weaken (isvalue_neg_sound l1). simpl in Hh. injection Hh as Hh'. exact Hh'.
  - (* hasattr *)
    split; apply asound_leaf; apply addannot_sound.
  - (* not *)
    destruct IH as [IH1 IH2]. split.
    + apply (asound_weaken _ (P c false)); [|exact IH2].
      intros o [Hh Hg]. split; [|exact Hg]. simpl in Hh. destruct (holds c o) as [[|]|]; simpl in Hh; congruence.
    + rewrite invert_involutive. apply (asound_weaken _ (P c true)); [|exact IH1].
      intros o [Hh Hg]. split; [|exact Hg]. simpl in Hh. destruct (holds c o) as [[|]|]; simpl in Hh; congruence.
  - (* and *)
    destruct IHa as [IHa1 IHa2]. destruct IHb as [IHb1 IHb2]. split.
    + apply asound_and.
      * apply (asound_weaken _ (P b true)); [|exact IHb1].
        intros o [Hh Hg]. guard_parts Hg. simpl in Hh, Hok, Hpn.
        apply andb_true_iff in Hok. apply orb_false_iff in Hpn. apply sps_split in Hss. simpl in Hap. apply orb_false_iff in Hap. simpl in Hgp. apply orb_false_iff in Hgp.
        destruct (holds a o) as [[|]|]; try discriminate.
        split; [exact Hh|apply c02_guard_join; tauto].
      * apply (asound_weaken _ (P a true)); [|exact IHa1].
        intros o [Hh Hg]. guard_parts Hg. simpl in Hh, Hok, Hpn.
        apply andb_true_iff in Hok. apply orb_false_iff in Hpn. apply sps_split in Hss. simpl in Hap. apply orb_false_iff in Hap. simpl in Hgp. apply orb_false_iff in Hgp.
        destruct (holds a o) as [[|]|] eqn:Ea; try discriminate.
        split; [exact Ea|apply c02_guard_join; tauto].
    + apply (asound_weaken _ (fun o => P b false o \/ P a false o)); [|apply asound_or; assumption].
      intros o [Hh Hg]. guard_parts Hg. simpl in Hh, Hok, Hpn.
      apply andb_true_iff in Hok. apply orb_false_iff in Hpn. apply sps_split in Hss. simpl in Hap. apply orb_false_iff in Hap. simpl in Hgp. apply orb_false_iff in Hgp.
      destruct (holds a o) as [[|]|] eqn:Ea; try discriminate.
      * left. split; [exact Hh|apply c02_guard_join; tauto].
      * right. split; [exact Ea|apply c02_guard_join; tauto].
  - (* or *)
    destruct IHa as [IHa1 IHa2]. destruct IHb as [IHb1 IHb2]. split.
    + apply (asound_weaken _ (fun o => P a true o \/ P b true o)); [|apply asound_or; assumption].
      intros o [Hh Hg]. guard_parts Hg. simpl in Hh, Hok, Hpn.
      apply andb_true_iff in Hok. apply orb_false_iff in Hpn. apply sps_split in Hss. simpl in Hap. apply orb_false_iff in Hap. simpl in Hgp. apply orb_false_iff in Hgp.
      destruct (holds a o) as [[|]|] eqn:Ea; try discriminate.
      * left. split; [exact Ea|apply c02_guard_join; tauto].
      * right. split; [exact Hh|apply c02_guard_join; tauto].
    + apply asound_and.
      * apply (asound_weaken _ (P a false)); [|exact IHa2].
        intros o [Hh Hg]. guard_parts Hg. simpl in Hh, Hok, Hpn.
        apply andb_true_iff in Hok. apply orb_false_iff in Hpn. apply sps_split in Hss. simpl in Hap. apply orb_false_iff in Hap. simpl in Hgp. apply orb_false_iff in Hgp.
        destruct (holds a o) as [[|]|] eqn:Ea; try discriminate.
        split; [exact Ea|apply c02_guard_join; tauto].
      * apply (asound_weaken _ (P b false)); [|exact IHb2].
        intros o [Hh Hg]. guard_parts Hg. simpl in Hh, Hok, Hpn.
        apply andb_true_iff in Hok. apply orb_false_iff in Hpn. apply sps_split in Hss. simpl in Hap. apply orb_false_iff in Hap. simpl in Hgp. apply orb_false_iff in Hgp.
        destruct (holds a o) as [[|]|]; try discriminate.
        split; [exact Hh|apply c02_guard_join; tauto].
Qed.

(* ---- narrowing never loses the actual value (under the guard) ---- *)
Theorem narrow_keeps_value_partial : forall V c pol o,
  member o V = true -> holds c o = Some pol -> c02_guard c o = true ->
  member o (narrow V c pol) = true.
Proof.
  intros V c pol o Hm Hh Hg. unfold narrow. destruct (cond_sound c) as [H1 H2].
  destruct pol.
  - apply (constrain_sound _ (P c true) o V H1 (conj Hh Hg) Hm).
  - apply (constrain_sound _ (P c false) o V H2 (conj Hh Hg) Hm).
Qed.

Lemma member_boolop_merge : forall c V o, member o V = true -> member o (boolop_merge V c) = true.
Proof.
  induction c; intros V o Hm; simpl; try exact Hm.
  - apply IHc. exact Hm.
  - rewrite member_app, (IHc1 V o Hm). reflexivity.
  - rewrite member_app, (IHc1 V o Hm). reflexivity.
Qed.

Theorem narrow_e2e_keeps_value_partial : forall V c pol o,
  member o V = true -> holds c o = Some pol -> c02_guard c o = true ->
  member o (narrow_e2e V c pol) = true.
Proof.
  intros V c pol o Hm Hh Hg. unfold narrow_e2e. destruct (cond_sound c) as [H1 H2].
  pose proof (member_boolop_merge c V o Hm) as Hm'.
  destruct pol.
  - apply (constrain_sound _ (P c true) o _ H1 (conj Hh Hg) Hm').
  - apply (constrain_sound _ (P c false) o _ H2 (conj Hh Hg) Hm').
Qed.

(* the three refutations of the full statement, one per guard clause *)
Lemma promotion_negative_refuted :
  exists V c pol o, wf_obj o = true /\ cond_ok c o = true /\ member o V = true /\ holds c o = Some pol /\
    promotion_negative c o = true /\ member o (narrow V c pol) = false.
Proof.
  exists [plain (VTyped CInt); plain (VTyped CStr)], (CIsInstance [CFloat]), false, (OInt 1).
  vm_compute. repeat split; reflexivity.
Qed.

Lemma subclass_bool_refuted :
  exists V c pol o, wf_obj o = true /\ cond_ok c o = true /\ member o V = true /\ holds c o = Some pol /\
    subclass_bool o = true /\ member o (narrow V c pol) = false.
Proof.
  exists [plain (VTyped CA)], CTruthy, false, (OInst CFalsy 0%N).
  vm_compute. repeat split; reflexivity.
Qed.

Lemma multiple_inheritance_refuted :
  exists V c pol o, wf_obj o = true /\ cond_ok c o = true /\ member o V = true /\ holds c o = Some pol /\
    multiple_inheritance o = true /\ member o (narrow V c pol) = false.
Proof.
  exists [plain (VTyped CA)], (CIsInstance [CC]), true, (OInst CAC 0%N).
  vm_compute. repeat split; reflexivity.
Qed.

Lemma enum_class_object_refuted :
  exists V c pol o, wf_obj o = true /\ cond_ok c o = true /\ member o V = true /\ holds c o = Some pol /\
    enum_class_object o = true /\ member o (narrow V c pol) = false.
Proof.
  exists [plain (VKnown (OClass CIE))], (CIsSubclass [CInt]), true, (OClass CIE).
  vm_compute. repeat split; reflexivity.
Qed.

Lemma sequence_pattern_str_refuted :
  exists V c pol o, wf_obj o = true /\ cond_ok c o = true /\ member o V = true /\ holds c o = Some pol /\
    sequence_pattern_str c o = true /\ member o (narrow V c pol) = false.
Proof.
  exists [plain (VTyped CSequence)], (CSeqIs false), false, (OStr [97%N]).
  vm_compute. repeat split; reflexivity.
Qed.

Example match_seq_example :
  let V := [plain (VTuple [(false, TIntE)]); plain (VTuple [(false, TIntE); (false, TStrE)]);
            plain (VTuple [(false, TIntE); (false, TStrE); (false, TNoneE)]); plain (VTyped CStr)] in
  let c := match_seq [EWild; EWild] true [] in
  narrow V c true = [plain (VTuple [(false, TIntE); (false, TStrE)]);
                     plain (VTuple [(false, TIntE); (false, TStrE); (false, TNoneE)]);
                     plain (VGen GSeqPat)] /\
  holds c (OTuple [LInt 1; LStr []]) = Some true /\ c02_guard c (OTuple [LInt 1; LStr []]) = true /\
  holds c (OTuple [LInt 1]) = Some false /\ holds c (OStr [97%N]) = Some false /\
  narrow V c false = V.
Proof. vm_compute. repeat split; reflexivity. Qed.

Lemma assert_promotion_refuted :
  exists V c pol o, wf_obj o = true /\ cond_ok c o = true /\ member o V = true /\ holds c o = Some pol /\
    assert_promotion c o = true /\ member o (narrow V c pol) = false.
Proof.
  exists [plain (VTyped CFloat)], (CAssertInst CFloat), false, (OInt 1).
  vm_compute. repeat split; reflexivity.
Qed.

(* the repaired positive branch: x: float, assert_is_instance(x, int) gives int and keeps 1 *)
Example assert_promotion_repaired :
  narrow [plain (VTyped CFloat)] (CAssertInst CInt) true = [plain (VTyped CInt)] /\
  c02_guard (CAssertInst CInt) (OInt 1) = true /\ holds (CAssertInst CInt) (OInt 1) = Some true /\
  narrow [plain (VTyped CFloat)] (CAssertIs (OBool true)) true = [plain (VKnown (OBool true))] /\
  narrow [plain (VSub CFloat)] (CAssertIs (OClass CInt)) true = [plain (VKnown (OClass CInt))].
Proof. vm_compute. repeat split; reflexivity. Qed.

Lemma generic_pattern_negative_refuted :
  exists V c pol o, wf_obj o = true /\ cond_ok c o = true /\ member o V = true /\ holds c o = Some pol /\
    generic_pattern_negative c o = true /\ member o (narrow V c pol) = false.
Proof.
  exists [plain (VGen (GList TAnyE))], (CTypeIs [VGen (GList TIntE)]), false, (OList [LStr [97%N]]).
  vm_compute. repeat split; reflexivity.
Qed.

(* the repaired positive branch: list[int] narrowed by TypeIs[list[str]] keeps the empty list *)
Example generic_typeis_positive :
  narrow [plain (VGen (GList TIntE))] (CTypeIs [VGen (GList TStrE)]) true = [plain (VGen (GList TStrE))] /\
  c02_guard (CTypeIs [VGen (GList TStrE)]) (OList []) = true /\
  holds (CTypeIs [VGen (GList TStrE)]) (OList []) = Some true.
Proof. vm_compute. repeat split; reflexivity. Qed.

(* a union-valued condition: both branches stay inhabited by what can take them *)
Example alternatives_example :
  let V := [plain (VKnown ONone); plain (VTuple [(true, TIntE)]); plain (VKnown (OInt 1))] in
  let c := CIfExp true (CIsInstance [CStr]) (CNot (CIsInstance [CStr])) in
  narrow V c false = V /\ narrow V c true = V /\
  holds c (OInt 1) = Some false /\ holds (CIfExp false (CIsInstance [CStr]) (CNot (CIsInstance [CStr]))) (OInt 1) = Some true /\
  c02_guard c (OInt 1) = true.
Proof. vm_compute. repeat split; reflexivity. Qed.

(* stored conditions: the object reaches the branch through definition d; the stored flag tells the truth
   about it only if d was current when the condition was evaluated *)
Theorem stored_narrow_keeps_value : forall cur cons V c pol o d,
  In d cur -> member o V = true -> (In d cons -> holds c o = Some pol) -> c02_guard c o = true ->
  member o (stored_narrow cur cons V c pol) = true.
Proof.
  intros cur cons V c pol o d Hd Hm Hh Hg. unfold stored_narrow, stored_narrow_with, model_stale_test. simpl.
  destruct (forallb (fun d0 => mem_id d0 cons) cur) eqn:E; [|exact Hm].
  rewrite forallb_forall in E. pose proof (E d Hd) as Hin. unfold mem_id in Hin.
  apply existsb_exists in Hin. destruct Hin as [d' [Hin' Heq]]. apply Nat.eqb_eq in Heq. subst d'.
  apply (narrow_keeps_value_partial V c pol o Hm (Hh Hin') Hg).
Qed.

(* with the "rebound on every path" test instead, an object bound by a definition the condition never
   saw is lost: x: int | str; was_int = isinstance(x, int); if flag: x = "hello"; if was_int: ... *)
Lemma stored_disjoint_rule_refuted :
  exists cur cons V c pol o d,
    In d cur /\ member o V = true /\ (In d cons -> holds c o = Some pol) /\ c02_guard c o = true /\
    member o (stored_narrow_with StaleIfDisjoint cur cons V c pol) = false.
Proof.
  exists [1; 2], [1], [plain (VTyped CInt); plain (VKnown (OStr [104%N]))], (CIsInstance [CInt]), true, (OStr [104%N]), 2.
  repeat split; try reflexivity.
  - right. left. reflexivity.
  - intros [H|[]]. discriminate.
Qed.

Lemma narrow_keeps_value_refuted : ~ narrow_keeps_value_full_statement.
Proof.
  intros H.
  pose proof (H [plain (VTyped CInt); plain (VTyped CStr)] (CIsInstance [CFloat]) false (OInt 1)
                eq_refl eq_refl eq_refl eq_refl) as Hc.
  vm_compute in Hc. discriminate.
Qed.

(* the guard is satisfiable by non-trivial inputs (narrowing really happens) *)
Example narrow_guard_inhabited :
  let V := [plain (VTyped CInt); plain (VTyped CStr); plain (VKnown ONone); plain (VTyped CE)] in
  let c := CAnd (CNot (CIs ONone)) (COr (CIsInstance [CInt; CBool]) (CEq (OEnum CE 0))) in
  c02_guard c (OInt 3) = true /\ holds c (OInt 3) = Some true /\
  c02_guard c (OStr [97%N]) = true /\ holds c (OStr [97%N]) = Some false /\
  narrow V c true = [plain (VTyped CInt); plain (VKnown (OEnum CE 0))] /\
  member (OStr [97%N]) (narrow V c false) = true /\ member (OInt 3) (narrow V c false) = false.
Proof. vm_compute. repeat split; reflexivity. Qed.

(* ---- the constraint algebra ---- *)
Lemma not_swaps_branches : forall V c pol, narrow V (CNot c) pol = narrow V c (negb pol).
Proof.
  intros V c pol. unfold narrow. destruct pol; cbn [cond_acon negb]; [reflexivity|].
  rewrite invert_involutive. reflexivity.
Qed.

Lemma de_morgan : forall V a b pol,
  narrow V (CNot (CAnd a b)) pol = narrow V (COr (CNot b) (CNot a)) pol /\
  narrow V (CNot (COr a b)) pol = narrow V (CAnd (CNot b) (CNot a)) pol.
Proof. intros. split; reflexivity. Qed.

(* ------------------------------------------------------------------ *)
(* `x in "<s>"` *)
Lemma in_str_infix : forall ch s, In ch s -> str_infix [ch] s = true.
Proof.
  intros ch s. induction s as [|b s IH]; intros H; [destruct H|].
  cbn [str_infix str_prefix]. destruct H as [->|H].
  - rewrite N.eqb_refl. reflexivity.
  - rewrite (IH H). apply orb_true_r.
Qed.

Lemma single_infix_in : forall ch s, str_infix [ch] s = true -> In ch s.
Proof.
  intros ch s. induction s as [|b s IH]; intros H; cbn [str_infix str_prefix] in H.
  - discriminate.
  - apply orb_true_iff in H. destruct H as [H|H].
    + rewrite andb_true_r in H. apply N.eqb_eq in H. subst. left. reflexivity.
    + right. apply IH. exact H.
Qed.

Lemma chars_py_eq_infix : forall t s, existsb (py_eq (OStr t)) (str_chars s) = true -> str_infix t s = true.
Proof.
  intros t s H. apply existsb_exists in H. destruct H as [x [Hin Hx]].
  unfold str_chars in Hin. apply in_map_iff in Hin. destruct Hin as [ch [<- Hch]].
  simpl in Hx. apply (list_eqb_eq N N.eqb N.eqb_eq) in Hx. subst t. apply in_str_infix. exact Hch.
Qed.

Lemma chars_atomic : forall s, forallb atomic (str_chars s) = true.
Proof. induction s; simpl; [reflexivity|assumption]. Qed.

Lemma instr_member_kept_iterate : forall s sv pol o,
  wf_obj o = true -> member_s o sv = true -> holds_instr s o = Some pol -> nonelementwise_container s o = false ->
  member o (pred_instr_with model_in_arg IterateAlways s sv pol) = true.
Proof.
  intros s sv pol o Hw Hm Hh Hg. destruct o as [| | | |t| | | | | |]; try discriminate.
  simpl in Hh. injection Hh as Hh. unfold pred_instr_with, model_in_arg.
  assert (Hin : forall b, sbase sv = b -> is_known_b b = false ->
                member (OStr t) (pred_in (str_chars s) sv pol) = true).
  { intros b Eb Hk. destruct pol.
    - apply (in_pos_sound (str_chars s) (chars_atomic s) sv (OStr t) Hm).
      simpl in Hg. rewrite Hh in Hg. simpl in Hg. apply negb_false_iff in Hg. apply Nat.eqb_eq in Hg.
      destruct t as [|ch [|ch2 t]]; try discriminate.
      unfold str_chars. apply in_map_iff. exists ch. split; [reflexivity|]. apply single_infix_in. exact Hh.
    - apply (in_neg_sound (str_chars s) sv (OStr t) Hm). split; [exact Hw|].
      destruct (existsb (py_eq (OStr t)) (str_chars s)) eqn:E; [|reflexivity].
      apply chars_py_eq_infix in E. congruence. }
  destruct (sbase sv) as [|l|c|c|ms|g] eqn:Eb; try (apply (Hin _ eq_refl); reflexivity).
  pose proof (member_s_base (OStr t) sv Hm) as Hb. rewrite Eb in Hb. simpl in Hb.
  destruct l as [| | | |t'| | | | | |]; try discriminate. apply (list_eqb_eq N N.eqb N.eqb_eq) in Hb. subst t'.
  rewrite Hh. rewrite Bool.eqb_reflx. rewrite member_single. exact Hm.
Qed.

(* the rule before the repair: keeps-value only under the clause *)
Lemma instr_iterate_rule_keeps_value_partial : forall V s pol o,
  wf_obj o = true -> member o V = true -> holds_instr s o = Some pol -> nonelementwise_container s o = false ->
  member o (instr_narrow_with model_in_arg IterateAlways V s pol) = true.
Proof.
  intros V s pol o Hw Hm Hh Hg. apply member_in in Hm. destruct Hm as [sv [Hin Hs]].
  unfold instr_narrow_with. apply (member_flat_map o _ V sv Hin).
  apply instr_member_kept_iterate; assumption.
Qed.

Lemma instr_member_kept : forall s sv pol o,
  wf_obj o = true -> member_s o sv = true -> holds_instr s o = Some pol ->
  member o (pred_instr_with model_in_arg model_typed_rule s sv pol) = true.
Proof.
  intros s sv pol o Hw Hm Hh. destruct o as [| | | |t| | | | | |]; try discriminate.
  simpl in Hh. injection Hh as Hh. unfold pred_instr_with, model_in_arg, model_typed_rule.
  assert (Hin : forall b, sbase sv = b -> is_known_b b = false ->
                member (OStr t) (if pol then [sv] else pred_in (str_chars s) sv false) = true).
  { intros b Eb Hk. destruct pol.
    - rewrite member_single. exact Hm.
    - apply (in_neg_sound (str_chars s) sv (OStr t) Hm). split; [exact Hw|].
      destruct (existsb (py_eq (OStr t)) (str_chars s)) eqn:E; [|reflexivity].
      apply chars_py_eq_infix in E. congruence. }
  destruct (sbase sv) as [|l|c|c|ms|g] eqn:Eb;
    try (pose proof (Hin _ eq_refl eq_refl) as Hx; destruct pol; exact Hx).
  pose proof (member_s_base (OStr t) sv Hm) as Hb. rewrite Eb in Hb. simpl in Hb.
  destruct l as [| | | |t'| | | | | |]; try discriminate. apply (list_eqb_eq N N.eqb N.eqb_eq) in Hb. subst t'.
  rewrite Hh. rewrite Bool.eqb_reflx. rewrite member_single. exact Hm.
Qed.

(* keeps-value for `x in "<s>"` / `x not in "<s>"` (HEAD after the repair): no clause *)
Lemma instr_keeps_value : forall V s pol o,
  wf_obj o = true -> member o V = true -> holds_instr s o = Some pol ->
  member o (instr_narrow V s pol) = true.
Proof.
  intros V s pol o Hw Hm Hh. apply member_in in Hm. destruct Hm as [sv [Hin Hs]].
  unfold instr_narrow, instr_narrow_with. apply (member_flat_map o _ V sv Hin).
  apply instr_member_kept; assumption.
Qed.

(* Literal members are tested with the container's own __contains__: they survive under either rule *)
Lemma instr_literals_kept : forall tr V s pol o,
  all_known V = true -> member o V = true -> holds_instr s o = Some pol ->
  member o (instr_narrow_with model_in_arg tr V s pol) = true.
Proof.
  intros tr V s pol o Hk Hm Hh. apply member_in in Hm. destruct Hm as [sv [Hin Hs]].
  unfold instr_narrow_with. apply (member_flat_map o _ V sv Hin).
  unfold all_known in Hk. rewrite forallb_forall in Hk. pose proof (Hk sv Hin) as Hsv.
  destruct o as [| | | |t| | | | | |]; try discriminate. simpl in Hh. injection Hh as Hh.
  unfold pred_instr_with, model_in_arg.
  destruct (sbase sv) as [|l|c|c|ms|g] eqn:Eb; try discriminate.
  pose proof (member_s_base (OStr t) sv Hs) as Hb. rewrite Eb in Hb. simpl in Hb.
  destruct l as [| | | |t'| | | | | |]; try discriminate. apply (list_eqb_eq N N.eqb N.eqb_eq) in Hb. subst t'.
  rewrite Hh. rewrite Bool.eqb_reflx. rewrite member_single. exact Hs.
Qed.

Definition s_abc : list N := [97; 98; 99]%N.
Definition s_ab : list N := [97; 98]%N.

(* the rule before the repair: `x: str`, `x in "abc"` narrowed to Literal['a','b','c'] and lost 'ab' *)
Lemma instr_iterate_rule_refuted :
  exists V s o, wf_obj o = true /\ member o V = true /\ holds_instr s o = Some true /\
    nonelementwise_container s o = true /\ member o (instr_narrow_with model_in_arg IterateAlways V s true) = false.
Proof. exists [plain (VTyped CStr)], s_abc, (OStr s_ab). vm_compute. repeat split. Qed.

(* the round-4 seed: handing the iterated elements to InPredicate loses a Literal member *)
Lemma instr_elements_rule_refuted :
  exists V s o, all_known V = true /\ member o V = true /\ holds_instr s o = Some true /\
    member o (instr_narrow_with ArgElements model_typed_rule V s true) = false.
Proof. exists [plain (VKnown (OStr s_ab)); plain (VKnown (OStr [99%N]))], s_abc, (OStr s_ab). vm_compute. repeat split. Qed.

(* the rule 180079d removed: a helper's constraint applied to a variable of the caller.  Not a statement about HEAD
   (HEAD leaves the caller's variable alone): the main theorem's hypothesis (the condition was evaluated on the object
   bound to the narrowed variable) is exactly what that rule violated *)
Lemma leak_keeps_value_guarded : forall V c pol o,
  member o V = true -> holds c o = Some pol -> c02_guard c o = true -> member o (leak_narrow V c pol) = true.
Proof. intros. unfold leak_narrow. apply narrow_keeps_value_partial; assumption. Qed.

Lemma callee_leak_rule_refuted :
  exists V c pol o o', member o V = true /\ holds c o' = Some pol /\ c02_guard c o' = true /\ member o (leak_narrow V c pol) = false.
Proof. exists [plain (VTyped CStr)], (CIsInstance [CInt]), true, (OStr s_ab), (OInt 1). vm_compute. repeat split. Qed.

(* `case [int(), *rest] as p`: without sub-patterns the as-name keeps the subject, with them it may lose it *)
Lemma as_bound_without_subpatterns : forall V whole o,
  member o V = true -> holds whole o = Some true -> c02_guard (CAnd whole CAlways) o = true ->
  member o (as_bound V whole CAlways) = true.
Proof.
  intros V whole o Hm Hh Hg. unfold as_bound. apply narrow_keeps_value_partial; [exact Hm| |exact Hg].
  simpl. rewrite Hh. reflexivity.
Qed.

Lemma subpattern_on_subject_refuted :
  exists V whole sub o, member o V = true /\ holds whole o = Some true /\ c02_guard whole o = true /\ member o (as_bound V whole sub) = false.
Proof.
  exists [plain (VTyped CTuple)], (match_seq [EWild] true [] ), (CIsInstance [CInt]), (OTuple [LInt 1; LInt 2]).
  vm_compute. repeat split.
Qed.

(* ------------------------------------------------------------------ *)
(* `len(x) in C` / `len(x) not in C` (round 5) *)
Lemma lenin_keeps_value : forall V ns pol o,
  member o V = true -> holds_lenin ns o = Some pol -> member o (lenin_narrow V ns pol) = true.
Proof.
  intros V ns pol o Hm Hh. apply member_in in Hm. destruct Hm as [sv [Hin Hs]].
  unfold lenin_narrow, lenin_narrow_with. apply (member_flat_map o _ V sv Hin).
  unfold holds_lenin in Hh. destruct (len_of o) as [k|] eqn:Hk; [|discriminate]. injection Hh as Hh.
  unfold pred_lenin_with. destruct (len_of_value sv) as [kz|] eqn:El.
  - rewrite (len_of_value_sound sv o kz k El Hs Hk). cbv zeta. rewrite Hh.
    destruct pol; cbn [negb]; rewrite member_single; exact Hs.
  - rewrite member_single. exact Hs.
Qed.

(* the round-5 seed: the negative operator of `in` computes the same as the positive one *)
Lemma lenin_seeded_rule_refuted :
  exists V ns pol o, member o V = true /\ holds_lenin ns o = Some pol /\
    member o (lenin_narrow_with false V ns pol) = false.
Proof.
  exists [plain (VTuple [(false, TIntE)]); plain (VTuple [(false, TIntE); (false, TIntE)]);
          plain (VTuple [(false, TIntE); (false, TIntE); (false, TIntE)])],
         [1%Z; 2%Z], false, (OTuple [LInt 7; LInt 8; LInt 9]).
  vm_compute. repeat split.
Qed.
