(* Proofs/NarrowSkel.v — the translated decision skeletons (Gen/NarrowPreds.v) equal the model's
   skeletons, and the model's predicates are those skeletons applied to its primitive tests. *)
From Coq Require Import ZArith List Bool NArith Lia.
Import ListNotations.
Require Import PV.Narrow.Base PV.Narrow.Model.
Require Import PV.Gen.NarrowPreds.

Lemma gen_isassignable_agrees : forall ov asg univ po positive,
  gen_isassignable ov asg univ po positive = isassignable_skel ov asg univ po positive.
Proof. intros [] [] [] [] []; reflexivity. Qed.

Lemma gen_lenpat_agrees : forall known k n star positive is_typed is_tuple,
  gen_lenpat known k n star positive is_typed is_tuple = lenpat_skel known k n star positive is_typed is_tuple.
Proof.
  intros known k n star positive is_typed is_tuple. unfold gen_lenpat, lenpat_skel.
  destruct known, star, positive, is_typed, is_tuple; simpl;
    try destruct (Z.geb k n); try destruct (Z.eqb k n); reflexivity.
Qed.

Lemma gen_truthy_agrees : forall sf st positive, gen_truthy sf st positive = truthy_skel sf st positive.
Proof. intros [] [] []; reflexivity. Qed.

Lemma gen_valueobject_agrees : forall positive,
  gen_valueobject positive = valueobject_skel positive /\ gen_addannot positive = valueobject_skel positive.
Proof. intros []; split; reflexivity. Qed.

Lemma gen_operator_agrees : forall positive use_is, gen_operator positive use_is = model_operator positive use_is.
Proof. intros [] []; reflexivity. Qed.

Lemma gen_dispatch_agrees : gen_dispatch = model_dispatch.
Proof. reflexivity. Qed.

(* ---- the model's predicates are the skeletons ---- *)
Lemma pred_isassignable_is_skel : forall pat po s positive,
  pred_isassignable pat po s positive =
  interp (isassignable_skel (overlapping pat s) (pat_assignable pat s) (univ_assignable (sbase s) pat) po positive)
         s (map plain pat).
Proof.
  intros pat po s positive. unfold pred_isassignable, isassignable_skel, interp.
  destruct positive, (overlapping pat s), (pat_assignable pat s), (univ_assignable (sbase s) pat), po; reflexivity.
Qed.

Lemma pred_lenpat_is_skel : forall n star s positive,
  pred_lenpat n star s positive =
  interp (lenpat_skel (match len_of_value s with Some _ => true | None => false end)
                      (match len_of_value s with Some k => k | None => 0%Z end)
                      (Z.of_nat n) star positive (tuple_typed (sbase s)) true)
         s [plain (VTuple (repeat (false, tuple_arg (sbase s)) n))].
Proof.
  intros n star s positive. unfold pred_lenpat, lenpat_skel, interp.
  destruct (len_of_value s) as [k|].
  - rewrite Z.geb_leb. destruct star; [destruct (Z.leb (Z.of_nat n) k)|destruct (Z.eqb k (Z.of_nat n))];
      destruct positive; reflexivity.
  - destruct positive, star, (tuple_typed (sbase s)); reflexivity.
Qed.

Lemma truthy_is_skel : forall positive s,
  apply_constr (KTruthy positive) s =
  interp (truthy_skel (is_safely_false (boolab_of_b (sbase s))) (is_safely_true (boolab_of_b (sbase s))) positive) s [].
Proof.
  intros positive s. cbn [apply_constr]. unfold truthy_skel, interp.
  destruct positive, (is_safely_false (boolab_of_b (sbase s))), (is_safely_true (boolab_of_b (sbase s))); reflexivity.
Qed.

Lemma valueobject_is_skel : forall t positive s,
  apply_constr (KValueObject t positive) s = interp (valueobject_skel positive) s t.
Proof. intros t [] s; reflexivity. Qed.

Lemma addannot_is_skel : forall n positive s,
  apply_constr (KAddAnnot n positive) s = interp (valueobject_skel positive) s [annotate s [HasAttrExt n]].
Proof. intros n [] s; reflexivity. Qed.

Lemma equals_uses_operator : forall l use_is s positive o,
  sbase s = VKnown o ->
  pred_equals l use_is s positive =
  (if match model_operator positive use_is with
      | OIs => obj_eqb o l | OIsNot => negb (obj_eqb o l)
      | OEqual => py_eq o l | ONotEqual => negb (py_eq o l)
      end then [s] else []).
Proof.
  intros l use_is s positive o E. unfold pred_equals. rewrite E.
  destruct positive, use_is; simpl; try destruct (obj_eqb o l); try destruct (py_eq o l); reflexivity.
Qed.
