(* Proofs/NarrowSrcTie.v — the constants read off the source (Gen/NarrowSrc.v) are what the model
   uses: how conditions become constraints (cond_acon), how constraints are inverted, and the
   decision skeletons of EqualsPredicate / InPredicate. *)
From Coq Require Import ZArith List Bool NArith Arith Lia.
Import ListNotations.
Require Import PV.Narrow.Base PV.Narrow.Model.
Require Import PV.Gen.NarrowSrc.

(* ---- comparisons: is / is not / == / != / in / not in ---- *)
Lemma compare_tie : forall k ls,
  cond_acon (compare_cond k ls) = ALeaf (compare_leaf (gen_compare k) ls).
Proof. intros [] ls; reflexivity. Qed.

(* ---- isinstance / issubclass / TypeIs / TypeGuard / bool() / len() ---- *)
Lemma isinstance_tie : forall cs,
  isassign_leaf gen_isinstance_site cs = Some (KPred (PIsAssignable (map VTyped cs) false) true) /\
  cond_acon (CIsInstance cs) = ALeaf (KPred (PIsAssignable (map VTyped cs) false) true).
Proof. intros cs. split; reflexivity. Qed.

Lemma issubclass_tie : forall cs,
  isassign_leaf gen_issubclass_site cs = Some (KPred (PIsAssignable (map VSub cs) false) true) /\
  cond_acon (CIsSubclass cs) = ALeaf (KPred (PIsAssignable (map VSub cs) false) true).
Proof. intros cs. split; reflexivity. Qed.

Lemma typeis_tie : forall t,
  fst (fst gen_typeis_site) = T_predicate /\
  cond_acon (CTypeIs t) = ALeaf (KPred (PIsAssignable t (snd gen_typeis_site)) (snd (fst gen_typeis_site))).
Proof. intros t. split; reflexivity. Qed.

Lemma typeguard_tie : forall t,
  fst gen_typeguard_site = T_is_value_object /\
  cond_acon (CTypeGuard t) = ALeaf (KValueObject t (snd gen_typeguard_site)).
Proof. intros t. split; reflexivity. Qed.

Lemma bool_len_tie :
  gen_bool_site = (T_is_truthy, true) /\ cond_acon CTruthy = ALeaf (KTruthy (snd gen_bool_site)) /\
  gen_len_site = true /\ gen_not_inverts = true /\ gen_and_reversed = true.
Proof. repeat split; reflexivity. Qed.

Lemma not_and_tie : forall (a b c : cond),
  cond_acon (CNot c) = invert (cond_acon c) /\
  cond_acon (CAnd a b) = AAnd (cond_acon b) (cond_acon a) /\
  cond_acon (COr a b) = AOr (cond_acon a) (cond_acon b).
Proof. intros. repeat split; reflexivity. Qed.

(* ---- patma ---- *)
Lemma match_seq_tie : forall (pre : list epat) (star : bool) (post : list epat),
  let npat := (length pre + length post + (if star then 1 else 0))%nat in
  match_seq pre star post =
  CPAnd (CSeqIs (gen_seq_po npat star))
        (CPAnd (CSeqLen (fst (gen_seq_len npat star)) (snd (gen_seq_len npat star))) (CElems pre star post)).
Proof.
  intros pre star post npat. unfold match_seq, gen_seq_po, gen_seq_len, npat. simpl.
  destruct star; simpl; rewrite ?Nat.add_0_r, ?Nat.sub_0_r, ?Nat.add_sub; reflexivity.
Qed.

Lemma match_map_tie : forall kps,
  match_map kps = CPAnd (CMapIs (gen_map_po (length kps))) (CMapKeys kps).
Proof.
  intros kps. unfold match_map, gen_map_po. destruct kps; reflexivity.
Qed.

Lemma match_misc_tie : forall (c : cls) (l : obj),
  gen_make_positive = true /\ gen_matchor_is_or = true /\
  (* case None / True / False: identity;  case <value>: equality *)
  cond_acon (CIs l) = ALeaf (KPred (PEquals l gen_singleton_is) gen_make_positive) /\
  cond_acon (CEq l) = ALeaf (KPred (PEquals l gen_value_is) gen_make_positive) /\
  (* case c(): without subpatterns; with a subpattern the class test is that of isinstance *)
  cond_acon (CMatchClass c) = ALeaf (KPred (PIsAssignable [VTyped c] (gen_class_po false false)) gen_make_positive) /\
  cond_acon (CIsInstance [c]) = ALeaf (KPred (PIsAssignable [VTyped c] (gen_class_po true false)) gen_make_positive) /\
  cond_acon CAlways = ALeaf (KPred PAlways gen_make_positive).
Proof. intros. repeat split; reflexivity. Qed.

(* ---- inversion / application of abstract constraints ---- *)
Definition mk (k : ackind) (a b : acon) : acon := match k with IsAnd => AAnd a b | IsOr => AOr a b | IsAlt => AAlt a b end.

Lemma invert_tie : forall (a b : acon) (k : constr),
  invert (AAnd a b) = mk gen_and_invert (invert a) (invert b) /\
  invert (AOr a b) = mk gen_or_invert (invert a) (invert b) /\
  invert (AAlt a b) = mk gen_alt_invert (invert a) (invert b) /\
  apply_acon (AAlt a b) = apply_acon (mk gen_alt_apply_as a b) /\ gen_union_value_is_alt = true /\
  invert ANull = ANull /\ apply_acon ANull = [] /\
  (gen_leaf_invert_flips = true /\ invert (ALeaf k) = ALeaf (flip k)) /\
  (gen_and_apply_concat = true /\ apply_acon (AAnd a b) = apply_acon a ++ apply_acon b) /\
  (gen_leaf_apply_self = true /\ apply_acon (ALeaf k) = [k]).
Proof. intros. repeat split; reflexivity. Qed.

Lemma stale_test_tie : gen_stale_test = model_stale_test.
Proof. reflexivity. Qed.

(* ---- EqualsPredicate / InPredicate ---- *)
Lemma gen_equals_agrees : forall a b c d e f g h i,
  gen_equals a b c d e f g h i = equals_skel a b c d e f g h i.
Proof. intros [] [] [] [] [] [] [] [] []; reflexivity. Qed.

Lemma gen_in_agrees : forall a b c d e f g h,
  gen_in a b c d e f g h = in_skel a b c d e f g h.
Proof. intros [] [] [] [] [] [] [] []; reflexivity. Qed.

Lemma cls_eqb_sym : forall a b, cls_eqb a b = cls_eqb b a.
Proof. intros a b. unfold cls_eqb. apply Nat.eqb_sym. Qed.

Lemma pred_equals_is_skel : forall l use_is s positive,
  wf_obj l = true ->
  pred_equals l use_is s positive =
  einterp (equals_skel (is_known_b (sbase s))
             (Bool.eqb (if use_is then obj_eqb (known_obj (sbase s)) l else py_eq (known_obj (sbase s)) l) positive)
             positive (assignable_lit s l) (is_bool_lit l) (is_typed_b (sbase s))
             (cls_eqb (nominal_cls (sbase s)) CBool) (is_enum_lit l)
             (cls_eqb (nominal_cls (sbase s)) (class_of l)))
          s l.
Proof.
  intros l use_is s positive Hw. unfold pred_equals, equals_skel, einterp.
  destruct (sbase s) as [|o|c|c|ms|g] eqn:Eb; simpl.
  - destruct positive; [destruct (assignable_lit s l); reflexivity|]. destruct l; reflexivity.
  - destruct (Bool.eqb _ positive); reflexivity.
  - destruct positive; [destruct (assignable_lit s l); reflexivity|].
    destruct l; simpl; try reflexivity.
    + destruct c; reflexivity.
    + rewrite (cls_eqb_sym c c0). destruct (cls_eqb c0 c); reflexivity.
  - destruct positive; [destruct (assignable_lit s l); reflexivity|]. destruct l; reflexivity.
  - destruct positive; [destruct (assignable_lit s l); reflexivity|].
    destruct l; simpl; try reflexivity.
    simpl in Hw. destruct c; try reflexivity; destruct i; discriminate.
  - destruct positive; [destruct (assignable_lit s l); reflexivity|].
    destruct l; simpl; try reflexivity.
    + destruct g; reflexivity.
    + simpl in Hw. destruct g; simpl; destruct c; try reflexivity; destruct i; discriminate.
Qed.

Definition iinterp (r : ires) (s : sval) (ls : list obj) : list sval :=
  match r with
  | IDrop => []
  | IValue => [s]
  | IAcceptable => map (fun l => plain (VKnown l)) (filter (assignable_lit s) ls)
  | IEnumCompl =>
      match in_pattern_type ls with
      | Some c => other_members c (enum_size c) (fun m => existsb (py_eq m) ls)
      | None => [s]
      end
  end.

Lemma pred_in_is_skel : forall ls s positive,
  pred_in ls s positive =
  iinterp (in_skel (is_known_b (sbase s)) (existsb (py_eq (known_obj (sbase s))) ls) positive true
             (match filter (assignable_lit s) ls with [] => false | _ => true end)
             (match in_pattern_type ls with Some c => is_enum c | None => false end)
             (match sbase s with VTyped _ => true | _ => false end)
             (match in_pattern_type ls, sbase s with Some c, VTyped c' => cls_eqb c c' | _, _ => false end))
          s ls.
Proof.
  intros ls s positive. unfold pred_in, in_skel, iinterp.
  destruct (sbase s) as [|o|c|c|ms|g] eqn:Eb; simpl;
    try (destruct positive; [destruct (filter (assignable_lit s) ls); reflexivity|];
         destruct (in_pattern_type ls) as [c0|]; [destruct (is_enum c0)|]; reflexivity).
  - destruct (Bool.eqb _ positive); reflexivity.
  - destruct positive; [destruct (filter (assignable_lit s) ls); reflexivity|].
    destruct (in_pattern_type ls) as [c0|]; [|reflexivity].
    destruct (is_enum c0); simpl; [|reflexivity]. destruct (cls_eqb c0 c); reflexivity.
Qed.

(* ---- is_instance / is_value ---- *)
Lemma gen_isinstance_apply_agrees : forall a b c d e f g h i j k l,
  gen_isinstance_apply a b c d e f g h i j k l = isinstance_apply_skel a b c d e f g h i j k l.
Proof. intros [] [] [] [] [] [] [] [] [] [] [] []; reflexivity. Qed.

Lemma gen_isvalue_apply_agrees : forall a b c d e f g h i j k l m,
  gen_isvalue_apply a b c d e f g h i j k l m = isvalue_apply_skel a b c d e f g h i j k l m.
Proof. intros [] [] [] [] [] [] [] [] [] [] [] [] []; reflexivity. Qed.

Lemma apply_isinstance_is_skel : forall c positive s,
  apply_isinstance c positive s =
  ainterp (isinstance_apply_skel (is_any_b (sbase s)) positive (is_known_b (sbase s)) (isinst (known_obj (sbase s)) c)
             (is_typed_b (sbase s)) false (sub (nominal_cls (sbase s)) c) (sub c (nominal_cls (sbase s)))
             (promotable c (nominal_cls (sbase s))) (is_sub_b (sbase s)) true (isinst (OClass (sub_cls (sbase s))) c))
          s (plain VAny) (plain (VTyped c)).
Proof.
  intros c positive s. unfold apply_isinstance, isinstance_apply_skel, ainterp.
  destruct (sbase s) as [|o|t|t|ms|g]; simpl.
  - destruct positive; reflexivity.
  - destruct (Bool.eqb _ positive); reflexivity.
  - destruct positive; [destruct (sub t c); [reflexivity|destruct (sub c t || promotable c t); reflexivity]|destruct (sub t c); reflexivity].
  - destruct (Bool.eqb _ positive); reflexivity.
  - destruct positive; [destruct (sub CTuple c); [reflexivity|destruct (sub c CTuple || promotable c CTuple); reflexivity]|destruct (sub CTuple c); reflexivity].
  - destruct positive; [destruct (sub (gen_cls g) c); [reflexivity|destruct (sub c (gen_cls g) || promotable c (gen_cls g)); reflexivity]|destruct (sub (gen_cls g) c); reflexivity].
Qed.

Lemma apply_isvalue_is_skel : forall l positive s,
  apply_isvalue l positive s =
  ainterp (isvalue_apply_skel (is_any_b (sbase s)) positive (is_known_b (sbase s)) (obj_eqb (known_obj (sbase s)) l)
             (is_typed_b (sbase s)) (isinst l (nominal_cls (sbase s))) (promotable (class_of l) (nominal_cls (sbase s)))
             (is_sub_b (sbase s)) true (is_class_obj l) true (sub (class_obj l) (sub_cls (sbase s)))
             (promotable (class_obj l) (sub_cls (sbase s))))
          s (plain VAny) (plain (VKnown l)).
Proof.
  intros l positive s. unfold apply_isvalue, isvalue_apply_skel, ainterp.
  destruct (sbase s) as [|o|t|t|ms|g]; destruct positive; simpl; try reflexivity.
  - destruct (obj_eqb o l); reflexivity.
  - destruct (obj_eqb o l); reflexivity.
  - destruct (isinst l t || promotable (class_of l) t); reflexivity.
  - destruct l; simpl; try reflexivity. destruct (sub c t || promotable c t); reflexivity.
  - destruct (isinst l CTuple || promotable (class_of l) CTuple); reflexivity.
  - destruct (isinst l (gen_cls g) || promotable (class_of l) (gen_cls g)); reflexivity.
Qed.

(* ---- the loops ---- *)
Lemma oneof_is_concat : forall cs s, apply_constr (KOneOf cs) s = flat_map (fun c => apply_constr c s) cs.
Proof. intros cs s. induction cs as [|c r IH]; [reflexivity|]. simpl in *. rewrite IH. reflexivity. Qed.

Lemma allof_is_sequential : forall cs s,
  apply_constr (KAllOf cs) s = fold_left (fun vals c => flat_map (apply_constr c) vals) cs [s].
Proof.
  intros cs s. cbn [apply_constr]. generalize (@cons sval s nil) as vals.
  induction cs as [|c r IH]; intros vals; [reflexivity|]. cbn [fold_left]. apply IH.
Qed.

Lemma loops_tie :
  (gen_oneof_concat = true /\ forall cs s, apply_constr (KOneOf cs) s = flat_map (fun c => apply_constr c s) cs) /\
  (gen_allof_sequential = true /\ gen_apply_values_flatmap = true /\
   forall cs s, apply_constr (KAllOf cs) s = fold_left (fun vals c => flat_map (apply_constr c) vals) cs [s]) /\
  (gen_predicate_is_provider = true /\ forall p pos s, apply_constr (KPred p pos) s = apply_pred p s pos) /\
  (gen_constrain_fold = true /\ gen_constrain_applies = true /\
   forall v a, constrain v a = fold_left (fun vals k => flat_map (apply_constr k) vals) (apply_acon a) v).
Proof.
  repeat split; first [apply oneof_is_concat | apply allof_is_sequential].
Qed.

Lemma apply_branches_tie :
  (forall a b c d e f g h i j k l, gen_isinstance_apply a b c d e f g h i j k l = isinstance_apply_skel a b c d e f g h i j k l) /\
  (forall a b c d e f g h i j k l m, gen_isvalue_apply a b c d e f g h i j k l m = isvalue_apply_skel a b c d e f g h i j k l m) /\
  (forall c positive s,
     apply_isinstance c positive s =
     ainterp (isinstance_apply_skel (is_any_b (sbase s)) positive (is_known_b (sbase s)) (isinst (known_obj (sbase s)) c)
                (is_typed_b (sbase s)) false (sub (nominal_cls (sbase s)) c) (sub c (nominal_cls (sbase s)))
                (promotable c (nominal_cls (sbase s))) (is_sub_b (sbase s)) true (isinst (OClass (sub_cls (sbase s))) c))
             s (plain VAny) (plain (VTyped c))) /\
  (forall l positive s,
     apply_isvalue l positive s =
     ainterp (isvalue_apply_skel (is_any_b (sbase s)) positive (is_known_b (sbase s)) (obj_eqb (known_obj (sbase s)) l)
                (is_typed_b (sbase s)) (isinst l (nominal_cls (sbase s))) (promotable (class_of l) (nominal_cls (sbase s)))
                (is_sub_b (sbase s)) true (is_class_obj l) true (sub (class_obj l) (sub_cls (sbase s)))
                (promotable (class_obj l) (sub_cls (sbase s))))
             s (plain VAny) (plain (VKnown l))).
Proof.
  repeat split.
  - apply gen_isinstance_apply_agrees.
  - apply gen_isvalue_apply_agrees.
  - apply apply_isinstance_is_skel.
  - apply apply_isvalue_is_skel.
Qed.

(* ---- what _constraint_from_compare_op hands to InPredicate ---- *)
Lemma in_arg_tie : gen_in_arg = model_in_arg.
Proof. reflexivity. Qed.

(* the str-container side model is the same skeleton with elementwise = false *)
Lemma pred_instr_typed_is_skel : forall s sv positive,
  is_known_b (sbase sv) = false ->
  pred_instr_with model_in_arg model_typed_rule s sv positive =
  iinterp (in_skel false false positive false
             (match filter (assignable_lit sv) (str_chars s) with [] => false | _ => true end)
             (match in_pattern_type (str_chars s) with Some c => is_enum c | None => false end)
             (match sbase sv with VTyped _ => true | _ => false end)
             (match in_pattern_type (str_chars s), sbase sv with Some c, VTyped c' => cls_eqb c c' | _, _ => false end))
          sv (str_chars s).
Proof.
  intros s sv positive Hk. unfold pred_instr_with, model_in_arg, model_typed_rule.
  destruct positive.
  - destruct (sbase sv); try discriminate; reflexivity.
  - rewrite (pred_in_is_skel (str_chars s) sv false).
    destruct (sbase sv) eqn:Eb; try discriminate; unfold in_skel; simpl; reflexivity.
Qed.
