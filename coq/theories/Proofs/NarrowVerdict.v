(* Proofs/NarrowVerdict.v — a verdict "always true" / "always false"
   (get_boolability(...).is_safely_true / is_safely_false) is right for every
   object of the value. *)
From Coq Require Import ZArith List Bool NArith Lia.
Import ListNotations.
Require Import PV.Narrow.Base PV.Narrow.Model PV.Narrow.Guards.
Require Import PV.Proofs.NarrowBasics PV.Proofs.NarrowLift PV.Proofs.NarrowLeaves.

Lemma fold_min_in : forall r b, In (fold_left min_boolab r b) (b :: r).
Proof.
  induction r as [|x r IH]; intros b; simpl; [left; reflexivity|].
  destruct (IH (min_boolab b x)) as [H|H].
  - unfold min_boolab in H at 1. destruct (Nat.leb (boolab_value b) (boolab_value x)).
    + left. exact H.
    + right. left. exact H.
  - right. right. exact H.
Qed.

Lemma min_boolab_le_l : forall a b, boolab_value (min_boolab a b) <= boolab_value a.
Proof.
  intros a b. unfold min_boolab. destruct (Nat.leb (boolab_value a) (boolab_value b)) eqn:E; [lia|].
  apply Nat.leb_gt in E. lia.
Qed.

Lemma min_boolab_le_r : forall a b, boolab_value (min_boolab a b) <= boolab_value b.
Proof.
  intros a b. unfold min_boolab. destruct (Nat.leb (boolab_value a) (boolab_value b)) eqn:E; [|lia].
  apply Nat.leb_le in E. lia.
Qed.

Lemma fold_min_le_acc : forall r b, boolab_value (fold_left min_boolab r b) <= boolab_value b.
Proof.
  induction r as [|x r IH]; intros b; simpl; [lia|].
  specialize (IH (min_boolab b x)). pose proof (min_boolab_le_l b x). lia.
Qed.

Lemma fold_min_le : forall r b x, In x (b :: r) ->
  boolab_value (fold_left min_boolab r b) <= boolab_value x.
Proof.
  induction r as [|y r IH]; intros b x Hin.
  - destruct Hin as [<-|[]]. simpl. lia.
  - simpl. pose proof (fold_min_le_acc r (min_boolab b y)) as H.
    destruct Hin as [<-|[<-|Hin]].
    + pose proof (min_boolab_le_l b y). lia.
    + pose proof (min_boolab_le_r b y). lia.
    + apply IH. right. exact Hin.
Qed.

Lemma mem_boolab_in : forall x l, mem_boolab x l = true <-> In x l.
Proof.
  intros x l. unfold mem_boolab. rewrite existsb_exists. split.
  - intros [y [Hin Hy]]. apply boolab_eqb_eq in Hy. subst. exact Hin.
  - intros H. exists x. split; [exact H|apply boolab_eqb_eq; reflexivity].
Qed.

(* the union-level verdict is the verdict of every member *)
Lemma union_verdict : forall (bs : list boolab) m,
  (if mem_boolab erroring_bool bs then erroring_bool
   else if mem_boolab boolable bs then boolable
   else if existsb (fun b => mem_boolab b true_boolabs) bs
           && existsb (fun b => mem_boolab b false_boolabs) bs then boolable
   else match bs with [] => boolable | b :: r => fold_left min_boolab r b end) = m ->
  forall x, In x bs ->
  (is_safely_true m = true -> is_safely_true x = true) /\
  (is_safely_false m = true -> is_safely_false x = true).
Proof.
  intros bs m Hm x Hx.
  destruct (mem_boolab erroring_bool bs) eqn:E1; [subst m; split; intros H; vm_compute in H; discriminate|].
  destruct (mem_boolab boolable bs) eqn:E2; [subst m; split; intros H; vm_compute in H; discriminate|].
  destruct (existsb (fun b => mem_boolab b true_boolabs) bs && existsb (fun b => mem_boolab b false_boolabs) bs) eqn:E3;
    [subst m; split; intros H; vm_compute in H; discriminate|].
  destruct bs as [|b r]; [destruct Hx|].
  pose proof (fold_min_in r b) as Hin. pose proof (fold_min_le r b x Hx) as Hle. rewrite Hm in Hin, Hle.
  assert (Hx1 : x <> erroring_bool).
  { intros ->. apply mem_boolab_in in Hx. rewrite Hx in E1. discriminate. }
  assert (Hx2 : x <> boolable).
  { intros ->. apply mem_boolab_in in Hx. rewrite Hx in E2. discriminate. }
  assert (Hnot : forall y z, In y (b :: r) -> In z (b :: r) ->
            mem_boolab y true_boolabs = true -> mem_boolab z false_boolabs = true -> False).
  { intros y z Hy Hz Ty Fz. apply andb_false_iff in E3. destruct E3 as [E3|E3].
    - assert (existsb (fun b0 => mem_boolab b0 true_boolabs) (b :: r) = true)
        by (apply existsb_exists; exists y; split; assumption). rewrite H in E3. discriminate.
    - assert (existsb (fun b0 => mem_boolab b0 false_boolabs) (b :: r) = true)
        by (apply existsb_exists; exists z; split; assumption). rewrite H in E3. discriminate. }
  split; intros Hs.
  - destruct x; try reflexivity; try (exfalso; apply Hx1; reflexivity); try (exfalso; apply Hx2; reflexivity);
      exfalso; apply (Hnot m _ Hin Hx); try reflexivity; destruct m; vm_compute in Hs; try discriminate; reflexivity.
  - destruct m; vm_compute in Hs; try discriminate.
    destruct x; try reflexivity; try (exfalso; apply Hx1; reflexivity); try (exfalso; apply Hx2; reflexivity);
      try (exfalso; apply (Hnot _ value_always_false Hx Hin); reflexivity).
    simpl in Hle. lia.
Qed.

Lemma boolab_of_members : forall V s,
  In s V ->
  (is_safely_true (boolab_of V) = true -> is_safely_true (boolab_of_b (sbase s)) = true) /\
  (is_safely_false (boolab_of V) = true -> is_safely_false (boolab_of_b (sbase s)) = true).
Proof.
  intros V s Hin.
  destruct V as [|s1 [|s2 V']].
  - destruct Hin.
  - destruct Hin as [<-|[]]. simpl. tauto.
  - apply (union_verdict (map (fun s0 => boolab_of_b (sbase s0)) (s1 :: s2 :: V')) _ eq_refl).
    exact (in_map (fun s0 => boolab_of_b (sbase s0)) _ s Hin).
Qed.

Theorem always_false_correct : forall V o,
  is_safely_false (boolab_of V) = true -> member o V = true -> truthy o = false.
Proof.
  intros V o Hs Hm. apply member_in in Hm. destruct Hm as [s [Hin Hs']].
  destruct (boolab_of_members V s Hin) as [_ H].
  apply (safely_false_falsy (sbase s) o (member_s_base o s Hs') (H Hs)).
Qed.

Theorem always_true_correct_partial : forall V o,
  is_safely_true (boolab_of V) = true -> member o V = true -> subclass_bool o = false ->
  truthy o = true.
Proof.
  intros V o Hs Hm Hg. apply member_in in Hm. destruct Hm as [s [Hin Hs']].
  destruct (boolab_of_members V s Hin) as [H _].
  apply (safely_true_truthy (sbase s) o (member_s_base o s Hs') (H Hs) Hg).
Qed.

Lemma always_true_refuted : ~ always_true_full_statement.
Proof.
  intros H. pose proof (H [plain (VTyped CA)] (OInst CFalsy 0%N) eq_refl eq_refl eq_refl) as Hc.
  vm_compute in Hc. discriminate.
Qed.

Example verdict_guard_inhabited :
  is_safely_true (boolab_of [plain (VTyped CA); plain (VKnown (OInt 3)); plain (VSub CInt)]) = true /\
  subclass_bool (OInst CB 0%N) = false /\ member (OInst CB 0%N) [plain (VTyped CA)] = true /\
  is_safely_false (boolab_of [plain (VKnown ONone); plain (VKnown (OInt 0)); plain (VTuple [])]) = true /\
  boolab_of [plain (VTyped CA); plain (VKnown ONone)] = boolable.
Proof. vm_compute. repeat split; reflexivity. Qed.
