(* Proofs/NarrowWiden.v — narrowing never widens: every object of the narrowed
   value belongs to the original value or to the tested type.  Membership is
   taken modulo the MinLen/MaxLen annotations of the input (bmember): the only
   constraint results that drop annotations are the literal replacements
   (`x is not True` on bool, enum complements), see design.d/C02.md. *)
From Coq Require Import ZArith List Bool NArith Lia.
Import ListNotations.
Require Import PV.Narrow.Base PV.Narrow.Model PV.Narrow.Guards.
Require Import PV.Proofs.NarrowBasics PV.Proofs.NarrowLift PV.Proofs.NarrowLeaves.

Lemma member_bmember_s : forall o s, member_s o s = true -> bmember_s o s = true.
Proof. intros o s H. apply member_s_base. exact H. Qed.

Lemma member_bmember : forall o v, member o v = true -> bmember o v = true.
Proof.
  intros o v H. apply member_in in H. destruct H as [s [Hin Hs]].
  apply existsb_exists. exists s. split; [exact Hin|apply member_bmember_s; exact Hs].
Qed.

Lemma bmember_plain_value : forall o v,
  forallb (fun s => match sexts s with [] => true | _ => false end) v = true ->
  bmember o v = member o v.
Proof.
  intros o v. induction v as [|[b e] v IH]; intros H; [reflexivity|].
  simpl in H. apply andb_true_iff in H. destruct H as [He H]. destruct e; [|discriminate].
  unfold bmember, member in *. simpl. rewrite IH by exact H. unfold bmember_s. simpl.
  rewrite andb_true_r. reflexivity.
Qed.

Lemma bmember_app : forall o a b, bmember o (a ++ b) = bmember o a || bmember o b.
Proof. intros. unfold bmember. apply existsb_app. Qed.

Lemma bmember_single : forall o s, bmember o [s] = bmember_s o s.
Proof. intros. unfold bmember. simpl. apply orb_false_r. Qed.

Lemma bmember_map_plain : forall o pat, bmember o (map plain pat) = existsb (member_b o) pat.
Proof.
  intros o pat. unfold bmember. induction pat as [|p r IH]; simpl; [reflexivity|].
  rewrite IH. reflexivity.
Qed.

Lemma bmember_flat_map_inv : forall o (f : sval -> list sval) v,
  bmember o (flat_map f v) = true -> exists s, In s v /\ bmember o (f s) = true.
Proof.
  intros o f v Hm. apply existsb_exists in Hm. destruct Hm as [s' [Hin Hs']].
  apply in_flat_map in Hin. destruct Hin as [s [Hs Hin']].
  exists s. split; [exact Hs|]. apply existsb_exists. exists s'. split; assumption.
Qed.

Definition knw (k : constr) (T : value) : Prop :=
  forall s o, bmember o (apply_constr k s) = true -> bmember_s o s = true \/ bmember o T = true.

Lemma apply_all_nw : forall ks T o,
  (forall k, In k ks -> knw k T) ->
  forall v, bmember o (apply_all ks v) = true -> bmember o v = true \/ bmember o T = true.
Proof.
  induction ks as [|k ks IH]; intros T o Hks v Hm.
  - left. exact Hm.
  - unfold apply_all in Hm. simpl in Hm.
    destruct (IH T o (fun k' Hin => Hks k' (or_intror Hin)) _ Hm) as [H|H]; [|right; exact H].
    apply bmember_flat_map_inv in H. destruct H as [s [Hin Hs]].
    destruct (Hks k (or_introl eq_refl) s o Hs) as [H'|H']; [|right; exact H'].
    left. apply existsb_exists. exists s. split; assumption.
Qed.

Lemma knw_allof : forall cs T, (forall k, In k cs -> knw k T) -> knw (KAllOf cs) T.
Proof.
  intros cs T H s o Hm. rewrite allof_unfold in Hm.
  destruct (apply_all_nw cs T o H [s] Hm) as [H'|H']; [left|right; exact H'].
  rewrite bmember_single in H'. exact H'.
Qed.

Lemma knw_from_list : forall l T, (forall k, In k l -> knw k T) -> knw (from_list l) T.
Proof.
  intros l T H. destruct l as [|c [|c' r]]; simpl.
  - apply knw_allof. exact H.
  - apply H. left. reflexivity.
  - apply knw_allof. exact H.
Qed.

Lemma knw_oneof2 : forall k1 k2 T, knw k1 T -> knw k2 T -> knw (KOneOf [k1; k2]) T.
Proof.
  intros k1 k2 T H1 H2 s o Hm. rewrite oneof_unfold2, bmember_app in Hm.
  apply orb_true_iff in Hm. destruct Hm as [Hm|Hm]; [apply (H1 s o Hm)|apply (H2 s o Hm)].
Qed.

Lemma knw_weaken : forall k T T',
  (forall o, bmember o T = true -> bmember o T' = true) -> knw k T -> knw k T'.
Proof.
  intros k T T' H Hk s o Hm. destruct (Hk s o Hm) as [H'|H']; [left; exact H'|right; apply H; exact H'].
Qed.

Definition anw (a : acon) (T : value) : Prop := forall k, In k (apply_acon a) -> knw k T.

Lemma anw_weaken : forall a T T',
  (forall o, bmember o T = true -> bmember o T' = true) -> anw a T -> anw a T'.
Proof. intros a T T' H Ha k Hin. apply (knw_weaken k T T' H). apply Ha. exact Hin. Qed.

Lemma anw_null : forall T, anw ANull T.
Proof. intros T k []. Qed.

Lemma anw_leaf : forall k T, knw k T -> anw (ALeaf k) T.
Proof. intros k T H k' [<-|[]]. exact H. Qed.

Lemma anw_and : forall a b T, anw a T -> anw b T -> anw (AAnd a b) T.
Proof.
  intros a b T Ha Hb k Hin. cbn [apply_acon] in Hin. apply in_app_or in Hin.
  destruct Hin; [apply Ha|apply Hb]; assumption.
Qed.

Lemma anw_or : forall a b T, anw a T -> anw b T -> anw (AOr a b) T.
Proof.
  intros a b T Ha Hb k Hin. cbn [apply_acon] in Hin. unfold anw in Ha, Hb.
  destruct (apply_acon a) as [|ka ra] eqn:Ea; [destruct Hin|].
  destruct (apply_acon b) as [|kb rb] eqn:Eb; [destruct Hin|].
  destruct Hin as [<-|[]].
  apply knw_oneof2; apply knw_from_list; assumption.
Qed.

Lemma anw_alt : forall a b T, anw a T -> anw b T -> anw (AAlt a b) T.
Proof.
  intros a b T Ha Hb k Hin. cbn [apply_acon] in Hin. unfold anw in Ha, Hb.
  destruct (apply_acon a) as [|ka ra] eqn:Ea; [destruct Hin|].
  destruct (apply_acon b) as [|kb rb] eqn:Eb; [destruct Hin|].
  destruct Hin as [<-|[]].
  apply knw_oneof2; apply knw_from_list; assumption.
Qed.

(* ---- every single constraint kind ---- *)
Lemma nw_same : forall o s, bmember o [s] = true -> forall T, bmember_s o s = true \/ bmember o T = true.
Proof. intros o s H T. left. rewrite bmember_single in H. exact H. Qed.

Lemma nw_nil : forall o (P : Prop), bmember o [] = true -> P.
Proof. intros o P H. discriminate. Qed.

Lemma knw_truthy : forall p T, knw (KTruthy p) T.
Proof.
  intros p T s o Hm. cbn [apply_constr] in Hm.
  destruct p; [destruct (is_safely_false _)|destruct (is_safely_true _)];
    try (apply (nw_nil o _ Hm)); apply (nw_same o s Hm).
Qed.

Lemma knw_valueobject : forall t p, knw (KValueObject t p) t.
Proof.
  intros t p s o Hm. cbn [apply_constr] in Hm. destruct p; [right; exact Hm|apply (nw_same o s Hm)].
Qed.

Lemma knw_isassignable : forall pat po p, knw (KPred (PIsAssignable pat po) p) (map plain pat).
Proof.
  intros pat po p s o Hm. cbn [apply_constr apply_pred] in Hm. unfold pred_isassignable in Hm.
  destruct p.
  - destruct (negb (overlapping pat s)); [apply (nw_nil o _ Hm)|].
    destruct (pat_assignable pat s); [destruct (univ_assignable (sbase s) pat)|];
      try (right; exact Hm); apply (nw_same o s Hm).
  - destruct (negb po && pat_assignable pat s && negb (univ_assignable (sbase s) pat));
      [apply (nw_nil o _ Hm)|apply (nw_same o s Hm)].
Qed.

Lemma other_members_inv : forall c n excl o,
  bmember o (other_members c n excl) = true -> exists j, o = OEnum c j.
Proof.
  induction n as [|n IH]; intros excl o H; [discriminate|].
  simpl in H. rewrite bmember_app in H. apply orb_true_iff in H. destruct H as [H|H].
  - apply (IH excl o H).
  - destruct (excl (OEnum c n)); [discriminate|].
    rewrite bmember_single in H. unfold bmember_s in H. simpl in H. apply obj_eqb_eq in H.
    exists n. exact H.
Qed.

Lemma knw_equals : forall l use_is p, knw (KPred (PEquals l use_is) p) [plain (VKnown l)].
Proof.
  intros l use_is p s o Hm. cbn [apply_constr apply_pred] in Hm. unfold pred_equals in Hm.
  destruct (sbase s) as [|l'|c|c|ms|g] eqn:Eb.
  - destruct p; [destruct (assignable_lit s l); [right; exact Hm|apply (nw_nil o _ Hm)]|].
    destruct l; apply (nw_same o s Hm).
  - destruct (Bool.eqb _ p); [apply (nw_same o s Hm)|apply (nw_nil o _ Hm)].
  - destruct p; [destruct (assignable_lit s l); [right; exact Hm|apply (nw_nil o _ Hm)]|].
    destruct l; try apply (nw_same o s Hm).
    + destruct c; try apply (nw_same o s Hm).
      left. rewrite bmember_single in Hm. unfold bmember_s in *. rewrite Eb. simpl in Hm.
      apply obj_eqb_eq in Hm. subst o. reflexivity.
    + destruct (cls_eqb c0 c) eqn:Ec; [|apply (nw_same o s Hm)].
      apply cls_eqb_eq in Ec. subst c0. left.
      destruct (other_members_inv _ _ _ _ Hm) as [j ->].
      unfold bmember_s. rewrite Eb. simpl. apply sub_art_refl.
  - destruct p; [destruct (assignable_lit s l); [right; exact Hm|apply (nw_nil o _ Hm)]|].
    destruct l; apply (nw_same o s Hm).
  - destruct p; [destruct (assignable_lit s l); [right; exact Hm|apply (nw_nil o _ Hm)]|].
    destruct l; apply (nw_same o s Hm).
  - destruct p; [destruct (assignable_lit s l); [right; exact Hm|apply (nw_nil o _ Hm)]|].
    destruct l; apply (nw_same o s Hm).
Qed.

Lemma bmember_known_filter : forall o (f : obj -> bool) ls,
  bmember o (map (fun l => plain (VKnown l)) (filter f ls)) = true ->
  bmember o (map (fun l => plain (VKnown l)) ls) = true.
Proof.
  intros o f ls H. apply existsb_exists in H. destruct H as [s [Hin Hs]].
  apply in_map_iff in Hin. destruct Hin as [l [<- Hl]]. apply filter_In in Hl. destruct Hl as [Hl _].
  apply existsb_exists. exists (plain (VKnown l)). split; [|exact Hs].
  apply in_map_iff. exists l. split; [reflexivity|exact Hl].
Qed.

Lemma knw_in : forall ls p, knw (KPred (PIn ls) p) (map (fun l => plain (VKnown l)) ls).
Proof.
  intros ls p s o Hm. cbn [apply_constr apply_pred] in Hm. unfold pred_in in Hm.
  destruct (sbase s) as [|l'|c|c|ms|g] eqn:Eb.
  - destruct p; [right; apply (bmember_known_filter _ _ _ Hm)|].
    destruct (in_pattern_type ls); apply (nw_same o s Hm).
  - destruct (Bool.eqb _ p); [apply (nw_same o s Hm)|apply (nw_nil o _ Hm)].
  - destruct p; [right; apply (bmember_known_filter _ _ _ Hm)|].
    destruct (in_pattern_type ls) as [c0|]; [|apply (nw_same o s Hm)].
    destruct (is_enum c0 && cls_eqb c0 c) eqn:E; [|apply (nw_same o s Hm)].
    apply andb_true_iff in E. destruct E as [_ Ec]. apply cls_eqb_eq in Ec. subst c0. left.
    destruct (other_members_inv _ _ _ _ Hm) as [j ->].
    unfold bmember_s. rewrite Eb. simpl. apply sub_art_refl.
  - destruct p; [right; apply (bmember_known_filter _ _ _ Hm)|].
    destruct (in_pattern_type ls); apply (nw_same o s Hm).
  - destruct p; [right; apply (bmember_known_filter _ _ _ Hm)|].
    destruct (in_pattern_type ls); apply (nw_same o s Hm).
  - destruct p; [right; apply (bmember_known_filter _ _ _ Hm)|].
    destruct (in_pattern_type ls); apply (nw_same o s Hm).
Qed.

Lemma sbase_len_transform : forall s op n, sbase (len_transform s op n) = sbase s.
Proof.
  intros [b e] op n. unfold len_transform. destruct (len_of_value (SV b e)); [reflexivity|].
  destruct op; reflexivity.
Qed.

Lemma knw_lencmp : forall op n p T, knw (KPred (PLenCmp op n) p) T.
Proof.
  intros op n p T s o Hm. cbn [apply_constr apply_pred] in Hm. unfold pred_lencmp in Hm. left.
  destruct (len_of_value s); [destruct (eval_op _ _ _); [|discriminate]|];
    rewrite bmember_single in Hm; unfold bmember_s in *; rewrite sbase_len_transform in Hm; exact Hm.
Qed.

Lemma match_members_is_tuple : forall o ms, member_b o (VTuple ms) = true -> exists es, o = OTuple es.
Proof. intros o ms H. destruct o; try discriminate. eexists; reflexivity. Qed.

Lemma knw_lenpat : forall n star p, knw (KPred (PLenPat n star) p) [plain (VTyped CTuple)].
Proof.
  intros n star p s o Hm. cbn [apply_constr apply_pred] in Hm. unfold pred_lenpat in Hm.
  destruct (len_of_value s).
  - destruct (Bool.eqb _ p); [apply (nw_same o s Hm)|apply (nw_nil o _ Hm)].
  - destruct (p && negb star && tuple_typed (sbase s)); [|apply (nw_same o s Hm)].
    right. rewrite bmember_single in Hm. unfold bmember_s in Hm. simpl in Hm.
    destruct (match_members_is_tuple o _ Hm) as [es ->]. reflexivity.
Qed.

Lemma knw_isinstance : forall c p, knw (KIsInstance c p) [plain (VTyped c)].
Proof.
  intros c p s o Hm. cbn [apply_constr] in Hm. unfold apply_isinstance in Hm.
  destruct (sbase s) as [|l|t|t|ms|g] eqn:Eb.
  - destruct p; [right; exact Hm|left; unfold bmember_s; rewrite Eb; reflexivity].
  - destruct (Bool.eqb _ p); [apply (nw_same o s Hm)|apply (nw_nil o _ Hm)].
  - destruct p; [destruct (sub _ c); [apply (nw_same o s Hm)|destruct (sub c _ || promotable c _); [right; exact Hm|apply (nw_nil o _ Hm)]]
                |destruct (sub _ c); [apply (nw_nil o _ Hm)|apply (nw_same o s Hm)]].
  - destruct (Bool.eqb _ p); [apply (nw_same o s Hm)|apply (nw_nil o _ Hm)].
  - destruct p; [destruct (sub _ c); [apply (nw_same o s Hm)|destruct (sub c _ || promotable c _); [right; exact Hm|apply (nw_nil o _ Hm)]]
                |destruct (sub _ c); [apply (nw_nil o _ Hm)|apply (nw_same o s Hm)]].
  - destruct p; [destruct (sub _ c); [apply (nw_same o s Hm)|destruct (sub c _ || promotable c _); [right; exact Hm|apply (nw_nil o _ Hm)]]
                |destruct (sub _ c); [apply (nw_nil o _ Hm)|apply (nw_same o s Hm)]].
Qed.

Lemma knw_isvalue : forall l p, knw (KIsValue l p) [plain (VKnown l)].
Proof.
  intros l p s o Hm. cbn [apply_constr] in Hm. unfold apply_isvalue in Hm.
  destruct p.
  - destruct (sbase s) as [|l'|t|t|ms|g] eqn:Eb.
    + right; exact Hm.
    + destruct (obj_eqb l' l); [apply (nw_same o s Hm)|apply (nw_nil o _ Hm)].
    + destruct (isinst l _ || promotable _ _); [right; exact Hm|apply (nw_nil o _ Hm)].
    + destruct l; try apply (nw_nil o _ Hm). destruct (sub c t || promotable c t); [right; exact Hm|apply (nw_nil o _ Hm)].
    + destruct (isinst l _ || promotable _ _); [right; exact Hm|apply (nw_nil o _ Hm)].
    + destruct (isinst l _ || promotable _ _); [right; exact Hm|apply (nw_nil o _ Hm)].
  - destruct (sbase s) as [|l'|t|t|ms|g] eqn:Eb; try apply (nw_same o s Hm).
    destruct (obj_eqb l' l); [apply (nw_nil o _ Hm)|apply (nw_same o s Hm)].
Qed.

Lemma sbase_annotate : forall s new, sbase (annotate s new) = sbase s.
Proof. intros [b e] new. reflexivity. Qed.

Lemma knw_addannot : forall n p T, knw (KAddAnnot n p) T.
Proof.
  intros n p T s o Hm. cbn [apply_constr] in Hm. destruct p; [|apply (nw_same o s Hm)].
  left. rewrite bmember_single in Hm. unfold bmember_s in *. rewrite sbase_annotate in Hm. exact Hm.
Qed.

Lemma knw_always : forall p T, knw (KPred PAlways p) T.
Proof.
  intros p T s o Hm. cbn [apply_constr apply_pred] in Hm.
  destruct p; [apply (nw_same o s Hm)|apply (nw_nil o _ Hm)].
Qed.

Lemma bmember_app_l : forall o a b, bmember o a = true -> bmember o (a ++ b) = true.
Proof. intros. rewrite bmember_app, H. reflexivity. Qed.
Lemma bmember_app_r : forall o a b, bmember o b = true -> bmember o (a ++ b) = true.
Proof. intros. rewrite bmember_app, H. apply orb_true_r. Qed.

Lemma map_plain_typed : forall cs, map (fun c => plain (VTyped c)) cs = map plain (map VTyped cs).
Proof. intros. rewrite map_map. reflexivity. Qed.
Lemma map_plain_sub : forall cs, map (fun c => plain (VSub c)) cs = map plain (map VSub cs).
Proof. intros. rewrite map_map. reflexivity. Qed.

Lemma cond_nw : forall c, anw (cond_acon c) (tested c) /\ anw (invert (cond_acon c)) (tested c).
Proof.
  induction c as [ |cs|cs|l|l|ls|op n|t|t|c0| |b0|po|n star|pre star post|po|kps|a IHa b IHb|fl a IHa b IHb|c1|l1|n1 b1|c IH|a IHa b IHb|a IHa b IHb];
    cbn [cond_acon invert flip negb tested];
    try (split; apply anw_leaf;
         first [ apply knw_truthy | apply knw_isinstance | apply knw_isvalue | apply knw_addannot | apply knw_equals | apply knw_in | apply knw_lencmp | apply knw_lenpat
               | apply knw_always | apply knw_valueobject | apply knw_isassignable
               | rewrite map_plain_typed; apply knw_isassignable
               | rewrite map_plain_sub; apply knw_isassignable ]).
  - split; apply anw_null.
  - split; apply anw_null.
  - split; apply anw_null.
  - destruct IHa as [IHa1 IHa2]. destruct IHb as [IHb1 IHb2]. split.
    + apply anw_and; [apply (anw_weaken _ (tested a)); [intros o; apply bmember_app_l|exact IHa1]
                     |apply (anw_weaken _ (tested b)); [intros o; apply bmember_app_r|exact IHb1]].
    + apply anw_or; [apply (anw_weaken _ (tested a)); [intros o; apply bmember_app_l|exact IHa2]
                    |apply (anw_weaken _ (tested b)); [intros o; apply bmember_app_r|exact IHb2]].
  - destruct IHa as [IHa1 IHa2]. destruct IHb as [IHb1 IHb2]. split.
    + apply anw_alt; [apply (anw_weaken _ (tested a)); [intros o; apply bmember_app_l|exact IHa1]
                     |apply (anw_weaken _ (tested b)); [intros o; apply bmember_app_r|exact IHb1]].
    + apply anw_alt; [apply (anw_weaken _ (tested a)); [intros o; apply bmember_app_l|exact IHa2]
                     |apply (anw_weaken _ (tested b)); [intros o; apply bmember_app_r|exact IHb2]].
  - destruct IH as [IH1 IH2]. split; [exact IH2|rewrite invert_involutive; exact IH1].
  - destruct IHa as [IHa1 IHa2]. destruct IHb as [IHb1 IHb2]. split.
    + apply anw_and; [apply (anw_weaken _ (tested b)); [intros o; apply bmember_app_r|exact IHb1]
                     |apply (anw_weaken _ (tested a)); [intros o; apply bmember_app_l|exact IHa1]].
    + apply anw_or; [apply (anw_weaken _ (tested b)); [intros o; apply bmember_app_r|exact IHb2]
                    |apply (anw_weaken _ (tested a)); [intros o; apply bmember_app_l|exact IHa2]].
  - destruct IHa as [IHa1 IHa2]. destruct IHb as [IHb1 IHb2]. split.
    + apply anw_or; [apply (anw_weaken _ (tested a)); [intros o; apply bmember_app_l|exact IHa1]
                    |apply (anw_weaken _ (tested b)); [intros o; apply bmember_app_r|exact IHb1]].
    + apply anw_and; [apply (anw_weaken _ (tested a)); [intros o; apply bmember_app_l|exact IHa2]
                     |apply (anw_weaken _ (tested b)); [intros o; apply bmember_app_r|exact IHb2]].
Qed.

(* narrowing never widens (no guard needed) *)
Theorem narrow_no_widening : forall V c pol o,
  member o (narrow V c pol) = true -> bmember o V = true \/ bmember o (tested c) = true.
Proof.
  intros V c pol o Hm. apply member_bmember in Hm. unfold narrow, constrain in Hm.
  destruct (cond_nw c) as [H1 H2].
  destruct pol; [apply (apply_all_nw _ _ o H1 V Hm)|apply (apply_all_nw _ _ o H2 V Hm)].
Qed.

Corollary narrow_no_widening_plain : forall V c pol o,
  unannotated V = true -> unannotated (tested c) = true ->
  member o (narrow V c pol) = true -> member o V = true \/ member o (tested c) = true.
Proof.
  intros V c pol o HV HT Hm.
  destruct (narrow_no_widening V c pol o Hm) as [H|H]; [left|right].
  - rewrite <- (bmember_plain_value o V HV). exact H.
  - rewrite <- (bmember_plain_value o _ HT). exact H.
Qed.

(* the same for the end-to-end value (the scope merge of visit_BoolOp only adds narrowed copies) *)
Lemma boolop_merge_nw : forall c V o,
  bmember o (boolop_merge V c) = true -> bmember o V = true \/ bmember o (tested c) = true.
Proof.
  induction c; intros V o Hm; simpl in *; try (left; exact Hm).
  - apply IHc. exact Hm.
  - rewrite bmember_app in Hm. apply orb_true_iff in Hm. destruct Hm as [Hm|Hm].
    + destruct (IHc1 V o Hm) as [H|H]; [left; exact H|right; apply bmember_app_l; exact H].
    + destruct (IHc2 _ o Hm) as [H|H]; [|right; apply bmember_app_r; exact H].
      destruct (cond_nw c1) as [H1 _]. unfold narrow, constrain in H.
      destruct (apply_all_nw _ _ o H1 V H) as [H'|H']; [left; exact H'|right; apply bmember_app_l; exact H'].
  - rewrite bmember_app in Hm. apply orb_true_iff in Hm. destruct Hm as [Hm|Hm].
    + destruct (IHc1 V o Hm) as [H|H]; [left; exact H|right; apply bmember_app_l; exact H].
    + destruct (IHc2 _ o Hm) as [H|H]; [|right; apply bmember_app_r; exact H].
      destruct (cond_nw c1) as [_ H2]. unfold narrow, constrain in H.
      destruct (apply_all_nw _ _ o H2 V H) as [H'|H']; [left; exact H'|right; apply bmember_app_l; exact H'].
Qed.

Theorem narrow_e2e_no_widening : forall V c pol o,
  member o (narrow_e2e V c pol) = true -> bmember o V = true \/ bmember o (tested c) = true.
Proof.
  intros V c pol o Hm. apply member_bmember in Hm. unfold narrow_e2e, constrain in Hm.
  destruct (cond_nw c) as [H1 H2].
  assert (H : bmember o (boolop_merge V c) = true \/ bmember o (tested c) = true)
    by (destruct pol; [apply (apply_all_nw _ _ o H1 _ Hm)|apply (apply_all_nw _ _ o H2 _ Hm)]).
  destruct H as [H|H]; [apply (boolop_merge_nw c V o H)|right; exact H].
Qed.
