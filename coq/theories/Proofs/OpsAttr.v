(* Proofs about Ops/Attr.v: an undefined attribute is reported exactly when
   performing the access raises AttributeError, for every list of base classes
   and every order of the lookup steps. *)
From Coq Require Import List Bool.
Import ListNotations.
Require Import PV.Ops.AttrBase PV.Gen.Ops PV.Ops.Attr.

(* obligations on the generated definitions *)
Lemma gen_fallback_ignores : forall a b c, fallback_ignores a b c = negb a && (b || c).
Proof. intros a b c. unfold fallback_ignores. destruct a, b, c; reflexivity. Qed.

Lemma gen_mro_step_order : mro_step_order = [SStubNonCallable; SAnnotations; SBaseDict; SStubCallable].
Proof. reflexivity. Qed.

Definition unclaimed (b : base_obs) : Prop := b_stub b = NoStub /\ b_annot b = false /\ b_indict b = false.

Lemma step_unclaimed : forall r b s, unclaimed b -> mro_step r b s = None.
Proof. intros r b s (H1 & H2 & H3). destruct s; cbn; rewrite ?H1, ?H2, ?H3; reflexivity. Qed.

Lemma steps_unclaimed : forall r b order, unclaimed b -> first_some (mro_step r b) order = None.
Proof. intros r b order H. induction order as [|s l IH]; cbn; [reflexivity|]. now rewrite (step_unclaimed r b s H). Qed.

Lemma mro_loop_none : forall order r bases, Forall unclaimed bases -> mro_loop order r bases = None.
Proof.
  intros order r bases H. unfold mro_loop. induction H as [|b l Hb Hl IH]; cbn; [reflexivity|].
  now rewrite (steps_unclaimed r b order Hb).
Qed.

Lemma step_not_missing : forall r b s l, mro_step r b s = Some l -> l <> LMissing.
Proof.
  intros r b s l H. destruct s; cbn in H.
  - destruct (b_stub b); inversion H; discriminate.
  - destruct (b_annot b); inversion H; discriminate.
  - destruct (b_indict b); [|discriminate]. destruct r; inversion H; discriminate.
  - destruct (b_stub b); inversion H; discriminate.
Qed.

Lemma steps_not_missing : forall r b order l, first_some (mro_step r b) order = Some l -> l <> LMissing.
Proof.
  intros r b order l. induction order as [|s o IH]; cbn; [discriminate|].
  destruct (mro_step r b s) eqn:E; [intros H; inversion H; subst; eapply step_not_missing; eauto|exact IH].
Qed.

Lemma mro_loop_not_missing : forall order r bases l, mro_loop order r bases = Some l -> l <> LMissing.
Proof.
  intros order r bases l. unfold mro_loop. induction bases as [|b bs IH]; cbn; [discriminate|].
  destruct (first_some (mro_step r b) order) eqn:E; [intros H; inversion H; subst; eapply steps_not_missing; eauto|exact IH].
Qed.

Lemma no_claims_unclaimed : forall bases,
  existsb (fun b => (match b_stub b with NoStub => false | _ => true end) || b_annot b || b_indict b) bases = false ->
  Forall unclaimed bases.
Proof.
  induction bases as [|b bs IH]; cbn; intros H; [constructor|].
  apply orb_false_iff in H. destruct H as [Hb Hr]. constructor; [|now apply IH].
  apply orb_false_iff in Hb. destruct Hb as [Hb H3]. apply orb_false_iff in Hb. destruct Hb as [H1 H2].
  unfold unclaimed. destruct (b_stub b); try discriminate. auto.
Qed.

(* a lookup that answers "missing" means the real access raises AttributeError *)
Lemma missing_means_raises : forall order o, lookup_attr order o = LMissing -> o_real o = RRaisesAttr.
Proof.
  intros order o H. unfold lookup_attr in H. destruct (o_kind o).
  - destruct (o_real o); cbn in H; try discriminate; reflexivity.
  - destruct (o_module_annot o); [discriminate|]. destruct (o_real o); cbn in H; try discriminate; reflexivity.
  - destruct (mro_loop order (o_real o) (o_bases o)) eqn:E.
    + exfalso. eapply mro_loop_not_missing; eauto.
    + destruct (o_real o); cbn in H; try discriminate; reflexivity.
  - destruct (o_real o); try discriminate; [reflexivity|].
    destruct (mro_loop order RRaisesOther (o_bases o)) eqn:E; [|discriminate].
    exfalso. eapply mro_loop_not_missing; eauto.
Qed.

Lemma raises_unclaimed_missing : forall order o,
  o_real o = RRaisesAttr -> claims o = false -> lookup_attr order o = LMissing.
Proof.
  intros order o R C. unfold lookup_attr, claims in *. rewrite R. destruct (o_kind o).
  - reflexivity.
  - rewrite C. reflexivity.
  - rewrite mro_loop_none by (now apply no_claims_unclaimed). reflexivity.
  - destruct (o_enum_dynamic o); [reflexivity|]. cbn in C.
    rewrite mro_loop_none by (now apply no_claims_unclaimed). reflexivity.
Qed.

Theorem attr_diag_iff_raises_partial : forall order o,
  attr_guard o = true -> (attr_diag order o = true <-> py_attr_raises o = true).
Proof.
  intros order o G. unfold attr_guard, claim_faithful in G. apply andb_true_iff in G. destruct G as [G1 G2].
  unfold attr_diag, py_attr_raises in *. split.
  - intros H. destruct (lookup_attr order o) eqn:E; try discriminate.
    now rewrite (missing_means_raises order o E).
  - intros H. destruct (o_real o) eqn:R; try discriminate.
    rewrite andb_true_r in G1, G2. apply negb_true_iff in G1. apply negb_true_iff in G2.
    rewrite (raises_unclaimed_missing order o R G1). now rewrite G2.
Qed.

(* for an instance the checker performs the access: no assumption about stubs *)
Theorem attr_instance_exact : forall order o,
  o_kind o = KInstance -> silenced o = false ->
  (attr_diag order o = true <-> py_attr_raises o = true).
Proof.
  intros order o K S. unfold attr_diag, lookup_attr, py_attr_raises. rewrite K, S.
  destruct (o_real o); cbn; split; intros H; try discriminate; reflexivity.
Qed.

(* a value read from the real object is the real result *)
Lemma step_known : forall r b s, mro_step r b s = Some LKnown -> r = RHas.
Proof.
  intros r b s. destruct s; cbn.
  - destruct (b_stub b); discriminate.
  - destruct (b_annot b); discriminate.
  - destruct (b_indict b); [|discriminate]. destruct r; [reflexivity|discriminate|discriminate].
  - destruct (b_stub b); discriminate.
Qed.

Lemma steps_known : forall r b order, first_some (mro_step r b) order = Some LKnown -> r = RHas.
Proof.
  intros r b order. induction order as [|s o IH]; cbn; [discriminate|].
  destruct (mro_step r b s) eqn:E; [intros H; inversion H; subst; eapply step_known; eauto|exact IH].
Qed.

Lemma mro_loop_known : forall order r bases, mro_loop order r bases = Some LKnown -> r = RHas.
Proof.
  intros order r bases. unfold mro_loop. induction bases as [|b bs IH]; cbn; [discriminate|].
  destruct (first_some (mro_step r b) order) eqn:E; [intros H; inversion H; subst; eapply steps_known; eauto|exact IH].
Qed.

Theorem attr_known_is_real : forall order o, lookup_attr order o = LKnown -> o_real o = RHas.
Proof.
  intros order o H. unfold lookup_attr in H.
  pose proof (mro_loop_known order) as HL.
  destruct (o_kind o).
  - destruct (o_real o); [reflexivity|discriminate|discriminate].
  - destruct (o_module_annot o); [discriminate|]. destruct (o_real o); [reflexivity|discriminate|discriminate].
  - destruct (mro_loop order (o_real o) (o_bases o)) eqn:E.
    + subst. eapply HL; eauto.
    + destruct (o_real o); [reflexivity|discriminate|discriminate].
  - destruct (o_real o); [reflexivity| |].
    + destruct (o_enum_dynamic o); [discriminate|].
      destruct (mro_loop order RRaisesAttr (o_bases o)) eqn:E; [subst; apply (HL _ _ E)|discriminate].
    + destruct (mro_loop order RRaisesOther (o_bases o)) eqn:E; [subst; apply (HL _ _ E)|discriminate].
Qed.

(* ---- refutations of the unguarded statement, one per known finding -------- *)
Definition attr_full_statement : Prop := forall o, pa_attr o = true <-> py_attr_raises o = true.

(* E._value_ on an Enum class: declared in the stubs, set on members only *)
Definition ex_enum_sunder : obs :=
  mkObs KEnumClass RRaisesAttr [mkBase NoStub false false; mkBase StubValue false false] false false true false false.
(* GA_I.other: the class defines __getattr__ *)
Definition ex_getattr_override : obs := mkObs KInstance RRaisesAttr [] false false false true false.
(* os.count: the name is in ignored_end_of_reference *)
Definition ex_ignored_name : obs := mkObs KModule RRaisesAttr [] false false false false true.
(* Color.name after the repair: DynamicClassAttribute *)
Definition ex_enum_dynamic : obs :=
  mkObs KEnumClass RRaisesAttr [mkBase NoStub false false; mkBase StubValue false true] true false true false false.

Lemma attr_refutations :
  pa_attr ex_enum_sunder = false /\ py_attr_raises ex_enum_sunder = true /\ claim_faithful ex_enum_sunder = false /\
  pa_attr ex_getattr_override = false /\ py_attr_raises ex_getattr_override = true /\ silenced ex_getattr_override = true /\
  pa_attr ex_ignored_name = false /\ py_attr_raises ex_ignored_name = true /\ silenced ex_ignored_name = true.
Proof. vm_compute. repeat split. Qed.

Lemma attr_full_statement_refuted : ~ attr_full_statement.
Proof. intros H. destruct (H ex_getattr_override) as [_ H2]. specialize (H2 eq_refl). vm_compute in H2. discriminate. Qed.

Lemma attr_examples :
  pa_attr ex_enum_dynamic = true /\
  pa_attr (mkObs KInstance RRaisesAttr [] false false false false false) = true /\
  pa_attr (mkObs KInstance RHas [] false false false true false) = false /\
  pa_attr (mkObs KModule RRaisesAttr [] false false false false false) = true /\
  pa_attr (mkObs KClass RRaisesAttr [mkBase NoStub false false] false false true false false) = true /\
  lookup_attr mro_step_order (mkObs KClass RHas [mkBase StubCallable false true] false false true false false) = LKnown /\
  lookup_attr mro_step_order (mkObs KClass RHas [mkBase StubValue false true] false false true false false) = LStub /\
  attr_guard ex_enum_dynamic = true.
Proof. vm_compute. repeat split. Qed.
