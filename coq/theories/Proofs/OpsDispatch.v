(* Proofs about Ops/Dispatch.v: pyanalyze's left/right dunder fallback reports
   "unsupported operation" exactly when CPython's operator protocol ends in
   TypeError, and a literal result is the object CPython computes. *)
From Coq Require Import List Bool.
Import ListNotations.
Require Import PV.Gen.Ops PV.Ops.Dispatch.

(* obligation on the generated decision tree (re-checked on every run) *)
Lemma combine_spec : forall (V : Type) (le re ra : bool) (lr rr d a : V),
  combine le re ra lr rr d a =
  if le then (if re then d else rr) else (if re then lr else if ra then a else lr).
Proof. intros. unfold combine. destruct le, re, ra; reflexivity. Qed.

Section Proofs.
  Context {O : Type}.
  Implicit Types l r s : side O.

  Lemma side_errors_fails : forall s, stub_consistent s = true -> side_errors s = fails s.
  Proof.
    intros [e g a o] H. unfold stub_consistent, side_errors, fails in *. cbn in *.
    destruct e, g, o; cbn in *; try reflexivity; discriminate.
  Qed.

  Lemma side_result_not_diag : forall s, side_result s <> VDiag.
  Proof.
    intros [e g a o]. unfold side_result. cbn. destruct e, a, o; discriminate.
  Qed.

  Lemma pa_binop_diag_iff : forall l r,
    pa_binop l r = VDiag <-> side_errors l = true /\ side_errors r = true.
  Proof.
    intros l r. unfold pa_binop. rewrite combine_spec.
    pose proof (side_result_not_diag l) as Hl. pose proof (side_result_not_diag r) as Hr.
    destruct (side_errors l), (side_errors r); cbn.
    - split; auto.
    - split; [intros H; contradiction|intros [_ H]; discriminate].
    - split; [intros H; contradiction|intros [H _]; discriminate].
    - destruct (result_is_any (side_result r)); split;
        try (intros H; try contradiction; discriminate); intros [H _]; discriminate.
  Qed.

  Lemma py_binop_typeerror_iff : forall si rp l r,
    binop_guard si rp l r = true ->
    (py_binop si rp l r = PTypeError <-> fails l = true /\ fails r = true).
  Proof.
    intros si rp [e1 g1 a1 o1] [e2 g2 a2 o2].
    unfold binop_guard, raise_then_other_ok, same_impl_reflected_ok, py_binop, try_side, fails.
    cbn. destruct si, rp, e1, e2, o1, o2; cbn; intros G; try discriminate G;
      split; try (intros H; discriminate H); try (intros [H1 H2]; discriminate);
      auto.
  Qed.

  Theorem binop_diag_iff_typeerror_partial : forall si rp l r,
    stub_consistent l = true -> stub_consistent r = true -> binop_guard si rp l r = true ->
    (pa_binop l r = VDiag <-> py_binop si rp l r = PTypeError).
  Proof.
    intros si rp l r Cl Cr G.
    rewrite pa_binop_diag_iff, (py_binop_typeerror_iff _ _ _ _ G),
      (side_errors_fails _ Cl), (side_errors_fails _ Cr). reflexivity.
  Qed.

  Theorem binop_literal_correct : forall si rp l r v,
    stub_consistent l = true -> stub_consistent r = true -> binop_guard si rp l r = true ->
    subclass_priority rp l r = false ->
    pa_binop l r = VLit v -> py_binop si rp l r = PVal v.
  Proof.
    intros si rp [e1 g1 a1 o1] [e2 g2 a2 o2] v.
    unfold pa_binop. rewrite combine_spec.
    unfold stub_consistent, binop_guard, raise_then_other_ok, same_impl_reflected_ok,
      subclass_priority, py_binop, try_side, fails, side_errors, side_result, result_is_any.
    cbn. destruct si, rp, e1, e2, g1, g2, a1, a2, o1, o2; cbn; intros C1 C2 G SP H;
      try discriminate; inversion H; subst; reflexivity.
  Qed.

  (* without the guard the statement is false even for consistent stubs *)
  Definition binop_full_statement : Prop := forall si rp l r,
    stub_consistent l = true -> stub_consistent r = true ->
    (pa_binop l r = VDiag <-> py_binop si rp l r = PTypeError).

  Theorem unop_diag_iff_typeerror : forall s,
    stub_consistent s = true -> is_notimpl (s_out s) = false ->
    (pa_unop s = VDiag <-> py_unop s = PTypeError).
  Proof.
    intros [e g a o]. unfold stub_consistent, pa_unop, py_unop, side_errors, side_result. cbn.
    destruct e, g, o; cbn; intros C N; try discriminate;
      split; intros H; try discriminate; try reflexivity; destruct a; discriminate.
  Qed.

  Theorem unop_literal_correct : forall s v,
    stub_consistent s = true -> pa_unop s = VLit v -> py_unop s = PVal v.
  Proof.
    intros [e g a o] v. unfold stub_consistent, pa_unop, py_unop, side_errors, side_result. cbn.
    destruct e, g, o; cbn; intros C H; try discriminate; try (inversion H; subst; reflexivity);
      destruct a; discriminate.
  Qed.

  (* every disagreement about the diagnostic inside the guard is a stub that
     contradicts the real object *)
  Theorem binop_disagreement_blames_stub : forall si rp l r,
    binop_guard si rp l r = true ->
    ~ (pa_binop l r = VDiag <-> py_binop si rp l r = PTypeError) ->
    stub_consistent l = false \/ stub_consistent r = false.
  Proof.
    intros si rp l r G H.
    destruct (stub_consistent l) eqn:Cl; [|now left].
    destruct (stub_consistent r) eqn:Cr; [|now right].
    exfalso. apply H. now apply binop_diag_iff_typeerror_partial.
  Qed.
  (* ---- augmented assignment ---- *)
  Lemma pa_aug_diag_iff : forall i l r,
    pa_aug i l r = VDiag <-> side_errors i = true /\ pa_binop l r = VDiag.
  Proof.
    intros i l r. unfold pa_aug. pose proof (side_result_not_diag i) as Hi.
    destruct (side_errors i); split; intros H.
    - split; [reflexivity|exact H].
    - exact (proj2 H).
    - exfalso. exact (Hi H).
    - destruct H as [H _]. discriminate H.
  Qed.

  Lemma py_aug_typeerror_iff : forall si rp i l r,
    py_aug si rp i l r = PTypeError <->
    (s_exists i && is_raisetype (s_out i) = true) \/
    (negb (s_exists i) || is_notimpl (s_out i) = true /\ py_binop si rp l r = PTypeError).
  Proof.
    intros si rp [e g a o] l r. unfold py_aug, try_side. cbn.
    destruct e, o; cbn; split; intros H; try discriminate; try tauto;
      try (destruct H as [H|[H _]]; discriminate); auto;
      (destruct H as [H|[_ H]]; [discriminate|exact H]).
  Qed.

  Lemma aug_core : forall (i : side O) (Q : Prop) (F : bool),
    (Q <-> F = true) ->
    (s_exists i && is_raisetype (s_out i) && negb F) = false ->
    (fails i = true /\ Q <->
     (s_exists i && is_raisetype (s_out i) = true) \/ (negb (s_exists i) || is_notimpl (s_out i) = true /\ Q)).
  Proof.
    intros [e g a o] Q F HF GI. unfold fails. cbn in *.
    destruct e, o; cbn in *; try tauto; destruct F; cbn in *; try discriminate; tauto.
  Qed.

  Theorem aug_diag_iff_typeerror_partial : forall si rp i l r,
    stub_consistent i = true -> stub_consistent l = true -> stub_consistent r = true ->
    aug_guard si rp i l r = true ->
    (pa_aug i l r = VDiag <-> py_aug si rp i l r = PTypeError).
  Proof.
    intros si rp i l r Ci Cl Cr G. unfold aug_guard in G. apply andb_true_iff in G. destruct G as [GB GI].
    pose proof (binop_diag_iff_typeerror_partial si rp l r Cl Cr GB) as HB.
    pose proof (py_binop_typeerror_iff si rp l r GB) as HF.
    rewrite pa_aug_diag_iff, py_aug_typeerror_iff, (side_errors_fails _ Ci), HB.
    apply (aug_core i _ (fails l && fails r)).
    - rewrite HF, andb_true_iff. reflexivity.
    - unfold inplace_raises_binop_ok in GI. now apply negb_true_iff in GI.
  Qed.

  Theorem aug_literal_correct : forall si rp i l r v,
    stub_consistent i = true -> stub_consistent l = true -> stub_consistent r = true ->
    aug_guard si rp i l r = true -> subclass_priority rp l r = false ->
    pa_aug i l r = VLit v -> py_aug si rp i l r = PVal v.
  Proof.
    intros si rp i l r v Ci Cl Cr G SP H. unfold aug_guard in G. apply andb_true_iff in G. destruct G as [GB GI].
    unfold pa_aug in H. rewrite (side_errors_fails _ Ci) in H.
    unfold inplace_raises_binop_ok in GI. apply negb_true_iff in GI.
    destruct (fails i) eqn:Fi.
    - pose proof (binop_literal_correct si rp l r v Cl Cr GB SP H) as HB.
      unfold py_aug, try_side. destruct i as [e g a o]. unfold fails in Fi. cbn in *.
      destruct e; [|exact HB]. destruct o; cbn in *; try discriminate Fi; try exact HB.
      (* the in-place method raises TypeError: by the guard the binary operator fails on both sides *)
      exfalso. destruct (fails l && fails r) eqn:F; [|discriminate GI].
      apply andb_true_iff in F.
      pose proof (pa_binop_diag_iff l r) as D. rewrite (side_errors_fails _ Cl), (side_errors_fails _ Cr) in D.
      rewrite (proj2 D F) in H. discriminate H.
    - unfold py_aug, try_side. destruct i as [e g a o]. unfold fails in Fi. unfold side_result in H. cbn in *.
      destruct e; [|discriminate Fi]. destruct o; cbn in *; try discriminate Fi.
      + inversion H; reflexivity.
      + destruct a; discriminate H.
  Qed.

  Theorem chain_diag_iff : forall (d1 d2 x1 x2 : bool),
    (d1 = true <-> x1 = true) -> (d2 = true <-> x2 = true) ->
    (pa_chain d1 d2 = true <-> py_chain_raises x1 x2 = true).
  Proof.
    intros d1 d2 x1 x2 H1 H2. unfold pa_chain, py_chain_raises. rewrite !orb_true_iff. tauto.
  Qed.
End Proofs.

(* ------------------------------------------------------------------------ *)
(* refutations of the unguarded statement, one per guard clause              *)

Definition ok_side (v : nat) : side nat := mkSide true false false (OVal v).
Definition raising_side : side nat := mkSide true true false ORaiseType.
Definition notimpl_side : side nat := mkSide true true false ONotImpl.
Definition missing_side : side nat := mkSide false false false ONotImpl.

Lemma binop_full_statement_refuted : ~ @binop_full_statement nat.
Proof.
  intros H. specialize (H false false raising_side (ok_side 7) eq_refl eq_refl).
  vm_compute in H. destruct H as [_ H]. specialize (H eq_refl). discriminate.
Qed.

Lemma binop_same_impl_refuted :
  stub_consistent notimpl_side = true /\ stub_consistent (ok_side 7) = true /\
  pa_binop notimpl_side (ok_side 7) = VLit 7 /\ py_binop true false notimpl_side (ok_side 7) = PTypeError.
Proof. vm_compute. repeat split. Qed.

Lemma binop_subclass_priority_refuted :
  pa_binop (ok_side 1) (ok_side 2) = VLit 1 /\ py_binop false true (ok_side 1) (ok_side 2) = PVal 2.
Proof. vm_compute. repeat split. Qed.

(* t op= x where the in-place method raises TypeError itself and the binary operator works *)
Lemma aug_inplace_raises_refuted :
  pa_aug raising_side (ok_side 1) missing_side = VLit 1 /\
  py_aug false false raising_side (ok_side 1) missing_side = PTypeError /\
  inplace_raises_binop_ok raising_side (ok_side 1) missing_side = true.
Proof. vm_compute. repeat split. Qed.

Lemma aug_examples :
  (* no __iadd__ on immutables: the binary operator decides *)
  pa_aug missing_side notimpl_side (ok_side 3) = VLit 3 /\ py_aug false false missing_side notimpl_side (ok_side 3) = PVal 3 /\
  pa_aug missing_side notimpl_side notimpl_side = VDiag /\ py_aug false false missing_side notimpl_side notimpl_side = PTypeError /\
  pa_aug (ok_side 9) notimpl_side notimpl_side = VLit 9 /\ py_aug false false (ok_side 9) notimpl_side notimpl_side = PVal 9 /\
  aug_guard false false missing_side notimpl_side notimpl_side = true.
Proof. vm_compute. repeat split. Qed.

(* non-vacuity: the guarded theorems apply to the interesting shapes *)
Lemma binop_examples :
  (* 1 + "a": both fail *)
  pa_binop notimpl_side notimpl_side = VDiag /\ py_binop false false notimpl_side notimpl_side = PTypeError /\
  binop_guard false false notimpl_side notimpl_side = true /\
  (* 1 + 1.5: reflected succeeds *)
  pa_binop notimpl_side (ok_side 3) = VLit 3 /\ py_binop false false notimpl_side (ok_side 3) = PVal 3 /\
  binop_guard false false notimpl_side (ok_side 3) = true /\
  (* 1.5 + 1: forward succeeds, reflected NotImplemented *)
  pa_binop (ok_side 4) notimpl_side = VLit 4 /\ py_binop false false (ok_side 4) notimpl_side = PVal 4 /\
  (* (1,) + [1]: forward raises, reflected missing *)
  pa_binop raising_side missing_side = VDiag /\ py_binop false false raising_side missing_side = PTypeError /\
  binop_guard false false raising_side missing_side = true /\
  (* 1 / 0 *)
  @pa_binop nat (mkSide true false false ORaiseOther) (mkSide true false false ORaiseOther) = VTyped /\
  @py_binop nat true false (mkSide true false false ORaiseOther) (mkSide true false false ORaiseOther) = POther.
Proof. vm_compute. repeat split. Qed.
