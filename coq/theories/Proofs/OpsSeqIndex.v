(* Proofs about Ops/SeqIndex.v: indexing / slicing a SequenceValue is sound for
   every concrete sequence that matches the member pattern. *)
From Coq Require Import ZArith List Bool Lia.
Import ListNotations.
Require Import PV.Gen.Ops PV.Ops.SeqIndex.
Local Open Scope Z_scope.

(* ------------------------------------------------------------------------ *)
(* obligations on the generated arithmetic (re-checked on every run)        *)

Lemma in_range_spec : forall n k, in_range n k = true <-> - n <= k < n.
Proof.
  intros n k. unfold in_range. rewrite andb_true_iff.
  rewrite Z.leb_le, Z.ltb_lt. lia.
Qed.

Lemma forward_scan_spec : forall k, forward_scan k = true <-> 0 <= k.
Proof.
  intros k. unfold forward_scan. rewrite Z.geb_le. lia.
Qed.

Lemma index_from_back_spec : forall k, index_from_back k = - k - 1.
Proof.
  intros k. unfold index_from_back. lia.
Qed.

(* ------------------------------------------------------------------------ *)
(* CPython indexing                                                         *)

Lemma py_nth_some_iff : forall (A : Type) (l : list A) k,
  py_nth l k <> None <-> - Z.of_nat (length l) <= k < Z.of_nat (length l).
Proof.
  intros A l k. unfold py_nth.
  destruct (0 <=? k) eqn:E0.
  - apply Z.leb_le in E0. rewrite nth_error_Some. lia.
  - apply Z.leb_gt in E0.
    destruct (- Z.of_nat (length l) <=? k) eqn:E1.
    + apply Z.leb_le in E1. rewrite nth_error_Some. lia.
    + apply Z.leb_gt in E1. split; [intros H; now elim H | lia].
Qed.

Lemma Forall2_nth_error : forall (A B : Type) (R : A -> B -> Prop) l1 l2 n b,
  Forall2 R l1 l2 -> nth_error l2 n = Some b -> exists a, nth_error l1 n = Some a /\ R a b.
Proof.
  intros A B R l1 l2 n b HF. revert n. induction HF as [|a b' l1 l2 Hab HF IH]; intros n Hn.
  - destruct n; discriminate.
  - destruct n as [|n]; cbn in *.
    + inversion Hn; subst. eauto.
    + eauto.
Qed.

Lemma Forall2_length_eq : forall (A B : Type) (R : A -> B -> Prop) l1 l2,
  Forall2 R l1 l2 -> length l1 = length l2.
Proof. intros A B R l1 l2 H; induction H; cbn; congruence. Qed.

Lemma py_nth_Forall2 : forall (A B : Type) (R : A -> B -> Prop) l1 l2 k b,
  Forall2 R l1 l2 -> py_nth l2 k = Some b -> exists a, py_nth l1 k = Some a /\ R a b.
Proof.
  intros A B R l1 l2 k b HF H. unfold py_nth in *.
  rewrite (Forall2_length_eq _ _ _ _ _ HF).
  destruct (0 <=? k); [eapply Forall2_nth_error; eauto|].
  destruct (- Z.of_nat (length l2) <=? k); [eapply Forall2_nth_error; eauto|discriminate].
Qed.

(* ------------------------------------------------------------------------ *)
(* the specification: which concrete sequences a member pattern denotes     *)

Section Sound.
  Context {T O : Type}.
  Variable mem : O -> T -> Prop.

  Inductive matches : list O -> members T -> Prop :=
  | m_nil : matches [] []
  | m_one : forall o t os ms, mem o t -> matches os ms -> matches (o :: os) ((false, t) :: ms)
  | m_many : forall xs t os ms, Forall (fun o => mem o t) xs -> matches os ms ->
             matches (xs ++ os) ((true, t) :: ms).

  Definition single (l : list T) : members T := map (fun t => (false, t)) l.

  Lemma member_sequence_single : forall (ms : members T) l, member_sequence ms = Some l -> ms = single l.
  Proof.
    induction ms as [|[many m] r IH]; intros l H; cbn in H.
    - inversion H; reflexivity.
    - destruct many; [discriminate|].
      destruct (member_sequence r) as [l'|] eqn:E; [|discriminate].
      inversion H; subst. cbn. f_equal. now apply IH.
  Qed.

  Lemma member_sequence_none : forall (ms : members T), member_sequence ms = None -> existsb fst ms = true.
  Proof.
    induction ms as [|[many m] r IH]; intros H; cbn in *; [discriminate|].
    destruct many; [reflexivity|]. cbn.
    destruct (member_sequence r); [discriminate|]. now apply IH.
  Qed.

  Lemma matches_single : forall l os, matches os (single l) -> Forall2 mem os l.
  Proof.
    induction l as [|t l IH]; intros os H; cbn in H; inversion H; subst.
    - constructor.
    - constructor; auto.
  Qed.

  Lemma matches_app_inv : forall ms1 ms2 os, matches os (ms1 ++ ms2) ->
    exists os1 os2, os = os1 ++ os2 /\ matches os1 ms1 /\ matches os2 ms2.
  Proof.
    induction ms1 as [|[many t] ms1 IH]; intros ms2 os H; cbn in H.
    - exists [], os. repeat split; auto. constructor.
    - inversion H; subst.
      + destruct (IH _ _ H5) as (a & b & -> & Ha & Hb).
        exists (o :: a), b. repeat split; auto. constructor; auto.
      + destruct (IH _ _ H5) as (a & b & -> & Ha & Hb).
        exists (xs ++ a), b. rewrite app_assoc. repeat split; auto. constructor; auto.
  Qed.

  Lemma matches_cons_single_inv : forall t ms os, matches os ((false, t) :: ms) ->
    exists o os', os = o :: os' /\ mem o t /\ matches os' ms.
  Proof. intros t ms os H; inversion H; subst; eauto. Qed.

  (* the scan finds the target only behind a prefix of single members *)
  Lemma scan_spec : forall (ms : members T) target i t,
    scan ms target i = Some t -> i <= target ->
    exists pre post, ms = single pre ++ (false, t) :: post /\ Z.of_nat (length pre) = target - i.
  Proof.
    induction ms as [|[many m] r IH]; intros target i t H Hle; cbn in H; [discriminate|].
    destruct many; [discriminate|].
    destruct (i =? target) eqn:E.
    - apply Z.eqb_eq in E. inversion H; subst. exists [], r. cbn. split; [reflexivity|lia].
    - apply Z.eqb_neq in E.
      destruct (IH target (i + 1) t H ltac:(lia)) as (pre & post & -> & Hlen).
      exists (m :: pre), post. cbn. split; [reflexivity|lia].
  Qed.

  Lemma nth_error_app_mid : forall (A : Type) (l1 l2 : list A) a,
    nth_error (l1 ++ a :: l2) (length l1) = Some a.
  Proof. intros A l1 l2 a. rewrite nth_error_app2 by lia. now rewrite Nat.sub_diag. Qed.

  Lemma single_rev : forall l, rev (single l) = single (rev l).
  Proof. intros l. unfold single. now rewrite map_rev. Qed.

  (* ---------------------------------------------------------------------- *)
  Theorem seq_index_sound : forall kind (ms : members T) key os t,
    matches os ms -> seq_getitem_int kind ms key = RMember t ->
    exists o, py_nth os key = Some o /\ mem o t.
  Proof.
    intros kind ms key os t HM H. unfold seq_getitem_int in H.
    destruct (member_sequence ms) as [l|] eqn:EM.
    - (* fixed members *)
      apply member_sequence_single in EM; subst ms.
      apply matches_single in HM.
      destruct (in_range (Z.of_nat (length l)) key); [|destruct kind; discriminate].
      destruct (py_nth l key) as [m|] eqn:EN; [|discriminate].
      inversion H; subst. eapply py_nth_Forall2; eauto.
    - destruct (forward_scan key) eqn:EF.
      + apply forward_scan_spec in EF.
        destruct (scan ms key 0) as [m|] eqn:ES; [|discriminate]. inversion H; subst m.
        destruct (scan_spec _ _ _ _ ES EF) as (pre & post & -> & Hlen).
        destruct (matches_app_inv _ _ _ HM) as (os1 & os2 & -> & H1 & H2).
        destruct (matches_cons_single_inv _ _ _ H2) as (o & os' & -> & Ho & _).
        apply matches_single in H1. apply Forall2_length_eq in H1.
        exists o. split; [|exact Ho]. unfold py_nth.
        replace (0 <=? key) with true by (symmetry; apply Z.leb_le; lia).
        replace (Z.to_nat key) with (length os1) by lia.
        apply nth_error_app_mid.
      + assert (Hneg : key < 0).
        { destruct (Z.lt_ge_cases key 0); [assumption|].
          apply forward_scan_spec in H0. congruence. }
        rewrite index_from_back_spec in H.
        destruct (scan (rev ms) (- key - 1) 0) as [m|] eqn:ES; [|discriminate]. inversion H; subst m.
        destruct (scan_spec _ _ _ _ ES ltac:(lia)) as (pre & post & Hrev & Hlen).
        assert (Hms : ms = rev post ++ (false, t) :: single (rev pre)).
        { rewrite <- (rev_involutive ms), Hrev, rev_app_distr. cbn.
          rewrite single_rev, <- app_assoc. reflexivity. }
        subst ms.
        destruct (matches_app_inv _ _ _ HM) as (os1 & os2 & -> & H1 & H2).
        destruct (matches_cons_single_inv _ _ _ H2) as (o & os' & -> & Ho & H3).
        apply matches_single in H3. apply Forall2_length_eq in H3. rewrite rev_length in H3.
        exists o. split; [|exact Ho]. unfold py_nth.
        replace (0 <=? key) with false by (symmetry; apply Z.leb_gt; lia).
        rewrite app_length. cbn [length].
        replace (- Z.of_nat (length os1 + S (length os')) <=? key) with true
          by (symmetry; apply Z.leb_le; lia).
        replace (Z.to_nat (Z.of_nat (length os1 + S (length os')) + key)) with (length os1) by lia.
        apply nth_error_app_mid.
  Qed.

  (* whatever is returned as "the common type" (the union of all members)
     contains every element of every matching sequence *)
  Theorem seq_common_sound : forall (ms : members T) os o,
    matches os ms -> In o os -> exists t, In t (map snd ms) /\ mem o t.
  Proof.
    intros ms os o HM. induction HM as [|o' t os ms Hm HM IH|xs t os ms HF HM IH]; intros HI.
    - destruct HI.
    - destruct HI as [->|HI].
      + exists t. split; [now left|assumption].
      + destruct (IH HI) as (t' & Ht & Hm'). exists t'. split; [now right|assumption].
    - apply in_app_or in HI. destruct HI as [HI|HI].
      + exists t. split; [now left|]. rewrite Forall_forall in HF. now apply HF.
      + destruct (IH HI) as (t' & Ht & Hm'). exists t'. split; [now right|assumption].
  Qed.

  Theorem seq_index_error_iff : forall (ms : members T) l key os,
    member_sequence ms = Some l -> matches os ms ->
    (seq_getitem_int KTuple ms key = ROutOfRange <-> py_nth os key = None).
  Proof.
    intros ms l key os EM HM. unfold seq_getitem_int. rewrite EM.
    apply member_sequence_single in EM; subst ms. apply matches_single in HM.
    pose proof (Forall2_length_eq _ _ _ _ _ HM) as HL.
    pose proof (py_nth_some_iff _ os key) as HO. pose proof (py_nth_some_iff _ l key) as HLs.
    rewrite HL in HO.
    destruct (in_range (Z.of_nat (length l)) key) eqn:EI.
    - apply in_range_spec in EI.
      destruct (py_nth l key) eqn:EN; [|exfalso; apply HLs in EI; now apply EI].
      split; [discriminate|]. intros HN. apply HO in EI. contradiction.
    - split; [intros _|reflexivity].
      destruct (py_nth os key) eqn:EN; [|reflexivity].
      assert (Hr : - Z.of_nat (length l) <= key < Z.of_nat (length l)) by (apply HO; congruence).
      apply in_range_spec in Hr. congruence.
  Qed.

  Theorem seq_index_error_only_fixed_tuple : forall kind (ms : members T) key,
    seq_getitem_int kind ms key = ROutOfRange ->
    kind = KTuple /\ exists l, member_sequence ms = Some l /\
      ~ (- Z.of_nat (length l) <= key < Z.of_nat (length l)).
  Proof.
    intros kind ms key H. unfold seq_getitem_int in H.
    destruct (member_sequence ms) as [l|] eqn:EM.
    - destruct (in_range (Z.of_nat (length l)) key) eqn:EI.
      + destruct (py_nth l key); discriminate.
      + destruct kind; try discriminate. split; [reflexivity|].
        exists l. split; [reflexivity|]. intros Hr. apply in_range_spec in Hr. congruence.
    - destruct (if forward_scan key then _ else _); discriminate.
  Qed.

  (* ---------------------------------------------------------------------- *)
  (* slices *)

  Lemma pick_Forall2 : forall l os idx, Forall2 mem os l -> Forall2 mem (pick os idx) (pick l idx).
  Proof.
    intros l os idx HF. induction idx as [|i r IH]; cbn; [constructor|].
    destruct (nth_error l (Z.to_nat i)) as [b|] eqn:E.
    - destruct (Forall2_nth_error _ _ _ _ _ _ _ HF E) as (a & -> & Hab). constructor; assumption.
    - assert (nth_error os (Z.to_nat i) = None) as ->; [|assumption].
      apply nth_error_None. rewrite (Forall2_length_eq _ _ _ _ _ HF). now apply nth_error_None.
  Qed.

  Theorem seq_slice_sound : forall (ms : members T) s os r,
    matches os ms -> seq_getitem_slice ms s = SMembers r ->
    exists os', py_slice os s = Some os' /\ Forall2 mem os' r.
  Proof.
    intros ms s os r HM H. unfold seq_getitem_slice in H.
    destruct (member_sequence ms) as [l|] eqn:EM; [|discriminate].
    apply member_sequence_single in EM; subst ms. apply matches_single in HM.
    unfold py_slice in *. rewrite (Forall2_length_eq _ _ _ _ _ HM).
    destruct (slice_indices (length l) s) as [idx|]; cbn in *; [|discriminate].
    inversion H; subst. eexists; split; [reflexivity|]. now apply pick_Forall2.
  Qed.

  (* for fixed members the generic fallback is taken exactly for a step of 0, where CPython
     raises ValueError: no diagnostic, no internal error *)
  Theorem seq_slice_step_zero_generic : forall (ms : members T) s l,
    member_sequence ms = Some l ->
    (seq_getitem_slice ms s = SGeneric <-> sl_step s = Some 0) /\
    (sl_step s = Some 0 <-> py_slice l s = None).
  Proof.
    intros ms s l EM. unfold seq_getitem_slice, py_slice, slice_indices. rewrite EM.
    destruct (sl_step s) as [st|]; cbn.
    - destruct (st =? 0) eqn:E; cbn.
      + apply Z.eqb_eq in E. subst. repeat split; reflexivity.
      + apply Z.eqb_neq in E. repeat split; try discriminate; intros H; inversion H; contradiction.
    - repeat split; discriminate.
  Qed.
End Sound.

(* ------------------------------------------------------------------------ *)
(* the unrepaired offset (-key + 1) refutes soundness                        *)

Definition ex_members : members nat := [(false, 0%nat); (true, 1%nat); (false, 2%nat); (false, 3%nat); (false, 4%nat)].
Definition ex_tuple : list nat := [0%nat; 1%nat; 1%nat; 2%nat; 3%nat; 4%nat].

Lemma ex_matches : matches eq ex_tuple ex_members.
Proof.
  unfold ex_tuple, ex_members.
  constructor; [reflexivity|].
  change [1%nat; 1%nat; 2%nat; 3%nat; 4%nat] with ([1%nat; 1%nat] ++ [2%nat; 3%nat; 4%nat]).
  constructor; [repeat constructor|].
  repeat (constructor; [reflexivity|]). constructor.
Qed.

Lemma seq_index_unrepaired_refuted :
  ~ (forall (ms : members nat) key os t, matches eq os ms ->
       seq_getitem_int_unrepaired ms key = RMember t -> exists o, py_nth os key = Some o /\ o = t).
Proof.
  intros H. specialize (H ex_members (-1) ex_tuple 2%nat ex_matches eq_refl).
  destruct H as (o & Ho & ->). vm_compute in Ho. discriminate.
Qed.

(* non-vacuity: the repaired model answers the same question correctly, and the
   other branches are reachable *)
Lemma seq_index_examples :
  seq_getitem_int KTuple ex_members (-1) = RMember 4%nat /\
  seq_getitem_int KTuple ex_members (-3) = RMember 2%nat /\
  seq_getitem_int KTuple ex_members (-4) = RCommon /\
  seq_getitem_int KTuple ex_members 0 = RMember 0%nat /\
  seq_getitem_int KTuple ex_members 1 = RCommon /\
  seq_getitem_int KTuple [(false, 7%nat); (false, 8%nat)] 2 = ROutOfRange /\
  seq_getitem_int KList [(false, 7%nat); (false, 8%nat)] 2 = RCommon /\
  seq_getitem_int KTuple [(false, 7%nat); (false, 8%nat)] (-2) = RMember 7%nat /\
  seq_getitem_slice [(false, 7%nat); (false, 8%nat); (false, 9%nat)]
     {| sl_start := None; sl_stop := None; sl_step := Some (-1) |} = SMembers [9%nat; 8%nat; 7%nat] /\
  seq_getitem_slice [(false, 7%nat); (false, 8%nat); (false, 9%nat)]
     {| sl_start := Some 1; sl_stop := Some (-1); sl_step := None |} = SMembers [8%nat] /\
  seq_getitem_slice ex_members {| sl_start := Some 1; sl_stop := None; sl_step := None |} = SGeneric.
Proof. vm_compute. repeat split. Qed.
