(* Proofs/OptionsInherit.v — C18: settings are inherited down the module tree.
   A setting for a package applies to each of its submodules; the lookup depends on the module path only
   through the applicability tests; hence a submodule for which nothing more specific than its ancestor's
   path is configured gets exactly its ancestor's effective value (single-valued, defaulted and
   concatenated lookups, and end to end over the parser model). *)
From Coq Require Import ZArith List Bool NArith Lia.
Import ListNotations.
Require Import PV.Options.Base PV.Options.Parse PV.Proofs.OptionsSort PV.Proofs.OptionsLookup.
Require Import PV.Gen.Options PV.Proofs.OptionsMain.

Theorem applicable_to_submodules {V} (i : inst V) mp rest :
  is_applicable_to i mp = true -> is_applicable_to i (mp ++ rest) = true.
Proof.
  rewrite !is_applicable_iff_prefix. intros [r ->]. exists (r ++ rest). symmetry; apply app_assoc.
Qed.

(* a prefix of mp ++ rest that is no longer than mp is a prefix of mp *)
Theorem applicable_from_submodule {V} (i : inst V) mp rest :
  is_applicable_to i (mp ++ rest) = true -> length (applicable_to i) <= length mp ->
  is_applicable_to i mp = true.
Proof.
  unfold is_applicable_to. rewrite !list_N_eqb_eq. intros H Hl.
  rewrite firstn_app in H. replace (length (applicable_to i) - length mp) with 0 in H by lia.
  cbn [firstn] in H. rewrite app_nil_r in H. exact H.
Qed.

Lemma find_ext_in {A} (p q : A -> bool) (l : list A) :
  (forall x, In x l -> p x = q x) -> find p l = find q l.
Proof.
  induction l as [|x l IH]; intros H; cbn [find]; [reflexivity|].
  rewrite (H x (or_introl eq_refl)). destruct (q x); [reflexivity|].
  apply IH. intros y Hy. apply H. right; exact Hy.
Qed.

Theorem lookup_depends_on_applicability {V} (L : list (inst V)) mp mp' :
  (forall i, In i L -> is_applicable_to i mp = is_applicable_to i mp') ->
  get_value_from_instances L mp = get_value_from_instances L mp'.
Proof.
  intros H. unfold get_value_from_instances, for_first.
  rewrite (find_ext_in (fun i => is_applicable_to i mp) (fun i => is_applicable_to i mp') L H). reflexivity.
Qed.

Theorem concat_depends_on_applicability {V} (d : list V) (L : list (inst (list V))) mp mp' :
  (forall i, In i L -> is_applicable_to i mp = is_applicable_to i mp') ->
  concat_get_value_from_instances d L mp = concat_get_value_from_instances d L mp'.
Proof.
  intros H. unfold concat_get_value_from_instances. f_equal.
  induction L as [|x l IH]; cbn [flat_map]; [reflexivity|].
  rewrite (H x (or_introl eq_refl)). f_equal. apply IH. intros y Hy. apply H. right; exact Hy.
Qed.

Definition nothing_more_specific {V} (L : list (inst V)) (mp rest : list N) : Prop :=
  forall i, In i L -> is_applicable_to i (mp ++ rest) = true -> length (applicable_to i) <= length mp.

Lemma same_applicability {V} (L : list (inst V)) mp rest :
  nothing_more_specific L mp rest ->
  forall i, In i L -> is_applicable_to i (mp ++ rest) = is_applicable_to i mp.
Proof.
  intros H i Hi. destruct (is_applicable_to i (mp ++ rest)) eqn:E.
  - symmetry. apply (applicable_from_submodule i mp rest E). apply H; assumption.
  - destruct (is_applicable_to i mp) eqn:E'; [|reflexivity].
    rewrite (applicable_to_submodules i mp rest E') in E. discriminate.
Qed.

(* lookup over the sorted instance list, with the default appended *)
Theorem submodule_inherits_lookup {V} (d : V) (cli file : list (inst V)) mp rest :
  nothing_more_specific (cli ++ file) mp rest ->
  get_value_for_no_default d (from_option_list cli file) (mp ++ rest) =
  get_value_for_no_default d (from_option_list cli file) mp.
Proof.
  intros H. unfold get_value_for_no_default. apply lookup_depends_on_applicability.
  intros i Hi. apply in_app_or in Hi. destruct Hi as [Hi|[<-|[]]].
  - apply (same_applicability (cli ++ file) mp rest H). unfold from_option_list in Hi.
    apply sort_by_In in Hi. exact Hi.
  - reflexivity.
Qed.

Theorem submodule_inherits_concat {V} (d : list V) (cli file : list (inst (list V))) mp rest :
  nothing_more_specific (cli ++ file) mp rest ->
  concat_get_value_from_instances d (from_option_list cli file) (mp ++ rest) =
  concat_get_value_from_instances d (from_option_list cli file) mp.
Proof.
  intros H. apply concat_depends_on_applicability. intros i Hi.
  apply (same_applicability (cli ++ file) mp rest H). unfold from_option_list in Hi.
  apply sort_by_In in Hi. exact Hi.
Qed.

(* end to end: whatever the files and the command line, a submodule for which no file section names a
   path longer than mp gets mp's effective value (command-line instances have the empty path) *)
Theorem submodule_inherits is_code files cli d mp rest l :
  parse_main is_code files = Ok l ->
  nothing_more_specific l mp rest ->
  effective is_code files cli d (mp ++ rest) = effective is_code files cli d mp.
Proof.
  intros Hp H. unfold effective. rewrite Hp. cbv zeta. f_equal.
  apply submodule_inherits_lookup. intros i Hi Ha.
  apply in_app_or in Hi. destruct Hi as [Hi|Hi]; [|apply H; assumption].
  apply in_map_iff in Hi. destruct Hi as [v [<- _]]. cbn. lia.
Qed.

(* and a setting that does apply to the ancestor is never lost in a submodule: the submodule's chosen
   instance is at least as specific/near as the ancestor's *)
Theorem submodule_never_falls_to_default {V} (L : list (inst V)) mp rest :
  chosen L mp <> None -> chosen L (mp ++ rest) <> None.
Proof.
  rewrite !lookup_none_iff. intros H H'. apply H. intros y Hy.
  destruct (is_applicable_to y mp) eqn:E; [|reflexivity].
  rewrite <- (H' y Hy). symmetry. apply applicable_to_submodules; exact E.
Qed.

(* non-vacuity: the premises of submodule_inherits hold for the three-file chain of OptionsMain.ex_files,
   ancestor 1.4 and submodule 1.4.9 (only the top level and the section for `1` reach it) *)
Example ex_inherit : exists l,
  parse_main false PV.Proofs.OptionsMain.ex_files = Ok l /\
  forallb (fun i => implb (is_applicable_to i ([1%N; 4%N] ++ [9%N])) (Nat.leb (length (applicable_to i)) 2)) l = true /\
  effective false PV.Proofs.OptionsMain.ex_files [] 0 ([1%N; 4%N] ++ [9%N]) = Some (Some 8%Z) /\
  effective false PV.Proofs.OptionsMain.ex_files [] 0 ([1%N; 2%N] ++ [9%N]) = Some (Some 9%Z).
Proof. eexists. split; [vm_compute; reflexivity|]. vm_compute. repeat split. Qed.
