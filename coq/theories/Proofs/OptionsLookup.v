(* Proofs/OptionsLookup.v — C18: what the (generated) lookup functions compute. *)
From Coq Require Import ZArith List Bool NArith Lia.
Import ListNotations.
Require Import PV.Options.Base PV.Proofs.OptionsSort.
Require Import PV.Gen.Options.

Lemma list_N_eqb_eq a b : list_N_eqb a b = true <-> a = b.
Proof.
  revert b; induction a as [|x a IH]; destruct b as [|y b]; simpl; try (split; [discriminate|discriminate]); try tauto.
  rewrite andb_true_iff, N.eqb_eq, IH. split; [intros [-> ->]; reflexivity|intros H; inversion H; auto].
Qed.

Lemma firstn_prefix {A} (p l : list A) : firstn (length p) l = p <-> exists r, l = p ++ r.
Proof.
  split.
  - intros H. exists (skipn (length p) l). rewrite <- H at 1. symmetry; apply firstn_skipn.
  - intros [r ->]. rewrite firstn_app, Nat.sub_diag, firstn_all. simpl. apply app_nil_r.
Qed.

(* the applicability test is "applicable_to is a prefix of the module path" *)
Theorem is_applicable_iff_prefix {V} (i : inst V) mp :
  is_applicable_to i mp = true <-> exists rest, mp = applicable_to i ++ rest.
Proof. unfold is_applicable_to. rewrite list_N_eqb_eq. apply firstn_prefix. Qed.

(* sort keys: command line first, then lower priority number, then longer prefix *)
Theorem sort_key_lt_iff {V} (x y : inst V) :
  key_lt (sort_key x) (sort_key y) = true <->
  (from_command_line x = true /\ from_command_line y = false) \/
  (from_command_line x = from_command_line y /\
   ((priority x < priority y)%Z \/
    (priority x = priority y /\ length (applicable_to y) < length (applicable_to x)))).
Proof.
  unfold sort_key, key_lt, bool_lt.
  destruct (from_command_line x), (from_command_line y); simpl;
  rewrite ?orb_true_iff, ?andb_true_iff, ?Z.ltb_lt, ?Z.eqb_eq; split; intros H;
  try (intuition (try discriminate; try lia)).
Qed.

Definition chosen {V} (L : list (inst V)) (mp : list N) : option (inst V) :=
  best sort_key (filter (fun i => is_applicable_to i mp) L).

(* lookup after from_option_list = value of the first applicable instance of minimal key *)
Theorem lookup_chosen {V} (cli file : list (inst V)) mp :
  get_value_from_instances (from_option_list cli file) mp = option_map value (chosen (cli ++ file) mp).
Proof.
  unfold get_value_from_instances, from_option_list, for_first, chosen.
  rewrite find_sort_by. destruct (best _ _); reflexivity.
Qed.

Section Chosen.
  Context {V : Type} (L : list (inst V)) (mp : list N) (b : inst V).
  Hypothesis Hb : chosen L mp = Some b.

  Lemma chosen_in : In b L /\ is_applicable_to b mp = true.
  Proof. apply best_In in Hb. apply filter_In in Hb. exact Hb. Qed.

  Lemma chosen_min y : In y L -> is_applicable_to y mp = true ->
    key_lt (sort_key y) (sort_key b) = false.
  Proof. intros Hy Ha. apply (best_min sort_key _ _ Hb). apply filter_In; auto. Qed.

  (* 1. a command-line value beats everything from files *)
  Theorem cli_wins y : In y L -> is_applicable_to y mp = true ->
    from_command_line y = true -> from_command_line b = true.
  Proof.
    intros Hy Ha Hc. pose proof (chosen_min y Hy Ha) as M.
    destruct (from_command_line b) eqn:E; [reflexivity|].
    assert (key_lt (sort_key y) (sort_key b) = true) by (apply sort_key_lt_iff; left; auto).
    congruence.
  Qed.

  (* 2. among instances of the same origin, the lower priority number (= the file
        closer to the main file in the inclusion order) wins *)
  Theorem nearer_file_wins y : In y L -> is_applicable_to y mp = true ->
    from_command_line y = from_command_line b -> (priority b <= priority y)%Z.
  Proof.
    intros Hy Ha Hc. pose proof (chosen_min y Hy Ha) as M.
    destruct (Z_lt_le_dec (priority y) (priority b)) as [Hlt|Hle]; [|exact Hle].
    assert (key_lt (sort_key y) (sort_key b) = true) by (apply sort_key_lt_iff; right; auto).
    congruence.
  Qed.

  (* 3. within one file, the most specific (longest) matching override wins; the
        top-level section is the override for the empty prefix *)
  Theorem longest_prefix_wins y : In y L -> is_applicable_to y mp = true ->
    from_command_line y = from_command_line b -> priority y = priority b ->
    length (applicable_to y) <= length (applicable_to b).
  Proof.
    intros Hy Ha Hc Hp. pose proof (chosen_min y Hy Ha) as M.
    destruct (le_lt_dec (length (applicable_to y)) (length (applicable_to b))) as [Hle|Hlt]; [exact Hle|].
    assert (key_lt (sort_key y) (sort_key b) = true)
      by (apply sort_key_lt_iff; right; split; [exact Hc|right; split; [exact Hp|exact Hlt]]).
    congruence.
  Qed.

  (* 4. remaining ties are broken by position: nothing applicable of equal key precedes b *)
  Theorem earliest_wins :
    exists pre post, filter (fun i => is_applicable_to i mp) L = pre ++ b :: post /\
      forall y, In y pre -> key_lt (sort_key b) (sort_key y) = true.
  Proof. apply (best_first sort_key _ _ Hb). Qed.
End Chosen.

(* 5. the default comes last: it is used exactly when nothing stored applies *)
Theorem default_last {V} (d : V) (stored : list (inst V)) mp :
  get_value_for_no_default d stored mp =
  match get_value_from_instances stored mp with Some v => Some v | None => Some d end.
Proof.
  unfold get_value_for_no_default, get_value_from_instances, for_first.
  induction stored as [|x l IH]; simpl.
  - reflexivity.
  - destruct (is_applicable_to x mp); [reflexivity|exact IH].
Qed.

Theorem lookup_none_iff {V} (L : list (inst V)) mp :
  chosen L mp = None <-> forall y, In y L -> is_applicable_to y mp = false.
Proof.
  unfold chosen. rewrite best_None. split.
  - intros H y Hy. destruct (is_applicable_to y mp) eqn:E; [|reflexivity].
    assert (In y (filter (fun i => is_applicable_to i mp) L)) by (apply filter_In; auto).
    rewrite H in *. contradiction.
  - intros H. induction L as [|x l IH]; simpl; [reflexivity|].
    rewrite (H x (or_introl eq_refl)). apply IH. intros y Hy. apply H. right; exact Hy.
Qed.

(* 6. list-valued options concatenate the applicable values in precedence order *)
Theorem concat_order {V} (d : list V) (cli file : list (inst (list V))) mp :
  concat_get_value_from_instances d (from_option_list cli file) mp =
  flat_map value (sort_by sort_key (filter (fun i => is_applicable_to i mp) (cli ++ file))) ++ d.
Proof.
  unfold concat_get_value_from_instances, from_option_list.
  rewrite <- filter_sort_by. f_equal.
  induction (sort_by sort_key (cli ++ file)) as [|x l IH]; simpl; [reflexivity|].
  destruct (is_applicable_to x mp); simpl; rewrite IH; reflexivity.
Qed.

(* 7. `is_error_code_enabled_anywhere` (translated: Gen.Options.enabled_anywhere) is an upper bound of the
   per-module answers: a code that the lookup enables for SOME module path is enabled "anywhere".
   (NameCheckVisitor._run_on_files uses the answer to decide whether a whole-run checker is switched on.) *)
Lemma find_app_first {A} (p : A -> bool) (l1 l2 : list A) :
  find p (l1 ++ l2) = match find p l1 with Some x => Some x | None => find p l2 end.
Proof. induction l1 as [|x l IH]; cbn [app find]; [reflexivity|]. destruct (p x); [reflexivity|exact IH]. Qed.

Theorem enabled_somewhere_enabled_anywhere (d : bool) (stored : list (inst bool)) mp :
  get_value_for_no_default d stored mp = Some true -> enabled_anywhere d stored = true.
Proof.
  intros H. unfold enabled_anywhere.
  destruct (existsb (fun instance : inst bool => value instance) stored) eqn:E; cbn; [reflexivity|].
  unfold get_value_for_no_default, get_value_from_instances, for_first in H.
  rewrite find_app_first in H.
  destruct (find (fun instance : inst bool => is_applicable_to instance mp) stored) as [i|] eqn:F.
  - apply find_some in F. destruct F as [Hin _]. injection H as Hv.
    assert (X : existsb (fun instance : inst bool => value instance) stored = true)
      by (apply existsb_exists; exists i; split; assumption).
    congruence.
  - cbn [find] in H. destruct (is_applicable_to (mk_inst d [] false 0%Z) mp); [|discriminate].
    injection H as Hd. exact Hd.
Qed.

(* ... and it claims nothing beyond the explicit settings and the default *)
Theorem enabled_anywhere_sources (d : bool) (stored : list (inst bool)) :
  enabled_anywhere d stored = true -> d = true \/ exists i, In i stored /\ value i = true.
Proof.
  unfold enabled_anywhere. destruct (existsb (fun instance : inst bool => value instance) stored) eqn:E; cbn.
  - intros _. right. apply existsb_exists in E. exact E.
  - intros H. left. exact H.
Qed.
