(* Proofs/OptionsMain.v — C18: composition of parser facts and lookup facts. *)
From Coq Require Import ZArith List Bool NArith Lia.
Import ListNotations.
Require Import PV.Options.Base PV.Options.Parse PV.Proofs.OptionsSort PV.Proofs.OptionsLookup PV.Proofs.OptionsParse.
Require Import PV.Gen.Options.

Definition cli_insts (cli : list Z) : list (inst Z) := map (fun v => mk_inst v [] true 0%Z) cli.

Lemma cli_insts_shape cli i : In i (cli_insts cli) ->
  from_command_line i = true /\ applicable_to i = [] /\ priority i = 0%Z.
Proof. unfold cli_insts. rewrite in_map_iff. intros (v & <- & _). auto. Qed.

Lemma applicable_nil {V} (i : inst V) mp : applicable_to i = [] -> is_applicable_to i mp = true.
Proof. intros H. apply is_applicable_iff_prefix. rewrite H. exists mp. reflexivity. Qed.

(* a command-line value, when given, is the effective value (the first one given) *)
Theorem cli_value_effective is_code files v cli d mp l :
  parse_main is_code files = Ok l ->
  effective is_code files (v :: cli) d mp = Some (Some v).
Proof.
  intros Hp. unfold effective. rewrite Hp. rewrite default_last.
  fold (cli_insts (v :: cli)). rewrite lookup_chosen.
  destruct (chosen (cli_insts (v :: cli) ++ l) mp) as [b|] eqn:Hb.
  - simpl. f_equal. f_equal.
    set (c := mk_inst v [] true 0%Z).
    assert (Hc : In c (cli_insts (v :: cli) ++ l)) by (simpl; auto).
    assert (Ha : is_applicable_to c mp = true) by (apply applicable_nil; reflexivity).
    pose proof (cli_wins _ _ _ Hb c Hc Ha eq_refl) as Hcli.
    (* b is a cli instance: it is in the cli part *)
    destruct (chosen_in _ _ _ Hb) as [Hin _].
    apply in_app_iff in Hin. destruct Hin as [Hin|Hin].
    + (* first among equal keys *)
      destruct (earliest_wins _ _ _ Hb) as (pre & post & Hf & Hpre).
      change (cli_insts (v :: cli)) with (c :: cli_insts cli) in Hf.
      cbn [app filter] in Hf. rewrite Ha in Hf.
      destruct pre as [|x pre]; simpl in Hf; inversion Hf; subst; [reflexivity|].
      specialize (Hpre c (or_introl eq_refl)).
      destruct (cli_insts_shape _ _ Hin) as (Hb1 & Hb2 & Hb3).
      apply sort_key_lt_iff in Hpre. simpl in Hpre. rewrite Hb1, Hb2, Hb3 in Hpre. simpl in Hpre.
      destruct Hpre as [[_ H]|[_ [H|[_ H]]]]; try discriminate; lia.
    + pose proof (parse_file_bounds _ _ _ _ _ _ _ Hp _ Hin) as [Hf _]. congruence.
  - exfalso. apply lookup_none_iff with (y := mk_inst v [] true 0%Z) in Hb.
    + rewrite applicable_nil in Hb by reflexivity. discriminate.
    + simpl. auto.
Qed.

(* without a command-line value: if the main file itself has an applicable
   setting, the effective value is one of the main file's own settings — no
   extended file can override it *)
Theorem main_beats_extended is_code files sec d mp l b :
  parse_main is_code files = Ok l -> nth_error files 0 = Some sec ->
  (exists y, In y (own is_code sec 0) /\ is_applicable_to y mp = true) ->
  chosen (cli_insts [] ++ l) mp = Some b ->
  In b (own is_code sec 0) /\ effective is_code files [] d mp = Some (Some (value b)).
Proof.
  intros Hp Hsec (y & Hy & Hya) Hb. simpl in Hb.
  destruct (parse_file_own_or_deeper _ _ _ _ _ _ _ _ Hp Hsec) as [Hown Hdeep].
  destruct (Hown y Hy) as [Hyl Hyp].
  destruct (chosen_in _ _ _ Hb) as [Hbl Hba].
  assert (Hfc : forall i, In i l -> from_command_line i = false)
    by (intros i Hi; eapply parse_file_bounds; eassumption).
  pose proof (nearer_file_wins _ _ _ Hb y Hyl Hya) as Hle.
  rewrite (Hfc y Hyl), (Hfc b Hbl) in Hle. specialize (Hle eq_refl). rewrite Hyp in Hle.
  split.
  - destruct (Hdeep b Hbl) as [H|H]; [exact H|lia].
  - unfold effective. rewrite Hp, default_last. change (map _ []) with (cli_insts []).
    rewrite lookup_chosen. simpl. rewrite Hb. reflexivity.
Qed.

(* within the chosen file the most specific applicable section wins *)
Theorem most_specific_override_wins is_code files mp l b y :
  parse_main is_code files = Ok l ->
  chosen (cli_insts [] ++ l) mp = Some b ->
  In y l -> is_applicable_to y mp = true -> priority y = priority b ->
  length (applicable_to y) <= length (applicable_to b).
Proof.
  intros Hp Hb Hy Hya Hpr. simpl in Hb.
  assert (Hfc : forall i, In i l -> from_command_line i = false)
    by (intros i Hi; eapply parse_file_bounds; eassumption).
  destruct (chosen_in _ _ _ Hb) as [Hbl _].
  apply (longest_prefix_wins _ _ _ Hb y Hy Hya); [|exact Hpr].
  rewrite (Hfc y Hy), (Hfc b Hbl). reflexivity.
Qed.

(* the default is used exactly when no file setting applies *)
Theorem default_iff_nothing_applies is_code files d mp l :
  parse_main is_code files = Ok l ->
  (forall y, In y l -> is_applicable_to y mp = false) ->
  effective is_code files [] d mp = Some (Some d).
Proof.
  intros Hp Hn. unfold effective. rewrite Hp, default_last. change (map _ []) with (cli_insts []).
  rewrite lookup_chosen. simpl.
  assert (chosen l mp = None) by (apply lookup_none_iff; exact Hn).
  rewrite H. reflexivity.
Qed.

(* invalid configurations are rejected, and only those *)
Theorem effective_none_iff_error is_code files cli d mp :
  effective is_code files cli d mp = None <-> parse_main is_code files = Err.
Proof.
  unfold effective. pose proof (parse_main_fuel is_code files) as F.
  destruct (parse_main is_code files); split; intros H; try discriminate; try reflexivity; congruence.
Qed.

Theorem accepted_config_is_valid is_code files l :
  parse_main is_code files = Ok l ->
  exists sec, nth_error files 0 = Some sec /\ bad_file sec = false.
Proof. intros H. apply parse_file_ok_rejects in H. tauto. Qed.

(* non-vacuity: a concrete three-file chain with overrides, evaluated *)
Definition ex_files : list file :=
  [ [ EExtend (XFile 1); ESet 7; EOverrides (OVList [OSec (Some [1%N; 2%N]) [ESet 9]; OSec (Some [1%N]) [ESet 8]]) ];
    [ ESet 3; EExtend (XFile 2); EOverrides (OVList [OSec (Some [5%N]) [ESet 4]]) ];
    [ ESet 1; EOverrides (OVList [OSec (Some [5%N; 6%N]) [ESet 2]]) ] ].

Example ex_chain :
  effective false ex_files [] 0 [1%N; 2%N; 3%N] = Some (Some 9%Z) /\
  effective false ex_files [] 0 [1%N; 4%N] = Some (Some 8%Z) /\
  effective false ex_files [] 0 [5%N; 6%N] = Some (Some 7%Z) /\
  effective false ex_files [42%Z] 0 [1%N; 2%N] = Some (Some 42%Z) /\
  effective false [[EExtend (XFile 0)]] [] 0 [] = None /\
  effective false [[EOverrides (OVList [OSec (Some [5%N]) [ESet 4]]) ; EExtend (XFile 1)]; [EOverrides (OVList [OSec (Some [5%N; 6%N]) [ESet 2]])]] [] 0 [5%N; 6%N] = Some (Some 4%Z) /\
  effective true [[EDisableAll true; EOverrides (OVList [OSec (Some [5%N]) [ESet 1]])]] [] 1 [5%N] = Some (Some 1%Z) /\
  effective true [[EDisableAll true; EOverrides (OVList [OSec (Some [5%N]) [ESet 1]])]] [] 1 [6%N] = Some (Some 0%Z).
Proof. vm_compute. repeat split. Qed.

(* ---- is_error_code_enabled_anywhere, end to end ---- *)
Lemma lookup_inst_to_bool (stored : list (inst Z)) mp :
  get_value_from_instances (map inst_to_bool stored) mp =
  option_map (fun v => negb (Z.eqb v 0)) (get_value_from_instances stored mp).
Proof.
  unfold get_value_from_instances, for_first.
  induction stored as [|x l IH]; cbn [map find]; [reflexivity|].
  change (is_applicable_to (inst_to_bool x) mp) with (is_applicable_to x mp).
  destruct (is_applicable_to x mp); [reflexivity|exact IH].
Qed.

(* a code that the pipeline enables for some module path is enabled "anywhere" *)
Theorem enabled_for_a_module_enabled_anywhere files cli d mp v :
  effective true files cli d mp = Some (Some v) -> v <> 0%Z ->
  effective_anywhere files cli d = Some true.
Proof.
  unfold effective, effective_anywhere. destruct (parse_main true files) as [l| |]; try discriminate.
  intros H Hv. injection H as H. f_equal.
  apply (enabled_somewhere_enabled_anywhere _ _ mp).
  rewrite default_last, lookup_inst_to_bool. rewrite default_last in H.
  destruct (get_value_from_instances (from_option_list (map (fun v0 : Z => mk_inst v0 [] true 0%Z) cli) l) mp) as [w|];
    cbn [option_map]; injection H as ->; f_equal; (destruct (Z.eqb_spec v 0) as [E|E]; [contradiction|reflexivity]).
Qed.

(* a configuration is rejected for "anywhere" exactly when it is rejected for the per-module lookups *)
Theorem effective_anywhere_none_iff files cli d mp :
  effective_anywhere files cli d = None <-> effective true files cli d mp = None.
Proof. unfold effective, effective_anywhere. destruct (parse_main true files); split; intros H; try discriminate; reflexivity. Qed.
