(* Proofs/OptionsParse.v — C18: what the config-file parser model yields. *)
From Coq Require Import ZArith List Bool NArith Lia.
Import ListNotations.
Require Import PV.Options.Base PV.Options.Parse.
Require PV.Gen.Options.

(* facts about the current source, re-checked on every run (Gen/Options.v) *)
Lemma inst_prio_id p : inst_prio p = p.
Proof. reflexivity. Qed.
Lemma extend_delta_one : PV.Gen.Options.extend_priority_delta = 1%Z.
Proof. reflexivity. Qed.
Lemma override_same : PV.Gen.Options.override_same_priority = true.
Proof. reflexivity. Qed.

Lemma res_app_ok a b l : res_app a b = Ok l -> exists x y, a = Ok x /\ b = Ok y /\ l = x ++ y.
Proof. destruct a, b; simpl; intros H; inversion H; eauto. Qed.

Lemma res_app_fuel a b : res_app a b = OutOfFuel -> a = OutOfFuel \/ b = OutOfFuel.
Proof. destruct a, b; simpl; intros H; try discriminate; auto. Qed.

Section ParseFacts.
  Variable is_code : bool.
  Variable files : list file.

  (* the instances a section produces by itself (settings and disable_all) *)
  Fixpoint direct {O} (es : list (entry O)) (mp : list N) (prio : Z) (enabled disable : bool)
    : list (inst Z) :=
    match es with
    | [] => sec_tail is_code mp prio enabled disable
    | ESet v :: r => mk_inst v mp false prio :: direct r mp prio (enabled || (is_code && Z.eqb v 1)) disable
    | EDisableAll b :: r => direct r mp prio enabled b
    | _ :: r => direct r mp prio enabled disable
    end.

  Lemma sec_tail_spec mp p en dis i : In i (sec_tail is_code mp p en dis) ->
    i = mk_inst 0%Z mp false p /\ dis = true /\ is_code = true /\ en = false.
  Proof.
    unfold sec_tail. rewrite inst_prio_id.
    destruct dis, is_code, en; simpl; intros H; try contradiction; destruct H as [<-|[]]; auto.
  Qed.

  Lemma direct_shape {O} (es : list (entry O)) mp p en dis i :
    In i (direct es mp p en dis) ->
    applicable_to i = mp /\ from_command_line i = false /\ priority i = p.
  Proof.
    revert en dis; induction es as [|e es IH]; simpl; intros en dis H.
    - apply sec_tail_spec in H. destruct H as (-> & _). auto.
    - destruct e; simpl in H; try (eapply IH; eassumption).
      destruct H as [<-|H]; [auto|eapply IH; eassumption].
  Qed.

  (* membership in the result of parse_entries *)
  Lemma parse_entries_members {O} (on_ov : O -> res) top rec (es : list (entry O)) mp p en dis l :
    parse_entries is_code on_ov top rec es mp p en dis = Ok l ->
    forall i, In i l <->
      In i (direct es mp p en dis)
      \/ (exists n r, In (EExtend (XFile n)) es /\ rec n (p + 1)%Z = Ok r /\ In i r)
      \/ (exists o r, In (EOverrides o) es /\ on_ov o = Ok r /\ In i r).
  Proof.
    revert en dis l; induction es as [|e es IH]; intros en dis l H i.
    - simpl in H. inversion H; subst. simpl. split; [auto|].
      intros [H1|[(n & r & [] & _)|(o & r & [] & _)]]; exact H1.
    - destruct e as [v| | | |t|o|b]; cbn [parse_entries] in H.
      + apply res_app_ok in H. destruct H as (x & y & Hx & Hy & ->).
        inversion Hx; subst; clear Hx. rewrite inst_prio_id.
        specialize (IH _ _ _ Hy i). cbn [direct In app]. rewrite IH. clear IH.
        split.
        * intros [H|[H|[(n & r & Hn & Hr)|(o & r & Ho & Hr)]]]; auto.
          -- right; left; exists n, r; simpl; tauto.
          -- right; right; exists o, r; simpl; tauto.
        * intros [[H|H]|[(n & r & [Hn|Hn] & Hr)|(o & r & [Ho|Ho] & Hr)]]; try discriminate; auto.
          -- right; right; left; eauto.
          -- right; right; right; eauto.
      + specialize (IH _ _ _ H i). cbn [direct]. rewrite IH. clear IH. split.
        * intros [H1|[(n & r & Hn & Hr)|(o & r & Ho & Hr)]]; auto.
          -- right; left; exists n, r; simpl; tauto.
          -- right; right; exists o, r; simpl; tauto.
        * intros [H1|[(n & r & [Hn|Hn] & Hr)|(o & r & [Ho|Ho] & Hr)]]; try discriminate; auto.
          -- right; left; eauto.
          -- right; right; eauto.
      + discriminate.
      + destruct top; [discriminate|].
        specialize (IH _ _ _ H i). cbn [direct]. rewrite IH. clear IH. split.
        * intros [H1|[(n & r & Hn & Hr)|(o & r & Ho & Hr)]]; auto.
          -- right; left; exists n, r; simpl; tauto.
          -- right; right; exists o, r; simpl; tauto.
        * intros [H1|[(n & r & [Hn|Hn] & Hr)|(o & r & [Ho|Ho] & Hr)]]; try discriminate; auto.
          -- right; left; eauto.
          -- right; right; eauto.
      + destruct t as [|m]; [discriminate|].
        apply res_app_ok in H. destruct H as (x & y & Hx & Hy & ->).
        rewrite extend_delta_one in Hx.
        specialize (IH _ _ _ Hy i). cbn [direct]. rewrite in_app_iff, IH. clear IH. split.
        * intros [H|[H|[(n & r & Hn & Hr)|(o & r & Ho & Hr)]]]; auto.
          -- right; left; exists m, x; simpl; auto.
          -- right; left; exists n, r; simpl; tauto.
          -- right; right; exists o, r; simpl; tauto.
        * intros [H|[(n & r & [Hn|Hn] & Hr & Hi)|(o & r & [Ho|Ho] & Hr)]]; try discriminate; auto.
          -- inversion Hn; subst. rewrite Hx in Hr. inversion Hr; subst. auto.
          -- right; right; left; eauto.
          -- right; right; right; eauto.
      + apply res_app_ok in H. destruct H as (x & y & Hx & Hy & ->).
        specialize (IH _ _ _ Hy i). cbn [direct]. rewrite in_app_iff, IH. clear IH. split.
        * intros [H|[H|[(n & r & Hn & Hr)|(o' & r & Ho & Hr)]]]; auto.
          -- right; right; exists o, x; simpl; auto.
          -- right; left; exists n, r; simpl; tauto.
          -- right; right; exists o', r; simpl; tauto.
        * intros [H|[(n & r & [Hn|Hn] & Hr)|(o' & r & [Ho|Ho] & Hr & Hi)]]; try discriminate; auto.
          -- right; right; left; eauto.
          -- inversion Ho; subst. rewrite Hx in Hr. inversion Hr; subst. auto.
          -- right; right; right; eauto.
      + specialize (IH _ _ _ H i). cbn [direct]. rewrite IH. clear IH. split.
        * intros [H1|[(n & r & Hn & Hr)|(o & r & Ho & Hr)]]; auto.
          -- right; left; exists n, r; simpl; tauto.
          -- right; right; exists o, r; simpl; tauto.
        * intros [H1|[(n & r & [Hn|Hn] & Hr)|(o & r & [Ho|Ho] & Hr)]]; try discriminate; auto.
          -- right; left; eauto.
          -- right; right; eauto.
  Qed.

  Lemma parse_entries_overrides_ok {O} (on_ov : O -> res) top rec (es : list (entry O)) mp p en dis l o :
    parse_entries is_code on_ov top rec es mp p en dis = Ok l -> In (EOverrides o) es ->
    exists r, on_ov o = Ok r.
  Proof.
    revert en dis l; induction es as [|e es IH]; intros en dis l H He; [contradiction|].
    destruct He as [->|He].
    - cbn [parse_entries] in H. apply res_app_ok in H. destruct H as (x & _ & Hx & _). eauto.
    - destruct e as [v| | | |t|o'|b]; cbn [parse_entries] in H; try discriminate;
        try (eapply IH; eassumption).
      + apply res_app_ok in H. destruct H as (_ & y & _ & Hy & _). eapply IH; eassumption.
      + destruct top; [discriminate|]. eapply IH; eassumption.
      + destruct t; [discriminate|]. apply res_app_ok in H. destruct H as (_ & y & _ & Hy & _). eapply IH; eassumption.
      + apply res_app_ok in H. destruct H as (_ & y & _ & Hy & _). eapply IH; eassumption.
  Qed.

  (* errors: a section that parses contains none of the rejected constructs *)
  Definition bad_entry {O} (bad_ov : O -> bool) (top : bool) (e : entry O) : bool :=
    match e with
    | EInvalid => true
    | EModule => top
    | EExtend XNotString => true
    | EOverrides o => bad_ov o
    | _ => false
    end.

  Definition bad_override (o : override) : bool :=
    match o with
    | ONotDict => true
    | OSec None _ => true
    | OSec (Some _) es => existsb (bad_entry (fun _ : unit => true) false) es
    end.

  Definition bad_overrides (o : overrides) : bool :=
    match o with
    | OVNotList => true
    | OVList l => existsb bad_override l
    end.

  Definition bad_file (f : file) : bool := existsb (bad_entry bad_overrides true) f.

  Lemma parse_entries_ok_not_bad {O} (on_ov : O -> res) (bad_ov : O -> bool) top rec es mp p en dis l :
    (forall o r, on_ov o = Ok r -> bad_ov o = false) ->
    parse_entries is_code on_ov top rec es mp p en dis = Ok l ->
    existsb (bad_entry bad_ov top) es = false.
  Proof.
    intros Hov. revert en dis l; induction es as [|e es IH]; intros en dis l H; [reflexivity|].
    destruct e as [v| | | |t|o|b]; cbn [parse_entries] in H; cbn [existsb bad_entry].
    - apply res_app_ok in H. destruct H as (x & y & _ & Hy & _). eapply IH; eassumption.
    - eapply IH; eassumption.
    - discriminate.
    - destruct top; [discriminate|]. eapply IH; eassumption.
    - destruct t; [discriminate|]. apply res_app_ok in H. destruct H as (x & y & _ & Hy & _).
      simpl. eapply IH; eassumption.
    - apply res_app_ok in H. destruct H as (x & y & Hx & Hy & _).
      rewrite (Hov _ _ Hx). simpl. eapply IH; eassumption.
    - eapply IH; eassumption.
  Qed.

  Lemma parse_override_ok_not_bad rec p o r : parse_override is_code rec p o = Ok r -> bad_override o = false.
  Proof.
    destruct o as [|[mp|] es]; simpl; try discriminate.
    intros H. eapply parse_entries_ok_not_bad; [|eassumption]. intros ? ? Hd; discriminate.
  Qed.

  Lemma parse_overrides_ok_not_bad rec p o r : parse_overrides is_code rec p o = Ok r -> bad_overrides o = false.
  Proof.
    destruct o as [|l]; simpl; [discriminate|].
    revert r; induction l as [|ov l IH]; simpl; intros r H; [reflexivity|].
    apply res_app_ok in H. destruct H as (x & y & Hx & Hy & _).
    rewrite (parse_override_ok_not_bad _ _ _ _ Hx). simpl. eapply IH; eassumption.
  Qed.

  Theorem parse_file_ok_rejects fuel seen n p l :
    parse_file is_code files fuel seen n p = Ok l ->
    ~ In n seen /\ exists sec, nth_error files n = Some sec /\ bad_file sec = false.
  Proof.
    destruct fuel as [|f]; simpl; [discriminate|].
    destruct (mem_nat n seen) eqn:M; [discriminate|].
    destruct (nth_error files n) as [sec|] eqn:E; [|discriminate].
    intros H. split.
    - intros Hin. unfold mem_nat in M. assert (existsb (Nat.eqb n) seen = true); [|congruence].
      apply existsb_exists. exists n. split; [exact Hin|apply Nat.eqb_refl].
    - exists sec. split; [reflexivity|].
      eapply parse_entries_ok_not_bad; [|eassumption].
      intros o r. apply parse_overrides_ok_not_bad.
  Qed.

  (* every instance coming out of a file has from_command_line = false and a
     priority at least the file's *)
  Lemma parse_entries_bounds {O} (on_ov : O -> res) top rec (es : list (entry O)) mp p en dis l :
    (forall n q r i, rec n q = Ok r -> In i r -> from_command_line i = false /\ (q <= priority i)%Z) ->
    (forall o r i, on_ov o = Ok r -> In i r -> from_command_line i = false /\ (p <= priority i)%Z) ->
    parse_entries is_code on_ov top rec es mp p en dis = Ok l ->
    forall i, In i l -> from_command_line i = false /\ (p <= priority i)%Z.
  Proof.
    intros Hrec Hov H i Hi.
    apply (parse_entries_members _ _ _ _ _ _ _ _ _ H) in Hi.
    destruct Hi as [Hd|[(n & r & _ & Hr & Hi)|(o & r & _ & Hr & Hi)]].
    - apply direct_shape in Hd. destruct Hd as (_ & -> & ->). split; [reflexivity|lia].
    - destruct (Hrec _ _ _ _ Hr Hi) as [-> Hq]. split; [reflexivity|lia].
    - eapply Hov; eassumption.
  Qed.

  Lemma parse_override_bounds rec p o r :
    (forall n q r i, rec n q = Ok r -> In i r -> from_command_line i = false /\ (q <= priority i)%Z) ->
    parse_override is_code rec p o = Ok r ->
    forall i, In i r -> from_command_line i = false /\ (p <= priority i)%Z.
  Proof.
    intros Hrec. destruct o as [|[mp|] es]; simpl; try discriminate.
    rewrite ?override_same. intros H. eapply parse_entries_bounds; [exact Hrec| |exact H].
    intros ? ? ? Hd; discriminate.
  Qed.

  Lemma parse_overrides_bounds rec p o r :
    (forall n q r i, rec n q = Ok r -> In i r -> from_command_line i = false /\ (q <= priority i)%Z) ->
    parse_overrides is_code rec p o = Ok r ->
    forall i, In i r -> from_command_line i = false /\ (p <= priority i)%Z.
  Proof.
    intros Hrec. destruct o as [|l]; simpl; [discriminate|].
    revert r; induction l as [|ov l IH]; simpl; intros r H i Hi.
    - inversion H; subst. contradiction.
    - apply res_app_ok in H. destruct H as (x & y & Hx & Hy & ->).
      apply in_app_iff in Hi. destruct Hi as [Hi|Hi].
      + eapply parse_override_bounds; eassumption.
      + eapply IH; eassumption.
  Qed.

  Theorem parse_file_bounds fuel : forall seen n p l,
    parse_file is_code files fuel seen n p = Ok l ->
    forall i, In i l -> from_command_line i = false /\ (p <= priority i)%Z.
  Proof.
    induction fuel as [|f IH]; intros seen n p l; simpl; [discriminate|].
    destruct (mem_nat n seen); [discriminate|].
    destruct (nth_error files n) as [sec|]; [|discriminate].
    intros H. eapply parse_entries_bounds; [| |exact H].
    - intros m q r i Hr. eapply IH; exact Hr.
    - intros o r i Hr. eapply parse_overrides_bounds; [|exact Hr].
      intros m q r' i' Hr'. eapply IH; exact Hr'.
  Qed.

  (* the instances of priority exactly p in the result for file n are the file's
     own settings (top level and overrides); everything from extended files has
     a strictly larger priority number *)
  Definition own_of_override (p : Z) (o : override) : list (inst Z) :=
    match o with
    | OSec (Some mp) es => direct es mp p false false
    | _ => []
    end.

  Definition own_of_overrides (p : Z) (o : overrides) : list (inst Z) :=
    match o with
    | OVList l => flat_map (own_of_override p) l
    | OVNotList => []
    end.

  Definition own (sec : file) (p : Z) : list (inst Z) :=
    direct sec [] p false false ++
    flat_map (fun e => match e with EOverrides o => own_of_overrides p o | _ => [] end) sec.

  Lemma parse_override_split rec p o r :
    (forall n q r i, rec n q = Ok r -> In i r -> (q <= priority i)%Z) ->
    parse_override is_code rec p o = Ok r ->
    forall i, In i r -> In i (own_of_override p o) \/ (p + 1 <= priority i)%Z.
  Proof.
    intros Hrec. destruct o as [|[mp|] es]; simpl; try discriminate.
    rewrite ?override_same. intros H i Hi.
    apply (parse_entries_members _ _ _ _ _ _ _ _ _ H) in Hi.
    destruct Hi as [Hd|[(n & r' & _ & Hr & Hi)|(o & r' & _ & Hr & _)]]; [auto| |discriminate].
    right. eapply Hrec; eassumption.
  Qed.

  Lemma parse_override_own rec p o r :
    parse_override is_code rec p o = Ok r -> forall i, In i (own_of_override p o) -> In i r.
  Proof.
    destruct o as [|[mp|] es]; simpl; try discriminate.
    rewrite ?override_same. intros H i Hi.
    apply (parse_entries_members _ _ _ _ _ _ _ _ _ H). auto.
  Qed.

  Lemma parse_overrides_split rec p o r :
    (forall n q r i, rec n q = Ok r -> In i r -> (q <= priority i)%Z) ->
    parse_overrides is_code rec p o = Ok r ->
    forall i, In i r -> In i (own_of_overrides p o) \/ (p + 1 <= priority i)%Z.
  Proof.
    intros Hrec. destruct o as [|l]; simpl; [discriminate|].
    revert r; induction l as [|ov l IH]; simpl; intros r H i Hi.
    - inversion H; subst. contradiction.
    - apply res_app_ok in H. destruct H as (x & y & Hx & Hy & ->).
      apply in_app_iff in Hi. destruct Hi as [Hi|Hi].
      + destruct (parse_override_split _ _ _ _ Hrec Hx _ Hi); [left; apply in_app_iff; auto|auto].
      + destruct (IH _ Hy _ Hi); [left; apply in_app_iff; auto|auto].
  Qed.

  Lemma parse_overrides_own rec p o r :
    parse_overrides is_code rec p o = Ok r -> forall i, In i (own_of_overrides p o) -> In i r.
  Proof.
    destruct o as [|l]; simpl; [discriminate|].
    revert r; induction l as [|ov l IH]; simpl; intros r H i Hi; [contradiction|].
    apply res_app_ok in H. destruct H as (x & y & Hx & Hy & ->).
    apply in_app_iff in Hi. apply in_app_iff. destruct Hi as [Hi|Hi].
    - left. eapply parse_override_own; eassumption.
    - right. eapply IH; eassumption.
  Qed.

  Theorem parse_file_own_or_deeper fuel seen n p l sec :
    parse_file is_code files fuel seen n p = Ok l -> nth_error files n = Some sec ->
    (forall i, In i (own sec p) -> In i l /\ priority i = p) /\
    (forall i, In i l -> In i (own sec p) \/ (p + 1 <= priority i)%Z).
  Proof.
    destruct fuel as [|f]; simpl; [discriminate|].
    destruct (mem_nat n seen); [discriminate|].
    intros H E. rewrite E in H.
    pose proof (parse_entries_members _ _ _ _ _ _ _ _ _ H) as M.
    assert (Hrec : forall m q r i, parse_file is_code files f (n :: seen) m q = Ok r -> In i r -> (q <= priority i)%Z)
      by (intros m q r i Hr Hi; eapply parse_file_bounds; eassumption).
    split.
    - intros i Hi. unfold own in Hi. apply in_app_iff in Hi. destruct Hi as [Hi|Hi].
      + split; [apply M; auto|apply direct_shape in Hi; tauto].
      + apply in_flat_map in Hi. destruct Hi as (e & He & Hi).
        destruct e as [| | | | |o|]; try contradiction.
        assert (exists r, parse_overrides is_code (parse_file is_code files f (n :: seen)) p o = Ok r) as [r Hr].
        { eapply parse_entries_overrides_ok; eassumption. }
        split.
        * apply M. right; right. exists o, r. split; [exact He|split; [exact Hr|]].
          eapply parse_overrides_own; eassumption.
        * destruct o as [|ovs]; simpl in Hi; [contradiction|].
          apply in_flat_map in Hi. destruct Hi as (ov & _ & Hi).
          destruct ov as [|[mp|] es]; simpl in Hi; try contradiction.
          apply direct_shape in Hi. tauto.
    - intros i Hi. apply M in Hi.
      destruct Hi as [Hd|[(m & r & _ & Hr & Hi)|(o & r & Ho & Hr & Hi)]].
      + left. unfold own. apply in_app_iff. auto.
      + right. eapply Hrec; eassumption.
      + destruct (parse_overrides_split _ _ _ _ Hrec Hr _ Hi) as [Ho'|]; [|auto].
        left. unfold own. apply in_app_iff. right. apply in_flat_map. exists (EOverrides o). auto.
  Qed.
  (* fuel adequacy: the parser model never runs out of fuel from parse_main *)
  Lemma parse_entries_fuel {O} (on_ov : O -> res) top rec (es : list (entry O)) mp p en dis :
    (forall n q, rec n q <> OutOfFuel) -> (forall o, on_ov o <> OutOfFuel) ->
    parse_entries is_code on_ov top rec es mp p en dis <> OutOfFuel.
  Proof.
    intros Hrec Hov. revert en dis; induction es as [|e es IH]; intros en dis; [discriminate|].
    destruct e as [v| | | |t|o|b]; cbn [parse_entries]; try discriminate; try apply IH.
    - intros H. apply res_app_fuel in H. destruct H as [H|H]; [discriminate|eapply IH; exact H].
    - destruct top; [discriminate|apply IH].
    - destruct t; [discriminate|]. intros H. apply res_app_fuel in H.
      destruct H as [H|H]; [eapply Hrec; exact H|eapply IH; exact H].
    - intros H. apply res_app_fuel in H. destruct H as [H|H]; [eapply Hov; exact H|eapply IH; exact H].
  Qed.

  Lemma parse_overrides_fuel rec p o :
    (forall n q, rec n q <> OutOfFuel) -> parse_overrides is_code rec p o <> OutOfFuel.
  Proof.
    intros Hrec. destruct o as [|l]; simpl; [discriminate|].
    induction l as [|ov l IH]; simpl; [discriminate|].
    intros H. apply res_app_fuel in H. destruct H as [H|H]; [|exact (IH H)].
    destruct ov as [|[mp|] es]; simpl in H; try discriminate.
    revert H. apply parse_entries_fuel; [exact Hrec|discriminate].
  Qed.

  Lemma seen_bound (seen : list nat) :
    NoDup seen -> (forall x, In x seen -> x < length files) -> length seen <= length files.
  Proof.
    intros Hnd Hb. rewrite <- (seq_length (length files) 0).
    apply NoDup_incl_length; [exact Hnd|].
    intros x Hx. apply in_seq. specialize (Hb x Hx). lia.
  Qed.

  Lemma parse_file_fuel fuel : forall seen n p,
    NoDup seen -> (forall x, In x seen -> x < length files) ->
    length files < fuel + length seen ->
    parse_file is_code files fuel seen n p <> OutOfFuel.
  Proof.
    induction fuel as [|f IH]; intros seen n p Hnd Hb Hlen.
    - pose proof (seen_bound seen Hnd Hb). simpl in Hlen. lia.
    - simpl. destruct (mem_nat n seen) eqn:M; [discriminate|].
      destruct (nth_error files n) as [sec|] eqn:E; [|discriminate].
      assert (Hn : n < length files) by (apply nth_error_Some; congruence).
      assert (Hnin : ~ In n seen).
      { intros Hin. unfold mem_nat in M. assert (existsb (Nat.eqb n) seen = true); [|congruence].
        apply existsb_exists. exists n. split; [exact Hin|apply Nat.eqb_refl]. }
      assert (Hrec : forall m q, parse_file is_code files f (n :: seen) m q <> OutOfFuel).
      { intros m q. apply IH.
        - constructor; assumption.
        - intros x [<-|Hx]; [exact Hn|apply Hb; exact Hx].
        - simpl. lia. }
      apply parse_entries_fuel; [exact Hrec|].
      intros o. apply parse_overrides_fuel. exact Hrec.
  Qed.

  Theorem parse_main_fuel : parse_main is_code files <> OutOfFuel.
  Proof.
    unfold parse_main. apply parse_file_fuel.
    - constructor.
    - intros x [].
    - simpl. lia.
  Qed.
End ParseFacts.

(* disable_all: a section whose (last) disable_all is true yields an explicit
   `false` for the tracked error code unless the section itself sets it to true *)
Section DisableAll.
  Variable files : list file.

  Fixpoint final_disable {O} (es : list (entry O)) (dis : bool) : bool :=
    match es with
    | [] => dis
    | EDisableAll b :: r => final_disable r b
    | _ :: r => final_disable r dis
    end.

  Fixpoint sets_true {O} (es : list (entry O)) : bool :=
    match es with
    | [] => false
    | ESet v :: r => Z.eqb v 1 || sets_true r
    | _ :: r => sets_true r
    end.

  Fixpoint settings {O} (es : list (entry O)) : list Z :=
    match es with
    | [] => []
    | ESet v :: r => v :: settings r
    | _ :: r => settings r
    end.

  Theorem direct_disable_all {O} (es : list (entry O)) mp p :
    forall en dis i, In i (direct true es mp p en dis) <->
      (exists v, In v (settings es) /\ i = mk_inst v mp false p) \/
      (final_disable es dis = true /\ (en || sets_true es) = false /\ i = mk_inst 0%Z mp false p).
  Proof.
    induction es as [|e es IH]; intros en dis i.
    - simpl. unfold sec_tail. rewrite inst_prio_id, orb_false_r.
      destruct dis, en; simpl;
        (split; [intros H | intros [(v & [] & _)|(H1 & H2 & H3)]]);
        try contradiction; try discriminate.
      * destruct H as [<-|[]]. right; auto.
      * left. auto.
    - destruct e as [v| | | |t|o|b]; cbn [direct final_disable sets_true settings].
      + cbn [In]. rewrite IH. simpl (true && _). split.
        * intros [<-|[(w & Hw & ->)|(H1 & H2 & H3)]].
          -- left. exists v. auto.
          -- left. exists w. auto.
          -- right. rewrite <- orb_assoc in H2. auto.
        * intros [(w & [<-|Hw] & ->)|(H1 & H2 & H3)].
          -- left; reflexivity.
          -- right; left; eauto.
          -- right; right. rewrite <- orb_assoc. auto.
      + apply IH.
      + apply IH.
      + apply IH.
      + apply IH.
      + apply IH.
      + apply IH.
  Qed.
End DisableAll.
