(* Proofs/OptionsSort.v — stable sort by key followed by "first applicable"
   returns the first (in input order) applicable instance of minimal key. *)
From Coq Require Import ZArith List Bool NArith Lia.
Import ListNotations.
Require Import PV.Options.Base.

(* ---------- key_lt is a strict weak order ---------- *)
Lemma key_lt_irrefl k : key_lt k k = false.
Proof.
  destruct k as [[a b] c]; unfold key_lt, bool_lt.
  destruct a; simpl; rewrite Z.ltb_irrefl, Z.eqb_refl, Z.ltb_irrefl; reflexivity.
Qed.

Lemma key_lt_trans k1 k2 k3 : key_lt k1 k2 = true -> key_lt k2 k3 = true -> key_lt k1 k3 = true.
Proof.
  destruct k1 as [[a1 b1] c1], k2 as [[a2 b2] c2], k3 as [[a3 b3] c3].
  unfold key_lt, bool_lt.
  destruct a1, a2, a3; simpl; try discriminate; try reflexivity;
  rewrite !orb_true_iff, !andb_true_iff, !Z.ltb_lt, !Z.eqb_eq; lia.
Qed.

(* negative transitivity: not (a<b) and not (b<c) -> not (a<c) *)
Lemma key_nlt_trans k1 k2 k3 : key_lt k1 k2 = false -> key_lt k2 k3 = false -> key_lt k1 k3 = false.
Proof.
  destruct k1 as [[a1 b1] c1], k2 as [[a2 b2] c2], k3 as [[a3 b3] c3].
  unfold key_lt, bool_lt.
  destruct a1, a2, a3; simpl; try discriminate; try reflexivity;
  rewrite !orb_false_iff, !andb_false_iff, !Z.ltb_ge, !Z.eqb_neq; lia.
Qed.

Lemma key_lt_asym k1 k2 : key_lt k1 k2 = true -> key_lt k2 k1 = false.
Proof.
  intros H. destruct (key_lt k2 k1) eqn:E; [|reflexivity].
  pose proof (key_lt_trans _ _ _ H E) as T. rewrite key_lt_irrefl in T. discriminate.
Qed.

Lemma key_lt_nlt_trans k1 k2 k3 : key_lt k1 k2 = true -> key_lt k3 k2 = false -> key_lt k1 k3 = true.
Proof.
  intros H1 H2. destruct (key_lt k1 k3) eqn:E; [reflexivity|].
  pose proof (key_nlt_trans _ _ _ H2 (key_lt_asym _ _ H1)) as T.
  (* k3 !< k2, k2 !< k1  => k3 !< k1; with k1 !< k3 and k1 < k2 ... *)
  pose proof (key_nlt_trans k1 k3 k2 E H2) as T2. congruence.
Qed.

Section Sorted.
  Context {A : Type} (kf : A -> key).

  (* "first minimum": the earliest element among those of minimal key *)
  Fixpoint best (l : list A) : option A :=
    match l with
    | [] => None
    | x :: l' =>
        match best l' with
        | None => Some x
        | Some y => if key_lt (kf y) (kf x) then Some y else Some x
        end
    end.

  (* sortedness: no later element is strictly smaller than an earlier one *)
  Fixpoint sorted (l : list A) : Prop :=
    match l with
    | [] => True
    | x :: l' => (forall y, In y l' -> key_lt (kf y) (kf x) = false) /\ sorted l'
    end.

  Lemma insert_In x l y : In y (insert kf x l) <-> y = x \/ In y l.
  Proof.
    induction l as [|z l IH]; simpl.
    - intuition.
    - destruct (key_lt (kf z) (kf x)); simpl; rewrite ?IH; intuition.
  Qed.

  Lemma insert_sorted x l : sorted l -> sorted (insert kf x l).
  Proof.
    induction l as [|z l IH]; simpl; intros Hs.
    - split; [intros y []|exact I].
    - destruct Hs as [Hz Hs]. destruct (key_lt (kf z) (kf x)) eqn:E; simpl.
      + split; [|apply IH; exact Hs].
        intros y Hy. apply insert_In in Hy. destruct Hy as [->|Hy].
        * apply key_lt_asym; exact E.
        * apply Hz; exact Hy.
      + split; [|split; assumption].
        intros y [<-|Hy]; [exact E|].
        apply key_nlt_trans with (k2 := kf z); [apply Hz; exact Hy|exact E].
  Qed.

  Lemma sort_by_sorted l : sorted (sort_by kf l).
  Proof. induction l as [|x l IH]; simpl; [exact I|apply insert_sorted; exact IH]. Qed.

  Lemma sort_by_In l y : In y (sort_by kf l) <-> In y l.
  Proof.
    induction l as [|x l IH]; simpl; [tauto|].
    rewrite insert_In, IH. intuition.
  Qed.

  (* filtering commutes with insertion into a sorted list *)
  Lemma filter_insert p x l : sorted l ->
    filter p (insert kf x l) = if p x then insert kf x (filter p l) else filter p l.
  Proof.
    induction l as [|z l IH]; simpl; intros Hs.
    - destruct (p x); reflexivity.
    - destruct Hs as [Hz Hs]. destruct (key_lt (kf z) (kf x)) eqn:E; simpl.
      + rewrite IH by exact Hs. destruct (p z), (p x); simpl; rewrite ?E; reflexivity.
      + destruct (p x) eqn:Px; simpl; rewrite ?Px.
        * destruct (p z) eqn:Pz; simpl; rewrite ?E; [reflexivity|].
          (* x goes in front of the first kept element: all of l are !< x *)
          assert (Hall : forall y, In y (filter p l) -> key_lt (kf y) (kf x) = false).
          { intros y Hy. apply filter_In in Hy. destruct Hy as [Hy _].
            apply key_nlt_trans with (k2 := kf z); [apply Hz; exact Hy|exact E]. }
          destruct (filter p l) as [|w r] eqn:F; simpl; [reflexivity|].
          rewrite (Hall w (or_introl eq_refl)). reflexivity.
        * reflexivity.
  Qed.

  Lemma filter_sort_by p l : filter p (sort_by kf l) = sort_by kf (filter p l).
  Proof.
    induction l as [|x l IH]; simpl; [reflexivity|].
    rewrite filter_insert by apply sort_by_sorted.
    destruct (p x); simpl; rewrite IH; reflexivity.
  Qed.

  Lemma hd_insert x l :
    hd_error (insert kf x l) =
    match hd_error l with
    | None => Some x
    | Some y => if key_lt (kf y) (kf x) then Some y else Some x
    end.
  Proof. destruct l as [|z l]; simpl; [reflexivity|]. destruct (key_lt (kf z) (kf x)); reflexivity. Qed.

  Lemma hd_sort_by l : hd_error (sort_by kf l) = best l.
  Proof. induction l as [|x l IH]; simpl; [reflexivity|]. rewrite hd_insert, IH. reflexivity. Qed.

  Lemma find_hd_filter (p : A -> bool) l : find p l = hd_error (filter p l).
  Proof. induction l as [|x l IH]; simpl; [reflexivity|]. destruct (p x); simpl; auto. Qed.

  (* the central fact *)
  Theorem find_sort_by p l : find p (sort_by kf l) = best (filter p l).
  Proof. rewrite find_hd_filter, filter_sort_by, hd_sort_by. reflexivity. Qed.

  (* characterisation of best: minimal, and earliest among the minimal *)
  Lemma best_None l : best l = None <-> l = [].
  Proof.
    destruct l as [|x l]; simpl; [tauto|].
    split; [|discriminate]. destruct (best l); [destruct (key_lt _ _)|]; discriminate.
  Qed.

  Lemma best_In l b : best l = Some b -> In b l.
  Proof.
    revert b; induction l as [|x l IH]; simpl; intros b H; [discriminate|].
    destruct (best l) as [y|] eqn:E.
    - destruct (key_lt (kf y) (kf x)); inversion H; subst; auto.
    - inversion H; auto.
  Qed.

  Lemma best_min l b : best l = Some b -> forall y, In y l -> key_lt (kf y) (kf b) = false.
  Proof.
    revert b; induction l as [|x l IH]; simpl; intros b H y Hy; [contradiction|].
    destruct (best l) as [m|] eqn:E.
    - specialize (IH m eq_refl).
      destruct (key_lt (kf m) (kf x)) eqn:L; inversion H; subst; clear H.
      + destruct Hy as [<-|Hy]; [apply key_lt_asym; exact L|apply IH; exact Hy].
      + destruct Hy as [<-|Hy]; [apply key_lt_irrefl|].
        apply key_nlt_trans with (k2 := kf m); [apply IH; exact Hy|exact L].
    - apply best_None in E. subst l. inversion H; subst.
      destruct Hy as [<-|[]]. apply key_lt_irrefl.
  Qed.

  (* earliest: l = pre ++ b :: post where every element of pre is strictly larger *)
  Lemma best_first l b : best l = Some b ->
    exists pre post, l = pre ++ b :: post /\ forall y, In y pre -> key_lt (kf b) (kf y) = true.
  Proof.
    revert b; induction l as [|x l IH]; simpl; intros b H; [discriminate|].
    destruct (best l) as [m|] eqn:E.
    - destruct (key_lt (kf m) (kf x)) eqn:L; inversion H; subst; clear H.
      + destruct (IH b eq_refl) as (pre & post & -> & Hpre).
        exists (x :: pre), post. split; [reflexivity|].
        intros y [<-|Hy]; [exact L|apply Hpre; exact Hy].
      + exists [], l. split; [reflexivity|intros y []].
    - inversion H; subst. exists [], l. split; [reflexivity|intros y []].
  Qed.
End Sorted.
