(* Proofs/OverloadConcrete.v — the one-union theorems instantiated with the C05
   binder model: binding is computed, not assumed. *)
From Coq Require Import List Bool NArith PeanoNat Lia.
Import ListNotations.
Require Import PV.Binder.Kind PV.Binder.Sig PV.Binder.Bind.
Require Import PV.Overload.Resolve PV.Overload.Concrete.
Require Import PV.Proofs.OverloadResolve PV.Proofs.OverloadUnion.

Lemma nodup_b_NoDup : forall l, nodup_b l = true -> NoDup l.
Proof.
  induction l as [|x r IH]; intros H; [constructor|].
  simpl in H. apply andb_true_iff in H. destruct H as [Hx Hr]. constructor; auto.
  intros Hin. apply negb_true_iff in Hx.
  assert (existsb (Nat.eqb x) r = true) by (apply existsb_exists; exists x; split; auto; apply Nat.eqb_refl).
  congruence.
Qed.

Lemma sig_guard_sound : forall p s,
  sig_guard_b p s = true -> os_binds s = true -> binds_once s /\ decomposable_at p s = true.
Proof.
  intros p s H B. unfold sig_guard_b in H. rewrite B in H. simpl in H.
  apply andb_true_iff in H. destruct H as [N D]. split; auto. unfold binds_once. now apply nodup_b_NoDup.
Qed.

Lemma guards_sound : forall p sigs,
  forallb (sig_guard_b p) sigs = true ->
  forall s, In s sigs -> os_binds s = true -> binds_once s /\ decomposable_at p s = true.
Proof.
  intros p sigs H s Hin B. rewrite forallb_forall in H. apply sig_guard_sound; auto.
Qed.

(* one union argument, binding computed by Binder.bind: the concrete resolver is
   the docstring's resolver on whole member tuples; the guard is decidable *)
Theorem concrete_one_union : forall cs a t p R,
  p < length t -> R <> [] ->
  forallb (sig_guard_b p) (map (osig_of a) cs) = true ->
  resolve_concrete cs a (upd p R (singletons t)) =
  ref_union (filter os_binds (map (osig_of a) cs)) t p R [] [] [].
Proof.
  intros cs a t p R Hp Hne Hg. unfold resolve_concrete. apply resolve_one_union; auto.
  apply guards_sound; auto.
Qed.

Theorem concrete_one_union_distributes : forall cs a t p R,
  p < length t -> R <> [] ->
  forallb (sig_guard_b p) (map (osig_of a) cs) = true ->
  (forall s m, In s (map (osig_of a) cs) -> In m R -> accepts s (upd p m t) <> ViaAny) ->
  (resolve_concrete cs a (upd p R (singletons t)) <> RErr <->
     forall m, In m R -> exists s, In s (map (osig_of a) cs) /\ accepts s (upd p m t) = Clean) /\
  (forall rs, resolve_concrete cs a (upd p R (singletons t)) = RTypes rs ->
     (forall m, In m R -> exists r, resolve_concrete cs a (singletons (upd p m t)) = RTypes [r] /\ In r rs) /\
     (forall r, In r rs -> exists m, In m R /\ resolve_concrete cs a (singletons (upd p m t)) = RTypes [r])).
Proof.
  intros cs a t p R Hp Hne Hg Hno. unfold resolve_concrete.
  destruct (one_union_distributes (map (osig_of a) cs) t p R Hp Hne (guards_sound _ _ Hg) Hno) as [A [_ C]].
  split; auto.
Qed.

(* a concrete instance: def f(x: T0, y=...) -> R0 ; def f(x: T1, *args) -> R1
   (parameter names x=1, y=2, args=3; member k is assignable exactly to type k) *)
Definition only (k : nat) : member -> outcome := fun m => if m =? k then Clean else Fail.
Definition ex_c1 : coverload :=
  mkCO [mkParam 1%N POK false; mkParam 2%N POK true] (fun n => if N.eqb n 1%N then only 0 else fun _ => Clean) 0.
Definition ex_c2 : coverload :=
  mkCO [mkParam 1%N POK false; mkParam 3%N VP false] (fun n => if N.eqb n 1%N then only 1 else fun _ => Clean) 1.
Definition call1 : actuals := mkActuals [true] false [] false false.
Definition call2 : actuals := mkActuals [true; true] false [] false false.
Definition callkw : actuals := mkActuals [] false [(1%N, true)] false false.
Definition call3 : actuals := mkActuals [true; true; true] false [] false false.

Lemma concrete_example :
  forallb (sig_guard_b 0) (map (osig_of call1) [ex_c1; ex_c2]) = true /\
  resolve_concrete [ex_c1; ex_c2] call1 [[0; 1]] = RTypes [0; 1] /\
  resolve_concrete [ex_c1; ex_c2] call2 [[0; 1]; [5]] = RTypes [0; 1] /\
  resolve_concrete [ex_c1; ex_c2] callkw [[0; 1]] = RTypes [0; 1] /\   (* f(x=...) : bound by keyword in both *)
  resolve_concrete [ex_c1; ex_c2] call3 [[0; 1]; [5]; [5]] = RErr /\
  forallb (sig_guard_b 1) (map (osig_of call2) [ex_c1; ex_c2]) = false.
Proof. repeat split; vm_compute; reflexivity. Qed.

(* a star call site f( *s ) with s : tuple[T, ...]: the element type is argument 0, bound to x (position ARGS,
   not decomposable) and, in the second overload, also collected by its star-args parameter *)
Definition callstar : actuals := mkActuals [] true [] false false.

Lemma concrete_star_example :
  resolve_concrete [ex_c1; ex_c2] callstar [[1]] = RTypes [1] /\
  resolve_concrete [ex_c1; ex_c2] callstar [[0]] = RTypes [0] /\
  resolve_concrete [ex_c1; ex_c2] callstar [[0; 1]] = RErr /\           (* a union element type is never decomposed *)
  forallb (sig_guard_b 0) (map (osig_of callstar) [ex_c1; ex_c2]) = false.
Proof. repeat split; vm_compute; reflexivity. Qed.
