(* Proofs/OverloadPins.v — obligations over the GENERATED file Gen/OverloadGen.v:
   (1) the function translated from OverloadedSignature._unite_rets is the model's unite_rets;
   (2) the regions of signature.py that Overload/Resolve.v mirrors still have the text the model
       was written for (digest of the normalised AST; see harness/translate/regions.py).
   When (2) fails, re-read the region, update the model / proofs if its behaviour changed, and
   only then update the digest here. *)
From Coq Require Import List Bool Arith String.
Import ListNotations.
Require Import PV.Overload.Resolve.
Require Import PV.Gen.OverloadGen.

Lemma gen_unite_rets_is_model : forall anys uanys unions clean,
  gen_unite_rets anys uanys unions clean = unite_rets anys uanys unions clean.
Proof.
  intros anys uanys unions clean. unfold gen_unite_rets, unite_rets.
  destruct anys as [|a anys], uanys as [|u uanys], unions as [|w unions], clean as [c|];
    cbn [is_nil negb orb andb opt_list app]; rewrite ?app_nil_r, ?andb_false_r, ?andb_true_r; try reflexivity;
    destruct (List.length (nodupn (a :: anys)) =? 1); reflexivity.
Qed.

(* pyanalyze/signature.py: OverloadedSignature.check_call *)
Lemma pin_check_call_ok : pin_check_call = "9c17f729297ee7fb5c6e"%string.
Proof. reflexivity. Qed.

(* pyanalyze/signature.py: Signature._check_param_type_compatibility *)
Lemma pin_check_param_type_compatibility_ok : pin_check_param_type_compatibility = "5c3d369084c1c8982755"%string.
Proof. reflexivity. Qed.

(* pyanalyze/signature.py: decompose_union *)
Lemma pin_decompose_union_ok : pin_decompose_union = "517296a58cc24e3365e7"%string.
Proof. reflexivity. Qed.

(* pyanalyze/signature.py: Signature.check_call_preprocessed *)
Lemma pin_check_call_preprocessed_ok : pin_check_call_preprocessed = "5957747f60b1a286a833"%string.
Proof. reflexivity. Qed.

(* pyanalyze/signature.py: Signature.check_call_with_bound_args, parameter loop *)
Lemma pin_param_loop_ok : pin_param_loop = "87e2c2641835264d487f"%string.
Proof. reflexivity. Qed.

(* pyanalyze/signature.py: Signature.check_call_with_bound_args, final CallReturn *)
Lemma pin_call_return_ok : pin_call_return = "bb3dfe633eb4c32f5de2"%string.
Proof. reflexivity. Qed.

