(* Proofs/OverloadPins.v — obligations over the GENERATED file Gen/OverloadGen.v:
   (1) the function translated from OverloadedSignature._unite_rets is the model's unite_rets;
   (2) the regions of signature.py that Overload/Resolve.v mirrors still have the text the model
       was written for (digest of the normalised AST; see harness/translate/regions.py).
   When (2) fails, re-read the region, update the model / proofs if its behaviour changed, and
   only then update the digest here. *)
From Coq Require Import List Bool Arith String.
Import ListNotations.
Require Import PV.Overload.Resolve.
Require Import PV.Gen.OverloadGen.

Lemma gen_unite_rets_is_model : forall anys uanys unions clean,
  gen_unite_rets anys uanys unions clean = unite_rets anys uanys unions clean.
Proof.
  intros anys uanys unions clean. unfold gen_unite_rets, unite_rets.
  destruct anys as [|a anys], uanys as [|u uanys], unions as [|w unions], clean as [c|];
    cbn [is_nil negb orb andb opt_list app]; rewrite ?app_nil_r, ?andb_false_r, ?andb_true_r; try reflexivity;
    destruct (List.length (nodupn (a :: anys)) =? 1); reflexivity.
Qed.

(* OverloadedSignature.check_call is no longer pinned: its loop is translated.
   [gen_is_overload], [gen_step], [gen_after_loop] are regenerated from the source
   (the `is_overload=` argument, the if-chain on `ret`, the code after the loop);
   the loop assembled from them is the model's [loop], so a behaviour-preserving
   edit of check_call re-proves and a behaviour-changing one breaks this lemma. *)
Fixpoint gen_loop (sigs : list osig) (args : list arg) (anys uanys unions : list rtype) : result :=
  match sigs with
  | [] => gen_after_loop anys uanys unions
  | s :: rest =>
      match gen_step args anys uanys unions (call_of (gen_is_overload (is_nil rest) anys) s args) with
      | LContinue args' a u un => gen_loop rest args' a u un
      | LReturn r => r
      end
  end.

Lemma gen_loop_is_model : forall sigs args anys uanys unions,
  gen_loop sigs args anys uanys unions = loop sigs args anys uanys unions.
Proof.
  induction sigs as [|s rest IH]; intros args anys uanys unions.
  - cbn [gen_loop loop]. unfold gen_after_loop. destruct anys as [|a l]; cbn [is_nil negb]; auto.
    apply gen_unite_rets_is_model.
  - cbn [gen_loop loop]. unfold gen_step, call_of, gen_is_overload.
    destruct (check_params (negb (is_nil rest) || negb (is_nil anys)) (os_params s) args false false None)
      as [[err ua] new].
    destruct err; cbn [cr_error cr_any cr_remaining cr_ret].
    + apply IH.
    + destruct new as [args'|]; cbn [opt_list is_nil negb]; destruct ua; try apply IH.
      apply gen_unite_rets_is_model.
Qed.

(* pyanalyze/signature.py: Signature._check_param_type_compatibility *)
Lemma pin_check_param_type_compatibility_ok : pin_check_param_type_compatibility = "5c3d369084c1c8982755"%string.
Proof. reflexivity. Qed.

(* pyanalyze/signature.py: decompose_union *)
Lemma pin_decompose_union_ok : pin_decompose_union = "517296a58cc24e3365e7"%string.
Proof. reflexivity. Qed.

(* pyanalyze/signature.py: Signature.check_call_preprocessed *)
Lemma pin_check_call_preprocessed_ok : pin_check_call_preprocessed = "5957747f60b1a286a833"%string.
Proof. reflexivity. Qed.

(* pyanalyze/signature.py: Signature.check_call_with_bound_args, parameter loop *)
Lemma pin_param_loop_ok : pin_param_loop = "87e2c2641835264d487f"%string.
Proof. reflexivity. Qed.

(* pyanalyze/signature.py: Signature.check_call_with_bound_args, final CallReturn *)
Lemma pin_call_return_ok : pin_call_return = "bb3dfe633eb4c32f5de2"%string.
Proof. reflexivity. Qed.

