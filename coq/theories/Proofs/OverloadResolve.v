(* Proofs/OverloadResolve.v — lemmas about Overload/Resolve.v *)
From Coq Require Import List Bool Arith PeanoNat Lia.
Import ListNotations.
Require Import PV.Overload.Resolve.

(* ---------- small facts -------------------------------------------------- *)

Lemma nth_singletons : forall t i,
  nth i (singletons t) [] = match nth_error t i with Some m => [m] | None => [] end.
Proof.
  induction t as [|x t IH]; intros [|i]; simpl; auto.
Qed.

Lemma check_param_single : forall iv p m,
  check_param iv p [m] =
  match bp_acc p m with Clean => PClean | ViaAny => PAny | Fail => PFail end.
Proof.
  intros iv p m. unfold check_param, passes. simpl.
  destruct (bp_acc p m); simpl; auto. destruct (iv && bp_dec p); reflexivity.
Qed.

Lemma check_param_nil : forall iv p, check_param iv p [] = PClean.
Proof. reflexivity. Qed.

Definition fail_of (ps : list bparam) (t : tuple) : bool :=
  existsb (fun p => is_fail (param_outcome p t)) ps.
Definition any_of (ps : list bparam) (t : tuple) : bool :=
  existsb (fun p => is_any (param_outcome p t)) ps.

Lemma params_outcome_char : forall ps t,
  params_outcome ps t = if fail_of ps t then Fail else if any_of ps t then ViaAny else Clean.
Proof.
  induction ps as [|p ps IH]; intros t; simpl; auto.
  rewrite IH. unfold fail_of, any_of. simpl.
  destruct (param_outcome p t); simpl;
    destruct (existsb (fun p0 => is_fail (param_outcome p0 t)) ps); simpl; auto;
    destruct (existsb (fun p0 => is_any (param_outcome p0 t)) ps); simpl; auto.
Qed.

Lemma fail_of_cons : forall p ps t, fail_of (p :: ps) t = is_fail (param_outcome p t) || fail_of ps t.
Proof. reflexivity. Qed.
Lemma any_of_cons : forall p ps t, any_of (p :: ps) t = is_any (param_outcome p t) || any_of ps t.
Proof. reflexivity. Qed.

Lemma check_params_unionfree : forall ps iv t err any new,
  check_params iv ps (singletons t) err any new =
  (err || fail_of ps t, any || any_of ps t, new).
Proof.
  induction ps as [|p ps IH]; intros iv t err any new.
  - unfold fail_of, any_of. simpl. now rewrite !orb_false_r.
  - rewrite fail_of_cons, any_of_cons. cbn [check_params]. rewrite nth_singletons.
    unfold param_outcome.
    destruct (nth_error t (bp_arg p)) as [m|] eqn:E.
    + rewrite check_param_single.
      destruct (bp_acc p m); cbn [is_fail is_any]; rewrite IH;
        destruct err, any, (fail_of ps t), (any_of ps t); reflexivity.
    + rewrite check_param_nil. cbn [is_fail is_any]. rewrite IH. reflexivity.
Qed.

(* ---------- union-free calls: the loop is the docstring's resolver ------- *)

Lemma unite_clean_only : forall anys r,
  unite_rets anys [] [] (Some r) = match anys with [] => RTypes [r] | _ => RAnyMulti end.
Proof.
  intros [|a l] r; unfold unite_rets; simpl; auto.
  now rewrite !andb_false_r.
Qed.

Lemma unite_anys_only : forall a l,
  unite_rets (a :: l) [] [] None =
  if length (nodupn (a :: l)) =? 1 then RTypes (nodupn (a :: l)) else RAnyMulti.
Proof.
  intros a l. unfold unite_rets. cbn [is_nil andb opt_list]. now rewrite !andb_true_r.
Qed.

Lemma loop_unionfree : forall sigs t anys,
  loop (filter os_binds sigs) (singletons t) anys [] [] = ref_unionfree sigs t anys.
Proof.
  induction sigs as [|s sigs IH]; intros t anys.
  - simpl. destruct anys as [|a l]; auto. apply unite_anys_only.
  - cbn [filter ref_unionfree]. unfold accepts. destruct (os_binds s) eqn:B.
    + cbn [loop]. rewrite check_params_unionfree. rewrite params_outcome_char. simpl.
      destruct (fail_of (os_params s) t); simpl.
      * apply IH.
      * destruct (any_of (os_params s) t); simpl.
        -- apply IH.
        -- apply unite_clean_only.
    + apply IH.
Qed.

Theorem resolve_unionfree : forall sigs t,
  resolve sigs (singletons t) = ref_unionfree sigs t [].
Proof. intros. apply loop_unionfree. Qed.

(* no Any anywhere: plain first match *)
Definition any_free (sigs : list osig) (t : tuple) : Prop :=
  forall s, In s sigs -> accepts s t <> ViaAny.

Lemma ref_unionfree_first_match : forall sigs t,
  any_free sigs t ->
  ref_unionfree sigs t [] =
  match first_clean sigs t with Some s => RTypes [os_ret s] | None => RErr end.
Proof.
  induction sigs as [|s sigs IH]; intros t H; simpl; auto.
  unfold first_clean. simpl.
  assert (Hs : accepts s t <> ViaAny) by (apply H; now left).
  destruct (accepts s t) eqn:E; try congruence; auto.
  apply IH. intros s' Hin. apply H. now right.
Qed.

Theorem first_match : forall sigs t,
  any_free sigs t ->
  resolve sigs (singletons t) =
  match first_clean sigs t with Some s => RTypes [os_ret s] | None => RErr end.
Proof. intros. rewrite resolve_unionfree. now apply ref_unionfree_first_match. Qed.

Lemma first_clean_none : forall sigs t,
  first_clean sigs t = None <-> forall s, In s sigs -> accepts s t <> Clean.
Proof.
  intros sigs t. unfold first_clean. split.
  - intros H s Hin E. apply (find_none _ _ H) in Hin. now rewrite E in Hin.
  - intros H. destruct (find _ sigs) eqn:F; auto.
    apply find_some in F. destruct F as [Hin E]. exfalso. apply (H _ Hin).
    destruct (accepts o t); auto; discriminate.
Qed.

Theorem diagnosed_iff_none_accepts : forall sigs t,
  any_free sigs t ->
  (resolve sigs (singletons t) = RErr <-> forall s, In s sigs -> accepts s t <> Clean).
Proof.
  intros sigs t H. rewrite first_match by auto. rewrite <- first_clean_none.
  destruct (first_clean sigs t); split; congruence.
Qed.

(* ---------- Any never selects one overload's type ------------------------- *)

(* the overloads the resolver looks at for a union-free call: every match up
   to and including the first clean one *)
Fixpoint considered (sigs : list osig) (t : tuple) : list osig :=
  match sigs with
  | [] => []
  | s :: rest =>
      match accepts s t with
      | Fail => considered rest t
      | ViaAny => s :: considered rest t
      | Clean => [s]
      end
  end.

Lemma two_distinct_not_single : forall l r1 r2,
  In r1 l -> In r2 l -> r1 <> r2 -> (length (nodupn l) =? 1) = false.
Proof.
  intros l r1 r2 H1 H2 Hd. apply Nat.eqb_neq. intros E.
  unfold nodupn in *. apply (nodup_In Nat.eq_dec) in H1. apply (nodup_In Nat.eq_dec) in H2.
  destruct (nodup Nat.eq_dec l) as [|x [|y l']]; simpl in *; try discriminate.
  destruct H1 as [<-|[]]. destruct H2 as [<-|[]]. congruence.
Qed.

Lemma ref_unionfree_two : forall sigs t anys r1 r2,
  In r1 (anys ++ map os_ret (considered sigs t)) ->
  In r2 (anys ++ map os_ret (considered sigs t)) ->
  r1 <> r2 -> ref_unionfree sigs t anys = RAnyMulti.
Proof.
  induction sigs as [|s rest IH]; intros t anys r1 r2 H1 H2 Hd.
  - simpl in *. rewrite app_nil_r in *. destruct anys as [|a l]; [contradiction|].
    now rewrite (two_distinct_not_single _ _ _ H1 H2 Hd).
  - cbn [ref_unionfree considered] in *. destruct (accepts s t).
    + destruct anys as [|a l]; auto. simpl in *.
      destruct H1 as [<-|[]]. destruct H2 as [<-|[]]. congruence.
    + apply (IH t (anys ++ [os_ret s]) r1 r2); auto; rewrite <- app_assoc; simpl; auto.
    + apply (IH t anys r1 r2); auto.
Qed.

Theorem any_never_selects : forall sigs t s1 s2,
  In s1 (considered sigs t) -> In s2 (considered sigs t) -> os_ret s1 <> os_ret s2 ->
  resolve sigs (singletons t) = RAnyMulti.
Proof.
  intros sigs t s1 s2 H1 H2 Hd. rewrite resolve_unionfree.
  apply (ref_unionfree_two sigs t [] (os_ret s1) (os_ret s2)); simpl; auto; now apply in_map.
Qed.

(* a selected type is the clean first match, or the common type of all matches *)
Lemma ref_unionfree_types : forall sigs t anys rs,
  ref_unionfree sigs t anys = RTypes rs ->
  exists r, rs = [r] /\ forall r', In r' (anys ++ map os_ret (considered sigs t)) -> r' = r.
Proof.
  induction sigs as [|s rest IH]; intros t anys rs H.
  - simpl in *. rewrite app_nil_r. destruct anys as [|a l]; try discriminate.
    destruct (length (nodupn (a :: l)) =? 1) eqn:E; try discriminate. inversion H; subst rs.
    apply Nat.eqb_eq in E. unfold nodupn in *.
    destruct (nodup Nat.eq_dec (a :: l)) as [|x [|y l']] eqn:En; simpl in E; try discriminate.
    exists x. split; auto. intros r' Hr. apply (nodup_In Nat.eq_dec) in Hr. rewrite En in Hr.
    destruct Hr as [<-|[]]; auto.
  - cbn [ref_unionfree considered] in *. destruct (accepts s t).
    + destruct anys as [|a l]; try discriminate. inversion H; subst rs. exists (os_ret s). split; auto.
      intros r' [<-|[]]; auto.
    + destruct (IH t _ rs H) as [r [E Hall]]. exists r. split; auto. intros r' Hr. apply Hall.
      rewrite <- app_assoc. exact Hr.
    + apply IH; auto.
Qed.

Theorem selected_type_is_common : forall sigs t rs,
  resolve sigs (singletons t) = RTypes rs ->
  exists r, rs = [r] /\ forall s, In s (considered sigs t) -> os_ret s = r.
Proof.
  intros sigs t rs H. rewrite resolve_unionfree in H.
  destruct (ref_unionfree_types _ _ _ _ H) as [r [E Hall]]. exists r. split; auto.
  intros s Hs. apply Hall. simpl. now apply in_map.
Qed.
