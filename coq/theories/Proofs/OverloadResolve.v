(* Proofs/OverloadResolve.v — lemmas about Overload/Resolve.v *)
From Coq Require Import List Bool Arith PeanoNat Lia.
Import ListNotations.
Require Import PV.Overload.Resolve.

(* ---------- small facts -------------------------------------------------- *)

Lemma nth_singletons : forall t i,
  nth i (singletons t) [] = match nth_error t i with Some m => [m] | None => [] end.
Proof.
  induction t as [|x t IH]; intros [|i]; simpl; auto.
Qed.

Lemma check_param_single : forall iv p m,
  check_param iv p [m] =
  match bp_acc p m with Clean => PClean | ViaAny => PAny | Fail => PFail end.
Proof.
  intros iv p m. unfold check_param, passes. simpl.
  destruct (bp_acc p m); simpl; auto. destruct (iv && bp_dec p); reflexivity.
Qed.

Lemma check_param_nil : forall iv p, check_param iv p [] = PClean.
Proof. reflexivity. Qed.

Definition fail_of (ps : list bparam) (t : tuple) : bool :=
  existsb (fun p => is_fail (param_outcome p t)) ps.
Definition any_of (ps : list bparam) (t : tuple) : bool :=
  existsb (fun p => is_any (param_outcome p t)) ps.

Lemma params_outcome_char : forall ps t,
  params_outcome ps t = if fail_of ps t then Fail else if any_of ps t then ViaAny else Clean.
Proof.
  induction ps as [|p ps IH]; intros t; simpl; auto.
  rewrite IH. unfold fail_of, any_of. simpl.
  destruct (param_outcome p t); simpl;
    destruct (existsb (fun p0 => is_fail (param_outcome p0 t)) ps); simpl; auto;
    destruct (existsb (fun p0 => is_any (param_outcome p0 t)) ps); simpl; auto.
Qed.

Lemma fail_of_cons : forall p ps t, fail_of (p :: ps) t = is_fail (param_outcome p t) || fail_of ps t.
Proof. reflexivity. Qed.
Lemma any_of_cons : forall p ps t, any_of (p :: ps) t = is_any (param_outcome p t) || any_of ps t.
Proof. reflexivity. Qed.

Lemma check_params_unionfree : forall ps iv t err any new,
  check_params iv ps (singletons t) err any new =
  (err || fail_of ps t, any || any_of ps t, new).
Proof.
  induction ps as [|p ps IH]; intros iv t err any new.
  - unfold fail_of, any_of. simpl. now rewrite !orb_false_r.
  - rewrite fail_of_cons, any_of_cons. cbn [check_params]. rewrite nth_singletons.
    unfold param_outcome.
    destruct (nth_error t (bp_arg p)) as [m|] eqn:E.
    + rewrite check_param_single.
      destruct (bp_acc p m); cbn [is_fail is_any]; rewrite IH;
        destruct err, any, (fail_of ps t), (any_of ps t); reflexivity.
    + rewrite check_param_nil. cbn [is_fail is_any]. rewrite IH. reflexivity.
Qed.

(* ---------- union-free calls: the loop is the docstring's resolver ------- *)

Lemma unite_clean_only : forall anys r,
  unite_rets anys [] [] (Some r) = match anys with [] => RTypes [r] | _ => RAnyMulti end.
Proof.
  intros [|a l] r; unfold unite_rets; simpl; auto.
  now rewrite !andb_false_r.
Qed.

Lemma unite_anys_only : forall a l,
  unite_rets (a :: l) [] [] None =
  if length (nodupn (a :: l)) =? 1 then RTypes (nodupn (a :: l)) else RAnyMulti.
Proof.
  intros a l. unfold unite_rets. cbn [is_nil andb opt_list]. now rewrite !andb_true_r.
Qed.

Lemma loop_unionfree : forall sigs t anys,
  loop (filter os_binds sigs) (singletons t) anys [] [] = ref_unionfree sigs t anys.
Proof.
  induction sigs as [|s sigs IH]; intros t anys.
  - simpl. destruct anys as [|a l]; auto. apply unite_anys_only.
  - cbn [filter ref_unionfree]. unfold accepts. destruct (os_binds s) eqn:B.
    + cbn [loop]. rewrite check_params_unionfree. rewrite params_outcome_char. simpl.
      destruct (fail_of (os_params s) t); simpl.
      * apply IH.
      * destruct (any_of (os_params s) t); simpl.
        -- apply IH.
        -- apply unite_clean_only.
    + apply IH.
Qed.

Theorem resolve_unionfree : forall sigs t,
  resolve sigs (singletons t) = ref_unionfree sigs t [].
Proof. intros. apply loop_unionfree. Qed.

(* no Any anywhere: plain first match *)
Definition any_free (sigs : list osig) (t : tuple) : Prop :=
  forall s, In s sigs -> accepts s t <> ViaAny.

Lemma ref_unionfree_first_match : forall sigs t,
  any_free sigs t ->
  ref_unionfree sigs t [] =
  match first_clean sigs t with Some s => RTypes [os_ret s] | None => RErr end.
Proof.
  induction sigs as [|s sigs IH]; intros t H; simpl; auto.
  unfold first_clean. simpl.
  assert (Hs : accepts s t <> ViaAny) by (apply H; now left).
  destruct (accepts s t) eqn:E; try congruence; auto.
  apply IH. intros s' Hin. apply H. now right.
Qed.

Theorem first_match : forall sigs t,
  any_free sigs t ->
  resolve sigs (singletons t) =
  match first_clean sigs t with Some s => RTypes [os_ret s] | None => RErr end.
Proof. intros. rewrite resolve_unionfree. now apply ref_unionfree_first_match. Qed.

Lemma first_clean_none : forall sigs t,
  first_clean sigs t = None <-> forall s, In s sigs -> accepts s t <> Clean.
Proof.
  intros sigs t. unfold first_clean. split.
  - intros H s Hin E. apply (find_none _ _ H) in Hin. now rewrite E in Hin.
  - intros H. destruct (find _ sigs) eqn:F; auto.
    apply find_some in F. destruct F as [Hin E]. exfalso. apply (H _ Hin).
    destruct (accepts o t); auto; discriminate.
Qed.

Theorem diagnosed_iff_none_accepts : forall sigs t,
  any_free sigs t ->
  (resolve sigs (singletons t) = RErr <-> forall s, In s sigs -> accepts s t <> Clean).
Proof.
  intros sigs t H. rewrite first_match by auto. rewrite <- first_clean_none.
  destruct (first_clean sigs t); split; congruence.
Qed.
