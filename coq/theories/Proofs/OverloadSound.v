(* Proofs/OverloadSound.v — soundness of acceptance for ANY number of union
   arguments: if the model accepts a call, every member tuple of the call is
   accepted (cleanly or through Any) by some overload.  No guard is needed. *)
From Coq Require Import List Bool Arith PeanoNat Lia.
Import ListNotations.
Require Import PV.Overload.Resolve.
Require Import PV.Proofs.OverloadResolve PV.Proofs.OverloadUnion.

Definition in_product (t : tuple) (args : list arg) : Prop := Forall2 (fun m a => In m a) t args.

Lemma in_product_nth : forall t args p m,
  in_product t args -> nth_error t p = Some m -> In m (nth p args []).
Proof.
  intros t args p m H. revert p. induction H as [|x a t args Hx H IH]; intros [|p] E; simpl in *; try discriminate.
  - inversion E; subst; auto.
  - apply IH; auto.
Qed.

Lemma in_product_upd : forall t args p rem,
  in_product t args -> (forall m, nth_error t p = Some m -> In m rem) -> in_product t (upd p rem args).
Proof.
  intros t args p rem H. revert p. induction H as [|x a t args Hx H IH]; intros [|p] Hm; simpl.
  - constructor.
  - constructor.
  - constructor; [apply Hm; reflexivity | exact H].
  - constructor; [exact Hx | apply IH; intros m E; apply Hm; exact E].
Qed.

Lemma in_product_upd_sub : forall t args p rem,
  in_product t (upd p rem args) -> (forall m, In m rem -> In m (nth p args [])) -> in_product t args.
Proof.
  intros t args p rem. revert t p. induction args as [|a args IH]; intros t [|p] H Hsub; simpl in *; auto.
  - inversion H; subst. constructor; auto.
  - inversion H; subst. constructor; auto. eapply IH; eauto.
Qed.

Lemma check_param_false_no_decomp : forall q a ua rem, check_param false q a <> PDecomp ua rem.
Proof.
  intros q a ua rem. unfold check_param. simpl.
  destruct (forallb _ a); [destruct (existsb _ a)|]; discriminate.
Qed.

Lemma check_params_false_new : forall ps args err any new e a n,
  check_params false ps args err any new = (e, a, n) -> n = new.
Proof.
  induction ps as [|q ps IH]; intros args err any new e a n H; simpl in H.
  - now inversion H.
  - destruct (check_param false q (nth (bp_arg q) args [])) as [| | |ua rem] eqn:E;
      try (eapply IH; eauto; fail).
    exfalso. eapply check_param_false_no_decomp; eauto.
Qed.

Lemma check_params_err_mono : forall ps iv args any new e a n,
  check_params iv ps args true any new = (e, a, n) -> e = true.
Proof.
  induction ps as [|q ps IH]; intros iv args any new e a n H; simpl in H.
  - now inversion H.
  - destruct (check_param iv q (nth (bp_arg q) args [])); eapply IH; eauto.
Qed.

Lemma check_param_pass_all : forall iv q a,
  (check_param iv q a = PClean \/ check_param iv q a = PAny) ->
  forall m, In m a -> passes (bp_acc q m) = true.
Proof.
  intros iv q a H. unfold check_param in H.
  destruct (forallb (fun m => passes (bp_acc q m)) a) eqn:E.
  - rewrite forallb_forall in E. exact E.
  - destruct (iv && bp_dec q); [destruct (filter _ a)|]; destruct H; discriminate.
Qed.

Lemma check_param_decomp_inv : forall iv q a ua rem,
  check_param iv q a = PDecomp ua rem ->
  rem = filter (fun m => is_fail (bp_acc q m)) a.
Proof.
  intros iv q a ua rem H. unfold check_param in H.
  destruct (forallb _ a); [destruct (existsb _ a); discriminate|].
  destruct (iv && bp_dec q); try discriminate.
  destruct (filter (fun m => passes (bp_acc q m)) a); try discriminate. now inversion H.
Qed.

Lemma param_passes_if : forall q t args,
  in_product t args ->
  (forall m, In m (nth (bp_arg q) args []) -> passes (bp_acc q m) = true) ->
  is_fail (param_outcome q t) = false.
Proof.
  intros q t args Hin Hall. unfold param_outcome.
  destruct (nth_error t (bp_arg q)) as [m|] eqn:E; auto.
  specialize (Hall m (in_product_nth _ _ _ _ Hin E)). unfold passes in Hall.
  now destruct (is_fail (bp_acc q m)).
Qed.

Lemma check_params_false_inv : forall ps args err any new e a n,
  check_params false ps args err any new = (e, a, n) -> e = false ->
  forall t, in_product t args -> fail_of ps t = false.
Proof.
  induction ps as [|q ps IH]; intros args err any new e a n H He t Ht; simpl in H.
  - reflexivity.
  - destruct (check_param false q (nth (bp_arg q) args [])) as [| | |ua rem] eqn:E.
    + assert (Hq : is_fail (param_outcome q t) = false).
      { eapply param_passes_if; [exact Ht|]. eapply check_param_pass_all; eauto. }
      rewrite fail_of_cons, Hq. simpl. eapply IH; eauto.
    + assert (Hq : is_fail (param_outcome q t) = false).
      { eapply param_passes_if; [exact Ht|]. eapply check_param_pass_all; eauto. }
      rewrite fail_of_cons, Hq. simpl. eapply IH; eauto.
    + apply check_params_err_mono in H. congruence.
    + exfalso. eapply check_param_false_no_decomp; eauto.
Qed.

(* the parameter loop: no error means every member tuple either passes all
   parameters of this signature, or is still in the product of the narrowed arguments *)
Lemma check_params_inv : forall ps iv args err any new e a n,
  check_params iv ps args err any new = (e, a, n) -> e = false ->
  err = false /\
  ((n = new /\ forall t, in_product t args -> fail_of ps t = false) \/
   (exists p rem, n = Some (upd p rem args) /\
      (forall m, In m rem -> In m (nth p args [])) /\
      forall t, in_product t args -> fail_of ps t = false \/ in_product t (upd p rem args))).
Proof.
  induction ps as [|q ps IH]; intros iv args err any new e a n H He; simpl in H.
  - inversion H; subst. split; auto.
  - destruct (check_param iv q (nth (bp_arg q) args [])) as [| | |ua rem] eqn:E.
    + destruct (IH _ _ _ _ _ _ _ _ H He) as [Herr Hcases]. split; auto.
      assert (Hq : forall t, in_product t args -> is_fail (param_outcome q t) = false).
      { intros t Ht. eapply param_passes_if; eauto. eapply check_param_pass_all; eauto. }
      destruct Hcases as [[Hn Hall]|[p [rem [Hn [Hsub Hall]]]]].
      * left. split; auto. intros t Ht. rewrite fail_of_cons, Hq, Hall; auto.
      * right. exists p, rem. repeat split; auto. intros t Ht.
        destruct (Hall t Ht) as [Hf|Hp]; auto. left. rewrite fail_of_cons, Hq, Hf; auto.
    + destruct (IH _ _ _ _ _ _ _ _ H He) as [Herr Hcases]. split; auto.
      assert (Hq : forall t, in_product t args -> is_fail (param_outcome q t) = false).
      { intros t Ht. eapply param_passes_if; eauto. eapply check_param_pass_all; eauto. }
      destruct Hcases as [[Hn Hall]|[p [rem [Hn [Hsub Hall]]]]].
      * left. split; auto. intros t Ht. rewrite fail_of_cons, Hq, Hall; auto.
      * right. exists p, rem. repeat split; auto. intros t Ht.
        destruct (Hall t Ht) as [Hf|Hp]; auto. left. rewrite fail_of_cons, Hq, Hf; auto.
    + apply check_params_err_mono in H. congruence.
    + pose proof (check_params_false_new _ _ _ _ _ _ _ _ H) as Hn.
      destruct (IH _ _ _ _ _ _ _ _ H He) as [Herr Hcases]. split; auto.
      pose proof (check_param_decomp_inv _ _ _ _ _ E) as Hrem.
      assert (Hrest : forall t, in_product t args -> fail_of ps t = false).
      { intros t Ht. eapply check_params_false_inv; eauto. }
      right. exists (bp_arg q), rem. repeat split; auto.
      * intros m Hm. rewrite Hrem in Hm. apply filter_In in Hm. tauto.
      * intros t Ht. destruct (nth_error t (bp_arg q)) as [m|] eqn:En.
        -- destruct (is_fail (bp_acc q m)) eqn:Ef.
           ++ right. apply in_product_upd; auto. intros m' Em'. rewrite En in Em'. inversion Em'; subst m'.
              rewrite Hrem. apply filter_In. split; auto. eapply in_product_nth; eauto.
           ++ left. rewrite fail_of_cons. unfold param_outcome. rewrite En, Ef. simpl. auto.
        -- left. rewrite fail_of_cons. unfold param_outcome. rewrite En. simpl. auto.
Qed.

Lemma loop_sound : forall sigs args anys uanys unions (P : tuple -> Prop),
  (anys <> [] -> forall t, in_product t args -> P t) ->
  loop sigs args anys uanys unions <> RErr ->
  forall t, in_product t args -> P t \/ exists s, In s sigs /\ fail_of (os_params s) t = false.
Proof.
  induction sigs as [|s rest IH]; intros args anys uanys unions P HP Hne t Ht.
  - simpl in Hne. destruct anys as [|x l]; [congruence|]. left. apply HP; auto. discriminate.
  - cbn [loop] in Hne.
    destruct (check_params (negb (is_nil rest) || negb (is_nil anys)) (os_params s) args false false None)
      as [[e a'] n] eqn:E.
    destruct e.
    + destruct (IH _ _ _ _ P HP Hne t Ht) as [Hp|[s' [Hin Hf]]]; auto.
      right. exists s'. split; auto. now right.
    + destruct (check_params_inv _ _ _ _ _ _ _ _ _ E eq_refl) as [_ [[Hn Hall]|[p [rem [Hn [Hsub Hall]]]]]].
      * right. exists s. split; [now left|]. apply Hall; auto.
      * subst n. destruct (Hall t Ht) as [Hf|Hp'].
        -- right. exists s. split; [now left|auto].
        -- assert (HP' : anys <> [] -> forall t0, in_product t0 (upd p rem args) -> P t0).
           { intros Ha t0 Ht0. apply HP; auto. eapply in_product_upd_sub; eauto. }
           destruct a'.
           ++ destruct (IH _ _ _ _ P HP' Hne t Hp') as [Hp|[s' [Hin Hf]]]; auto.
              right. exists s'. split; auto. now right.
           ++ destruct (IH _ _ _ _ P HP' Hne t Hp') as [Hp|[s' [Hin Hf]]]; auto.
              right. exists s'. split; auto. now right.
Qed.

(* accepted calls are sound for any number of union arguments *)
Theorem resolve_sound : forall sigs args,
  resolve sigs args <> RErr ->
  forall t, in_product t args -> exists s, In s sigs /\ accepts s t <> Fail.
Proof.
  intros sigs args H t Ht. unfold resolve in H.
  destruct (loop_sound _ _ _ _ _ (fun _ => False) (fun Hc _ _ => False_ind _ (Hc eq_refl)) H t Ht)
    as [[]|[s [Hin Hf]]].
  apply filter_In in Hin. destruct Hin as [Hin B]. exists s. split; auto.
  unfold accepts. rewrite B, params_outcome_char, Hf. destruct (any_of (os_params s) t); discriminate.
Qed.
