(* Proofs/OverloadUnion.v — calls with one union argument: the parameter-wise
   loop of the model equals the docstring's resolver on whole member tuples. *)
From Coq Require Import List Bool Arith PeanoNat Lia.
Import ListNotations.
Require Import PV.Overload.Resolve.
Require Import PV.Proofs.OverloadResolve.

(* ---------- upd ---------------------------------------------------------- *)

Lemma length_upd : forall (A : Type) p (x : A) l, length (upd p x l) = length l.
Proof. intros A p x l. revert p. induction l as [|y l IH]; intros [|p]; simpl; auto. Qed.

Lemma nth_upd_same : forall (A : Type) p (x d : A) l, p < length l -> nth p (upd p x l) d = x.
Proof.
  intros A p x d l. revert p. induction l as [|y l IH]; intros [|p] H; simpl in *; try lia; auto.
  apply IH. lia.
Qed.

Lemma nth_upd_other : forall (A : Type) p q (x d : A) l, q <> p -> nth q (upd p x l) d = nth q l d.
Proof.
  intros A p q x d l. revert p q. induction l as [|y l IH]; intros [|p] [|q] H; simpl; auto; try congruence.
Qed.

Lemma nth_error_upd_same : forall (A : Type) p (x : A) l, p < length l -> nth_error (upd p x l) p = Some x.
Proof.
  intros A p x l. revert p. induction l as [|y l IH]; intros [|p] H; simpl in *; try lia; auto.
  apply IH. lia.
Qed.

Lemma nth_error_upd_other : forall (A : Type) p q (x : A) l, q <> p -> nth_error (upd p x l) q = nth_error l q.
Proof.
  intros A p q x l. revert p q. induction l as [|y l IH]; intros [|p] [|q] H; simpl; auto; try congruence.
Qed.

Lemma upd_upd : forall (A : Type) p (x y : A) l, upd p x (upd p y l) = upd p x l.
Proof. intros A p x y l. revert p. induction l as [|z l IH]; intros [|p]; simpl; auto. now rewrite IH. Qed.

Lemma singletons_upd : forall p m t, singletons (upd p m t) = upd p [m] (singletons t).
Proof. intros p m t. revert p. induction t as [|x t IH]; intros [|p]; simpl; auto. now rewrite IH. Qed.

Lemma length_singletons : forall t, length (singletons t) = length t.
Proof. intros. unfold singletons. apply map_length. Qed.

(* ---------- the parameter bound to the union argument --------------------- *)

Definition at_p (p : nat) (q : bparam) : bool := bp_arg q =? p.
Definition others (ps : list bparam) (p : nat) : list bparam := filter (fun q => negb (at_p p q)) ps.
Definition the_param (ps : list bparam) (p : nat) : bparam :=
  match find (at_p p) ps with Some q => q | None => mkBP p true (fun _ => Clean) end.

Lemma param_outcome_other : forall q p m t, bp_arg q <> p -> param_outcome q (upd p m t) = param_outcome q t.
Proof. intros. unfold param_outcome. now rewrite nth_error_upd_other. Qed.

Lemma param_outcome_same : forall q p m t, bp_arg q = p -> p < length t -> param_outcome q (upd p m t) = bp_acc q m.
Proof. intros q p m t E H. unfold param_outcome. rewrite E. now rewrite nth_error_upd_same. Qed.

Lemma find_none_others : forall ps p, find (at_p p) ps = None -> others ps p = ps.
Proof.
  induction ps as [|a ps IH]; intros p H; simpl in *; auto.
  unfold others in *. simpl. destruct (at_p p a); try discriminate. simpl. now rewrite IH.
Qed.

Lemma nodup_no_more : forall a ps, NoDup (map bp_arg (a :: ps)) -> find (at_p (bp_arg a)) ps = None.
Proof.
  intros a ps H. inversion H as [|x l Hn Hd]; subst.
  destruct (find (at_p (bp_arg a)) ps) eqn:F; auto.
  apply find_some in F. destruct F as [Hin E]. unfold at_p in E. apply Nat.eqb_eq in E.
  exfalso. apply Hn. rewrite <- E. now apply in_map.
Qed.

(* parameters that do not look at position p behave as on the union-free tuple *)
Lemma check_params_others : forall ps iv p R t err any new,
  find (at_p p) ps = None ->
  check_params iv ps (upd p R (singletons t)) err any new =
  (err || fail_of ps t, any || any_of ps t, new).
Proof.
  induction ps as [|a ps IH]; intros iv p R t err any new H.
  - unfold fail_of, any_of. simpl. now rewrite !orb_false_r.
  - simpl in H. destruct (at_p p a) eqn:E; try discriminate.
    unfold at_p in E. apply Nat.eqb_neq in E.
    rewrite fail_of_cons, any_of_cons. cbn [check_params].
    rewrite nth_upd_other by auto. rewrite nth_singletons. unfold param_outcome.
    destruct (nth_error t (bp_arg a)) as [m|] eqn:En.
    + rewrite check_param_single.
      destruct (bp_acc a m); cbn [is_fail is_any]; rewrite IH by auto;
        destruct err, any, (fail_of ps t), (any_of ps t); reflexivity.
    + rewrite check_param_nil. cbn [is_fail is_any]. rewrite IH by auto. reflexivity.
Qed.

Definition combine_res (r : pres) (p : nat) (args : list arg) (e a : bool) (n : option (list arg))
  : bool * bool * option (list arg) :=
  match r with
  | PClean => (e, a, n)
  | PAny => (e, true, n)
  | PFail => (true, a, n)
  | PDecomp ua rem => (e, a || ua, Some (upd p rem args))
  end.

Lemma forallb_const_true : forall (A : Type) (l : list A), forallb (fun _ => true) l = true.
Proof. induction l; simpl; auto. Qed.
Lemma existsb_const_false : forall (A : Type) (l : list A), existsb (fun _ => false) l = false.
Proof. induction l; simpl; auto. Qed.

Lemma check_param_default : forall iv p R, check_param iv (mkBP p true (fun _ => Clean)) R = PClean.
Proof.
  intros. unfold check_param. cbn [bp_acc passes is_fail is_any negb].
  now rewrite forallb_const_true, existsb_const_false.
Qed.

Lemma check_params_one_union : forall ps iv p R t err any new,
  NoDup (map bp_arg ps) -> p < length t ->
  check_params iv ps (upd p R (singletons t)) err any new =
  combine_res (check_param iv (the_param ps p) R) p (upd p R (singletons t))
              (err || fail_of (others ps p) t) (any || any_of (others ps p) t) new.
Proof.
  induction ps as [|a ps IH]; intros iv p R t err any new ND Hp.
  - unfold the_param. simpl. rewrite check_param_default. unfold fail_of, any_of. simpl.
    now rewrite !orb_false_r.
  - unfold the_param, others. cbn [find filter]. destruct (at_p p a) eqn:E.
    + (* a is the parameter bound to the union argument *)
      unfold at_p in E. apply Nat.eqb_eq in E. subst p.
      pose proof (nodup_no_more _ _ ND) as Hnone.
      cbn [negb]. fold (others ps (bp_arg a)). rewrite (find_none_others _ _ Hnone).
      cbn [check_params]. rewrite nth_upd_same by (rewrite length_singletons; auto).
      destruct (check_param iv a R) as [| | |ua rem]; cbn [combine_res];
        rewrite check_params_others by auto;
        destruct err, any, (fail_of ps t), (any_of ps t); try destruct ua; reflexivity.
    + cbn [negb]. fold (others ps p). fold (the_param ps p).
      unfold at_p in E. apply Nat.eqb_neq in E.
      rewrite fail_of_cons, any_of_cons. cbn [check_params].
      rewrite nth_upd_other by auto. rewrite nth_singletons. unfold param_outcome.
      inversion ND as [|x l Hn Hd]; subst.
      destruct (nth_error t (bp_arg a)) as [m|] eqn:En.
      * rewrite check_param_single.
        destruct (bp_acc a m); cbn [is_fail is_any]; rewrite IH by auto;
          destruct (check_param iv (the_param ps p) R) as [| | |ua rem]; cbn [combine_res];
          destruct err, any, (fail_of (others ps p) t), (any_of (others ps p) t); try destruct ua; reflexivity.
      * rewrite check_param_nil. cbn [is_fail is_any]. rewrite IH by auto.
        destruct (check_param iv (the_param ps p) R) as [| | |ua rem]; cbn [combine_res];
          destruct err, any, (fail_of (others ps p) t), (any_of (others ps p) t); try destruct ua; reflexivity.
Qed.

(* the same split on the specification side *)
Lemma fail_of_upd : forall ps p m t,
  NoDup (map bp_arg ps) -> p < length t ->
  fail_of ps (upd p m t) = fail_of (others ps p) t || is_fail (bp_acc (the_param ps p) m).
Proof.
  induction ps as [|a ps IH]; intros p m t ND Hp.
  - reflexivity.
  - unfold the_param, others. cbn [find filter]. rewrite fail_of_cons. destruct (at_p p a) eqn:E.
    + unfold at_p in E. apply Nat.eqb_eq in E. subst p.
      pose proof (nodup_no_more _ _ ND) as Hnone. cbn [negb]. fold (others ps (bp_arg a)).
      rewrite (find_none_others _ _ Hnone).
      rewrite param_outcome_same by auto.
      inversion ND as [|x l Hn Hd]; subst.
      rewrite IH by auto. rewrite (find_none_others _ _ Hnone). unfold the_param. rewrite Hnone. simpl.
      destruct (is_fail (bp_acc a m)), (fail_of ps t); reflexivity.
    + cbn [negb]. fold (others ps p). fold (the_param ps p). rewrite fail_of_cons.
      unfold at_p in E. apply Nat.eqb_neq in E. rewrite param_outcome_other by auto.
      inversion ND as [|x l Hn Hd]; subst. rewrite IH by auto.
      destruct (is_fail (param_outcome a t)), (fail_of (others ps p) t); reflexivity.
Qed.

Lemma any_of_upd : forall ps p m t,
  NoDup (map bp_arg ps) -> p < length t ->
  any_of ps (upd p m t) = any_of (others ps p) t || is_any (bp_acc (the_param ps p) m).
Proof.
  induction ps as [|a ps IH]; intros p m t ND Hp.
  - reflexivity.
  - unfold the_param, others. cbn [find filter]. rewrite any_of_cons. destruct (at_p p a) eqn:E.
    + unfold at_p in E. apply Nat.eqb_eq in E. subst p.
      pose proof (nodup_no_more _ _ ND) as Hnone. cbn [negb]. fold (others ps (bp_arg a)).
      rewrite (find_none_others _ _ Hnone).
      rewrite param_outcome_same by auto.
      inversion ND as [|x l Hn Hd]; subst.
      rewrite IH by auto. rewrite (find_none_others _ _ Hnone). unfold the_param. rewrite Hnone. simpl.
      destruct (is_any (bp_acc a m)), (any_of ps t); reflexivity.
    + cbn [negb]. fold (others ps p). fold (the_param ps p). rewrite any_of_cons.
      unfold at_p in E. apply Nat.eqb_neq in E. rewrite param_outcome_other by auto.
      inversion ND as [|x l Hn Hd]; subst. rewrite IH by auto.
      destruct (is_any (param_outcome a t)), (any_of (others ps p) t); reflexivity.
Qed.

Lemma accepts_upd : forall s p m t,
  os_binds s = true -> binds_once s -> p < length t ->
  accepts s (upd p m t) =
  let f := bp_acc (the_param (os_params s) p) m in
  if fail_of (others (os_params s) p) t || is_fail f then Fail
  else if any_of (others (os_params s) p) t || is_any f then ViaAny else Clean.
Proof.
  intros s p m t B ND Hp. unfold accepts. rewrite B. rewrite params_outcome_char.
  rewrite fail_of_upd, any_of_upd by auto. reflexivity.
Qed.

(* ---------- list helpers -------------------------------------------------- *)

Lemma forallb_ext' : forall (A : Type) (f g : A -> bool) l, (forall x, f x = g x) -> forallb f l = forallb g l.
Proof. intros A f g l H. induction l as [|a l IH]; simpl; auto. now rewrite H, IH. Qed.
Lemma existsb_ext' : forall (A : Type) (f g : A -> bool) l, (forall x, f x = g x) -> existsb f l = existsb g l.
Proof. intros A f g l H. induction l as [|a l IH]; simpl; auto. now rewrite H, IH. Qed.
Lemma filter_ext' : forall (A : Type) (f g : A -> bool) l, (forall x, f x = g x) -> filter f l = filter g l.
Proof. intros A f g l H. induction l as [|a l IH]; simpl; auto. now rewrite H, IH. Qed.

Lemma forallb_const_false : forall (A : Type) (l : list A), l <> [] -> forallb (fun _ => false) l = false.
Proof. intros A [|a l] H; simpl; congruence. Qed.
Lemma filter_const_false : forall (A : Type) (l : list A), filter (fun _ => false) l = [].
Proof. induction l; simpl; auto. Qed.
Lemma forallb_filter_self : forall (A : Type) (g : A -> bool) l, forallb g (filter g l) = true.
Proof. intros A g l. induction l as [|a l IH]; simpl; auto. destruct (g a) eqn:E; simpl; auto. now rewrite E. Qed.

Lemma existsb_any_split : forall (f : member -> outcome) ao l,
  l <> [] -> forallb (fun m => passes (f m)) l = true ->
  existsb (fun m => passes (f m) && (ao || is_any (f m))) l = ao || existsb (fun m => is_any (f m)) l.
Proof.
  intros f ao l. induction l as [|a l IH]; intros Hne Hall; try congruence.
  simpl in *. apply andb_true_iff in Hall. destruct Hall as [Ha Hl]. rewrite Ha. simpl.
  destruct l as [|b l'].
  - simpl. destruct ao, (is_any (f a)); reflexivity.
  - rewrite IH by (auto; congruence). destruct ao, (is_any (f a)); simpl; auto.
Qed.

Lemma filter_fail_nonempty : forall (f : member -> outcome) l,
  forallb (fun m => passes (f m)) l = false -> filter (fun m => is_fail (f m)) l <> [].
Proof.
  intros f l. induction l as [|a l IH]; simpl; intros H; try discriminate.
  unfold passes in H. destruct (is_fail (f a)); simpl in *; try congruence. auto.
Qed.

(* ---------- the main refinement ------------------------------------------ *)

Definition sig_ok (p : nat) (s : osig) : Prop :=
  os_binds s = true /\ binds_once s /\ decomposable_at p s = true.

Lemma the_param_dec : forall s p, decomposable_at p s = true -> bp_dec (the_param (os_params s) p) = true.
Proof.
  intros s p H. unfold decomposable_at in H. unfold the_param.
  destruct (find (at_p p) (os_params s)) eqn:F; auto.
  apply find_some in F. destruct F as [Hin E]. rewrite forallb_forall in H. specialize (H _ Hin).
  unfold at_p in E. rewrite E in H. simpl in H. exact H.
Qed.

Lemma loop_one_union : forall sigs t p R anys uanys unions,
  p < length t -> R <> [] -> Forall (sig_ok p) sigs ->
  loop sigs (upd p R (singletons t)) anys uanys unions = ref_union sigs t p R anys uanys unions.
Proof.
  induction sigs as [|s rest IH]; intros t p R anys uanys unions Hp Hne Hok.
  - reflexivity.
  - inversion Hok as [|x l [B [ND DEC]] Hrest]; subst.
    cbn [loop ref_union]. rewrite check_params_one_union by auto.
    pose proof (the_param_dec _ _ DEC) as Hd.
    set (q := the_param (os_params s) p) in *.
    set (eo := fail_of (others (os_params s) p) t).
    set (ao := any_of (others (os_params s) p) t).
    assert (Hout : forall m, accepts s (upd p m t) =
              if eo || is_fail (bp_acc q m) then Fail
              else if ao || is_any (bp_acc q m) then ViaAny else Clean).
    { intros m. rewrite accepts_upd by auto. reflexivity. }
    destruct eo eqn:Eeo.
    + (* another parameter already fails: every member tuple fails *)
      rewrite (forallb_ext' _ _ (fun _ => false)) by (intros m; rewrite Hout; reflexivity).
      rewrite forallb_const_false by auto.
      rewrite (filter_ext' _ (fun m => passes (accepts s (upd p m t))) (fun _ => false)) by (intros m; rewrite Hout; reflexivity).
      rewrite filter_const_false.
      destruct (check_param _ q R) as [| | |ua rem]; cbn [combine_res orb]; apply IH; auto.
    + assert (Hpass : forall m, passes (accepts s (upd p m t)) = passes (bp_acc q m)).
      { intros m. rewrite Hout. simpl. destruct (bp_acc q m), ao; reflexivity. }
      assert (Hfail : forall m, is_fail (accepts s (upd p m t)) = is_fail (bp_acc q m)).
      { intros m. rewrite Hout. simpl. destruct (bp_acc q m), ao; reflexivity. }
      assert (Hany : forall m, is_any (accepts s (upd p m t)) = passes (bp_acc q m) && (ao || is_any (bp_acc q m))).
      { intros m. rewrite Hout. simpl. destruct (bp_acc q m), ao; reflexivity. }
      rewrite (forallb_ext' _ _ _ R Hpass).
      rewrite (filter_ext' _ _ _ R Hpass).
      rewrite (filter_ext' _ _ _ R Hfail).
      unfold check_param. rewrite Hd, andb_true_r.
      destruct (forallb (fun m => passes (bp_acc q m)) R) eqn:Eall.
      * rewrite (existsb_ext' _ _ _ R Hany). rewrite existsb_any_split by auto.
        destruct (existsb (fun m => is_any (bp_acc q m)) R), ao; cbn [combine_res orb];
          try reflexivity; apply IH; auto.
      * destruct (filter (fun m => passes (bp_acc q m)) R) as [|x l] eqn:Ef.
        -- destruct (negb (is_nil rest) || negb (is_nil anys)); cbn [combine_res orb]; apply IH; auto.
        -- assert (Hm : forallb (fun m => passes (bp_acc q m)) (x :: l) = true).
           { rewrite <- Ef. apply forallb_filter_self. }
           rewrite (existsb_ext' _ _ _ (x :: l) Hany). rewrite existsb_any_split by (auto; congruence).
           pose proof (filter_fail_nonempty _ _ Eall) as Hrem.
           destruct (is_nil rest), (is_nil anys); cbn [negb orb andb combine_res].
           ++ apply IH; auto.
           ++ rewrite upd_upd.
              destruct (existsb (fun m => is_any (bp_acc q m)) (x :: l)), ao; cbn [orb]; apply IH; auto.
           ++ rewrite upd_upd.
              destruct (existsb (fun m => is_any (bp_acc q m)) (x :: l)), ao; cbn [orb]; apply IH; auto.
           ++ rewrite upd_upd.
              destruct (existsb (fun m => is_any (bp_acc q m)) (x :: l)), ao; cbn [orb]; apply IH; auto.
Qed.

Theorem resolve_one_union : forall sigs t p R,
  p < length t -> R <> [] ->
  (forall s, In s sigs -> os_binds s = true -> binds_once s /\ decomposable_at p s = true) ->
  resolve sigs (upd p R (singletons t)) = ref_union (filter os_binds sigs) t p R [] [] [].
Proof.
  intros sigs t p R Hp Hne H. unfold resolve. apply loop_one_union; auto.
  apply Forall_forall. intros s Hin. apply filter_In in Hin. destruct Hin as [Hin B].
  destruct (H s Hin B) as [ND DEC]. repeat split; auto.
Qed.

(* ---------- no Any: accepted iff every member is accepted; the type is the
   union of the members' own results ---------------------------------------- *)

Definition noany (sigs : list osig) (t : tuple) (p : nat) (R : list member) : Prop :=
  forall s m, In s sigs -> In m R -> accepts s (upd p m t) <> ViaAny.

Lemma existsb_all_false : forall (A : Type) (g : A -> bool) l,
  (forall x, In x l -> g x = false) -> existsb g l = false.
Proof.
  intros A g l. induction l as [|a l IH]; intros H; simpl; auto.
  rewrite H by (now left). simpl. apply IH. intros x Hx. apply H. now right.
Qed.

Lemma filter_nil_all : forall (A : Type) (g : A -> bool) l,
  filter g l = [] -> forall x, In x l -> g x = false.
Proof.
  intros A g l. induction l as [|a l IH]; intros H x Hx; simpl in *; try contradiction.
  destruct (g a) eqn:E; try discriminate. destruct Hx as [->|Hx]; auto.
Qed.

Lemma forallb_false_ex : forall (A : Type) (g : A -> bool) l,
  forallb g l = false -> exists x, In x l /\ g x = false.
Proof.
  intros A g l. induction l as [|a l IH]; simpl; intros H; try discriminate.
  destruct (g a) eqn:E.
  - simpl in H. destruct (IH H) as [x [Hx Hg]]. exists x. split; auto.
  - exists a. split; auto.
Qed.

Lemma unite_unions_clean : forall u r, unite_rets [] [] u (Some r) = RTypes (nodupn (u ++ [r])).
Proof. intros [|a u] r; reflexivity. Qed.

Lemma first_clean_cons_clean : forall s rest t, accepts s t = Clean -> first_clean (s :: rest) t = Some s.
Proof. intros s rest t E. unfold first_clean. simpl. now rewrite E. Qed.

Lemma first_clean_cons_fail : forall s rest t, accepts s t = Fail -> first_clean (s :: rest) t = first_clean rest t.
Proof. intros s rest t E. unfold first_clean. simpl. now rewrite E. Qed.

Lemma passes_noany_clean : forall o, passes o = true -> o <> ViaAny -> o = Clean.
Proof. intros [] H1 H2; auto; try discriminate; congruence. Qed.

Lemma not_passes_fail : forall o, passes o = false -> o = Fail.
Proof. intros [] H; auto; discriminate. Qed.

Lemma is_fail_fail : forall o, is_fail o = true -> o = Fail.
Proof. intros [] H; auto; discriminate. Qed.

Lemma ref_union_noany : forall sigs t p R unions,
  R <> [] -> noany sigs t p R ->
  match ref_union sigs t p R [] [] unions with
  | RErr => exists m, In m R /\ forall s, In s sigs -> accepts s (upd p m t) <> Clean
  | RAnyMulti => False
  | RTypes rs =>
      (forall m, In m R -> exists s, first_clean sigs (upd p m t) = Some s /\ In (os_ret s) rs) /\
      (forall r, In r rs -> In r unions \/
                 exists m s, In m R /\ first_clean sigs (upd p m t) = Some s /\ os_ret s = r) /\
      (forall r, In r unions -> In r rs)
  end.
Proof.
  induction sigs as [|s rest IH]; intros t p R unions Hne Hno.
  - simpl. destruct R as [|m R]; try congruence. exists m. split; [now left|]. intros s [].
  - cbn [ref_union].
    assert (Hno_rest : forall R', (forall m, In m R' -> In m R) -> noany rest t p R').
    { intros R' Hsub s' m Hs' Hm. apply Hno; [now right|auto]. }
    assert (Hs_noany : forall m, In m R -> accepts s (upd p m t) <> ViaAny).
    { intros m Hm. apply Hno; auto. now left. }
    assert (Hex_false : forall l, (forall m, In m l -> In m R) ->
              existsb (fun m => is_any (accepts s (upd p m t))) l = false).
    { intros l Hsub. apply existsb_all_false. intros m Hm. specialize (Hs_noany m (Hsub m Hm)).
      destruct (accepts s (upd p m t)); auto; congruence. }
    destruct (forallb (fun m => passes (accepts s (upd p m t))) R) eqn:Eall.
    + (* every member is accepted by s *)
      rewrite Hex_false by auto. rewrite unite_unions_clean.
      rewrite forallb_forall in Eall.
      assert (Hclean : forall m, In m R -> accepts s (upd p m t) = Clean).
      { intros m Hm. apply passes_noany_clean; auto. }
      split; [|split].
      * intros m Hm. exists s. split; [apply first_clean_cons_clean; auto|].
        apply nodup_In. apply in_or_app. right. now left.
      * intros r Hr. apply nodup_In in Hr. apply in_app_or in Hr. destruct Hr as [Hr|[<-|[]]]; auto.
        right. destruct R as [|m R]; try congruence. exists m, s. repeat split; [now left|].
        apply first_clean_cons_clean. apply Hclean. now left.
      * intros r Hr. apply nodup_In. apply in_or_app. now left.
    + destruct (filter (fun m => passes (accepts s (upd p m t))) R) as [|x l] eqn:Ef.
      * (* no member is accepted by s: skip *)
        pose proof (filter_nil_all _ _ _ Ef) as Hallf.
        assert (Hfail : forall m, In m R -> accepts s (upd p m t) = Fail).
        { intros m Hm. apply not_passes_fail. auto. }
        specialize (IH t p R unions Hne (Hno_rest R (fun m H => H))).
        destruct (ref_union rest t p R [] [] unions) as [| |rs].
        -- destruct IH as [m [Hm Hun]]. exists m. split; auto.
           intros s' [<-|Hs']; auto. rewrite Hfail by auto. discriminate.
        -- exact IH.
        -- destruct IH as [H1 [H2 H3]]. split; [|split]; auto.
           ++ intros m Hm. destruct (H1 m Hm) as [s' [Hf Hr]]. exists s'. split; auto.
              rewrite first_clean_cons_fail; auto.
           ++ intros r Hr. destruct (H2 r Hr) as [Hu|[m [s' [Hm [Hf Hr']]]]]; auto.
              right. exists m, s'. repeat split; auto. rewrite first_clean_cons_fail; auto.
      * assert (Hsub_m : forall m, In m (x :: l) -> In m R /\ passes (accepts s (upd p m t)) = true).
        { intros m Hm. rewrite <- Ef in Hm. apply filter_In in Hm. exact Hm. }
        destruct rest as [|s2 rest'].
        -- (* last overload: no decomposition; some member is left unaccepted *)
           cbn [is_nil andb ref_union].
           destruct (forallb_false_ex _ _ _ Eall) as [m [Hm Hp]].
           exists m. split; auto. intros s' [<-|[]]. rewrite (not_passes_fail _ Hp). discriminate.
        -- cbn [is_nil andb].
           rewrite Hex_false by (intros m Hm; apply Hsub_m; auto).
           set (R' := filter (fun m => is_fail (accepts s (upd p m t))) R).
           assert (HR' : forall m, In m R' -> In m R /\ accepts s (upd p m t) = Fail).
           { intros m Hm. apply filter_In in Hm. destruct Hm as [Hm Hf]. split; auto. now apply is_fail_fail. }
           assert (HneR' : R' <> []).
           { apply (filter_fail_nonempty (fun m => accepts s (upd p m t))). exact Eall. }
           specialize (IH t p R' (unions ++ [os_ret s]) HneR' (Hno_rest R' (fun m H => proj1 (HR' m H)))).
           destruct (ref_union (s2 :: rest') t p R' [] [] (unions ++ [os_ret s])) as [| |rs].
           ++ destruct IH as [m [Hm Hun]]. destruct (HR' m Hm) as [HmR Hf]. exists m. split; auto.
              intros s' [<-|Hs']; auto. rewrite Hf. discriminate.
           ++ exact IH.
           ++ destruct IH as [H1 [H2 H3]].
              assert (Hx : In x R /\ accepts s (upd p x t) = Clean).
              { destruct (Hsub_m x (or_introl eq_refl)) as [HxR Hxp]. split; auto.
                apply passes_noany_clean; auto. }
              split; [|split].
              ** intros m Hm. destruct (accepts s (upd p m t)) eqn:Eo.
                 --- exists s. split; [apply first_clean_cons_clean; auto|].
                     apply H3. apply in_or_app. right. now left.
                 --- exfalso. apply (Hs_noany m Hm). exact Eo.
                 --- assert (HmR' : In m R').
                     { unfold R'. apply filter_In. split; auto. now rewrite Eo. }
                     destruct (H1 m HmR') as [s' [Hf Hr]]. exists s'. split; auto.
                     rewrite first_clean_cons_fail; auto.
              ** intros r Hr. destruct (H2 r Hr) as [Hu|[m [s' [Hm [Hf Hr']]]]].
                 --- apply in_app_or in Hu. destruct Hu as [Hu|[<-|[]]]; auto.
                     right. exists x, s. destruct Hx as [HxR HxC]. repeat split; auto.
                     apply first_clean_cons_clean; auto.
                 --- right. destruct (HR' m Hm) as [HmR HmF]. exists m, s'. repeat split; auto.
                     rewrite first_clean_cons_fail; auto.
              ** intros r Hr. apply H3. apply in_or_app. now left.
Qed.

Lemma accepts_clean_binds : forall s t, accepts s t = Clean -> os_binds s = true.
Proof. intros s t. unfold accepts. destruct (os_binds s); auto; discriminate. Qed.

Lemma first_clean_filter : forall sigs t, first_clean (filter os_binds sigs) t = first_clean sigs t.
Proof.
  induction sigs as [|s sigs IH]; intros t; auto.
  cbn [filter]. destruct (os_binds s) eqn:B.
  - unfold first_clean in *. cbn [find]. destruct (accepts s t); auto.
  - assert (E : accepts s t = Fail) by (unfold accepts; now rewrite B).
    rewrite (first_clean_cons_fail s sigs t E). apply IH.
Qed.

Theorem one_union_distributes : forall sigs t p R,
  p < length t -> R <> [] ->
  (forall s, In s sigs -> os_binds s = true -> binds_once s /\ decomposable_at p s = true) ->
  (forall s m, In s sigs -> In m R -> accepts s (upd p m t) <> ViaAny) ->
  (resolve sigs (upd p R (singletons t)) <> RErr <->
     forall m, In m R -> exists s, In s sigs /\ accepts s (upd p m t) = Clean) /\
  resolve sigs (upd p R (singletons t)) <> RAnyMulti /\
  (forall rs, resolve sigs (upd p R (singletons t)) = RTypes rs ->
     (forall m, In m R -> exists r, resolve sigs (singletons (upd p m t)) = RTypes [r] /\ In r rs) /\
     (forall r, In r rs -> exists m, In m R /\ resolve sigs (singletons (upd p m t)) = RTypes [r])).
Proof.
  intros sigs t p R Hp Hne Hok Hno.
  rewrite resolve_one_union by auto.
  assert (Hno' : noany (filter os_binds sigs) t p R).
  { intros s m Hs Hm. apply filter_In in Hs. apply Hno; tauto. }
  pose proof (ref_union_noany (filter os_binds sigs) t p R [] Hne Hno') as H.
  assert (Hmember : forall m s, In m R -> first_clean (filter os_binds sigs) (upd p m t) = Some s ->
            resolve sigs (singletons (upd p m t)) = RTypes [os_ret s]).
  { intros m s Hm Hf. rewrite first_match.
    - rewrite first_clean_filter in Hf. now rewrite Hf.
    - intros s' Hs'. apply Hno; auto. }
  destruct (ref_union (filter os_binds sigs) t p R [] [] []) as [| |rs].
  - destruct H as [m [Hm Hun]]. split; [|split]; try congruence.
    split; [congruence|]. intros Hall. exfalso. destruct (Hall m Hm) as [s [Hs Hc]].
    apply (Hun s); auto. apply filter_In. split; auto. eapply accepts_clean_binds; eauto.
  - contradiction.
  - destruct H as [H1 [H2 H3]]. split; [|split]; try congruence.
    + split; [|congruence]. intros _ m Hm. destruct (H1 m Hm) as [s [Hf _]].
      unfold first_clean in Hf. apply find_some in Hf. destruct Hf as [Hin Hc].
      apply filter_In in Hin. exists s. split; [tauto|]. destruct (accepts s (upd p m t)); auto; discriminate.
    + intros rs' E. inversion E; subst rs'. split.
      * intros m Hm. destruct (H1 m Hm) as [s [Hf Hr]]. exists (os_ret s). split; auto.
      * intros r Hr. destruct (H2 r Hr) as [[]|[m [s [Hm [Hf Hr']]]]]. exists m. split; auto.
        rewrite <- Hr'. auto.
Qed.

(* ---------- the guard [decomposable_at] is necessary ----------------------- *)

(* clause (b) of the property without the guard: "the call is accepted when
   every member is accepted by some overload" *)
Definition one_union_full_statement : Prop :=
  forall sigs t p R,
    p < length t -> R <> [] ->
    (forall s, In s sigs -> os_binds s = true -> binds_once s) ->
    (forall s m, In s sigs -> In m R -> accepts s (upd p m t) <> ViaAny) ->
    (forall m, In m R -> exists s, In s sigs /\ accepts s (upd p m t) = Clean) ->
    resolve sigs (upd p R (singletons t)) <> RErr.

(* overloads [def f( *args: int) -> R0] and [def f( *args: str) -> R1] called with one argument int | str
   (member 0 = int, member 1 = str): the argument is collected by *args, so its
   bound parameter is not decomposable *)
Definition acc_only (k : member) : member -> outcome := fun m => if m =? k then Clean else Fail.
Definition variadic_sigs : list osig :=
  [ mkSig true [mkBP 0 false (acc_only 0)] 0; mkSig true [mkBP 0 false (acc_only 1)] 1 ].

Lemma one_union_refuted_variadic : ~ one_union_full_statement.
Proof.
  intros H. specialize (H variadic_sigs [0] 0 [0; 1]).
  apply H; try (simpl; lia); try discriminate; try reflexivity.
  - intros s [<-|[<-|[]]] _; unfold binds_once; simpl; repeat constructor; simpl; tauto.
  - intros s m [<-|[<-|[]]] [<-|[<-|[]]]; vm_compute; discriminate.
  - intros m [<-|[<-|[]]].
    + exists (mkSig true [mkBP 0 false (acc_only 0)] 0). split; [now left|reflexivity].
    + exists (mkSig true [mkBP 0 false (acc_only 1)] 1). split; [right; now left|reflexivity].
Qed.

(* the same overloads with the argument passed to an ordinary parameter meet
   every hypothesis of one_union_distributes, non-trivially *)
Definition direct_sigs : list osig :=
  [ mkSig true [mkBP 0 true (acc_only 0)] 0; mkSig true [mkBP 0 true (acc_only 1)] 1 ].

Lemma one_union_guard_inhabited :
  0 < length [0] /\ [0; 1] <> [] /\
  (forall s, In s direct_sigs -> os_binds s = true -> binds_once s /\ decomposable_at 0 s = true) /\
  (forall s m, In s direct_sigs -> In m [0; 1] -> accepts s (upd 0 m [0]) <> ViaAny) /\
  resolve direct_sigs (upd 0 [0; 1] (singletons [0])) = RTypes [0; 1] /\
  resolve direct_sigs (singletons [0]) = RTypes [0] /\
  resolve direct_sigs (singletons [1]) = RTypes [1] /\
  resolve direct_sigs (upd 0 [0; 1; 2] (singletons [0])) = RErr.
Proof.
  repeat split; try (simpl; lia); try discriminate.
  - destruct H as [<-|[<-|[]]]; unfold binds_once; simpl; repeat constructor; simpl; tauto.
  - destruct H as [<-|[<-|[]]]; reflexivity.
  - intros s m [<-|[<-|[]]] [<-|[<-|[]]]; vm_compute; discriminate.
Qed.
