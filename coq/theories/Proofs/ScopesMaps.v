(* Proofs/ScopesMaps.v — association-list and combine_subscopes lemmas for C09. *)
From Coq Require Import NArith List Bool Lia.
Import ListNotations.
Require Import PV.Scopes.Syntax PV.Scopes.Analysis PV.Scopes.Paths.

Lemma lookup_upd_same : forall m v l, lookup (upd m v l) v = Some l.
Proof.
  induction m as [|[w x] r IH]; intros v l; cbn.
  - rewrite N.eqb_refl. reflexivity.
  - destruct (N.eqb w v) eqn:E; cbn; rewrite E; auto.
Qed.

Lemma lookup_upd_other : forall m v l w, v <> w -> lookup (upd m v l) w = lookup m w.
Proof.
  induction m as [|[k x] r IH]; intros v l w Hne; cbn.
  - destruct (N.eqb v w) eqn:E; auto. apply N.eqb_eq in E. contradiction.
  - destruct (N.eqb k v) eqn:E; cbn.
    + apply N.eqb_eq in E. subst k. destruct (N.eqb v w) eqn:E2; auto.
      apply N.eqb_eq in E2. contradiction.
    + destruct (N.eqb k w); auto.
Qed.

Lemma lookup_none_keys : forall m v, lookup m v = None <-> ~ In v (keys m).
Proof.
  induction m as [|[k x] r IH]; intros v; cbn.
  - split; auto.
  - destruct (N.eqb k v) eqn:E.
    + apply N.eqb_eq in E. subst. split; [discriminate|intros H; exfalso; apply H; auto].
    + apply N.eqb_neq in E. rewrite IH. split; intros H; [intros [H1|H1]; auto|auto].
Qed.

Lemma lookup_update_vars : forall r m v, NoDup (keys r) ->
  lookup (update_vars m r) v = match lookup r v with Some l => Some l | None => lookup m v end.
Proof.
  unfold update_vars.
  induction r as [|[k x] r IH]; intros m v Hnd; cbn; auto.
  inversion Hnd as [|? ? Hnin Hnd']; subst.
  rewrite IH by assumption.
  destruct (N.eqb k v) eqn:E.
  - apply N.eqb_eq in E. subst k.
    assert (Hn : lookup r v = None) by (apply lookup_none_keys; exact Hnin).
    rewrite Hn. cbn. apply lookup_upd_same.
  - apply N.eqb_neq in E. destruct (lookup r v); auto. cbn. apply lookup_upd_other; auto.
Qed.

Lemma lookup_map_in : forall (f : var -> list node) ks v, In v ks ->
  lookup (map (fun k => (k, f k)) ks) v = Some (f v).
Proof.
  induction ks as [|k r IH]; intros v Hin; cbn; [destruct Hin|].
  destruct (N.eqb k v) eqn:E.
  - apply N.eqb_eq in E. subst. reflexivity.
  - apply N.eqb_neq in E. destruct Hin as [H|H]; [contradiction|auto].
Qed.

Lemma lookup_map_notin : forall (f : var -> list node) ks v, ~ In v ks ->
  lookup (map (fun k => (k, f k)) ks) v = None.
Proof.
  intros f ks v Hn. apply lookup_none_keys. unfold keys. rewrite map_map. cbn. rewrite map_id. exact Hn.
Qed.

Lemma keys_map : forall (f : var -> list node) ks, keys (map (fun k => (k, f k)) ks) = ks.
Proof. intros. unfold keys. rewrite map_map. cbn. apply map_id. Qed.

(* ---- abstraction *)

(* the value d is possible for v in scope sc *)
Definition satv (v : var) (d : node) (sc : scope) : Prop := In d (lookupU (vars sc) v).
Definition live (sc : scope) : Prop := ls sc = false /\ ll sc = false.
Definition kle (a b : vmap) : Prop := forall v, lookup a v <> None -> lookup b v <> None.

Lemma kle_refl : forall a, kle a a.
Proof. intros a v H. exact H. Qed.
Lemma kle_trans : forall a b c, kle a b -> kle b c -> kle a c.
Proof. intros a b c H1 H2 v H. auto. Qed.

Lemma live_keeps : forall sc, live sc -> keeps sc = true.
Proof. intros sc [H1 H2]. unfold keeps. rewrite H1, H2. reflexivity. Qed.
Lemma keeps_live : forall sc, keeps sc = true -> live sc.
Proof.
  intros sc H. unfold keeps in H. apply andb_true_iff in H. destruct H as [H1 H2].
  apply negb_true_iff in H1, H2. split; assumption.
Qed.

Lemma kle_upd : forall m v l, kle m (upd m v l).
Proof.
  intros m v l w H. destruct (N.eq_dec v w) as [->|Hne].
  - rewrite lookup_upd_same. discriminate.
  - rewrite lookup_upd_other by assumption. exact H.
Qed.

Lemma merged_nodup : forall K, NoDup (keys (merged K)).
Proof. intros K. unfold merged. rewrite keys_map. apply NoDup_nodup. Qed.

Lemma in_keys_union : forall K sc v, In sc K -> In v (keys (vars sc)) -> In v (keys_union K).
Proof.
  intros K sc v H1 H2. unfold keys_union. apply nodup_In. apply in_flat_map. exists sc. auto.
Qed.

Lemma kept_in : forall S sc, In sc S -> keeps sc = true -> In sc (kept S).
Proof. intros. unfold kept. apply filter_In. auto. Qed.

Lemma combined_kept : forall S sc, In sc S -> keeps sc = true ->
  combined S = mkScope (merged (kept S)) false false.
Proof.
  intros S sc Hin Hk. unfold combined. pose proof (kept_in S sc Hin Hk) as H.
  destruct (kept S); [destruct H|reflexivity].
Qed.

Lemma combined_nodup : forall S, NoDup (keys (vars (combined S))).
Proof.
  intros S. unfold combined. destruct (kept S); cbn [vars]; [apply NoDup_nil|apply merged_nodup].
Qed.

(* a value possible in one kept scope is possible after combine_subscopes *)
Lemma combine_sat : forall S st sc v d, In sc S -> keeps sc = true ->
  kle (vars (cur st)) (vars sc) -> satv v d sc -> satv v d (cur (combine S st)).
Proof.
  intros S st sc v d Hin Hk Hkle Hsat. unfold satv, combine in *. cbn [cur vars].
  rewrite (combined_kept S sc Hin Hk). cbn [vars].
  unfold lookupU in *. rewrite lookup_update_vars by apply merged_nodup.
  pose proof (kept_in S sc Hin Hk) as HinK.
  destruct (in_dec N.eq_dec v (keys_union (kept S))) as [Hv|Hv].
  - unfold merged. rewrite lookup_map_in by assumption.
    apply nodup_In. apply in_flat_map. exists sc. split; [assumption|].
    unfold lookupU. exact Hsat.
  - unfold merged at 1. rewrite lookup_map_notin by assumption.
    assert (Hn : lookup (vars sc) v = None).
    { apply lookup_none_keys. intros Hc. apply Hv. eapply in_keys_union; eauto. }
    rewrite Hn in Hsat.
    destruct (lookup (vars (cur st)) v) eqn:E; [|exact Hsat].
    exfalso. apply (Hkle v); [rewrite E; discriminate|exact Hn].
Qed.

Lemma combine_live : forall S st sc, In sc S -> keeps sc = true -> live (cur st) -> live (cur (combine S st)).
Proof.
  intros S st sc Hin Hk [H1 H2]. unfold combine, live. cbn [cur ls ll].
  rewrite (combined_kept S sc Hin Hk). cbn. rewrite H1, H2. auto.
Qed.

Lemma combine_kle : forall S st, kle (vars (cur st)) (vars (cur (combine S st))).
Proof.
  intros S st v H. unfold combine. cbn [cur vars].
  rewrite lookup_update_vars by apply combined_nodup.
  destruct (lookup (vars (combined S)) v); [discriminate|exact H].
Qed.

Lemma combine_u2d : forall S st, u2d (combine S st) = u2d st.
Proof. reflexivity. Qed.
Lemma combine_ll : forall S st, ll (cur (combine S st)) = ll (cur st).
Proof. reflexivity. Qed.

(* ---- traces *)

Lemma applyv_app : forall t1 t2 v d, applyv (t1 ++ t2) v d = applyv t2 v (applyv t1 v d).
Proof.
  induction t1 as [|[w x] r IH]; intros; cbn; auto.
Qed.

(* the binding after a trace is either made by the trace (independently of the
   start) or it is the start binding *)
Lemma applyv_cases : forall t v d d', applyv t v d = applyv t v d' \/ (applyv t v d = d /\ applyv t v d' = d').
Proof.
  induction t as [|[w x] r IH]; intros v d d'; cbn; auto.
  destruct (N.eqb w v); auto.
Qed.

Lemma applyv_in : forall t v d, applyv t v d = d \/ In (v, applyv t v d) t.
Proof.
  induction t as [|[w x] r IH]; intros v d; cbn; auto.
  destruct (N.eqb w v) eqn:E.
  - apply N.eqb_eq in E. subst w. destruct (IH v x) as [H|H]; [|auto].
    right. left. rewrite H. reflexivity.
  - destruct (IH v d) as [H|H]; auto.
Qed.

Lemma grouped_in : forall a v d, In (v, d) a -> In d (lookupE (grouped a) v).
Proof.
  intros a v d Hin. unfold lookupE, grouped.
  rewrite lookup_map_in.
  - apply nodup_In. apply in_map_iff. exists (v, d). split; auto.
    apply filter_In. split; auto. cbn. apply N.eqb_refl.
  - apply nodup_In. apply in_map_iff. exists (v, d). auto.
Qed.
