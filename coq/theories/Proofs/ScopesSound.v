(* Proofs/ScopesSound.v — soundness of the collecting-phase model (Scopes/Analysis.v)
   with respect to the strict path semantics (Scopes/Paths.v). *)
From Coq Require Import NArith List Bool Lia.
Import ListNotations.
Require Import PV.Scopes.Syntax PV.Scopes.Analysis PV.Scopes.Paths PV.Scopes.Guards.
Require Import PV.Proofs.ScopesMaps.

Definition grow (st st' : state) : Prop := incl (u2d st) (u2d st').
Lemma grow_refl : forall st, grow st st. Proof. intros st x H. exact H. Qed.
Lemma grow_trans : forall a b c, grow a b -> grow b c -> grow a c.
Proof. intros a b c H1 H2 x H. auto. Qed.

Lemma lookup_some_keys : forall m w, lookup m w <> None -> In w (keys m).
Proof.
  intros m w H. destruct (in_dec N.eq_dec w (keys m)) as [Hi|Hn]; auto.
  exfalso. apply H. apply lookup_none_keys. exact Hn.
Qed.

(* ---- leaf operations *)

Lemma set_var_sat : forall v d st w d0, satv w d0 (cur st) ->
  satv w (applyv [(v, d)] w d0) (cur (set_var v d st)).
Proof.
  intros v d st w d0 H. unfold satv, set_var in *. cbn [cur vars applyv]. unfold lookupU in *.
  destruct (N.eqb v w) eqn:E.
  - apply N.eqb_eq in E. subst w. rewrite lookup_upd_same. left. reflexivity.
  - apply N.eqb_neq in E. rewrite lookup_upd_other by assumption. exact H.
Qed.

Lemma get_var_in : forall v u st d0, satv v d0 (cur st) -> In (u, d0) (u2d (get_var v u st)).
Proof.
  intros v u st d0 H. unfold get_var. cbn [u2d]. apply in_or_app. right.
  apply in_map_iff. exists d0. split; auto.
Qed.

(* ---- suppressing_subscope *)

Lemma suppress_fst : forall G st0 s1, fst (suppress_leave G st0 s1) = cur s1.
Proof. reflexivity. Qed.
Lemma suppress_u2d : forall G st0 s1, u2d (snd (suppress_leave G st0 s1)) = u2d s1.
Proof. reflexivity. Qed.
Lemma suppress_kle : forall G st0 s1, kle (vars (cur st0)) (vars (cur (snd (suppress_leave G st0 s1)))).
Proof. intros. unfold suppress_leave. cbn [snd]. apply (combine_kle _ (restore st0 s1)). Qed.

Lemma suppress_live : forall G st0 s1, live (cur st0) -> live (cur (snd (suppress_leave G st0 s1))).
Proof.
  intros G st0 s1 Hl. unfold suppress_leave. cbn [snd].
  eapply combine_live with (sc := strip_ls (cur (restore st0 s1))).
  - left. reflexivity.
  - apply live_keeps. destruct Hl as [H1 H2]. split; cbn; auto.
  - exact Hl.
Qed.

Lemma suppress_sat : forall a st0 s1 v d0 d, live (cur st0) -> satv v d0 (cur st0) ->
  (d = d0 \/ In (v, d) a) ->
  satv v d (cur (snd (suppress_leave (grouped a) st0 s1))).
Proof.
  intros a st0 s1 v d0 d Hl Hs Hd. unfold suppress_leave. cbn [snd].
  destruct Hl as [Hl1 Hl2].
  destruct Hd as [->|Hin].
  - eapply combine_sat with (sc := strip_ls (cur (restore st0 s1))).
    + left. reflexivity.
    + apply live_keeps. split; cbn; auto.
    + cbn. apply kle_refl.
    + exact Hs.
  - set (dummy := strip_ls (cur (restore st0 s1))).
    eapply combine_sat with (sc := mkScope (merge_rest (vars dummy) (grouped a)) false (ll dummy)).
    + right. left. reflexivity.
    + apply live_keeps. split; cbn; auto.
    + cbn [vars cur restore]. intros w Hw. unfold merge_rest.
      rewrite lookup_map_in; [discriminate|].
      apply nodup_In. apply in_or_app. left. apply lookup_some_keys. exact Hw.
    + unfold satv. cbn [vars]. unfold lookupU, merge_rest.
      rewrite lookup_map_in.
      * apply in_or_app. right. apply grouped_in. exact Hin.
      * apply nodup_In. apply in_or_app. right. unfold grouped. rewrite keys_map.
        apply nodup_In. apply in_map_iff. exists (v, d). auto.
Qed.

(* ---- paths perform only assignments that occur in the fragment *)

Lemma iters_incl : forall (R : trace -> Prop) (A : list (var * node)),
  (forall t, R t -> incl t A) -> forall t, iters R t -> incl t A.
Proof.
  intros R A H t Hi. induction Hi as [|t1 t2 H1 IH H2].
  - intros x Hx. destruct Hx.
  - apply incl_app; auto.
Qed.

Lemma path_assigned :
  (forall s o t, path_s s o t -> incl t (assigned_s s)) /\
  (forall b o t, path_b b o t -> incl t (assigned_b b)) /\
  (forall hs o t, path_hs hs o t -> incl t (assigned_hs hs)).
Proof.
  apply syntax_mutind; cbn [path_s path_b path_hs assigned_s assigned_b assigned_hs].
  - intros v d o t [_ ->]. apply incl_refl.
  - intros v u o t [_ ->]. apply incl_refl.
  - intros o t [_ ->]. apply incl_refl.
  - intros o t [_ ->]. apply incl_refl.
  - intros o t [_ ->]. apply incl_refl.
  - intros o t [_ ->]. apply incl_refl.
  - intros o t [_ ->]. apply incl_refl.
  - intros o t [_ ->]. apply incl_refl.
  - intros b IHb e IHe o t [H|H]; [apply incl_appl|apply incl_appr]; eauto.
  - intros fv b IHb e IHe o t (th & t2 & Hi & -> & H).
    assert (Hth : incl th (assigned_b b)).
    { eapply iters_incl; [|exact Hi]. intros x [Hx|Hx]; eauto. }
    apply incl_app; [apply incl_appl; exact Hth|].
    destruct H as [[_ H]|[[_ H]|[_ H]]]; [apply incl_appr|apply incl_appl|apply incl_appl]; eauto.
  - intros sup b IHb o t [H|(_ & _ & H)]; eauto.
  - intros b IHb hs IHhs e IHe f IHf o t (o1 & t1 & o2 & t2 & Hte & Hf & -> & _).
    rewrite !app_assoc. apply incl_app; [apply incl_appl|apply incl_appr; eauto].
    destruct Hte as [(ta & tb & Ha & Hb & ->)|[(_ & Ha)|(tx & Hx & [(th & Hh & ->)|(_ & ->)])]].
    + apply incl_app; [apply incl_appl; apply incl_appl; eauto|apply incl_appr; eauto].
    + apply incl_appl. apply incl_appl. eauto.
    + apply incl_appl. apply incl_app; [apply incl_appl; eauto|apply incl_appr; eauto].
    + apply incl_appl. apply incl_appl. eauto.
  - intros o t [_ ->]. apply incl_refl.
  - intros s IHs r IHr o t [(t1 & t2 & H1 & H2 & ->)|(_ & H)].
    + apply incl_app; [apply incl_appl|apply incl_appr]; eauto.
    + apply incl_appl. eauto.
  - intros o t [].
  - intros h IHh r IHr o t [H|H]; [apply incl_appl|apply incl_appr]; eauto.
Qed.

(* ---- without break/continue no path ends in break/continue *)

Definition is_jump (o : outcome) : Prop := o = OBrk \/ o = OCont.

Lemma no_jump_outcome :
  (forall s, has_jump s = false -> forall o t, path_s s o t -> ~ is_jump o) /\
  (forall b, has_jump_b b = false -> forall o t, path_b b o t -> ~ is_jump o) /\
  (forall hs, has_jump_hs hs = false -> forall o t, path_hs hs o t -> ~ is_jump o).
Proof.
  unfold is_jump.
  apply syntax_mutind; cbn [path_s path_b path_hs has_jump has_jump_b has_jump_hs].
  - intros v d _ o t [-> _] [H|H]; discriminate.
  - intros v u _ o t [-> _] [H|H]; discriminate.
  - intros _ o t [[-> | ->] _] [H|H]; discriminate.
  - intros _ o t [-> _] [H|H]; discriminate.
  - intros _ o t [-> _] [H|H]; discriminate.
  - intros _ o t [-> _] [H|H]; discriminate.
  - intros H; discriminate.
  - intros H; discriminate.
  - intros b IHb e IHe Hj o t [H|H]; apply orb_false_iff in Hj; destruct Hj; eauto.
  - intros fv b IHb e IHe Hj o t (th & t2 & _ & _ & H). apply orb_false_iff in Hj. destruct Hj as [Hb He].
    destruct H as [[_ H]|[[-> H]|[[-> | ->] H]]]; eauto; intros [X|X]; discriminate.
  - intros sup b IHb Hj o t [H|(_ & -> & H)]; eauto. intros [X|X]; discriminate.
  - intros b IHb hs IHhs e IHe f IHf Hj o t (o1 & t1 & o2 & t2 & Hte & Hf & _ & ->).
    apply orb_false_iff in Hj. destruct Hj as [Hj Hjf]. apply orb_false_iff in Hj. destruct Hj as [Hj Hje].
    apply orb_false_iff in Hj. destruct Hj as [Hjb Hjh].
    assert (H1 : ~ (o1 = OBrk \/ o1 = OCont)).
    { destruct Hte as [(ta & tb & Ha & Hb & _)|[(_ & Ha)|(tx & Hx & [(th & Hh & _)|(-> & _)])]]; eauto.
    }
    pose proof (IHf Hjf _ _ Hf) as H2.
    destruct o2; auto.
  - intros _ o t [-> _] [H|H]; discriminate.
  - intros s IHs r IHr Hj o t H. apply orb_false_iff in Hj. destruct Hj as [Hs Hr].
    destruct H as [(t1 & t2 & H1 & H2 & _)|(_ & H)]; eauto.
  - intros _ o t [].
  - intros h IHh r IHr Hj o t H. apply orb_false_iff in Hj. destruct Hj as [Hh Hr].
    destruct H as [H|H]; eauto.
Qed.

(* ---- a break/continue not enclosed by a loop of the fragment is the only source of a
   path ending in break/continue *)

Lemma no_free_jump_outcome :
  (forall s, free_jump s = false -> forall o t, path_s s o t -> ~ is_jump o) /\
  (forall b, free_jump_b b = false -> forall o t, path_b b o t -> ~ is_jump o) /\
  (forall hs, free_jump_hs hs = false -> forall o t, path_hs hs o t -> ~ is_jump o).
Proof.
  unfold is_jump.
  apply syntax_mutind; cbn [path_s path_b path_hs free_jump free_jump_b free_jump_hs].
  - intros v d _ o t [-> _] [H|H]; discriminate.
  - intros v u _ o t [-> _] [H|H]; discriminate.
  - intros _ o t [[-> | ->] _] [H|H]; discriminate.
  - intros _ o t [-> _] [H|H]; discriminate.
  - intros _ o t [-> _] [H|H]; discriminate.
  - intros _ o t [-> _] [H|H]; discriminate.
  - intros H; discriminate.
  - intros H; discriminate.
  - intros b IHb e IHe Hj o t [H|H]; apply orb_false_iff in Hj; destruct Hj; eauto.
  - intros fv b IHb e IHe Hj o t (th & t2 & _ & _ & H).
    destruct H as [[_ H]|[[-> H]|[[-> | ->] H]]]; eauto; intros [X|X]; discriminate.
  - intros sup b IHb Hj o t [H|(_ & -> & H)]; eauto. intros [X|X]; discriminate.
  - intros b IHb hs IHhs e IHe f IHf Hj o t (o1 & t1 & o2 & t2 & Hte & Hf & _ & ->).
    apply orb_false_iff in Hj. destruct Hj as [Hj Hjf]. apply orb_false_iff in Hj. destruct Hj as [Hj Hje].
    apply orb_false_iff in Hj. destruct Hj as [Hjb Hjh].
    assert (H1 : ~ (o1 = OBrk \/ o1 = OCont)).
    { destruct Hte as [(ta & tb & Ha & Hb & _)|[(_ & Ha)|(tx & Hx & [(th & Hh & _)|(-> & _)])]]; eauto.
    }
    pose proof (IHf Hjf _ _ Hf) as H2.
    destruct o2; auto.
  - intros _ o t [-> _] [H|H]; discriminate.
  - intros s IHs r IHr Hj o t H. apply orb_false_iff in Hj. destruct Hj as [Hs Hr].
    destruct H as [(t1 & t2 & H1 & H2 & _)|(_ & H)]; eauto.
  - intros _ o t [].
  - intros h IHh r IHr Hj o t H. apply orb_false_iff in Hj. destruct Hj as [Hh Hr].
    destruct H as [H|H]; eauto.
Qed.

Lemma sets_ll_free :
  (forall s, free_jump s = false -> sets_ll s = false) /\
  (forall b, free_jump_b b = false -> sets_ll_b b = false) /\
  (forall hs : handlers, True).
Proof.
  apply syntax_mutind; cbn [free_jump free_jump_b sets_ll sets_ll_b]; auto; try (intros; discriminate).
  - intros sup b IHb H. destruct sup; auto.
  - intros b _ hs _ e _ f IHf H. apply orb_false_iff in H. destruct H as [_ H]. auto.
  - intros s IHs r IHr H. apply orb_false_iff in H. destruct H as [H1 H2].
    rewrite (IHs H1), (IHr H2). reflexivity.
Qed.

(* ---- the soundness invariant, by mutual induction on the syntax *)

Definition snd_ok (st st' : state) (P : trace -> var -> N -> Prop) (Q : trace -> Prop) : Prop :=
  (forall t v u d0, P t v u -> satv v d0 (cur st) -> In (u, applyv t v d0) (u2d st')) /\
  (forall t, Q t -> live (cur st') /\
     forall v d0, satv v d0 (cur st) -> satv v (applyv t v d0) (cur st')).

(* the scopes that stand for "left the loop body here": the current dict (when it
   holds LEAVES_LOOP) and current_loop_scopes *)
Definition exits (st : state) : list scope := cur st :: loops st.

(* every path ending in break/continue is covered by one of the scopes E: it holds
   LEAVES_LOOP, not LEAVES_SCOPE, has at least the keys of the entry dict c0, and covers the
   concrete binding of every variable *)
Definition hasll (E : list scope) : Prop := exists sc', In sc' E /\ ll sc' = true /\ ls sc' = false.

Definition lcl (c0 : scope) (st' : state) (Q : outcome -> trace -> Prop) : Prop :=
  (forall o t, is_jump o -> Q o t ->
   exists sc, In sc (exits st') /\ (ll sc = true \/ In sc (loops st')) /\ ls sc = false /\ kle (vars c0) (vars sc) /\
     forall v d0, satv v d0 c0 -> satv v (applyv t v d0) sc) /\
  (forall o t, is_jump o -> Q o t -> hasll (exits st')).

Definition P_s (s : stmt) : Prop := lower_ok_s s = true -> forall st,
  grow st (visit_s s st) /\ kle (vars (cur st)) (vars (cur (visit_s s st))) /\
  incl (loops st) (loops (visit_s s st)) /\
  (sets_ll s = false -> ll (cur (visit_s s st)) = ll (cur st)) /\
  (live (cur st) -> snd_ok st (visit_s s st) (upath_s s) (path_s s ONorm) /\
                    lcl (cur st) (visit_s s st) (path_s s)).

Definition P_b (b : block) : Prop := lower_ok_b b = true -> forall st,
  grow st (visit_b b st) /\ kle (vars (cur st)) (vars (cur (visit_b b st))) /\
  incl (loops st) (loops (visit_b b st)) /\
  (sets_ll_b b = false -> ll (cur (visit_b b st)) = ll (cur st)) /\
  (live (cur st) -> snd_ok st (visit_b b st) (upath_b b) (path_b b ONorm) /\
                    lcl (cur st) (visit_b b st) (path_b b)).

Definition P_hs (hs : handlers) : Prop := lower_ok_hs hs = true -> forall dummy failure o,
  grow o (snd (visit_hs hs dummy failure o)) /\
  cur (snd (visit_hs hs dummy failure o)) = cur o /\
  incl (loops o) (loops (snd (visit_hs hs dummy failure o))) /\
  Forall (fun h => kle (vars (cur o)) (vars h)) (fst (visit_hs hs dummy failure o)) /\
  (ll (cur o) = false -> keeps failure = true -> kle (vars (cur o)) (vars failure) ->
     (forall t v u d0, upath_hs hs t v u -> satv v d0 failure ->
         In (u, applyv t v d0) (u2d (snd (visit_hs hs dummy failure o)))) /\
     (forall t, path_hs hs ONorm t -> exists h, In h (fst (visit_hs hs dummy failure o)) /\ keeps h = true /\
         forall v d0, satv v d0 failure -> satv v (applyv t v d0) h) /\
     (forall o' t, is_jump o' -> path_hs hs o' t ->
         exists sc, In sc (fst (visit_hs hs dummy failure o) ++ loops (snd (visit_hs hs dummy failure o))) /\
           (ll sc = true \/ In sc (loops (snd (visit_hs hs dummy failure o)))) /\ ls sc = false /\ kle (vars (cur o)) (vars sc) /\
           forall v d0, satv v d0 failure -> satv v (applyv t v d0) sc) /\
     (forall o' t, is_jump o' -> path_hs hs o' t ->
         hasll (fst (visit_hs hs dummy failure o) ++ loops (snd (visit_hs hs dummy failure o))))).

Lemma enter_live : forall st, live (cur st) -> live (cur (enter st)).
Proof. intros st [H1 H2]. split; cbn; auto. Qed.

Lemma live_strip : forall c, ll c = false -> live (strip_ls c).
Proof. intros c H. split; cbn; auto. Qed.

Lemma combine_loops_in : forall S st sc, In sc S -> ll sc = true -> In sc (loops (combine S st)).
Proof.
  intros S st sc H1 H2. unfold combine. cbn [loops]. apply in_or_app. right.
  unfold diverted. apply filter_In. auto.
Qed.

Lemma combine_loops_incl : forall S st, incl (loops st) (loops (combine S st)).
Proof. intros S st x H. unfold combine. cbn [loops]. apply in_or_app. left. exact H. Qed.

(* a LEAVES_LOOP scope of a sub-visit stays an exit scope of the enclosing visit *)
Lemma exits_flow : forall s1 (L : list scope) sc, In sc (exits s1) -> (ll sc = true \/ In sc (loops s1)) ->
  (ll (cur s1) = true -> In (cur s1) L) -> incl (loops s1) L -> In sc L.
Proof. intros s1 L sc [<-|H] [Hll|Hl] H1 H2; auto. Qed.

Lemma hasll_flow : forall s1 (L : list scope), hasll (exits s1) ->
  (ll (cur s1) = true -> In (cur s1) L) -> incl (loops s1) L -> hasll L.
Proof.
  intros s1 L (sc & Hin & Hll & Hls) H1 H2. exists sc. split; [|auto].
  apply (exits_flow s1 L sc Hin (or_introl Hll) H1 H2).
Qed.

Lemma hasll_incl : forall L L', hasll L -> incl L L' -> hasll L'.
Proof. intros L L' (sc & H1 & H2) Hi. exists sc. split; [apply Hi; exact H1|exact H2]. Qed.

Lemma outcome_norm_dec : forall o : outcome, o = ONorm \/ o <> ONorm.
Proof. intros []; auto; right; discriminate. Qed.

Lemma jump_not_norm : forall o, is_jump o -> o <> ONorm.
Proof. intros o [->| ->]; discriminate. Qed.

Lemma path_te_assigned : forall b hs e o1 t1, path_te b hs e o1 t1 ->
  incl t1 (assigned_b b ++ assigned_hs hs ++ assigned_b e).
Proof.
  intros b hs e o1 t1 H. destruct path_assigned as (_ & Pb & Ph).
  destruct H as [(ta & tb & Ha & Hb & ->)|[(_ & Ha)|(tx & Hx & [(th & Hh & ->)|(_ & ->)])]].
  - apply incl_app; [apply incl_appl; eauto|apply incl_appr; apply incl_appr; eauto].
  - apply incl_appl; eauto.
  - apply incl_app; [apply incl_appl; eauto|apply incl_appr; apply incl_appl; eauto].
  - apply incl_appl; eauto.
Qed.

Lemma suppress_path_sat : forall a st0 s1 t v d0, live (cur st0) -> incl t a -> satv v d0 (cur st0) ->
  satv v (applyv t v d0) (cur (snd (suppress_leave (grouped a) st0 s1))).
Proof.
  intros a st0 s1 t v d0 Hl Hi Hs. eapply suppress_sat; eauto.
  destruct (applyv_in t v d0) as [H|H]; [left; exact H|right; apply Hi; exact H].
Qed.

Lemma suppress_loops_incl : forall G st0 s1, incl (loops s1) (loops (snd (suppress_leave G st0 s1))).
Proof. intros. unfold suppress_leave. cbn [snd]. apply (combine_loops_incl _ (restore st0 s1)). Qed.

Lemma suppress_inner_loops : forall G st0 s1, ll (cur s1) = true ->
  In (cur s1) (loops (snd (suppress_leave G st0 s1))).
Proof.
  intros. unfold suppress_leave. cbn [snd]. apply combine_loops_in; [right; right; left; reflexivity|assumption].
Qed.

Lemma loop_st2_u2d : forall fv st o2, u2d (loop_st2 fv st o2) = u2d o2.
Proof. intros [] st o2; reflexivity. Qed.
Lemma loop_else_entry_u2d : forall fv e st2 o2, u2d (loop_else_entry fv e st2 o2) = u2d st2.
Proof. intros fv e st2 o2. unfold loop_else_entry. destruct (negb (is_nil e) && negb fv); reflexivity. Qed.
Lemma loop_finish_u2d : forall fv L st5, u2d (loop_finish fv L st5) = u2d st5.
Proof. intros fv L st5. unfold loop_finish. destruct (fv && _); reflexivity. Qed.
Lemma loop_finish_vars : forall fv L st5, vars (cur (loop_finish fv L st5)) = vars (cur st5).
Proof. intros fv L st5. unfold loop_finish. destruct (fv && _); reflexivity. Qed.
Lemma loop_finish_loops : forall fv L st5, loops (loop_finish fv L st5) = loops st5.
Proof. intros fv L st5. unfold loop_finish. destruct (fv && _); reflexivity. Qed.
Lemma loop_finish_ll : forall fv L st5, ll (cur (loop_finish fv L st5)) = ll (cur st5).
Proof. intros fv L st5. unfold loop_finish. destruct (fv && _); reflexivity. Qed.
Lemma loop_finish_keep : forall fv L st5 sc, In sc L -> ll sc = true -> loop_finish fv L st5 = st5.
Proof.
  intros fv L st5 sc Hin Hll. unfold loop_finish.
  destruct (forallb (fun sc0 => negb (ll sc0)) L) eqn:E.
  - rewrite forallb_forall in E. specialize (E sc Hin). rewrite Hll in E. discriminate.
  - rewrite andb_false_r. reflexivity.
Qed.
Lemma loop_st2_kle : forall fv st o2, kle (vars (cur st)) (vars (cur (loop_st2 fv st o2))).
Proof. intros [] st o2; unfold loop_st2. apply (combine_kle _ (restore st o2)). apply kle_refl. Qed.
Lemma loop_st2_loops : forall fv st o2, incl (loops o2) (loops (loop_st2 fv st o2)).
Proof. intros [] st o2; unfold loop_st2. apply (combine_loops_incl _ (restore st o2)). apply incl_refl. Qed.
Lemma loop_st2_ll : forall fv st o2, ll (cur (loop_st2 fv st o2)) = ll (cur st).
Proof. intros [] st o2; reflexivity. Qed.
Lemma loop_else_entry_loops : forall fv e st2 o2, incl (loops st2) (loops (loop_else_entry fv e st2 o2)).
Proof.
  intros fv e st2 o2. unfold loop_else_entry. destruct (negb (is_nil e) && negb fv).
  - apply (combine_loops_incl _ (enter st2)).
  - apply incl_refl.
Qed.

Lemma case_if : forall b e, P_b b -> P_b e -> P_s (SIf b e).
Proof.
  intros b e IHb IHe Hok st. cbn [lower_ok_s] in Hok. apply andb_true_iff in Hok. destruct Hok as [Hokb Hoke].
  cbn [visit_s].
  set (s1 := visit_b b (enter st)).
  set (s2 := visit_b e (if_mid st s1)).
  destruct (IHb Hokb (enter st)) as (Gb & Kb & Lb & _ & Sb). fold s1 in Gb, Kb, Lb, Sb.
  destruct (IHe Hoke (if_mid st s1)) as (Ge & Ke & Le & _ & Se). fold s2 in Ge, Ke, Le, Se.
  assert (G : grow st (if_finish st s1 s2)).
  { intros x Hx. apply Ge. apply Gb. exact Hx. }
  assert (L2 : incl (loops s2) (loops (if_finish st s1 s2))).
  { apply (combine_loops_incl _ (restore (restore st s1) s2)). }
  split; [exact G|]. split; [apply (combine_kle _ (restore (restore st s1) s2))|].
  split; [intros x Hx; apply L2; apply Le; apply Lb; exact Hx|].
  split; [intros _; reflexivity|].
  intros Hl.
  destruct (Sb (enter_live _ Hl)) as ((Ub & Nb) & (Cb & Eb)).
  destruct (Se (enter_live (restore st s1) Hl)) as ((Ue & Ne) & (Ce & Ee)).
  assert (F1 : ll (cur s1) = true -> In (cur s1) (loops (if_finish st s1 s2))).
  { intros X. apply combine_loops_in; [left; reflexivity|exact X]. }
  assert (F1' : incl (loops s1) (loops (if_finish st s1 s2))).
  { intros x Hx. apply L2. apply Le. exact Hx. }
  assert (F2 : ll (cur s2) = true -> In (cur s2) (loops (if_finish st s1 s2))).
  { intros X. apply combine_loops_in; [right; left; reflexivity|exact X]. }
  split; [split|split].
  - intros t v u d0 [H|H] Hs.
    + apply Ge. eapply Ub; eauto.
    + eapply Ue; eauto.
  - intros t [H|H].
    + destruct (Nb t H) as (L1 & S1). split.
      * eapply combine_live with (sc := cur s1); [left; reflexivity|apply live_keeps; exact L1|exact Hl].
      * intros v d0 Hs. eapply combine_sat with (sc := cur s1); [left; reflexivity|apply live_keeps; exact L1|exact Kb|].
        apply S1. exact Hs.
    + destruct (Ne t H) as (L1 & S1). split.
      * eapply combine_live with (sc := cur s2); [right; left; reflexivity|apply live_keeps; exact L1|exact Hl].
      * intros v d0 Hs. eapply combine_sat with (sc := cur s2); [right; left; reflexivity|apply live_keeps; exact L1|exact Ke|].
        apply S1. exact Hs.
  - intros o t Hj [H|H].
    + destruct (Cb o t Hj H) as (sc & Hin & Hll & Hls & Hk & Hs). exists sc.
      pose proof (exits_flow s1 _ sc Hin Hll F1 F1') as X.
      split; [right; exact X|split; [right; exact X|split; [exact Hls|split; [exact Hk|exact Hs]]]].
    + destruct (Ce o t Hj H) as (sc & Hin & Hll & Hls & Hk & Hs). exists sc.
      pose proof (exits_flow s2 _ sc Hin Hll F2 L2) as X.
      split; [right; exact X|split; [right; exact X|split; [exact Hls|split; [exact Hk|exact Hs]]]].
  - intros o t Hj [H|H].
    + eapply hasll_incl; [apply (hasll_flow s1 _ (Eb o t Hj H) F1 F1')|intros x Hx; right; exact Hx].
    + eapply hasll_incl; [apply (hasll_flow s2 _ (Ee o t Hj H) F2 L2)|intros x Hx; right; exact Hx].
Qed.

Lemma case_with : forall sup b, P_b b -> P_s (SWith sup b).
Proof.
  intros sup b IHb Hok st. cbn [lower_ok_s] in Hok. cbn [visit_s].
  destruct sup.
  - set (s1 := visit_b b (enter st)).
    destruct (IHb Hok (enter st)) as (Gb & Kb & Lb & _ & Sb). fold s1 in Gb, Kb, Lb, Sb.
    split; [exact Gb|]. split; [apply suppress_kle|].
    split; [intros x Hx; apply suppress_loops_incl; apply Lb; exact Hx|].
    split; [intros _; reflexivity|].
    intros Hl. destruct (Sb (enter_live _ Hl)) as ((Ub & Nb) & (Cb & Eb)).
    destruct path_assigned as (_ & Pb & _).
    split; [split|split].
    + intros t v u d0 H Hs. cbn [upath_s] in H. eapply Ub; eauto.
    + intros t H. split; [apply suppress_live; exact Hl|].
      intros v d0 Hs. apply suppress_path_sat; auto.
      cbn [path_s] in H. destruct H as [H|(_ & _ & H)]; eauto.
    + intros o t Hj H. cbn [path_s] in H.
      destruct H as [H|(_ & X & _)]; [|exfalso; apply (jump_not_norm o Hj X)].
      destruct (Cb o t Hj H) as (sc & Hin & Hll & Hls & Hk & Hs). exists sc.
      pose proof (exits_flow s1 _ sc Hin Hll (suppress_inner_loops (grouped (assigned_b b)) st s1) (suppress_loops_incl (grouped (assigned_b b)) st s1)) as X.
      split; [right; exact X|split; [right; exact X|split; [exact Hls|split; [exact Hk|exact Hs]]]].
    + intros o t Hj H. cbn [path_s] in H.
      destruct H as [H|(_ & X & _)]; [|exfalso; apply (jump_not_norm o Hj X)].
      eapply hasll_incl; [apply (hasll_flow s1 _ (Eb o t Hj H) (suppress_inner_loops (grouped (assigned_b b)) st s1) (suppress_loops_incl (grouped (assigned_b b)) st s1))|intros x Hx; right; exact Hx].
  - destruct (IHb Hok st) as (Gb & Kb & Lb & Mb & Sb).
    split; [exact Gb|]. split; [exact Kb|]. split; [exact Lb|]. split; [exact Mb|].
    intros Hl. destruct (Sb Hl) as ((Ub & Nb) & (Cb & Eb)). split; [split|split].
    + intros t v u d0 H Hs. cbn [upath_s] in H. eauto.
    + intros t H. cbn [path_s] in H. destruct H as [H|(X & _)]; [auto|discriminate].
    + intros o t Hj H. cbn [path_s] in H. destruct H as [H|(X & _)]; [eauto|discriminate].
    + intros o t Hj H. cbn [path_s] in H. destruct H as [H|(X & _)]; [eauto|discriminate].
Qed.

Lemma case_bcons : forall s r, P_s s -> P_b r -> P_b (BCons s r).
Proof.
  intros s r IHs IHr Hok st. cbn [lower_ok_b] in Hok.
  apply andb_true_iff in Hok. destruct Hok as [Hok Hlast]. apply andb_true_iff in Hok. destruct Hok as [Hoks Hokr].
  cbn [visit_b].
  set (st1 := visit_s s st).
  destruct (IHs Hoks st) as (Gs & Ks & Ls & Ms & Ss). fold st1 in Gs, Ks, Ls, Ms, Ss.
  destruct (IHr Hokr st1) as (Gr & Kr & Lr & Mr & Sr).
  split; [eapply grow_trans; eauto|]. split; [eapply kle_trans; eauto|].
  split; [intros x Hx; apply Lr; apply Ls; exact Hx|].
  split.
  { intros H. cbn [sets_ll_b] in H. apply orb_false_iff in H. destruct H as [H1 H2].
    rewrite (Mr H2). apply Ms. exact H1. }
  intros Hl. destruct (Ss Hl) as ((Us & Ns) & (Cs & Es)). split; [split|split].
  - intros t v u d0 H Hs. cbn [upath_b] in H. destruct H as [H|(t1 & t2 & H1 & H2 & ->)].
    + apply Gr. eapply Us; eauto.
    + destruct (Ns t1 H1) as (L1 & S1). destruct (Sr L1) as ((Ur & _) & _).
      rewrite applyv_app. eapply Ur; eauto.
  - intros t H. cbn [path_b] in H. destruct H as [(t1 & t2 & H1 & H2 & ->)|(X & _)]; [|contradiction].
    destruct (Ns t1 H1) as (L1 & S1). destruct (Sr L1) as ((_ & Nr) & _).
    destruct (Nr t2 H2) as (L2 & S2). split; [exact L2|].
    intros v d0 Hs. rewrite applyv_app. apply S2. apply S1. exact Hs.
  - intros o t Hj H. cbn [path_b] in H. destruct H as [(t1 & t2 & H1 & H2 & ->)|(_ & H)].
    + destruct (Ns t1 H1) as (L1 & S1). destruct (Sr L1) as (_ & (Cr & _)).
      destruct (Cr o t2 Hj H2) as (sc & Hin & Hll & Hls & Hk & Hs). exists sc.
      split; [exact Hin|]. split; [exact Hll|]. split; [exact Hls|]. split; [eapply kle_trans; eauto|].
      intros v d0 Hv. rewrite applyv_app. apply Hs. apply S1. exact Hv.
    + destruct (Cs o t Hj H) as (sc & Hin & Hll & Hls & Hk & Hs). exists sc.
      assert (X : (sc = cur st1 /\ ll sc = true) \/ In sc (loops st1)).
      { destruct Hll as [Hll|Hll]; [|right; exact Hll]. destruct Hin as [<-|Hin]; [left; auto|right; exact Hin]. }
      destruct X as [(-> & Hll1)|Hin1].
      * destruct (sets_ll s) eqn:E.
        -- cbn in Hlast. destruct r; [|discriminate]. cbn [visit_b].
           split; [left; reflexivity|split; [left; exact Hll1|split; [exact Hls|split; [exact Hk|exact Hs]]]].
        -- exfalso. rewrite (Ms eq_refl) in Hll1. destruct Hl as [_ Hl2]. rewrite Hl2 in Hll1. discriminate.
      * pose proof (Lr _ Hin1) as X.
        split; [right; exact X|split; [right; exact X|split; [exact Hls|split; [exact Hk|exact Hs]]]].
  - intros o t Hj H. cbn [path_b] in H. destruct H as [(t1 & t2 & H1 & H2 & ->)|(_ & H)].
    + destruct (Ns t1 H1) as (L1 & S1). destruct (Sr L1) as (_ & (_ & Er)). apply (Er o t2 Hj H2).
    + destruct (Es o t Hj H) as (sc & Hin & Hll & Hls). exists sc. split; [|auto].
      destruct Hin as [<-|Hin].
      * destruct (sets_ll s) eqn:E.
        -- cbn in Hlast. destruct r; [left; reflexivity|discriminate].
        -- exfalso. rewrite (Ms eq_refl) in Hll. destruct Hl as [_ Hl2]. rewrite Hl2 in Hll. discriminate.
      * right. apply Lr. exact Hin.
Qed.

Lemma case_hcons : forall h r, P_b h -> P_hs r -> P_hs (HCons h r).
Proof.
  intros h r IHh IHr Hok dummy failure o. cbn [lower_ok_hs] in Hok. apply andb_true_iff in Hok. destruct Hok as [Hokh Hokr].
  cbn [visit_hs].
  set (en := combine [dummy; failure] (enter o)).
  set (h2 := visit_b h en).
  set (rr := visit_hs r dummy failure (restore o h2)).
  cbn [fst snd].
  destruct (IHh Hokh en) as (Gh & Kh & Lh & _ & Sh). fold h2 in Gh, Kh, Lh, Sh.
  destruct (IHr Hokr dummy failure (restore o h2)) as (Gr & Cr & Lr & Fr & Sr). fold rr in Gr, Cr, Lr, Fr, Sr.
  assert (Ken : kle (vars (cur o)) (vars (cur en))) by (apply (combine_kle _ (enter o))).
  assert (Len' : incl (loops o) (loops en)) by (apply (combine_loops_incl _ (enter o))).
  split; [intros x Hx; apply Gr; apply Gh; exact Hx|].
  split; [exact Cr|].
  split; [intros x Hx; apply Lr; apply Lh; apply Len'; exact Hx|].
  split; [constructor; [eapply kle_trans; eauto|exact Fr]|].
  intros Hll Hk Hkle.
  assert (Hlo : live (cur (enter o))) by (apply live_strip; exact Hll).
  assert (Len : live (cur en)).
  { eapply combine_live with (sc := failure); [right; left; reflexivity|exact Hk|exact Hlo]. }
  assert (Sen : forall v d0, satv v d0 failure -> satv v d0 (cur en)).
  { intros v d0 Hs. eapply combine_sat with (sc := failure); [right; left; reflexivity|exact Hk|exact Hkle|exact Hs]. }
  destruct (Sh Len) as ((Uh & Nh) & (Ch & Eh)).
  destruct (Sr Hll Hk Hkle) as (Ur & Nr & Cr' & Er').
  split; [|split; [|split]].
  - intros t v u d0 H Hs. cbn [upath_hs] in H. destruct H as [H|H].
    + apply Gr. eapply Uh; eauto.
    + eapply Ur; eauto.
  - intros t H. cbn [path_hs] in H. destruct H as [H|H].
    + destruct (Nh t H) as (L1 & S1). exists (cur h2). split; [left; reflexivity|]. split; [apply live_keeps; exact L1|].
      intros v d0 Hs. apply S1. apply Sen. exact Hs.
    + destruct (Nr t H) as (x & Hx & Kx & Sx). exists x. split; [right; exact Hx|]. split; auto.
  - intros o' t Hj H. cbn [path_hs] in H. destruct H as [H|H].
    + destruct (Ch o' t Hj H) as (sc & Hin & Hl1 & Hl2 & Hk1 & Hs). exists sc.
      assert (X : (sc = cur h2 /\ ll sc = true) \/ In sc (loops h2)).
      { destruct Hl1 as [Hl1|Hl1]; [|right; exact Hl1]. destruct Hin as [<-|Hin]; [left; auto|right; exact Hin]. }
      split; [|split; [|split; [exact Hl2|split; [exact (kle_trans _ _ _ Ken Hk1)|]]]].
      * destruct X as [(-> & _)|Hin1]; [left; reflexivity|]. right. apply in_or_app. right. apply Lr. exact Hin1.
      * destruct X as [(-> & Y)|Hin1]; [left; exact Y|]. right. apply Lr. exact Hin1.
      * intros v d0 Hv. apply Hs. apply Sen. exact Hv.
    + destruct (Cr' o' t Hj H) as (sc & Hin & Hl1 & Hl2 & Hk1 & Hs). exists sc.
      split; [|split; [exact Hl1|split; [exact Hl2|split; [exact Hk1|exact Hs]]]].
      apply in_app_or in Hin. destruct Hin as [Hin|Hin]; [right; apply in_or_app; left; exact Hin|].
      right. apply in_or_app. right. exact Hin.
  - intros o' t Hj H. cbn [path_hs] in H. destruct H as [H|H].
    + destruct (Eh o' t Hj H) as (sc & Hin & Hl1 & Hl2). exists sc. split; [|auto].
      destruct Hin as [<-|Hin]; [left; reflexivity|]. right. apply in_or_app. right. apply Lr. exact Hin.
    + destruct (Er' o' t Hj H) as (sc & Hin & Hl1 & Hl2). exists sc. split; [|auto].
      apply in_app_or in Hin. destruct Hin as [Hin|Hin]; [right; apply in_or_app; left; exact Hin|].
      right. apply in_or_app. right. exact Hin.
Qed.

(* visit_try_except, as a function of the state before it *)
Definition try_except (b : block) (hs : handlers) (e : block) (st : state) : state :=
  let s1 := visit_b b (te_body_entry st) in
  let sf := te_after_body b st s1 in
  let e2 := visit_b e (te_else_entry st sf) in
  let hr := visit_hs hs (strip_ls (cur (enter st))) (cur (snd sf)) (te_handlers_entry st sf e2) in
  te_finish st e2 hr.

Definition upath_te (b : block) (hs : handlers) (e : block) (t : trace) (v : var) (u : N) : Prop :=
  upath_b b t v u \/
  (exists ta tb, path_b b ONorm ta /\ upath_b e tb v u /\ t = ta ++ tb) \/
  (exists tx th, path_b b OExc tx /\ upath_hs hs th v u /\ t = tx ++ th).

Lemma try_except_ok : forall b hs e, P_b b -> P_hs hs -> P_b e ->
  lower_ok_b b = true -> lower_ok_hs hs = true -> lower_ok_b e = true ->
  forall st,
  grow st (try_except b hs e st) /\ kle (vars (cur st)) (vars (cur (try_except b hs e st))) /\
  incl (loops st) (loops (try_except b hs e st)) /\
  ll (cur (try_except b hs e st)) = ll (cur st) /\
  (live (cur st) -> snd_ok st (try_except b hs e st) (upath_te b hs e) (path_te b hs e ONorm) /\
                    lcl (cur st) (try_except b hs e st) (path_te b hs e)).
Proof.
  intros b hs e IHb IHhs IHe Hokb Hokh Hoke st. unfold try_except.
  set (s1 := visit_b b (te_body_entry st)).
  set (sf := te_after_body b st s1).
  set (e1 := te_else_entry st sf).
  set (e2 := visit_b e e1).
  set (dummy := strip_ls (cur (enter st))).
  set (failure := cur (snd sf)).
  set (o3 := te_handlers_entry st sf e2).
  set (hr := visit_hs hs dummy failure o3).
  destruct (IHb Hokb (te_body_entry st)) as (Gb & Kb & Lb & _ & Sb). fold s1 in Gb, Kb, Lb, Sb.
  destruct (IHe Hoke e1) as (Ge & Ke & Le & _ & Se). fold e2 in Ge, Ke, Le, Se.
  destruct (IHhs Hokh dummy failure o3) as (Gh & Ch & Lh & Fh & Sh). fold hr in Gh, Ch, Lh, Fh, Sh.
  assert (G1 : grow st e2).
  { intros x Hx. apply Ge. apply Gb. exact Hx. }
  assert (G : grow st (te_finish st e2 hr)).
  { intros x Hx. apply Gh. apply G1. exact Hx. }
  assert (Lsf : incl (loops s1) (loops (snd sf))) by apply suppress_loops_incl.
  assert (Le1 : incl (loops (snd sf)) (loops e1)).
  { apply (combine_loops_incl _ (enter (restore (enter st) (snd sf)))). }
  assert (Lfin : incl (loops (snd hr)) (loops (te_finish st e2 hr))).
  { apply (combine_loops_incl _ (restore st (snd hr))). }
  assert (Le2fin : incl (loops e2) (loops (te_finish st e2 hr))).
  { intros x Hx. apply Lfin. apply Lh. exact Hx. }
  split; [exact G|]. split; [apply (combine_kle _ (restore st (snd hr)))|].
  split; [intros x Hx; apply Le2fin; apply Le; apply Le1; apply Lsf; apply Lb; exact Hx|].
  split; [reflexivity|].
  intros Hl.
  assert (Hl3 : live (cur (te_body_entry st))) by (destruct Hl; split; cbn; auto).
  assert (Hl2 : live (cur (enter (enter st)))) by (destruct Hl; split; cbn; auto).
  destruct (Sb Hl3) as ((Ub & Nb) & (Cb & Eb)).
  destruct path_assigned as (_ & Pb & _).
  assert (Lf : live failure) by (apply suppress_live; exact Hl2).
  assert (Sf : forall o tx v d0, path_b b o tx -> satv v d0 (cur st) -> satv v (applyv tx v d0) failure).
  { intros o tx v d0 Hp Hs. apply suppress_path_sat; eauto. }
  assert (Ke1 : kle (vars (cur st)) (vars (cur e1))).
  { apply (combine_kle _ (enter (restore (enter st) (snd sf)))). }
  assert (Hsucc : forall ta, path_b b ONorm ta -> live (cur e1) /\
            forall v d0, satv v d0 (cur st) -> satv v (applyv ta v d0) (cur e1)).
  { intros ta Ha. destruct (Nb ta Ha) as (L1 & S1). split.
    - eapply combine_live with (sc := cur s1); [left; reflexivity|apply live_keeps; exact L1|].
      apply live_strip. cbn. destruct Hl; auto.
    - intros v d0 Hs. eapply combine_sat with (sc := cur s1); [left; reflexivity|apply live_keeps; exact L1|exact Kb|].
      apply S1. exact Hs. }
  assert (Hll3 : ll (cur o3) = false) by (cbn; destruct Hl; auto).
  assert (Kf : kle (vars (cur o3)) (vars failure)) by (apply (suppress_kle _ (enter (enter st)) s1)).
  destruct (Sh Hll3 (live_keeps _ Lf) Kf) as (Uh & Nh & Chh & Ehh).
  assert (Fe2 : ll (cur e2) = true -> In (cur e2) (loops (te_finish st e2 hr))).
  { intros X. apply combine_loops_in; [left; reflexivity|exact X]. }
  assert (Fs1 : ll (cur s1) = true -> In (cur s1) (loops (te_finish st e2 hr))).
  { intros X. apply Le2fin. apply Le. apply Le1. apply suppress_inner_loops. exact X. }
  assert (Fs1' : incl (loops s1) (loops (te_finish st e2 hr))).
  { intros x Hx. apply Le2fin. apply Le. apply Le1. apply Lsf. exact Hx. }
  assert (Fhs : forall sc, In sc (fst hr ++ loops (snd hr)) -> (ll sc = true \/ In sc (loops (snd hr))) -> In sc (loops (te_finish st e2 hr))).
  { intros sc Hin Hq. destruct Hq as [Hq|Hq]; [|apply Lfin; exact Hq].
    apply in_app_or in Hin. destruct Hin as [Hin|Hin]; [apply combine_loops_in; [right; exact Hin|exact Hq]|apply Lfin; exact Hin]. }
  split; [split|split].
  - intros t v u d0 H Hs. destruct H as [H|[(ta & tb & Ha & Hb & ->)|(tx & th & Hx & Hh & ->)]].
    + apply Gh. apply Ge. eapply Ub; eauto.
    + destruct (Hsucc ta Ha) as (L1 & S1). destruct (Se L1) as ((Ue & _) & _).
      apply Gh. rewrite applyv_app. eapply Ue; eauto.
    + rewrite applyv_app. eapply Uh; eauto.
  - intros t H. destruct H as [(ta & tb & Ha & Hb & ->)|[([X|[X|X]] & _)|(tx & Hx & [(th & Hh & ->)|(X & _)])]];
      try discriminate.
    + destruct (Hsucc ta Ha) as (L1 & S1). destruct (Se L1) as ((_ & Ne) & _).
      destruct (Ne tb Hb) as (L2 & S2). split.
      * eapply combine_live with (sc := cur e2); [left; reflexivity|apply live_keeps; exact L2|exact Hl].
      * intros v d0 Hs. rewrite applyv_app.
        eapply combine_sat with (sc := cur e2); [left; reflexivity|apply live_keeps; exact L2|exact (kle_trans _ _ _ Ke1 Ke)|].
        apply S2. apply S1. exact Hs.
    + destruct (Nh th Hh) as (h & Hin & Kh & Shh).
      assert (Kle_h : kle (vars (cur st)) (vars h)).
      { rewrite Forall_forall in Fh. apply (Fh h Hin). }
      split.
      * eapply combine_live with (sc := h); [right; exact Hin|exact Kh|exact Hl].
      * intros v d0 Hs. rewrite applyv_app.
        eapply combine_sat with (sc := h); [right; exact Hin|exact Kh|exact Kle_h|].
        apply Shh. eapply Sf; eauto.
  - intros o t Hj H. destruct H as [(ta & tb & Ha & Hb & ->)|[(_ & Ha)|(tx & Hx & [(th & Hh & ->)|(X & _)])]].
    + destruct (Hsucc ta Ha) as (L1 & S1). destruct (Se L1) as (_ & (Ce & _)).
      destruct (Ce o tb Hj Hb) as (sc & Hin & Hq1 & Hq2 & Hk & Hs). exists sc.
      pose proof (exits_flow e2 _ sc Hin Hq1 Fe2 Le2fin) as X.
      split; [right; exact X|split; [right; exact X|split; [exact Hq2|split; [exact (kle_trans _ _ _ Ke1 Hk)|]]]].
      intros v d0 Hv. rewrite applyv_app. apply Hs. apply S1. exact Hv.
    + destruct (Cb o t Hj Ha) as (sc & Hin & Hq1 & Hq2 & Hk & Hs). exists sc.
      pose proof (exits_flow s1 _ sc Hin Hq1 Fs1 Fs1') as X.
      split; [right; exact X|split; [right; exact X|split; [exact Hq2|split; [exact Hk|exact Hs]]]].
    + destruct (Chh o th Hj Hh) as (sc & Hin & Hq1 & Hq2 & Hk & Hs). exists sc.
      pose proof (Fhs sc Hin Hq1) as X.
      split; [right; exact X|split; [right; exact X|split; [exact Hq2|split; [exact Hk|]]]].
      intros v d0 Hv. rewrite applyv_app. apply Hs. eapply Sf; eauto.
    + exfalso. subst o. destruct Hj; discriminate.
  - intros o t Hj H. destruct H as [(ta & tb & Ha & Hb & ->)|[(_ & Ha)|(tx & Hx & [(th & Hh & ->)|(X & _)])]].
    + destruct (Hsucc ta Ha) as (L1 & S1). destruct (Se L1) as (_ & (_ & Ee)).
      eapply hasll_incl; [apply (hasll_flow e2 _ (Ee o tb Hj Hb) Fe2 Le2fin)|intros x Hx; right; exact Hx].
    + eapply hasll_incl; [apply (hasll_flow s1 _ (Eb o t Hj Ha) Fs1 Fs1')|intros x Hx; right; exact Hx].
    + destruct (Ehh o th Hj Hh) as (sc & Hin & Hq1 & Hq2). exists sc. split; [|auto].
      right. apply (Fhs sc Hin (or_introl Hq1)).
    + exfalso. subst o. destruct Hj; discriminate.
Qed.

Lemma path_te_no_free_jump : forall b hs e o t,
  free_jump_b b = false -> free_jump_hs hs = false -> free_jump_b e = false ->
  path_te b hs e o t -> ~ is_jump o.
Proof.
  intros b hs e o t Hb Hh He H. destruct no_free_jump_outcome as (_ & NB & NH).
  destruct H as [(ta & tb & _ & H & _)|[(_ & H)|(tx & _ & [(th & H & _)|(-> & _)])]]; eauto.
  intros [X|X]; discriminate.
Qed.

Lemma fin_mid_loops : forall jump st sf g2, incl (loops g2) (loops (fin_mid jump st sf g2)).
Proof.
  intros jump st sf g2 x Hx. unfold fin_mid. destruct ((jump || ll (cur g2)) && negb (ls (cur g2))); cbn [loops restore].
  - apply in_or_app. left. exact Hx.
  - exact Hx.
Qed.

Lemma fin_mid_appended : forall jump st sf g2, (jump || ll (cur g2)) = true -> ls (cur g2) = false ->
  In (cur g2) (loops (fin_mid jump st sf g2)).
Proof.
  intros jump st sf g2 H1 H2. unfold fin_mid. rewrite H1, H2. cbn [negb andb loops]. apply in_or_app. right. left. reflexivity.
Qed.

Lemma fin_mid_cur : forall jump st sf g2, cur (fin_mid jump st sf g2) = cur st.
Proof. intros. unfold fin_mid. destruct ((jump || ll (cur g2)) && negb (ls (cur g2))); reflexivity. Qed.

Lemma fin_mid_u2d : forall jump st sf g2, u2d (fin_mid jump st sf g2) = u2d g2.
Proof. intros. unfold fin_mid. destruct ((jump || ll (cur g2)) && negb (ls (cur g2))); reflexivity. Qed.

Lemma te_jump_free : forall b hs e o t, is_jump o -> path_te b hs e o t ->
  free_jump_b b || free_jump_hs hs || free_jump_b e = true.
Proof.
  intros b hs e o t Hj H.
  destruct (free_jump_b b) eqn:E1; [reflexivity|]. destruct (free_jump_hs hs) eqn:E2; [reflexivity|].
  destruct (free_jump_b e) eqn:E3; [reflexivity|]. exfalso.
  apply (path_te_no_free_jump b hs e o t E1 E2 E3 H). exact Hj.
Qed.

Lemma case_try : forall b hs e f, P_b b -> P_hs hs -> P_b e -> P_b f -> P_s (STry b hs e f).
Proof.
  intros b hs e f IHb IHhs IHe IHf Hok st. cbn [lower_ok_s] in Hok.
  apply andb_true_iff in Hok. destruct Hok as [Hok Hokf].
  apply andb_true_iff in Hok. destruct Hok as [Hok Hoke]. apply andb_true_iff in Hok. destruct Hok as [Hokb Hokh].
  pose proof (try_except_ok b hs e IHb IHhs IHe Hokb Hokh Hoke) as TE.
  cbn [visit_s]. fold (try_except b hs e).
  destruct f as [|fs fr].
  - cbn [is_nil]. destruct (TE st) as (G & K & L & M & S). split; [exact G|]. split; [exact K|].
    split; [exact L|]. split; [intros _; exact M|].
    intros Hl. destruct (S Hl) as ((U & N) & (C & E)). split; [split|split].
    + intros t v u d0 H Hs. cbn [upath_s] in H. destruct H as [H|[H|[H|(o1 & t1 & t2 & _ & H & _)]]].
      * eapply U; eauto. left. exact H.
      * eapply U; eauto. right. left. exact H.
      * eapply U; eauto. right. right. exact H.
      * destruct H.
    + intros t H. cbn [path_s path_b] in H. destruct H as (o1 & t1 & o2 & t2 & Hte & (-> & ->) & -> & <-).
      rewrite app_nil_r. apply N. exact Hte.
    + intros o t Hj H. cbn [path_s path_b] in H. destruct H as (o1 & t1 & o2 & t2 & Hte & (-> & ->) & -> & ->).
      rewrite app_nil_r. apply (C o1 t1 Hj Hte).
    + intros o t Hj H. cbn [path_s path_b] in H. destruct H as (o1 & t1 & o2 & t2 & Hte & (-> & ->) & -> & ->).
      apply (E o1 t1 Hj Hte).
  - set (f := BCons fs fr) in *. cbn [is_nil].
    set (jump := free_jump_b b || free_jump_hs hs || free_jump_b e).
    set (A := assigned_b b ++ assigned_hs hs ++ assigned_b e).
    set (tt := try_except b hs e (fin_te_entry st)).
    set (sf := fin_after_te A st tt).
    set (g1 := fin_first_entry st sf).
    set (g2 := visit_b f g1).
    set (mid := fin_mid jump st sf g2).
    set (g3 := fin_second_entry jump st sf g2).
    destruct (TE (fin_te_entry st)) as (Gt & Kt & Lt & _ & St). fold tt in Gt, Kt, Lt, St.
    destruct (IHf Hokf g1) as (Gf1 & Kf1 & Lf1 & _ & Sf1). fold g2 in Gf1, Kf1, Lf1, Sf1.
    destruct (IHf Hokf g3) as (Gf2 & Kf2 & Lf2 & Mf2 & Sf2).
    assert (G2 : grow st g2).
    { intros x Hx. apply Gf1. apply Gt. exact Hx. }
    assert (G3 : grow g2 g3).
    { intros x Hx. unfold g3, fin_second_entry. rewrite combine_u2d. rewrite fin_mid_u2d. exact Hx. }
    split; [intros x Hx; apply Gf2; apply G3; apply G2; exact Hx|].
    assert (K3 : kle (vars (cur st)) (vars (cur g3))).
    { unfold g3, fin_second_entry. pose proof (combine_kle [fst sf] (fin_mid jump st sf g2)) as X.
      rewrite fin_mid_cur in X. exact X. }
    split; [eapply kle_trans; eauto|].
    assert (Lsf : incl (loops tt) (loops (snd sf))) by (apply (suppress_loops_incl _ (enter st) tt)).
    assert (Lg1 : incl (loops (snd sf)) (loops g1)) by (apply (combine_loops_incl _ (enter (restore st (snd sf))))).
    assert (Lg3 : incl (loops g2) (loops g3)).
    { intros x Hx. apply (combine_loops_incl _ (fin_mid jump st sf g2)). apply fin_mid_loops. exact Hx. }
    assert (Ltt_fin : incl (loops tt) (loops (visit_b f g3))).
    { intros x Hx. apply Lf2. apply Lg3. apply Lf1. apply Lg1. apply Lsf. exact Hx. }
    split; [intros x Hx; apply Ltt_fin; apply Lt; exact Hx|].
    split.
    { intros Hs. cbn [sets_ll] in Hs. transitivity (ll (cur g3)); [exact (Mf2 Hs)|].
      unfold g3, fin_second_entry. cbn [combine cur ll]. rewrite fin_mid_cur. reflexivity. }
    intros Hl.
    assert (Hl2 : live (cur (fin_te_entry st))) by (destruct Hl; split; cbn; auto).
    destruct (St Hl2) as ((Ut & Nt) & (Ct & Et)).
    set (failure := cur (snd sf)).
    assert (Lf : live failure) by (apply suppress_live; apply enter_live; exact Hl).
    assert (Kf : kle (vars (cur st)) (vars failure)) by (apply (suppress_kle _ (enter st) tt)).
    assert (Lvg1 : live (cur g1)).
    { eapply combine_live with (sc := failure); [left; reflexivity|apply live_keeps; exact Lf|].
      apply (enter_live (restore st (snd sf))). exact Hl. }
    assert (Kg1 : kle (vars (cur st)) (vars (cur g1))) by (apply (combine_kle _ (enter (restore st (snd sf))))).
    assert (Sg1 : forall o1 t1 v d0, path_te b hs e o1 t1 -> satv v d0 (cur st) -> satv v (applyv t1 v d0) (cur g1)).
    { intros o1 t1 v d0 Hp Hs.
      eapply combine_sat with (sc := failure); [left; reflexivity|apply live_keeps; exact Lf|exact Kf|].
      apply suppress_path_sat; [apply enter_live; exact Hl|eapply path_te_assigned; eauto|exact Hs]. }
    destruct (Sf1 Lvg1) as ((Uf1 & Nf1) & (Cf1 & Ef1)).
    assert (Lmid : live (cur mid)) by (unfold mid; rewrite fin_mid_cur; exact Hl).
    (* scopes of the try/except part that hold LEAVES_LOOP stay exits of the loop body *)
    assert (Ftt : ll (cur tt) = true -> In (cur tt) (loops (visit_b f g3))).
    { intros X. apply Lf2. apply Lg3. apply Lf1. apply Lg1. apply (suppress_inner_loops _ (enter st) tt). exact X. }
    (* the interrupted scope, when it joins the loop list *)
    assert (Fg2 : (jump || ll (cur g2)) = true -> ls (cur g2) = false -> In (cur g2) (loops (visit_b f g3))).
    { intros X Y. apply Lf2. apply (combine_loops_incl _ (fin_mid jump st sf g2)). apply fin_mid_appended; assumption. }
    assert (Fg2' : incl (loops g2) (loops (visit_b f g3))) by (intros x Hx; apply Lf2; apply Lg3; exact Hx).
    split; [split|split].
    + intros t v u d0 H Hs. cbn [upath_s] in H. destruct H as [H|[H|[H|(o1 & t1 & t2 & Hte & H & ->)]]].
      * apply Gf2. apply G3. apply Gf1. eapply Ut; eauto. left. exact H.
      * apply Gf2. apply G3. apply Gf1. eapply Ut; eauto. right. left. exact H.
      * apply Gf2. apply G3. apply Gf1. eapply Ut; eauto. right. right. exact H.
      * apply Gf2. apply G3. rewrite applyv_app. eapply Uf1; eauto.
    + intros t H. cbn [path_s] in H. destruct H as (o1 & t1 & o2 & t2 & Hte & Hf & -> & Ho).
      destruct o2; try discriminate. subst o1.
      destruct (Nt t1 Hte) as (L1 & S1).
      assert (Lvg3 : live (cur g3)).
      { eapply combine_live with (sc := cur tt); [left; reflexivity|apply live_keeps; exact L1|exact Lmid]. }
      destruct (Sf2 Lvg3) as ((_ & Nf2) & _). destruct (Nf2 t2 Hf) as (L2 & S2).
      split; [exact L2|]. intros v d0 Hs. rewrite applyv_app. apply S2.
      eapply combine_sat with (sc := cur tt); [left; reflexivity|apply live_keeps; exact L1| |].
      * unfold mid. rewrite fin_mid_cur. exact Kt.
      * apply S1. exact Hs.
    + (* coverage of paths ending in break/continue *)
      intros o t Hj H. cbn [path_s] in H. destruct H as (o1 & t1 & o2 & t2 & Hte & Hf & -> & Ho).
      destruct (outcome_norm_dec o2) as [->|Hn2].
      * (* the try/except part jumps, the finally block completes *)
        subst o1. destruct (Nf1 t2 Hf) as (L2 & S2). exists (cur g2).
        assert (X : In (cur g2) (loops (visit_b f g3))).
        { apply Fg2; [|destruct L2; assumption]. unfold jump. rewrite (te_jump_free b hs e o t1 Hj Hte). reflexivity. }
        split; [right; exact X|split; [right; exact X|split; [destruct L2; assumption|split; [exact (kle_trans _ _ _ Kg1 Kf1)|]]]].
        intros v d0 Hs. rewrite applyv_app. apply S2. eapply Sg1; eauto.
      * (* the finally block itself ends in break/continue *)
        assert (Ho2 : o = o2) by (destruct o2; congruence). clear Ho. subst o.
        destruct (outcome_norm_dec o1) as [->|Hn1].
        -- destruct (Nt t1 Hte) as (L1 & S1).
           assert (Lvg3 : live (cur g3)).
           { eapply combine_live with (sc := cur tt); [left; reflexivity|apply live_keeps; exact L1|exact Lmid]. }
           destruct (Sf2 Lvg3) as (_ & (Cf2 & _)).
           destruct (Cf2 o2 t2 Hj Hf) as (sc & Hin & Hq1 & Hq2 & Hk & Hs). exists sc.
           split; [exact Hin|split; [exact Hq1|split; [exact Hq2|split; [exact (kle_trans _ _ _ K3 Hk)|]]]].
           intros v d0 Hv. rewrite applyv_app. apply Hs.
           eapply combine_sat with (sc := cur tt); [left; reflexivity|apply live_keeps; exact L1| |].
           ++ unfold mid. rewrite fin_mid_cur. exact Kt.
           ++ apply S1. exact Hv.
        -- destruct (Cf1 o2 t2 Hj Hf) as (sc & Hin & Hq1 & Hq2 & Hk & Hs). exists sc.
           assert (X : In sc (loops (visit_b f g3))).
           { destruct Hq1 as [Hq1|Hq1]; [|apply Fg2'; exact Hq1].
             destruct Hin as [<-|Hin]; [|apply Fg2'; exact Hin].
             apply Fg2; [rewrite Hq1; apply orb_true_r|exact Hq2]. }
           split; [right; exact X|split; [right; exact X|split; [exact Hq2|split; [exact (kle_trans _ _ _ Kg1 Hk)|]]]].
           intros v d0 Hv. rewrite applyv_app. apply Hs. eapply Sg1; eauto.
    + (* some exit scope holds LEAVES_LOOP *)
      intros o t Hj H. cbn [path_s] in H. destruct H as (o1 & t1 & o2 & t2 & Hte & Hf & -> & Ho).
      destruct (outcome_norm_dec o2) as [->|Hn2].
      * subst o1. eapply hasll_incl; [apply (hasll_flow tt _ (Et o t1 Hj Hte) Ftt Ltt_fin)|intros x Hx; right; exact Hx].
      * assert (Ho2 : o = o2) by (destruct o2; congruence). clear Ho. subst o.
        destruct (outcome_norm_dec o1) as [->|Hn1].
        -- destruct (Nt t1 Hte) as (L1 & S1).
           assert (Lvg3 : live (cur g3)).
           { eapply combine_live with (sc := cur tt); [left; reflexivity|apply live_keeps; exact L1|exact Lmid]. }
           destruct (Sf2 Lvg3) as (_ & (_ & Ef2)). apply (Ef2 o2 t2 Hj Hf).
        -- destruct (Ef1 o2 t2 Hj Hf) as (sc & Hin & Hq1 & Hq2). exists sc. split; [|auto]. right.
           destruct Hin as [<-|Hin]; [|apply Fg2'; exact Hin].
           apply Fg2; [rewrite Hq1; apply orb_true_r|exact Hq2].
Qed.

Lemma case_loop : forall k b e, P_b b -> P_b e -> P_s (SLoop k b e).
Proof.
  intros k b e IHb IHe Hok st. cbn [lower_ok_s] in Hok. apply andb_true_iff in Hok. destruct Hok as [Hokb Hoke].
  cbn [visit_s].
  remember (is_always k) as fv eqn:Hfv. remember (is_forever k) as fo eqn:Hfo.
  set (m0 := loop_body_entry st).
  set (m1 := visit_b b m0).
  set (o2 := loop_after_body st m1).
  set (st2 := loop_st2 fv st o2).
  set (e1 := loop_else_entry fv e st2 o2).
  set (e2 := visit_b e e1).
  set (st4 := loop_st4 fv st2 o2 e2).
  set (r1 := visit_b b (enter st4)).
  set (body := cur o2).
  set (fin := loop_finish fo (loop_scopes m1) (restore st4 r1)).
  destruct (IHb Hokb m0) as (Gb1 & Kb1 & _ & _ & Sb1). fold m1 in Gb1, Kb1, Sb1.
  destruct (IHe Hoke e1) as (Ge & Ke & Le & _ & Se). fold e2 in Ge, Ke, Le, Se.
  destruct (IHb Hokb (enter st4)) as (Gb2 & Kb2 & Lb2 & _ & Sb2). fold r1 in Gb2, Kb2, Lb2, Sb2.
  assert (Ge1 : grow st e1).
  { intros x Hx. unfold e1. rewrite loop_else_entry_u2d. unfold st2. rewrite loop_st2_u2d.
    apply Gb1. exact Hx. }
  assert (Ge2 : grow st e2) by (eapply grow_trans; eauto).
  assert (G : grow st fin).
  { intros x Hx. unfold fin. rewrite loop_finish_u2d. apply Gb2. apply Ge2. exact Hx. }
  split; [exact G|].
  assert (K2 : kle (vars (cur st)) (vars (cur st2))) by apply loop_st2_kle.
  assert (K4 : kle (vars (cur st2)) (vars (cur st4))) by (apply (combine_kle _ (restore st2 e2))).
  split; [unfold fin; rewrite loop_finish_vars; exact (kle_trans _ _ _ K2 K4)|].
  assert (L4 : incl (loops e2) (loops st4)) by (apply (combine_loops_incl _ (restore st2 e2))).
  assert (L4f : incl (loops st4) (loops fin)).
  { intros x Hx. unfold fin. rewrite loop_finish_loops. apply Lb2. exact Hx. }
  assert (Lst : incl (loops st) (loops e1)).
  { intros x Hx. apply loop_else_entry_loops. apply loop_st2_loops.
    apply (combine_loops_incl _ (mkState (cur (enter st)) (loops st) (u2d m1))). exact Hx. }
  split; [intros x Hx; apply L4f; apply L4; apply Le; apply Lst; exact Hx|].
  split.
  { intros _. unfold fin. rewrite loop_finish_ll. cbn [restore cur]. unfold st4, loop_st4. cbn [combine cur ll restore].
    apply loop_st2_ll. }
  intros Hl.
  assert (Lm0 : live (cur m0)) by (destruct Hl; split; cbn; auto).
  destruct (Sb1 Lm0) as ((Ub1 & Nb1) & (Cb1 & Eb1)).
  assert (Kbody : kle (vars (cur st)) (vars body)).
  { apply (combine_kle _ (mkState (cur (enter st)) (loops st) (u2d m1))). }
  assert (LX : live (cur (mkState (cur (enter st)) (loops st) (u2d m1)))) by (destruct Hl; split; cbn; auto).
  (* one round started in the state before the loop, ending normally or in break/continue *)
  assert (F1 : forall o t, o = ONorm \/ is_jump o -> path_b b o t -> live body /\
             forall v d0, satv v d0 (cur st) -> satv v (applyv t v d0) body).
  { intros o t [->|Hj] Ht.
    - destruct (Nb1 t Ht) as (L1 & S1).
      assert (Hk : keeps (strip_ll (cur m1)) = true) by (apply live_keeps; destruct L1; split; cbn; auto).
      split.
      + eapply combine_live with (sc := strip_ll (cur m1)); [left; reflexivity|exact Hk|exact LX].
      + intros v d0 Hs. eapply combine_sat with (sc := strip_ll (cur m1)); [left; reflexivity|exact Hk|exact Kb1|].
        apply (S1 v d0). exact Hs.
    - destruct (Cb1 o t Hj Ht) as (sc & Hin & Hq1 & Hq2 & Hk1 & Hs).
      assert (Hk : keeps (strip_ll sc) = true) by (unfold keeps; cbn; rewrite Hq2; reflexivity).
      assert (HinL : In (strip_ll sc) (map strip_ll (loop_scopes m1))) by (apply in_map; exact Hin).
      clear Hq1.
      split.
      + eapply combine_live with (sc := strip_ll sc); [exact HinL|exact Hk|exact LX].
      + intros v d0 Hv. eapply combine_sat with (sc := strip_ll sc); [exact HinL|exact Hk|exact Hk1|].
        apply (Hs v d0). exact Hv. }
  (* the binding at the loop head: the one before the loop, or one possible after the body *)
  assert (F2 : forall th, iters (fun x => path_b b ONorm x \/ path_b b OCont x) th ->
             forall v d0, satv v d0 (cur st) ->
             applyv th v d0 = d0 \/ (live body /\ satv v (applyv th v d0) body)).
  { intros th Hi. induction Hi as [|t1 t2 H1 IH H2]; intros v d0 Hs; [left; reflexivity|].
    assert (HF : live body /\ forall v d0, satv v d0 (cur st) -> satv v (applyv t2 v d0) body).
    { destruct H2 as [H2|H2]; [apply (F1 ONorm t2); auto|apply (F1 OCont t2); auto].
      right. right. reflexivity. }
    destruct HF as (Lb & Sb). rewrite applyv_app.
    destruct (applyv_cases t2 v (applyv t1 v d0) d0) as [E|(E1 & E2)].
    - right. split; [exact Lb|]. rewrite E. apply Sb. exact Hs.
    - destruct (IH v d0 Hs) as [E3|(_ & S3)].
      + left. rewrite E1. exact E3.
      + right. split; [exact Lb|]. rewrite E1. exact S3. }
  (* a round from a head state ends in a binding possible after the body *)
  assert (F2' : forall o t2 v d0 a, o = ONorm \/ is_jump o -> path_b b o t2 -> satv v d0 (cur st) ->
             (a = d0 \/ (live body /\ satv v a body)) -> live body /\ satv v (applyv t2 v a) body).
  { intros o t2 v d0 a Ho Hp Hs Ha. destruct (F1 o t2 Ho Hp) as (Lb & Sb). split; [exact Lb|].
    destruct (applyv_cases t2 v a d0) as [E|(E1 & E2)].
    - rewrite E. apply Sb. exact Hs.
    - rewrite E1. destruct Ha as [->|(_ & Sa)]; [|exact Sa]. rewrite <- E2. apply Sb. exact Hs. }
  (* the state after the loop covers everything possible after the body *)
  assert (F3 : live body -> live (cur st4) /\ forall v a, satv v a body -> satv v a (cur st4)).
  { intros Lb. unfold st4, loop_st4, st2, loop_st2, loop_bs. destruct fv.
    - set (c2 := combine [cur o2] (restore st o2)).
      assert (Lc2 : live (cur c2)).
      { eapply combine_live with (sc := body); [left; reflexivity|apply live_keeps; exact Lb|exact Hl]. }
      assert (Sc2 : forall v a, satv v a body -> satv v a (cur c2)).
      { intros v a Hs. eapply combine_sat with (sc := body); [left; reflexivity|apply live_keeps; exact Lb|exact Kbody|exact Hs]. }
      assert (Hk : keeps (strip_ls (cur c2)) = true) by (apply live_keeps; destruct Lc2; split; cbn; auto).
      split.
      + eapply combine_live with (sc := strip_ls (cur c2)); [left; reflexivity|exact Hk|exact Lc2].
      + intros v a Hs. apply (combine_sat _ (restore c2 e2) (strip_ls (cur c2))); [left; reflexivity|exact Hk|apply kle_refl|].
        apply Sc2. exact Hs.
    - split.
      + eapply combine_live with (sc := body); [left; reflexivity|apply live_keeps; exact Lb|exact Hl].
      + intros v a Hs. apply (combine_sat _ (restore (restore st o2) e2) body); [left; reflexivity|apply live_keeps; exact Lb|exact Kbody|exact Hs]. }
  (* the else clause (only for loops that may end normally) *)
  assert (F4 : fv = false -> is_nil e = false -> live (cur e1) /\
            forall v d0 a, satv v d0 (cur st) -> (a = d0 \/ (live body /\ satv v a body)) -> satv v a (cur e1)).
  { intros -> Hn. unfold e1, loop_else_entry, st2, loop_st2. rewrite Hn. cbn [negb andb].
    set (x := enter (restore st o2)).
    assert (Lx : live (cur x)) by (destruct Hl; split; cbn; auto).
    split.
    - eapply combine_live with (sc := cur x); [left; reflexivity|apply live_keeps; exact Lx|exact Lx].
    - intros v d0 a Hs [->|(Lb & Sa)].
      + apply (combine_sat _ x (cur x)); [left; reflexivity|apply live_keeps; exact Lx|apply kle_refl|exact Hs].
      + apply (combine_sat _ x body); [right; left; reflexivity|apply live_keeps; exact Lb|exact Kbody|exact Sa]. }
  (* a loop that runs at least once: after at least one round the binding is one possible after
     the body, and the else clause starts from the state after the body *)
  assert (FA : k = LAlways -> forall th, iters1_of iters (fun x => path_b b ONorm x \/ path_b b OCont x) th ->
            live body /\ (forall v d0, satv v d0 (cur st) -> satv v (applyv th v d0) body) /\
            live (cur st2) /\ live (cur e1) /\ (forall v a, satv v a body -> satv v a (cur e1)) /\
            kle (vars (cur st2)) (vars (cur e1))).
  { intros Hk th (t1 & t2 & Hi1 & Hr & ->). subst k. cbn in Hfv. subst fv.
    assert (Ho : ONorm = ONorm \/ is_jump ONorm) by (left; reflexivity).
    assert (HF : live body /\ forall v d0, satv v d0 (cur st) -> satv v (applyv (t1 ++ t2) v d0) body).
    { destruct Hr as [Hr|Hr].
      - split; [apply (F1 ONorm t2 (or_introl eq_refl) Hr)|].
        intros v d0 Hs. rewrite applyv_app. apply (F2' ONorm t2 v d0 _ (or_introl eq_refl) Hr Hs). apply F2; assumption.
      - assert (Hc : OCont = ONorm \/ is_jump OCont) by (right; right; reflexivity).
        split; [apply (F1 OCont t2 Hc Hr)|].
        intros v d0 Hs. rewrite applyv_app. apply (F2' OCont t2 v d0 _ Hc Hr Hs). apply F2; assumption. }
    destruct HF as (Lb & Sb). split; [exact Lb|]. split; [exact Sb|].
    unfold e1, loop_else_entry, st2, loop_st2. rewrite andb_false_r.
    set (c2 := combine [cur o2] (restore st o2)).
    assert (Lc2 : live (cur c2)).
    { eapply combine_live with (sc := body); [left; reflexivity|apply live_keeps; exact Lb|exact Hl]. }
    split; [exact Lc2|]. split; [apply enter_live; exact Lc2|]. split; [|apply kle_refl].
    intros v a Hs. eapply combine_sat with (sc := body); [left; reflexivity|apply live_keeps; exact Lb|exact Kbody|exact Hs]. }
  assert (Ke1 : kle (vars (cur st)) (vars (cur e1))).
  { unfold e1, loop_else_entry. destruct (negb (is_nil e) && negb fv).
    - eapply kle_trans; [exact K2|]. apply (combine_kle _ (enter st2)).
    - exact K2. }
  assert (Gm1 : incl (u2d m1) (u2d r1)).
  { intros x Hx. apply Gb2. apply Ge. unfold e1. rewrite loop_else_entry_u2d. unfold st2. rewrite loop_st2_u2d. exact Hx. }
  split; [split|split].
  - intros t v u d0 H Hs. cbn [upath_s] in H. destruct H as (th & t2 & Hi & -> & H).
    unfold fin. rewrite loop_finish_u2d. cbn [restore u2d]. rewrite applyv_app.
    pose proof (F2 th Hi v d0 Hs) as Hd.
    destruct H as [H|(Hel & H)].
    + destruct Hd as [E|(Lb & Sa)].
      * rewrite E. apply Gm1. eapply Ub1; eauto.
      * destruct (F3 Lb) as (L4' & S4). destruct (Sb2 (enter_live _ L4')) as ((Ub2 & _) & _). apply (Ub2 t2 v u _ H). apply S4. exact Sa.
    + destruct k; cbn [else_ok] in Hel; [|clear Hd|destruct Hel].
      * cbn in Hfv. subst fv.
        destruct e as [|es er]; [destruct H|]. destruct (F4 eq_refl eq_refl) as (Le1 & Se1).
        destruct (Se Le1) as ((Ue & _) & _). apply Gb2. eapply Ue; eauto.
      * destruct (FA eq_refl th Hel) as (Lb & Sb & _ & Le1 & Se1 & _).
        destruct (Se Le1) as ((Ue & _) & _). apply Gb2. eapply Ue; eauto.
  - intros t H. cbn [path_s] in H. destruct H as (th & t2 & Hi & -> & H).
    destruct H as [(Hel & He)|[(_ & Hbrk)|([X|X] & _)]]; try discriminate.
    + destruct k; cbn [else_ok] in Hel; [| |destruct Hel].
      2:{ destruct (FA eq_refl th Hel) as (Lb & Sb & Lst2 & Le1 & Se1 & Kst2).
          destruct (Se Le1) as ((_ & Ne) & _). destruct (Ne t2 He) as (L2 & S2).
          cbn in Hfo. subst fo. unfold fin, loop_finish. cbn [andb restore cur].
          split.
          - apply (combine_live _ (restore st2 e2) (cur e2)); [right; left; reflexivity|apply live_keeps; exact L2|exact Lst2].
          - intros v d0 Hs. rewrite applyv_app.
            apply (combine_sat _ (restore st2 e2) (cur e2)); [right; left; reflexivity|apply live_keeps; exact L2|exact (kle_trans _ _ _ Kst2 Ke)|].
            apply S2. apply Se1. apply Sb. exact Hs. }
      cbn in Hfv, Hfo. subst fv fo.
      unfold fin, loop_finish. cbn [andb restore cur].
      destruct e as [|es er].
      * cbn [path_b] in He. destruct He as (_ & ->). rewrite app_nil_r.
        assert (Lx : live (cur e2)) by (destruct Hl; split; cbn; auto).
        split.
        -- apply (combine_live _ (restore st2 e2) (cur e2)); [right; left; reflexivity|apply live_keeps; exact Lx|exact Hl].
        -- intros v d0 Hs. destruct (F2 th Hi v d0 Hs) as [E|(Lb & Sa)].
           ++ rewrite E. apply (combine_sat _ (restore st2 e2) (cur e2)); [right; left; reflexivity|apply live_keeps; exact Lx|apply kle_refl|exact Hs].
           ++ apply (combine_sat _ (restore st2 e2) body); [left; reflexivity|apply live_keeps; exact Lb|exact Kbody|exact Sa].
      * destruct (F4 eq_refl eq_refl) as (Le1 & Se1). destruct (Se Le1) as ((_ & Ne) & _).
        destruct (Ne t2 He) as (L2 & S2).
        split.
        -- apply (combine_live _ (restore st2 e2) (cur e2)); [right; left; reflexivity|apply live_keeps; exact L2|exact Hl].
        -- intros v d0 Hs. rewrite applyv_app.
           apply (combine_sat _ (restore st2 e2) (cur e2)); [right; left; reflexivity|apply live_keeps; exact L2|exact (kle_trans _ _ _ Ke1 Ke)|].
           apply S2. apply (Se1 v d0); auto.
    + (* left through break *)
      assert (Hjb : is_jump OBrk) by (left; reflexivity).
      destruct (Eb1 OBrk t2 Hjb Hbrk) as (sc & Hin & Hq1 & _).
      unfold fin. rewrite (loop_finish_keep fo _ _ sc Hin Hq1). cbn [restore cur].
      destruct (F1 OBrk t2 (or_intror Hjb) Hbrk) as (Lb & _).
      destruct (F3 Lb) as (L4' & S4). split; [exact L4'|].
      intros v d0 Hs. rewrite applyv_app. apply S4.
      apply (F2' OBrk t2 v d0 _ (or_intror Hjb) Hbrk Hs). apply F2; assumption.
  - intros o t Hj H. cbn [path_s] in H. destruct H as (th & t2 & Hi & -> & H).
    destruct H as [(Hel & He)|[(X & _)|([X|X] & _)]];
      try (exfalso; subst o; destruct Hj; discriminate).
    assert (HE : live (cur e1) /\ forall v d0, satv v d0 (cur st) -> satv v (applyv th v d0) (cur e1)).
    { destruct k; cbn [else_ok] in Hel; [| |destruct Hel].
      - cbn in Hfv. subst fv.
        destruct e as [|es er]; [exfalso; cbn in He; destruct He as (X & _); apply (jump_not_norm o Hj X)|].
        destruct (F4 eq_refl eq_refl) as (Le1 & Se1). split; [exact Le1|].
        intros v d0 Hs. apply (Se1 v d0); auto.
      - destruct (FA eq_refl th Hel) as (Lb & Sb & _ & Le1 & Se1 & _). split; [exact Le1|].
        intros v d0 Hs. apply Se1. apply Sb. exact Hs. }
    destruct HE as (Le1 & Se1). destruct (Se Le1) as (_ & (Ce & _)).
    destruct (Ce o t2 Hj He) as (sc & Hin & Hq1 & Hq2 & Hk & Hs). exists sc.
    assert (X : In sc (loops fin)).
    { apply L4f. apply (exits_flow e2 _ sc Hin Hq1); [|exact L4].
      intros X. apply combine_loops_in; [right; left; reflexivity|exact X]. }
    split; [right; exact X|split; [right; exact X|split; [exact Hq2|split; [exact (kle_trans _ _ _ Ke1 Hk)|]]]].
    intros v d0 Hv. rewrite applyv_app. apply Hs. apply (Se1 v d0); auto.
  - intros o t Hj H. cbn [path_s] in H. destruct H as (th & t2 & Hi & -> & H).
    destruct H as [(Hel & He)|[(X & _)|([X|X] & _)]];
      try (exfalso; subst o; destruct Hj; discriminate).
    assert (Le1 : live (cur e1)).
    { destruct k; cbn [else_ok] in Hel; [| |destruct Hel].
      - cbn in Hfv. subst fv.
        destruct e as [|es er]; [exfalso; cbn in He; destruct He as (X & _); apply (jump_not_norm o Hj X)|].
        apply (F4 eq_refl eq_refl).
      - apply (FA eq_refl th Hel). }
    destruct (Se Le1) as (_ & (_ & Ee)).
    eapply hasll_incl; [|intros x Hx; right; exact Hx].
    eapply hasll_incl; [|exact L4f].
    apply (hasll_flow e2 _ (Ee o t2 Hj He)); [|exact L4].
    intros X. apply combine_loops_in; [right; left; reflexivity|exact X].
Qed.

Lemma sound_all : (forall s, P_s s) /\ (forall b, P_b b) /\ (forall hs, P_hs hs).
Proof.
  apply syntax_mutind.
  - (* SAssign *) intros v d _ st. cbn [visit_s]. split; [intros x Hx; exact Hx|]. split; [apply kle_upd|].
    split; [apply incl_refl|]. split; [intros _; reflexivity|].
    intros Hl. split; [split|split].
    + intros t w u d0 H. destruct H.
    + intros t (_ & ->). split; [exact Hl|]. intros w d0 Hs. apply set_var_sat. exact Hs.
    + intros o t Hj (X & _). exfalso. apply (jump_not_norm o Hj X).
    + intros o t Hj (X & _). exfalso. apply (jump_not_norm o Hj X).
  - (* SUse *) intros v u _ st. cbn [visit_s]. split; [intros x Hx; apply in_or_app; left; exact Hx|].
    split; [apply kle_refl|]. split; [apply incl_refl|]. split; [intros _; reflexivity|].
    intros Hl. split; [split|split].
    + intros t w u' d0 (<- & <- & ->) Hs. apply get_var_in. exact Hs.
    + intros t (_ & ->). split; [exact Hl|]. intros w d0 Hs. exact Hs.
    + intros o t Hj (X & _). exfalso. apply (jump_not_norm o Hj X).
    + intros o t Hj (X & _). exfalso. apply (jump_not_norm o Hj X).
  - (* SCall *) intros _ st. cbn [visit_s]. split; [apply grow_refl|]. split; [apply kle_refl|].
    split; [apply incl_refl|]. split; [intros _; reflexivity|].
    intros Hl. split; [split|split].
    + intros t w u d0 H; destruct H.
    + intros t (_ & ->). split; [exact Hl|]. intros w d0 Hs. exact Hs.
    + intros o t Hj ([X|X] & _); exfalso; subst o; destruct Hj; discriminate.
    + intros o t Hj ([X|X] & _); exfalso; subst o; destruct Hj; discriminate.
  - (* SPass *) intros _ st. cbn [visit_s]. split; [apply grow_refl|]. split; [apply kle_refl|].
    split; [apply incl_refl|]. split; [intros _; reflexivity|].
    intros Hl. split; [split|split].
    + intros t w u d0 H; destruct H.
    + intros t (_ & ->). split; [exact Hl|]. intros w d0 Hs. exact Hs.
    + intros o t Hj (X & _). exfalso. apply (jump_not_norm o Hj X).
    + intros o t Hj (X & _). exfalso. apply (jump_not_norm o Hj X).
  - (* SReturn *) intros _ st. cbn [visit_s]. split; [intros x Hx; exact Hx|]. split; [apply kle_refl|].
    split; [apply incl_refl|]. split; [intros _; reflexivity|].
    intros Hl. split; [split|split].
    + intros t w u d0 H; destruct H.
    + intros t (X & _). discriminate.
    + intros o t Hj (X & _). exfalso. subst o. destruct Hj; discriminate.
    + intros o t Hj (X & _). exfalso. subst o. destruct Hj; discriminate.
  - (* SRaise *) intros _ st. cbn [visit_s]. split; [intros x Hx; exact Hx|]. split; [apply kle_refl|].
    split; [apply incl_refl|]. split; [intros _; reflexivity|].
    intros Hl. split; [split|split].
    + intros t w u d0 H; destruct H.
    + intros t (X & _). discriminate.
    + intros o t Hj (X & _). exfalso. subst o. destruct Hj; discriminate.
    + intros o t Hj (X & _). exfalso. subst o. destruct Hj; discriminate.
  - (* SBreak *) intros _ st. cbn [visit_s]. split; [intros x Hx; exact Hx|]. split; [apply kle_refl|].
    split; [apply incl_refl|]. split; [intros X; discriminate|].
    intros Hl. split; [split|split].
    + intros t w u d0 H; destruct H.
    + intros t (X & _). discriminate.
    + intros o t Hj (_ & ->). exists (cur (set_ll st)). split; [left; reflexivity|].
      split; [left; reflexivity|]. split; [destruct Hl as [H1 _]; exact H1|]. split; [apply kle_refl|].
      intros v d0 Hs. exact Hs.
    + intros o t Hj _. exists (cur (set_ll st)). split; [left; reflexivity|].
      split; [reflexivity|destruct Hl as [H1 _]; exact H1].
  - (* SContinue *) intros _ st. cbn [visit_s]. split; [intros x Hx; exact Hx|]. split; [apply kle_refl|].
    split; [apply incl_refl|]. split; [intros X; discriminate|].
    intros Hl. split; [split|split].
    + intros t w u d0 H; destruct H.
    + intros t (X & _). discriminate.
    + intros o t Hj (_ & ->). exists (cur (set_ll st)). split; [left; reflexivity|].
      split; [left; reflexivity|]. split; [destruct Hl as [H1 _]; exact H1|]. split; [apply kle_refl|].
      intros v d0 Hs. exact Hs.
    + intros o t Hj _. exists (cur (set_ll st)). split; [left; reflexivity|].
      split; [reflexivity|destruct Hl as [H1 _]; exact H1].
  - intros b Hb e He. apply case_if; assumption.
  - intros fv b Hb e He. apply case_loop; assumption.
  - intros sup b Hb. apply case_with; assumption.
  - intros b Hb hs Hhs e He f Hf. apply case_try; assumption.
  - (* BNil *) intros _ st. cbn [visit_b]. split; [apply grow_refl|]. split; [apply kle_refl|].
    split; [apply incl_refl|]. split; [intros _; reflexivity|].
    intros Hl. split; [split|split].
    + intros t w u d0 H; destruct H.
    + intros t (_ & ->). split; [exact Hl|]. intros w d0 Hs. exact Hs.
    + intros o t Hj (X & _). exfalso. apply (jump_not_norm o Hj X).
    + intros o t Hj (X & _). exfalso. apply (jump_not_norm o Hj X).
  - intros s Hs r Hr. apply case_bcons; assumption.
  - (* HNil *) intros _ dummy failure o. cbn [visit_hs fst snd]. split; [apply grow_refl|]. split; [reflexivity|].
    split; [apply incl_refl|]. split; [constructor|]. intros _ _ _.
    split; [intros t v u d0 H; destruct H|]. split; [intros t H; destruct H|]. split; intros o' t _ H; destruct H.
  - intros h Hh r Hr. apply case_hcons; assumption.
Qed.

(* ---- the lower-bound theorem *)

Lemma in_analyse_reported : forall p u d, In (u, d) (analyse p) -> In d (reported p u).
Proof.
  intros p u d H. unfold reported. apply nodup_In. apply in_map_iff. exists (u, d). split; [reflexivity|].
  apply filter_In. split; [exact H|]. cbn. apply N.eqb_refl.
Qed.

Lemma block_invariant : forall b st, lower_ok_b b = true -> live (cur st) ->
  (forall t v u d0, upath_b b t v u -> satv v d0 (cur st) -> In (u, applyv t v d0) (u2d (visit_b b st))) /\
  (forall t, path_b b ONorm t -> live (cur (visit_b b st)) /\
     forall v d0, satv v d0 (cur st) -> satv v (applyv t v d0) (cur (visit_b b st))) /\
  (forall o t, is_jump o -> path_b b o t ->
     exists sc, In sc (exits (visit_b b st)) /\ ls sc = false /\
       forall v d0, satv v d0 (cur st) -> satv v (applyv t v d0) sc).
Proof.
  intros b st Hok Hl. destruct sound_all as (_ & Pb & _). destruct (Pb b Hok st) as (_ & _ & _ & _ & S).
  destruct (S Hl) as ((U & N) & (C & _)). split; [exact U|]. split; [exact N|].
  intros o t Hj H. destruct (C o t Hj H) as (sc & H1 & _ & H3 & _ & H5). exists sc. auto.
Qed.

Theorem strict_sub_reported : forall p u d,
  lower_ok p = true -> strict_reach p u d -> In d (reported p u).
Proof.
  intros p u d Hok (t & v & Hu & ->). apply in_analyse_reported. unfold analyse.
  assert (Hl : live (cur init)) by (split; reflexivity).
  destruct (block_invariant p init Hok Hl) as (U & _). apply (U t v u UN Hu). left. reflexivity.
Qed.

(* a use that can execute with the name unbound is reported undefined or possibly undefined *)
Theorem unbound_is_reported : forall p u,
  lower_ok p = true -> strict_reach p u UN ->
  undefined_name p u = true \/ possibly_undefined p u = true.
Proof.
  intros p u Hok H. pose proof (strict_sub_reported p u UN Hok H) as Hin.
  unfold undefined_name, possibly_undefined.
  destruct (only_un (reported p u)); [left; reflexivity|right].
  rewrite andb_true_r. apply existsb_exists. exists UN. split; [exact Hin|apply N.eqb_refl].
Qed.

Lemma nojump_lower_ok_all :
  (forall s, has_jump s = false -> lower_ok_s s = true /\ sets_ll s = false /\ free_jump s = false) /\
  (forall b, has_jump_b b = false -> lower_ok_b b = true /\ sets_ll_b b = false /\ free_jump_b b = false) /\
  (forall hs, has_jump_hs hs = false -> lower_ok_hs hs = true /\ free_jump_hs hs = false).
Proof.
  apply syntax_mutind; cbn [has_jump has_jump_b has_jump_hs lower_ok_s lower_ok_b lower_ok_hs sets_ll sets_ll_b free_jump free_jump_b free_jump_hs];
    try (intros; repeat split; reflexivity); try (intros; discriminate).
  - intros b IHb e IHe H. apply orb_false_iff in H. destruct H as [Hb He].
    destruct (IHb Hb) as (A1 & A2 & A3). destruct (IHe He) as (B1 & B2 & B3).
    rewrite A1, B1, A3, B3. repeat split; reflexivity.
  - intros fv b IHb e IHe H. apply orb_false_iff in H. destruct H as [Hb He].
    destruct (IHb Hb) as (A1 & A2 & A3). destruct (IHe He) as (B1 & B2 & B3).
    rewrite A1, B1, B3. repeat split; reflexivity.
  - intros sup b IHb H. destruct (IHb H) as (A1 & A2 & A3). rewrite A1, A3.
    repeat split; try reflexivity. destruct sup; auto.
  - intros b IHb hs IHhs e IHe f IHf H.
    apply orb_false_iff in H. destruct H as [H Hf]. apply orb_false_iff in H. destruct H as [H He].
    apply orb_false_iff in H. destruct H as [Hb Hh].
    destruct (IHb Hb) as (A1 & A2 & A3). destruct (IHhs Hh) as (B1 & B3).
    destruct (IHe He) as (C1 & C2 & C3). destruct (IHf Hf) as (D1 & D2 & D3).
    rewrite A1, B1, C1, D1, D2, A3, B3, C3, D3. repeat split; reflexivity.
  - intros s IHs r IHr H. apply orb_false_iff in H. destruct H as [Hs Hr].
    destruct (IHs Hs) as (A1 & A2 & A3). destruct (IHr Hr) as (B1 & B2 & B3).
    rewrite A1, B1, A2, B2, A3, B3. repeat split; reflexivity.
  - intros h IHh r IHr H. apply orb_false_iff in H. destruct H as [Hh Hr].
    destruct (IHh Hh) as (A1 & A2 & A3). destruct (IHr Hr) as (B1 & B3).
    rewrite A1, B1, A3, B3. repeat split; reflexivity.
Qed.

Lemma nojump_lower_ok : forall p, has_jump_b p = false -> lower_ok p = true.
Proof. intros p H. destruct nojump_lower_ok_all as (_ & Hb & _). apply (Hb p H). Qed.
