(* Proofs/ScopesUpper.v — the liberal path semantics contains the strict one, and the
   upper bound (reported within liberal reaching definitions) for the staged fragment. *)
From Coq Require Import NArith List Bool Lia.
Import ListNotations.
Require Import PV.Scopes.Syntax PV.Scopes.Analysis PV.Scopes.Paths PV.Scopes.Guards.
Require Import PV.Proofs.ScopesMaps PV.Proofs.ScopesSound.

Lemma iters_mono : forall (R R' : trace -> Prop), (forall t, R t -> R' t) -> forall t, iters R t -> iters R' t.
Proof. intros R R' H t Hi. induction Hi; [constructor|constructor; auto]. Qed.

(* ---- every strict path is a liberal path *)
Lemma strict_path_liberal :
  (forall s prot o t, path_s s o t -> lpath_s prot s o t) /\
  (forall b prot o t, path_b b o t -> lpath_b prot b o t) /\
  (forall hs prot o t, path_hs hs o t -> lpath_hs prot hs o t).
Proof.
  apply syntax_mutind; cbn [path_s path_b path_hs lpath_s lpath_b lpath_hs]; auto.
  - intros b IHb e IHe prot o t [H|H]; [left|right]; auto.
  - intros fv b IHb e IHe prot o t (th & t2 & Hi & -> & H). exists th, t2.
    split; [eapply iters_mono; [|exact Hi]; intros x [Hx|Hx]; auto|]. split; [reflexivity|].
    destruct H as [(_ & H)|[(-> & H)|(Ho & H)]].
    + left. auto.
    + right. right. left. split; auto.
    + right. right. right. split; auto.
  - intros sup b IHb prot o t [H|(-> & -> & H)].
    + right. right. left. auto.
    + right. right. right. repeat split; auto.
  - intros b IHb hs IHhs e IHe f IHf prot o t (o1 & t1 & o2 & t2 & Hte & Hf & -> & ->).
    exists o1, t1, o2, t2. split; [|split; [auto|split; reflexivity]].
    destruct Hte as [(ta & tb & Ha & Hb & ->)|[(Ho & Ha)|(tx & Hx & [(th & Hh & ->)|(-> & ->)])]].
    + left. exists ta, tb. auto.
    + right. left. auto.
    + right. right. exists tx. split; [auto|]. left. exists th. auto.
    + right. right. exists tx. split; [auto|]. right. auto.
  - intros s IHs r IHr prot o t [(t1 & t2 & H1 & H2 & ->)|(Ho & H)].
    + right. left. exists t1, t2. auto.
    + right. right. right. auto.
  - intros h IHh r IHr prot o t [H|H]; auto.
Qed.

Lemma strict_upath_liberal :
  (forall s prot t v u, upath_s s t v u -> lupath_s prot s t v u) /\
  (forall b prot t v u, upath_b b t v u -> lupath_b prot b t v u) /\
  (forall hs prot t v u, upath_hs hs t v u -> lupath_hs prot hs t v u).
Proof.
  destruct strict_path_liberal as (PS & PB & PH).
  apply syntax_mutind; cbn [upath_s upath_b upath_hs lupath_s lupath_b lupath_hs]; auto.
  - intros b IHb e IHe prot t v u [H|H]; auto.
  - intros fv b IHb e IHe prot t v u (th & t2 & Hi & -> & H). exists th, t2.
    split; [eapply iters_mono; [|exact Hi]; intros x [Hx|Hx]; auto|]. split; [reflexivity|].
    destruct H as [H|(_ & H)]; auto.
  - intros b IHb hs IHhs e IHe f IHf prot t v u H.
    destruct H as [H|[(ta & tb & Ha & Hb & ->)|[(tx & th & Hx & Hh & ->)|(o1 & t1 & t2 & Hte & Hf & ->)]]].
    + left. auto.
    + right. left. exists ta, tb. auto.
    + right. right. left. exists tx, th. auto.
    + right. right. right. exists o1, t1, t2. split; [|auto].
      destruct Hte as [(ta & tb & Ha & Hb & ->)|[(Ho & Ha)|(tx & Hx & [(th & Hh & ->)|(-> & ->)])]].
      * left. exists ta, tb. auto.
      * right. left. auto.
      * right. right. exists tx. split; [auto|]. left. exists th. auto.
      * right. right. exists tx. split; [auto|]. right. auto.
  - intros s IHs r IHr prot t v u [H|(t1 & t2 & H1 & H2 & ->)]; auto.
    right. exists t1, t2. auto.
  - intros h IHh r IHr prot t v u [H|H]; auto.
Qed.

Theorem strict_sub_liberal : forall p u d, strict_reach p u d -> liberal_reach p u d.
Proof.
  intros p u d (t & v & H & ->). exists t, v. split; [|reflexivity].
  destruct strict_upath_liberal as (_ & UB & _). apply UB. exact H.
Qed.

(* ---- the upper bound *)

Lemma upper_nojump :
  (forall s, upper_ok_s s = true -> has_jump s = false) /\
  (forall b, upper_ok_b b = true -> has_jump_b b = false) /\
  (forall hs, upper_ok_hs hs = true -> has_jump_hs hs = false).
Proof.
  apply syntax_mutind; cbn [upper_ok_s upper_ok_b upper_ok_hs has_jump has_jump_b has_jump_hs]; auto;
    try (intros; discriminate).
  - intros b IHb e IHe H. apply andb_true_iff in H. destruct H as [H1 H2]. rewrite IHb, IHe; auto.
  - intros fv b IHb e IHe H. apply andb_true_iff in H. destruct H as [H H3]. apply andb_true_iff in H. destruct H as [H1 H2].
    rewrite IHb by assumption. destruct e; [reflexivity|discriminate].
  - intros b IHb hs IHhs e IHe f IHf H.
    apply andb_true_iff in H. destruct H as [H _]. apply andb_true_iff in H. destruct H as [H _].
    apply andb_true_iff in H. destruct H as [H H4].
    apply andb_true_iff in H. destruct H as [H H3]. apply andb_true_iff in H. destruct H as [H1 H2].
    rewrite IHb, IHhs, IHe by assumption. destruct f; [reflexivity|discriminate].
  - intros s IHs r IHr H. apply andb_true_iff in H. destruct H as [H _]. apply andb_true_iff in H. destruct H as [H1 H2].
    rewrite IHs, IHr; auto.
  - intros h IHh r IHr H. apply andb_true_iff in H. destruct H as [H1 H2]. rewrite IHh, IHr; auto.
Qed.

Lemma upper_facts_b : forall b st, upper_ok_b b = true ->
  kle (vars (cur st)) (vars (cur (visit_b b st))) /\ ll (cur (visit_b b st)) = ll (cur st).
Proof.
  intros b st H. destruct upper_nojump as (_ & NJ & _). destruct nojump_lower_ok_all as (_ & LB & _).
  destruct (LB b (NJ b H)) as (L1 & L2 & _). destruct sound_all as (_ & PB & _).
  destruct (PB b L1 st) as (_ & K & _ & M & _). split; [exact K|exact (M L2)].
Qed.

Lemma upper_facts_s : forall s st, upper_ok_s s = true ->
  kle (vars (cur st)) (vars (cur (visit_s s st))) /\ ll (cur (visit_s s st)) = ll (cur st).
Proof.
  intros s st H. destruct upper_nojump as (NJ & _ & _). destruct nojump_lower_ok_all as (LS & _ & _).
  destruct (LS s (NJ s H)) as (L1 & L2 & _). destruct sound_all as (PS & _ & _).
  destruct (PS s L1 st) as (_ & K & _ & M & _). split; [exact K|exact (M L2)].
Qed.

(* LEAVES_SCOPE, once in the current dict, stays there *)
Lemma ls_mono :
  (forall s st, ls (cur st) = true -> ls (cur (visit_s s st)) = true) /\
  (forall b st, ls (cur st) = true -> ls (cur (visit_b b st)) = true) /\
  (forall hs : handlers, True).
Proof.
  apply syntax_mutind; auto.
  - intros b _ e _ st H. cbn [visit_s]. unfold if_finish, combine. cbn. rewrite H. reflexivity.
  - intros k b _ e _ st H. cbn [visit_s]. generalize (is_always k) as fv. generalize (is_forever k) as fo. intros fo fv.
    unfold loop_finish.
    assert (X : ls (cur (loop_st4 fv (loop_st2 fv st (loop_after_body st (visit_b b (loop_body_entry st))))
                 (loop_after_body st (visit_b b (loop_body_entry st)))
                 (visit_b e (loop_else_entry fv e (loop_st2 fv st (loop_after_body st (visit_b b (loop_body_entry st))))
                    (loop_after_body st (visit_b b (loop_body_entry st))))))) = true).
    { unfold loop_st4, combine. cbn [cur ls restore]. destruct fv; unfold loop_st2; cbn; rewrite H; reflexivity. }
    destruct (fo && _); cbn; auto.
  - intros sup b IHb st H. cbn [visit_s]. destruct sup; [|auto].
    unfold suppress_leave, combine. cbn. rewrite H. reflexivity.
  - intros b _ hs _ e _ f IHf st H. cbn [visit_s]. destruct (is_nil f).
    + unfold te_finish, combine. cbn. rewrite H. reflexivity.
    + apply IHf. unfold fin_second_entry, combine. cbn [cur ls]. rewrite fin_mid_cur. rewrite H. reflexivity.
  - intros s IHs r IHr st H. cbn [visit_b]. auto.
Qed.

Lemma combined_dead : forall S, kept S = [] -> ls (combined S) = true.
Proof. intros S H. unfold combined. rewrite H. reflexivity. Qed.

Lemma combine_live_kept : forall S st, live (cur (combine S st)) -> kept S <> [].
Proof.
  intros S st [H _] E. unfold combine in H. cbn in H. rewrite (combined_dead S E) in H.
  rewrite orb_true_r in H. discriminate.
Qed.

Lemma combine_complete : forall S st v d,
  (forall sc, In sc S -> kle (vars (cur st)) (vars sc)) -> kept S <> [] ->
  In d (lookupU (vars (cur (combine S st))) v) ->
  exists sc, In sc S /\ keeps sc = true /\ In d (lookupU (vars sc) v).
Proof.
  intros S st v d Hk Hne Hin. unfold combine in Hin. cbn [cur vars] in Hin.
  unfold combined in Hin. destruct (kept S) as [|k0 K'] eqn:EK; [contradiction|].
  cbn [vars] in Hin. unfold lookupU in Hin. rewrite lookup_update_vars in Hin by apply merged_nodup.
  destruct (in_dec N.eq_dec v (keys_union (k0 :: K'))) as [Hv|Hv].
  - unfold merged in Hin. rewrite lookup_map_in in Hin by assumption.
    apply nodup_In in Hin. apply in_flat_map in Hin. destruct Hin as (sc & Hsc & Hd).
    assert (HscK : In sc (kept S)) by (rewrite EK; exact Hsc).
    unfold kept in HscK. apply filter_In in HscK. destruct HscK as [H1 H2]. exists sc. auto.
  - unfold merged in Hin at 1. rewrite lookup_map_notin in Hin by assumption.
    assert (Hk0 : In k0 (kept S)) by (rewrite EK; left; reflexivity).
    unfold kept in Hk0. apply filter_In in Hk0. destruct Hk0 as [H1 H2].
    exists k0. split; [exact H1|]. split; [exact H2|].
    assert (Hn : lookup (vars k0) v = None).
    { apply lookup_none_keys. intros Hc. apply Hv. eapply in_keys_union; [left; reflexivity|exact Hc]. }
    unfold lookupU. rewrite Hn.
    destruct (lookup (vars (cur st)) v) eqn:E; [|exact Hin].
    exfalso. apply (Hk k0 H1 v); [rewrite E; discriminate|exact Hn].
Qed.

(* the binding d is produced by trace t from some binding possible in c0, or by t alone *)
Definition real (c0 : scope) (v : var) (d : node) (t : trace) : Prop :=
  (exists d0, In d0 (lookupU (vars c0) v) /\ d = applyv t v d0) \/ (forall d0, applyv t v d0 = d).

Lemma real_nil : forall c v d, In d (lookupU (vars c) v) -> real c v d [].
Proof. intros c v d H. left. exists d. split; [exact H|reflexivity]. Qed.

(* a path realising d from c1, prefixed by paths realising every binding of c1 from c0 *)
Lemma real_compose : forall (P : trace -> Prop) c0 c1 v d t2,
  real c1 v d t2 ->
  (forall d1, In d1 (lookupU (vars c1) v) -> exists t1, P t1 /\ real c0 v d1 t1) ->
  (exists t1, P t1) ->
  exists t1, P t1 /\ real c0 v d (t1 ++ t2).
Proof.
  intros P c0 c1 v d t2 Hr Hall Hex. destruct Hr as [(d1 & Hin & ->)|Hany].
  - destruct (Hall d1 Hin) as (t1 & Hp & Hr1). exists t1. split; [exact Hp|].
    destruct Hr1 as [(d0 & Hin0 & ->)|Hany1].
    + left. exists d0. split; [exact Hin0|]. rewrite applyv_app. reflexivity.
    + right. intros d0. rewrite applyv_app. rewrite Hany1. reflexivity.
  - destruct Hex as (t1 & Hp). exists t1. split; [exact Hp|]. right. intros d0. rewrite applyv_app. apply Hany.
Qed.

Lemma real_weaken : forall c0 c1 v d t, (forall d0, In d0 (lookupU (vars c1) v) -> In d0 (lookupU (vars c0) v)) ->
  real c1 v d t -> real c0 v d t.
Proof. intros c0 c1 v d t H [(d0 & Hin & ->)|Hany]; [left; exists d0; auto|right; exact Hany]. Qed.

Lemma grouped_in_inv : forall a v d, In d (lookupE (grouped a) v) -> In (v, d) a.
Proof.
  intros a v d H. unfold lookupE, grouped in H.
  destruct (in_dec N.eq_dec v (nodup N.eq_dec (map fst a))) as [Hv|Hv].
  - rewrite lookup_map_in in H by assumption. apply nodup_In in H. apply in_map_iff in H.
    destruct H as ([w x] & E & H). cbn in E. subst x. apply filter_In in H. destruct H as [H1 H2].
    cbn in H2. apply N.eqb_eq in H2. subst w. exact H1.
  - rewrite lookup_map_notin in H by assumption. destruct H.
Qed.

Lemma filter_ll_nil : forall L, (forall sc, In sc L -> ll sc = false) -> filter ll L = [].
Proof.
  induction L as [|a L IH]; intros H; [reflexivity|]. cbn. rewrite (H a (or_introl eq_refl)). apply IH.
  intros sc Hsc. apply H. right. exact Hsc.
Qed.

Lemma combine_loops_same : forall S st, (forall sc, In sc S -> ll sc = false) -> loops (combine S st) = loops st.
Proof. intros S st H. unfold combine, diverted. cbn [loops]. rewrite (filter_ll_nil S H). apply app_nil_r. Qed.

(* ---- liberal paths that exist for syntactic reasons *)

Lemma body_exc_start : forall b, is_nil b = false -> lpath_b true b OExc [].
Proof. intros [|s r] H; [discriminate|]. cbn [lpath_b]. left. auto. Qed.

Lemma norm_to_exc : forall b, is_nil b = false -> forall t, lpath_b true b ONorm t -> lpath_b true b OExc t.
Proof.
  induction b as [|s r IH]; intros Hn t H; [discriminate|].
  cbn [lpath_b] in H. destruct H as [(_ & X & _)|[(t1 & t2 & H1 & H2 & ->)|[(_ & X & _)|(X & _)]]]; try discriminate; try contradiction.
  destruct r as [|s' r'].
  - cbn [lpath_b] in H2. destruct H2 as (_ & ->). rewrite app_nil_r. cbn [lpath_b]. right. right. left. auto.
  - cbn [lpath_b]. right. left. exists t1, t2. split; [exact H1|]. split; [|reflexivity]. apply IH; [reflexivity|exact H2].
Qed.

Lemma cc_path :
  (forall s prot, upper_ok_s s = true -> can_complete s = true -> exists t, lpath_s prot s ONorm t) /\
  (forall b prot, upper_ok_b b = true -> can_complete_b b = true -> exists t, lpath_b prot b ONorm t) /\
  (forall hs prot, upper_ok_hs hs = true -> can_complete_hs hs = true -> exists t, lpath_hs prot hs ONorm t).
Proof.
  apply syntax_mutind; cbn [upper_ok_s upper_ok_b upper_ok_hs can_complete can_complete_b can_complete_hs lpath_s lpath_b lpath_hs];
    try (intros; discriminate).
  - intros v d prot _ _. exists [(v, d)]. auto.
  - intros v u prot _ _. exists []. auto.
  - intros prot _ _. exists []. auto.
  - intros prot _ _. exists []. auto.
  - intros b IHb e IHe prot Hu Hc. apply andb_true_iff in Hu. destruct Hu as [Hub Hue].
    apply orb_true_iff in Hc. destruct Hc as [Hc|Hc].
    + destruct (IHb prot Hub Hc) as (t & H). exists t. left. exact H.
    + destruct (IHe prot Hue Hc) as (t & H). exists t. right. exact H.
  - intros fv b IHb e IHe prot _ _. exists []. exists [], []. split; [constructor|]. split; [reflexivity|]. right. left. auto.
  - intros sup b IHb prot Hu Hc. apply orb_true_iff in Hc. destruct Hc as [Hc|Hc].
    + destruct (IHb true Hu Hc) as (t & H). exists t. right. right. left. exact H.
    + exists []. right. left. auto.
  - intros b IHb hs IHhs e IHe f IHf prot Hu Hc.
    apply andb_true_iff in Hu. destruct Hu as [Hu Hnb]. apply andb_true_iff in Hu. destruct Hu as [Hu _].
    apply andb_true_iff in Hu. destruct Hu as [Hu Hf]. apply andb_true_iff in Hu. destruct Hu as [Hu Hue].
    apply andb_true_iff in Hu. destruct Hu as [Hub Huh].
    destruct f; [|discriminate]. apply negb_true_iff in Hnb.
    apply andb_true_iff in Hc. destruct Hc as [Hc _]. apply orb_true_iff in Hc. destruct Hc as [Hc|Hc].
    + apply andb_true_iff in Hc. destruct Hc as [Hcb Hce].
      destruct (IHb true Hub Hcb) as (ta & Ha). destruct (IHe (prot || negb (is_nil BNil)) Hue Hce) as (tb & Hb).
      exists ((ta ++ tb) ++ []). exists ONorm, (ta ++ tb), ONorm, []. split; [left; exists ta, tb; auto|].
      split; [cbn; auto|]. split; reflexivity.
    + destruct (IHhs (prot || negb (is_nil BNil)) Huh Hc) as (th & Hh).
      exists (([] ++ th) ++ []). exists ONorm, ([] ++ th), ONorm, []. split.
      * right. right. exists []. split; [apply body_exc_start; exact Hnb|]. left. exists th. auto.
      * split; [cbn; auto|]. split; reflexivity.
  - intros prot _ _. exists []. auto.
  - intros s IHs r IHr prot Hu Hc. apply andb_true_iff in Hu. destruct Hu as [Hu _]. apply andb_true_iff in Hu. destruct Hu as [Hus Hur].
    apply andb_true_iff in Hc. destruct Hc as [Hcs Hcr].
    destruct (IHs prot Hus Hcs) as (t1 & H1). destruct (IHr prot Hur Hcr) as (t2 & H2).
    exists (t1 ++ t2). right. left. exists t1, t2. auto.
  - intros h IHh r IHr prot Hu Hc. apply andb_true_iff in Hu. destruct Hu as [Huh Hur].
    apply orb_true_iff in Hc. destruct Hc as [Hc|Hc].
    + destruct (IHh prot Huh Hc) as (t & H). exists t. left. exact H.
    + destruct (IHr prot Hur Hc) as (t & H). exists t. right. exact H.
Qed.

(* every assignment inside a protected block is the last assignment to its variable on some
   liberal path that ends in an exception (raise right after it; an exception that no handler
   matches propagates) *)
Lemma reach_and_raise :
  (forall s, upper_ok_s s = true -> forall v d, In (v, d) (assigned_s s) ->
     exists t, (lpath_s true s OExc t \/ lpath_s true s ONorm t) /\ forall d0, applyv t v d0 = d) /\
  (forall b, upper_ok_b b = true -> forall v d, In (v, d) (assigned_b b) ->
     exists t, lpath_b true b OExc t /\ forall d0, applyv t v d0 = d) /\
  (forall hs, upper_ok_hs hs = true -> forall v d, In (v, d) (assigned_hs hs) ->
     exists t, lpath_hs true hs OExc t /\ forall d0, applyv t v d0 = d).
Proof.
  destruct cc_path as (CS & CB & _).
  apply syntax_mutind; cbn [upper_ok_s upper_ok_b upper_ok_hs assigned_s assigned_b assigned_hs];
    try (intros; match goal with H : In _ [] |- _ => destruct H end).
  - intros v d _ w x [E|[]]. inversion E; subst. exists [(w, x)]. split; [right; cbn; auto|].
    intros d0. cbn. rewrite N.eqb_refl. reflexivity.
  - intros b IHb e IHe Hu v d Hin. apply andb_true_iff in Hu. destruct Hu as [Hub Hue].
    apply in_app_or in Hin. destruct Hin as [Hin|Hin].
    + destruct (IHb Hub v d Hin) as (t & Hp & Ha). exists t. split; [left; cbn [lpath_s]; left; exact Hp|exact Ha].
    + destruct (IHe Hue v d Hin) as (t & Hp & Ha). exists t. split; [left; cbn [lpath_s]; right; exact Hp|exact Ha].
  - intros fv b IHb e IHe Hu v d Hin. apply andb_true_iff in Hu. destruct Hu as [Hu Hub]. apply andb_true_iff in Hu. destruct Hu as [_ Hne].
    destruct e; [|discriminate]. cbn [assigned_b] in Hin. rewrite app_nil_r in Hin.
    destruct (IHb Hub v d Hin) as (t & Hp & Ha). exists t. split; [|exact Ha]. left. cbn [lpath_s].
    exists [], t. split; [constructor|]. split; [reflexivity|]. right. right. right. split; [right; reflexivity|exact Hp].
  - intros sup b IHb Hu v d Hin. destruct (IHb Hu v d Hin) as (t & Hp & Ha). exists t. split; [|exact Ha].
    left. cbn [lpath_s]. right. right. left. exact Hp.
  - intros b IHb hs IHhs e IHe f IHf Hu v d Hin.
    apply andb_true_iff in Hu. destruct Hu as [Hu Hnb]. apply andb_true_iff in Hu. destruct Hu as [Hu Hdead].
    apply andb_true_iff in Hu. destruct Hu as [Hu Hf]. apply andb_true_iff in Hu. destruct Hu as [Hu Hue].
    apply andb_true_iff in Hu. destruct Hu as [Hub Huh].
    destruct f; [|discriminate]. apply negb_true_iff in Hnb. cbn [assigned_b] in Hin. rewrite app_nil_r in Hin.
    apply in_app_or in Hin. destruct Hin as [Hin|Hin]; [|apply in_app_or in Hin; destruct Hin as [Hin|Hin]].
    + destruct (IHb Hub v d Hin) as (tx & Hp & Ha). exists (tx ++ []). split; [|rewrite app_nil_r; exact Ha].
      left. cbn [lpath_s]. exists OExc, tx, ONorm, []. split; [right; right; exists tx; split; [exact Hp|right; auto]|].
      split; [cbn; auto|]. split; reflexivity.
    + destruct (IHhs Huh v d Hin) as (th & Hp & Ha). exists (([] ++ th) ++ []). split; [|rewrite app_nil_r; exact Ha].
      left. cbn [lpath_s]. exists OExc, ([] ++ th), ONorm, []. split.
      * right. right. exists []. split; [apply body_exc_start; exact Hnb|]. left. exists th. split; [exact Hp|reflexivity].
      * split; [cbn; auto|]. split; reflexivity.
    + destruct e as [|es er]; [destruct Hin|]. cbn [is_nil] in Hdead. rewrite orb_false_r in Hdead.
      destruct (CB b true Hub Hdead) as (ta & Hpa). destruct (IHe Hue v d Hin) as (tb & Hp & Ha).
      exists ((ta ++ tb) ++ []). split; [|rewrite app_nil_r; intros d0; rewrite applyv_app; apply Ha].
      left. cbn [lpath_s]. exists OExc, (ta ++ tb), ONorm, []. split; [left; exists ta, tb; auto|].
      split; [cbn; auto|]. split; reflexivity.
  - intros s IHs r IHr Hu v d Hin. apply andb_true_iff in Hu. destruct Hu as [Hu Hdead]. apply andb_true_iff in Hu. destruct Hu as [Hus Hur].
    apply in_app_or in Hin. destruct Hin as [Hin|Hin].
    + destruct (IHs Hus v d Hin) as (t & [Hp|Hp] & Ha); exists t; (split; [|exact Ha]); cbn [lpath_b].
      * right. right. right. split; [discriminate|exact Hp].
      * right. right. left. auto.
    + destruct r as [|s' r']; [destruct Hin|]. cbn [is_nil] in Hdead. rewrite orb_false_r in Hdead.
      destruct (CS s true Hus Hdead) as (t1 & H1). destruct (IHr Hur v d Hin) as (t2 & H2 & Ha).
      exists (t1 ++ t2). split; [|intros d0; rewrite applyv_app; apply Ha].
      cbn [lpath_b]. right. left. exists t1, t2. auto.
  - intros h IHh r IHr Hu v d Hin. apply andb_true_iff in Hu. destruct Hu as [Huh Hur].
    apply in_app_or in Hin. destruct Hin as [Hin|Hin].
    + destruct (IHh Huh v d Hin) as (t & Hp & Ha). exists t. split; [cbn [lpath_hs]; left; exact Hp|exact Ha].
    + destruct (IHr Hur v d Hin) as (t & Hp & Ha). exists t. split; [cbn [lpath_hs]; right; exact Hp|exact Ha].
Qed.

Lemma suppress_complete : forall a st0 s1 v d, live (cur st0) ->
  kle (vars (cur st0)) (vars (cur s1)) ->
  In d (lookupU (vars (cur (snd (suppress_leave (grouped a) st0 s1)))) v) ->
  In d (lookupU (vars (cur st0)) v) \/ In (v, d) a \/ (keeps (cur s1) = true /\ In d (lookupU (vars (cur s1)) v)).
Proof.
  intros a st0 s1 v d Hl Hk Hin. unfold suppress_leave in Hin. cbn [snd] in Hin.
  set (dummy := strip_ls (cur (restore st0 s1))) in *.
  set (newsc := mkScope (merge_rest (vars dummy) (grouped a)) false (ll dummy)) in *.
  assert (Hkd : keeps dummy = true) by (apply live_keeps; destruct Hl; split; cbn; auto).
  destruct (combine_complete [dummy; newsc; cur s1] (restore st0 s1) v d) as (sc & Hsc & Hks & Hd); auto.
  - intros sc [<-|[<-|[<-|[]]]].
    + cbn. apply kle_refl.
    + cbn [vars cur restore newsc]. intros w Hw. unfold merge_rest. rewrite lookup_map_in; [discriminate|].
      apply nodup_In. apply in_or_app. left. apply lookup_some_keys. exact Hw.
    + exact Hk.
  - intros E. pose proof (kept_in [dummy; newsc; cur s1] dummy (or_introl eq_refl) Hkd) as X. rewrite E in X. destruct X.
  - destruct Hsc as [<-|[<-|[<-|[]]]].
    + left. exact Hd.
    + cbn [vars newsc] in Hd. unfold lookupU, merge_rest in Hd.
      destruct (in_dec N.eq_dec v (nodup N.eq_dec (keys (vars dummy) ++ keys (grouped a)))) as [Hv|Hv].
      * rewrite lookup_map_in in Hd by assumption. apply in_app_or in Hd. destruct Hd as [Hd|Hd].
        -- left. unfold lookupE in Hd. unfold lookupU. change (vars (cur st0)) with (vars dummy).
           destruct (lookup (vars dummy) v); [exact Hd|destruct Hd].
        -- right. left. apply grouped_in_inv. exact Hd.
      * rewrite lookup_map_notin in Hd by assumption. left. unfold lookupU. change (vars (cur st0)) with (vars dummy).
        assert (Hn : lookup (vars dummy) v = None).
        { apply lookup_none_keys. intros Hc. apply Hv. apply nodup_In. apply in_or_app. left. exact Hc. }
        rewrite Hn. exact Hd.
    + right. right. auto.
Qed.

Lemma upper_facts_hs : forall hs dummy failure o, upper_ok_hs hs = true ->
  Forall (fun h => kle (vars (cur o)) (vars h)) (fst (visit_hs hs dummy failure o)) /\
  cur (snd (visit_hs hs dummy failure o)) = cur o.
Proof.
  intros hs dummy failure o H. destruct upper_nojump as (_ & _ & NJ). destruct nojump_lower_ok_all as (_ & _ & LH).
  destruct (LH hs (NJ hs H)) as (L1 & _). destruct sound_all as (_ & _ & PH).
  destruct (PH hs L1 dummy failure o) as (_ & C & _ & F & _). split; assumption.
Qed.

(* ---- the completeness invariant *)

Definition Q_s (s : stmt) : Prop := forall prot, upper_ok_s s = true -> forall st, live (cur st) ->
  (forall u d, In (u, d) (u2d (visit_s s st)) -> In (u, d) (u2d st) \/
      exists t v, lupath_s prot s t v u /\ real (cur st) v d t) /\
  (live (cur (visit_s s st)) ->
      (exists t, lpath_s prot s ONorm t) /\
      forall v d1, In d1 (lookupU (vars (cur (visit_s s st))) v) ->
        exists t, lpath_s prot s ONorm t /\ real (cur st) v d1 t) /\
  (can_complete s = true -> live (cur (visit_s s st))) /\
  loops (visit_s s st) = loops st.

Definition Q_b (b : block) : Prop := forall prot, upper_ok_b b = true -> forall st, live (cur st) ->
  (forall u d, In (u, d) (u2d (visit_b b st)) -> In (u, d) (u2d st) \/
      exists t v, lupath_b prot b t v u /\ real (cur st) v d t) /\
  (live (cur (visit_b b st)) ->
      (exists t, lpath_b prot b ONorm t) /\
      forall v d1, In d1 (lookupU (vars (cur (visit_b b st))) v) ->
        exists t, lpath_b prot b ONorm t /\ real (cur st) v d1 t) /\
  (can_complete_b b = true -> live (cur (visit_b b st))) /\
  loops (visit_b b st) = loops st.

Definition Q_hs (hs : handlers) : Prop := forall prot, upper_ok_hs hs = true -> forall dummy failure o,
  ll (cur o) = false -> keeps failure = true -> keeps dummy = true ->
  kle (vars (cur o)) (vars failure) -> kle (vars (cur o)) (vars dummy) ->
  (forall v d, In d (lookupU (vars dummy) v) -> In d (lookupU (vars failure) v)) ->
  (forall u d, In (u, d) (u2d (snd (visit_hs hs dummy failure o))) -> In (u, d) (u2d o) \/
      exists t v, lupath_hs prot hs t v u /\ real failure v d t) /\
  (forall h, In h (fst (visit_hs hs dummy failure o)) -> live h ->
      (exists t, lpath_hs prot hs ONorm t) /\
      forall v d1, In d1 (lookupU (vars h) v) -> exists t, lpath_hs prot hs ONorm t /\ real failure v d1 t) /\
  (can_complete_hs hs = true -> exists h, In h (fst (visit_hs hs dummy failure o)) /\ live h) /\
  loops (snd (visit_hs hs dummy failure o)) = loops o /\
  (forall h, In h (fst (visit_hs hs dummy failure o)) -> ll h = false).

Lemma live_back_b : forall b st, upper_ok_b b = true -> ll (cur st) = false ->
  live (cur (visit_b b st)) -> live (cur st).
Proof.
  intros b st Hu Hll [X1 X2]. split; [|exact Hll].
  destruct (ls (cur st)) eqn:E; [|reflexivity]. destruct ls_mono as (_ & LM & _).
  rewrite (LM b st E) in X1. discriminate.
Qed.

Lemma uq_if : forall b e, Q_b b -> Q_b e -> Q_s (SIf b e).
Proof.
  intros b e IHb IHe prot Hu st Hl.
  cbn [upper_ok_s] in Hu. apply andb_true_iff in Hu. destruct Hu as [Hub Hue].
  cbn [visit_s].
  set (s1 := visit_b b (enter st)). set (s2 := visit_b e (if_mid st s1)).
  destruct (IHb prot Hub (enter st) (enter_live _ Hl)) as (Ub & Nb & Lb & Pb). fold s1 in Ub, Nb, Lb, Pb.
  destruct (IHe prot Hue (if_mid st s1) (enter_live (restore st s1) Hl)) as (Ue & Ne & Le & Pe). fold s2 in Ue, Ne, Le, Pe.
  destruct (upper_facts_b b (enter st) Hub) as (Kb & Mb). fold s1 in Kb, Mb.
  destruct (upper_facts_b e (if_mid st s1) Hue) as (Ke & Me). fold s2 in Ke, Me.
  assert (Hll : ll (cur st) = false) by (destruct Hl; assumption).
  split; [|split; [|split]].
  - intros u d H. change (u2d (if_finish st s1 s2)) with (u2d s2) in H.
    destruct (Ue u d H) as [H1|(t & v & Hp & Hr)].
    + change (u2d (if_mid st s1)) with (u2d s1) in H1. destruct (Ub u d H1) as [H2|(t & v & Hp & Hr)].
      * left. exact H2.
      * right. exists t, v. split; [cbn [lupath_s]; left; exact Hp|exact Hr].
    + right. exists t, v. split; [cbn [lupath_s]; right; exact Hp|exact Hr].
  - intros Hlf.
    assert (Hne : kept [cur s1; cur s2] <> []) by (apply (combine_live_kept _ (restore (restore st s1) s2)); exact Hlf).
    split.
    + destruct (kept [cur s1; cur s2]) as [|k0 K'] eqn:EK; [contradiction|].
      assert (Hk0 : In k0 (kept [cur s1; cur s2])) by (rewrite EK; left; reflexivity).
      unfold kept in Hk0. apply filter_In in Hk0. destruct Hk0 as [[<-|[<-|[]]] Hk].
      * destruct (Nb (keeps_live _ Hk)) as ((t & Hp) & _). exists t. cbn [lpath_s]. left. exact Hp.
      * destruct (Ne (keeps_live _ Hk)) as ((t & Hp) & _). exists t. cbn [lpath_s]. right. exact Hp.
    + intros v d1 H.
      destruct (combine_complete [cur s1; cur s2] (restore (restore st s1) s2) v d1) as (sc & Hin & Hk & Hd); auto.
      { intros sc [<-|[<-|[]]]; assumption. }
      destruct Hin as [<-|[<-|[]]].
      * destruct (Nb (keeps_live _ Hk)) as (_ & Nb'). destruct (Nb' v d1 Hd) as (t & Hp & Hr).
        exists t. split; [cbn [lpath_s]; left; exact Hp|exact Hr].
      * destruct (Ne (keeps_live _ Hk)) as (_ & Ne'). destruct (Ne' v d1 Hd) as (t & Hp & Hr).
        exists t. split; [cbn [lpath_s]; right; exact Hp|exact Hr].
  - intros Hc. cbn [can_complete] in Hc. apply orb_true_iff in Hc. destruct Hc as [Hc|Hc].
    + eapply combine_live with (sc := cur s1); [left; reflexivity|apply live_keeps; apply Lb; exact Hc|exact Hl].
    + eapply combine_live with (sc := cur s2); [right; left; reflexivity|apply live_keeps; apply Le; exact Hc|exact Hl].
  - unfold if_finish. rewrite combine_loops_same.
    + cbn [restore loops]. rewrite Pe. cbn [if_mid enter restore loops]. rewrite Pb. reflexivity.
    + intros sc [<-|[<-|[]]]; [rewrite Mb|rewrite Me]; cbn; exact Hll.
Qed.

Lemma uq_bcons : forall s r, Q_s s -> Q_b r -> Q_b (BCons s r).
Proof.
  intros s r IHs IHr prot Hu st Hl.
  cbn [upper_ok_b] in Hu. apply andb_true_iff in Hu. destruct Hu as [Hu Hdead]. apply andb_true_iff in Hu. destruct Hu as [Hus Hur].
  cbn [visit_b]. set (st1 := visit_s s st).
  destruct (IHs prot Hus st Hl) as (Us & Ns & Ls & Ps). fold st1 in Us, Ns, Ls, Ps.
  destruct (upper_facts_s s st Hus) as (Ks & Ms). fold st1 in Ks, Ms.
  assert (Hll1 : ll (cur st1) = false) by (rewrite Ms; destruct Hl; assumption).
  split; [|split; [|split]].
  - intros u d H.
    destruct r as [|s' r'].
    + cbn [visit_b] in H. destruct (Us u d H) as [H1|(t & v & Hp & Hr)]; [left; exact H1|].
      right. exists t, v. split; [cbn [lupath_b]; left; exact Hp|exact Hr].
    + set (r := BCons s' r') in *.
      assert (Hcs : can_complete s = true) by (cbn in Hdead; rewrite orb_false_r in Hdead; exact Hdead).
      pose proof (Ls Hcs) as Hl1.
      destruct (IHr prot Hur st1 Hl1) as (Ur & _ & _).
      destruct (Ur u d H) as [H1|(t2 & v & Hp & Hr)].
      * destruct (Us u d H1) as [H2|(t & v & Hp & Hr)]; [left; exact H2|].
        right. exists t, v. split; [cbn [lupath_b]; left; exact Hp|exact Hr].
      * right. destruct (Ns Hl1) as (Hex & Ns').
        destruct (real_compose (fun t => lpath_s prot s ONorm t) (cur st) (cur st1) v d t2 Hr (Ns' v) Hex) as (t1 & Hp1 & Hr1).
        exists (t1 ++ t2), v. split; [cbn [lupath_b]; right; exists t1, t2; auto|exact Hr1].
  - intros Hl2. pose proof (live_back_b r st1 Hur Hll1 Hl2) as Hl1.
    destruct (IHr prot Hur st1 Hl1) as (_ & Nr & _). destruct (Nr Hl2) as ((t2 & Hp2) & Nr').
    destruct (Ns Hl1) as ((t0 & Hp0) & Ns').
    split; [exists (t0 ++ t2); cbn [lpath_b]; right; left; exists t0, t2; auto|].
    intros v d2 H. destruct (Nr' v d2 H) as (t2' & Hp2' & Hr).
    destruct (real_compose (fun t => lpath_s prot s ONorm t) (cur st) (cur st1) v d2 t2' Hr (Ns' v) (ex_intro _ t0 Hp0)) as (t1 & Hp1 & Hr1).
    exists (t1 ++ t2'). split; [cbn [lpath_b]; right; left; exists t1, t2'; auto|exact Hr1].
  - intros Hc. cbn [can_complete_b] in Hc. apply andb_true_iff in Hc. destruct Hc as [Hc1 Hc2].
    destruct (IHr prot Hur st1 (Ls Hc1)) as (_ & _ & Lr & _). apply Lr. exact Hc2.
  - destruct r as [|s' r']; [cbn [visit_b]; exact Ps|].
    set (r := BCons s' r') in *.
    assert (Hcs : can_complete s = true) by (cbn in Hdead; rewrite orb_false_r in Hdead; exact Hdead).
    destruct (IHr prot Hur st1 (Ls Hcs)) as (_ & _ & _ & Pr). rewrite Pr. exact Ps.
Qed.

Lemma uq_with : forall sup b, Q_b b -> Q_s (SWith sup b).
Proof.
  intros sup b IHb prot Hu st Hl. cbn [upper_ok_s] in Hu. cbn [visit_s].
  assert (Hll : ll (cur st) = false) by (destruct Hl; assumption).
  destruct sup.
  - set (s1 := visit_b b (enter st)).
    destruct (IHb true Hu (enter st) (enter_live _ Hl)) as (Ub & Nb & Lb & Pb). fold s1 in Ub, Nb, Lb, Pb.
    destruct (upper_facts_b b (enter st) Hu) as (Kb & Mb). fold s1 in Kb, Mb.
    destruct reach_and_raise as (_ & RB & _).
    split; [|split; [|split]].
    + intros u d H. rewrite suppress_u2d in H. destruct (Ub u d H) as [H1|(t & v & Hp & Hr)]; [left; exact H1|].
      right. exists t, v. split; [cbn [lupath_s]; exact Hp|exact Hr].
    + intros _. split; [exists []; cbn [lpath_s]; right; left; auto|].
      intros v d1 H.
      destruct (suppress_complete (assigned_b b) st s1 v d1 Hl Kb H) as [H1|[H1|(Hk & H1)]].
      * exists []. split; [cbn [lpath_s]; right; left; auto|apply real_nil; exact H1].
      * destruct (RB b Hu v d1 H1) as (t & Hp & Ha). exists t.
        split; [cbn [lpath_s]; right; right; right; auto|right; exact Ha].
      * destruct (Nb (keeps_live _ Hk)) as (_ & Nb'). destruct (Nb' v d1 H1) as (t & Hp & Hr).
        exists t. split; [cbn [lpath_s]; right; right; left; exact Hp|exact Hr].
    + intros _. apply suppress_live. exact Hl.
    + unfold suppress_leave. cbn [snd]. rewrite combine_loops_same; [cbn [restore loops]; exact Pb|].
      intros sc [<-|[<-|[<-|[]]]]; cbn; try exact Hll. rewrite Mb. cbn. exact Hll.
  - destruct (IHb true Hu st Hl) as (Ub & Nb & Lb & Pb).
    split; [|split; [|split]].
    + intros u d H. destruct (Ub u d H) as [H1|(t & v & Hp & Hr)]; [left; exact H1|].
      right. exists t, v. split; [cbn [lupath_s]; exact Hp|exact Hr].
    + intros Hl2. destruct (Nb Hl2) as ((t & Hp) & Nb'). split.
      * exists t. cbn [lpath_s]. right. right. left. exact Hp.
      * intros v d1 H. destruct (Nb' v d1 H) as (t' & Hp' & Hr). exists t'.
        split; [cbn [lpath_s]; right; right; left; exact Hp'|exact Hr].
    + intros Hc. cbn [can_complete] in Hc. rewrite orb_false_r in Hc. apply Lb. exact Hc.
    + exact Pb.
Qed.

Lemma uq_hcons : forall h r, Q_b h -> Q_hs r -> Q_hs (HCons h r).
Proof.
  intros h r IHh IHr prot Hu dummy failure o Hll Hkf Hkd Hklf Hkld Hsub.
  cbn [upper_ok_hs] in Hu. apply andb_true_iff in Hu. destruct Hu as [Huh Hur].
  cbn [visit_hs].
  set (en := combine [dummy; failure] (enter o)).
  set (h2 := visit_b h en).
  set (rr := visit_hs r dummy failure (restore o h2)).
  cbn [fst snd].
  assert (Hlo : live (cur (enter o))) by (apply live_strip; exact Hll).
  assert (Len : live (cur en)).
  { eapply combine_live with (sc := failure); [right; left; reflexivity|exact Hkf|exact Hlo]. }
  assert (Hen : forall v d, In d (lookupU (vars (cur en)) v) -> In d (lookupU (vars failure) v)).
  { intros v d H. destruct (combine_complete [dummy; failure] (enter o) v d) as (sc & Hin & _ & Hd); auto.
    - intros sc [<-|[<-|[]]]; assumption.
    - intros E. pose proof (kept_in [dummy; failure] failure (or_intror (or_introl eq_refl)) Hkf) as X. rewrite E in X. destruct X.
    - destruct Hin as [<-|[<-|[]]]; auto. }
  assert (Pen : loops en = loops o).
  { unfold en. rewrite combine_loops_same; [reflexivity|].
    intros sc [<-|[<-|[]]]; [apply keeps_live in Hkd; destruct Hkd|apply keeps_live in Hkf; destruct Hkf]; assumption. }
  destruct (IHh prot Huh en Len) as (Uh & Nh & Lh & Ph). fold h2 in Uh, Nh, Lh, Ph.
  destruct (upper_facts_b h en Huh) as (Kh & Mh). fold h2 in Kh, Mh.
  destruct (IHr prot Hur dummy failure (restore o h2) Hll Hkf Hkd Hklf Hkld Hsub) as (Ur & Nr & Lr & Pr & Mr). fold rr in Ur, Nr, Lr, Pr, Mr.
  split; [|split; [|split; [|split]]].
  - intros u d H. destruct (Ur u d H) as [H1|(t & v & Hp & Hr)].
    + cbn [restore u2d] in H1. destruct (Uh u d H1) as [H2|(t & v & Hp & Hr)]; [left; exact H2|].
      right. exists t, v. split; [cbn [lupath_hs]; left; exact Hp|]. eapply real_weaken; [|exact Hr]. apply Hen.
    + right. exists t, v. split; [cbn [lupath_hs]; right; exact Hp|exact Hr].
  - intros x [<-|Hx] Hlx.
    + destruct (Nh Hlx) as ((t & Hp) & Nh'). split; [exists t; cbn [lpath_hs]; left; exact Hp|].
      intros v d1 H. destruct (Nh' v d1 H) as (t' & Hp' & Hr). exists t'. split; [cbn [lpath_hs]; left; exact Hp'|].
      eapply real_weaken; [|exact Hr]. apply Hen.
    + destruct (Nr x Hx Hlx) as ((t & Hp) & Nr'). split; [exists t; cbn [lpath_hs]; right; exact Hp|].
      intros v d1 H. destruct (Nr' v d1 H) as (t' & Hp' & Hr). exists t'. split; [cbn [lpath_hs]; right; exact Hp'|exact Hr].
  - intros Hc. cbn [can_complete_hs] in Hc. apply orb_true_iff in Hc. destruct Hc as [Hc|Hc].
    + exists (cur h2). split; [left; reflexivity|apply Lh; exact Hc].
    + destruct (Lr Hc) as (x & Hx & Hlx). exists x. split; [right; exact Hx|exact Hlx].
  - rewrite Pr. cbn [restore loops]. rewrite Ph. exact Pen.
  - intros x [<-|Hx]; [rewrite Mh; destruct Len; assumption|apply Mr; exact Hx].
Qed.

Lemma uq_try : forall b hs e f, Q_b b -> Q_hs hs -> Q_b e -> Q_s (STry b hs e f).
Proof.
  intros b hs e f IHb IHhs IHe prot Hu st Hl. cbn [upper_ok_s] in Hu.
  apply andb_true_iff in Hu. destruct Hu as [Hu Hnb]. apply andb_true_iff in Hu. destruct Hu as [Hu Hdead].
  apply andb_true_iff in Hu. destruct Hu as [Hu Hf]. apply andb_true_iff in Hu. destruct Hu as [Hu Hue].
  apply andb_true_iff in Hu. destruct Hu as [Hub Huh].
  destruct f; [|discriminate]. apply negb_true_iff in Hnb.
  cbn [visit_s is_nil]. fold (try_except b hs e st). unfold try_except.
  set (pe := prot || negb (is_nil BNil)).
  set (s1 := visit_b b (te_body_entry st)).
  set (sf := te_after_body b st s1).
  set (e1 := te_else_entry st sf).
  set (e2 := visit_b e e1).
  set (dummy := strip_ls (cur (enter st))).
  set (failure := cur (snd sf)).
  set (o3 := te_handlers_entry st sf e2).
  set (hr := visit_hs hs dummy failure o3).
  assert (Hll : ll (cur st) = false) by (destruct Hl; assumption).
  assert (Hl3 : live (cur (te_body_entry st))) by (destruct Hl; split; cbn; auto).
  assert (Hl2 : live (cur (enter (enter st)))) by (destruct Hl; split; cbn; auto).
  destruct (IHb true Hub (te_body_entry st) Hl3) as (Ub & Nb & Lb & Pb). fold s1 in Ub, Nb, Lb, Pb.
  destruct (upper_facts_b b (te_body_entry st) Hub) as (Kb & Mb). fold s1 in Kb, Mb.
  destruct (upper_facts_b e e1 Hue) as (Ke & Me). fold e2 in Ke, Me.
  destruct (upper_facts_hs hs dummy failure o3 Huh) as (Fh & Ch). fold hr in Fh, Ch.
  destruct reach_and_raise as (_ & RB & _).
  assert (Lf : live failure) by (apply suppress_live; exact Hl2).
  assert (Kf : kle (vars (cur o3)) (vars failure)) by (apply (suppress_kle _ (enter (enter st)) s1)).
  assert (Ke1 : kle (vars (cur st)) (vars (cur e1))) by (apply (combine_kle _ (enter (restore (enter st) (snd sf))))).
  assert (Hll_s1 : ll (cur s1) = false) by (rewrite Mb; cbn; exact Hll).
  assert (Hll_e1 : ll (cur e1) = false) by (cbn; exact Hll).
  assert (Hll_e2 : ll (cur e2) = false) by (rewrite Me; exact Hll_e1).
  (* every binding possible when a handler starts is realised by a path of the body that raises *)
  assert (F : forall v d0, In d0 (lookupU (vars failure) v) ->
            exists tx, lpath_b true b OExc tx /\ real (cur st) v d0 tx).
  { intros v d0 H.
    destruct (suppress_complete (assigned_b b) (enter (enter st)) s1 v d0 Hl2 Kb H) as [H1|[H1|(Hk & H1)]].
    - exists []. split; [apply body_exc_start; exact Hnb|apply real_nil; exact H1].
    - destruct (RB b Hub v d0 H1) as (t & Hp & Ha). exists t. split; [exact Hp|right; exact Ha].
    - destruct (Nb (keeps_live _ Hk)) as (_ & Nb'). destruct (Nb' v d0 H1) as (t & Hp & Hr).
      exists t. split; [apply norm_to_exc; assumption|exact Hr]. }
  assert (Fex : exists tx, lpath_b true b OExc tx) by (exists []; apply body_exc_start; exact Hnb).
  (* the else clause starts from the bindings of a normal end of the body *)
  assert (Hs1e1 : live (cur s1) -> live (cur e1)).
  { intros L1. eapply combine_live with (sc := cur s1); [left; reflexivity|apply live_keeps; exact L1|].
    apply live_strip. cbn. exact Hll. }
  assert (He1s1 : live (cur e1) -> live (cur s1)).
  { intros L1. pose proof (combine_live_kept _ _ L1) as Hne. unfold kept in Hne. cbn [filter] in Hne.
    change (fst sf) with (cur s1) in Hne. destruct (keeps (cur s1)) eqn:E; [apply keeps_live; exact E|contradiction]. }
  assert (E1 : live (cur e1) -> forall v d1, In d1 (lookupU (vars (cur e1)) v) ->
            exists ta, lpath_b true b ONorm ta /\ real (cur st) v d1 ta).
  { intros L1 v d1 H. pose proof (He1s1 L1) as Ls1. destruct (Nb Ls1) as (_ & Nb').
    destruct (combine_complete [fst sf] (enter (restore (enter st) (snd sf))) v d1) as (sc & Hin & _ & Hd); auto.
    - intros sc [<-|[]]. exact Kb.
    - apply (combine_live_kept _ _ L1).
    - destruct Hin as [<-|[]]. apply Nb'. exact Hd. }
  assert (Hsub : forall v d, In d (lookupU (vars dummy) v) -> In d (lookupU (vars failure) v)).
  { intros v d H. apply (suppress_sat (assigned_b b) (enter (enter st)) s1 v d d Hl2 H). left. reflexivity. }
  assert (Hkd : keeps dummy = true) by (apply live_keeps; destruct Hl; split; cbn; auto).
  assert (Hll3 : ll (cur o3) = false) by (cbn; exact Hll).
  destruct (IHhs pe Huh dummy failure o3 Hll3 (live_keeps _ Lf) Hkd Kf (kle_refl _) Hsub) as (Uh & Nh & Lh & Ph & Mh).
  fold hr in Uh, Nh, Lh, Ph, Mh.
  assert (Hfin : forall t1 o1, lpath_te prot b hs e pe o1 t1 -> o1 = ONorm ->
            lpath_s prot (STry b hs e BNil) ONorm (t1 ++ [])).
  { intros t1 o1 H ->. cbn [lpath_s]. exists ONorm, t1, ONorm, []. split; [exact H|]. split; [cbn; auto|]. split; reflexivity. }
  split; [|split; [|split]].
  - (* uses *)
    intros u d H. change (u2d (te_finish st e2 hr)) with (u2d (snd hr)) in H.
    destruct (Uh u d H) as [H1|(th & v & Hp & Hr)].
    + change (u2d o3) with (u2d e2) in H1.
      assert (Hs1 : In (u, d) (u2d s1) -> In (u, d) (u2d st) \/ exists t v, lupath_s prot (STry b hs e BNil) t v u /\ real (cur st) v d t).
      { intros H2. destruct (Ub u d H2) as [H3|(t & v & Hp & Hr)]; [left; exact H3|].
        right. exists t, v. split; [cbn [lupath_s]; left; exact Hp|exact Hr]. }
      destruct e as [|es er]; [apply Hs1; exact H1|].
      cbn [is_nil] in Hdead. rewrite orb_false_r in Hdead.
      pose proof (Hs1e1 (Lb Hdead)) as L1.
      destruct (IHe pe Hue e1 L1) as (Ue & _). fold e2 in Ue.
      destruct (Ue u d H1) as [H2|(tb & v & Hp & Hr)]; [apply Hs1; exact H2|].
      right. destruct (Nb (He1s1 L1)) as (Hex & _).
      destruct (real_compose (fun t => lpath_b true b ONorm t) (cur st) (cur e1) v d tb Hr (E1 L1 v) Hex) as (ta & Hpa & Hra).
      exists (ta ++ tb), v. split; [|exact Hra]. cbn [lupath_s]. right. left. exists ta, tb. auto.
    + right.
      destruct (real_compose (fun t => lpath_b true b OExc t) (cur st) failure v d th Hr (F v) Fex) as (tx & Hpx & Hrx).
      exists (tx ++ th), v. split; [|exact Hrx]. cbn [lupath_s]. right. right. left. exists tx, th. auto.
  - (* normal end *)
    intros Hlf.
    assert (Hne : kept (cur e2 :: fst hr) <> []) by (apply (combine_live_kept _ (restore st (snd hr))); exact Hlf).
    assert (Hkle : forall sc, In sc (cur e2 :: fst hr) -> kle (vars (cur (restore st (snd hr)))) (vars sc)).
    { intros sc [<-|Hin]; [exact (kle_trans _ _ _ Ke1 Ke)|]. rewrite Forall_forall in Fh. apply (Fh sc Hin). }
    assert (Hone : forall sc, In sc (cur e2 :: fst hr) -> keeps sc = true ->
              (exists t, lpath_s prot (STry b hs e BNil) ONorm t) /\
              forall v d1, In d1 (lookupU (vars sc) v) -> exists t, lpath_s prot (STry b hs e BNil) ONorm t /\ real (cur st) v d1 t).
    { intros sc [<-|Hin] Hk.
      - pose proof (live_back_b e e1 Hue Hll_e1 (keeps_live _ Hk)) as L1.
        destruct (IHe pe Hue e1 L1) as (_ & Ne & _). fold e2 in Ne.
        destruct (Ne (keeps_live _ Hk)) as ((tb0 & Hpb0) & Ne').
        destruct (Nb (He1s1 L1)) as ((ta0 & Hpa0) & _).
        split.
        + exists ((ta0 ++ tb0) ++ []). apply (Hfin _ ONorm); [left; exists ta0, tb0; auto|reflexivity].
        + intros v d1 H. destruct (Ne' v d1 H) as (tb & Hpb & Hr).
          destruct (real_compose (fun t => lpath_b true b ONorm t) (cur st) (cur e1) v d1 tb Hr (E1 L1 v) (ex_intro _ ta0 Hpa0)) as (ta & Hpa & Hra).
          exists ((ta ++ tb) ++ []). split; [apply (Hfin _ ONorm); [left; exists ta, tb; auto|reflexivity]|].
          rewrite app_nil_r. exact Hra.
      - destruct (Nh sc Hin (keeps_live _ Hk)) as ((th0 & Hph0) & Nh').
        destruct Fex as (tx0 & Hpx0).
        split.
        + exists ((tx0 ++ th0) ++ []). apply (Hfin _ ONorm); [|reflexivity].
          right. right. exists tx0. split; [exact Hpx0|]. left. exists th0. auto.
        + intros v d1 H. destruct (Nh' v d1 H) as (th & Hph & Hr).
          destruct (real_compose (fun t => lpath_b true b OExc t) (cur st) failure v d1 th Hr (F v) (ex_intro _ tx0 Hpx0)) as (tx & Hpx & Hrx).
          exists ((tx ++ th) ++ []). split; [|rewrite app_nil_r; exact Hrx].
          apply (Hfin _ ONorm); [|reflexivity]. right. right. exists tx. split; [exact Hpx|]. left. exists th. auto. }
    split.
    + destruct (kept (cur e2 :: fst hr)) as [|k0 K'] eqn:EK; [contradiction|].
      assert (Hk0 : In k0 (kept (cur e2 :: fst hr))) by (rewrite EK; left; reflexivity).
      unfold kept in Hk0. apply filter_In in Hk0. destruct Hk0 as [Hin Hk]. apply (Hone k0 Hin Hk).
    + intros v d1 H.
      destruct (combine_complete (cur e2 :: fst hr) (restore st (snd hr)) v d1 Hkle Hne H) as (sc & Hin & Hk & Hd).
      destruct (Hone sc Hin Hk) as (_ & X). apply X. exact Hd.
  - (* can complete *)
    intros Hc. cbn [can_complete can_complete_b] in Hc. rewrite andb_true_r in Hc.
    apply orb_true_iff in Hc. destruct Hc as [Hc|Hc].
    + apply andb_true_iff in Hc. destruct Hc as [Hcb Hce].
      destruct (IHe pe Hue e1 (Hs1e1 (Lb Hcb))) as (_ & _ & Le & _). fold e2 in Le.
      eapply combine_live with (sc := cur e2); [left; reflexivity|apply live_keeps; apply Le; exact Hce|exact Hl].
    + destruct (Lh Hc) as (x & Hx & Hlx).
      eapply combine_live with (sc := x); [right; exact Hx|apply live_keeps; exact Hlx|exact Hl].
  - (* loop list untouched *)
    unfold te_finish. rewrite combine_loops_same.
    + cbn [restore loops]. rewrite Ph. change (loops o3) with (loops e2).
      assert (Pe1 : loops e1 = loops s1).
      { unfold e1, te_else_entry. rewrite combine_loops_same; [|intros sc [<-|[]]; exact Hll_s1].
        cbn [enter restore loops]. unfold sf, te_after_body, suppress_leave. cbn [snd].
        rewrite combine_loops_same; [reflexivity|].
        intros sc [<-|[<-|[<-|[]]]]; cbn; try exact Hll. exact Hll_s1. }
      destruct e as [|es er].
      * cbn [visit_b] in e2. unfold e2. rewrite Pe1. exact Pb.
      * cbn [is_nil] in Hdead. rewrite orb_false_r in Hdead.
        destruct (IHe pe Hue e1 (Hs1e1 (Lb Hdead))) as (_ & _ & _ & Pe). fold e2 in Pe. rewrite Pe, Pe1. exact Pb.
    + intros sc [<-|Hin]; [exact Hll_e2|apply Mh; exact Hin].
Qed.

Lemma uq_loop : forall fv b e, Q_b b -> Q_s (SLoop fv b e).
Proof.
  intros fv b e IHb prot Hu st Hl. cbn [upper_ok_s] in Hu.
  apply andb_true_iff in Hu. destruct Hu as [Hu Hub]. apply andb_true_iff in Hu. destruct Hu as [Hfv He].
  destruct fv; try discriminate. destruct e; [|discriminate].
  cbn [visit_s is_always is_forever].
  set (m0 := loop_body_entry st).
  set (m1 := visit_b b m0).
  set (o2 := loop_after_body st m1).
  set (body := cur o2).
  unfold loop_st2, loop_else_entry, loop_st4, loop_bs, loop_finish. cbn [is_nil negb andb visit_b].
  set (st2 := restore st o2).
  set (e2 := enter st2).
  set (st4 := combine [cur o2; cur e2] (restore st2 e2)).
  set (r1 := visit_b b (enter st4)).
  assert (Hll : ll (cur st) = false) by (destruct Hl; assumption).
  assert (Lm0 : live (cur m0)) by (destruct Hl; split; cbn; auto).
  destruct (IHb prot Hub m0 Lm0) as (Ub1 & Nb1 & _ & Pb1). fold m1 in Ub1, Nb1, Pb1.
  destruct (upper_facts_b b m0 Hub) as (Kb1 & Mb1). fold m1 in Kb1, Mb1.
  assert (Lm1nil : loops m1 = []) by (rewrite Pb1; reflexivity).
  assert (Le2 : live (cur e2)) by (destruct Hl; split; cbn; auto).
  assert (L4 : live (cur st4)).
  { eapply combine_live with (sc := cur e2); [right; left; reflexivity|apply live_keeps; exact Le2|exact Hl]. }
  destruct (IHb prot Hub (enter st4) (enter_live _ L4)) as (Ub2 & _ & _ & Pb2). fold r1 in Ub2, Pb2.
  assert (Kbody : kle (vars (cur st)) (vars body)).
  { apply (combine_kle _ (mkState (cur (enter st)) (loops st) (u2d m1))). }
  assert (LX : live (cur (mkState (cur (enter st)) (loops st) (u2d m1)))) by (destruct Hl; split; cbn; auto).
  (* a binding possible after the body comes from one round started before the loop *)
  assert (FB : keeps body = true -> forall v d1, In d1 (lookupU (vars body) v) ->
            exists t1, lpath_b prot b ONorm t1 /\ real (cur st) v d1 t1).
  { intros Hk v d1 H. unfold body, o2, loop_after_body, loop_scopes in H. rewrite Lm1nil in H. cbn [map] in H.
    destruct (combine_complete [strip_ll (cur m1)] (mkState (cur (enter st)) (loops st) (u2d m1)) v d1) as (sc & Hin & Hks & Hd); auto.
    - intros sc [<-|[]]. exact Kb1.
    - apply combine_live_kept with (st := mkState (cur (enter st)) (loops st) (u2d m1)).
      unfold body, o2, loop_after_body, loop_scopes in Hk. rewrite Lm1nil in Hk. cbn [map] in Hk. apply keeps_live. exact Hk.
    - destruct Hin as [<-|[]].
      assert (L1 : live (cur m1)).
      { apply keeps_live in Hks. destruct Hks as [X1 _]. split; [exact X1|rewrite Mb1; destruct Lm0; assumption]. }
      destruct (Nb1 L1) as (_ & Nb'). apply (Nb' v d1). exact Hd. }
  (* bindings at the head of any round: the ones before the loop, or after one round *)
  assert (F4 : forall v d1, In d1 (lookupU (vars (cur st4)) v) ->
            exists th, iters (fun x => lpath_b prot b ONorm x \/ lpath_b prot b OCont x) th /\ real (cur st) v d1 th).
  { intros v d1 H.
    destruct (combine_complete [cur o2; cur e2] (restore st2 e2) v d1) as (sc & Hin & Hk & Hd); auto.
    - intros sc [<-|[<-|[]]]; [exact Kbody|apply kle_refl].
    - apply (combine_live_kept _ _ L4).
    - destruct Hin as [<-|[<-|[]]].
      + destruct (FB Hk v d1 Hd) as (t1 & Hp & Hr). exists ([] ++ t1).
        split; [constructor; [constructor|left; exact Hp]|exact Hr].
      + exists []. split; [constructor|apply real_nil; exact Hd]. }
  split; [|split; [|split]].
  - intros u d H. cbn [restore u2d] in H.
    destruct (Ub2 u d H) as [H1|(t2 & v & Hp & Hr)].
    + change (u2d (enter st4)) with (u2d m1) in H1.
      destruct (Ub1 u d H1) as [H2|(t & v & Hp & Hr)]; [left; exact H2|].
      right. exists ([] ++ t), v. split; [|exact Hr]. cbn [lupath_s]. exists [], t. split; [constructor|]. split; [reflexivity|left; exact Hp].
    + right.
      destruct (real_compose (fun t => iters (fun x => lpath_b prot b ONorm x \/ lpath_b prot b OCont x) t) (cur st) (cur st4) v d t2 Hr (F4 v)
                  (ex_intro _ [] (iters_nil _))) as (th & Hi & Hrr).
      exists (th ++ t2), v. split; [|exact Hrr]. cbn [lupath_s]. exists th, t2. split; [exact Hi|]. split; [reflexivity|left; exact Hp].
  - intros _. split.
    + exists ([] ++ []). cbn [lpath_s]. exists [], []. split; [constructor|]. split; [reflexivity|right; left; auto].
    + intros v d1 H. cbn [restore cur] in H. destruct (F4 v d1 H) as (th & Hi & Hr).
      exists (th ++ []). split; [|rewrite app_nil_r; exact Hr].
      cbn [lpath_s]. exists th, []. split; [exact Hi|]. split; [reflexivity|right; left; auto].
  - intros _. exact L4.
  - cbn [restore loops]. rewrite Pb2. cbn [enter loops]. unfold st4. rewrite combine_loops_same.
    + unfold e2, st2. cbn [restore loops enter]. unfold o2, loop_after_body. rewrite combine_loops_same; [reflexivity|].
      intros sc Hin. apply in_map_iff in Hin. destruct Hin as (x & <- & _). reflexivity.
    + intros sc [<-|[<-|[]]]; cbn; exact Hll.
Qed.

Lemma upper_all : (forall s, Q_s s) /\ (forall b, Q_b b) /\ (forall hs, Q_hs hs).
Proof.
  apply syntax_mutind.
  - (* SAssign *) intros v d prot _ st Hl. cbn [visit_s]. split; [|split; [|split]].
    + intros u x H. left. exact H.
    + intros _. split; [exists [(v, d)]; cbn; auto|].
      intros w d1 H. exists [(v, d)]. split; [cbn; auto|].
      unfold set_var in H. cbn [cur vars] in H. unfold lookupU in H.
      destruct (N.eq_dec v w) as [->|Hne].
      * rewrite lookup_upd_same in H. destruct H as [<-|[]]. right. intros d0. cbn. rewrite N.eqb_refl. reflexivity.
      * rewrite lookup_upd_other in H by assumption. left. exists d1. split; [exact H|].
        cbn. apply N.eqb_neq in Hne. rewrite Hne. reflexivity.
    + intros _. exact Hl.
    + reflexivity.
  - (* SUse *) intros v u prot _ st Hl. cbn [visit_s]. split; [|split; [|split]].
    + intros u' x H. unfold get_var in H. cbn [u2d] in H. apply in_app_or in H. destruct H as [H|H]; [left; exact H|].
      right. apply in_map_iff in H. destruct H as (d0 & E & Hin). inversion E; subst.
      exists [], v. split; [cbn; auto|]. apply real_nil. exact Hin.
    + intros _. split; [exists []; cbn; auto|]. intros w d1 H. exists []. split; [cbn; auto|]. apply real_nil. exact H.
    + intros _. exact Hl.
    + reflexivity.
  - (* SCall *) intros prot _ st Hl. cbn [visit_s]. split; [|split; [|split]].
    + intros u x H. left. exact H.
    + intros _. split; [exists []; cbn; auto|]. intros w d1 H. exists []. split; [cbn; auto|]. apply real_nil. exact H.
    + intros _. exact Hl.
    + reflexivity.
  - (* SPass *) intros prot _ st Hl. cbn [visit_s]. split; [|split; [|split]].
    + intros u x H. left. exact H.
    + intros _. split; [exists []; cbn; auto|]. intros w d1 H. exists []. split; [cbn; auto|]. apply real_nil. exact H.
    + intros _. exact Hl.
    + reflexivity.
  - (* SReturn *) intros prot _ st Hl. cbn [visit_s]. split; [|split; [|split]].
    + intros u x H. left. exact H.
    + intros [X _]. cbn in X. discriminate.
    + intros X. cbn in X. discriminate.
    + reflexivity.
  - (* SRaise *) intros prot _ st Hl. cbn [visit_s]. split; [|split; [|split]].
    + intros u x H. left. exact H.
    + intros [X _]. cbn in X. discriminate.
    + intros X. cbn in X. discriminate.
    + reflexivity.
  - intros prot H. discriminate.
  - intros prot H. discriminate.
  - intros b Hb e He. apply uq_if; assumption.
  - intros fv b Hb e He. apply uq_loop; assumption.
  - intros sup b Hb. apply uq_with; assumption.
  - intros b Hb hs Hhs e He f Hf. apply uq_try; assumption.
  - (* BNil *) intros prot _ st Hl. cbn [visit_b]. split; [|split; [|split]].
    + intros u x H. left. exact H.
    + intros _. split; [exists []; cbn; auto|]. intros w d1 H. exists []. split; [cbn; auto|]. apply real_nil. exact H.
    + intros _. exact Hl.
    + reflexivity.
  - intros s Hs r Hr. apply uq_bcons; assumption.
  - (* HNil *) intros prot _ dummy failure o _ _ _ _ _ _. cbn [visit_hs fst snd].
    split; [intros u d H; left; exact H|]. split; [intros h []|]. split; [intros X; discriminate|]. split; [reflexivity|intros h []].
  - intros h Hh r Hr. apply uq_hcons; assumption.
Qed.

Lemma reported_in_analyse : forall p u d, In d (reported p u) -> In (u, d) (analyse p).
Proof.
  intros p u d H. unfold reported in H. apply nodup_In in H. apply in_map_iff in H.
  destruct H as ([u' d'] & E & H). cbn in E. subst d'. apply filter_In in H. destruct H as [H1 H2].
  cbn in H2. apply N.eqb_eq in H2. subst u'. exact H1.
Qed.

(* the upper bound: everything reported reaches the use along a liberal path *)
Theorem reported_sub_liberal : forall p u d,
  upper_ok p = true -> In d (reported p u) -> liberal_reach p u d.
Proof.
  intros p u d Hu H. apply reported_in_analyse in H. unfold analyse in H.
  destruct upper_all as (_ & QB & _).
  assert (Hl : live (cur init)) by (split; reflexivity).
  destruct (QB p false Hu init Hl) as (U & _).
  destruct (U u d H) as [[]|(t & v & Hp & Hr)].
  exists t, v. split; [exact Hp|].
  destruct Hr as [(d0 & Hin & ->)|Hall].
  - cbn in Hin. destruct Hin as [<-|[]]. reflexivity.
  - symmetry. apply Hall.
Qed.

(* a name bound on every liberal path is not reported as (possibly) undefined *)
Theorem bound_is_not_reported : forall p u,
  upper_ok p = true -> (forall d, liberal_reach p u d -> d <> UN) ->
  undefined_name p u = true /\ reported p u <> [] -> False.
Proof.
  intros p u Hu Hb (Hun & Hne). destruct (reported p u) as [|d l] eqn:E; [contradiction|].
  unfold undefined_name, only_un in Hun. rewrite E in Hun. cbn [forallb] in Hun. apply andb_true_iff in Hun. destruct Hun as [Hd _].
  apply N.eqb_eq in Hd. subst d. apply (Hb UN); [|reflexivity].
  apply reported_sub_liberal; [exact Hu|rewrite E; left; reflexivity].
Qed.

Theorem bound_is_not_possibly : forall p u,
  upper_ok p = true -> (forall d, liberal_reach p u d -> d <> UN) -> possibly_undefined p u = false.
Proof.
  intros p u Hu Hb. unfold possibly_undefined.
  destruct (existsb (N.eqb UN) (reported p u)) eqn:E; [|reflexivity].
  apply existsb_exists in E. destruct E as (x & Hin & Hx). apply N.eqb_eq in Hx. subst x.
  exfalso. apply (Hb UN); [|reflexivity]. apply reported_sub_liberal; assumption.
Qed.
