(* Proofs/ScopesUpper.v — the liberal path semantics contains the strict one, and the
   upper bound (reported within liberal reaching definitions) for the staged fragment. *)
From Coq Require Import NArith List Bool Lia.
Import ListNotations.
Require Import PV.Scopes.Syntax PV.Scopes.Analysis PV.Scopes.Paths PV.Scopes.Guards.
Require Import PV.Proofs.ScopesMaps PV.Proofs.ScopesSound.

Lemma iters_mono : forall (R R' : trace -> Prop), (forall t, R t -> R' t) -> forall t, iters R t -> iters R' t.
Proof. intros R R' H t Hi. induction Hi; [constructor|constructor; auto]. Qed.

(* ---- every strict path is a liberal path *)
Lemma strict_path_liberal :
  (forall s prot o t, path_s s o t -> lpath_s prot s o t) /\
  (forall b prot o t, path_b b o t -> lpath_b prot b o t) /\
  (forall hs prot o t, path_hs hs o t -> lpath_hs prot hs o t).
Proof.
  apply syntax_mutind; cbn [path_s path_b path_hs lpath_s lpath_b lpath_hs]; auto.
  - intros b IHb e IHe prot o t [H|H]; [left|right]; auto.
  - intros fv b IHb e IHe prot o t (th & t2 & Hi & -> & H). exists th, t2.
    split; [eapply iters_mono; [|exact Hi]; intros x [Hx|Hx]; auto|]. split; [reflexivity|].
    destruct H as [(_ & H)|[(-> & H)|(Ho & H)]].
    + left. auto.
    + right. right. left. split; auto.
    + right. right. right. split; auto.
  - intros sup b IHb prot o t [H|(-> & -> & H)].
    + right. right. left. auto.
    + right. right. right. repeat split; auto.
  - intros b IHb hs IHhs e IHe f IHf prot o t (o1 & t1 & o2 & t2 & Hte & Hf & -> & ->).
    exists o1, t1, o2, t2. split; [|split; [auto|split; reflexivity]].
    destruct Hte as [(ta & tb & Ha & Hb & ->)|[(Ho & Ha)|(tx & Hx & [(th & Hh & ->)|(-> & ->)])]].
    + left. exists ta, tb. auto.
    + right. left. auto.
    + right. right. exists tx. split; [auto|]. left. exists th. auto.
    + right. right. exists tx. split; [auto|]. right. auto.
  - intros s IHs r IHr prot o t [(t1 & t2 & H1 & H2 & ->)|(Ho & H)].
    + right. left. exists t1, t2. auto.
    + right. right. right. auto.
  - intros h IHh r IHr prot o t [H|H]; auto.
Qed.

Lemma strict_upath_liberal :
  (forall s prot t v u, upath_s s t v u -> lupath_s prot s t v u) /\
  (forall b prot t v u, upath_b b t v u -> lupath_b prot b t v u) /\
  (forall hs prot t v u, upath_hs hs t v u -> lupath_hs prot hs t v u).
Proof.
  destruct strict_path_liberal as (PS & PB & PH).
  apply syntax_mutind; cbn [upath_s upath_b upath_hs lupath_s lupath_b lupath_hs]; auto.
  - intros b IHb e IHe prot t v u [H|H]; auto.
  - intros fv b IHb e IHe prot t v u (th & t2 & Hi & -> & H). exists th, t2.
    split; [eapply iters_mono; [|exact Hi]; intros x [Hx|Hx]; auto|]. split; [reflexivity|].
    destruct H as [H|(_ & H)]; auto.
  - intros b IHb hs IHhs e IHe f IHf prot t v u H.
    destruct H as [H|[(ta & tb & Ha & Hb & ->)|[(tx & th & Hx & Hh & ->)|(o1 & t1 & t2 & Hte & Hf & ->)]]].
    + left. auto.
    + right. left. exists ta, tb. auto.
    + right. right. left. exists tx, th. auto.
    + right. right. right. exists o1, t1, t2. split; [|auto].
      destruct Hte as [(ta & tb & Ha & Hb & ->)|[(Ho & Ha)|(tx & Hx & [(th & Hh & ->)|(-> & ->)])]].
      * left. exists ta, tb. auto.
      * right. left. auto.
      * right. right. exists tx. split; [auto|]. left. exists th. auto.
      * right. right. exists tx. split; [auto|]. right. auto.
  - intros s IHs r IHr prot t v u [H|(t1 & t2 & H1 & H2 & ->)]; auto.
    right. exists t1, t2. auto.
  - intros h IHh r IHr prot t v u [H|H]; auto.
Qed.

Theorem strict_sub_liberal : forall p u d, strict_reach p u d -> liberal_reach p u d.
Proof.
  intros p u d (t & v & H & ->). exists t, v. split; [|reflexivity].
  destruct strict_upath_liberal as (_ & UB & _). apply UB. exact H.
Qed.

(* ---- the upper bound *)

Lemma upper_nojump :
  (forall s, upper_ok_s s = true -> has_jump s = false) /\
  (forall b, upper_ok_b b = true -> has_jump_b b = false) /\
  (forall hs, upper_ok_hs hs = true -> has_jump_hs hs = false).
Proof.
  apply syntax_mutind; cbn [upper_ok_s upper_ok_b upper_ok_hs has_jump has_jump_b has_jump_hs]; auto;
    try (intros; discriminate).
  - intros b IHb e IHe H. apply andb_true_iff in H. destruct H as [H1 H2]. rewrite IHb, IHe; auto.
  - intros fv b IHb e IHe H. apply andb_true_iff in H. destruct H as [H H3]. apply andb_true_iff in H. destruct H as [H1 H2].
    rewrite IHb by assumption. destruct e; [reflexivity|discriminate].
  - intros b IHb hs IHhs e IHe f IHf H.
    apply andb_true_iff in H. destruct H as [H _]. apply andb_true_iff in H. destruct H as [H H4].
    apply andb_true_iff in H. destruct H as [H H3]. apply andb_true_iff in H. destruct H as [H1 H2].
    rewrite IHb, IHhs, IHe by assumption. destruct f; [reflexivity|discriminate].
  - intros s IHs r IHr H. apply andb_true_iff in H. destruct H as [H _]. apply andb_true_iff in H. destruct H as [H1 H2].
    rewrite IHs, IHr; auto.
  - intros h IHh r IHr H. apply andb_true_iff in H. destruct H as [H1 H2]. rewrite IHh, IHr; auto.
Qed.

Lemma upper_facts_b : forall b st, upper_ok_b b = true ->
  kle (vars (cur st)) (vars (cur (visit_b b st))) /\ ll (cur (visit_b b st)) = ll (cur st).
Proof.
  intros b st H. destruct upper_nojump as (_ & NJ & _). destruct nojump_lower_ok_all as (_ & LB & _).
  destruct (LB b (NJ b H)) as (L1 & L2 & _). destruct sound_all as (_ & PB & _).
  destruct (PB b L1 st) as (_ & K & _ & M & _). split; [exact K|exact (M L2)].
Qed.

Lemma upper_facts_s : forall s st, upper_ok_s s = true ->
  kle (vars (cur st)) (vars (cur (visit_s s st))) /\ ll (cur (visit_s s st)) = ll (cur st).
Proof.
  intros s st H. destruct upper_nojump as (NJ & _ & _). destruct nojump_lower_ok_all as (LS & _ & _).
  destruct (LS s (NJ s H)) as (L1 & L2 & _). destruct sound_all as (PS & _ & _).
  destruct (PS s L1 st) as (_ & K & _ & M & _). split; [exact K|exact (M L2)].
Qed.

(* LEAVES_SCOPE, once in the current dict, stays there *)
Lemma ls_mono :
  (forall s st, ls (cur st) = true -> ls (cur (visit_s s st)) = true) /\
  (forall b st, ls (cur st) = true -> ls (cur (visit_b b st)) = true) /\
  (forall hs : handlers, True).
Proof.
  apply syntax_mutind; auto.
  - intros b _ e _ st H. cbn [visit_s]. unfold if_finish, combine. cbn. rewrite H. reflexivity.
  - intros fv b _ e _ st H. cbn [visit_s]. unfold loop_finish.
    assert (X : ls (cur (loop_st4 fv (loop_st2 fv st (loop_after_body st (visit_b b (loop_body_entry st))))
                 (loop_after_body st (visit_b b (loop_body_entry st)))
                 (visit_b e (loop_else_entry fv e (loop_st2 fv st (loop_after_body st (visit_b b (loop_body_entry st))))
                    (loop_after_body st (visit_b b (loop_body_entry st))))))) = true).
    { unfold loop_st4, combine. cbn [cur ls restore]. destruct fv; unfold loop_st2; cbn; rewrite H; reflexivity. }
    destruct (fv && _); cbn; auto.
  - intros sup b IHb st H. cbn [visit_s]. destruct sup; [|auto].
    unfold suppress_leave, combine. cbn. rewrite H. reflexivity.
  - intros b _ hs _ e _ f IHf st H. cbn [visit_s]. destruct (is_nil f).
    + unfold te_finish, combine. cbn. rewrite H. reflexivity.
    + apply IHf. unfold fin_second_entry, combine. cbn. rewrite H. reflexivity.
  - intros s IHs r IHr st H. cbn [visit_b]. auto.
Qed.

Lemma combined_dead : forall S, kept S = [] -> ls (combined S) = true.
Proof. intros S H. unfold combined. rewrite H. reflexivity. Qed.

Lemma combine_live_kept : forall S st, live (cur (combine S st)) -> kept S <> [].
Proof.
  intros S st [H _] E. unfold combine in H. cbn in H. rewrite (combined_dead S E) in H.
  rewrite orb_true_r in H. discriminate.
Qed.

Lemma combine_complete : forall S st v d,
  (forall sc, In sc S -> kle (vars (cur st)) (vars sc)) -> kept S <> [] ->
  In d (lookupU (vars (cur (combine S st))) v) ->
  exists sc, In sc S /\ keeps sc = true /\ In d (lookupU (vars sc) v).
Proof.
  intros S st v d Hk Hne Hin. unfold combine in Hin. cbn [cur vars] in Hin.
  unfold combined in Hin. destruct (kept S) as [|k0 K'] eqn:EK; [contradiction|].
  cbn [vars] in Hin. unfold lookupU in Hin. rewrite lookup_update_vars in Hin by apply merged_nodup.
  destruct (in_dec N.eq_dec v (keys_union (k0 :: K'))) as [Hv|Hv].
  - unfold merged in Hin. rewrite lookup_map_in in Hin by assumption.
    apply nodup_In in Hin. apply in_flat_map in Hin. destruct Hin as (sc & Hsc & Hd).
    assert (HscK : In sc (kept S)) by (rewrite EK; exact Hsc).
    unfold kept in HscK. apply filter_In in HscK. destruct HscK as [H1 H2]. exists sc. auto.
  - unfold merged in Hin at 1. rewrite lookup_map_notin in Hin by assumption.
    assert (Hk0 : In k0 (kept S)) by (rewrite EK; left; reflexivity).
    unfold kept in Hk0. apply filter_In in Hk0. destruct Hk0 as [H1 H2].
    exists k0. split; [exact H1|]. split; [exact H2|].
    assert (Hn : lookup (vars k0) v = None).
    { apply lookup_none_keys. intros Hc. apply Hv. eapply in_keys_union; [left; reflexivity|exact Hc]. }
    unfold lookupU. rewrite Hn.
    destruct (lookup (vars (cur st)) v) eqn:E; [|exact Hin].
    exfalso. apply (Hk k0 H1 v); [rewrite E; discriminate|exact Hn].
Qed.

(* the binding d is produced by trace t from some binding possible in c0, or by t alone *)
Definition real (c0 : scope) (v : var) (d : node) (t : trace) : Prop :=
  (exists d0, In d0 (lookupU (vars c0) v) /\ d = applyv t v d0) \/ (forall d0, applyv t v d0 = d).

Definition Q_s (s : stmt) : Prop := forall prot, upper_ok_s s = true -> flat_s s = true -> forall st, live (cur st) ->
  (forall u d, In (u, d) (u2d (visit_s s st)) -> In (u, d) (u2d st) \/
      exists t v, lupath_s prot s t v u /\ real (cur st) v d t) /\
  (live (cur (visit_s s st)) ->
      (exists t, lpath_s prot s ONorm t) /\
      forall v d1, In d1 (lookupU (vars (cur (visit_s s st))) v) ->
        exists t, lpath_s prot s ONorm t /\ real (cur st) v d1 t) /\
  (can_complete s = true -> live (cur (visit_s s st))).

Definition Q_b (b : block) : Prop := forall prot, upper_ok_b b = true -> flat_b b = true -> forall st, live (cur st) ->
  (forall u d, In (u, d) (u2d (visit_b b st)) -> In (u, d) (u2d st) \/
      exists t v, lupath_b prot b t v u /\ real (cur st) v d t) /\
  (live (cur (visit_b b st)) ->
      (exists t, lpath_b prot b ONorm t) /\
      forall v d1, In d1 (lookupU (vars (cur (visit_b b st))) v) ->
        exists t, lpath_b prot b ONorm t /\ real (cur st) v d1 t) /\
  (can_complete_b b = true -> live (cur (visit_b b st))).

Lemma real_nil : forall c v d, In d (lookupU (vars c) v) -> real c v d [].
Proof. intros c v d H. left. exists d. split; [exact H|reflexivity]. Qed.

Lemma upper_all : (forall s, Q_s s) /\ (forall b, Q_b b) /\ (forall hs : handlers, True).
Proof.
  apply syntax_mutind; auto; try (intros; intros prot Hu Hf; discriminate).
  - (* SAssign *) intros v d prot _ _ st Hl. cbn [visit_s]. split; [|split].
    + intros u x H. left. exact H.
    + intros _. split; [exists [(v, d)]; cbn; auto|].
      intros w d1 H. exists [(v, d)]. split; [cbn; auto|].
      unfold set_var in H. cbn [cur vars] in H. unfold lookupU in H.
      destruct (N.eq_dec v w) as [->|Hne].
      * rewrite lookup_upd_same in H. destruct H as [<-|[]]. right. intros d0. cbn. rewrite N.eqb_refl. reflexivity.
      * rewrite lookup_upd_other in H by assumption. left. exists d1. split; [exact H|].
        cbn. apply N.eqb_neq in Hne. rewrite Hne. reflexivity.
    + intros _. exact Hl.
  - (* SUse *) intros v u prot _ _ st Hl. cbn [visit_s]. split; [|split].
    + intros u' x H. unfold get_var in H. cbn [u2d] in H. apply in_app_or in H. destruct H as [H|H]; [left; exact H|].
      right. apply in_map_iff in H. destruct H as (d0 & E & Hin). inversion E; subst.
      exists [], v. split; [cbn; auto|]. apply real_nil. exact Hin.
    + intros _. split; [exists []; cbn; auto|]. intros w d1 H. exists []. split; [cbn; auto|]. apply real_nil. exact H.
    + intros _. exact Hl.
  - (* SCall *) intros prot _ _ st Hl. cbn [visit_s]. split; [|split].
    + intros u x H. left. exact H.
    + intros _. split; [exists []; cbn; auto|]. intros w d1 H. exists []. split; [cbn; auto|]. apply real_nil. exact H.
    + intros _. exact Hl.
  - (* SPass *) intros prot _ _ st Hl. cbn [visit_s]. split; [|split].
    + intros u x H. left. exact H.
    + intros _. split; [exists []; cbn; auto|]. intros w d1 H. exists []. split; [cbn; auto|]. apply real_nil. exact H.
    + intros _. exact Hl.
  - (* SReturn *) intros prot _ _ st Hl. cbn [visit_s]. split; [|split].
    + intros u x H. left. exact H.
    + intros [X _]. cbn in X. discriminate.
    + intros X. cbn in X. discriminate.
  - (* SRaise *) intros prot _ _ st Hl. cbn [visit_s]. split; [|split].
    + intros u x H. left. exact H.
    + intros [X _]. cbn in X. discriminate.
    + intros X. cbn in X. discriminate.
  - (* SIf *) intros b IHb e IHe prot Hu Hf st Hl.
    cbn [upper_ok_s] in Hu. apply andb_true_iff in Hu. destruct Hu as [Hub Hue].
    cbn [flat_s] in Hf. apply andb_true_iff in Hf. destruct Hf as [Hfb Hfe].
    cbn [visit_s].
    set (s1 := visit_b b (enter st)). set (s2 := visit_b e (if_mid st s1)).
    destruct (IHb prot Hub Hfb (enter st) (enter_live _ Hl)) as (Ub & Nb & Lb). fold s1 in Ub, Nb, Lb.
    destruct (IHe prot Hue Hfe (if_mid st s1) (enter_live (restore st s1) Hl)) as (Ue & Ne & Le). fold s2 in Ue, Ne, Le.
    destruct (upper_facts_b b (enter st) Hub) as (Kb & Mb). fold s1 in Kb, Mb.
    destruct (upper_facts_b e (if_mid st s1) Hue) as (Ke & Me). fold s2 in Ke, Me.
    split; [|split].
    + intros u d H. change (u2d (if_finish st s1 s2)) with (u2d s2) in H.
      destruct (Ue u d H) as [H1|(t & v & Hp & Hr)].
      * change (u2d (if_mid st s1)) with (u2d s1) in H1. destruct (Ub u d H1) as [H2|(t & v & Hp & Hr)].
        -- left. exact H2.
        -- right. exists t, v. split; [cbn [lupath_s]; left; exact Hp|exact Hr].
      * right. exists t, v. split; [cbn [lupath_s]; right; exact Hp|exact Hr].
    + intros Hlf.
      assert (Hne : kept [cur s1; cur s2] <> []) by (apply (combine_live_kept _ (restore (restore st s1) s2)); exact Hlf).
      assert (Hsel : forall v d1, In d1 (lookupU (vars (cur (if_finish st s1 s2))) v) ->
                exists t, lpath_s prot (SIf b e) ONorm t /\ real (cur st) v d1 t).
      { intros v d1 H.
        destruct (combine_complete [cur s1; cur s2] (restore (restore st s1) s2) v d1) as (sc & Hin & Hk & Hd); auto.
        { intros sc [<-|[<-|[]]]; assumption. }
        destruct Hin as [<-|[<-|[]]].
        - destruct (Nb (keeps_live _ Hk)) as (_ & Nb'). destruct (Nb' v d1 Hd) as (t & Hp & Hr).
          exists t. split; [cbn [lpath_s]; left; exact Hp|exact Hr].
        - destruct (Ne (keeps_live _ Hk)) as (_ & Ne'). destruct (Ne' v d1 Hd) as (t & Hp & Hr).
          exists t. split; [cbn [lpath_s]; right; exact Hp|exact Hr]. }
      split; [|exact Hsel].
      destruct (kept [cur s1; cur s2]) as [|k0 K'] eqn:EK; [contradiction|].
      assert (Hk0 : In k0 (kept [cur s1; cur s2])) by (rewrite EK; left; reflexivity).
      unfold kept in Hk0. apply filter_In in Hk0. destruct Hk0 as [[<-|[<-|[]]] Hk].
      * destruct (Nb (keeps_live _ Hk)) as ((t & Hp) & _). exists t. cbn [lpath_s]. left. exact Hp.
      * destruct (Ne (keeps_live _ Hk)) as ((t & Hp) & _). exists t. cbn [lpath_s]. right. exact Hp.
    + intros Hc. cbn [can_complete] in Hc. apply orb_true_iff in Hc. destruct Hc as [Hc|Hc].
      * eapply combine_live with (sc := cur s1); [left; reflexivity|apply live_keeps; apply Lb; exact Hc|exact Hl].
      * eapply combine_live with (sc := cur s2); [right; left; reflexivity|apply live_keeps; apply Le; exact Hc|exact Hl].
  - (* BNil *) intros prot _ _ st Hl. cbn [visit_b]. split; [|split].
    + intros u x H. left. exact H.
    + intros _. split; [exists []; cbn; auto|]. intros w d1 H. exists []. split; [cbn; auto|]. apply real_nil. exact H.
    + intros _. exact Hl.
  - (* BCons *) intros s IHs r IHr prot Hu Hf st Hl.
    cbn [upper_ok_b] in Hu. apply andb_true_iff in Hu. destruct Hu as [Hu Hdead]. apply andb_true_iff in Hu. destruct Hu as [Hus Hur].
    cbn [flat_b] in Hf. apply andb_true_iff in Hf. destruct Hf as [Hfs Hfr].
    cbn [visit_b]. set (st1 := visit_s s st).
    destruct (IHs prot Hus Hfs st Hl) as (Us & Ns & Ls). fold st1 in Us, Ns, Ls.
    destruct (upper_facts_s s st Hus) as (Ks & Ms). fold st1 in Ks, Ms.
    assert (Hback : live (cur (visit_b r st1)) -> live (cur st1)).
    { intros [X1 X2]. split.
      - destruct (ls (cur st1)) eqn:E; [|reflexivity]. destruct ls_mono as (_ & LM & _).
        rewrite (LM r st1 E) in X1. discriminate.
      - rewrite Ms. destruct Hl; assumption. }
    split; [|split].
    + intros u d H.
      destruct r as [|s' r'].
      * cbn [visit_b] in H. destruct (Us u d H) as [H1|(t & v & Hp & Hr)]; [left; exact H1|].
        right. exists t, v. split; [cbn [lupath_b]; left; exact Hp|exact Hr].
      * set (r := BCons s' r') in *.
        assert (Hcs : can_complete s = true) by (cbn in Hdead; rewrite orb_false_r in Hdead; exact Hdead).
        pose proof (Ls Hcs) as Hl1.
        destruct (IHr prot Hur Hfr st1 Hl1) as (Ur & _ & _).
        destruct (Ur u d H) as [H1|(t2 & v & Hp & Hr)].
        -- destruct (Us u d H1) as [H2|(t & v & Hp & Hr)]; [left; exact H2|].
           right. exists t, v. split; [cbn [lupath_b]; left; exact Hp|exact Hr].
        -- right. destruct (Ns Hl1) as ((t0 & Hp0) & Ns').
           destruct Hr as [(d1 & Hin & ->)|Hall].
           ++ destruct (Ns' v d1 Hin) as (t1 & Hp1 & Hr1). exists (t1 ++ t2), v.
              split; [cbn [lupath_b]; right; exists t1, t2; auto|].
              destruct Hr1 as [(d0 & Hin0 & ->)|Hall1].
              ** left. exists d0. split; [exact Hin0|]. rewrite applyv_app. reflexivity.
              ** right. intros d0. rewrite applyv_app. rewrite Hall1. reflexivity.
           ++ exists (t0 ++ t2), v. split; [cbn [lupath_b]; right; exists t0, t2; auto|].
              right. intros d0. rewrite applyv_app. apply Hall.
    + intros Hl2. pose proof (Hback Hl2) as Hl1.
      destruct (IHr prot Hur Hfr st1 Hl1) as (_ & Nr & _). destruct (Nr Hl2) as ((t2 & Hp2) & Nr').
      destruct (Ns Hl1) as ((t0 & Hp0) & Ns').
      split; [exists (t0 ++ t2); cbn [lpath_b]; right; left; exists t0, t2; auto|].
      intros v d2 H. destruct (Nr' v d2 H) as (t2' & Hp2' & Hr).
      destruct Hr as [(d1 & Hin & ->)|Hall].
      * destruct (Ns' v d1 Hin) as (t1 & Hp1 & Hr1). exists (t1 ++ t2').
        split; [cbn [lpath_b]; right; left; exists t1, t2'; auto|].
        destruct Hr1 as [(d0 & Hin0 & ->)|Hall1].
        -- left. exists d0. split; [exact Hin0|]. rewrite applyv_app. reflexivity.
        -- right. intros d0. rewrite applyv_app. rewrite Hall1. reflexivity.
      * exists (t0 ++ t2'). split; [cbn [lpath_b]; right; left; exists t0, t2'; auto|].
        right. intros d0. rewrite applyv_app. apply Hall.
    + intros Hc. cbn [can_complete_b] in Hc. apply andb_true_iff in Hc. destruct Hc as [Hc1 Hc2].
      destruct (IHr prot Hur Hfr st1 (Ls Hc1)) as (_ & _ & Lr). apply Lr. exact Hc2.
Qed.

Lemma reported_in_analyse : forall p u d, In d (reported p u) -> In (u, d) (analyse p).
Proof.
  intros p u d H. unfold reported in H. apply nodup_In in H. apply in_map_iff in H.
  destruct H as ([u' d'] & E & H). cbn in E. subst d'. apply filter_In in H. destruct H as [H1 H2].
  cbn in H2. apply N.eqb_eq in H2. subst u'. exact H1.
Qed.

(* stage 1 of the upper bound: programs built from assignments, uses, calls, pass, return,
   raise and if/else (no dead code): everything reported reaches the use along a liberal path *)
Theorem reported_sub_liberal_flat : forall p u d,
  upper1_ok p = true -> In d (reported p u) -> liberal_reach p u d.
Proof.
  intros p u d Hok H. unfold upper1_ok in Hok. apply andb_true_iff in Hok. destruct Hok as [Hu Hf].
  apply reported_in_analyse in H. unfold analyse in H.
  destruct upper_all as (_ & QB & _).
  assert (Hl : live (cur init)) by (split; reflexivity).
  destruct (QB p false Hu Hf init Hl) as (U & _).
  destruct (U u d H) as [[]|(t & v & Hp & Hr)].
  exists t, v. split; [exact Hp|].
  destruct Hr as [(d0 & Hin & ->)|Hall].
  - cbn in Hin. destruct Hin as [<-|[]]. reflexivity.
  - symmetry. apply Hall.
Qed.

(* a name bound on every liberal path is not reported as (possibly) undefined *)
Theorem bound_not_reported_flat : forall p u,
  upper1_ok p = true -> In UN (reported p u) -> liberal_reach p u UN.
Proof. intros p u H1 H2. apply reported_sub_liberal_flat; assumption. Qed.
