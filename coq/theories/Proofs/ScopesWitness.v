(* Proofs/ScopesWitness.v — concrete witnesses for the guards of the C09 theorems. *)
From Coq Require Import NArith List Bool.
Import ListNotations.
Require Import PV.Scopes.Syntax PV.Scopes.Analysis PV.Scopes.Paths PV.Scopes.Guards.
Open Scope N_scope.

Fixpoint blk (l : list stmt) : block :=
  match l with [] => BNil | s :: r => BCons s (blk r) end.

(* x = 10
   while True:
       x = 3
       if cond():
           break
           x = 1        # dead code
       x = 4
   use(x)               # x is 3 here; the checker reports {4, 1} *)
Definition w_dead : block :=
  blk [SAssign 1 10;
       SLoop LForever (blk [SAssign 1 3; SIf (blk [SBreak; SAssign 1 1]) BNil; SAssign 1 4]) BNil;
       SUse 1 99].

Lemma w_dead_reach : strict_reach w_dead 99 3.
Proof.
  exists ([(1, 10)] ++ ([] ++ [(1, 3)] ++ []) ++ []), 1. split; [|reflexivity].
  cbn [w_dead blk upath_b]. right. exists [(1, 10)], (([] ++ [(1, 3)] ++ []) ++ []).
  split; [cbn; auto|]. split; [|reflexivity].
  right. exists ([] ++ [(1, 3)] ++ []), []. split; [|split; [left; cbn; auto|reflexivity]].
  cbn [path_s]. exists [], ([(1, 3)] ++ []). split; [constructor|]. split; [reflexivity|].
  right. left. split; [reflexivity|].
  cbn [path_b]. left. exists [(1, 3)], []. split; [cbn; auto|]. split; [|reflexivity].
  right. split; [discriminate|]. cbn [path_s]. left.
  cbn [path_b]. right. split; [discriminate|]. cbn. auto.
Qed.

Lemma w_dead_not_reported : ~ In 3 (reported w_dead 99).
Proof. vm_compute. intros [H|[H|H]]; try discriminate; exact H. Qed.

Lemma w_dead_guard : lower_ok w_dead = false.
Proof. vm_compute. reflexivity. Qed.

(* x = 10
   while cond():
       try:
           x = 1
           break
       finally:
           x = 2
   use(x)               # x is 10 or 2 here; the checker used to report {1, 10}, now {1, 2, 10} *)
Definition w_fin : block :=
  blk [SAssign 1 10;
       SLoop LCond (blk [STry (blk [SAssign 1 1; SBreak]) HNil BNil (blk [SAssign 1 2])]) BNil;
       SUse 1 99].

Lemma w_fin_reach : strict_reach w_fin 99 2.
Proof.
  exists ([(1, 10)] ++ ([] ++ ([(1, 1)] ++ []) ++ [(1, 2)] ++ []) ++ []), 1. split; [|reflexivity].
  cbn [w_fin blk upath_b]. right. exists [(1, 10)], (([] ++ ([(1, 1)] ++ []) ++ [(1, 2)] ++ []) ++ []).
  split; [cbn; auto|]. split; [|reflexivity].
  right. exists ([] ++ ([(1, 1)] ++ []) ++ [(1, 2)] ++ []), []. split; [|split; [left; cbn; auto|reflexivity]].
  cbn [path_s]. exists [], (([(1, 1)] ++ []) ++ [(1, 2)] ++ []). split; [constructor|]. split; [reflexivity|].
  right. left. split; [reflexivity|].
  cbn [path_b]. right. split; [discriminate|].
  cbn [path_s]. exists OBrk, ([(1, 1)] ++ []), ONorm, ([(1, 2)] ++ []).
  split; [|split; [|split; reflexivity]].
  - right. left. split; [left; reflexivity|].
    cbn [path_b]. left. exists [(1, 1)], []. split; [cbn; auto|]. split; [|reflexivity].
    right. split; [discriminate|]. cbn. auto.
  - cbn [path_b]. left. exists [(1, 2)], []. split; [cbn; auto|]. split; [cbn; auto|reflexivity].
Qed.

(* since visit_Try hands the scope after the finally block to the loop, 2 is reported *)
Lemma w_fin_facts : lower_ok w_fin = true /\ strict_reach w_fin 99 2 /\ reported w_fin 99 = [1; 2; 10].
Proof. split; [vm_compute; reflexivity|]. split; [exact w_fin_reach|vm_compute; reflexivity]. Qed.

(* a non-trivial program inside the proved fragment:
   if cond(): x = 1
   while cond():
       use(x)           # use 7: strict {1, unbound, 2, 3}; reported {1, unbound, 2, 3, 4}
       try:
           x = 2; g(); x = 3
       except: use(x)   # use 8: strict {2}; reported {1, unbound, 4, 2, 3}
   else:
       x = 4
   use(x)               # use 9: strict {4}; reported {1, unbound, 2, 3, 4} *)
Definition w_ok : block :=
  blk [SIf (blk [SAssign 1 1]) BNil;
       SLoop LCond (blk [SUse 1 7; STry (blk [SAssign 1 2; SCall; SAssign 1 3]) (HCons (blk [SUse 1 8]) HNil) BNil BNil])
                   (blk [SAssign 1 4]);
       SUse 1 9].

Lemma w_ok_reach : strict_reach w_ok 8 2.
Proof.
  exists ([] ++ ([] ++ [] ++ ([(1, 2)] ++ []) ++ []) ), 1. split; [|reflexivity].
  cbn [w_ok blk upath_b]. right. exists [], ([] ++ [] ++ ([(1, 2)] ++ []) ++ []).
  split; [cbn [path_s path_b]; right; auto|]. split; [|reflexivity].
  left. cbn [upath_s]. exists [], ([] ++ ([(1, 2)] ++ []) ++ []). split; [constructor|]. split; [reflexivity|].
  left. cbn [upath_b]. right. exists [], (([(1, 2)] ++ []) ++ []). split; [cbn; auto|]. split; [|reflexivity].
  left. cbn [upath_s]. right. right. left. exists ([(1, 2)] ++ []), []. split; [|split; [|reflexivity]].
  - cbn [path_b]. left. exists [(1, 2)], []. split; [cbn; auto|]. split; [|reflexivity].
    right. split; [discriminate|]. cbn. auto.
  - cbn [upath_hs upath_b upath_s]. left. left. auto.
Qed.

Lemma w_ok_facts :
  has_jump_b w_ok = false /\ strict_reach w_ok 8 2 /\
  reported w_ok 7 = [1; 0; 2; 3; 4] /\ possibly_undefined w_ok 7 = true /\ undefined_name w_ok 7 = false.
Proof.
  split; [vm_compute; reflexivity|]. split; [exact w_ok_reach|].
  split; [vm_compute; reflexivity|]. split; vm_compute; reflexivity.
Qed.

(* a program with break/continue inside the guard lower_ok:
   x = 10
   while cond():
       try:
           x = 1; g(); break
       except Exception:
           x = 2; continue
   else:
       use(x)           # use 7: strict {10, 2}
   use(x)               # use 8: strict {10, 1, 2} *)
Definition w_brk : block :=
  blk [SAssign 1 10;
       SLoop LCond (blk [STry (blk [SAssign 1 1; SCall; SBreak]) (HCons (blk [SAssign 1 2; SContinue]) HNil) BNil BNil])
                   (blk [SUse 1 7]);
       SUse 1 8].

Lemma w_brk_reach : strict_reach w_brk 8 1.
Proof.
  exists ([(1, 10)] ++ ([] ++ ([(1, 1)] ++ [] ++ []) ++ []) ++ []), 1. split; [|reflexivity].
  cbn [w_brk blk upath_b]. right. exists [(1, 10)], (([] ++ ([(1, 1)] ++ [] ++ []) ++ []) ++ []).
  split; [cbn; auto|]. split; [|reflexivity].
  right. exists ([] ++ ([(1, 1)] ++ [] ++ []) ++ []), []. split; [|split; [left; cbn; auto|reflexivity]].
  cbn [path_s]. exists [], (([(1, 1)] ++ [] ++ []) ++ []). split; [constructor|]. split; [reflexivity|].
  right. left. split; [reflexivity|].
  cbn [path_b]. right. split; [discriminate|].
  cbn [path_s]. exists OBrk, ([(1, 1)] ++ [] ++ []), ONorm, []. split; [|split; [cbn; auto|split; reflexivity]].
  right. left. split; [left; reflexivity|].
  cbn [path_b]. left. exists [(1, 1)], ([] ++ []). split; [cbn; auto|]. split; [|reflexivity].
  left. exists [], []. split; [cbn; auto|]. split; [|reflexivity].
  right. split; [discriminate|]. cbn. auto.
Qed.

Lemma w_brk_facts :
  lower_ok w_brk = true /\ has_jump_b w_brk = true /\ strict_reach w_brk 8 1 /\
  reported w_brk 8 = [10; 1; 2] /\ reported w_brk 7 = [10; 1; 2].
Proof.
  split; [vm_compute; reflexivity|]. split; [vm_compute; reflexivity|]. split; [exact w_brk_reach|].
  split; vm_compute; reflexivity.
Qed.

(* x = 1
   while cond():
       use(x)           # use 7: only 1 reaches it, the checker reports {1, 2}
   else:
       x = 2 *)
Definition w_upper : block :=
  blk [SAssign 1 1; SLoop LCond (blk [SUse 1 7]) (blk [SAssign 1 2])].

Lemma w_upper_body_nil : forall prot o x, lpath_b prot (blk [SUse 1 7]) o x -> x = [].
Proof.
  intros prot o x H. cbn [blk lpath_b lpath_s] in H.
  destruct H as [(_ & _ & ->)|[(t1 & t2 & (_ & ->) & (_ & ->) & ->)|[(_ & _ & (_ & ->))|(_ & (_ & ->))]]]; reflexivity.
Qed.

Lemma w_upper_iters_nil : forall prot th,
  iters (fun x => lpath_b prot (blk [SUse 1 7]) ONorm x \/ lpath_b prot (blk [SUse 1 7]) OCont x) th -> th = [].
Proof.
  intros prot th H. induction H as [|t1 t2 H1 IH H2]; [reflexivity|].
  subst t1. destruct H2 as [H2|H2]; apply w_upper_body_nil in H2; subst; reflexivity.
Qed.

Lemma w_upper_not_liberal : ~ liberal_reach w_upper 7 2.
Proof.
  intros (t & v & H & E). cbn [w_upper blk lupath_b lupath_s] in H.
  destruct H as [[]|(t1 & t2 & (_ & ->) & H & ->)].
  destruct H as [H|(t3 & t4 & _ & [] & _)].
  destruct H as (th & t5 & Hi & -> & H). apply w_upper_iters_nil in Hi. subst th.
  destruct H as [H|H].
  - destruct H as [(_ & <- & ->)|(t6 & t7 & _ & [] & _)]. cbn in E. discriminate.
  - destruct H as [[]|(t6 & t7 & _ & [] & _)].
Qed.

Lemma w_upper_facts : upper_ok w_upper = false /\ In 2 (reported w_upper 7) /\ ~ liberal_reach w_upper 7 2.
Proof.
  split; [vm_compute; reflexivity|]. split; [vm_compute; auto|exact w_upper_not_liberal].
Qed.

(* if cond(): x = 1
   while cond():
       with sup():
           try:
               x = 2; g(); x = 3
           except Exception:
               use(x)   # use 8
   use(x)               # use 9: {2, 3, 1, unbound} *)
Definition w_up_ok : block :=
  blk [SIf (blk [SAssign 1 1]) BNil;
       SLoop LCond (blk [SWith true (blk [STry (blk [SAssign 1 2; SCall; SAssign 1 3]) (HCons (blk [SUse 1 8]) HNil) BNil BNil])]) BNil;
       SUse 1 9].

Lemma w_up_ok_facts : upper_ok w_up_ok = true /\ lower_ok w_up_ok = true /\ reported w_up_ok 9 = [2; 3; 1; 0].
Proof. split; [vm_compute; reflexivity|]. split; vm_compute; reflexivity. Qed.

(* an always-entered loop with a literal target and an else clause:
   for x in (5,):
       use(x)           # use 3
   else:
       use(x)           # use 5: x is 5 (the loop ran at least once)
   use(x)               # use 6 *)
Definition w_always : block :=
  blk [SLoop LAlways (blk [SAssign 1 5; SUse 1 3]) (blk [SUse 1 5]); SUse 1 6].

Lemma w_always_facts :
  lower_ok w_always = true /\ reported w_always 3 = [5] /\ reported w_always 5 = [5] /\ reported w_always 6 = [5] /\
  undefined_name w_always 5 = false /\ possibly_undefined w_always 6 = false.
Proof. repeat split; vm_compute; reflexivity. Qed.
