(* Proofs/SigAssignLoop.v — facts about the comparison loop that hold for
   signatures of any length. *)
From Coq Require Import List Bool NArith PeanoNat Lia.
Import ListNotations.
Require Import PV.Binder.Kind PV.Gen.Kinds PV.Binder.Sig PV.Binder.SigAssign PV.Binder.PyBind.
Require Import PV.Proofs.SigAssignRefute.

Definition C_full_statement : Prop := forall e a npos kws,
  valid_sig e = true -> valid_sig a = true -> names_nodup kws = true ->
  kinds_ok e a = true -> py_bind e npos kws = true -> py_bind a npos kws = true.

Lemma full_statement_refuted : ~ C_full_statement.
Proof.
  intros H. destruct refute_kwonly_hits_consumed_positional as (Ve & Va & Hk & Hb & Hn & _).
  rewrite (H _ _ 1%nat [2%N] Ve Va eq_refl Hk Hb) in Hn. discriminate.
Qed.

Lemma param_of_kind_has : forall k s,
  (match param_of_kind k s with Some _ => true | None => false end) = has_kind k s.
Proof.
  intros k s. unfold param_of_kind, has_kind. induction s as [|p r IH]; [reflexivity|].
  cbn [find existsb]. destruct (kind_eqb (pkind p) k); [reflexivity|exact IH].
Qed.

Lemma sca_loop_var : forall a e i st st',
  sca_loop a i st e = Some st' ->
  (has_kind VP e = true -> has_kind VP a = true) /\ (has_kind VK e = true -> has_kind VK a = true).
Proof.
  intros a. induction e as [|m r IH]; intros i st st' H; [split; discriminate|].
  cbn [sca_loop] in H. destruct (sca_step a i st m) as [st1|] eqn:Es; [|discriminate].
  destruct (IH _ _ _ H) as [IH1 IH2].
  cbn [has_kind existsb]. fold (has_kind VP r). fold (has_kind VK r).
  unfold sca_step in Es.
  destruct (pkind m) eqn:Ek; cbn [kind_eqb orb]; try (split; assumption).
  - (* VP *) split; [|assumption]. intros _.
    rewrite <- param_of_kind_has. destruct (param_of_kind VP a); [reflexivity|discriminate].
  - (* VK *) split; [assumption|]. intros _.
    rewrite <- param_of_kind_has. destruct (param_of_kind VK a); [reflexivity|discriminate].
Qed.

Theorem accept_var_params : forall e a, kinds_ok e a = true ->
  (has_kind VP e = true -> has_kind VP a = true) /\ (has_kind VK e = true -> has_kind VK a = true).
Proof.
  intros e a H. unfold kinds_ok, sca in H.
  destruct (sca_loop a 0 (mkC [] [] [] []) e) as [st|] eqn:E; [|discriminate].
  eapply sca_loop_var; eassumption.
Qed.

Theorem sig_assign_variance : forall le le_ret e a,
  sig_can_assign le le_ret e a = true ->
  le_ret = true /\ kinds_ok e a = true /\
  exists obs, sca e a = Some obs /\ forall t m, In (t, m) obs -> le t m = true.
Proof.
  intros le le_ret e a H. unfold sig_can_assign in H. apply andb_true_iff in H as [H1 H2].
  split; [assumption|]. unfold kinds_ok. destruct (sca e a) as [obs|]; [|discriminate].
  split; [reflexivity|]. exists obs. split; [reflexivity|].
  intros t m Hin. rewrite forallb_forall in H2. apply (H2 (t, m) Hin).
Qed.
