(* Proofs/SigAssignLoop.v — facts about the comparison loop that hold for
   signatures of any length. *)
From Coq Require Import List Bool NArith PeanoNat Lia.
Import ListNotations.
Require Import PV.Binder.Kind PV.Gen.Kinds PV.Binder.Sig PV.Binder.SigAssign PV.Binder.PyBind.
Require Import PV.Proofs.SigAssignRefute PV.Proofs.BinderConcrete.
Close Scope N_scope.
Open Scope nat_scope.

Definition C_full_statement : Prop := forall e a npos kws,
  valid_sig e = true -> valid_sig a = true -> names_nodup kws = true ->
  kinds_ok e a = true -> py_bind e npos kws = true -> py_bind a npos kws = true.

Lemma full_statement_refuted : ~ C_full_statement.
Proof.
  intros H. destruct refute_kwonly_hits_consumed_positional as (Ve & Va & Hk & Hb & Hn & _).
  rewrite (H _ _ 1 [2%N] Ve Va eq_refl Hk Hb) in Hn. discriminate.
Qed.

Lemma param_of_kind_has : forall k s,
  (match param_of_kind k s with Some _ => true | None => false end) = has_kind k s.
Proof.
  intros k s. unfold param_of_kind, has_kind. induction s as [|p r IH]; [reflexivity|].
  cbn [find existsb]. destruct (kind_eqb (pkind p) k); [reflexivity|exact IH].
Qed.

Lemma sca_loop_var : forall a e i st st',
  sca_loop a i st e = Some st' ->
  (has_kind VP e = true -> has_kind VP a = true) /\ (has_kind VK e = true -> has_kind VK a = true).
Proof.
  intros a. induction e as [|m r IH]; intros i st st' H; [split; discriminate|].
  cbn [sca_loop] in H. destruct (sca_step a i st m) as [st1|] eqn:Es; [|discriminate].
  destruct (IH _ _ _ H) as [IH1 IH2].
  cbn [has_kind existsb]. fold (has_kind VP r). fold (has_kind VK r).
  unfold sca_step in Es.
  destruct (pkind m) eqn:Ek; cbn [kind_eqb orb]; try (split; assumption).
  - (* VP *) split; [|assumption]. intros _.
    rewrite <- param_of_kind_has. destruct (param_of_kind VP a); [reflexivity|discriminate].
  - (* VK *) split; [assumption|]. intros _.
    rewrite <- param_of_kind_has. destruct (param_of_kind VK a); [reflexivity|discriminate].
Qed.

Theorem accept_var_params : forall e a, kinds_ok e a = true ->
  (has_kind VP e = true -> has_kind VP a = true) /\ (has_kind VK e = true -> has_kind VK a = true).
Proof.
  intros e a H. unfold kinds_ok, sca in H.
  destruct (sca_loop a 0 (mkC [] [] [] []) e) as [st|] eqn:E; [|discriminate].
  eapply sca_loop_var; eassumption.
Qed.

Theorem sig_assign_variance : forall le le_ret e a,
  sig_can_assign le le_ret e a = true ->
  le_ret = true /\ kinds_ok e a = true /\
  exists obs, sca e a = Some obs /\ forall t m, In (t, m) obs -> le t m = true.
Proof.
  intros le le_ret e a H. unfold sig_can_assign in H. apply andb_true_iff in H as [H1 H2].
  split; [assumption|]. unfold kinds_ok. destruct (sca e a) as [obs|]; [|discriminate].
  split; [reflexivity|]. exists obs. split; [reflexivity|].
  intros t m Hin. rewrite forallb_forall in H2. apply (H2 (t, m) Hin).
Qed.

(* ---------- capacity theorems (any number of parameters) ---------- *)

Lemma kw_target_b_intro : forall (a : sig) t,
  In t a -> is_kw_target (pkind t) = true -> kw_target a (pname t) = true.
Proof.
  intros a t Hin Hk. unfold kw_target. apply existsb_exists. exists t.
  split; [assumption|]. rewrite Hk, N.eqb_refl. reflexivity.
Qed.

Lemma find_param_some : forall n s t, find_param n s = Some t -> In t s /\ pname t = n.
Proof.
  intros n s t H. unfold find_param in H. apply find_some in H as [H1 H2].
  apply N.eqb_eq in H2. auto.
Qed.

(* keyword capacity: without **kwargs on the accepted side, every keyword
   target of the expected signature is a keyword target of the accepted one *)
Lemma sca_loop_kw : forall a e i st st',
  sca_loop a i st e = Some st' -> has_kind VK a = false ->
  forall m, In m e -> is_kw_target (pkind m) = true -> kw_target a (pname m) = true.
Proof.
  intros a. induction e as [|m0 r IH]; intros i st st' H Hvk m Hin Hk; [contradiction|].
  cbn [sca_loop] in H. destruct (sca_step a i st m0) as [st1|] eqn:Es; [|discriminate].
  destruct Hin as [<-|Hin]; [|eapply IH; eassumption].
  clear IH H. unfold sca_step in Es.
  assert (Hnone : param_of_kind VK a = None).
  { pose proof (param_of_kind_has VK a) as P. rewrite Hvk in P.
    destruct (param_of_kind VK a); [discriminate|reflexivity]. }
  rewrite Hnone in Es. rewrite andb_false_r in Es.
  destruct (pkind m0) eqn:Ek; try discriminate.
  - (* POK *)
    destruct (nth_error a i) as [t|] eqn:En; [|discriminate].
    destruct (pkind t) eqn:Et; try discriminate.
    destruct (N.eqb (pname m0) (pname t)) eqn:Enm; [|discriminate]. apply N.eqb_eq in Enm.
    rewrite Enm. apply kw_target_b_intro; [eapply nth_error_In; eassumption|rewrite Et; reflexivity].
  - (* KO *)
    destruct (find_param (pname m0) a) as [t|] eqn:Ef; [|discriminate].
    destruct (is_kw_target (pkind t)) eqn:Et; [|discriminate].
    apply find_param_some in Ef as [Hin Hn]. rewrite <- Hn. apply kw_target_b_intro; assumption.
Qed.

Theorem accept_keyword_capacity : forall e a, kinds_ok e a = true ->
  has_kind VK a = true \/ forall k, kw_target e k = true -> kw_target a k = true.
Proof.
  intros e a H. destruct (has_kind VK a) eqn:Hvk; [left; reflexivity|right].
  unfold kinds_ok, sca in H.
  destruct (sca_loop a 0 (mkC [] [] [] []) e) as [st|] eqn:E; [|discriminate].
  intros k Hk. unfold kw_target in Hk. apply existsb_exists in Hk as [m [Hin Hm]].
  apply andb_true_iff in Hm as [Hm1 Hm2]. apply N.eqb_eq in Hm2. subst k.
  eapply sca_loop_kw; eassumption.
Qed.

(* positional capacity: without *args on the accepted side, position i of the
   accepted signature is positional whenever position i of the expected one is *)
Lemma sca_loop_pos : forall a e i st st',
  sca_loop a i st e = Some st' -> has_kind VP a = false ->
  forall j m, nth_error e j = Some m -> is_positional (pkind m) = true ->
  exists t, nth_error a (i + j) = Some t /\ is_positional (pkind t) = true.
Proof.
  intros a. induction e as [|m0 r IH]; intros i st st' H Hvp j m Hn Hp; [destruct j; discriminate|].
  cbn [sca_loop] in H. destruct (sca_step a i st m0) as [st1|] eqn:Es; [|discriminate].
  destruct j as [|j].
  - cbn in Hn. injection Hn as ->. rewrite Nat.add_0_r. clear IH H. unfold sca_step in Es.
    assert (Hnone : param_of_kind VP a = None).
    { pose proof (param_of_kind_has VP a) as P. rewrite Hvp in P.
      destruct (param_of_kind VP a); [discriminate|reflexivity]. }
    rewrite Hnone in Es. cbn [andb] in Es.
    destruct (pkind m) eqn:Ek; try discriminate.
    + destruct (nth_error a i) as [t|]; [|discriminate].
      destruct (is_positional (pkind t)) eqn:Et; [|discriminate]. eauto.
    + destruct (nth_error a i) as [t|]; [|discriminate].
      destruct (pkind t) eqn:Et; try discriminate. exists t. rewrite Et. auto.
  - cbn in Hn. replace (i + S j)%nat with (S i + j)%nat by lia. eapply IH; eassumption.
Qed.

Lemma pos_params_length_ge : forall (a : sig) n,
  (forall j, j < n -> exists t, nth_error a j = Some t /\ is_positional (pkind t) = true) ->
  n <= length (pos_params a).
Proof.
  induction a as [|q a IH]; intros n H.
  - destruct n; [lia|]. destruct (H 0 ltac:(lia)) as [t [Ht _]]. discriminate.
  - destruct n; [lia|]. destruct (H 0 ltac:(lia)) as [t [Ht Hp]]. cbn in Ht. injection Ht as ->.
    cbn [pos_params filter]. rewrite Hp. cbn [length]. fold (pos_params a).
    apply le_n_S. apply IH. intros j Hj. apply (H (S j)). lia.
Qed.

(* positional parameters come first (true of every valid signature) *)
Fixpoint pos_prefix (s : sig) : bool :=
  match s with
  | [] => true
  | p :: r => if is_positional (pkind p) then pos_prefix r
              else forallb (fun q => negb (is_positional (pkind q))) r
  end.

Lemma pos_prefix_nth : forall s j, pos_prefix s = true -> j < length (pos_params s) ->
  exists m, nth_error s j = Some m /\ is_positional (pkind m) = true.
Proof.
  induction s as [|p r IH]; intros j Hp Hj; [cbn in Hj; lia|].
  cbn [pos_prefix] in Hp. cbn [pos_params filter] in Hj. fold (pos_params r) in Hj.
  destruct (is_positional (pkind p)) eqn:Ep.
  - destruct j; [exists p; auto|]. cbn [length] in Hj. cbn [nth_error]. apply IH; [assumption|lia].
  - assert (pos_params r = []) as Hnil.
    { clear - Hp. induction r as [|q r IHr]; [reflexivity|]. cbn [forallb] in Hp.
      apply andb_true_iff in Hp as [H1 H2]. apply negb_true_iff in H1.
      cbn [pos_params filter]. rewrite H1. apply IHr. assumption. }
    rewrite Hnil in Hj. cbn in Hj. lia.
Qed.

Theorem accept_positional_capacity : forall e a, kinds_ok e a = true -> pos_prefix e = true ->
  has_kind VP a = true \/ length (pos_params e) <= length (pos_params a).
Proof.
  intros e a H Hpre. destruct (has_kind VP a) eqn:Hvp; [left; reflexivity|right].
  unfold kinds_ok, sca in H.
  destruct (sca_loop a 0 (mkC [] [] [] []) e) as [st|] eqn:E; [|discriminate].
  apply pos_params_length_ge. intros j Hj.
  destruct (pos_prefix_nth e j Hpre Hj) as [m [Hm Hp]].
  destruct (sca_loop_pos a e 0 _ _ E Hvp j m Hm Hp) as [t [Ht Htp]]. eauto.
Qed.

(* table fact (regenerated table): only positional kinds may precede a positional kind *)
Lemma before_positional_is_positional : forall k k',
  is_positional k = true -> kmem k' (allowed_previous k) = true -> is_positional k' = true.
Proof. intros [] []; vm_compute; intros H1 H2; try reflexivity; discriminate. Qed.

Lemma validate_after_nonpos : forall s seen sd k0,
  validate_from seen sd s = true -> kmem k0 seen = true -> is_positional k0 = false ->
  forallb (fun q => negb (is_positional (pkind q))) s = true.
Proof.
  induction s as [|p r IH]; intros seen sd k0 Hv Hm Hk0; [reflexivity|].
  cbn [validate_from] in Hv. apply andb_true_iff in Hv as [Hstep Hrest].
  unfold validate_step in Hstep. apply andb_true_iff in Hstep as [Hstep _].
  apply andb_true_iff in Hstep as [Hprev _].
  assert (Hk : kmem k0 (allowed_previous (pkind p)) = true).
  { unfold kmem in Hm. apply existsb_exists in Hm as [x [Hin He]].
    destruct k0, x; try discriminate; rewrite forallb_forall in Hprev; apply (Hprev _ Hin). }
  cbn [forallb].
  destruct (is_positional (pkind p)) eqn:Ep.
  - rewrite (before_positional_is_positional _ _ Ep Hk) in Hk0. discriminate.
  - cbn [negb andb]. apply (IH _ _ k0 Hrest); [|assumption].
    cbn [kmem existsb]. fold (kmem k0 seen). rewrite Hm. apply orb_true_r.
Qed.

Lemma validate_pos_prefix : forall s seen sd, validate_from seen sd s = true -> pos_prefix s = true.
Proof.
  induction s as [|p r IH]; intros seen sd Hv; [reflexivity|].
  cbn [validate_from] in Hv. apply andb_true_iff in Hv as [_ Hrest]. cbn [pos_prefix].
  destruct (is_positional (pkind p)) eqn:Ep; [eapply IH; eassumption|].
  apply (validate_after_nonpos _ _ _ (pkind p) Hrest); [|assumption].
  cbn [kmem existsb]. destruct (pkind p); reflexivity.
Qed.

Theorem accept_positional_capacity_valid : forall e a,
  valid_sig e = true -> kinds_ok e a = true ->
  has_kind VP a = true \/ length (pos_params e) <= length (pos_params a).
Proof.
  intros e a Hv H. apply accept_positional_capacity; [assumption|].
  unfold valid_sig in Hv. apply andb_true_iff in Hv as [Hv _]. eapply validate_pos_prefix; eassumption.
Qed.

(* ---------- what a name in consumed_keyword stands for ---------- *)
Definition kw_match (e a : sig) (n : N) : Prop :=
  exists m t, In m e /\ In t a /\ pname t = n /\ pname m = n /\ default_clash m t = false /\
    ((pkind m = POK /\ pkind t = POK) \/ (pkind m = KO /\ is_kw_target (pkind t) = true)).

Lemma sca_loop_ckw : forall a e i st st',
  sca_loop a i st e = Some st' ->
  forall n, memN n (ckw st') = true -> memN n (ckw st) = true \/ kw_match e a n.
Proof.
  intros a. induction e as [|m0 r IH]; intros i st st' H n Hn.
  - cbn in H. injection H as <-. left. assumption.
  - cbn [sca_loop] in H. destruct (sca_step a i st m0) as [st1|] eqn:Es; [|discriminate].
    destruct (IH _ _ _ H n Hn) as [Hin|(m & t & H1 & H2 & H3 & H4 & H5 & H6)].
    + (* n in ckw st1: where does it come from in this step? *)
      assert (Hstep : memN n (ckw st) = true \/
                      exists t, In t a /\ pname t = n /\ pname m0 = n /\ default_clash m0 t = false /\
                        ((pkind m0 = POK /\ pkind t = POK) \/ (pkind m0 = KO /\ is_kw_target (pkind t) = true))).
      { unfold sca_step in Es.
        destruct (pkind m0) eqn:Ek.
        - (* PO *) destruct (nth_error a i) as [t|].
          + destruct (is_positional (pkind t)).
            * destruct (default_clash m0 t); [discriminate|]. injection Es as <-. left. exact Hin.
            * destruct (param_of_kind VP a) as [va|]; [|discriminate]. injection Es as <-. left. exact Hin.
          + destruct (param_of_kind VP a) as [va|]; [|discriminate]. injection Es as <-. left. exact Hin.
        - (* POK *)
          assert (Habs : forall s1, (if (match param_of_kind VP a with Some _ => true | None => false end)
                                        && (match param_of_kind VK a with Some _ => true | None => false end)
                                     then Some (opt_obl (param_of_kind VK a) (pname m0) (opt_obl (param_of_kind VP a) (pname m0) st))
                                     else None) = Some s1 -> ckw s1 = ckw st).
          { intros s1 E. destruct (_ && _); [|discriminate]. injection E as <-.
            destruct (param_of_kind VK a), (param_of_kind VP a); reflexivity. }
          destruct (nth_error a i) as [t|] eqn:En.
          + destruct (pkind t) eqn:Et; try discriminate;
              try (left; rewrite <- (Habs _ Es); exact Hin).
            destruct (N.eqb (pname m0) (pname t)) eqn:Enm; [|discriminate]. cbn [negb] in Es.
            destruct (default_clash m0 t) eqn:Ec; [discriminate|]. injection Es as <-.
            cbn [ckw] in Hin. rewrite memN_cons in Hin. apply orb_true_iff in Hin as [Hin|Hin]; [|left; exact Hin].
            apply N.eqb_eq in Hin. apply N.eqb_eq in Enm. right. exists t.
            split; [eapply nth_error_In; eassumption|]. repeat split; auto; congruence.
          + left. rewrite <- (Habs _ Es). exact Hin.
        - (* VP *) destruct (param_of_kind VP a); [|discriminate]. injection Es as <-. left. exact Hin.
        - (* KO *)
          assert (Habs : forall s1, (if (match param_of_kind VK a with Some _ => true | None => false end)
                                     then Some (opt_obl (param_of_kind VK a) (pname m0) st) else None) = Some s1 ->
                                    ckw s1 = ckw st).
          { intros s1 E. destruct (param_of_kind VK a); [|discriminate]. injection E as <-. reflexivity. }
          destruct (find_param (pname m0) a) as [t|] eqn:Ef.
          + destruct (is_kw_target (pkind t)) eqn:Et.
            * destruct (default_clash m0 t) eqn:Ec; [discriminate|]. injection Es as <-.
              cbn [ckw] in Hin. rewrite memN_cons in Hin. apply orb_true_iff in Hin as [Hin|Hin]; [|left; exact Hin].
              apply N.eqb_eq in Hin. apply find_param_some in Ef as [Hta Htn]. right. exists t.
              repeat split; auto; congruence.
            * left. rewrite <- (Habs _ Es). exact Hin.
          + left. rewrite <- (Habs _ Es). exact Hin.
        - (* VK *) destruct (param_of_kind VK a); [|discriminate]. injection Es as <-. left. exact Hin. }
      destruct Hstep as [Hs|(t & H1 & H2 & H3 & H4 & H5)]; [left; exact Hs|].
      right. exists m0, t. repeat split; auto. left. reflexivity.
    + right. exists m, t. repeat split; auto. right. assumption.
Qed.

Lemma nodup_same_name : forall (a : sig) t q,
  names_nodup (map pname a) = true -> In t a -> In q a -> pname t = pname q -> t = q.
Proof.
  induction a as [|x a IH]; intros t q Hnd Ht Hq Hn; [contradiction|].
  cbn [map names_nodup] in Hnd. apply andb_true_iff in Hnd as [Hx Hnd]. apply negb_true_iff in Hx.
  assert (Hfresh : forall y, In y a -> pname y <> pname x).
  { intros y Hy E. assert (memN (pname x) (map pname a) = true); [|congruence].
    apply BinderConcrete.memN_true_iff. rewrite <- E. apply in_map. assumption. }
  destruct Ht as [<-|Ht], Hq as [<-|Hq]; auto.
  - exfalso. apply (Hfresh q Hq). congruence.
  - exfalso. apply (Hfresh t Ht). congruence.
Qed.

(* every required keyword-only parameter of the accepted callable is a required
   keyword-only parameter, of the same name, of the expected signature: every call
   the expected signature binds passes it *)
Theorem accept_required_kwonly : forall e a,
  valid_sig a = true -> kinds_ok e a = true ->
  forall q, In q a -> pkind q = KO -> pdefault q = false ->
  exists m, In m e /\ pkind m = KO /\ pname m = pname q /\ pdefault m = false.
Proof.
  intros e a Hv H q Hq Hk Hd. unfold valid_sig in Hv. apply andb_true_iff in Hv as [_ Hnd].
  unfold kinds_ok, sca in H.
  destruct (sca_loop a 0 (mkC [] [] [] []) e) as [st|] eqn:E; [|discriminate].
  destruct (forallb (extra_required_ok st) a) eqn:Ef; [|discriminate].
  rewrite forallb_forall in Ef. specialize (Ef q Hq). unfold extra_required_ok in Ef.
  rewrite Hk, Hd in Ef. cbn [is_var orb] in Ef.
  destruct (sca_loop_ckw _ _ _ _ _ E _ Ef) as [Habs|(m & t & H1 & H2 & H3 & H4 & H5 & H6)]; [discriminate|].
  assert (t = q) by (eapply nodup_same_name; eassumption). subst t.
  destruct H6 as [[_ Hq']|[Hm _]]; [congruence|].
  exists m. repeat split; auto. unfold default_clash in H5. rewrite Hd in H5. cbn [negb] in H5.
  rewrite andb_true_r in H5. exact H5.
Qed.

(* ---------- what a name in consumed_positional stands for ---------- *)
Definition pos_match (e a : sig) (off : nat) (n : N) : Prop :=
  exists j m t, nth_error e j = Some m /\ nth_error a (off + j) = Some t /\ pname t = n /\
    is_positional (pkind t) = true /\ default_clash m t = false /\
    ((pkind m = PO) \/ (pkind m = POK /\ pkind t = POK /\ pname m = pname t)).

Lemma sca_loop_cpos : forall a e i st st',
  sca_loop a i st e = Some st' ->
  forall n, memN n (cpos st') = true -> memN n (cpos st) = true \/ pos_match e a i n.
Proof.
  intros a. induction e as [|m0 r IH]; intros i st st' H n Hn.
  - cbn in H. injection H as <-. left. assumption.
  - cbn [sca_loop] in H. destruct (sca_step a i st m0) as [st1|] eqn:Es; [|discriminate].
    destruct (IH _ _ _ H n Hn) as [Hin|(j & m & t & H1 & H2 & H3 & H4 & H5 & H6)].
    + assert (Hstep : memN n (cpos st) = true \/
                      exists t, nth_error a i = Some t /\ pname t = n /\ is_positional (pkind t) = true /\
                        default_clash m0 t = false /\
                        ((pkind m0 = PO) \/ (pkind m0 = POK /\ pkind t = POK /\ pname m0 = pname t))).
      { unfold sca_step in Es.
        destruct (pkind m0) eqn:Ek.
        - (* PO *) destruct (nth_error a i) as [t|] eqn:En.
          + destruct (is_positional (pkind t)) eqn:Et.
            * destruct (default_clash m0 t) eqn:Ec; [discriminate|]. injection Es as <-.
              cbn [cpos] in Hin. rewrite memN_cons in Hin. apply orb_true_iff in Hin as [Hin|Hin]; [|left; exact Hin].
              apply N.eqb_eq in Hin. right. exists t. repeat split; auto.
            * destruct (param_of_kind VP a) as [va|]; [|discriminate]. injection Es as <-. left. exact Hin.
          + destruct (param_of_kind VP a) as [va|]; [|discriminate]. injection Es as <-. left. exact Hin.
        - (* POK *)
          assert (Habs : forall s1, (if (match param_of_kind VP a with Some _ => true | None => false end)
                                        && (match param_of_kind VK a with Some _ => true | None => false end)
                                     then Some (opt_obl (param_of_kind VK a) (pname m0) (opt_obl (param_of_kind VP a) (pname m0) st))
                                     else None) = Some s1 -> cpos s1 = cpos st).
          { intros s1 E. destruct (_ && _); [|discriminate]. injection E as <-.
            destruct (param_of_kind VK a), (param_of_kind VP a); reflexivity. }
          destruct (nth_error a i) as [t|] eqn:En.
          + destruct (pkind t) eqn:Et; try discriminate;
              try (left; rewrite <- (Habs _ Es); exact Hin).
            destruct (N.eqb (pname m0) (pname t)) eqn:Enm; [|discriminate]. cbn [negb] in Es.
            destruct (default_clash m0 t) eqn:Ec; [discriminate|]. injection Es as <-.
            cbn [cpos] in Hin. rewrite memN_cons in Hin. apply orb_true_iff in Hin as [Hin|Hin]; [|left; exact Hin].
            apply N.eqb_eq in Hin. apply N.eqb_eq in Enm. right. exists t.
            split; [reflexivity|]. split; [congruence|]. split; [rewrite Et; reflexivity|].
            split; [assumption|]. right. repeat split; auto.
          + left. rewrite <- (Habs _ Es). exact Hin.
        - (* VP *) destruct (param_of_kind VP a); [|discriminate]. injection Es as <-. left. exact Hin.
        - (* KO *)
          destruct (find_param (pname m0) a) as [t|].
          + destruct (is_kw_target (pkind t)).
            * destruct (default_clash m0 t); [discriminate|]. injection Es as <-. left. exact Hin.
            * destruct (param_of_kind VK a); [|discriminate]. injection Es as <-. left. exact Hin.
          + destruct (param_of_kind VK a); [|discriminate]. injection Es as <-. left. exact Hin.
        - (* VK *) destruct (param_of_kind VK a); [|discriminate]. injection Es as <-. left. exact Hin. }
      destruct Hstep as [Hs|(t & H1 & H2 & H3 & H4 & H5)]; [left; exact Hs|].
      right. exists 0, m0, t. rewrite Nat.add_0_r. repeat split; auto.
    + right. exists (S j), m, t. replace (i + S j) with (S i + j) by lia. repeat split; auto.
Qed.

Lemma nodup_nth_inj : forall (a : sig) i j x,
  names_nodup (map pname a) = true -> nth_error a i = Some x -> nth_error a j = Some x -> i = j.
Proof.
  induction a as [|y a IH]; intros i j x Hnd Hi Hj; [destruct i; discriminate|].
  cbn [map names_nodup] in Hnd. apply andb_true_iff in Hnd as [Hy Hnd]. apply negb_true_iff in Hy.
  assert (Hfresh : forall k, nth_error a k = Some y -> False).
  { intros k Hk. assert (memN (pname y) (map pname a) = true); [|congruence].
    apply memN_true_iff. apply in_map. eapply nth_error_In; eassumption. }
  destruct i, j; cbn in Hi, Hj; auto.
  - injection Hi as <-. exfalso. eauto.
  - injection Hj as <-. exfalso. eauto.
  - f_equal. eapply IH; eassumption.
Qed.

(* every required positional-only parameter of the accepted callable, at list index j,
   faces a required positional-only parameter of the expected signature at index j:
   every call the expected signature binds passes it positionally *)
Theorem accept_required_posonly : forall e a,
  valid_sig a = true -> kinds_ok e a = true ->
  forall j q, nth_error a j = Some q -> pkind q = PO -> pdefault q = false ->
  exists m, nth_error e j = Some m /\ pkind m = PO /\ pdefault m = false.
Proof.
  intros e a Hv H j q Hq Hk Hd. unfold valid_sig in Hv. apply andb_true_iff in Hv as [_ Hnd].
  unfold kinds_ok, sca in H.
  destruct (sca_loop a 0 (mkC [] [] [] []) e) as [st|] eqn:E; [|discriminate].
  destruct (forallb (extra_required_ok st) a) eqn:Ef; [|discriminate].
  rewrite forallb_forall in Ef. specialize (Ef q (nth_error_In _ _ Hq)). unfold extra_required_ok in Ef.
  rewrite Hk, Hd in Ef. cbn [is_var orb] in Ef.
  destruct (sca_loop_cpos _ _ _ _ _ E _ Ef) as [Habs|(j' & m & t & H1 & H2 & H3 & H4 & H5 & H6)]; [discriminate|].
  cbn [Nat.add] in H2.
  assert (t = q) by (eapply nodup_same_name; eauto using nth_error_In). subst t.
  assert (j' = j) by (eapply nodup_nth_inj; eassumption). subst j'.
  exists m. split; [assumption|].
  destruct H6 as [Hm|(Hm & Hq' & _)]; [|congruence].
  split; [assumption|]. unfold default_clash in H5. rewrite Hd in H5. cbn [negb] in H5.
  rewrite andb_true_r in H5. exact H5.
Qed.
