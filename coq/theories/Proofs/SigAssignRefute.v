(* Proofs/SigAssignRefute.v — the faithful model of Signature.can_assign
   accepts pairs on which some call bound by the expected signature is not
   bound by the accepted one (four shapes, one mechanism: double fill). *)
From Coq Require Import List Bool NArith PeanoNat.
Import ListNotations.
Require Import PV.Binder.Kind PV.Binder.Sig PV.Binder.SigAssign PV.Binder.PyBind.
Open Scope N_scope.

Definition unsound_on (e a : sig) (npos : nat) (kws : list N) : Prop :=
  valid_sig e = true /\ valid_sig a = true /\ kinds_ok e a = true /\
  py_bind e npos kws = true /\ py_bind a npos kws = false /\ double_fill e a = true.

(* (a, /, **b) <- (a, **b);  call (1, a=2) *)
Lemma refute_posonly_name_into_kwargs :
  unsound_on [mkParam 1 PO false; mkParam 2 VK false] [mkParam 1 POK false; mkParam 2 VK false] 1 [1].
Proof. vm_compute. repeat split; reflexivity. Qed.

(* (a, /, *, b) <- (b);  call (1, b=2) *)
Lemma refute_kwonly_hits_consumed_positional :
  unsound_on [mkParam 1 PO false; mkParam 2 KO false] [mkParam 2 POK false] 1 [2].
Proof. vm_compute. repeat split; reflexivity. Qed.

(* ( *a, b) <- (b, *a);  call (1, b=2) *)
Lemma refute_varargs_then_kwonly_hits_positional :
  unsound_on [mkParam 1 VP false; mkParam 2 KO false] [mkParam 2 POK false; mkParam 1 VP false] 1 [2].
Proof. vm_compute. repeat split; reflexivity. Qed.

(* (x, /, n) <- (n, *a, **k);  call (1, n=2)   [found while building the guard] *)
Lemma refute_pok_absorbed_by_star_params :
  unsound_on [mkParam 1 PO false; mkParam 2 POK false]
             [mkParam 2 POK false; mkParam 3 VP false; mkParam 4 VK false] 1 [2].
Proof. vm_compute. repeat split; reflexivity. Qed.
