(* Proofs/SigAssignSmall.v — soundness of the accepted pairs outside the guard,
   decided by computation inside Coq on a small exhaustive domain:
   every valid signature with <= 2 parameters over the names {1,2,3}
   (all kinds, all default patterns) on both sides, every call with
   <= 3 positionals and <= 3 distinct keywords out of {1,2,3,4}. *)
From Coq Require Import List Bool NArith PeanoNat.
Import ListNotations.
Require Import PV.Binder.Kind PV.Gen.Kinds PV.Binder.Sig PV.Binder.SigAssign PV.Binder.PyBind.
Open Scope N_scope.

Definition small_params : list param :=
  flat_map (fun n => flat_map (fun k => [mkParam n k false; mkParam n k true]) all_kinds) [1; 2; 3].

Definition small_sigs : list sig :=
  filter valid_sig
    ([] :: map (fun p => [p]) small_params
        ++ flat_map (fun p => map (fun q => [p; q]) small_params) small_params).

Fixpoint sublists (l : list N) : list (list N) :=
  match l with
  | [] => [[]]
  | x :: r => let s := sublists r in map (cons x) s ++ s
  end.

Definition small_calls : list (nat * list N) :=
  flat_map (fun npos => map (fun kws => (npos, kws))
                            (filter (fun l => Nat.leb (length l) 3) (sublists [1; 2; 3; 4])))
           [0; 1; 2; 3]%nat.

Definition sound_on_calls (e a : sig) : bool :=
  forallb (fun c => implb (py_bind e (fst c) (snd c)) (py_bind a (fst c) (snd c))) small_calls.

Definition small_domain_sound : bool :=
  forallb (fun e => forallb (fun a =>
     if kinds_ok e a && negb (double_fill e a) then sound_on_calls e a else true) small_sigs) small_sigs.

Lemma small_domain_sound_true : small_domain_sound = true.
Proof. vm_compute. reflexivity. Qed.

(* the guard is not vacuous on that domain: accepted pairs outside it exist in number *)
Definition accepted_outside_guard : nat :=
  length (filter (fun ea => kinds_ok (fst ea) (snd ea) && negb (double_fill (fst ea) (snd ea)))
                 (flat_map (fun e => map (fun a => (e, a)) small_sigs) small_sigs)).

(* second domain: one side up to 3 parameters *)
Definition small_sigs3 : list sig :=
  small_sigs ++
  filter valid_sig
    (flat_map (fun p => flat_map (fun q => map (fun r => [p; q; r]) small_params) small_params) small_params).

Definition small_domain_sound_23 : bool :=
  forallb (fun e => forallb (fun a =>
     if kinds_ok e a && negb (double_fill e a) then sound_on_calls e a else true) small_sigs3) small_sigs.

Definition small_domain_sound_32 : bool :=
  forallb (fun e => forallb (fun a =>
     if kinds_ok e a && negb (double_fill e a) then sound_on_calls e a else true) small_sigs) small_sigs3.

Lemma small_domain_sound_23_true : small_domain_sound_23 = true.
Proof. vm_compute. reflexivity. Qed.

Lemma small_domain_sound_32_true : small_domain_sound_32 = true.
Proof. vm_compute. reflexivity. Qed.
