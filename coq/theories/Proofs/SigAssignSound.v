(* Proofs/SigAssignSound.v — the unbounded soundness theorem of C07:
   accepted /\ no double fill  =>  every call the expected signature binds is
   bound by the accepted one, for signatures and calls of any size.

   Route: (1) for valid signatures the closed form of the binder (C05,
   `closed`) is characterised per list index (`slot_ok`, `closed_char`);
   (2) the comparison loop's invariants (SigAssignLoop: what the names in
   consumed_positional / consumed_keyword stand for) give, for every
   parameter of the accepted signature, the parameter of the expected one
   that covers it; (3) the guard is used in exactly one place: a
   positional-or-keyword parameter of `a` below the number of positionals
   whose name is also passed by keyword. *)
From Coq Require Import List Bool NArith PeanoNat Lia.
Import ListNotations.
Require Import PV.Binder.Kind PV.Gen.Kinds PV.Binder.Sig PV.Binder.SigAssign PV.Binder.PyBind.
Require Import PV.Proofs.BinderConcrete PV.Proofs.BinderValid PV.Proofs.SigAssignRefute PV.Proofs.SigAssignLoop.
Close Scope N_scope.
Open Scope nat_scope.

(* what binding demands of the parameter at list index j when npos positionals
   and the keywords kws are passed *)
Definition slot_ok (npos : nat) (kws : list N) (j : nat) (p : param) : Prop :=
  match pkind p with
  | PO => j < npos \/ pdefault p = true
  | POK => (j < npos -> memN (pname p) kws = false) /\
           (npos <= j -> memN (pname p) kws = true \/ pdefault p = true)
  | KO => memN (pname p) kws = true \/ pdefault p = true
  | _ => True
  end.

Lemma slot_ok_nonpos : forall n n' kws j j' p,
  is_positional (pkind p) = false -> slot_ok n kws j p -> slot_ok n' kws j' p.
Proof. intros n n' kws j j' p H. unfold slot_ok. destruct (pkind p); try discriminate; auto. Qed.

Lemma all_nonpos_prefix : forall s,
  forallb (fun q => negb (is_positional (pkind q))) s = true -> pos_prefix s = true.
Proof.
  induction s as [|p r IH]; intros H; [reflexivity|]. cbn [forallb] in H.
  apply andb_true_iff in H as [H1 H2]. apply negb_true_iff in H1. cbn [pos_prefix]. rewrite H1. exact H2.
Qed.

Lemma params_ok_nonpos : forall s n n' kws,
  forallb (fun q => negb (is_positional (pkind q))) s = true ->
  params_ok n kws s = params_ok n' kws s.
Proof.
  induction s as [|p r IH]; intros n n' kws H; [reflexivity|]. cbn [forallb] in H.
  apply andb_true_iff in H as [H1 H2]. apply negb_true_iff in H1.
  destruct (pkind p) eqn:Ek; cbn in H1; try discriminate.
  - rewrite !(params_ok_VP _ _ _ _ Ek). reflexivity.
  - rewrite !(params_ok_KO _ _ _ _ Ek). rewrite (IH n n'); auto.
  - rewrite !(params_ok_VK _ _ _ _ Ek). auto.
Qed.

Lemma params_ok_char : forall s n kws, pos_prefix s = true ->
  (params_ok n kws s = true <-> forall j p, nth_error s j = Some p -> slot_ok n kws j p).
Proof.
  induction s as [|p r IH]; intros n kws Hpre.
  - split; [intros _ [|j] q H; discriminate | reflexivity].
  - cbn [pos_prefix] in Hpre. destruct (is_positional (pkind p)) eqn:Ep.
    + (* positional head *)
      destruct (pkind p) eqn:Ek; cbn in Ep; try discriminate.
      * (* PO *) destruct n as [|n']; cbn [params_ok]; rewrite Ek.
        -- rewrite andb_true_iff, (IH 0 kws Hpre). split.
           ++ intros [Hd Hr] [|j] q Hq.
              ** injection Hq as <-. unfold slot_ok. rewrite Ek. auto.
              ** specialize (Hr j q Hq). unfold slot_ok in *. destruct (pkind q); auto.
                 --- destruct Hr as [Hr|Hr]; [lia|auto].
                 --- destruct Hr as [H1 H2]. split; [lia|]. intros _. apply H2. lia.
           ++ intros H. split.
              ** specialize (H 0 p eq_refl). unfold slot_ok in H. rewrite Ek in H. destruct H; [lia|assumption].
              ** intros j q Hq. specialize (H (S j) q Hq). unfold slot_ok in *. destruct (pkind q); auto.
                 --- destruct H as [H|H]; [lia|auto].
                 --- destruct H as [H1 H2]. split; [lia|]. intros _. apply H2. lia.
        -- rewrite (IH n' kws Hpre). split.
           ++ intros Hr [|j] q Hq.
              ** injection Hq as <-. unfold slot_ok. rewrite Ek. left. lia.
              ** specialize (Hr j q Hq). unfold slot_ok in *. destruct (pkind q); auto.
                 --- destruct Hr as [Hr|Hr]; [left; lia|auto].
                 --- destruct Hr as [H1 H2]. split; [intros; apply H1; lia|intros; apply H2; lia].
           ++ intros H j q Hq. specialize (H (S j) q Hq). unfold slot_ok in *. destruct (pkind q); auto.
              ** destruct H as [H|H]; [left; lia|auto].
              ** destruct H as [H1 H2]. split; [intros; apply H1; lia|intros; apply H2; lia].
      * (* POK *) destruct n as [|n']; cbn [params_ok]; rewrite Ek.
        -- rewrite andb_true_iff, (IH 0 kws Hpre). split.
           ++ intros [Hd Hr] [|j] q Hq.
              ** injection Hq as <-. unfold slot_ok. rewrite Ek. split; [lia|]. intros _.
                 apply orb_true_iff in Hd. exact Hd.
              ** specialize (Hr j q Hq). unfold slot_ok in *. destruct (pkind q); auto.
                 --- destruct Hr as [Hr|Hr]; [lia|auto].
                 --- destruct Hr as [H1 H2]. split; [lia|]. intros _. apply H2. lia.
           ++ intros H. split.
              ** specialize (H 0 p eq_refl). unfold slot_ok in H. rewrite Ek in H. destruct H as [_ H].
                 apply orb_true_iff. apply H. lia.
              ** intros j q Hq. specialize (H (S j) q Hq). unfold slot_ok in *. destruct (pkind q); auto.
                 --- destruct H as [H|H]; [lia|auto].
                 --- destruct H as [H1 H2]. split; [lia|]. intros _. apply H2. lia.
        -- rewrite andb_true_iff, negb_true_iff, (IH n' kws Hpre). split.
           ++ intros [Hd Hr] [|j] q Hq.
              ** injection Hq as <-. unfold slot_ok. rewrite Ek. split; [auto|lia].
              ** specialize (Hr j q Hq). unfold slot_ok in *. destruct (pkind q); auto.
                 --- destruct Hr as [Hr|Hr]; [left; lia|auto].
                 --- destruct Hr as [H1 H2]. split; [intros; apply H1; lia|intros; apply H2; lia].
           ++ intros H. split.
              ** specialize (H 0 p eq_refl). unfold slot_ok in H. rewrite Ek in H. destruct H as [H _]. apply H. lia.
              ** intros j q Hq. specialize (H (S j) q Hq). unfold slot_ok in *. destruct (pkind q); auto.
                 --- destruct H as [H|H]; [left; lia|auto].
                 --- destruct H as [H1 H2]. split; [intros; apply H1; lia|intros; apply H2; lia].
    + (* non-positional head: the rest is non-positional as well *)
      assert (Hall : forallb (fun q => negb (is_positional (pkind q))) (p :: r) = true).
      { cbn [forallb]. rewrite Ep. exact Hpre. }
      rewrite (params_ok_nonpos (p :: r) n 0 kws Hall).
      assert (Hr0 : params_ok 0 kws (p :: r) = true <->
                    (slot_ok 0 kws 0 p /\ params_ok 0 kws r = true)).
      { destruct (pkind p) eqn:Ek; cbn in Ep; try discriminate.
        - rewrite (params_ok_VP _ _ _ _ Ek). unfold slot_ok. rewrite Ek. tauto.
        - rewrite (params_ok_KO _ _ _ _ Ek). unfold slot_ok. rewrite Ek.
          rewrite andb_true_iff, orb_true_iff. tauto.
        - rewrite (params_ok_VK _ _ _ _ Ek). unfold slot_ok. rewrite Ek. tauto. }
      rewrite Hr0, (IH 0 kws (all_nonpos_prefix r Hpre)).
      assert (Hnp : forall j q, nth_error r j = Some q -> is_positional (pkind q) = false).
      { intros j q Hq. apply nth_error_In in Hq. rewrite forallb_forall in Hpre.
        apply negb_true_iff. auto. }
      split.
      * intros [Hp Hr] [|j] q Hq.
        -- injection Hq as <-. eapply slot_ok_nonpos; eassumption.
        -- cbn [nth_error] in Hq. apply (slot_ok_nonpos 0 n kws j (S j)); [eapply Hnp; eassumption|].
           apply Hr; assumption.
      * intros H. split.
        -- apply (slot_ok_nonpos n 0 kws 0 0 p Ep). apply H. reflexivity.
        -- intros j q Hq. apply (slot_ok_nonpos n 0 kws (S j) j); [eapply Hnp; eassumption|].
           apply H. exact Hq.
Qed.

Lemma valid_sig_facts : forall s, valid_sig s = true ->
  names_nodup (map pname s) = true /\ pos_before_vp s = true /\ pos_prefix s = true.
Proof.
  intros s Hv. destruct (valid_sig_shape s Hv) as [H1 H2]. repeat split; auto.
  unfold valid_sig in Hv. apply andb_true_iff in Hv as [Hv _]. eapply validate_pos_prefix; eassumption.
Qed.

Definition binds_char (s : sig) (npos : nat) (kws : list N) : Prop :=
  (forall j p, nth_error s j = Some p -> slot_ok npos kws j p)
  /\ (has_kind VP s = true \/ npos <= length (pos_params s))
  /\ (has_kind VK s = true \/ forall k, memN k kws = true -> kw_target s k = true).

Lemma closed_char : forall s npos kws, valid_sig s = true ->
  (closed s npos kws = true <-> binds_char s npos kws).
Proof.
  intros s npos kws Hv. destruct (valid_sig_facts s Hv) as (Hnd & Hvp & Hpre).
  unfold closed, binds_char. rewrite !andb_true_iff, !orb_true_iff.
  rewrite (params_ok_char s npos kws Hpre).
  split.
  - intros [[H1 H2] H3]. split; [exact H1|]. split.
    + destruct H2 as [H2|H2]; [left; exact H2|].
      destruct (has_kind VP s) eqn:E; [left; reflexivity|right].
      rewrite (final_rem_no_vp _ _ E) in H2. apply Nat.eqb_eq in H2. lia.
    + destruct H3 as [H3|H3]; [left; exact H3|right].
      intros k Hk. rewrite forallb_forall in H3.
      rewrite <- (consumed_kw_target s npos kws Hnd); auto.
      * apply H3. apply memN_true_iff. exact Hk.
      * apply (params_ok_char s npos kws Hpre). exact H1.
  - intros (H1 & H2 & H3). split; [split; [exact H1|]|].
    + destruct H2 as [H2|H2]; [left; exact H2|].
      destruct (has_kind VP s) eqn:E; [left; reflexivity|right].
      rewrite (final_rem_no_vp _ _ E). apply Nat.eqb_eq. lia.
    + destruct H3 as [H3|H3]; [left; exact H3|right].
      apply forallb_forall. intros k Hk. apply memN_true_iff in Hk.
      rewrite (consumed_kw_target s npos kws Hnd); auto.
      apply (params_ok_char s npos kws Hpre). exact H1.
Qed.

Lemma py_bind_char : forall s npos kws, valid_sig s = true -> names_nodup kws = true ->
  (py_bind s npos kws = true <-> binds_char s npos kws).
Proof.
  intros s npos kws Hv Hk. destruct (valid_sig_facts s Hv) as (Hnd & Hvp & _).
  rewrite (py_bind_closed s npos kws Hnd Hvp Hk). apply closed_char. exact Hv.
Qed.

(* consumed_keyword, with the index of the positional-or-keyword match *)
Definition kw_match_idx (e a : sig) (off : nat) (n : N) : Prop :=
  (exists j m t, nth_error e j = Some m /\ nth_error a (off + j) = Some t /\ pname t = n /\
      pkind m = POK /\ pkind t = POK /\ pname m = n /\ default_clash m t = false)
  \/ (exists m t, In m e /\ In t a /\ pname t = n /\ pname m = n /\ pkind m = KO /\
      is_kw_target (pkind t) = true /\ default_clash m t = false).

Lemma sca_loop_ckw_idx : forall a e i st st',
  sca_loop a i st e = Some st' ->
  forall n, memN n (ckw st') = true -> memN n (ckw st) = true \/ kw_match_idx e a i n.
Proof.
  intros a. induction e as [|m0 r IH]; intros i st st' H n Hn.
  - cbn in H. injection H as <-. left. assumption.
  - cbn [sca_loop] in H. destruct (sca_step a i st m0) as [st1|] eqn:Es; [|discriminate].
    destruct (IH _ _ _ H n Hn) as [Hin|[(j & m & t & H1 & H2 & H3 & H4 & H5 & H6 & H7)|(m & t & H1 & H2 & H3 & H4 & H5 & H6 & H7)]].
    + assert (Hstep : memN n (ckw st) = true \/
                (exists t, nth_error a i = Some t /\ pname t = n /\ pkind m0 = POK /\ pkind t = POK /\
                           pname m0 = n /\ default_clash m0 t = false) \/
                (exists t, In t a /\ pname t = n /\ pname m0 = n /\ pkind m0 = KO /\
                           is_kw_target (pkind t) = true /\ default_clash m0 t = false)).
      { unfold sca_step in Es.
        destruct (pkind m0) eqn:Ek.
        - destruct (nth_error a i) as [t|].
          + destruct (is_positional (pkind t)).
            * destruct (default_clash m0 t); [discriminate|]. injection Es as <-. left. exact Hin.
            * destruct (param_of_kind VP a) as [va|]; [|discriminate]. injection Es as <-. left. exact Hin.
          + destruct (param_of_kind VP a) as [va|]; [|discriminate]. injection Es as <-. left. exact Hin.
        - assert (Habs : forall s1, (if (match param_of_kind VP a with Some _ => true | None => false end)
                                        && (match param_of_kind VK a with Some _ => true | None => false end)
                                     then Some (opt_obl (param_of_kind VK a) (pname m0) (opt_obl (param_of_kind VP a) (pname m0) st))
                                     else None) = Some s1 -> ckw s1 = ckw st).
          { intros s1 E. destruct (_ && _); [|discriminate]. injection E as <-.
            destruct (param_of_kind VK a), (param_of_kind VP a); reflexivity. }
          destruct (nth_error a i) as [t|] eqn:En.
          + destruct (pkind t) eqn:Et; try discriminate;
              try (left; rewrite <- (Habs _ Es); exact Hin).
            destruct (N.eqb (pname m0) (pname t)) eqn:Enm; [|discriminate]. cbn [negb] in Es.
            destruct (default_clash m0 t) eqn:Ec; [discriminate|]. injection Es as <-.
            cbn [ckw] in Hin. rewrite memN_cons in Hin. apply orb_true_iff in Hin as [Hin|Hin]; [|left; exact Hin].
            apply N.eqb_eq in Hin. apply N.eqb_eq in Enm. right. left. exists t.
            split; [reflexivity|]. repeat split; auto; congruence.
          + left. rewrite <- (Habs _ Es). exact Hin.
        - destruct (param_of_kind VP a); [|discriminate]. injection Es as <-. left. exact Hin.
        - assert (Habs : forall s1, (if (match param_of_kind VK a with Some _ => true | None => false end)
                                     then Some (opt_obl (param_of_kind VK a) (pname m0) st) else None) = Some s1 ->
                                    ckw s1 = ckw st).
          { intros s1 E. destruct (param_of_kind VK a); [|discriminate]. injection E as <-. reflexivity. }
          destruct (find_param (pname m0) a) as [t|] eqn:Ef.
          + destruct (is_kw_target (pkind t)) eqn:Et.
            * destruct (default_clash m0 t) eqn:Ec; [discriminate|]. injection Es as <-.
              cbn [ckw] in Hin. rewrite memN_cons in Hin. apply orb_true_iff in Hin as [Hin|Hin]; [|left; exact Hin].
              apply N.eqb_eq in Hin. apply find_param_some in Ef as [Hta Htn]. right. right. exists t.
              repeat split; auto; congruence.
            * left. rewrite <- (Habs _ Es). exact Hin.
          + left. rewrite <- (Habs _ Es). exact Hin.
        - destruct (param_of_kind VK a); [|discriminate]. injection Es as <-. left. exact Hin. }
      destruct Hstep as [Hs|[(t & H1 & H2 & H3 & H4 & H5 & H6)|(t & H1 & H2 & H3 & H4 & H5 & H6)]].
      * left. exact Hs.
      * right. left. exists 0, m0, t. rewrite Nat.add_0_r. repeat split; auto.
      * right. right. exists m0, t. repeat split; auto. left. reflexivity.
    + right. left. exists (S j), m, t. replace (i + S j) with (S i + j) by lia. repeat split; auto.
    + right. right. exists m, t. repeat split; auto. right. assumption.
Qed.

(* ---------- the guard ---------- *)
Lemma pos_prefix_head : forall x r j q,
  pos_prefix (x :: r) = true -> nth_error r j = Some q -> is_positional (pkind q) = true ->
  is_positional (pkind x) = true /\ pos_prefix r = true.
Proof.
  intros x r j q Hpre Hq Hp. cbn [pos_prefix] in Hpre.
  destruct (is_positional (pkind x)); [auto|].
  rewrite forallb_forall in Hpre. apply nth_error_In in Hq. specialize (Hpre q Hq).
  rewrite Hp in Hpre. discriminate.
Qed.

Lemma double_fill_from_intro : forall e a j0 j q,
  pos_prefix a = true -> nth_error a j = Some q -> is_positional (pkind q) = true ->
  double_fill_at e q (j0 + j) = true -> double_fill_from e a j0 = true.
Proof.
  intros e. induction a as [|x r IH]; intros j0 j q Hpre Hq Hp Hd; [destruct j; discriminate|].
  destruct j as [|j].
  - injection Hq as ->. cbn [double_fill_from]. rewrite Hp. rewrite Nat.add_0_r in Hd. rewrite Hd. reflexivity.
  - cbn [nth_error] in Hq. destruct (pos_prefix_head _ _ _ _ Hpre Hq Hp) as [Hx Hr].
    cbn [double_fill_from]. rewrite Hx. apply orb_true_iff. right.
    apply (IH (S j0) j q Hr Hq Hp). replace (S j0 + j) with (j0 + S j) by lia. exact Hd.
Qed.

Lemma pos_index_of_nth : forall s i0 i p,
  names_nodup (map pname s) = true -> pos_prefix s = true ->
  nth_error s i = Some p -> is_positional (pkind p) = true ->
  pos_index_of (pname p) s i0 = Some (i0 + i).
Proof.
  induction s as [|x r IH]; intros i0 i p Hnd Hpre Hi Hp; [destruct i; discriminate|].
  destruct i as [|i].
  - injection Hi as ->. cbn [pos_index_of]. rewrite Hp, N.eqb_refl, Nat.add_0_r. reflexivity.
  - cbn [nth_error] in Hi. destruct (pos_prefix_head _ _ _ _ Hpre Hi Hp) as [Hx Hr].
    cbn [map names_nodup] in Hnd. apply andb_true_iff in Hnd as [Hxn Hnd]. apply negb_true_iff in Hxn.
    cbn [pos_index_of]. rewrite Hx.
    assert (N.eqb (pname x) (pname p) = false) as ->.
    { apply N.eqb_neq. intros E. assert (memN (pname x) (map pname r) = true); [|congruence].
      apply memN_true_iff. rewrite E. apply in_map. eapply nth_error_In; eassumption. }
    replace (i0 + S i) with (S i0 + i) by lia. apply IH; assumption.
Qed.

Lemma find_param_complete : forall n s p, In p s -> pname p = n -> exists p', find_param n s = Some p'.
Proof.
  intros n s p Hin Hn. unfold find_param. destruct (find _ s) eqn:E; [eauto|].
  exfalso. apply (find_none _ _ E) in Hin. rewrite Hn, N.eqb_refl in Hin. discriminate.
Qed.

(* if e binds a call with npos positionals that passes keyword n, then e "takes keyword n
   together with k positionals" for every k <= npos *)
Lemma takes_kw_with_of_binding : forall e npos kws n k,
  valid_sig e = true -> binds_char e npos kws -> memN n kws = true -> k <= npos ->
  takes_kw_with e n k = true.
Proof.
  intros e npos kws n k Hv (Hs & _ & Hkw) Hn Hk.
  destruct (valid_sig_facts e Hv) as (Hnd & _ & Hpre).
  assert (Hvk : kw_target e n = false -> has_kind VK e = true).
  { intros Hf. destruct Hkw as [H|H]; [exact H|]. rewrite (H n Hn) in Hf. discriminate. }
  unfold takes_kw_with. destruct (find_param n e) as [p|] eqn:Ef.
  - apply find_param_some in Ef as [Hin Hpn].
    destruct (pkind p) eqn:Ek; try reflexivity.
    + (* PO *) apply Hvk. destruct (kw_target e n) eqn:Et; [|reflexivity].
      apply kw_target_true_iff in Et as (p' & Hin' & Hk' & Hn').
      assert (p' = p) by (eapply nodup_same_name; eauto; congruence). subst p'. rewrite Ek in Hk'. discriminate.
    + (* POK *) destruct (In_nth_error _ _ Hin) as [i Hi].
      assert (Hpp : is_positional (pkind p) = true) by (rewrite Ek; reflexivity).
      rewrite <- Hpn. rewrite (pos_index_of_nth e 0 i p Hnd Hpre Hi Hpp). cbn [Nat.add].
      apply Nat.leb_le. specialize (Hs i p Hi). unfold slot_ok in Hs. rewrite Ek in Hs.
      destruct Hs as [Hs1 _]. destruct (Nat.lt_ge_cases i npos) as [Hlt|Hge]; [|lia].
      specialize (Hs1 Hlt). rewrite Hpn in Hs1. congruence.
    + (* VP *) apply Hvk. destruct (kw_target e n) eqn:Et; [|reflexivity].
      apply kw_target_true_iff in Et as (p' & Hin' & Hk' & Hn').
      assert (p' = p) by (eapply nodup_same_name; eauto; congruence). subst p'. rewrite Ek in Hk'. discriminate.
    + (* VK *) apply Hvk. destruct (kw_target e n) eqn:Et; [|reflexivity].
      apply kw_target_true_iff in Et as (p' & Hin' & Hk' & Hn').
      assert (p' = p) by (eapply nodup_same_name; eauto; congruence). subst p'. rewrite Ek in Hk'. discriminate.
  - apply Hvk. destruct (kw_target e n) eqn:Et; [|reflexivity].
    apply kw_target_true_iff in Et as (p' & Hin' & Hk' & Hn').
    destruct (find_param_complete n e p' Hin' Hn') as [p'' Hp'']. congruence.
Qed.

(* ---------- the theorem ---------- *)
Lemma sound_char : forall e a npos kws,
  valid_sig e = true -> valid_sig a = true ->
  kinds_ok e a = true -> double_fill e a = false ->
  binds_char e npos kws -> binds_char a npos kws.
Proof.
  intros e a npos kws Hve Hva Hk Hg He.
  destruct (valid_sig_facts e Hve) as (Hnde & _ & Hpree).
  destruct (valid_sig_facts a Hva) as (Hnda & _ & Hprea).
  destruct (accept_var_params e a Hk) as [Hvp Hvk].
  pose proof He as (Hse & Hce & Hke).
  split; [|split].
  - (* every slot of a *)
    intros j q Hq.
    pose proof Hk as Hk'. unfold kinds_ok, sca in Hk'.
    destruct (sca_loop a 0 (mkC [] [] [] []) e) as [st|] eqn:E; [|discriminate].
    destruct (forallb (extra_required_ok st) a) eqn:Ef; [|discriminate]. clear Hk'.
    rewrite forallb_forall in Ef. pose proof (Ef q (nth_error_In _ _ Hq)) as Hreq.
    unfold extra_required_ok in Hreq.
    unfold slot_ok. destruct (pkind q) eqn:Ekq; [| | exact I | | exact I].
    + (* PO *)
      destruct (pdefault q) eqn:Ed; [right; reflexivity|left].
      destruct (accept_required_posonly e a Hva Hk j q Hq Ekq Ed) as (m & Hm & Hkm & Hdm).
      specialize (Hse j m Hm). unfold slot_ok in Hse. rewrite Hkm in Hse.
      destruct Hse as [Hse|Hse]; [exact Hse|congruence].
    + (* POK *)
      split.
      * (* below npos: the guard *)
        intros Hlt. destruct (memN (pname q) kws) eqn:Em; [|reflexivity]. exfalso.
        assert (Hdf : double_fill e a = true).
        { unfold double_fill. apply (double_fill_from_intro e a 0 j q Hprea Hq); [rewrite Ekq; reflexivity|].
          cbn [Nat.add]. unfold double_fill_at. rewrite Ekq. cbn [kind_eqb andb].
          apply andb_true_iff. split.
          - destruct Hce as [Hce|Hce]; [rewrite Hce; reflexivity|].
            apply orb_true_iff. right. apply Nat.ltb_lt. lia.
          - apply (takes_kw_with_of_binding e npos kws (pname q) (S j) Hve He Em). lia. }
        congruence.
      * (* at or beyond npos: required => passed by keyword *)
        intros Hge. destruct (pdefault q) eqn:Ed; [right; reflexivity|left].
        rewrite ?Ekq, ?Ed in Hreq. cbn [is_var orb] in Hreq. apply orb_true_iff in Hreq as [Hreq|Hreq].
        -- destruct (sca_loop_cpos _ _ _ _ _ E _ Hreq) as [Habs|(j' & m & t & H1 & H2 & H3 & H4 & H5 & H6)]; [discriminate|].
           cbn [Nat.add] in H2.
           assert (t = q) by (eapply nodup_same_name; eauto using nth_error_In). subst t.
           assert (j' = j) by (eapply nodup_nth_inj; eassumption). subst j'.
           assert (Hdm : pdefault m = false).
           { unfold default_clash in H5. rewrite Ed in H5. cbn [negb] in H5. rewrite andb_true_r in H5. exact H5. }
           specialize (Hse j m H1). unfold slot_ok in Hse.
           destruct H6 as [Hm|(Hm & _ & Hn)]; rewrite Hm in Hse.
           ++ destruct Hse as [Hse|Hse]; [lia|congruence].
           ++ destruct Hse as [_ Hse]. destruct (Hse Hge) as [Hs|Hs]; [rewrite <- Hn; exact Hs|congruence].
        -- destruct (sca_loop_ckw_idx _ _ _ _ _ E _ Hreq) as [Habs|[(j' & m & t & H1 & H2 & H3 & H4 & H5 & H6 & H7)|(m & t & H1 & H2 & H3 & H4 & H5 & H6 & H7)]]; [discriminate| |].
           ++ cbn [Nat.add] in H2.
              assert (t = q) by (eapply nodup_same_name; eauto using nth_error_In). subst t.
              assert (j' = j) by (eapply nodup_nth_inj; eassumption). subst j'.
              assert (Hdm : pdefault m = false).
              { unfold default_clash in H7. rewrite Ed in H7. cbn [negb] in H7. rewrite andb_true_r in H7. exact H7. }
              specialize (Hse j m H1). unfold slot_ok in Hse. rewrite H4 in Hse.
              destruct Hse as [_ Hse]. destruct (Hse Hge) as [Hs|Hs]; [rewrite <- H6; exact Hs|congruence].
           ++ assert (t = q) by (eapply nodup_same_name; eauto using nth_error_In). subst t.
              assert (Hdm : pdefault m = false).
              { unfold default_clash in H7. rewrite Ed in H7. cbn [negb] in H7. rewrite andb_true_r in H7. exact H7. }
              destruct (In_nth_error _ _ H1) as [i Hi].
              specialize (Hse i m Hi). unfold slot_ok in Hse. rewrite H5 in Hse.
              destruct Hse as [Hs|Hs]; [rewrite <- H4; exact Hs|congruence].
    + (* KO *)
      destruct (pdefault q) eqn:Ed; [right; reflexivity|left].
      destruct (accept_required_kwonly e a Hva Hk q (nth_error_In _ _ Hq) Ekq Ed) as (m & Hm & Hkm & Hnm & Hdm).
      destruct (In_nth_error _ _ Hm) as [i Hi].
      specialize (Hse i m Hi). unfold slot_ok in Hse. rewrite Hkm in Hse.
      destruct Hse as [Hs|Hs]; [rewrite <- Hnm; exact Hs|congruence].
  - (* positional count *)
    destruct Hce as [Hce|Hce]; [left; auto|].
    destruct (accept_positional_capacity_valid e a Hve Hk) as [H|H]; [left; exact H|right; lia].
  - (* keywords *)
    destruct Hke as [Hke|Hke]; [left; auto|].
    destruct (accept_keyword_capacity e a Hk) as [H|H]; [left; exact H|right].
    intros k Hkk. apply H. apply Hke. exact Hkk.
Qed.

Theorem sig_assign_binds_partial : forall e a npos kws,
  valid_sig e = true -> valid_sig a = true -> names_nodup kws = true ->
  kinds_ok e a = true -> double_fill e a = false ->
  py_bind e npos kws = true -> py_bind a npos kws = true.
Proof.
  intros e a npos kws Hve Hva Hkw Hk Hg Hb.
  apply (py_bind_char a npos kws Hva Hkw).
  apply (sound_char e a npos kws Hve Hva Hk Hg).
  apply (py_bind_char e npos kws Hve Hkw). exact Hb.
Qed.

Example partial_guard_inhabited :
  let e := [mkParam 1%N POK false; mkParam 2%N POK true; mkParam 3%N KO false] in
  let a := [mkParam 1%N POK false; mkParam 2%N POK true; mkParam 4%N POK true; mkParam 5%N VP false;
            mkParam 3%N KO false; mkParam 6%N VK false] in
  valid_sig e = true /\ valid_sig a = true /\ kinds_ok e a = true /\ double_fill e a = false /\
  py_bind e 1 [3%N] = true.
Proof. vm_compute. repeat split; reflexivity. Qed.

(* overloads on either side: a call accepted by some overload of the expected side is
   bound by some overload of the accepted side *)
Theorem overloads_sound : forall es as_ npos kws,
  (forall e, In e es -> valid_sig e = true) -> (forall a, In a as_ -> valid_sig a = true) ->
  (forall e a, In e es -> In a as_ -> double_fill e a = false) ->
  names_nodup kws = true -> ov_kinds_ok es as_ = true ->
  (exists e, In e es /\ py_bind e npos kws = true) ->
  exists a, In a as_ /\ py_bind a npos kws = true.
Proof.
  intros es as_ npos kws Hve Hva Hg Hk Hok (e & He & Hb).
  unfold ov_kinds_ok in Hok. rewrite forallb_forall in Hok. specialize (Hok e He).
  apply existsb_exists in Hok as (a & Ha & Hka). exists a. split; [exact Ha|].
  eapply sig_assign_binds_partial; eauto.
Qed.

(* a union on the accepted side: whichever member the value is at run time binds every call
   the expected signature binds *)
Theorem union_accepted_sound : forall e members npos kws,
  valid_sig e = true -> (forall a, In a members -> valid_sig a = true) ->
  (forall a, In a members -> double_fill e a = false) ->
  names_nodup kws = true -> union_accepted_ok e members = true ->
  py_bind e npos kws = true ->
  forall a, In a members -> py_bind a npos kws = true.
Proof.
  intros e members npos kws Hve Hva Hg Hk Hok Hb a Ha.
  unfold union_accepted_ok in Hok. rewrite forallb_forall in Hok.
  eapply sig_assign_binds_partial; eauto.
Qed.
