(* Proofs/SigAssignTyped.v — the typed half of C07 connected to the Core value
   model (values engineer): parameter annotations that are nominal classes of the
   generated class table (Gen/ClassTable.v), the acceptance relation of the
   implementation on them (`tassign table c d` = TypedValue(d).can_assign(
   TypedValue(c)), dumped from the running implementation), and Core's
   membership specification for nominal types (`sub_promo`: runtime subclassing
   plus int -> float -> complex promotion). *)
From Coq Require Import List Bool NArith.
Import ListNotations.
Require Import PV.Binder.Kind PV.Binder.Sig PV.Binder.SigAssign.
Require Import PV.Proofs.SigAssignLoop.
Require Import PV.Core.Cls PV.Gen.ClassTable PV.Proofs.C04Witness.

(* annotation of a parameter = a class code, per side, keyed by parameter name *)
Definition nominal (ann : N -> N) : Prop :=
  forall n, In (ann n) classes /\ protocol_like (ann n) = false.

(* "their annotation accepts my annotation", as the implementation decides it *)
Definition le_table (ann_e ann_a : N -> N) (t m : N) : bool := tassign table (ann_e m) (ann_a t).

Lemma nominal_sound_pointwise : forall c' c d,
  In c' classes -> In c classes -> In d classes ->
  protocol_like c = false -> protocol_like d = false ->
  tassign table c d = true -> sub_promo table c' c = true -> sub_promo table c' d = true.
Proof.
  intros c' c d Hc' Hc Hd Pc Pd Ht Hs.
  pose proof table_nominal_sound as H. rewrite forallb_forall in H. specialize (H c' Hc').
  rewrite forallb_forall in H. specialize (H c Hc). rewrite forallb_forall in H. specialize (H d Hd).
  rewrite Hs, Ht, Pc, Pd in H. exact H.
Qed.

(* parameter contravariance under the membership model: whenever typed signatures are
   accepted, for every pair of annotations the comparison looks at (their parameter t,
   my parameter m), every runtime class that is a member of MY annotation is a member of
   THEIR annotation — an argument acceptable to the expected signature is acceptable to
   the accepted callable in the slot it is compared with. *)
Theorem sig_assign_member_contravariant : forall ann_e ann_a le_ret e a,
  nominal ann_e -> nominal ann_a ->
  sig_can_assign (le_table ann_e ann_a) le_ret e a = true ->
  le_ret = true /\
  exists obs, sca e a = Some obs /\
    forall t m, In (t, m) obs ->
      forall c', In c' classes -> sub_promo table c' (ann_e m) = true -> sub_promo table c' (ann_a t) = true.
Proof.
  intros ann_e ann_a le_ret e a He Ha H.
  destruct (sig_assign_variance _ _ _ _ H) as (Hr & _ & obs & Hs & Hall).
  split; [exact Hr|]. exists obs. split; [exact Hs|].
  intros t m Hin c' Hc' Hm. specialize (Hall t m Hin). unfold le_table in Hall.
  destruct (He m) as [He1 He2]. destruct (Ha t) as [Ha1 Ha2].
  exact (nominal_sound_pointwise c' (ann_e m) (ann_a t) Hc' He1 Ha1 He2 Ha2 Hall Hm).
Qed.
