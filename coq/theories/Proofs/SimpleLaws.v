(* Proofs/SimpleLaws.v — instantiation lemma: on the simple fragment
   (TypeVar/Simple.v) every hypothesis of the C15 theorems holds, for any
   atom acceptance relation that is reflexive and transitive. *)
From Coq Require Import List Bool.
Import ListNotations.
Require Import PV.TypeVar.Base PV.TypeVar.Simple PV.TypeVar.Spec.

Section SimpleLaws.
  Context {A : Type} (ale : A -> A -> bool) (aeqb : A -> A -> bool).
  Hypothesis ale_refl : forall a, ale a a = true.
  Hypothesis ale_trans : forall a b c, ale a b = true -> ale b c = true -> ale a c = true.
  Hypothesis aeqb_spec : forall a b, aeqb a b = true <-> a = b.

  Lemma list_eqb_spec : forall xs ys, list_eqb aeqb xs ys = true <-> xs = ys.
  Proof.
    induction xs as [|x xs IH]; intros [|y ys]; cbn; split; try discriminate; try reflexivity.
    - intros H. apply andb_prop in H. destruct H as [H1 H2].
      apply aeqb_spec in H1. apply IH in H2. congruence.
    - intros H. injection H as -> ->. apply andb_true_intro. split.
      + apply aeqb_spec. reflexivity.
      + apply IH. reflexivity.
  Qed.

  Lemma cover_spec : forall xs ys,
    forallb (fun y => existsb (fun x => ale x y) xs) ys = true <->
    forall y, In y ys -> exists x, In x xs /\ ale x y = true.
  Proof.
    intros xs ys. rewrite forallb_forall. split; intros H y Hy.
    - apply existsb_exists. apply H, Hy.
    - apply existsb_exists. apply H, Hy.
  Qed.

  Theorem simple_laws : acc_laws (simple_ops ale aeqb).
  Proof.
    constructor; cbn.
    - (* refl *) intros [|xs]; cbn; [reflexivity|].
      apply cover_spec. intros y Hy. exists y. split; [exact Hy|apply ale_refl].
    - intros [|xs] b H; [reflexivity|discriminate].
    - intros [|xs] [|ys] H; try reflexivity; discriminate.
    - (* trans *) intros [|xs] [|ys] [|zs] Hb H1 H2; cbn in *; try reflexivity; try discriminate.
      rewrite cover_spec in *. intros z Hz.
      destruct (H2 z Hz) as [y [Hy Hyz]]. destruct (H1 y Hy) as [x [Hx Hxy]].
      exists x. split; [exact Hx|]. eapply ale_trans; eassumption.
    - (* ub_l *) intros [|xs] [|ys]; cbn; try reflexivity.
      apply cover_spec. intros x Hx. exists x. split; [apply in_or_app; left; exact Hx|apply ale_refl].
    - (* ub_r *) intros [|xs] [|ys]; cbn; try reflexivity.
      apply cover_spec. intros y Hy.
      destruct (existsb (aeqb y) xs) eqn:E.
      + apply existsb_exists in E. destruct E as [x [Hx Hyx]]. apply aeqb_spec in Hyx. subst x.
        exists y. split; [apply in_or_app; left; exact Hx|apply ale_refl].
      + exists y. split; [|apply ale_refl]. apply in_or_app. right.
        apply filter_In. split; [exact Hy|]. rewrite E. reflexivity.
    - (* least *) intros [|zs] [|xs] [|ys] H1 H2; cbn in *; try reflexivity; try discriminate.
      rewrite cover_spec in *. intros y Hy. apply in_app_or in Hy. destruct Hy as [Hy|Hy].
      + apply H1, Hy.
      + apply filter_In in Hy. apply H2, Hy.
    - (* unite not any *) intros [|xs] [|ys] H1 H2; cbn in *; try discriminate. reflexivity.
    - reflexivity.
    - reflexivity.
    - (* veq *) intros [|xs] [|ys]; cbn; split; try discriminate; try reflexivity.
      + intros H. apply list_eqb_spec in H. congruence.
      + intros H. injection H as ->. apply list_eqb_spec. reflexivity.
  Qed.
End SimpleLaws.
