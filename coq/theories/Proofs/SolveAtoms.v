(* Proofs/SolveAtoms.v — the acceptance table dumped from the running
   implementation (Gen/SolveAtoms.v) is a preorder on the atoms, hence the
   concrete operations `atom_ops` satisfy every hypothesis of the C15
   theorems.  Re-checked on every run: if pyanalyze's can_assign stops being
   reflexive/transitive on these atoms, this file stops compiling. *)
From Coq Require Import List Bool Arith.
Import ListNotations.
Require Import PV.TypeVar.Base PV.TypeVar.Simple PV.TypeVar.Spec PV.Proofs.SimpleLaws.
Require Import PV.Gen.SolveAtoms.

Lemma all_atoms_complete : forall a, In a all_atoms.
Proof. intros a. destruct a; cbn; auto 40. Qed.

Lemma atom_eqb_spec : forall a b, atom_eqb a b = true <-> a = b.
Proof.
  intros a b. split.
  - destruct a, b; cbn; intros H; try reflexivity; discriminate H.
  - intros ->. unfold atom_eqb. apply Nat.eqb_refl.
Qed.

Definition table_refl_b : bool := forallb (fun a => atom_ale a a) all_atoms.
Definition table_trans_b : bool :=
  forallb (fun a => forallb (fun b => forallb (fun c =>
    implb (atom_ale a b && atom_ale b c) (atom_ale a c)) all_atoms) all_atoms) all_atoms.

Lemma table_refl_holds : table_refl_b = true.
Proof. vm_compute. reflexivity. Qed.

Lemma table_trans_holds : table_trans_b = true.
Proof. vm_compute. reflexivity. Qed.

Lemma atom_ale_refl : forall a, atom_ale a a = true.
Proof.
  intros a. pose proof table_refl_holds as H. unfold table_refl_b in H.
  rewrite forallb_forall in H. apply H, all_atoms_complete.
Qed.

Lemma atom_ale_trans : forall a b c, atom_ale a b = true -> atom_ale b c = true -> atom_ale a c = true.
Proof.
  intros a b c H1 H2. pose proof table_trans_holds as H. unfold table_trans_b in H.
  rewrite forallb_forall in H. specialize (H a (all_atoms_complete a)).
  rewrite forallb_forall in H. specialize (H b (all_atoms_complete b)).
  rewrite forallb_forall in H. specialize (H c (all_atoms_complete c)).
  rewrite H1, H2 in H. cbn in H. exact H.
Qed.

Theorem atom_laws : acc_laws atom_ops.
Proof. exact (simple_laws atom_ale atom_eqb atom_ale_refl atom_ale_trans atom_eqb_spec). Qed.
