(* Proofs/SolveCall.v — resolve_bounds_map's de-duplication, and the bounds of
   one type variable produced by a call whose parameters are annotated with the
   bare type variable (Model.call_solution): here the upper bounds are copies
   of the declared bound, so the guards of the solver theorems are met by
   construction and the property holds at full strength. *)
From Coq Require Import List Bool Arith Lia Permutation.
Import ListNotations.
Require Import PV.TypeVar.Base PV.TypeVar.Model PV.TypeVar.Spec.
Require Import PV.Proofs.SolveLaws PV.Proofs.SolveMain.

Section Dedup.
  Context {A : Type} (eqb : A -> A -> bool).
  Hypothesis eqb_spec : forall a b, eqb a b = true <-> a = b.

  Lemma existsb_eqb_in : forall x l, existsb (eqb x) l = true <-> In x l.
  Proof.
    intros x l. rewrite existsb_exists. split.
    - intros [y [Hy He]]. apply eqb_spec in He. subst. exact Hy.
    - intros H. exists x. split; [exact H|apply eqb_spec; reflexivity].
  Qed.

  Lemma dedup_acc_in : forall l seen x, In x (dedup_acc eqb seen l) <-> (In x l /\ ~ In x seen).
  Proof.
    induction l as [|y l IH]; intros seen x; cbn; [tauto|].
    destruct (existsb (eqb y) seen) eqn:E.
    - apply existsb_eqb_in in E. rewrite IH. split.
      + intros [H1 H2]. tauto.
      + intros [[->|H1] H2]; [contradiction|tauto].
    - assert (Hn : ~ In y seen) by (intros H; apply existsb_eqb_in in H; congruence).
      cbn [In]. rewrite IH. cbn [In].
      assert (Hd : y = x \/ y <> x).
      { destruct (eqb y x) eqn:Eyx; [left; apply eqb_spec; exact Eyx|right].
        intros He. apply eqb_spec in He. congruence. }
      destruct Hd as [He|He].
      + subst x. tauto.
      + tauto.
  Qed.

  Lemma dedup_in : forall l x, In x (dedup eqb l) <-> In x l.
  Proof. intros l x. unfold dedup. rewrite dedup_acc_in. cbn. tauto. Qed.

  Lemma dedup_acc_nodup : forall l seen, NoDup (dedup_acc eqb seen l).
  Proof.
    induction l as [|y l IH]; intros seen; cbn; [constructor|].
    destruct (existsb (eqb y) seen); [apply IH|].
    constructor; [|apply IH]. rewrite dedup_acc_in. cbn. tauto.
  Qed.

  Lemma dedup_nodup : forall l, NoDup (dedup eqb l).
  Proof. intros l. apply dedup_acc_nodup. Qed.

  Lemma dedup_perm : forall l l', Permutation l l' -> Permutation (dedup eqb l) (dedup eqb l').
  Proof.
    intros l l' P. apply NoDup_Permutation; try apply dedup_nodup.
    intros x. rewrite !dedup_in. split; apply Permutation_in; [exact P|apply Permutation_sym, P].
  Qed.
End Dedup.

Section Call.
  Context {V : Type} (O : ops V).
  Hypothesis L : acc_laws O.
  Context (limit : nat).

  Lemma list_eqb_veq_spec : forall xs ys, list_eqb (veq O) xs ys = true <-> xs = ys.
  Proof.
    induction xs as [|x xs IH]; intros [|y ys]; cbn; split; try discriminate; try reflexivity.
    - intros H. apply andb_prop in H. destruct H as [H1 H2].
      apply (veq_spec O L) in H1. apply IH in H2. congruence.
    - intros H. injection H as -> ->. apply andb_true_intro. split.
      + apply (veq_spec O L). reflexivity.
      + apply IH. reflexivity.
  Qed.

  Lemma bound_eqb_spec : forall a b, bound_eqb O a b = true <-> a = b.
  Proof.
    intros [x|x| |xs] [y|y| |ys]; cbn; split; try discriminate; try reflexivity.
    - intros H. apply (veq_spec O L) in H. congruence.
    - intros H. injection H as ->. apply (veq_spec O L). reflexivity.
    - intros H. apply (veq_spec O L) in H. congruence.
    - intros H. injection H as ->. apply (veq_spec O L). reflexivity.
    - intros H. apply list_eqb_veq_spec in H. congruence.
    - intros H. injection H as ->. apply list_eqb_veq_spec. reflexivity.
  Qed.

  Definition dd (bs : list (bound V)) := dedup (bound_eqb O) bs.

  Lemma dd_in : forall bs b, In b (dd bs) <-> In b bs.
  Proof. intros bs b. apply dedup_in. exact bound_eqb_spec. Qed.

  Lemma in_lowers' : forall (bs : list (bound V)) l, In (LowerBound l) bs <-> In l (lowers bs).
  Proof.
    intros bs l. unfold lowers. rewrite in_flat_map. split.
    - intros H. exists (LowerBound l). split; [exact H|left; reflexivity].
    - intros [b [Hb Hl]]. destruct b; cbn in Hl; try contradiction. destruct Hl as [<-|[]]. exact Hb.
  Qed.
  Lemma in_uppers' : forall (bs : list (bound V)) u, In (UpperBound u) bs <-> In u (uppers bs).
  Proof.
    intros bs u. unfold uppers. rewrite in_flat_map. split.
    - intros H. exists (UpperBound u). split; [exact H|left; reflexivity].
    - intros [b [Hb Hl]]. destruct b; cbn in Hl; try contradiction. destruct Hl as [<-|[]]. exact Hb.
  Qed.
  Lemma in_oneofs' : forall (bs : list (bound V)) cs, In (IsOneOf cs) bs <-> In cs (oneofs bs).
  Proof.
    intros bs cs. unfold oneofs. rewrite in_flat_map. split.
    - intros H. exists (IsOneOf cs). split; [exact H|left; reflexivity].
    - intros [b [Hb Hl]]. destruct b; cbn in Hl; try contradiction. destruct Hl as [<-|[]]. exact Hb.
  Qed.

  (* resolve_bounds_map (with its de-duplication): lower bounds, no guard *)
  Theorem mresolve_lower : forall bs v l,
    mresolve O limit bs = Sol v -> In (LowerBound l) bs -> acc O v l = true.
  Proof.
    intros bs v l Hs Hl. unfold mresolve in Hs.
    eapply msolve_lower; [exact L|exact Hs|]. apply (proj1 (in_lowers' _ _)). apply (proj2 (dd_in _ _)). exact Hl.
  Qed.

  (* order independence through the de-duplication *)
  Theorem mresolve_perm_verdict_partial : forall bs bs',
    Permutation bs bs' -> perm_guard O (dd bs) = true ->
    is_err (mresolve O limit bs) = is_err (mresolve O limit bs').
  Proof.
    intros bs bs' P Hg. unfold mresolve. apply msolve_perm_verdict_partial; [exact L| |exact Hg].
    apply dedup_perm; [exact bound_eqb_spec|exact P].
  Qed.

  (* ---- one call, parameters annotated with the bare type variable ---- *)
  Lemma call_bounds_in : forall (d : @decl V) args b, In b (flat_map (arg_bounds d) args) ->
    (exists a, In a args /\ b = LowerBound a) \/ (args <> [] /\ In b (inherent d)).
  Proof.
    intros d args b H. apply in_flat_map in H. destruct H as [a [Ha Hb]].
    unfold arg_bounds in Hb. destruct Hb as [<-|Hb].
    - left. exists a. split; [exact Ha|reflexivity].
    - right. split; [|exact Hb]. intros ->. destruct Ha.
  Qed.

  Lemma call_lower_in : forall (d : @decl V) args a, In a args -> In (LowerBound a) (flat_map (arg_bounds d) args).
  Proof. intros d args a Ha. apply in_flat_map. exists a. split; [exact Ha|left; reflexivity]. Qed.

  Lemma call_inherent_in : forall (d : @decl V) args b, args <> [] -> In b (inherent d) ->
    In b (flat_map (arg_bounds d) args).
  Proof.
    intros d [|a args] b Hne Hb; [contradiction|]. apply in_flat_map. exists a.
    split; [left; reflexivity|right; exact Hb].
  Qed.

  Lemma call_sol : forall d args v, call_solution O limit d args = Sol v ->
    mresolve O limit (flat_map (arg_bounds d) args) = Sol v.
  Proof.
    intros d args v. unfold call_solution. destruct (forallb _ args); [auto|discriminate].
  Qed.

  (* every argument is accepted by the value chosen *)
  Theorem call_solution_accepts_arguments : forall d args v a,
    call_solution O limit d args = Sol v -> In a args -> acc O v a = true.
  Proof.
    intros d args v a Hs Ha. apply call_sol in Hs.
    eapply mresolve_lower; [exact Hs|apply call_lower_in, Ha].
  Qed.

  (* the declared bound accepts the value chosen — no guard needed: all upper
     bounds are the declared bound *)
  Theorem call_solution_within_declared_bound : forall b args v,
    call_solution O limit (Bounded b) args = Sol v -> acc O b v = true.
  Proof.
    intros b args v Hs. apply call_sol in Hs.
    destruct (is_any O b) eqn:Eb; [apply (acc_any_l O L), Eb|].
    destruct args as [|a0 args'] eqn:Eargs.
    { cbn in Hs. injection Hs as <-. apply (acc_any_r O L), (any_generic_is_any O L). }
    rewrite <- Eargs in Hs. assert (Hne : args <> []) by (rewrite Eargs; discriminate).
    clear Eargs. unfold mresolve in Hs. fold (dd (flat_map (arg_bounds (Bounded b)) args)) in Hs.
    set (bs := flat_map (arg_bounds (Bounded b)) args) in *.
    assert (Hup : forall u, In u (uppers (dd bs)) -> u = b).
    { intros u Hu. apply (proj2 (in_uppers' _ _)) in Hu. apply (proj1 (dd_in _ _)) in Hu. apply call_bounds_in in Hu.
      destruct Hu as [[a [_ Ha]]|[_ Hi]]; [discriminate|]. cbn in Hi. destruct Hi as [Hi|[]]. congruence. }
    eapply msolve_upper_partial; [exact L|exact Hs| | |].
    - unfold uppers_ok. apply andb_true_intro. split; apply forallb_forall; intros u Hu.
      + rewrite (Hup u Hu), Eb. reflexivity.
      + apply forallb_forall. intros u' Hu'. rewrite (Hup u Hu), (Hup u' Hu').
        unfold comparable. rewrite (acc_refl O L). reflexivity.
    - destruct (oneofs (dd bs)) as [|cs r] eqn:Eo; [reflexivity|exfalso].
      assert (Hin : In cs (oneofs (dd bs))) by (rewrite Eo; left; reflexivity).
      apply (proj2 (in_oneofs' _ _)) in Hin. apply (proj1 (dd_in _ _)) in Hin. apply call_bounds_in in Hin.
      destruct Hin as [[a [_ Ha]]|[_ Hi]]; [discriminate|]. cbn in Hi. destruct Hi as [Hi|[]]. discriminate.
    - apply (proj1 (in_uppers' _ _)). apply (proj2 (dd_in _ _)). apply call_inherent_in; [exact Hne|left; reflexivity].
  Qed.

  (* with declared constraints, the value chosen is one of them (or Any) *)
  Theorem call_solution_is_a_constraint : forall cs args v,
    cs <> [] -> args <> [] ->
    call_solution O limit (Constrained cs) args = Sol v -> In v cs \/ is_any O v = true.
  Proof.
    intros cs args v Hcs Hne Hs. apply call_sol in Hs. unfold mresolve in Hs.
    set (bs := flat_map (arg_bounds (Constrained cs)) args) in *.
    fold (dd bs) in Hs.
    assert (Hone : forall cs', In cs' (oneofs (dd bs)) -> cs' = cs).
    { intros cs' Hc. apply (proj2 (in_oneofs' _ _)) in Hc. apply (proj1 (dd_in _ _)) in Hc. apply call_bounds_in in Hc.
      destruct Hc as [[a [_ Ha]]|[_ Hi]]; [discriminate|]. cbn in Hi.
      destruct cs; [contradiction|]. destruct Hi as [Hi|[]]. congruence. }
    destruct (last_oneof (dd bs)) as [cs'|] eqn:El.
    - assert (cs' = cs) by (apply Hone, last_oneof_in, El). subst cs'.
      eapply msolve_constraints; eassumption.
    - exfalso. apply last_oneof_none in El.
      assert (Hin : In cs (oneofs (dd bs))).
      { apply (proj1 (in_oneofs' _ _)). apply (proj2 (dd_in _ _)). apply call_inherent_in; [exact Hne|].
        cbn. destruct cs; [contradiction|left; reflexivity]. }
      rewrite El in Hin. destruct Hin.
  Qed.

  (* ---- one call with callbacks: parameters annotated T receive `args`, parameters annotated
     Callable[[T], ..] receive callbacks whose parameter types are `cbs`; T is unbounded or has a
     declared bound.  Guard: the callback parameter types and the declared bound are pairwise
     comparable and none is Any.  Then an accepted solution accepts every argument, is accepted
     by every callback's parameter type and by the declared bound. ---- *)
  Definition declared_upper (d : @decl V) : list V :=
    match d with Bounded b => [b] | _ => [] end.

  Definition callbacks_solution (d : @decl V) (args cbs : list V) : result V :=
    mresolve O limit (flat_map (arg_bounds d) args ++ flat_map (callback_bounds d) cbs).

  Lemma uppers_ok_incl : forall us us', (forall u, In u us' -> In u us) ->
    uppers_ok O us = true -> uppers_ok O us' = true.
  Proof.
    intros us us' Hi H. unfold uppers_ok in *. apply andb_prop in H. destruct H as [H1 H2].
    rewrite forallb_forall in H1, H2. apply andb_true_intro. split; apply forallb_forall.
    - intros u Hu. apply H1, Hi, Hu.
    - intros u Hu. apply forallb_forall. intros u' Hu'. specialize (H2 u (Hi u Hu)).
      rewrite forallb_forall in H2. apply H2, Hi, Hu'.
  Qed.

  Theorem callbacks_solution_sound_partial : forall d args cbs v,
    (forall cs, d <> Constrained cs) ->
    uppers_ok O (declared_upper d ++ cbs) = true ->
    callbacks_solution d args cbs = Sol v ->
    (forall a, In a args -> acc O v a = true) /\
    (forall p, In p cbs -> acc O p v = true) /\
    (forall b, d = Bounded b -> acc O b v = true).
  Proof.
    intros d args cbs v Hnc Hok Hs. unfold callbacks_solution, mresolve in Hs.
    set (bs := flat_map (arg_bounds d) args ++ flat_map (callback_bounds d) cbs) in *.
    fold (dd bs) in Hs.
    assert (Hinh : forall b0, In b0 (inherent d) -> exists b, d = Bounded b /\ b0 = UpperBound b).
    { intros b0 Hb. destruct d as [|b|cs]; cbn in Hb.
      - destruct Hb.
      - destruct Hb as [<-|[]]. eauto.
      - exfalso. apply (Hnc cs). reflexivity. }
    assert (Hin : forall b0, In b0 bs ->
              (exists a, In a args /\ b0 = LowerBound a) \/ (exists p, In p cbs /\ b0 = UpperBound p) \/
              (exists b, d = Bounded b /\ b0 = UpperBound b)).
    { intros b0 Hb. unfold bs in Hb. apply in_app_or in Hb. destruct Hb as [Hb|Hb].
      - apply in_flat_map in Hb. destruct Hb as [a [Ha Hb]]. destruct Hb as [<-|Hb]; [left; eauto|].
        right. right. apply Hinh, Hb.
      - apply in_flat_map in Hb. destruct Hb as [p [Hp Hb]]. destruct Hb as [<-|Hb]; [right; left; eauto|].
        right. right. apply Hinh, Hb. }
    assert (Hup : forall u, In u (uppers (dd bs)) -> In u (declared_upper d ++ cbs)).
    { intros u Hu. apply (proj2 (in_uppers' _ _)) in Hu. apply (proj1 (dd_in _ _)) in Hu.
      destruct (Hin _ Hu) as [[a [_ He]]|[[p [Hp He]]|[b [Hd He]]]]; [discriminate| |].
      - injection He as ->. apply in_or_app. right. exact Hp.
      - injection He as ->. subst d. apply in_or_app. left. left. reflexivity. }
    assert (Hok' : uppers_ok O (uppers (dd bs)) = true) by (eapply uppers_ok_incl; eassumption).
    assert (Hno : oneofs (dd bs) = []).
    { destruct (oneofs (dd bs)) as [|cs r] eqn:Eo; [reflexivity|exfalso].
      assert (Hc : In cs (oneofs (dd bs))) by (rewrite Eo; left; reflexivity).
      apply (proj2 (in_oneofs' _ _)) in Hc. apply (proj1 (dd_in _ _)) in Hc.
      destruct (Hin _ Hc) as [[a [_ He]]|[[p [_ He]]|[b [_ He]]]]; discriminate. }
    repeat split.
    - intros a Ha. eapply msolve_lower; [exact L|exact Hs|].
      apply (proj1 (in_lowers' _ _)). apply (proj2 (dd_in _ _)). unfold bs. apply in_or_app. left.
      apply in_flat_map. exists a. split; [exact Ha|left; reflexivity].
    - intros p Hp. eapply msolve_upper_partial; [exact L|exact Hs|exact Hok'|exact Hno|].
      apply (proj1 (in_uppers' _ _)). apply (proj2 (dd_in _ _)). unfold bs. apply in_or_app. right.
      apply in_flat_map. exists p. split; [exact Hp|left; reflexivity].
    - intros b ->. destruct args as [|a0 args'], cbs as [|p0 cbs'].
      + cbn in Hs. injection Hs as <-. apply (acc_any_r O L), (any_generic_is_any O L).
      + eapply msolve_upper_partial; [exact L|exact Hs|exact Hok'|exact Hno|].
        apply (proj1 (in_uppers' _ _)). apply (proj2 (dd_in _ _)). unfold bs. apply in_or_app. right.
        apply in_flat_map. exists p0. split; [left; reflexivity|right; left; reflexivity].
      + eapply msolve_upper_partial; [exact L|exact Hs|exact Hok'|exact Hno|].
        apply (proj1 (in_uppers' _ _)). apply (proj2 (dd_in _ _)). unfold bs. apply in_or_app. left.
        apply in_flat_map. exists a0. split; [left; reflexivity|right; left; reflexivity].
      + eapply msolve_upper_partial; [exact L|exact Hs|exact Hok'|exact Hno|].
        apply (proj1 (in_uppers' _ _)). apply (proj2 (dd_in _ _)). unfold bs. apply in_or_app. left.
        apply in_flat_map. exists a0. split; [left; reflexivity|right; left; reflexivity].
  Qed.
End Call.
