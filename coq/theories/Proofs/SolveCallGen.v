(* Proofs/SolveCallGen.v — resolve-level theorems transferred to the generated `resolve`. *)
From Coq Require Import List Bool Arith Permutation.
Import ListNotations.
Require Import PV.TypeVar.Base PV.TypeVar.Model PV.TypeVar.Spec.
Require Import PV.Proofs.SolveGen PV.Proofs.SolveCall PV.Gen.Solve.

Section G.
  Context {V : Type} (O : ops V).
  Hypothesis L : acc_laws O.

  Theorem gen_resolve_lower : forall bs v l,
    resolve O bs = Sol v -> In (LowerBound l) bs -> acc O v l = true.
  Proof.
    intros bs v l Hs Hl. rewrite resolve_is_model in Hs. eapply mresolve_lower; eassumption.
  Qed.

  Theorem gen_resolve_perm_verdict_partial : forall bs bs',
    Permutation bs bs' -> perm_guard O (dedup (bound_eqb O) bs) = true ->
    is_err (resolve O bs) = is_err (resolve O bs').
  Proof.
    intros bs bs' P Hg. rewrite !resolve_is_model. apply mresolve_perm_verdict_partial; assumption.
  Qed.
End G.
