(* Proofs/SolveCore.v — acc_laws discharged for the MODELLED IMPLEMENTATION RELATION: the merged Core
   model of Value.can_assign (Core/CanAssign.v, can_assign_f over the class table dumped from the
   implementation) on the simple fragment of C04:

     Any;  unions (of any length, also empty = Never and singletons) of atoms;
     atoms = the nominally compared classes of the generated class table whose own tassign is
             reflexive (`good_classes`), and the scalar literals None / bool / int / float /
             complex / str / bytes / IntEnum members / plain instances / class objects.

   `catom` names these atoms with a decidable equality; `emb` / `embed` map them into Core values.
   The C15 operations over them (`core_ops`) satisfy every law (`core_laws`), and their acceptance
   IS can_assign_f with at least 3 units of fuel (`core_acc_is_can_assign`), so the C15 theorems
   hold for Core's can_assign on this fragment. *)
From Coq Require Import ZArith List Bool NArith Arith.
Import ListNotations.
Require Import PV.Core.Obj PV.Core.Val PV.Core.Cls PV.Core.CanAssign.
Require Import PV.Proofs.C04Simple PV.Proofs.C04Witness PV.Gen.ClassTable.
Require Import PV.TypeVar.Base PV.TypeVar.Simple PV.TypeVar.Spec PV.Proofs.SimpleLaws.

Definition good_class (c : N) : bool := negb (protocol_like c) && tassign table c c.
Definition good_classes : list N := Eval vm_compute in filter good_class classes.

Inductive catom : Type :=
| CTyped (i : nat)                 (* the i-th good class (object beyond the end of the list) *)
| CNone | CBool (b : bool) | CInt (z : Z) | CFloat (h : Z) | CComplex (re im : Z)
| CStr (s : list N) | CBytes (s : list N) | CIntInst (c : N) (z : Z) | CInst (c k : N) | CClass (c : N).

Definition cls_of (i : nat) : N := nth i good_classes c_object.

Definition emb (a : catom) : val :=
  match a with
  | CTyped i => VLeaf (LTyped (cls_of i) false)
  | CNone => VLeaf (LKnown ONone)
  | CBool b => VLeaf (LKnown (OBool b))
  | CInt z => VLeaf (LKnown (OInt z))
  | CFloat h => VLeaf (LKnown (OFloat h))
  | CComplex re im => VLeaf (LKnown (OComplex re im))
  | CStr s => VLeaf (LKnown (OStr s))
  | CBytes s => VLeaf (LKnown (OBytes s))
  | CIntInst c z => VLeaf (LKnown (OIntInst c z))
  | CInst c k => VLeaf (LKnown (OInst c k))
  | CClass c => VLeaf (LKnown (OClass c))
  end.

Lemma catom_eq_dec : forall a b : catom, {a = b} + {a <> b}.
Proof.
  decide equality; try apply Z.eq_dec; try apply N.eq_dec; try apply Nat.eq_dec; try apply Bool.bool_dec;
    apply (list_eq_dec N.eq_dec).
Defined.

Definition catom_eqb (a b : catom) : bool := if catom_eq_dec a b then true else false.

Lemma catom_eqb_spec : forall a b, catom_eqb a b = true <-> a = b.
Proof. intros a b. unfold catom_eqb. destruct (catom_eq_dec a b); split; congruence. Qed.

Definition core_ale (a b : catom) : bool := atom_acc table (emb a) (emb b).

Lemma object_good : good_class c_object = true.
Proof. vm_compute. reflexivity. Qed.

Lemma good_classes_good : forallb good_class good_classes = true.
Proof. vm_compute. reflexivity. Qed.

Lemma cls_of_good : forall i, good_class (cls_of i) = true.
Proof.
  intros i. unfold cls_of. destruct (nth_in_or_default i good_classes c_object) as [H|H].
  - pose proof good_classes_good as G. rewrite forallb_forall in G. apply G, H.
  - rewrite H. apply object_good.
Qed.

Global Opaque cls_of.

Lemma emb_atom : forall a, is_atom (emb a) = true.
Proof.
  intros a. destruct a as [i| | | | | | | | | | ]; try reflexivity.
  change (negb (protocol_like (cls_of i)) = true).
  pose proof (cls_of_good i) as H. unfold good_class in H. apply andb_prop in H. apply H.
Qed.

Lemma emb_ok : forall a, atom_ok table (emb a) = true.
Proof.
  intros a. destruct a as [i| | | | | | | | | | ]; try reflexivity.
  change (tassign table (cls_of i) (cls_of i) = true).
  pose proof (cls_of_good i) as H. unfold good_class in H. apply andb_prop in H. apply H.
Qed.

Lemma core_ale_refl : forall a, core_ale a a = true.
Proof. intros a. apply atom_acc_refl; [apply emb_atom|apply emb_ok]. Qed.

Lemma core_ale_trans : forall a b c, core_ale a b = true -> core_ale b c = true -> core_ale a c = true.
Proof.
  intros a b c. apply (atom_acc_trans table table_tassign_transitive table_nominal_upward); apply emb_atom.
Qed.

Definition core_ops : ops (@sval catom) := simple_ops core_ale catom_eqb.

Theorem core_laws : acc_laws core_ops.
Proof. exact (simple_laws core_ale catom_eqb core_ale_refl core_ale_trans catom_eqb_spec). Qed.

(* the Core value a C15 value stands for *)
Definition embed (v : @sval catom) : val :=
  match v with
  | SAny => VLeaf (LAny 0%N)
  | SU xs => VUnion (map emb xs)
  end.

Lemma embed_simple : forall v, simple (embed v) = true.
Proof.
  intros [|xs]; [reflexivity|]. change (forallb is_atom (map emb xs) = true). apply forallb_forall. intros x Hx.
  apply in_map_iff in Hx. destruct Hx as [a [<- _]]. apply emb_atom.
Qed.

Lemma forallb_map' : forall {A B} (f : A -> B) (p : B -> bool) l, forallb p (map f l) = forallb (fun x => p (f x)) l.
Proof. intros A B f p l. induction l as [|x l IH]; cbn; [reflexivity|]. rewrite IH. reflexivity. Qed.
Lemma existsb_map' : forall {A B} (f : A -> B) (p : B -> bool) l, existsb p (map f l) = existsb (fun x => p (f x)) l.
Proof. intros A B f p l. induction l as [|x l IH]; cbn; [reflexivity|]. rewrite IH. reflexivity. Qed.

Lemma forallb_ext' : forall {A} (f g : A -> bool) l, (forall x, f x = g x) -> forallb f l = forallb g l.
Proof. intros A f g l H. induction l as [|x l IH]; cbn; [reflexivity|]. rewrite H, IH. reflexivity. Qed.

Lemma acc_simple_embed : forall a b, acc_simple table (embed a) (embed b) = acc core_ops a b.
Proof.
  intros [|xs] [|ys]; try reflexivity.
  change (forallb (fun b => existsb (fun a => atom_acc table a b) (map emb xs)) (map emb ys)
          = forallb (fun y => existsb (fun x => core_ale x y) xs) ys).
  rewrite forallb_map'. apply forallb_ext'. intros y. rewrite existsb_map'. reflexivity.
Qed.

(* acceptance of core_ops IS Core's can_assign (normal mode, >= 3 units of fuel) *)
Theorem core_acc_is_can_assign : forall n a b,
  can_assign_f table (S (S (S n))) false (embed a) (embed b) = acc core_ops a b.
Proof.
  intros n a b. rewrite (simple_closed_form table n _ _ (embed_simple a) (embed_simple b)).
  apply acc_simple_embed.
Qed.

(* ---- the C15 theorems for Core's can_assign on the simple fragment ---- *)
Require Import PV.Proofs.SolveGenMain PV.Gen.Solve.
From Coq Require Import Permutation.

Theorem core_solution_accepts_every_lower_bound : forall bs v l n,
  solve core_ops bs = Sol v -> In (LowerBound l) bs ->
  can_assign_f table (S (S (S n))) false (embed v) (embed l) = true.
Proof.
  intros bs v l n Hs Hl. rewrite core_acc_is_can_assign. exact (gen_lower core_ops core_laws bs v l Hs Hl).
Qed.

Theorem core_upper_bounds_accept_solution_partial : forall bs v u n,
  solve core_ops bs = Sol v -> uppers_ok core_ops (uppers bs) = true -> oneofs bs = [] ->
  In (UpperBound u) bs ->
  can_assign_f table (S (S (S n))) false (embed u) (embed v) = true.
Proof.
  intros bs v u n Hs Hok Hno Hu. rewrite core_acc_is_can_assign.
  exact (gen_upper_partial core_ops core_laws bs v u Hs Hok Hno Hu).
Qed.

Theorem core_verdict_order_independent_partial : forall bs bs',
  Permutation bs bs' -> perm_guard core_ops bs = true ->
  is_err (solve core_ops bs) = is_err (solve core_ops bs').
Proof. exact (gen_perm_verdict_partial core_ops core_laws). Qed.
