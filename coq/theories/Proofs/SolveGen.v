(* Proofs/SolveGen.v — the model regenerated from pyanalyze/typevar.py
   (Gen/Solve.v) computes the hand-written reference model (TypeVar/Model.v). *)
From Coq Require Import List Bool Arith.
Import ListNotations.
Require Import PV.TypeVar.Base PV.TypeVar.Model PV.Gen.Solve.

Section GenIsModel.
  Context {V : Type} (O : ops V).

  Lemma loop_body_eq : forall st b, loop_body O st b = mstep O st b.
  Proof.
    intros [[bo to] op] b.
    destruct b as [v|v| |cs]; cbn.
    - destruct bo as [b0|]; cbn; [|reflexivity].
      destruct (is_any O v); [reflexivity|].
      destruct (acc O v b0); [reflexivity|].
      destruct (acc O b0 v); reflexivity.
    - destruct to as [t0|]; cbn; [|reflexivity].
      destruct (acc O t0 v); [reflexivity|].
      destruct (acc O v t0); reflexivity.
    - reflexivity.
    - reflexivity.
  Qed.

  Lemma fold_eq : forall bs st, fold_left (loop_body O) bs st = fold_left (mstep O) bs st.
  Proof.
    induction bs as [|b bs IH]; intros st; cbn; [reflexivity|].
    rewrite loop_body_eq. apply IH.
  Qed.

  Lemma filter_combine_map : forall (f : V -> bool) os,
    map (fun '(o, c) => o)
        (filter (fun '(o, c) => negb (negb c)) (combine os (map f os)))
    = filter f os.
  Proof.
    intros f os. induction os as [|o os IH]; cbn; [reflexivity|].
    destruct (f o); cbn; rewrite IH; reflexivity.
  Qed.

  Lemma forallb_negb_map : forall (f : V -> bool) os,
    forallb negb (map f os) = match filter f os with [] => true | _ => false end.
  Proof.
    intros f os. induction os as [|o os IH]; cbn; [reflexivity|].
    destruct (f o); cbn; [reflexivity|]. exact IH.
  Qed.

  Lemma rrs_eq : forall l, remove_redundant_solutions O l = m_rrs O rrs_limit l.
  Proof. reflexivity. Qed.

  (* the constraint-selection tail that the translator emits after every way
     of computing `solution` *)
  Lemma tail_eq : forall os s,
    (let can_assigns := map (fun option => acc O option s) os in
     if forallb negb can_assigns then Err
     else let available := map (fun '(option, can_assign) => option)
                             (filter (fun '(option, can_assign) => negb (negb can_assign))
                                     (combine os can_assigns)) in
          match available with
          | [only] => Sol only
          | _ => if is_any O s then Sol s
                 else let available := remove_redundant_solutions O available in
                      match available with
                      | [only] => Sol only
                      | _ => Sol (any_inference O)
                      end
          end)
    = pick O rrs_limit os s.
  Proof.
    intros os s. cbv zeta.
    rewrite forallb_negb_map, filter_combine_map. unfold pick.
    destruct (filter (fun o => acc O o s) os) as [|o1 [|o2 rest]]; try reflexivity.
  Qed.

  Lemma finish_eq : forall st, finish O st = mfinish O rrs_limit st.
  Proof.
    intros [[bo to] op]. unfold finish, mfinish, base_solution.
    destruct bo as [b|], to as [t|]; cbv zeta.
    - destruct (acc O t b); cbn [negb]; [|reflexivity].
      destruct op as [os|]; [|reflexivity]. apply tail_eq.
    - destruct op as [os|]; [|reflexivity]. apply tail_eq.
    - destruct op as [os|]; [|reflexivity]. apply tail_eq.
    - destruct op as [os|]; [|reflexivity]. apply tail_eq.
  Qed.

  Theorem solve_is_model : forall bs, solve O bs = msolve O rrs_limit bs.
  Proof.
    intros bs. unfold solve, msolve, mfold. rewrite fold_eq. apply finish_eq.
  Qed.

  Theorem resolve_is_model : forall bs, resolve O bs = mresolve O rrs_limit bs.
  Proof. intros bs. unfold resolve, mresolve. apply solve_is_model. Qed.
End GenIsModel.
