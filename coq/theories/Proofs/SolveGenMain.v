(* Proofs/SolveGenMain.v — the C15 theorems transferred from the reference
   model to the model generated from pyanalyze/typevar.py, phrased over the
   bounds themselves; concrete refutations of the unguarded statements. *)
From Coq Require Import List Bool Arith Lia Permutation.
Import ListNotations.
Require Import PV.TypeVar.Base PV.TypeVar.Model PV.TypeVar.Spec PV.TypeVar.Simple.
Require Import PV.Proofs.SolveLaws PV.Proofs.SolveMain PV.Proofs.SolveGen PV.Proofs.SolveAtoms.
Require Import PV.Gen.Solve PV.Gen.SolveAtoms.

Section Transfer.
  Context {V : Type} (O : ops V).

  Lemma in_lowers : forall (bs : list (bound V)) l, In (LowerBound l) bs <-> In l (lowers bs).
  Proof.
    intros bs l. unfold lowers. rewrite in_flat_map. split.
    - intros H. exists (LowerBound l). split; [exact H|left; reflexivity].
    - intros [b [Hb Hl]]. destruct b; cbn in Hl; try contradiction.
      destruct Hl as [<-|[]]. exact Hb.
  Qed.

  Lemma in_uppers : forall (bs : list (bound V)) u, In (UpperBound u) bs <-> In u (uppers bs).
  Proof.
    intros bs u. unfold uppers. rewrite in_flat_map. split.
    - intros H. exists (UpperBound u). split; [exact H|left; reflexivity].
    - intros [b [Hb Hl]]. destruct b; cbn in Hl; try contradiction.
      destruct Hl as [<-|[]]. exact Hb.
  Qed.

  Hypothesis L : acc_laws O.

  Theorem gen_lower : forall bs v l,
    solve O bs = Sol v -> In (LowerBound l) bs -> acc O v l = true.
  Proof.
    intros bs v l Hs Hl. rewrite solve_is_model in Hs.
    eapply msolve_lower; [exact L|exact Hs|apply in_lowers, Hl].
  Qed.

  Theorem gen_upper_partial : forall bs v u,
    solve O bs = Sol v -> uppers_ok O (uppers bs) = true -> oneofs bs = [] ->
    In (UpperBound u) bs -> acc O u v = true.
  Proof.
    intros bs v u Hs Hok Hno Hu. rewrite solve_is_model in Hs.
    eapply msolve_upper_partial; [exact L|exact Hs|exact Hok|exact Hno|apply in_uppers, Hu].
  Qed.

  Theorem gen_constraints : forall bs v cs,
    solve O bs = Sol v -> last_oneof bs = Some cs -> In v cs \/ is_any O v = true.
  Proof.
    intros bs v cs Hs Hc. rewrite solve_is_model in Hs.
    eapply msolve_constraints; eassumption.
  Qed.

  Theorem gen_constraints_any_only_when : forall bs v cs,
    solve O bs = Sol v -> last_oneof bs = Some cs -> ~ In v cs ->
    exists s, base_solution O (fold_left (add_lower O) (lowers bs) None)
                              (fold_left (add_upper O) (uppers bs) None) = Sol s /\
              (is_any O s = true \/ 2 <= length (filter (fun o => acc O o s) cs)).
  Proof.
    intros bs v cs Hs Hc Hn. rewrite solve_is_model in Hs.
    eapply msolve_constraints_any_only_when; eassumption.
  Qed.

  Theorem gen_sound_partial : forall bs v,
    solve O bs = Sol v -> sound_guard O bs = true -> satisfies O v bs.
  Proof.
    intros bs v Hs Hg. rewrite solve_is_model in Hs. eapply msolve_sound_partial; eassumption.
  Qed.

  Theorem gen_unsat_is_error_partial : forall bs,
    (forall v, ~ satisfies O v bs) -> sound_guard O bs = true -> solve O bs = Err.
  Proof.
    intros bs Hu Hg. rewrite solve_is_model. eapply msolve_unsat_is_error_partial; eassumption.
  Qed.

  Theorem gen_error_means_unsat_partial : forall bs v,
    solve O bs = Err -> sound_guard O bs = true -> is_any O v = false -> ~ satisfies O v bs.
  Proof.
    intros bs v He Hg Hv. rewrite solve_is_model in He.
    eapply msolve_error_means_unsat_partial; eassumption.
  Qed.

  Theorem gen_perm_verdict_partial : forall bs bs',
    Permutation bs bs' -> perm_guard O bs = true ->
    is_err (solve O bs) = is_err (solve O bs').
  Proof.
    intros bs bs' P Hg. rewrite !solve_is_model. apply msolve_perm_verdict_partial; assumption.
  Qed.
End Transfer.

(* ---- the unguarded statements, on the concrete atoms, and their refutations ---- *)
Notation aint := (SU [A_int]).
Notation astr := (SU [A_str]).
Notation afloat := (SU [A_float]).
Notation abool := (SU [A_bool]).
Notation alit1 := (SU [A_lit1]).

Definition upper_full_statement : Prop :=
  forall bs v u, solve atom_ops bs = Sol v -> In (UpperBound u) bs -> acc atom_ops u v = true.

Definition perm_full_statement : Prop :=
  forall bs bs', Permutation bs bs' -> is_err (solve atom_ops bs) = is_err (solve atom_ops bs').

Definition error_means_unsat_full_statement : Prop :=
  forall bs v, solve atom_ops bs = Err -> is_any atom_ops v = false -> ~ satisfies atom_ops v bs.

(* known finding C15-incomparable-uppers-united *)
Definition w_incomparable : list (bound (@sval atom)) :=
  [UpperBound aint; UpperBound astr; LowerBound alit1].

Lemma upper_refuted_incomparable :
  solve atom_ops w_incomparable = Sol alit1 /\ In (UpperBound astr) w_incomparable /\
  acc atom_ops astr alit1 = false /\
  forallb (fun a => negb (is_any atom_ops a)) (uppers w_incomparable) = true /\
  uppers_ok atom_ops (uppers w_incomparable) = false.
Proof. vm_compute. repeat split; auto. Qed.

(* known finding C15-any-upper-erases-uppers *)
Definition w_any_upper : list (bound (@sval atom)) :=
  [UpperBound aint; UpperBound SAny; LowerBound astr].
Definition w_any_upper' : list (bound (@sval atom)) :=
  [UpperBound SAny; UpperBound aint; LowerBound astr].

Lemma upper_refuted_any_upper :
  solve atom_ops w_any_upper = Sol astr /\ In (UpperBound aint) w_any_upper /\
  acc atom_ops aint astr = false /\
  forallb (fun a => negb (is_any atom_ops a)) (uppers w_any_upper) = false.
Proof. vm_compute. repeat split; auto. Qed.

(* known finding C15-constraint-not-checked-against-uppers *)
Definition w_constraint : list (bound (@sval atom)) :=
  [LowerBound alit1; UpperBound aint; IsOneOf [afloat; astr]].

Lemma upper_refuted_constraint :
  solve atom_ops w_constraint = Sol afloat /\ In (UpperBound aint) w_constraint /\
  acc atom_ops aint afloat = false /\
  uppers_ok atom_ops (uppers w_constraint) = true /\ oneofs w_constraint <> [].
Proof. vm_compute. repeat split; auto. discriminate. Qed.

Theorem upper_full_statement_refuted : ~ upper_full_statement.
Proof.
  intros H. destruct upper_refuted_incomparable as (Hs & Hin & Hacc & _).
  specialize (H _ _ _ Hs Hin). congruence.
Qed.

Theorem perm_full_statement_refuted : ~ perm_full_statement.
Proof.
  intros H. specialize (H w_any_upper w_any_upper').
  assert (P : Permutation w_any_upper w_any_upper') by (apply perm_swap).
  specialize (H P). vm_compute in H. discriminate H.
Qed.

Definition w_err_sat : list (bound (@sval atom)) := [UpperBound aint; IsOneOf [abool; astr]].

Theorem error_means_unsat_full_statement_refuted : ~ error_means_unsat_full_statement.
Proof.
  intros H. apply (H w_err_sat abool); [reflexivity|reflexivity|].
  repeat split.
  - intros l [].
  - intros u [<-|[]]. reflexivity.
  - intros cs [<-|[]]. left. left. reflexivity.
Qed.

(* order dependence also arises from incomparable upper bounds without any Any:
   a united top can later be replaced by a narrower bound *)
Definition w_inc_order : list (bound (@sval atom)) :=
  [UpperBound (SU [A_litNone]); UpperBound (SU [A_lita; A_float; A_lit1]); UpperBound (SU [A_bool]); LowerBound (SU [A_lit1_5])].
Definition w_inc_order' : list (bound (@sval atom)) :=
  [UpperBound (SU [A_litNone]); UpperBound (SU [A_bool]); UpperBound (SU [A_lita; A_float; A_lit1]); LowerBound (SU [A_lit1_5])].

Lemma perm_refuted_incomparable :
  Permutation w_inc_order w_inc_order' /\
  is_err (solve atom_ops w_inc_order) = true /\ is_err (solve atom_ops w_inc_order') = false /\
  forallb (fun a => negb (is_any atom_ops a)) (uppers w_inc_order) = true /\
  uppers_ok atom_ops (uppers w_inc_order) = false.
Proof.
  split; [apply perm_skip, perm_swap|]. vm_compute. repeat split.
Qed.
