(* Proofs/SolveLaws.v — the hypotheses about the abstract value operations
   under which the C15 theorems are proved, and the invariants of the two
   folds of `solve` (lower bounds -> bottom, upper bounds -> top). *)
From Coq Require Import List Bool Arith Lia Permutation.
Import ListNotations.
Require Import PV.TypeVar.Base PV.TypeVar.Model PV.TypeVar.Spec.

Section Folds.
  Context {V : Type} (O : ops V).


  Lemma mfold_gen : forall bs bo to op,
    fold_left (mstep O) bs (bo, to, op) =
    (fold_left (add_lower O) (lowers bs) bo,
     fold_left (add_upper O) (uppers bs) to,
     fold_left (fun _ cs => Some cs) (oneofs bs) op).
  Proof.
    induction bs as [|b bs IH]; intros bo to op; cbn; [reflexivity|].
    destruct b as [v|v| |cs]; cbn; rewrite IH; reflexivity.
  Qed.

  Lemma mfold_components : forall bs,
    mfold O bs = (fold_left (add_lower O) (lowers bs) None,
                  fold_left (add_upper O) (uppers bs) None,
                  last_oneof bs).
  Proof. intros bs. unfold mfold. apply mfold_gen. Qed.

  Lemma last_oneof_in : forall (bs : list (bound V)) cs, last_oneof bs = Some cs -> In cs (oneofs bs).
  Proof.
    intros bs cs. unfold last_oneof.
    induction (oneofs bs) as [|c l IH] using rev_ind; cbn; [discriminate|].
    rewrite fold_left_app. cbn. intros H. injection H as <-. apply in_or_app. right. left. reflexivity.
  Qed.

  Lemma last_oneof_none : forall (bs : list (bound V)), last_oneof bs = None <-> oneofs bs = [].
  Proof.
    intros bs. unfold last_oneof.
    destruct (oneofs bs) as [|c l] using rev_ind; cbn; [tauto|].
    rewrite fold_left_app. cbn. split; [discriminate|].
    intros H. destruct l; discriminate.
  Qed.

  Hypothesis L : acc_laws O.

  (* ---- lower bounds ---- *)
  Definition lower_inv (ls : list V) (b : V) : Prop :=
    (forall l, In l ls -> acc O b l = true) /\
    (is_any O b = true -> forall l, In l ls -> is_any O l = true) /\
    ((forall l, In l ls -> is_any O l = true) -> is_any O b = true) /\
    (forall x, (forall l, In l ls -> is_any O l = false -> acc O x l = true) -> acc O x b = true).

  Lemma lower_fold_inv : forall ls,
    match fold_left (add_lower O) ls None with
    | None => ls = []
    | Some b => ls <> [] /\ lower_inv ls b
    end.
  Proof.
    induction ls as [|v ls IH] using rev_ind; [reflexivity|].
    rewrite fold_left_app. cbn [fold_left].
    destruct (fold_left (add_lower O) ls None) as [b|]; cbn [add_lower].
    2:{ subst ls. cbn. split; [discriminate|]. unfold lower_inv. repeat split.
        - intros l [<-|[]]. apply (acc_refl O L).
        - intros Hv l [<-|[]]. exact Hv.
        - intros H. apply H. left. reflexivity.
        - intros x H. destruct (is_any O v) eqn:Ev.
          + apply (acc_any_r O L). exact Ev.
          + apply H; [left; reflexivity|exact Ev]. }
    destruct IH as [_ (Hub & Hany & Hall & Hleast)].
    assert (Hne : ls ++ [v] <> []) by (destruct ls; discriminate).
    destruct (is_any O v) eqn:Ev.
    { split; [exact Hne|]. unfold lower_inv. repeat split.
      - intros l Hl. apply in_app_or in Hl. destruct Hl as [Hl|[<-|[]]].
        + apply Hub, Hl.
        + apply (acc_any_r O L), Ev.
      - intros Hb l Hl. apply in_app_or in Hl. destruct Hl as [Hl|[<-|[]]].
        + apply Hany; assumption.
        + exact Ev.
      - intros H. apply Hall. intros l Hl. apply H. apply in_or_app. left. exact Hl.
      - intros x H. apply Hleast. intros l Hl. apply H. apply in_or_app. left. exact Hl. }
    destruct (acc O v b) eqn:Evb.
    { split; [exact Hne|]. unfold lower_inv. repeat split.
      - intros l Hl. apply in_app_or in Hl. destruct Hl as [Hl|[<-|[]]].
        + destruct (is_any O b) eqn:Eb.
          * apply (acc_any_r O L). apply Hany; [reflexivity|exact Hl].
          * apply (acc_trans O L) with (b := b); [exact Eb|exact Evb|apply Hub, Hl].
        + apply (acc_refl O L).
      - intros Hb. rewrite Hb in Ev. discriminate.
      - intros H. apply H. apply in_or_app. right. left. reflexivity.
      - intros x H. apply H; [apply in_or_app; right; left; reflexivity|exact Ev]. }
    assert (Eb : is_any O b = false).
    { destruct (is_any O b) eqn:Eb; [|reflexivity].
      rewrite (acc_any_r O L v b Eb) in Evb. discriminate. }
    destruct (acc O b v) eqn:Ebv.
    { split; [exact Hne|]. unfold lower_inv. repeat split.
      - intros l Hl. apply in_app_or in Hl. destruct Hl as [Hl|[<-|[]]].
        + apply Hub, Hl.
        + exact Ebv.
      - intros Hb. rewrite Hb in Eb. discriminate.
      - intros H. specialize (H v). rewrite H in Ev; [discriminate|].
        apply in_or_app. right. left. reflexivity.
      - intros x H. apply Hleast. intros l Hl. apply H. apply in_or_app. left. exact Hl. }
    split; [exact Hne|]. unfold lower_inv. repeat split.
    - intros l Hl. apply in_app_or in Hl. destruct Hl as [Hl|[<-|[]]].
      + apply (acc_trans O L) with (b := b); [exact Eb|apply (unite_ub_l O L)|apply Hub, Hl].
      + apply (unite_ub_r O L).
    - intros Hu. rewrite (unite_not_any O L b v Eb Ev) in Hu. discriminate.
    - intros H. specialize (H v). rewrite H in Ev; [discriminate|].
      apply in_or_app. right. left. reflexivity.
    - intros x H. apply (unite_least O L).
      + apply Hleast. intros l Hl. apply H. apply in_or_app. left. exact Hl.
      + apply H; [apply in_or_app; right; left; reflexivity|exact Ev].
  Qed.

  (* ---- upper bounds ---- *)


  Lemma uppers_ok_spec : forall us, uppers_ok O us = true ->
    (forall a, In a us -> is_any O a = false) /\
    (forall a b, In a us -> In b us -> acc O a b = true \/ acc O b a = true).
  Proof.
    intros us H. unfold uppers_ok in H. apply andb_prop in H. destruct H as [H1 H2].
    rewrite forallb_forall in H1, H2. split.
    - intros a Ha. specialize (H1 a Ha). destruct (is_any O a); [discriminate|reflexivity].
    - intros a b Ha Hb. specialize (H2 a Ha). rewrite forallb_forall in H2.
      specialize (H2 b Hb). unfold comparable in H2. apply orb_prop in H2. exact H2.
  Qed.

  Definition upper_inv (us : list V) (t : V) : Prop :=
    In t us /\ forall u, In u us -> acc O u t = true.

  Lemma upper_fold_inv : forall us,
    (forall a, In a us -> is_any O a = false) ->
    (forall a b, In a us -> In b us -> acc O a b = true \/ acc O b a = true) ->
    match fold_left (add_upper O) us None with
    | None => us = []
    | Some t => upper_inv us t
    end.
  Proof.
    induction us as [|v us IH] using rev_ind; intros Hna Hcmp; [reflexivity|].
    rewrite fold_left_app. cbn [fold_left].
    assert (IH' := IH (fun a Ha => Hna a (in_or_app _ _ _ (or_introl Ha)))
                      (fun a b Ha Hb => Hcmp a b (in_or_app _ _ _ (or_introl Ha)) (in_or_app _ _ _ (or_introl Hb)))).
    clear IH.
    assert (Hv : In v (us ++ [v])) by (apply in_or_app; right; left; reflexivity).
    destruct (fold_left (add_upper O) us None) as [t|]; cbn [add_upper].
    2:{ subst us. cbn. split; [left; reflexivity|]. intros u [<-|[]]. apply (acc_refl O L). }
    destruct IH' as [Ht Hlb].
    assert (Htin : In t (us ++ [v])) by (apply in_or_app; left; exact Ht).
    destruct (acc O t v) eqn:Etv.
    { split; [exact Hv|]. intros u Hu. apply in_app_or in Hu. destruct Hu as [Hu|[<-|[]]].
      - apply (acc_trans O L) with (b := t); [apply Hna, Htin|apply Hlb, Hu|exact Etv].
      - apply (acc_refl O L). }
    destruct (acc O v t) eqn:Evt.
    { split; [exact Htin|]. intros u Hu. apply in_app_or in Hu. destruct Hu as [Hu|[<-|[]]].
      - apply Hlb, Hu.
      - exact Evt. }
    exfalso. destruct (Hcmp t v Htin Hv) as [H|H]; congruence.
  Qed.

  (* ---- constraint selection ---- *)
  Lemma set_nth_length : forall {A} i (x : A) l, length (set_nth i x l) = length l.
  Proof.
    intros A i x l. revert i. induction l as [|y l IH]; intros [|i]; cbn; try reflexivity.
    rewrite IH. reflexivity.
  Qed.

  Lemma cat_somes_in : forall {A} (l : list (option A)) x, In x (cat_somes l) <-> In (Some x) l.
  Proof.
    intros A l x. induction l as [|[y|] l IH]; cbn; [tauto| |].
    - rewrite IH. split; intros [H|H]; auto; left; congruence.
    - rewrite IH. split; [auto|]. intros [H|H]; [discriminate|exact H].
  Qed.

  Lemma set_nth_none_in : forall {A} i (l : list (option A)) x,
    In (Some x) (set_nth i None l) -> In (Some x) l.
  Proof.
    intros A i l x. revert i. induction l as [|y l IH]; intros [|i]; cbn; auto.
    - intros [H|H]; [discriminate|auto].
    - intros [H|H]; [auto|right; eapply IH; exact H].
  Qed.

  Lemma m_rrs_step_in : forall temp i x, In (Some x) (m_rrs_step O temp i) -> In (Some x) temp.
  Proof.
    intros temp i x. unfold m_rrs_step.
    destruct (nth_error temp i) as [[sol|]|]; auto.
    destruct (m_rrs_hit O i sol temp); auto. apply set_nth_none_in.
  Qed.

  Lemma m_rrs_fold_in : forall is temp x,
    In (Some x) (fold_left (m_rrs_step O) is temp) -> In (Some x) temp.
  Proof.
    induction is as [|i is IH]; intros temp x; cbn; [auto|].
    intros H. apply IH in H. eapply m_rrs_step_in. exact H.
  Qed.

  Lemma m_rrs_incl : forall limit l x, In x (m_rrs O limit l) -> In x l.
  Proof.
    intros limit l x. unfold m_rrs. destruct (Nat.ltb limit (length l)); [auto|].
    rewrite cat_somes_in. intros H. apply m_rrs_fold_in in H.
    apply in_map_iff in H. destruct H as [y [Hy Hin]]. congruence.
  Qed.

  (* what `pick` can return *)
  Lemma pick_cases : forall limit os s v, pick O limit os s = Sol v ->
    (In v os /\ acc O v s = true) \/ (v = s /\ is_any O s = true) \/ v = any_inference O.
  Proof.
    intros limit os s v. unfold pick.
    assert (Hf : forall o, In o (filter (fun o => acc O o s) os) -> In o os /\ acc O o s = true)
      by (intros o Ho; apply filter_In in Ho; exact Ho).
    destruct (filter (fun o => acc O o s) os) as [|o1 [|o2 rest]] eqn:Ef.
    - discriminate.
    - intros H. injection H as <-. left. apply Hf. left. reflexivity.
    - destruct (is_any O s) eqn:Es.
      + intros H. injection H as <-. right. left. split; reflexivity.
      + destruct (m_rrs O limit (o1 :: o2 :: rest)) as [|r1 [|r2 rr]] eqn:Er.
        * intros H. injection H as <-. right. right. reflexivity.
        * intros H. injection H as <-. left. apply Hf.
          apply (m_rrs_incl limit). rewrite Er. left. reflexivity.
        * intros H. injection H as <-. right. right. reflexivity.
  Qed.

  Lemma pick_err : forall limit os s,
    is_err (pick O limit os s) = match filter (fun o => acc O o s) os with [] => true | _ => false end.
  Proof.
    intros limit os s. unfold pick.
    destruct (filter (fun o => acc O o s) os) as [|o1 [|o2 rest]]; try reflexivity.
    destruct (is_any O s); [reflexivity|].
    destruct (m_rrs O limit (o1 :: o2 :: rest)) as [|r1 [|r2 rr]]; reflexivity.
  Qed.
End Folds.
