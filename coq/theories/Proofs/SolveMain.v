(* Proofs/SolveMain.v — the C15 theorems about the reference model `msolve`
   (transferred to the generated model in Properties/C15.v through
   Proofs/SolveGen.v). *)
From Coq Require Import List Bool Arith Lia Permutation.
Import ListNotations.
Require Import PV.TypeVar.Base PV.TypeVar.Model PV.TypeVar.Spec PV.Proofs.SolveLaws.

Section Main.
  Context {V : Type} (O : ops V).
  Hypothesis L : acc_laws O.
  Context (limit : nat).

  Lemma lift_acc : forall ls b v l, lower_inv O ls b -> acc O v b = true -> In l ls -> acc O v l = true.
  Proof.
    intros ls b v l (Hub & Hany & _ & _) Hvb Hl.
    destruct (is_any O b) eqn:Eb.
    - apply (acc_any_r O L). apply Hany; [reflexivity|exact Hl].
    - apply (acc_trans O L) with (b := b); [exact Eb|exact Hvb|apply Hub, Hl].
  Qed.

  (* shape of a successful run *)
  Lemma msolve_sol_inv : forall bs v, msolve O limit bs = Sol v ->
    exists s, base_solution O (fold_left (add_lower O) (lowers bs) None)
                              (fold_left (add_upper O) (uppers bs) None) = Sol s /\
      match last_oneof bs with
      | None => v = s
      | Some os => pick O limit os s = Sol v
      end.
  Proof.
    intros bs v. unfold msolve. rewrite mfold_components. unfold mfinish.
    destruct (base_solution O _ _) as [s|]; [|discriminate].
    intros H. exists s. split; [reflexivity|].
    destruct (last_oneof bs) as [os|]; [exact H|congruence].
  Qed.

  (* 1. the solution accepts every lower bound — no guard *)
  Theorem msolve_lower : forall bs v l,
    msolve O limit bs = Sol v -> In l (lowers bs) -> acc O v l = true.
  Proof.
    intros bs v l Hs Hl. apply msolve_sol_inv in Hs. destruct Hs as [s [Hb Hp]].
    pose proof (lower_fold_inv O L (lowers bs)) as Hinv.
    destruct (fold_left (add_lower O) (lowers bs) None) as [b|].
    2:{ rewrite Hinv in Hl. destruct Hl. }
    destruct Hinv as [_ Hinv].
    assert (Hsb : s = b).
    { unfold base_solution in Hb.
      destruct (fold_left (add_upper O) (uppers bs) None) as [t|].
      - destruct (acc O t b); congruence.
      - congruence. }
    subst s.
    destruct (last_oneof bs) as [os|].
    - apply pick_cases in Hp. destruct Hp as [[_ Hvb]|[[-> Hb']| ->]].
      + eapply lift_acc; eassumption.
      + destruct Hinv as (Hub & _). apply Hub, Hl.
      + apply (acc_any_l O L), (any_inference_is_any O L).
    - subst v. destruct Hinv as (Hub & _). apply Hub, Hl.
  Qed.

  (* 2. every upper bound accepts the solution — under the guard *)
  Theorem msolve_upper_partial : forall bs v u,
    msolve O limit bs = Sol v -> uppers_ok O (uppers bs) = true -> oneofs bs = [] ->
    In u (uppers bs) -> acc O u v = true.
  Proof.
    intros bs v u Hs Hok Hno Hu. apply msolve_sol_inv in Hs. destruct Hs as [s [Hb Hp]].
    apply (last_oneof_none bs) in Hno. rewrite Hno in Hp. subst v.
    apply uppers_ok_spec in Hok. destruct Hok as [Hna Hcmp].
    pose proof (upper_fold_inv O L (uppers bs) Hna Hcmp) as Hinv.
    destruct (fold_left (add_upper O) (uppers bs) None) as [t|].
    2:{ rewrite Hinv in Hu. destruct Hu. }
    destruct Hinv as [Ht Hlb]. unfold base_solution in Hb.
    destruct (fold_left (add_lower O) (lowers bs) None) as [b|].
    - destruct (acc O t b) eqn:Etb; [|discriminate]. injection Hb as <-.
      apply (acc_trans O L) with (b := t); [apply Hna, Ht|apply Hlb, Hu|exact Etb].
    - injection Hb as <-. apply Hlb, Hu.
  Qed.

  (* 3. with constraints, the solution is one of them (or Any) — no guard *)
  Theorem msolve_constraints : forall bs v cs,
    msolve O limit bs = Sol v -> last_oneof bs = Some cs -> In v cs \/ is_any O v = true.
  Proof.
    intros bs v cs Hs Hcs. apply msolve_sol_inv in Hs. destruct Hs as [s [Hb Hp]].
    rewrite Hcs in Hp. apply pick_cases in Hp. destruct Hp as [[Hin _]|[[-> Ha]| ->]].
    - left. exact Hin.
    - right. exact Ha.
    - right. apply (any_inference_is_any O L).
  Qed.

  (* ... and Any is only chosen when the unconstrained solution is Any or at
     least two constraints accept it *)
  Theorem msolve_constraints_any_only_when : forall bs v cs,
    msolve O limit bs = Sol v -> last_oneof bs = Some cs -> ~ In v cs ->
    exists s, base_solution O (fold_left (add_lower O) (lowers bs) None)
                              (fold_left (add_upper O) (uppers bs) None) = Sol s /\
              (is_any O s = true \/ 2 <= length (filter (fun o => acc O o s) cs)).
  Proof.
    intros bs v cs Hs Hcs Hnin. apply msolve_sol_inv in Hs. destruct Hs as [s [Hb Hp]].
    rewrite Hcs in Hp. exists s. split; [exact Hb|].
    unfold pick in Hp.
    assert (Hf : forall o, In o (filter (fun o => acc O o s) cs) -> In o cs)
      by (intros o Ho; apply filter_In in Ho; apply Ho).
    destruct (filter (fun o => acc O o s) cs) as [|o1 [|o2 rest]] eqn:Ef.
    - discriminate.
    - injection Hp as <-. exfalso. apply Hnin, Hf. left. reflexivity.
    - right. cbn. lia.
  Qed.

  Lemma single_oneof : forall (bs : list (bound V)) cs, length (oneofs bs) <= 1 -> In cs (oneofs bs) ->
    last_oneof bs = Some cs.
  Proof.
    intros bs cs Hlen Hin. unfold last_oneof.
    destruct (oneofs bs) as [|c [|c' r]]; cbn in *.
    - destruct Hin.
    - destruct Hin as [<-|[]]. reflexivity.
    - lia.
  Qed.

  Lemma sound_guard_spec : forall bs, sound_guard O bs = true ->
    uppers_ok O (uppers bs) = true /\
    (oneofs bs = [] \/ (uppers bs = [] /\ length (oneofs bs) <= 1)).
  Proof.
    intros bs H. unfold sound_guard in H. apply andb_prop in H. destruct H as [H1 H2].
    split; [exact H1|]. apply orb_prop in H2. destruct H2 as [H2|H2].
    - left. destruct (oneofs bs); [reflexivity|discriminate].
    - right. apply andb_prop in H2. destruct H2 as [H2 H3]. split.
      + destruct (uppers bs); [reflexivity|discriminate].
      + apply Nat.leb_le. exact H3.
  Qed.

  (* 4. accepted => the chosen value satisfies all bounds — under the guard *)
  Theorem msolve_sound_partial : forall bs v,
    msolve O limit bs = Sol v -> sound_guard O bs = true -> satisfies O v bs.
  Proof.
    intros bs v Hs Hg. apply sound_guard_spec in Hg. destruct Hg as [Hok Hmix].
    split; [|split].
    - intros l Hl. eapply msolve_lower; eassumption.
    - intros u Hu. destruct Hmix as [Hno|[Hnu _]].
      + eapply msolve_upper_partial; eassumption.
      + rewrite Hnu in Hu. destruct Hu.
    - intros cs Hcs. destruct Hmix as [Hno|[_ Hlen]].
      + rewrite Hno in Hcs. destruct Hcs.
      + eapply msolve_constraints; [exact Hs|]. apply single_oneof; assumption.
  Qed.

  (* "when no such value exists the call is diagnosed" *)
  Theorem msolve_unsat_is_error_partial : forall bs,
    (forall v, ~ satisfies O v bs) -> sound_guard O bs = true -> msolve O limit bs = Err.
  Proof.
    intros bs Hun Hg. destruct (msolve O limit bs) as [v|] eqn:Hs; [|reflexivity].
    exfalso. apply (Hun v). apply msolve_sound_partial; assumption.
  Qed.

  (* converse: an error means no (non-Any) value satisfies the bounds *)
  Theorem msolve_error_means_unsat_partial : forall bs v,
    msolve O limit bs = Err -> sound_guard O bs = true -> is_any O v = false -> ~ satisfies O v bs.
  Proof.
    intros bs v He Hg Hv (Hlo & Hup & Hone).
    apply sound_guard_spec in Hg. destruct Hg as [Hok Hmix].
    apply uppers_ok_spec in Hok. destruct Hok as [Hna Hcmp].
    unfold msolve in He. rewrite mfold_components in He. unfold mfinish in He.
    pose proof (lower_fold_inv O L (lowers bs)) as Hli.
    pose proof (upper_fold_inv O L (uppers bs) Hna Hcmp) as Hui.
    (* v accepts the computed bottom *)
    assert (Hvb : forall b, fold_left (add_lower O) (lowers bs) None = Some b -> acc O v b = true).
    { intros b Eb. rewrite Eb in Hli. destruct Hli as [_ (_ & _ & _ & Hleast)].
      apply Hleast. intros l Hl _. apply Hlo, Hl. }
    destruct (base_solution O _ _) as [s|] eqn:Hb.
    - destruct (last_oneof bs) as [os|] eqn:Hos; [|discriminate].
      assert (Hpe := pick_err O limit os s). rewrite He in Hpe. cbn in Hpe.
      assert (Hin : In os (oneofs bs)) by (apply last_oneof_in; exact Hos).
      destruct (Hone os Hin) as [Hvos|Hva]; [|congruence].
      destruct Hmix as [Hno|[Hnu _]]; [rewrite Hno in Hin; destruct Hin|].
      assert (Hvs : acc O v s = true).
      { unfold base_solution in Hb. rewrite Hnu in Hb. cbn in Hb.
        destruct (fold_left (add_lower O) (lowers bs) None) as [b|] eqn:Eb.
        - injection Hb as <-. apply Hvb. reflexivity.
        - injection Hb as <-. apply (acc_any_r O L), (any_generic_is_any O L). }
      assert (Hf : In v (filter (fun o => acc O o s) os)) by (apply filter_In; split; assumption).
      destruct (filter (fun o => acc O o s) os); [destruct Hf|discriminate].
    - unfold base_solution in Hb.
      destruct (fold_left (add_lower O) (lowers bs) None) as [b|] eqn:Eb;
        destruct (fold_left (add_upper O) (uppers bs) None) as [t|] eqn:Et; try discriminate.
      destruct (acc O t b) eqn:Etb; [discriminate|].
      destruct Hui as [Ht _].
      assert (acc O t b = true); [|congruence].
      apply (acc_trans O L) with (b := v); [exact Hv|apply Hup, Ht|apply Hvb; reflexivity].
  Qed.

  (* ---- 5. order independence of the verdict ---- *)
  Definition veqv (a b : V) : Prop :=
    acc O a b = true /\ acc O b a = true /\ is_any O a = is_any O b.

  Lemma veqv_sym : forall a b, veqv a b -> veqv b a.
  Proof. intros a b (H1 & H2 & H3). repeat split; auto. Qed.

  Lemma acc_eqv_r : forall s s' o, veqv s s' -> acc O o s = true -> acc O o s' = true.
  Proof.
    intros s s' o (H1 & H2 & H3) Ho. destruct (is_any O s) eqn:Es.
    - apply (acc_any_r O L). congruence.
    - apply (acc_trans O L) with (b := s); assumption.
  Qed.

  Lemma perm_in : forall {A} (l l' : list A) x, Permutation l l' -> (In x l <-> In x l').
  Proof.
    intros A l l' x P. split; apply Permutation_in; [exact P|apply Permutation_sym, P].
  Qed.

  Lemma bottoms_equiv : forall ls ls' b b', Permutation ls ls' ->
    fold_left (add_lower O) ls None = Some b -> fold_left (add_lower O) ls' None = Some b' ->
    veqv b b'.
  Proof.
    intros ls ls' b b' P Eb Eb'.
    pose proof (lower_fold_inv O L ls) as H. rewrite Eb in H. destruct H as [_ (Hub & Hany & Hall & Hleast)].
    pose proof (lower_fold_inv O L ls') as H'. rewrite Eb' in H'. destruct H' as [_ (Hub' & Hany' & Hall' & Hleast')].
    repeat split.
    - apply Hleast'. intros l Hl _. apply Hub. apply (perm_in ls ls' l P), Hl.
    - apply Hleast. intros l Hl _. apply Hub'. apply (perm_in ls ls' l P), Hl.
    - destruct (is_any O b) eqn:E1, (is_any O b') eqn:E2; try reflexivity.
      + symmetry. apply Hall'. intros l Hl. apply Hany; [reflexivity|].
        apply (perm_in ls ls' l P), Hl.
      + apply Hall. intros l Hl. apply Hany'; [reflexivity|].
        apply (perm_in ls ls' l P), Hl.
  Qed.

  Lemma fold_lower_none : forall ls, fold_left (add_lower O) ls None = None <-> ls = [].
  Proof.
    intros ls. pose proof (lower_fold_inv O L ls) as H.
    destruct (fold_left (add_lower O) ls None).
    - destruct H as [H _]. split; [discriminate|]. intros; contradiction.
    - split; auto.
  Qed.

  Lemma fold_upper_none : forall us, fold_left (add_upper O) us None = None <-> us = [].
  Proof.
    intros us. destruct us as [|u us] using rev_ind; cbn; [tauto|].
    rewrite fold_left_app. cbn. split.
    - destruct (fold_left (add_upper O) us None) as [t|]; cbn [add_upper]; [|intros H; discriminate H].
      destruct (acc O t u); [intros H; discriminate H|].
      destruct (acc O u t); intros H; discriminate H.
    - intros H. destruct us; discriminate.
  Qed.

  Lemma perm_nil_iff : forall {A} (l l' : list A), Permutation l l' -> (l = [] <-> l' = []).
  Proof.
    intros A l l' P. split; intros ->.
    - apply Permutation_nil. exact P.
    - apply Permutation_nil. apply Permutation_sym. exact P.
  Qed.

  Theorem msolve_perm_verdict_partial : forall bs bs',
    Permutation bs bs' -> perm_guard O bs = true ->
    is_err (msolve O limit bs) = is_err (msolve O limit bs').
  Proof.
    intros bs bs' P Hg. unfold perm_guard in Hg. apply andb_prop in Hg. destruct Hg as [Hok Hlen].
    apply Nat.leb_le in Hlen.
    assert (Pl : Permutation (lowers bs) (lowers bs')) by (apply Permutation_flat_map; exact P).
    assert (Pu : Permutation (uppers bs) (uppers bs')) by (apply Permutation_flat_map; exact P).
    assert (Po : Permutation (oneofs bs) (oneofs bs')) by (apply Permutation_flat_map; exact P).
    apply uppers_ok_spec in Hok. destruct Hok as [Hna Hcmp].
    assert (Hna' : forall a, In a (uppers bs') -> is_any O a = false)
      by (intros a Ha; apply Hna; apply (perm_in _ _ a Pu), Ha).
    assert (Hcmp' : forall a b, In a (uppers bs') -> In b (uppers bs') -> acc O a b = true \/ acc O b a = true)
      by (intros a b Ha Hb; apply Hcmp; [apply (perm_in _ _ a Pu), Ha|apply (perm_in _ _ b Pu), Hb]).
    (* same constraint list *)
    assert (Hop : last_oneof bs = last_oneof bs').
    { unfold last_oneof. destruct (oneofs bs) as [|c [|c' r]] eqn:Eo.
      - apply Permutation_nil in Po. rewrite Po. reflexivity.
      - apply Permutation_length_1_inv in Po. rewrite Po. reflexivity.
      - cbn in Hlen. lia. }
    unfold msolve. rewrite !mfold_components. unfold mfinish. rewrite <- Hop.
    pose proof (upper_fold_inv O L (uppers bs) Hna Hcmp) as Hui.
    pose proof (upper_fold_inv O L (uppers bs') Hna' Hcmp') as Hui'.
    pose proof (fold_lower_none (lowers bs)) as Hln.
    pose proof (fold_lower_none (lowers bs')) as Hln'.
    pose proof (perm_nil_iff _ _ Pl) as Hlnil.
    pose proof (perm_nil_iff _ _ Pu) as Hunil.
    (* the two base solutions are both errors or equivalent values *)
    assert (Hbase :
      match base_solution O (fold_left (add_lower O) (lowers bs) None) (fold_left (add_upper O) (uppers bs) None),
            base_solution O (fold_left (add_lower O) (lowers bs') None) (fold_left (add_upper O) (uppers bs') None) with
      | Err, Err => True
      | Sol s, Sol s' => veqv s s'
      | _, _ => False
      end).
    { destruct (fold_left (add_lower O) (lowers bs) None) as [b|] eqn:Eb;
      destruct (fold_left (add_lower O) (lowers bs') None) as [b'|] eqn:Eb'.
      2:{ exfalso. assert (lowers bs' = []) by (apply Hln'; reflexivity).
          assert (lowers bs = []) by tauto. assert (Some b = None) by (apply Hln; assumption). discriminate. }
      2:{ exfalso. assert (lowers bs = []) by (apply Hln; reflexivity).
          assert (lowers bs' = []) by tauto. assert (Some b' = None) by (apply Hln'; assumption). discriminate. }
      - assert (Hbb : veqv b b') by (exact (bottoms_equiv _ _ _ _ Pl Eb Eb')).
        destruct (fold_left (add_upper O) (uppers bs) None) as [t|] eqn:Et;
        destruct (fold_left (add_upper O) (uppers bs') None) as [t'|] eqn:Et'.
        + destruct Hui as [Ht Hlb]. destruct Hui' as [Ht' Hlb'].
          assert (Htt' : acc O t' t = true) by (apply Hlb; apply (perm_in _ _ t' Pu), Ht').
          assert (Ht't : acc O t t' = true) by (apply Hlb'; apply (perm_in _ _ t Pu), Ht).
          cbn [base_solution].
          destruct (acc O t b) eqn:E1, (acc O t' b') eqn:E2; try exact Hbb; try exact I.
          * assert (acc O t' b' = true); [|congruence].
            eapply acc_eqv_r; [exact Hbb|].
            apply (acc_trans O L) with (b := t); [apply Hna, Ht|exact Htt'|exact E1].
          * assert (acc O t b = true); [|congruence].
            eapply acc_eqv_r; [apply veqv_sym; exact Hbb|].
            apply (acc_trans O L) with (b := t'); [apply Hna', Ht'|exact Ht't|exact E2].
        + exfalso. subst. assert (uppers bs' = []) by (apply fold_upper_none; exact Et').
          assert (uppers bs = []) by tauto. rewrite H0 in Et. discriminate.
        + exfalso. assert (uppers bs = []) by (apply fold_upper_none; exact Et).
          assert (uppers bs' = []) by tauto. rewrite H0 in Et'. discriminate.
        + cbn. exact Hbb.
      - destruct (fold_left (add_upper O) (uppers bs) None) as [t|] eqn:Et;
        destruct (fold_left (add_upper O) (uppers bs') None) as [t'|] eqn:Et'; cbn.
        + destruct Hui as [Ht Hlb]. destruct Hui' as [Ht' Hlb'].
          repeat split.
          * apply Hlb'. apply (perm_in _ _ t Pu), Ht.
          * apply Hlb. apply (perm_in _ _ t' Pu), Ht'.
          * rewrite (Hna t Ht). symmetry. apply Hna'. exact Ht'.
        + assert (uppers bs' = []) by (apply fold_upper_none; exact Et').
          assert (uppers bs = []) by tauto. rewrite H0 in Et. discriminate.
        + assert (uppers bs = []) by (apply fold_upper_none; exact Et).
          assert (uppers bs' = []) by tauto. rewrite H0 in Et'. discriminate.
        + repeat split; apply (acc_refl O L). }
    destruct (base_solution O (fold_left (add_lower O) (lowers bs) None) _) as [s|];
    destruct (base_solution O (fold_left (add_lower O) (lowers bs') None) _) as [s'|];
      try contradiction; [|reflexivity].
    destruct (last_oneof bs) as [os|]; [|reflexivity].
    rewrite !pick_err.
    assert (Hfe : filter (fun o => acc O o s) os = filter (fun o => acc O o s') os).
    { apply filter_ext. intros o.
      destruct (acc O o s) eqn:E1, (acc O o s') eqn:E2; try reflexivity.
      - assert (acc O o s' = true) by (eapply acc_eqv_r; eassumption). congruence.
      - assert (acc O o s = true) by (eapply acc_eqv_r; [apply veqv_sym; exact Hbase|exact E2]). congruence. }
    rewrite Hfe. reflexivity.
  Qed.
End Main.
