(* Proofs/SolveOr.v — OrBound (produced by intersect_bounds_maps when several alternatives
   of a union annotation accept an argument with different bounds) is ignored by solve. *)
From Coq Require Import List Bool Arith.
Import ListNotations.
Require Import PV.TypeVar.Base PV.TypeVar.Model PV.TypeVar.Spec PV.Proofs.SolveGen PV.Gen.Solve.

Section Or.
  Context {V : Type} (O : ops V).

  Lemma mfold_filter_or : forall bs st,
    fold_left (mstep O) (filter (fun b => negb (is_orbound b)) bs) st = fold_left (mstep O) bs st.
  Proof.
    induction bs as [|b bs IH]; intros st; cbn; [reflexivity|].
    destruct b as [v|v| |cs]; cbn; try apply IH.
    rewrite IH. destruct st as [[bo to] op]. reflexivity.
  Qed.

  Theorem solve_ignores_orbound : forall bs,
    solve O (filter (fun b => negb (is_orbound b)) bs) = solve O bs.
  Proof.
    intros bs. rewrite !solve_is_model. unfold msolve, mfold. rewrite mfold_filter_or. reflexivity.
  Qed.

  (* so a type variable that only receives an OrBound is left unconstrained *)
  Theorem intersect_of_distinct_alternatives_is_unconstrained : forall a1 a2 : list (bound V),
    list_eqb (bound_eqb O) a2 a1 = false ->
    solve O (intersect_bounds O [a1; a2]) = Sol (any_generic O).
  Proof.
    intros a1 a2 H. unfold intersect_bounds, dedup. cbn. rewrite H. cbn. reflexivity.
  Qed.
End Or.
