(* Proofs/SubstElim.v — substitution replaces every occurrence of the mapped type variables
   (closed range, well-shaped values without CallableValue). *)
From Coq Require Import ZArith List Bool NArith Lia.
Import ListNotations.
Require Import PV.Core.Obj PV.Core.Val PV.Core.Subst PV.Proofs.ValInd PV.Proofs.Dedup PV.Proofs.Unite.

Section Elim.
  Context (tv : N).

  Lemma occurs_annotate : forall md x, occurs tv (annotate md x) = occurs tv x.
  Proof.
    intros md x. unfold annotate. destruct md as [|m md]; [reflexivity|].
    destruct x as [l|t k|vs].
    - simpl; rewrite ?orb_false_r; reflexivity.
    - destruct t; try (simpl; rewrite ?orb_false_r; reflexivity).
      destruct k as [|y [|z r]]; try (simpl; rewrite ?orb_false_r; reflexivity).
    - simpl; rewrite ?orb_false_r; reflexivity.
  Qed.

  Lemma occurs_flatten : forall v, occurs tv v = false -> forall x, In x (flatten v) -> occurs tv x = false.
  Proof.
    intros v H x Hx. destruct v as [l|t k|vs].
    - destruct Hx as [<-|[]]. exact H.
    - assert (D : flatten (VNode t k) = [VNode t k] \/ exists md vs, t = TAnnot md /\ k = [VUnion vs] /\ flatten (VNode t k) = map (annotate md) vs).
      { destruct t; try (left; reflexivity). destruct k as [|y [|z r]]; [left; reflexivity| |destruct y; left; reflexivity].
        destruct y; try (left; reflexivity). right. eexists. eexists. repeat split. }
      destruct D as [D|[md [vs [-> [-> D]]]]]; rewrite D in Hx.
      + destruct Hx as [<-|[]]. exact H.
      + apply in_map_iff in Hx. destruct Hx as [y [<- Hy]]. rewrite occurs_annotate.
        simpl in H. rewrite orb_false_r in H.
        destruct (occurs tv y) eqn:E; auto. exfalso.
        assert (existsb (occurs tv) vs = true) by (apply existsb_exists; eauto). congruence.
    - simpl in Hx, H. destruct (occurs tv x) eqn:E; auto. exfalso.
      assert (existsb (occurs tv) vs = true) by (apply existsb_exists; eauto). congruence.
  Qed.

  Lemma existsb_false_all : forall (l : list val), (forall x, In x l -> occurs tv x = false) -> existsb (occurs tv) l = false.
  Proof. induction l; simpl; intros H; auto. rewrite H by auto. simpl. apply IHl. auto. Qed.

  Lemma occurs_members : forall l, (forall x, In x l -> occurs tv x = false) ->
    forall y, In y (members l) -> occurs tv y = false.
  Proof.
    intros l H y Hy. unfold members in Hy. apply in_flat_map in Hy. destruct Hy as [v [Hv Hy]].
    eapply occurs_flatten; eauto.
  Qed.

  Lemma occurs_unite : forall E l, (forall x, In x l -> occurs tv x = false) -> occurs tv (unite_with E l) = false.
  Proof.
    intros E l H. rewrite unite_with_unfold.
    assert (HN : forall y, In y (norm E l) -> occurs tv y = false).
    { intros y Hy. apply (occurs_members l H). eapply unite_members_sub; eauto. }
    destruct (norm E l) as [|a [|b r]] eqn:N.
    - destruct (existsb _ _); reflexivity.
    - apply HN. left; auto.
    - unfold mk_union. cbn [occurs]. apply existsb_false_all. intros x Hx.
      apply in_flat_map in Hx. destruct Hx as [v [Hv Hx]]. eapply occurs_flatten; [|exact Hx]. apply HN. exact Hv.
  Qed.

  Lemma closed_no_occurs : forall v, closed v = true -> occurs tv v = false.
  Proof.
    induction v as [l|t k IH|vs IH] using val_ind'; intros H.
    - reflexivity.
    - rewrite Forall_forall in IH.
      destruct t; simpl in H; try discriminate H; simpl; apply existsb_false_all; intros x Hx;
        apply IH; auto; rewrite forallb_forall in H; auto.
    - rewrite Forall_forall in IH. simpl in *. apply existsb_false_all. intros x Hx. apply IH; auto.
      rewrite forallb_forall in H. auto.
  Qed.
End Elim.

Lemma occurs_subclass : forall tv ex x, occurs tv (VNode (TSubclass ex) [x]) = occurs tv x.
Proof. intros. simpl. apply orb_false_r. Qed.

Lemma lookup_none_neq : forall m k tv, lookup k m = None -> In tv (map fst m) -> N.eqb k tv = false.
Proof.
  induction m as [|[a x] m IH]; intros k tv H Hin; [destruct Hin|].
  simpl in H. destruct (N.eqb a k) eqn:E; [discriminate H|].
  destruct Hin as [<-|Hin]; simpl.
  - rewrite N.eqb_sym. exact E.
  - apply IH; auto.
Qed.

Lemma lookup_some_in : forall m k r, lookup k m = Some r -> In (k, r) m.
Proof.
  induction m as [|[a x] m IH]; intros k r H; [discriminate H|].
  simpl in H. destruct (N.eqb a k) eqn:E.
  - apply N.eqb_eq in E. injection H as <-. subst. now left.
  - right. auto.
Qed.

Lemma in_evens : forall l x, In x (evens l) -> In x l.
Proof.
  fix IH 1. intros [|a [|b r]] x H; simpl in H; try contradiction.
  destruct H as [<-|H]; [left; auto|right; right; apply IH; auto].
Qed.
Lemma in_odds : forall l x, In x (odds l) -> In x l.
Proof.
  fix IH 1. intros [|a [|b r]] x H; simpl in H; try contradiction.
  destruct H as [<-|H]; [right; left; auto|right; right; apply IH; auto].
Qed.

Theorem subst_eliminates : forall n m tv v,
  In tv (map fst m) -> (forall k x, In (k, x) m -> closed x = true) -> elim_ok v = true ->
  occurs tv (subst_f n m v) = false.
Proof.
  intros n m tv. induction v as [l|t k IH|vs IH] using val_ind'; intros Hin Hcl Hnc.
  - destruct l; simpl; try reflexivity; destruct (nonempty m && callable o); reflexivity.
  - rewrite Forall_forall in IH.
    assert (Hk : forall l, (forall x, In x l -> In x k) -> forall y, In y (map (subst_f n m) l) -> occurs tv y = false).
    { intros l Hl y Hy. apply in_map_iff in Hy. destruct Hy as [x [<- Hx]]. apply IH; auto.
      assert (Hf : forallb elim_ok k = true).
      { clear - Hnc. destruct t; simpl in Hnc; try discriminate Hnc; try exact Hnc;
          apply andb_true_iff in Hnc; tauto. }
      rewrite forallb_forall in Hf; auto. }
    destruct t; cbn [subst_f].
    + cbn [occurs]. apply existsb_false_all. apply Hk. auto.
    + destruct k as [|a ms]; [discriminate Hnc|]. cbn [occurs existsb]. apply orb_false_iff. split.
      * unfold seq_arg. destruct (map (subst_f n m) ms) eqn:Em; [reflexivity|]. rewrite <- Em.
        apply occurs_unite. apply Hk. intros x Hx. right; auto.
      * apply existsb_false_all. apply Hk. intros x Hx. right; auto.
    + destruct k as [|a [|b kvs]]; try discriminate Hnc.
      cbn [occurs]. apply existsb_false_all. intros y Hy. apply in_app_or in Hy. destruct Hy as [Hy|Hy].
      * unfold dict_args in Hy. destruct (map (subst_f n m) kvs) eqn:Em; [destruct Hy as [<-|[<-|[]]]; reflexivity|].
        rewrite <- Em in Hy. destruct Hy as [<-|[<-|[]]]; apply occurs_unite; intros x Hx.
        -- apply in_evens in Hx. eapply Hk; [|exact Hx]. intros z Hz. right; right; auto.
        -- apply in_odds in Hx. eapply Hk; [|exact Hx]. intros z Hz. right; right; auto.
      * eapply Hk; [|exact Hy]. intros z Hz. right; right; auto.
    + destruct k as [|a es]; [discriminate Hnc|]. cbn [occurs existsb]. apply orb_false_iff. split.
      * unfold seq_arg. destruct (map (subst_f n m) es) eqn:Em; [reflexivity|]. rewrite <- Em.
        apply occurs_unite. apply Hk. intros x Hx. right; auto.
      * apply existsb_false_all. apply Hk. intros x Hx. right; auto.
    + destruct k as [|t0 [|t1 r]]; try discriminate Hnc.
      assert (H0 : occurs tv (subst_f n m t0) = false).
      { apply IH; auto. left; auto. simpl in Hnc. apply andb_true_iff in Hnc. tauto. }
      unfold subclass_make.
      assert (M1 : forall ex x, occurs tv x = false -> occurs tv (subclass_make1 ex x) = false).
      { intros ex x Hx. unfold subclass_make1.
        destruct x as [lx|tx kx|vx]; try reflexivity.
        - destruct lx; try reflexivity; rewrite occurs_subclass; reflexivity.
        - destruct tx; try reflexivity; rewrite occurs_subclass; exact Hx. }
      destruct (subst_f n m t0) as [lx|tx kx|vx] eqn:Es; try (apply M1; exact H0).
      apply occurs_unite. intros y Hy. apply in_map_iff in Hy. destruct Hy as [x [<- Hx]]. apply M1.
      simpl in H0. destruct (occurs tv x) eqn:E; auto. exfalso.
      assert (existsb (occurs tv) vx = true) by (apply existsb_exists; eauto). congruence.
    + cbn [occurs]. apply existsb_false_all. apply Hk. auto.
    + destruct (lookup tv0 m) as [r|] eqn:L.
      * apply closed_no_occurs. eapply Hcl. eapply lookup_some_in; eauto.
      * cbn [occurs]. eapply lookup_none_neq; eauto.
    + discriminate Hnc.
  - rewrite Forall_forall in IH. cbn [subst_f].
    destruct (nonempty vs && nonempty m) eqn:Ne.
    + apply occurs_unite. intros y Hy. apply in_map_iff in Hy. destruct Hy as [x [<- Hx]]. apply IH; auto.
      simpl in Hnc. rewrite forallb_forall in Hnc. auto.
    + destruct vs; [reflexivity|]. destruct m; [destruct Hin|discriminate Ne].
Qed.
