(* Proofs/SubstLaws.v — substitution is the identity on closed canonical values. *)
From Coq Require Import ZArith List Bool NArith Lia.
Import ListNotations.
Require Import PV.Core.Obj PV.Core.Val PV.Core.Subst PV.Proofs.ValInd PV.Proofs.UniteLaws.

Lemma map_id_in : forall {A} (f : A -> A) l, (forall x, In x l -> f x = x) -> map f l = l.
Proof. induction l; simpl; intros H; auto. rewrite H by auto. f_equal. apply IHl. auto. Qed.

Lemma forall2b_refl_in : forall (f : val -> val -> bool) l, (forall x, In x l -> f x x = true) -> forall2b f l l = true.
Proof. induction l; simpl; intros H; auto. rewrite H by auto. simpl. apply IHl. auto. Qed.

(* the local conjunction used by [canonical] *)
Lemma canonical_all : forall n l,
  (fix all (l : list val) : Prop := match l with [] => True | x :: r => canonical n x /\ all r end) l ->
  forall x, In x l -> canonical n x.
Proof.
  induction l as [|a l IH]; intros H x Hx; [destruct Hx|].
  destruct H as [Ha Hl]. destruct Hx as [<-|Hx]; auto.
Qed.

Theorem subst_id_on_closed : forall n m v, closed v = true -> canonical n v -> subst_f n m v = v.
Proof.
  intros n m. induction v as [l|t k IH|vs IH] using val_ind'; intros Hc Hk.
  - destruct l; try reflexivity; simpl in *.
    + apply negb_true_iff in Hc. rewrite Hc, andb_false_r. reflexivity.
    + apply negb_true_iff in Hc. rewrite Hc, andb_false_r. reflexivity.
  - rewrite Forall_forall in IH.
    assert (Hkids : forall x, In x k -> closed x = true).
    { destruct t; simpl in Hc; try discriminate; rewrite forallb_forall in Hc; exact Hc. }
    cbn [canonical] in Hk. destruct Hk as [Hall Hder].
    assert (Hcan := canonical_all n k Hall).
    assert (Hmap : forall l, (forall x, In x l -> In x k) -> map (subst_f n m) l = l).
    { intros l Hl. apply map_id_in. intros x Hx. apply IH; auto. }
    destruct t; cbn [subst_f].
    + rewrite (Hmap k); auto.
    + destruct k as [|a ms]; [reflexivity|]. rewrite (Hmap ms) by (intros x Hx; right; exact Hx).
      cbv iota beta in Hder. rewrite <- Hder. reflexivity.
    + destruct k as [|a [|b kvs]]; try reflexivity.
      rewrite (Hmap kvs) by (intros x Hx; right; right; exact Hx). rewrite <- Hder. reflexivity.
    + destruct k as [|a es]; [reflexivity|]. rewrite (Hmap es) by (intros x Hx; right; exact Hx).
      cbv iota beta in Hder. rewrite <- Hder. reflexivity.
    + destruct k as [|t0 [|t1 r]]; try reflexivity.
      cbv iota beta in Hder. rewrite (IH t0 (or_introl eq_refl)); [exact Hder|apply Hkids; left; reflexivity|apply Hcan; left; reflexivity].
    + rewrite (Hmap k); auto.
    + discriminate Hc.
    + rewrite (Hmap k) by auto. destruct (forall2b (veq_f n) k k); reflexivity.
  - rewrite Forall_forall in IH. cbn [canonical] in Hk. destruct Hk as [Hall Hfix].
    assert (Hcan := canonical_all n vs Hall).
    simpl in Hc. rewrite forallb_forall in Hc. cbn [subst_f].
    destruct (nonempty vs && nonempty m) eqn:Ne; [|reflexivity].
    rewrite (map_id_in (subst_f n m) vs) by (intros x Hx; apply IH; auto).
    apply Hfix. intros ->. discriminate Ne.
Qed.
