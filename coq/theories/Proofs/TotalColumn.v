(* Proofs/TotalColumn.v — the reported column is inside the line for ASCII lines, and is
   never left of the character position; it can leave the line otherwise (C12). *)
From Coq Require Import List Bool Arith Lia.
Import ListNotations.
Require Import PV.Total.Column.

Lemma byte_offset_ascii : forall ws k, all_ascii ws = true -> k <= length ws -> byte_offset ws k = k.
Proof.
  induction ws as [|w t IH]; intros k Ha Hk; destruct k as [|k]; cbn in *; try reflexivity; try lia.
  apply andb_true_iff in Ha. destruct Ha as [Hw Ht]. destruct w as [|[|w']]; try discriminate Hw.
  rewrite IH; [reflexivity|exact Ht|lia].
Qed.

Theorem col_in_line_ascii : forall ws k, all_ascii ws = true -> k <= length ws -> col_in_line ws k = true.
Proof.
  intros ws k Ha Hk. unfold col_in_line, reported_col. rewrite byte_offset_ascii by assumption. apply Nat.leb_le. exact Hk.
Qed.

Theorem col_not_left_of_character : forall ws k, wellformed_widths ws = true -> k <= length ws -> k <= reported_col ws k.
Proof.
  unfold reported_col. induction ws as [|w t IH]; intros k Hw Hk; destruct k as [|k]; cbn in *; try lia.
  apply andb_true_iff in Hw. destruct Hw as [Hw Ht]. destruct w as [|w']; [discriminate Hw|].
  specialize (IH k Ht). lia.
Qed.

(* every wide character before the node pushes the column right by its extra bytes *)
Lemma byte_offset_firstn : forall ws k, wellformed_widths ws = true -> k <= length ws ->
  byte_offset ws k = k + fold_right (fun w acc => (w - 1) + acc) 0 (firstn k ws).
Proof.
  induction ws as [|w t IH]; intros k Hw Hk; destruct k as [|k]; cbn in *; try lia.
  apply andb_true_iff in Hw. destruct Hw as [Hw Ht]. destruct w as [|w']; [discriminate Hw|].
  rewrite (IH k Ht) by lia. lia.
Qed.

Definition col_in_line_full_statement : Prop :=
  forall ws k, wellformed_widths ws = true -> k <= length ws -> col_in_line ws k = true.

Lemma col_in_line_refuted : ~ col_in_line_full_statement.
Proof.
  intros H. specialize (H [2; 2; 1] 3 eq_refl). cbn in H. assert (3 <= 3) by lia. specialize (H H0). discriminate.
Qed.

(* ------------------------------------------------------------------ *)
(* the repaired conversion *)
Lemma chars_before_le_length : forall ws b, chars_before ws b <= length ws.
Proof.
  induction ws as [|w t IH]; intros b; cbn; [lia|]. destruct (w <=? b); [specialize (IH (b - w)); lia|lia].
Qed.

Lemma chars_before_byte_offset : forall ws k, wellformed_widths ws = true -> k <= length ws ->
  chars_before ws (byte_offset ws k) = k.
Proof.
  induction ws as [|w t IH]; intros k Hw Hk; destruct k as [|k]; cbn in *; try lia.
  - destruct w as [|w']; [apply andb_true_iff in Hw; destruct Hw as [Hw _]; discriminate Hw|]. reflexivity.
  - apply andb_true_iff in Hw. destruct Hw as [Hw Ht].
    assert (E : (w <=? w + byte_offset t k) = true) by (apply Nat.leb_le; lia). rewrite E.
    replace (w + byte_offset t k - w) with (byte_offset t k) by lia. rewrite (IH k Ht) by lia. reflexivity.
Qed.

(* with the conversion the reported column is the character position -- inside the line for
   EVERY line, and even for a byte offset that does not fall on a character boundary *)
Theorem converted_col_in_line : forall ws k, wellformed_widths ws = true -> k <= length ws ->
  reported_col_gen true ws k = k /\ reported_col_gen true ws k <= length ws.
Proof.
  intros ws k Hw Hk. unfold reported_col_gen. rewrite chars_before_byte_offset by assumption. split; [reflexivity|exact Hk].
Qed.

Theorem converted_col_never_outside : forall ws b, chars_before ws b <= length ws.
Proof. exact chars_before_le_length. Qed.
